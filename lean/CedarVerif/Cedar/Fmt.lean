/-
Model of the Cedar policy formatter (cedar-policy-formatter/src/pprint/{lexer,token,utils,doc}.rs) — C12.
Import-free, total, computable.

  §1  mirror of the formatter's lexer (`token.rs`, logos rules) and of the comment-attachment rule of
      `lexer.rs::get_token_stream` (text between two tokens is split at its first '\n': the part before is the
      *trailing* comment of the left token, the comments of the part after are the *leading* comments of the
      right token; what follows the first '\n' after the last token are the end-of-file comments).
      Checked against the real lexer by the driver op `(fmt-tokens "text")` on every generated text.
  §2  an abstract document algebra (`nil | text | space | line | softline | hardline | nest | group | cat`)
      with a Wadler-style renderer `render w` (worklist formulation, `fits` as in Wadler / the `pretty` crate);
      the renderer is parameterised by an arbitrary *chooser* of flat/break per group (`bestWith`), `render w`
      is the instance `fits w`.
  §3  the wrapped-token → doc rule of `utils.rs::add_comment`, a core of the expression CST with *resolved*
      tokens (each terminal carries the wrapped token that the span lookup of `utils.rs` finds for it) and the
      mirror `toDoc` of `doc.rs` for that core, including the way `doc.rs` treats a trailing comma
      (`Comma<E>` of the grammar): the comma token is not emitted and nobody fetches its comments.
      `toDocFixed` is the variant that emits the comments of a dropped trailing comma (proposed repair).
  §4  the policy level with resolved tokens: `Annotation`, `VariableDef` (`is` type, `==`/`in` constraint), `Cond`
      (`when`/`unless` with braces, hoisting of the body's leading comments), `Policy` (scope with its commas, the
      trailing comma whose comments are kept since /repo commit e8fc4bb, the bare / constrained scope layouts) —
      `policyToDoc` — and the joining of policies + end-of-file comments of fmt.rs (`renderPolicies`).
-/
namespace Cedar.Fmt

/-! ## §1 lexer mirror -/

/-- Unicode `White_Space` (what `\s` of the regex/logos crates and `str::trim` use) -/
def isWs (c : Char) : Bool :=
  let n := c.toNat
  (9 ≤ n && n ≤ 13) || n == 32 || n == 0x85 || n == 0xA0 || n == 0x1680 || (0x2000 ≤ n && n ≤ 0x200A)
    || n == 0x2028 || n == 0x2029 || n == 0x202F || n == 0x205F || n == 0x3000

def isDigit (c : Char) : Bool := '0' ≤ c && c ≤ '9'
def isIdStart (c : Char) : Bool := c == '_' || ('a' ≤ c && c ≤ 'z') || ('A' ≤ c && c ≤ 'Z')
def isIdCont (c : Char) : Bool := isIdStart c || isDigit c
def isEol (c : Char) : Bool := c == '\n' || c == '\r'

structure Tok where
  kind : String
  text : List Char
deriving Repr, DecidableEq

/-- keyword table of `token.rs` (`#[token("…")]` beats the identifier regex on equal length) -/
def keywordKind (s : String) : String :=
  match s with
  | "true" => "True" | "false" => "False" | "if" => "If" | "permit" => "Permit" | "forbid" => "Forbid"
  | "when" => "When" | "unless" => "Unless" | "in" => "In" | "has" => "Has" | "like" => "Like" | "is" => "Is"
  | "then" => "Then" | "else" => "Else" | "principal" => "Principal" | "action" => "Action"
  | "resource" => "Resource" | "context" => "Context"
  | _ => "Identifier"

/-- `span p xs = (longest prefix satisfying p, rest)` -/
def spanChars (p : Char → Bool) : List Char → List Char × List Char
  | [] => ([], [])
  | c :: cs => if p c then let (a, b) := spanChars p cs; (c :: a, b) else ([], c :: cs)

/-- body of a string literal after the opening quote: `(\\.|[^"\\])*"`; `.` does not match '\n'.
    returns (body including the closing quote, rest) -/
def lexStrBody : List Char → Option (List Char × List Char)
  | [] => none
  | '"' :: rest => some (['"'], rest)
  | '\\' :: c :: rest =>
    if c == '\n' then none
    else match lexStrBody rest with
      | some (b, r) => some ('\\' :: c :: b, r)
      | none => none
  | ['\\'] => none
  | c :: rest =>
    match lexStrBody rest with
    | some (b, r) => some (c :: b, r)
    | none => none

def startsWith (p : List Char) (xs : List Char) : Bool := p.isPrefixOf xs

/-- one token at the head of `xs` (which does not start with whitespace or a comment); `none` = lexer error.
    Longest match, as logos does. -/
def lexOne (xs : List Char) : Option (Tok × List Char) :=
  match xs with
  | [] => none
  | '"' :: rest =>
    match lexStrBody rest with
    | some (b, r) => some (⟨"Str", '"' :: b⟩, r)
    | none => none
  | '?' :: rest =>
    if startsWith "principal".toList rest then some (⟨"PrincipalSlot", "?principal".toList⟩, rest.drop 9)
    else if startsWith "resource".toList rest then some (⟨"ResourceSlot", "?resource".toList⟩, rest.drop 8)
    else none
  | '@' :: r => some (⟨"At", ['@']⟩, r)
  | '.' :: r => some (⟨"Dot", ['.']⟩, r)
  | ',' :: r => some (⟨"Comma", [',']⟩, r)
  | ';' :: r => some (⟨"SemiColon", [';']⟩, r)
  | ':' :: ':' :: r => some (⟨"DoubleColon", [':', ':']⟩, r)
  | ':' :: r => some (⟨"Colon", [':']⟩, r)
  | '(' :: r => some (⟨"LParen", ['(']⟩, r)
  | ')' :: r => some (⟨"RParen", [')']⟩, r)
  | '{' :: r => some (⟨"LBrace", ['{']⟩, r)
  | '}' :: r => some (⟨"RBrace", ['}']⟩, r)
  | '[' :: r => some (⟨"LBracket", ['[']⟩, r)
  | ']' :: r => some (⟨"RBracket", [']']⟩, r)
  | '=' :: '=' :: r => some (⟨"Equal", ['=', '=']⟩, r)
  | '!' :: '=' :: r => some (⟨"NotEqual", ['!', '=']⟩, r)
  | '!' :: r => some (⟨"Neg", ['!']⟩, r)
  | '<' :: '=' :: r => some (⟨"Le", ['<', '=']⟩, r)
  | '<' :: r => some (⟨"Lt", ['<']⟩, r)
  | '>' :: '=' :: r => some (⟨"Ge", ['>', '=']⟩, r)
  | '>' :: r => some (⟨"Gt", ['>']⟩, r)
  | '|' :: '|' :: r => some (⟨"Or", ['|', '|']⟩, r)
  | '&' :: '&' :: r => some (⟨"And", ['&', '&']⟩, r)
  | '+' :: r => some (⟨"Add", ['+']⟩, r)
  | '-' :: r => some (⟨"Dash", ['-']⟩, r)
  | '*' :: r => some (⟨"Mul", ['*']⟩, r)
  | '/' :: r => some (⟨"Div", ['/']⟩, r)
  | '%' :: r => some (⟨"Modulo", ['%']⟩, r)
  | c :: r =>
    if isIdStart c then
      let (a, rest) := spanChars isIdCont r
      some (⟨keywordKind (String.ofList (c :: a)), c :: a⟩, rest)
    else if isDigit c then
      let (a, rest) := spanChars isDigit r
      some (⟨"Number", c :: a⟩, rest)
    else none

/-- the skipped text at the head of `xs`: whitespace (`\s+`) and comments (`//[^\n\r]*[\n\r]*`); fuel = length -/
def skipGap : Nat → List Char → List Char × List Char
  | 0, xs => ([], xs)
  | fuel + 1, xs =>
    match xs with
    | '/' :: '/' :: rest =>
      let (body, r1) := spanChars (fun c => !isEol c) rest
      let (eols, r2) := spanChars isEol r1
      let (g, r3) := skipGap fuel r2
      ('/' :: '/' :: (body ++ eols ++ g), r3)
    | c :: rest =>
      if isWs c then
        let (g, r) := skipGap fuel rest
        (c :: g, r)
      else ([], xs)
    | [] => ([], [])

/-- a token together with the skipped text before it -/
structure Raw where
  gap : List Char
  tok : Tok
deriving Repr

/-- all tokens with the gaps before them, and the final gap; `none` = some lexer error (then
    `get_token_stream` returns `None`). fuel = length + 1 -/
def lexAll : Nat → List Char → Option (List Raw × List Char)
  | 0, _ => none
  | fuel + 1, xs =>
    let (g, r) := skipGap (fuel + 1) xs
    match r with
    | [] => some ([], g)
    | _ =>
      match lexOne r with
      | none => none
      | some (t, r') =>
        match lexAll fuel r' with
        | none => none
        | some (ts, fin) => some (⟨g, t⟩ :: ts, fin)

def trimLeft : List Char → List Char
  | [] => []
  | c :: cs => if isWs c then trimLeft cs else c :: cs

def trim (xs : List Char) : List Char := (trimLeft (trimLeft xs).reverse).reverse

/-- `get_comment`: all matches of `//[^\n\r]*`, each trimmed -/
def getComments : Nat → List Char → List (List Char)
  | 0, _ => []
  | fuel + 1, xs =>
    match xs with
    | '/' :: '/' :: rest =>
      let (body, r) := spanChars (fun c => !isEol c) rest
      trim ('/' :: '/' :: body) :: getComments fuel r
    | _ :: rest => getComments fuel rest
    | [] => []

def comments (xs : List Char) : List (List Char) := getComments (xs.length + 1) xs

/-- `str::split_once('\n')` with the `unwrap_or((text, ""))` default -/
def splitNl : List Char → List Char × List Char
  | [] => ([], [])
  | c :: cs => if c == '\n' then ([], cs) else let (a, b) := splitNl cs; (c :: a, b)

/-- a token with its attached comments (`WrappedToken` + `Comment` of token.rs) -/
structure WTok where
  kind : String
  text : List Char
  leading : List (List Char)
  trailing : List Char
deriving Repr, DecidableEq

/-- the attachment loop of `get_token_stream`: `lead` = leading comments of the current token -/
def attach : List (List Char) → Tok → List Raw → List Char → List WTok × List (List Char)
  | lead, cur, [], fin =>
    let (tr, eof) := splitNl fin
    ([⟨cur.kind, cur.text, lead, trim tr⟩], comments eof)
  | lead, cur, nxt :: rest, fin =>
    let (tr, ld) := splitNl nxt.gap
    let (ws, eof) := attach (comments ld) nxt.tok rest fin
    (⟨cur.kind, cur.text, lead, trim tr⟩ :: ws, eof)

/-- `get_token_stream` -/
def tokenStream (input : List Char) : Option (List WTok × List (List Char)) :=
  match lexAll (input.length + 1) input with
  | none => none
  | some ([], fin) => some ([], comments fin)
  | some (first :: rest, fin) => some (attach (comments first.gap) first.tok rest fin)

/-! ## §2 documents and the renderer -/

/-- what a `text` can be: a token or a comment (`//…`) -/
inductive Atom where
  | tok (s : List Char)
  | com (s : List Char)
deriving Repr, DecidableEq

def Atom.width : Atom → Nat
  | .tok s => s.length
  | .com s => s.length

inductive Doc where
  | nil
  | text (a : Atom)
  | space                       -- RcDoc::space()  = text " "
  | line                        -- RcDoc::line()   : " " when flat, newline when broken
  | softline                    -- RcDoc::line_()  : ""  when flat, newline when broken
  | hardline
  | nest (i : Nat) (d : Doc)
  | group (d : Doc)
  | cat (a b : Doc)
deriving Repr

instance : Append Doc := ⟨Doc.cat⟩

inductive Item where
  | atom (a : Atom)
  | sp
  | nl (indent : Nat)
deriving Repr, DecidableEq

def Doc.size : Doc → Nat
  | .nest _ d => d.size + 1
  | .group d => d.size + 1
  | .cat a b => a.size + b.size + 1
  | _ => 1

/-- (indentation, flat?, document) -/
abbrev Cmd := Nat × Bool × Doc

def cmdsSize : List Cmd → Nat
  | [] => 0
  | (_, _, d) :: r => d.size + cmdsSize r

/-- does the rest of the current line fit into width `w`?  (Wadler's `fits`; the head command is normally in
    flat mode, the rest of the worklist in its own modes; a newline ends the line) -/
def fits (w : Nat) : Nat → List Cmd → Bool
  | _, [] => true
  | col, (_, _, .nil) :: r => fits w col r
  | col, (_, _, .text a) :: r => if col + a.width > w then false else fits w (col + a.width) r
  | col, (_, _, .space) :: r => if col + 1 > w then false else fits w (col + 1) r
  | col, (_, true, .line) :: r => if col + 1 > w then false else fits w (col + 1) r
  | _, (_, false, .line) :: _ => true
  | col, (_, true, .softline) :: r => fits w col r
  | _, (_, false, .softline) :: _ => true
  | _, (_, flat, .hardline) :: _ => !flat
  | col, (i, m, .nest j d) :: r => fits w col ((i + j, m, d) :: r)
  | col, (i, m, .group d) :: r => fits w col ((i, m, d) :: r)   -- `fitting` of pretty 0.12 keeps the mode (the head group is flat, groups of the rest are in break mode)
  | col, (i, m, .cat a b) :: r => fits w col ((i, m, a) :: (i, m, b) :: r)
termination_by _ cs => cmdsSize cs
decreasing_by all_goals (simp only [cmdsSize, Doc.size]; omega)

/-- the layout loop with an arbitrary decision procedure `ch col worklist` for "lay this group out flat?" -/
def bestWith (ch : Nat → List Cmd → Bool) : Nat → List Cmd → List Item
  | _, [] => []
  | col, (_, _, .nil) :: r => bestWith ch col r
  | col, (_, _, .text a) :: r => .atom a :: bestWith ch (col + a.width) r
  | col, (_, _, .space) :: r => .sp :: bestWith ch (col + 1) r
  | col, (_, true, .line) :: r => .sp :: bestWith ch (col + 1) r
  | _, (i, false, .line) :: r => .nl i :: bestWith ch i r
  | col, (_, true, .softline) :: r => bestWith ch col r
  | _, (i, false, .softline) :: r => .nl i :: bestWith ch i r
  | _, (i, _, .hardline) :: r => .nl i :: bestWith ch i r
  | col, (i, m, .nest j d) :: r => bestWith ch col ((i + j, m, d) :: r)
  | col, (i, true, .group d) :: r => bestWith ch col ((i, true, d) :: r)
  | col, (i, false, .group d) :: r => bestWith ch col ((i, ch col ((i, true, d) :: r), d) :: r)
  | col, (i, m, .cat a b) :: r => bestWith ch col ((i, m, a) :: (i, m, b) :: r)
termination_by _ cs => cmdsSize cs
decreasing_by all_goals (simp only [cmdsSize, Doc.size]; omega)

/-- Wadler-style pretty printing to width `w` -/
def render (w : Nat) (d : Doc) : List Item := bestWith (fits w) 0 [(0, false, d)]

def Item.chars : Item → List Char
  | .atom (.tok s) => s
  | .atom (.com s) => s
  | .sp => [' ']
  | .nl i => '\n' :: List.replicate i ' '

def itemsToString (xs : List Item) : String := String.ofList (xs.flatMap Item.chars)

/-- the atoms of a layout: everything that is not whitespace -/
def itemsAtoms : List Item → List Atom
  | [] => []
  | .atom a :: r => a :: itemsAtoms r
  | _ :: r => itemsAtoms r

/-- the atoms of a document, left to right -/
def docAtoms : Doc → List Atom
  | .text a => [a]
  | .nest _ d => docAtoms d
  | .group d => docAtoms d
  | .cat a b => docAtoms a ++ docAtoms b
  | _ => []

def cmdsAtoms : List Cmd → List Atom
  | [] => []
  | (_, _, d) :: r => docAtoms d ++ cmdsAtoms r

/-! ### comment safety: a `//` comment swallows the rest of its line -/

/-- what a lexer sees in a layout: a comment swallows every atom up to the next newline.
    `pending` = a comment has been emitted on the current line. `none` = some token was swallowed. -/
def itemsVisible : Bool → List Item → Option (List Atom)
  | _, [] => some []
  | pending, .atom (.com c) :: r => (itemsVisible true r).map (fun as => Atom.com c :: as) |> fun x => if pending then none else x
  | pending, .atom (.tok t) :: r => if pending then none else (itemsVisible false r).map (fun as => Atom.tok t :: as)
  | pending, .sp :: r => itemsVisible pending r
  | _, .nl _ :: r => itemsVisible false r

/-- the document-level discipline that makes every layout comment-safe: after a comment the next thing that is
    not `space`/`nil` is a `hardline` (only a hardline is a newline in *every* layout). State machine over the
    left-to-right leaves: `some pending` / `none` = violated. -/
def docSafe : Bool → Doc → Option Bool
  | pending, .nil => some pending
  | pending, .text (.com _) => if pending then none else some true
  | pending, .text (.tok _) => if pending then none else some false
  | pending, .space => some pending
  | pending, .line => some pending        -- may be a space: does not discharge a pending comment
  | pending, .softline => some pending
  | _, .hardline => some false
  | pending, .nest _ d => docSafe pending d
  | pending, .group d => docSafe pending d
  | pending, .cat a b => match docSafe pending a with
    | some p => docSafe p b
    | none => none

def cmdsSafe : Bool → List Cmd → Option Bool
  | pending, [] => some pending
  | pending, (_, _, d) :: r => match docSafe pending d with
    | some p => cmdsSafe p r
    | none => none

/-! ## §3 wrapped tokens → documents; the CST core -/

def hardSep : List (List Char) → Doc
  | [] => .nil
  | [c] => .text (.com c)
  | c :: cs => .text (.com c) ++ (.hardline ++ hardSep cs)

/-- `get_leading_comment_doc_from_str` -/
def leadingDoc (cs : List (List Char)) : Doc :=
  if cs.isEmpty then .nil else .hardline ++ (hardSep cs ++ .hardline)

/-- `get_trailing_comment_doc_from_str` -/
def trailingDoc (t : List Char) (next : Doc) : Doc :=
  if t.isEmpty then next else .space ++ (.text (.com t) ++ .hardline)

/-- `add_comment(d, comment, next_doc)` -/
def addComment (d : Doc) (lead : List (List Char)) (trail : List Char) (next : Doc) : Doc :=
  leadingDoc lead ++ (d ++ trailingDoc trail next)

/-- a token printed with its comments: `add_comment(text(tok), comment_of(tok), next)` -/
def tokDoc (t : WTok) (next : Doc := .nil) : Doc :=
  addComment (.text (.tok t.text)) t.leading t.trailing next

/-- only the comments of a token that is itself dropped (the proposed repair for trailing commas) -/
def commentsOnlyDoc (t : WTok) : Doc := addComment .nil t.leading t.trailing .nil

/-- the atoms a wrapped token stands for in the source, in source order -/
def wtokAtoms (t : WTok) : List Atom :=
  t.leading.map Atom.com ++ [Atom.tok t.text] ++ (if t.trailing.isEmpty then [] else [Atom.com t.trailing])

def wtokComments (t : WTok) : List Atom :=
  t.leading.map Atom.com ++ (if t.trailing.isEmpty then [] else [Atom.com t.trailing])

inductive ChainKind where
  | or | and | add | mult | path
deriving Repr, DecidableEq

mutual
/-- core of the expression CST (cst.rs) with resolved tokens -/
inductive Cst where
  /-- Literal / Ident / Slot / Str: one token -/
  | leaf (t : WTok)
  /-- Primary::Expr `( e )` -/
  | paren (l : WTok) (e : Cst) (r : WTok)
  /-- Unary: `!`/`-` operators (1..4) and the operand -/
  | unary (ops : List WTok) (e : Cst)
  /-- Or / And / Add / Mult (`initial` + `extended`), and a Name path / entity reference `A::B::"x"` -/
  | chain (k : ChainKind) (first : Cst) (rest : Chain)
  /-- Relation::Common with one operator, Relation::Has, Relation::Like, `e is T` -/
  | rel (a : Cst) (op : WTok) (b : Cst)
  /-- Relation::IsIn with the `in` part -/
  | isIn (a : Cst) (isT : WTok) (ty : Cst) (inT : WTok) (e : Cst)
  /-- if c then t else e -/
  | ite (i : WTok) (c : Cst) (t : WTok) (a : Cst) (e : WTok) (b : Cst)
  /-- Primary::EList `[ … ]` and Primary::RInits `{ … }` (`Comma<E>`) -/
  | brack (l : WTok) (args : Args) (r : WTok)
  /-- RecInit `k : v` -/
  | recInit (k : Cst) (colon : WTok) (v : Cst)
  /-- Member: item followed by accesses -/
  | member (item : Cst) (accs : Accs)
/-- `Comma<E>`: `(E ",")* E?` -/
inductive Args where
  | nil
  /-- the last element, optionally followed by a trailing comma -/
  | last (e : Cst) (trailingComma : Option WTok)
  | cons (e : Cst) (comma : WTok) (rest : Args)
inductive Chain where
  | nil
  | cons (op : WTok) (e : Cst) (rest : Chain)
/-- MemAccess list -/
inductive Accs where
  | nil
  | field (dot : WTok) (name : WTok) (rest : Accs)
  | call (l : WTok) (args : Args) (r : WTok) (rest : Accs)
  | index (l : WTok) (e : Cst) (r : WTok) (rest : Accs)
end

/-- `RcDoc::intersperse(member.access, line_())`: a soft line BETWEEN two accesses, none after the last -/
def accSep : Accs → Doc
  | .nil => .nil
  | _ => .softline

def Args.isNil : Args → Bool
  | .nil => true
  | _ => false

/-- the arguments of a method call: nothing between the parentheses of `f()`, otherwise
    `line_().append(args).nest(iw).append(line_())` -/
def callArgsDoc (iw : Nat) (isNil : Bool) (argsDoc : Doc) : Doc :=
  if isNil then .nil else .nest iw (.softline ++ argsDoc) ++ .softline

def opsDoc : List WTok → Doc
  | [] => .nil
  | t :: ts => tokDoc t ++ opsDoc ts

def opsAtoms : List WTok → List Atom
  | [] => []
  | t :: ts => wtokAtoms t ++ opsAtoms ts

/-- what to do with a trailing comma: `false` = doc.rs as it is (dropped with its comments),
    `true` = emit its comments (proposed repair) -/
def trailingCommaDoc (fixed : Bool) : Option WTok → Doc
  | none => .nil
  | some t => if fixed then commentsOnlyDoc t else .nil

mutual
/-- mirror of the `Doc` impls of doc.rs for the core (indent width `iw`) -/
def toDocW (fixed : Bool) (iw : Nat) : Cst → Doc
  | .leaf t => tokDoc t
  | .paren l e r => .group (tokDoc l ++ (.nest 1 (toDocW fixed iw e) ++ tokDoc r))
  | .unary ops e => opsDoc ops ++ toDocW fixed iw e
  | .chain k first rest =>
    match k with
    | .or | .and => toDocW fixed iw first ++ chainDocW fixed iw k rest
    | .add | .mult => .group (toDocW fixed iw first ++ chainDocW fixed iw k rest)
    | .path => toDocW fixed iw first ++ chainDocW fixed iw k rest
  | .rel a op b => toDocW fixed iw a ++ (.space ++ (tokDoc op ++ (.space ++ toDocW fixed iw b)))
  | .isIn a isT ty inT e =>
    .group (toDocW fixed iw a ++ (.space ++ (tokDoc isT ++ (.space ++ (.nest iw (toDocW fixed iw ty) ++
      (.line ++ (tokDoc inT ++ (.space ++ .nest iw (toDocW fixed iw e)))))))))
  | .ite i c t a e b =>
    .group ((tokDoc i ++ .nest iw (.line ++ toDocW fixed iw c)) ++ (.line ++
      ((tokDoc t ++ .nest iw (.line ++ toDocW fixed iw a)) ++ (.line ++
        (tokDoc e ++ .nest iw (.line ++ toDocW fixed iw b))))))
  | .brack l args r => tokDoc l ++ (.nest iw (argsDocW fixed iw args) ++ tokDoc r)
  | .recInit k colon v => toDocW fixed iw k ++ (tokDoc colon ++ (.space ++ toDocW fixed iw v))
  | .member item accs => .group (toDocW fixed iw item ++ .nest iw (accsDocW fixed iw accs))
def argsDocW (fixed : Bool) (iw : Nat) : Args → Doc
  | .nil => .nil
  | .last e tc => toDocW fixed iw e ++ trailingCommaDoc fixed tc
  | .cons e comma rest => toDocW fixed iw e ++ (tokDoc comma ++ (.line ++ argsDocW fixed iw rest))
def chainDocW (fixed : Bool) (iw : Nat) (k : ChainKind) : Chain → Doc
  | .nil => .nil
  | .cons op e rest =>
    match k with
    | .or | .and => .space ++ (tokDoc op .line ++ (toDocW fixed iw e ++ chainDocW fixed iw k rest))
    | .add | .mult => .space ++ (tokDoc op ++ (.line ++ (toDocW fixed iw e ++ chainDocW fixed iw k rest)))
    | .path => tokDoc op ++ (toDocW fixed iw e ++ chainDocW fixed iw k rest)
def accsDocW (fixed : Bool) (iw : Nat) : Accs → Doc
  | .nil => .nil
  | .field dot name rest => tokDoc dot ++ (tokDoc name ++ (accSep rest ++ accsDocW fixed iw rest))
  | .call l args r rest =>
    tokDoc l ++ (callArgsDoc iw args.isNil (argsDocW fixed iw args) ++ (tokDoc r ++ (accSep rest ++ accsDocW fixed iw rest)))
  | .index l e r rest => tokDoc l ++ (toDocW fixed iw e ++ (tokDoc r ++ (accSep rest ++ accsDocW fixed iw rest)))
end

/-- doc.rs as it is -/
def toDoc (iw : Nat) (c : Cst) : Doc := toDocW false iw c
/-- doc.rs with the proposed repair -/
def toDocFixed (iw : Nat) (c : Cst) : Doc := toDocW true iw c

/-- what survives of a trailing comma: `keepTok` = the `,` token itself, `keepCom` = its comments -/
def trailingCommaAtoms (keepTok keepCom : Bool) : Option WTok → List Atom
  | none => []
  | some t =>
    if keepTok then wtokAtoms t else if keepCom then wtokComments t else []

mutual
/-- the atoms (tokens and comments) of a CST in source order; the flags say what is kept of trailing commas:
    (true, _) = the source itself; (false, true) = tokens minus trailing commas, all comments;
    (false, false) = trailing commas dropped together with their comments -/
def cstAtomsW (kt kc : Bool) : Cst → List Atom
  | .leaf t => wtokAtoms t
  | .paren l e r => wtokAtoms l ++ cstAtomsW kt kc e ++ wtokAtoms r
  | .unary ops e => opsAtoms ops ++ cstAtomsW kt kc e
  | .chain _ first rest => cstAtomsW kt kc first ++ chainAtomsW kt kc rest
  | .rel a op b => cstAtomsW kt kc a ++ wtokAtoms op ++ cstAtomsW kt kc b
  | .isIn a isT ty inT e => cstAtomsW kt kc a ++ wtokAtoms isT ++ cstAtomsW kt kc ty ++ wtokAtoms inT ++ cstAtomsW kt kc e
  | .ite i c t a e b => wtokAtoms i ++ cstAtomsW kt kc c ++ wtokAtoms t ++ cstAtomsW kt kc a ++ wtokAtoms e ++ cstAtomsW kt kc b
  | .brack l args r => wtokAtoms l ++ argsAtomsW kt kc args ++ wtokAtoms r
  | .recInit k colon v => cstAtomsW kt kc k ++ wtokAtoms colon ++ cstAtomsW kt kc v
  | .member item accs => cstAtomsW kt kc item ++ accsAtomsW kt kc accs
def argsAtomsW (kt kc : Bool) : Args → List Atom
  | .nil => []
  | .last e tc => cstAtomsW kt kc e ++ trailingCommaAtoms kt kc tc
  | .cons e comma rest => cstAtomsW kt kc e ++ wtokAtoms comma ++ argsAtomsW kt kc rest
def chainAtomsW (kt kc : Bool) : Chain → List Atom
  | .nil => []
  | .cons op e rest => wtokAtoms op ++ cstAtomsW kt kc e ++ chainAtomsW kt kc rest
def accsAtomsW (kt kc : Bool) : Accs → List Atom
  | .nil => []
  | .field dot name rest => wtokAtoms dot ++ wtokAtoms name ++ accsAtomsW kt kc rest
  | .call l args r rest => wtokAtoms l ++ argsAtomsW kt kc args ++ wtokAtoms r ++ accsAtomsW kt kc rest
  | .index l e r rest => wtokAtoms l ++ cstAtomsW kt kc e ++ wtokAtoms r ++ accsAtomsW kt kc rest
end

/-- the source: every token and every comment, in order -/
def cstAtoms (c : Cst) : List Atom := cstAtomsW true true c

def isCom : Atom → Bool
  | .com _ => true
  | .tok _ => false

/-- the comments of an atom sequence, in order -/
def commentsOf (as : List Atom) : List Atom := as.filter isCom
/-- the tokens of an atom sequence, in order -/
def tokensOf (as : List Atom) : List Atom := as.filter (fun a => !isCom a)

mutual
/-- no trailing comma of the CST carries a comment -/
def noCommentedTrailingComma : Cst → Bool
  | .leaf _ => true
  | .paren _ e _ => noCommentedTrailingComma e
  | .unary _ e => noCommentedTrailingComma e
  | .chain _ first rest => noCommentedTrailingComma first && chainNoCTC rest
  | .rel a _ b => noCommentedTrailingComma a && noCommentedTrailingComma b
  | .isIn a _ ty _ e => noCommentedTrailingComma a && noCommentedTrailingComma ty && noCommentedTrailingComma e
  | .ite _ c _ a _ b => noCommentedTrailingComma c && noCommentedTrailingComma a && noCommentedTrailingComma b
  | .brack _ args _ => argsNoCTC args
  | .recInit k _ v => noCommentedTrailingComma k && noCommentedTrailingComma v
  | .member item accs => noCommentedTrailingComma item && accsNoCTC accs
def argsNoCTC : Args → Bool
  | .nil => true
  | .last e none => noCommentedTrailingComma e
  | .last e (some t) => noCommentedTrailingComma e && t.leading.isEmpty && t.trailing.isEmpty
  | .cons e _ rest => noCommentedTrailingComma e && argsNoCTC rest
def chainNoCTC : Chain → Bool
  | .nil => true
  | .cons _ e rest => noCommentedTrailingComma e && chainNoCTC rest
def accsNoCTC : Accs → Bool
  | .nil => true
  | .field _ _ rest => accsNoCTC rest
  | .call _ args _ rest => argsNoCTC args && accsNoCTC rest
  | .index _ e _ rest => noCommentedTrailingComma e && accsNoCTC rest
end

/-! ## §4 the policy level: `Annotation`, `VariableDef`, `Cond`, `Policy` of doc.rs, and `policies_str_to_pretty` -/

/-- `@key` or `@key("value")` (cst.rs `Annotation`); every terminal is a resolved wrapped token -/
structure AnnotCst where
  atT : WTok
  key : WTok
  /-- `(` string `)` -/
  value : Option (WTok × WTok × WTok)

/-- `principal [is T] [op e]` (cst.rs `VariableDef`; the obsolete `var : Type` form does not reach the formatter:
    `to_policyset` rejects it) -/
structure VarDefCst where
  var : WTok
  /-- `is` and the entity type (`Node<Add>`) -/
  isPart : Option (WTok × Cst)
  /-- `==` / `in` / … and the right-hand side -/
  ineq : Option (WTok × Cst)

/-- `when { e }` / `unless { e }` (cst.rs `Cond`; `expr = none` is the empty body `when {}`) -/
structure CondCst where
  kw : WTok
  lb : WTok
  expr : Option Cst
  rb : WTok

/-- `annotations effect ( principal… , action… , resource… [,] ) conds ;` (cst.rs `PolicyImpl`) -/
structure PolicyCst where
  annots : List AnnotCst
  effect : WTok
  lp : WTok
  principal : VarDefCst
  comma1 : WTok
  action : VarDefCst
  comma2 : WTok
  resource : VarDefCst
  /-- the optional trailing comma of the scope (`Comma<VariableDef>` of the grammar) -/
  trailingComma : Option WTok
  rp : WTok
  conds : List CondCst
  semi : WTok

/-- the token after `consume_leading_comment` / `consume_comment` took its leading comments -/
def WTok.noLead (t : WTok) : WTok := { t with leading := [] }

/-- the leading comments of the first token of an expression: what
    `get_leading_comment_at_start(expr.loc)` finds (token.rs `consume_leading_comment`) -/
def firstLeading : Cst → List (List Char)
  | .leaf t => t.leading
  | .paren l _ _ => l.leading
  | .unary [] e => firstLeading e
  | .unary (t :: _) _ => t.leading
  | .chain _ first _ => firstLeading first
  | .rel a _ _ => firstLeading a
  | .isIn a _ _ _ _ => firstLeading a
  | .ite i _ _ _ _ _ => i.leading
  | .brack l _ _ => l.leading
  | .recInit k _ _ => firstLeading k
  | .member item _ => firstLeading item

/-- … and the expression as the later `expr.to_doc` sees it: the leading comments of its first token are gone -/
def clearFirstLeading : Cst → Cst
  | .leaf t => .leaf t.noLead
  | .paren l e r => .paren l.noLead e r
  | .unary [] e => .unary [] (clearFirstLeading e)
  | .unary (t :: ts) e => .unary (t.noLead :: ts) e
  | .chain k first rest => .chain k (clearFirstLeading first) rest
  | .rel a op b => .rel (clearFirstLeading a) op b
  | .isIn a isT ty inT e => .isIn (clearFirstLeading a) isT ty inT e
  | .ite i c t a e b => .ite i.noLead c t a e b
  | .brack l args r => .brack l.noLead args r
  | .recInit k colon v => .recInit (clearFirstLeading k) colon v
  | .member item accs => .member (clearFirstLeading item) accs

/-- `impl Doc for Node<Option<Annotation>>` -/
def annotDoc (a : AnnotCst) : Doc :=
  tokDoc a.atT ++ (tokDoc a.key ++
    (match a.value with
     | none => .hardline
     | some (l, v, r) => tokDoc l ++ (tokDoc v ++ tokDoc r .hardline)))

/-- `RcDoc::intersperse(annotations, nil)` -/
def annotsDoc : List AnnotCst → Doc
  | [] => .nil
  | a :: as => annotDoc a ++ annotsDoc as

/-- the `is_doc` of `VariableDef`: the type's own `to_doc` has already consumed the comment of its first token,
    so the `add_comment` around it sees an empty comment -/
def isPartDoc (iw : Nat) : Option (WTok × Cst) → Doc
  | none => .nil
  | some (isT, ty) =>
    .group (.nest iw (.group (.line ++ tokDoc isT) ++ (.line ++ addComment (toDocFixed iw ty) [] [] .nil)))

/-- `impl Doc for Node<Option<VariableDef>>` -/
def varDefDoc (iw : Nat) (v : VarDefCst) : Doc :=
  match v.ineq with
  | some (op, rhs) =>
    leadingDoc v.var.leading ++
      .group (.group (.text (.tok v.var.text) ++ (trailingDoc v.var.trailing .nil ++ (isPartDoc iw v.isPart ++
          (.line ++ tokDoc op)))) ++
        .nest iw (.line ++ toDocFixed iw rhs))
  | none => tokDoc v.var ++ isPartDoc iw v.isPart

/-- `impl Doc for Node<Option<Cond>>`: the comments of `when`, `{`, `}` are fetched first (so the keyword's own
    `to_doc` sees an empty comment), the leading comments of the body's first token are hoisted out of its group -/
def condDoc (iw : Nat) (c : CondCst) : Doc :=
  let kwDoc := addComment (.text (.tok c.kw.text)) [] [] .nil
  let rbDoc := tokDoc c.rb
  match c.expr with
  | some e =>
    leadingDoc c.kw.leading ++
      .group (kwDoc ++ (trailingDoc c.kw.trailing .line ++
        (leadingDoc c.lb.leading ++ (.text (.tok c.lb.text) ++
          .group (.nest iw (trailingDoc c.lb.trailing .line ++
              (leadingDoc (firstLeading e) ++ .group (toDocFixed iw (clearFirstLeading e)))) ++
            (.line ++ rbDoc))))))
  | none =>
    leadingDoc c.kw.leading ++
      .group (kwDoc ++ (trailingDoc c.kw.trailing .line ++
        (leadingDoc c.lb.leading ++ .group (.text (.tok c.lb.text) ++ (trailingDoc c.lb.trailing .line ++ rbDoc)))))

/-- `RcDoc::intersperse(conds, hardline)` -/
def condsDoc (iw : Nat) : List CondCst → Doc
  | [] => .nil
  | [c] => condDoc iw c
  | c :: cs => condDoc iw c ++ (.hardline ++ condsDoc iw cs)

/-- `get_dropped_token_comment_doc(get_trailing_comma_comment(..))`: the comments of the scope's trailing comma
    (`Comment::default()` when there is none) without the comma itself — /repo commit e8fc4bb -/
def droppedCommaDoc : Option WTok → Doc
  | none => addComment .nil [] [] .nil
  | some t => commentsOnlyDoc t

def VarDefCst.isBare (v : VarDefCst) : Bool := v.ineq.isNone && v.isPart.isNone

/-- the `vars_doc` of `impl Doc for Node<Option<Policy>>`: on one line (if it fits) when no scope variable is
    constrained, otherwise one variable per line -/
def scopeDoc (iw : Nat) (p : PolicyCst) : Doc :=
  let resourceDoc := varDefDoc iw p.resource ++ droppedCommaDoc p.trailingComma
  if p.principal.isBare && p.action.isBare && p.resource.isBare then
    .group (.nest iw (varDefDoc iw p.principal ++ (tokDoc p.comma1 .space ++ (varDefDoc iw p.action ++
      (tokDoc p.comma2 .space ++ resourceDoc)))))
  else
    .nest iw (.hardline ++ (varDefDoc iw p.principal ++ (tokDoc p.comma1 .hardline ++ (varDefDoc iw p.action ++
      (tokDoc p.comma2 .hardline ++ resourceDoc))))) ++ .hardline

/-- `impl Doc for Node<Option<Policy>>` -/
def policyToDoc (iw : Nat) (p : PolicyCst) : Doc :=
  annotsDoc p.annots ++
    ((leadingDoc p.effect.leading ++ .group (tokDoc p.effect.noLead ++ (.line ++ tokDoc p.lp))) ++
      (scopeDoc iw p ++ (tokDoc p.rp (if p.conds.isEmpty then .nil else .hardline) ++
        (condsDoc iw p.conds ++ tokDoc p.semi))))

/-- one document for a policy set (policies separated by a blank line); `renderPolicies` is what fmt.rs does -/
def policiesToDoc (iw : Nat) : List PolicyCst → Doc
  | [] => .nil
  | [p] => policyToDoc iw p
  | p :: ps => policyToDoc iw p ++ (.hardline ++ (.hardline ++ policiesToDoc iw ps))

def eofItems : List (List Char) → List Item
  | [] => []
  | c :: cs => .atom (.com c) :: .nl 0 :: eofItems cs

def joinPolicies : List (List Item) → List Item
  | [] => []
  | [x] => x
  | x :: xs => x ++ (.nl 0 :: .nl 0 :: joinPolicies xs)

/-- `policies_str_to_pretty` at the layout level, for an arbitrary flat/break chooser: every policy is laid out
    on its own (`tree_to_pretty`), the layouts are joined with `"\n\n"`, a final newline and the end-of-file
    comments (one per line) follow.  (`remove_empty_lines` works on the string and only deletes blank lines.) -/
def renderPoliciesWith (ch : Nat → List Cmd → Bool) (iw : Nat) (ps : List PolicyCst) (eof : List (List Char)) : List Item :=
  joinPolicies (ps.map (fun p => bestWith ch 0 [(0, false, policyToDoc iw p)])) ++ (.nl 0 :: eofItems eof)

def renderPolicies (w iw : Nat) (ps : List PolicyCst) (eof : List (List Char)) : List Item :=
  renderPoliciesWith (fits w) iw ps eof

/-! ### the source atoms of the policy level -/

def annotAtoms (a : AnnotCst) : List Atom :=
  wtokAtoms a.atT ++ wtokAtoms a.key ++
    (match a.value with
     | none => []
     | some (l, v, r) => wtokAtoms l ++ wtokAtoms v ++ wtokAtoms r)

def annotsAtoms : List AnnotCst → List Atom
  | [] => []
  | a :: as => annotAtoms a ++ annotsAtoms as

def varDefAtomsW (kt kc : Bool) (v : VarDefCst) : List Atom :=
  wtokAtoms v.var ++
    (match v.isPart with
     | none => []
     | some (isT, ty) => wtokAtoms isT ++ cstAtomsW kt kc ty) ++
    (match v.ineq with
     | none => []
     | some (op, rhs) => wtokAtoms op ++ cstAtomsW kt kc rhs)

def condAtomsW (kt kc : Bool) (c : CondCst) : List Atom :=
  wtokAtoms c.kw ++ wtokAtoms c.lb ++
    (match c.expr with
     | none => []
     | some e => cstAtomsW kt kc e) ++ wtokAtoms c.rb

def condsAtomsW (kt kc : Bool) : List CondCst → List Atom
  | [] => []
  | c :: cs => condAtomsW kt kc c ++ condsAtomsW kt kc cs

/-- the atoms (tokens and comments) of a policy in source order; flags as for `cstAtomsW`:
    (true, true) = the source; (false, true) = the source minus the `,` TOKENS in trailing position (of the scope
    and of every `Comma<E>` inside the expressions), all comments kept -/
def policyAtomsW (kt kc : Bool) (p : PolicyCst) : List Atom :=
  annotsAtoms p.annots ++ wtokAtoms p.effect ++ wtokAtoms p.lp ++
    varDefAtomsW kt kc p.principal ++ wtokAtoms p.comma1 ++
    varDefAtomsW kt kc p.action ++ wtokAtoms p.comma2 ++
    varDefAtomsW kt kc p.resource ++ trailingCommaAtoms kt kc p.trailingComma ++
    wtokAtoms p.rp ++ condsAtomsW kt kc p.conds ++ wtokAtoms p.semi

/-- the source of a policy: every token and every comment, in order -/
def policyAtoms (p : PolicyCst) : List Atom := policyAtomsW true true p

def policiesAtomsW (kt kc : Bool) : List PolicyCst → List Atom
  | [] => []
  | p :: ps => policyAtomsW kt kc p ++ policiesAtomsW kt kc ps

/-- the source of a policy set: the policies, then the end-of-file comments -/
def policySetAtomsW (kt kc : Bool) (ps : List PolicyCst) (eof : List (List Char)) : List Atom :=
  policiesAtomsW kt kc ps ++ eof.map Atom.com


end Cedar.Fmt
