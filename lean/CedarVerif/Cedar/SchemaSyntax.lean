/-
C09 model (import-free, thin by design): *type expressions* of Cedar schemas in both syntaxes, the printer
(JSON form → Cedar tokens), the parser (Cedar tokens → JSON form) and *name resolution* of type references.

Mirrors (cedar-policy-core/src/validator/…):
  `TyJson`            json_schema.rs  `Type<RawName>` / `TypeVariant` (after the `TypeVisitor` deserializer)
  `TyCedar`           cedar_schema/ast.rs `Type` (`Ident(Path) | Set | Record`)
  `printTy`           cedar_schema/fmt.rs  `impl Display for json_schema::Type` / `RecordType` (quoting by `is_normalized_ident`)
  `parseC`/`parseTy`  cedar_schema/grammar.lalrpop (`Type`, `AttrDecls`, `Name`, `Path`, `Ident`) + to_json_schema.rs
                      (`cedar_type_to_json_type`: every identifier becomes `EntityOrCommon`; records are collected into a BTreeMap)
  `possibilities`     schema/raw_name.rs  `RawName::conditionally_qualify_with`
  `resolveRef`        schema/raw_name.rs  `ConditionalName::resolve` + json_schema.rs `resolve_type_variant_entity_or_common`
  `Env.isCommon/isEntity` schema.rs `AllDefs` as `ValidatorSchema::from_schema_fragments` builds it: user declarations,
                      the `__cedar` fragment, the primitive/extension aliases in the empty namespace (only where the user declared
                      nothing of that name there), the `Action` entity type of every namespace that declares actions
  `shadowing`         schema.rs `AllDefs::rfc_70_shadowing_checks` (types only)

Token level: the lexer (regexes, string-literal escapes `escape_debug` / `to_unescaped_string`), annotations, indentation
are NOT modelled; a string token carries the unescaped contents.
-/
namespace Cedar.SchemaSyntax

/-- a name as written: namespace components and base name (`A::B::T` = ⟨["A","B"], "T"⟩) -/
structure QName where
  path : List String
  base : String
deriving DecidableEq, Repr, Inhabited

def QName.comps (n : QName) : List String := n.path ++ [n.base]

/-- name from its first component and the remaining ones -/
def QName.ofComps : String → List String → QName
  | s, [] => ⟨[], s⟩
  | s, t :: r => let q := QName.ofComps t r; ⟨s :: q.path, q.base⟩

mutual
/-- JSON-syntax type expression -/
inductive TyJson where
  | bool
  | long
  | string
  | set (e : TyJson)
  | record (attrs : AttrsJ)
  | entity (n : QName)
  | entityOrCommon (n : QName)
  | ext (n : String)
  | commonRef (n : QName)
/-- record attributes in `BTreeMap` iteration order: name, required, type -/
inductive AttrsJ where
  | nil
  | cons (name : String) (req : Bool) (ty : TyJson) (rest : AttrsJ)
end

mutual
/-- Cedar-syntax type expression (AST of the schema grammar) -/
inductive TyCedar where
  | ident (p : QName)
  | set (e : TyCedar)
  | record (attrs : AttrsC)
/-- attribute declarations in source order -/
inductive AttrsC where
  | nil
  | cons (name : String) (req : Bool) (ty : TyCedar) (rest : AttrsC)
end

/-- tokens of the Cedar schema syntax that occur in type expressions -/
inductive Tok where
  | id (s : String)      -- IDENTIFIER or keyword token (all keywords are `AnyIdent`s)
  | str (s : String)     -- STRINGLIT, unescaped
  | dcolon | lt | gt | lb | rb | colon | comma | q
  | other (s : String)   -- any other token (`;`, `=`, `[`, …): never part of a type expression
deriving DecidableEq, Repr

/-! ## identifiers -/

def isIdentStart (c : Char) : Bool := c = '_' || ('a' ≤ c && c ≤ 'z') || ('A' ≤ c && c ≤ 'Z')
def isIdentChar (c : Char) : Bool := isIdentStart c || ('0' ≤ c && c ≤ '9')

/-- `^[_a-zA-Z][_a-zA-Z0-9]*$` -/
def identShape (s : String) : Bool :=
  match s.toList with
  | [] => false
  | c :: cs => isIdentStart c && cs.all isIdentChar

/-- words `Id::from_str` refuses (cst_to_ast.rs `to_valid_ident`) -/
def reservedWords : List String := ["true", "false", "if", "then", "else", "in", "is", "like", "has"]

/-- grammar `Ident`: an `AnyIdent` token accepted by `Id::from_str` -/
def validId (s : String) : Bool := !reservedWords.contains s

/-- ast/name.rs `is_normalized_ident`: may be printed without quotes (`RESERVED_IDS` also contains `__cedar`) -/
def isNormalizedIdent (s : String) : Bool := identShape s && !reservedWords.contains s && s != "__cedar"

/-! ## printer (fmt.rs) -/

def printPathTail : List String → List Tok
  | [] => []
  | s :: r => .dcolon :: .id s :: printPathTail r

def printName (n : QName) : List Tok :=
  match n.comps with
  | [] => []
  | s :: r => .id s :: printPathTail r

def cedarName (b : String) : QName := ⟨["__cedar"], b⟩

/-- attribute name: bare when it is a normalized identifier, else a string literal -/
def attrName (n : String) : Tok := if isNormalizedIdent n then .id n else .str n

mutual
/-- `impl Display for json_schema::Type` -/
def printTy : TyJson → List Tok
  | .bool => printName (cedarName "Bool")
  | .long => printName (cedarName "Long")
  | .string => printName (cedarName "String")
  | .ext n => printName (cedarName n)
  | .entity n => printName n
  | .entityOrCommon n => printName n
  | .commonRef n => printName n
  | .set e => .id "Set" :: .lt :: (printTy e ++ [.gt])
  | .record attrs => .lb :: (printAttrsJ attrs ++ [.rb])
/-- `impl IndentedDisplay for RecordType`: `name?: type` separated by commas, no trailing comma -/
def printAttrsJ : AttrsJ → List Tok
  | .nil => []
  | .cons n req t rest =>
    attrName n :: ((if req then [] else [.q]) ++ .colon :: (printTy t ++
      (match rest with
       | .nil => []
       | .cons .. => .comma :: printAttrsJ rest)))
end

mutual
/-- the same printer on the Cedar AST -/
def printC : TyCedar → List Tok
  | .ident p => printName p
  | .set e => .id "Set" :: .lt :: (printC e ++ [.gt])
  | .record attrs => .lb :: (printAttrsC attrs ++ [.rb])
def printAttrsC : AttrsC → List Tok
  | .nil => []
  | .cons n req t rest =>
    attrName n :: ((if req then [] else [.q]) ++ .colon :: (printC t ++
      (match rest with
       | .nil => []
       | .cons .. => .comma :: printAttrsC rest)))
end

mutual
/-- the Cedar AST the printer's output denotes: primitives and extension types become `__cedar::…` paths,
every kind of reference becomes a bare path -/
def toCedar : TyJson → TyCedar
  | .bool => .ident (cedarName "Bool")
  | .long => .ident (cedarName "Long")
  | .string => .ident (cedarName "String")
  | .ext n => .ident (cedarName n)
  | .entity n => .ident n
  | .entityOrCommon n => .ident n
  | .commonRef n => .ident n
  | .set e => .set (toCedar e)
  | .record attrs => .record (toCedarAttrs attrs)
def toCedarAttrs : AttrsJ → AttrsC
  | .nil => .nil
  | .cons n req t rest => .cons n req (toCedar t) (toCedarAttrs rest)
end

/-! ## parser (grammar.lalrpop `Type`) -/

/-- `{'::' IDENT}`: a `::` must be followed by a valid identifier -/
def parsePathTail : List Tok → Option (List String × List Tok)
  | .dcolon :: .id s :: r =>
    if validId s then
      match parsePathTail r with
      | some (cs, r') => some (s :: cs, r')
      | none => none
    else none
  | .dcolon :: _ => none
  | r => some ([], r)

def parsePath (s : String) (r : List Tok) : Option (TyCedar × List Tok) :=
  if validId s then
    match parsePathTail r with
    | some (cs, r') => some (.ident (QName.ofComps s cs), r')
    | none => none
  else none

/-- grammar `Name := IDENT | STR` -/
def parseAttrNameTok : Tok → Option String
  | .id s => if validId s then some s else none
  | .str s => some s
  | _ => none

mutual
/-- `Type := Path | 'Set' '<' Type '>' | '{' [AttrDecls] '}'`; fuel bounds the nesting depth -/
def parseC : Nat → List Tok → Option (TyCedar × List Tok)
  | 0, _ => none
  | fuel + 1, .id s :: r =>
    if s = "Set" then
      match r with
      | .lt :: r1 =>
        match parseC fuel r1 with
        | some (e, .gt :: r2) => some (.set e, r2)
        | _ => none
      | _ => parsePath s r
    else parsePath s r
  | _ + 1, .lb :: .rb :: r => some (.record .nil, r)
  | fuel + 1, .lb :: r =>
    match parseDecls fuel r with
    | some (attrs, r') => some (.record attrs, r')
    | none => none
  | _ + 1, _ => none
/-- `AttrDecls := Name ['?'] ':' Type [',' | ',' AttrDecls]` followed by the closing `}` -/
def parseDecls : Nat → List Tok → Option (AttrsC × List Tok)
  | 0, _ => none
  | _ + 1, [] => none
  | fuel + 1, t :: r =>
    match parseAttrNameTok t with
    | none => none
    | some n =>
      let (req, r1) := match r with
        | .q :: r1 => (false, r1)
        | _ => (true, r)
      match r1 with
      | .colon :: r2 =>
        match parseC fuel r2 with
        | some (ty, .rb :: r4) => some (.cons n req ty .nil, r4)
        | some (ty, .comma :: .rb :: r4) => some (.cons n req ty .nil, r4)
        | some (ty, .comma :: r4) =>
          match parseDecls fuel r4 with
          | some (rest, r5) => some (.cons n req ty rest, r5)
          | none => none
        | _ => none
      | _ => none
end

/-- parse a complete token list -/
def parseCedar (toks : List Tok) : Option TyCedar :=
  match parseC (toks.length + 1) toks with
  | some (c, []) => some c
  | _ => none

/-! ## Cedar AST → JSON form (to_json_schema.rs) -/

/-- `BTreeMap::insert`: sorted by key, a later binding of the same key replaces the earlier one -/
def insertJ (n : String) (req : Bool) (t : TyJson) : AttrsJ → AttrsJ
  | .nil => .cons n req t .nil
  | .cons n' req' t' rest =>
    if n < n' then .cons n req t (.cons n' req' t' rest)
    else if n = n' then .cons n req t rest
    else .cons n' req' t' (insertJ n req t rest)

mutual
/-- `cedar_type_to_json_type` -/
def toJson : TyCedar → TyJson
  | .ident p => .entityOrCommon p
  | .set e => .set (toJson e)
  | .record attrs => .record (collectJ .nil attrs)
/-- `fields.into_iter().map(convert_attr_decl).collect::<BTreeMap<_,_>>()` -/
def collectJ (acc : AttrsJ) : AttrsC → AttrsJ
  | .nil => acc
  | .cons n req t rest => collectJ (insertJ n req (toJson t) acc) rest
end

/-- Cedar tokens → JSON-syntax type expression -/
def parseTy (toks : List Tok) : Option TyJson := (parseCedar toks).map toJson

/-- what a JSON type expression becomes after `to_cedarschema` and re-parsing -/
def normalize (τ : TyJson) : TyJson := toJson (toCedar τ)

/-! ## name resolution -/

inductive RefKind where
  | common    -- `{"type": n}`
  | entity    -- `{"type":"Entity","name":n}`, `memberOfTypes`, `appliesTo`
  | either    -- `{"type":"EntityOrCommon","name":n}`, every reference written in the Cedar syntax
deriving DecidableEq, Repr

/-- declared names of all fragments, fully qualified -/
structure Env where
  commons : List QName
  entities : List QName
  /-- namespaces that declare at least one action (their `Action` entity type exists) -/
  actionNs : List (List String)

def primitiveNames : List String := ["Bool", "Long", "String"]
def extensionNames : List String := ["datetime", "decimal", "duration", "ipaddr"]
def builtinNames : List String := primitiveNames ++ extensionNames

/-- user declaration (subject to RFC 70, decides whether an alias is added) -/
def Env.userDeclared (env : Env) (q : QName) : Bool := env.commons.contains q || env.entities.contains q

/-- `AllDefs::is_defined_as_common` after `from_schema_fragments` has completed `all_defs` -/
def Env.isCommon (env : Env) (q : QName) : Bool :=
  env.commons.contains q
  || (q.path == ["__cedar"] && builtinNames.contains q.base)
  || (q.path == [] && builtinNames.contains q.base && !env.userDeclared q)

/-- `AllDefs::is_defined_as_entity` (incl. `add_action_entity_types`) -/
def Env.isEntity (env : Env) (q : QName) : Bool :=
  env.entities.contains q || (q.base == "Action" && env.actionNs.contains q.path)

/-- `RawName::conditionally_qualify_with`: candidates in descending priority -/
def possibilities (ns : List String) (n : QName) : List QName :=
  if n.path = [] then
    if ns = [] then [n] else [⟨ns, n.base⟩, n]
  else [n]

inductive Resolved where
  | common (q : QName)
  | entity (q : QName)
deriving DecidableEq, Repr

/-- one candidate: common type first (RFC 24), then entity type -/
def tryCandidate (env : Env) (kind : RefKind) (p : QName) : Option Resolved :=
  if kind ≠ .entity && env.isCommon p then some (.common p)
  else if kind ≠ .common && env.isEntity p then some (.entity p)
  else none

/-- `ConditionalName::resolve`; `none` = `TypeNotDefinedError` -/
def resolveRef (env : Env) (ns : List String) (kind : RefKind) (n : QName) : Option Resolved :=
  (possibilities ns n).findSome? (tryCandidate env kind)

def QName.isReserved (q : QName) : Bool := q.path.contains "__cedar" || q.base == "__cedar"

/-- `AllDefs::rfc_70_shadowing_checks` (entity and common type names; run before aliases and action types are added) -/
def shadowing (env : Env) : Bool :=
  let all := env.entities ++ env.commons
  all.any fun q => q.path != [] && !q.isReserved && all.any fun u => u.path == [] && u.base == q.base

/-- resolved type expression: leaves are builtin types, user common types (by name) and entity types -/
inductive RTy where
  | builtin (n : String)
  | common (q : QName)
  | entity (q : QName)
  | set (e : RTy)
  | record (attrs : List (String × Bool × RTy))
deriving Repr

/-- a resolved common-type name is either a user declaration or one of the builtin definitions / aliases -/
def classify (env : Env) : Resolved → RTy
  | .entity q => .entity q
  | .common q => if env.commons.contains q then .common q else .builtin q.base

def resolveLeaf (env : Env) (ns : List String) (kind : RefKind) (n : QName) : Option RTy :=
  (resolveRef env ns kind n).map (classify env)

mutual
/-- resolution of every reference of a JSON type expression written in namespace `ns` -/
def resolveTy (env : Env) (ns : List String) : TyJson → Option RTy
  | .bool => some (.builtin "Bool")
  | .long => some (.builtin "Long")
  | .string => some (.builtin "String")
  | .ext n => if extensionNames.contains n then some (.builtin n) else none
  | .entity n => resolveLeaf env ns .entity n
  | .entityOrCommon n => resolveLeaf env ns .either n
  | .commonRef n => resolveLeaf env ns .common n
  | .set e => (resolveTy env ns e).map .set
  | .record attrs => (resolveAttrs env ns attrs).map .record
def resolveAttrs (env : Env) (ns : List String) : AttrsJ → Option (List (String × Bool × RTy))
  | .nil => some []
  | .cons n req t rest =>
    match resolveTy env ns t, resolveAttrs env ns rest with
    | some t', some rest' => some ((n, req, t') :: rest')
    | _, _ => none
end

end Cedar.SchemaSyntax
