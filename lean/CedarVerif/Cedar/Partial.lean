import CedarVerif.Cedar.Authorizer
/-
Partial evaluation and partial authorization.  Mirrors
  * the residual arms of `Evaluator::partial_interpret_internal`, `eval_if`, `get_attr`, `short_circuit_*`,
    `unknown_to_partialvalue` (cedar-policy-core/src/evaluator.rs),
  * `RestrictedEvaluator::partial_interpret_internal` (same file), `split` (ast/partial_value.rs),
    `Expr::is_projectable`, `Expr::substitute`, `impl From<Value> for Expr` (ast/expr.rs),
  * `EntityUIDEntry::evaluate`, `Context::substitute` (ast/request.rs), `Entities::entity` (entities.rs),
  * `PartialResponse` (authorizer/partial_response.rs) and the bucket loop of
    `Authorizer::is_authorized_core_internal` (authorizer.rs).
Import-free (only model files), total, computable.  Recursion is by fuel because `get_attr` re-interprets a
component of a *residual* record (not a subterm of the input); running out of fuel is an explicit outcome.
-/
namespace Cedar

/-- `ast::PartialValue` -/
inductive PartialValue where
  | value (v : Value)
  | residual (e : Expr)
deriving Repr, Inhabited

/-- `EntityUIDEntry` -/
inductive UidEntry where
  | known (u : EntityUID)
  | unknown (ty : Option EntityType)
deriving Repr, Inhabited

/-- `ast::Context` -/
inductive PContext where
  | value (kvs : List (String × Value))
  | residual (kvs : List (String × Expr))
deriving Repr, Inhabited

structure PRequest where
  principal : UidEntry
  action : UidEntry
  resource : UidEntry
  context : Option PContext
deriving Repr, Inhabited

structure PEntityData where
  attrs : List (String × PartialValue)
  ancestors : List EntityUID
  tags : List (String × PartialValue)
deriving Repr, Inhabited

/-- `Entities` with its `Mode` -/
structure PEntities where
  ents : List (EntityUID × PEntityData)
  partialMode : Bool
deriving Repr, Inhabited

/-- the unknowns mapper of `reauthorize` (a finite map name ↦ value) -/
abbrev Mapper := List (String × Value)

/-! ### value → expression (`impl From<Value> for Expr`) -/

def pad4 (n : Nat) : String :=
  let s := toString n
  String.ofList (List.replicate (4 - s.length) '0') ++ s

def hex4 (n : Nat) : String := String.ofList (Nat.toDigits 16 n)

/-- Rust keeps the constructor call that produced an extension value; the model (values by represented
    value) uses one canonical constructor call per value.  Only the *shape class* (a function call, hence
    not projectable) is observable. -/
def Ext.toExpr : Ext → Expr
  | .decimal d =>
    let a := d.natAbs
    .call "decimal" [.lit (.string ((if d < 0 then "-" else "") ++ toString (a / 10000) ++ "." ++ pad4 (a % 10000)))]
  | .ipaddr false a p =>
    .call "ip" [.lit (.string (toString (a / 16777216 % 256) ++ "." ++ toString (a / 65536 % 256) ++ "." ++
      toString (a / 256 % 256) ++ "." ++ toString (a % 256) ++ "/" ++ toString p))]
  | .ipaddr true a p =>
    let g (i : Nat) : String := hex4 (a / 65536 ^ (7 - i) % 65536)
    .call "ip" [.lit (.string (g 0 ++ ":" ++ g 1 ++ ":" ++ g 2 ++ ":" ++ g 3 ++ ":" ++ g 4 ++ ":" ++ g 5 ++ ":" ++
      g 6 ++ ":" ++ g 7 ++ "/" ++ toString p))]
  | .datetime ms =>
    .call "offset" [.call "datetime" [.lit (.string "1970-01-01")], .call "duration" [.lit (.string (toString ms ++ "ms"))]]
  | .duration ms => .call "duration" [.lit (.string (toString ms ++ "ms"))]

mutual
def Value.toExpr : Value → Expr
  | .prim p => .lit p
  | .set vs => .set (Value.toExprList vs)
  | .record kvs => .record (Value.toExprKVs kvs)
  | .ext x => Ext.toExpr x
def Value.toExprList : List Value → List Expr
  | [] => []
  | v :: vs => v.toExpr :: Value.toExprList vs
def Value.toExprKVs : List (String × Value) → List (String × Expr)
  | [] => []
  | (k, v) :: kvs => (k, v.toExpr) :: Value.toExprKVs kvs
end

def PartialValue.asExpr : PartialValue → Expr
  | .value v => v.toExpr
  | .residual e => e

/-- `Value::type_of` -/
def Value.typeOf : Value → TyAnn
  | .prim (.bool _) => .bool
  | .prim (.int _) => .long
  | .prim (.string _) => .string
  | .prim (.entityUID u) => .entity u.ty
  | .set _ => .set
  | .record _ => .record
  | .ext (.decimal _) => .ext "decimal"
  | .ext (.ipaddr _ _ _) => .ext "ipaddr"
  | .ext (.datetime _) => .ext "datetime"
  | .ext (.duration _) => .ext "duration"

/-! ### `Expr::is_projectable`, `Expr::substitute` -/

mutual
def Expr.isProjectable : Expr → Bool
  | .lit _ => true
  | .unknown _ _ => true
  | .var _ => true
  | .set xs => Expr.isProjectableList xs
  | .record kvs => Expr.isProjectableKVs kvs
  | _ => false
def Expr.isProjectableList : List Expr → Bool
  | [] => true
  | x :: xs => x.isProjectable && Expr.isProjectableList xs
def Expr.isProjectableKVs : List (String × Expr) → Bool
  | [] => true
  | (_, x) :: xs => x.isProjectable && Expr.isProjectableKVs xs
end

-- does the expression mention a template slot (`Expr::slots` non-empty)
mutual
def Expr.hasSlot : Expr → Bool
  | .lit _ => false
  | .var _ => false
  | .slot _ => true
  | .unknown _ _ => false
  | .ite c t e => c.hasSlot || t.hasSlot || e.hasSlot
  | .and a b => a.hasSlot || b.hasSlot
  | .or a b => a.hasSlot || b.hasSlot
  | .unaryApp _ a => a.hasSlot
  | .binaryApp _ a b => a.hasSlot || b.hasSlot
  | .call _ args => Expr.hasSlotList args
  | .getAttr e _ => e.hasSlot
  | .hasAttr e _ => e.hasSlot
  | .like e _ => e.hasSlot
  | .is e _ => e.hasSlot
  | .set xs => Expr.hasSlotList xs
  | .record kvs => Expr.hasSlotKVs kvs
def Expr.hasSlotList : List Expr → Bool
  | [] => false
  | x :: xs => x.hasSlot || Expr.hasSlotList xs
def Expr.hasSlotKVs : List (String × Expr) → Bool
  | [] => false
  | (_, x) :: xs => x.hasSlot || Expr.hasSlotKVs xs
end

-- `Expr::substitute` (untyped): mapped unknowns are replaced by the value's expression
mutual
def Expr.substUnk (m : Mapper) : Expr → Expr
  | .lit p => .lit p
  | .var v => .var v
  | .slot s => .slot s
  | .unknown n ty => match lookupKV m n with
    | some v => v.toExpr
    | none => .unknown n ty
  | .ite c t e => .ite (c.substUnk m) (t.substUnk m) (e.substUnk m)
  | .and a b => .and (a.substUnk m) (b.substUnk m)
  | .or a b => .or (a.substUnk m) (b.substUnk m)
  | .unaryApp op a => .unaryApp op (a.substUnk m)
  | .binaryApp op a b => .binaryApp op (a.substUnk m) (b.substUnk m)
  | .call fn args => .call fn (Expr.substUnkList m args)
  | .getAttr e a => .getAttr (e.substUnk m) a
  | .hasAttr e a => .hasAttr (e.substUnk m) a
  | .like e p => .like (e.substUnk m) p
  | .is e ty => .is (e.substUnk m) ty
  | .set xs => .set (Expr.substUnkList m xs)
  | .record kvs => .record (Expr.substUnkKVs m kvs)
def Expr.substUnkList (m : Mapper) : List Expr → List Expr
  | [] => []
  | x :: xs => x.substUnk m :: Expr.substUnkList m xs
def Expr.substUnkKVs (m : Mapper) : List (String × Expr) → List (String × Expr)
  | [] => []
  | (k, x) :: xs => (k, x.substUnk m) :: Expr.substUnkKVs m xs
end

/-! ### outcome of partial interpretation: `Result<PartialValue>` plus the model's own two outcomes -/

inductive PRes where
  | val (v : Value)
  | res (e : Expr)
  | err (c : ErrClass)
  | fuel                      -- model artefact: recursion budget exhausted
  | panic                     -- an `unreachable!`/`expect` site of the mirrored code
deriving Repr, Inhabited

def PRes.ofResult : Result Value → PRes
  | .ok v => .val v
  | .error c => .err c

def PRes.ofPV : PartialValue → PRes
  | .value v => .val v
  | .residual e => .res e

/-- `split`: all values, or everything as expressions in the original order -/
def splitPV : List PartialValue → Sum (List Value) (List Expr)
  | [] => .inl []
  | .value v :: rest =>
    match splitPV rest with
    | .inl vs => .inl (v :: vs)
    | .inr es => .inr (v.toExpr :: es)
  | .residual e :: rest => .inr (e :: rest.map PartialValue.asExpr)

/-- `unknown_to_partialvalue` (feature `partial-eval`) -/
def unknownToPV (m : Mapper) (name : String) (ty : Option TyAnn) : PRes :=
  match lookupKV m name, ty with
  | none, _ => .res (.unknown name ty)
  | some v, none => .val v
  | some v, some t => if v.typeOf = t then .val v else .err .type

/-- `EntityUIDEntry::evaluate` -/
def UidEntry.eval (e : UidEntry) (var : String) : PRes :=
  match e with
  | .known u => .val (.prim (.entityUID u))
  | .unknown none => .res (.unknown var none)
  | .unknown (some t) => .res (.unknown var (some (.entity t)))

inductive Deref where
  | noSuch
  | residual (e : Expr)
  | data (d : PEntityData)

def PEntities.find? : List (EntityUID × PEntityData) → EntityUID → Option PEntityData
  | [], _ => none
  | (u, d) :: rest, uid => if u == uid then some d else PEntities.find? rest uid

/-- name of the unknown a partial store creates for a missing entity (Rust: `uid.to_smolstr()`; the model
    does not reproduce Rust's escaping — names are only ever used as keys of the substitution) -/
def uidName (u : EntityUID) : String := u.ty ++ "::\"" ++ u.eid ++ "\""

/-- `Entities::entity` -/
def PEntities.entity (es : PEntities) (uid : EntityUID) : Deref :=
  match PEntities.find? es.ents uid with
  | some d => .data d
  | none => if es.partialMode then .residual (.unknown (uidName uid) (some (.entity uid.ty))) else .noSuch

/-- `eval_in` -/
def evalIn (uid1 : EntityUID) (anc : Option (List EntityUID)) (arg2 : Value) : PRes :=
  let isIn (u2 : EntityUID) : Bool := uid1 == u2 || (match anc with | some a => a.contains u2 | none => false)
  match arg2 with
  | .prim (.entityUID u2) => .val (.prim (.bool (isIn u2)))
  | .set vs => match asEntityList vs with
    | .error c => .err c
    | .ok us => .val (.prim (.bool (us.any isIn)))
  | _ => .err .type

/-- the value/value arm of `BinaryApp` -/
def papplyBinary (es : PEntities) (op : BinaryOp) (v1 v2 : Value) : PRes :=
  match op with
  | .mem =>
    match v1.asEntity with
    | .error c => .err c
    | .ok u1 => match es.entity u1 with
      | .residual r => .res (.binaryApp .mem r v2.toExpr)
      | .noSuch => evalIn u1 none v2
      | .data d => evalIn u1 (some d.ancestors) v2
  | .getTag =>
    match v1.asEntity with
    | .error c => .err c
    | .ok u => match v2.asString with
      | .error c => .err c
      | .ok t => match es.entity u with
        | .noSuch => .err .entity
        | .residual r => .res (.binaryApp .getTag r (.lit (.string t)))
        | .data d => match lookupKV d.tags t with
          | some pv => PRes.ofPV pv
          | none => .err .attr
  | .hasTag =>
    match v1.asEntity with
    | .error c => .err c
    | .ok u => match v2.asString with
      | .error c => .err c
      | .ok t => match es.entity u with
        | .noSuch => .val (.prim (.bool false))
        | .residual r => .res (.binaryApp .hasTag r (.lit (.string t)))
        | .data d => .val (.prim (.bool (lookupKV d.tags t).isSome))
  | op => PRes.ofResult (applyBinary [] op v1 v2)      -- no store access for the remaining operators

/-- `short_circuit_value_and_residual` -/
def shortCircuitVR (v1 : Value) (e2 : Expr) (op : BinaryOp) : Option PRes :=
  match op, v1, e2 with
  | .eq, .prim (.entityUID u1), .unknown _ (some (.entity t)) => if u1.ty != t then some (.val (.prim (.bool false))) else none
  | _, _, _ => none

/-- `short_circuit_residual_and_value` -/
def shortCircuitRV (e1 : Expr) (v2 : Value) (op : BinaryOp) : Option PRes :=
  match op with
  | .add | .eq | .mul | .containsAny => shortCircuitVR v2 e1 op
  | _ => none

/-- `short_circuit_two_typed_residuals` -/
def shortCircuitRR (e1 e2 : Expr) (op : BinaryOp) : Option PRes :=
  match op, e1, e2 with
  | .eq, .unknown _ (some (.entity t1)), .unknown _ (some (.entity t2)) => if t1 != t2 then some (.val (.prim (.bool false))) else none
  | _, _, _ => none

/-- `.collect::<Result<Vec<_>>>()` of partial interpretations: first error wins, left to right -/
def collectPV (f : Expr → PRes) : List Expr → Except PRes (List PartialValue)
  | [] => .ok []
  | x :: xs =>
    match f x with
    | .val v => (collectPV f xs).map (PartialValue.value v :: ·)
    | .res e => (collectPV f xs).map (PartialValue.residual e :: ·)
    | other => .error other

def collectPVKVs (f : Expr → PRes) : List (String × Expr) → Except PRes (List (String × PartialValue))
  | [] => .ok []
  | (k, x) :: xs =>
    match f x with
    | .val v => (collectPVKVs f xs).map ((k, PartialValue.value v) :: ·)
    | .res e => (collectPVKVs f xs).map ((k, PartialValue.residual e) :: ·)
    | other => .error other

/-- best-effort interpretation of a right operand / branch: on an evaluation error fall back to the original -/
def bestEffort (r : PRes) (orig : Expr) (k : Expr → PRes) : PRes :=
  match r with
  | .val v => k v.toExpr
  | .res e => k e
  | .err _ => k orig
  | other => other

/-- the extension-function call on values, including the `partial_evaluation` extension's `unknown` -/
def pcallExt (fn : String) (vs : List Value) : PRes :=
  if fn = "unknown" then
    match vs with
    | [v] => match v.asString with
      | .ok s => .res (.unknown s none)
      | .error c => .err c
    | _ => .err .ext
  else PRes.ofResult (callExt fn vs)

/-- `Evaluator::partial_interpret` -/
def pinterp (m : Mapper) (req : PRequest) (es : PEntities) (env : SlotEnv) : Nat → Expr → PRes
  | 0, _ => .fuel
  | n + 1, e =>
    let go := pinterp m req es env n
    match e with
    | .lit p => .val (.prim p)
    | .slot s => match env.lookup s with
      | some u => .val (.prim (.entityUID u))
      | none => .err .slot
    | .var .principal => req.principal.eval "principal"
    | .var .action => req.action.eval "action"
    | .var .resource => req.resource.eval "resource"
    | .var .context => match req.context with
      | none => .res (.unknown "context" none)
      | some (.value kvs) => .val (.record kvs)
      | some (.residual kvs) => .res (.record kvs)
    | .unknown name ty => unknownToPV m name ty
    | .ite c t e =>
      match go c with
      | .val v => match v.asBool with
        | .error c => .err c
        | .ok true => go t
        | .ok false => go e
      | .res g => bestEffort (go t) t fun t' => bestEffort (go e) e fun e' => .res (.ite g t' e')
      | other => other
    | .and a b =>
      match go a with
      | .res l => bestEffort (go b) b fun b' => .res (.and l b')
      | .val v => match v.asBool with
        | .error c => .err c
        | .ok false => .val (.prim (.bool false))
        | .ok true => match go b with
          | .res r => .res (.and (.lit (.bool true)) r)
          | .val w => match w.asBool with
            | .error c => .err c
            | .ok r => .val (.prim (.bool r))
          | other => other
      | other => other
    | .or a b =>
      match go a with
      | .res l => bestEffort (go b) b fun b' => .res (.or l b')
      | .val v => match v.asBool with
        | .error c => .err c
        | .ok true => .val (.prim (.bool true))
        | .ok false => match go b with
          | .res r => .res (.or (.lit (.bool false)) r)
          | .val w => match w.asBool with
            | .error c => .err c
            | .ok r => .val (.prim (.bool r))
          | other => other
      | other => other
    | .unaryApp op a =>
      match go a with
      | .val v => PRes.ofResult (applyUnary op v)
      | .res r => .res (.unaryApp op r)
      | other => other
    | .binaryApp op a b =>
      match go a with
      | .val v1 => match go b with
        | .val v2 => papplyBinary es op v1 v2
        | .res e2 => match shortCircuitVR v1 e2 op with
          | some r => r
          | none => .res (.binaryApp op v1.toExpr e2)
        | other => other
      | .res e1 => match go b with
        | .val v2 => match shortCircuitRV e1 v2 op with
          | some r => r
          | none => .res (.binaryApp op e1 v2.toExpr)
        | .res e2 => match shortCircuitRR e1 e2 op with
          | some r => r
          | none => .res (.binaryApp op e1 e2)
        | other => other
      | other => other
    | .call fn args =>
      match collectPV go args with
      | .error r => r
      | .ok pvs => match splitPV pvs with
        | .inl vs => pcallExt fn vs
        | .inr rs => .res (.call fn rs)
    | .getAttr e attr =>
      match go e with
      | .res r => match r with
        | .record kvs =>
          if (Expr.record kvs).isProjectable then
            match lookupKV kvs attr with
            | none => .err .attr
            | some e' => go e'
          else if kvs.any (fun kv => kv.1 == attr) then .res (.getAttr (.record kvs) attr)
          else .err .attr
        | _ => .res (.getAttr r attr)
      | .val (.record kvs) => match lookupKV kvs attr with
        | some v => .val v
        | none => .err .attr
      | .val (.prim (.entityUID u)) => match es.entity u with
        | .noSuch => .err .entity
        | .residual r => .res (.getAttr r attr)
        | .data d => match lookupKV d.attrs attr with
          | none => .err .attr
          | some (.value v) => .val v
          | some (.residual (.unknown name ty)) => unknownToPV m name ty
          | some (.residual r) => .res r
      | .val _ => .err .type
      | other => other
    | .hasAttr e attr =>
      match go e with
      | .val (.record kvs) => .val (.prim (.bool (lookupKV kvs attr).isSome))
      | .val (.prim (.entityUID u)) => match es.entity u with
        | .noSuch => .val (.prim (.bool false))
        | .residual r => .res (.hasAttr r attr)
        | .data d => .val (.prim (.bool (lookupKV d.attrs attr).isSome))
      | .val _ => .err .type
      | .res r => match r with
        | .record kvs =>
          if (Expr.record kvs).isProjectable then .val (.prim (.bool (kvs.any (fun kv => kv.1 == attr))))
          else .res (.hasAttr (.record kvs) attr)
        | _ => .res (.hasAttr r attr)
      | other => other
    | .like e p =>
      match go e with
      | .val v => match v.asString with
        | .error c => .err c
        | .ok s => .val (.prim (.bool (wm p s.toList)))
      | .res r => .res (.like r p)
      | other => other
    | .is e ty =>
      match go e with
      | .val v => match v.asEntity with
        | .error c => .err c
        | .ok u => .val (.prim (.bool (u.ty == ty)))
      | .res r => match r with
        | .unknown _ (some (.entity t)) => .val (.prim (.bool (t == ty)))
        | _ => .res (.is r ty)
      | other => other
    | .set xs =>
      match collectPV go xs with
      | .error r => r
      | .ok pvs => match splitPV pvs with
        | .inl vs => .val (.set (Value.mkSet vs))
        | .inr rs => .res (.set rs)
    | .record kvs =>
      match collectPVKVs go kvs with
      | .error r => r
      | .ok pkvs => match splitPV (pkvs.map (·.2)) with
        | .inl vs => .val (.record (((pkvs.map (·.1)).zip vs).foldl (fun acc kv => insertKV kv.1 kv.2 acc) []))
        | .inr rs => .res (.record ((pkvs.map (·.1)).zip rs))

/-- `RestrictedEvaluator::partial_interpret` (no request, no store, no mapper; other constructors are
    `unreachable!` by the invariant on restricted expressions) -/
def rinterp : Nat → Expr → PRes
  | 0, _ => .fuel
  | n + 1, e =>
    match e with
    | .lit p => .val (.prim p)
    | .unknown name ty => .res (.unknown name ty)
    | .set xs =>
      match collectPV (rinterp n) xs with
      | .error r => r
      | .ok pvs => match splitPV pvs with
        | .inl vs => .val (.set (Value.mkSet vs))
        | .inr rs => .res (.set rs)
    | .record kvs =>
      match collectPVKVs (rinterp n) kvs with
      | .error r => r
      | .ok pkvs => match splitPV (pkvs.map (·.2)) with
        | .inl vs => .val (.record (((pkvs.map (·.1)).zip vs).foldl (fun acc kv => insertKV kv.1 kv.2 acc) []))
        | .inr rs => .res (.record ((pkvs.map (·.1)).zip rs))
    | .call fn args =>
      match collectPV (rinterp n) args with
      | .error r => r
      | .ok pvs => match splitPV pvs with
        | .inl vs => pcallExt fn vs
        | .inr rs => .res (.call fn rs)
    | _ => .panic

/-- recursion budget used by the driver and the authorizer mirror: far above any reachable depth -/
def defaultFuel : Nat := 100000

/-! ### partial authorization -/

/-- `Evaluator::partial_evaluate` → class of a policy -/
inductive PolicyResult where
  | sat | unsat | err
  | residual (e : Expr)
  | stuck                      -- fuel / panic (never expected; reported by the driver)
deriving Repr, Inhabited

def partialEvaluate (m : Mapper) (req : PRequest) (es : PEntities) (p : Policy) : PolicyResult :=
  match pinterp m req es p.env defaultFuel p.condition with
  | .val v => match v.asBool with
    | .ok true => .sat
    | .ok false => .unsat
    | .error _ => .err
  | .res e => .residual e
  | .err _ => .err
  | .fuel => .stuck
  | .panic => .stuck

/-- `PartialResponse` (ids only; annotations are not modelled) -/
structure PartialResponse where
  satisfiedPermits : List String := []
  falsePermits : List (String × Bool) := []           -- (id, errored?)
  residualPermits : List (String × Expr) := []
  satisfiedForbids : List String := []
  falseForbids : List (String × Bool) := []
  residualForbids : List (String × Expr) := []
  errors : List String := []
  stuck : List String := []                            -- model artefact, always empty in practice
  request : PRequest
deriving Repr, Inhabited

def PartialResponse.step (m : Mapper) (es : PEntities) (pr : PartialResponse) (p : Policy) : PartialResponse :=
  match partialEvaluate m pr.request es p, p.effect with
  | .sat, .permit => { pr with satisfiedPermits := pr.satisfiedPermits ++ [p.id] }
  | .sat, .forbid => { pr with satisfiedForbids := pr.satisfiedForbids ++ [p.id] }
  | .unsat, .permit => { pr with falsePermits := pr.falsePermits ++ [(p.id, false)] }
  | .unsat, .forbid => { pr with falseForbids := pr.falseForbids ++ [(p.id, false)] }
  | .residual e, .permit => { pr with residualPermits := pr.residualPermits ++ [(p.id, e)] }
  | .residual e, .forbid => { pr with residualForbids := pr.residualForbids ++ [(p.id, e)] }
  | .err, .permit => { pr with falsePermits := pr.falsePermits ++ [(p.id, true)], errors := pr.errors ++ [p.id] }
  | .err, .forbid => { pr with falseForbids := pr.falseForbids ++ [(p.id, true)], errors := pr.errors ++ [p.id] }
  | .stuck, _ => { pr with stuck := pr.stuck ++ [p.id] }

/-- `Authorizer::is_authorized_core_internal` -/
def isAuthorizedCore (m : Mapper) (req : PRequest) (es : PEntities) (ps : List Policy) : PartialResponse :=
  ps.foldl (PartialResponse.step m es) { request := req }

/-- the `match` table of `PartialResponse::decision` on the *non*-emptiness flags, in the Rust order
    `(satisfied_forbids, satisfied_permits, residual_permits, residual_forbids)` -/
def Table.decide : Bool → Bool → Bool → Bool → Option Decision
  | true, _, _, _ => some .deny
  | _, false, false, _ => some .deny
  | false, _, _, true => none
  | false, false, true, false => none
  | false, true, _, false => some .allow

def PartialResponse.decision (pr : PartialResponse) : Option Decision :=
  Table.decide (!pr.satisfiedForbids.isEmpty) (!pr.satisfiedPermits.isEmpty)
    (!pr.residualPermits.isEmpty) (!pr.residualForbids.isEmpty)

/-- ids of `may_be_determining` -/
def PartialResponse.mayBeDetermining (pr : PartialResponse) : List String :=
  if pr.satisfiedForbids.isEmpty then
    pr.satisfiedPermits ++ pr.residualPermits.map (·.1) ++ pr.residualForbids.map (·.1)
  else pr.satisfiedForbids ++ pr.residualForbids.map (·.1)

/-- `construct_policy` / `Policy::from_when_clause_annos` build a *static* policy (empty slot environment) from
    a residual; `Policy::new` then `expect`s that the template has no slots ("(values total map) does not
    hold!").  A residual that kept a slot (best-effort fall-back to the original operand) makes it panic. -/
def PartialResponse.mayPanics (pr : PartialResponse) : Bool :=
  if pr.satisfiedForbids.isEmpty then
    pr.residualPermits.any (·.2.hasSlot) || pr.residualForbids.any (·.2.hasSlot)
  else pr.residualForbids.any (·.2.hasSlot)

/-- the same `expect` reached from `all_residual_policies` (in `reauthorize`) -/
def PartialResponse.residualPoliciesPanic (pr : PartialResponse) : Bool :=
  pr.residualPermits.any (·.2.hasSlot) || pr.residualForbids.any (·.2.hasSlot)

/-- ids of `must_be_determining` -/
def PartialResponse.mustBeDetermining (pr : PartialResponse) : List String :=
  if pr.satisfiedForbids.isEmpty && pr.residualForbids.isEmpty then pr.satisfiedPermits
  else pr.satisfiedForbids

def PartialResponse.definitelySatisfied (pr : PartialResponse) : List String :=
  pr.satisfiedPermits ++ pr.satisfiedForbids

def PartialResponse.definitelyErrored (pr : PartialResponse) : List String :=
  ((pr.falsePermits ++ pr.falseForbids).filter (·.2)).map (·.1)

def PartialResponse.definitelyFalse (pr : PartialResponse) : List String :=
  ((pr.falsePermits ++ pr.falseForbids).filter (fun x => !x.2)).map (·.1)

/-- `impl From<PartialResponse> for Response` (residuals count as errors) -/
def PartialResponse.concretize (pr : PartialResponse) : Response :=
  { decision := if !pr.satisfiedPermits.isEmpty && pr.satisfiedForbids.isEmpty then .allow else .deny,
    reasons := pr.mustBeDetermining,
    errors := pr.residualForbids.map (·.1) ++ pr.residualPermits.map (·.1) ++ pr.errors }

/-- condition of `Policy::from_when_clause_annos(effect, when, …)`: unconstrained scope ∧ `when` -/
def residualCondition (when : Expr) : Expr :=
  .and (.lit (.bool true)) (.and (.lit (.bool true)) (.and (.lit (.bool true)) when))

/-- `all_residual_policies` (the order is that of the Rust iterator chain; a `PolicySet` is unordered) -/
def PartialResponse.allResidualPolicies (pr : PartialResponse) : List Policy :=
  let mk (eff : Effect) (id : String) (e : Expr) : Policy := { id := id, effect := eff, condition := residualCondition e, env := [] }
  pr.satisfiedPermits.map (fun id => mk .permit id (.lit (.bool true))) ++
  pr.falsePermits.map (fun x => mk .permit x.1 (.lit (.bool false))) ++
  pr.residualPermits.map (fun x => mk .permit x.1 x.2) ++
  pr.satisfiedForbids.map (fun id => mk .forbid id (.lit (.bool true))) ++
  pr.falseForbids.map (fun x => mk .forbid x.1 (.lit (.bool false))) ++
  pr.residualForbids.map (fun x => mk .forbid x.1 x.2)

inductive ReauthErr where
  | concretization         -- `ConcretizationError` (conflict, wrong kind, entity type conflict, context substitution error)
  | panic                  -- the `expect` in `Policy::new` (a residual with an unlinked slot)
  | stuck
deriving Repr, DecidableEq, Inhabited

/-- `EntityUIDEntry::concretize` -/
def UidEntry.concretize (e : UidEntry) (key : String) (m : Mapper) : Except ReauthErr UidEntry :=
  match lookupKV m key with
  | none => .ok e
  | some val => match val.asEntity with
    | .error _ => .error .concretization
    | .ok uid => match e with
      | .known _ => .error .concretization
      | .unknown none => .ok (.known uid)
      | .unknown (some t) => if t == uid.ty then .ok (.known uid) else .error .concretization

/-- `Context::substitute` -/
def PContext.substitute (c : PContext) (m : Mapper) : Except ReauthErr PContext :=
  match c with
  | .value kvs => .ok (.value kvs)
  | .residual kvs =>
    match rinterp defaultFuel (Expr.substUnk m (.record kvs)) with
    | .val (.record r) => .ok (.value r)
    | .res (.record r) => .ok (.residual r)
    | .err _ => .error .concretization
    | _ => .error .stuck

/-- `PartialResponse::concretize_request` -/
def PartialResponse.concretizeRequest (pr : PartialResponse) (m : Mapper) : Except ReauthErr PRequest := do
  let principal ← pr.request.principal.concretize "principal" m
  let action ← pr.request.action.concretize "action" m
  let resource ← pr.request.resource.concretize "resource" m
  let context ← match lookupKV m "context" with
    | none => pure pr.request.context
    | some (.record attrs) => match pr.request.context with
      | some _ => throw .concretization
      | none => pure (some (PContext.value attrs))
    | some _ => throw .concretization
  let context ← match context with
    | none => pure none
    | some c => (c.substitute m).map some
  pure { principal, action, resource, context }

/-- `PartialResponse::reauthorize` -/
def PartialResponse.reauthorize (pr : PartialResponse) (m : Mapper) (es : PEntities) : Except ReauthErr PartialResponse := do
  if pr.residualPoliciesPanic then throw .panic
  let req ← pr.concretizeRequest m
  pure (isAuthorizedCore m req es pr.allResidualPolicies)

/-! ### embedding of concrete requests / stores -/

def PRequest.ofConcrete (r : Request) : PRequest :=
  { principal := .known r.principal, action := .known r.action, resource := .known r.resource,
    context := some (.value r.context) }

def PEntityData.ofConcrete (d : EntityData) : PEntityData :=
  { attrs := d.attrs.map (fun kv => (kv.1, PartialValue.value kv.2)), ancestors := d.ancestors,
    tags := d.tags.map (fun kv => (kv.1, PartialValue.value kv.2)) }

def PEntities.ofConcrete (es : Entities) : PEntities :=
  { ents := es.map (fun ud => (ud.1, PEntityData.ofConcrete ud.2)), partialMode := false }

end Cedar
