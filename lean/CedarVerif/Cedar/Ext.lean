import CedarVerif.Cedar.Data
/-
Extension types: decimal, ipaddr, datetime, duration.
Mirrors cedar-policy-core/src/extensions/{decimal,ipaddr,datetime}.rs.
Parsers work on `List Char`; each regular language of the Rust code is written out as a recogniser.
The numeric tails are "checked arithmetic" chains over `Int` with explicit i64 guards.
Import-free.
-/
namespace Cedar
namespace Ext

def isDigit (c : Char) : Bool := decide ('0' ≤ c) && decide (c ≤ '9')
def digitVal (c : Char) : Nat := c.toNat - 48

/-- value of a run of ASCII digits (most significant first) -/
def natOfDigits (ds : List Char) : Nat := ds.foldl (fun acc c => acc * 10 + digitVal c) 0

/-- split off the maximal leading run of ASCII digits -/
def spanDigits : List Char → List Char × List Char
  | [] => ([], [])
  | c :: cs => if isDigit c then let (ds, r) := spanDigits cs; (c :: ds, r) else ([], c :: cs)

def checkedI64 (i : Int) : Option Int := if inI64 i then some i else none

/-! ## decimal -/
namespace Decimal

/-- syntactic part: `^(-?\d+)\.(\d+)$` (ASCII digits; a non-ASCII `\d` digit makes `i64::from_str` fail
    in Rust, so such strings are errors on both sides). Returns (negative?, integer digits, fraction digits). -/
def split (s : List Char) : Option (Bool × List Char × List Char) :=
  let (neg, rest) := match s with
    | '-' :: r => (true, r)
    | r => (false, r)
  let (ip, rest) := spanDigits rest
  match rest with
  | '.' :: rest =>
    let (fp, rest) := spanDigits rest
    if ip.isEmpty || fp.isEmpty || !rest.isEmpty then none else some (neg, ip, fp)
  | _ => none

/-- arithmetic tail: mirror of the `i64::from_str` / `checked_mul_pow` / `checked_add|sub` chain -/
def arith (neg : Bool) (ip fp : Nat) (fpLen : Nat) : Option Int := do
  let l ← checkedI64 (if neg then -(ip : Int) else ip)          -- i64::from_str(l_str)
  let l ← checkedI64 (l * 10000)                                 -- checked_mul_pow(l, 4)
  if 4 < fpLen then none else                                    -- TooManyDigits
  let r ← checkedI64 (fp : Int)                                  -- i64::from_str(r_str)
  let r ← checkedI64 (r * (10 ^ (4 - fpLen) : Nat))              -- checked_mul_pow(r, 4 - len)
  if !neg then checkedI64 (l + r) else checkedI64 (l - r)

def parse (s : String) : Option Int :=
  match split s.toList with
  | none => none
  | some (neg, ip, fp) => arith neg (natOfDigits ip) (natOfDigits fp) fp.length

end Decimal

/-! ## ipaddr -/
namespace IPAddr

def isHexDigit (c : Char) : Bool :=
  isDigit c || (decide ('a' ≤ c) && decide (c ≤ 'f')) || (decide ('A' ≤ c) && decide (c ≤ 'F'))
def hexVal (c : Char) : Nat :=
  if isDigit c then c.toNat - 48 else if decide ('a' ≤ c) && decide (c ≤ 'f') then c.toNat - 87 else c.toNat - 55

def spanHex : List Char → List Char × List Char
  | [] => ([], [])
  | c :: cs => if isHexDigit c then let (ds, r) := spanHex cs; (c :: ds, r) else ([], c :: cs)

/-- `read_number(10, Some(3), false)` into a `u8` -/
def readOctet (s : List Char) : Option (Nat × List Char) :=
  let (ds, rest) := spanDigits s
  if ds.isEmpty || ds.length > 3 then none
  else if ds.length > 1 && ds.head? == some '0' then none
  else let n := natOfDigits ds; if n > 255 then none else some (n, rest)

/-- dotted quad, returns the address and the unread rest -/
def readV4 (s : List Char) : Option (Nat × List Char) := do
  let (a, r) ← readOctet s
  let r ← match r with | '.' :: r => some r | _ => none
  let (b, r) ← readOctet r
  let r ← match r with | '.' :: r => some r | _ => none
  let (c, r) ← readOctet r
  let r ← match r with | '.' :: r => some r | _ => none
  let (d, r) ← readOctet r
  some (((a * 256 + b) * 256 + c) * 256 + d, r)

/-- `read_number(16, Some(4), true)` into a `u16` -/
def readGroup (s : List Char) : Option (Nat × List Char) :=
  let (ds, rest) := spanHex s
  if ds.isEmpty || ds.length > 4 then none
  else some (ds.foldl (fun acc c => acc * 16 + hexVal c) 0, rest)

/-- `read_groups`: up to `limit` colon-separated groups, greedy; a failed group restores the position
    before its separator. (No embedded IPv4: excluded beforehand by `containsColonsAndDots`.) -/
def readGroups : Nat → Nat → List Char → List Nat × List Char
  | 0, _, s => ([], s)
  | limit + 1, i, s =>
    let s' := if i = 0 then some s else match s with | ':' :: r => some r | _ => none
    match s' with
    | none => ([], s)
    | some s' => match readGroup s' with
      | none => ([], s)
      | some (g, r) => let (gs, r') := readGroups limit (i + 1) r; (g :: gs, r')

def groupsToNat (gs : List Nat) : Nat := gs.foldl (fun acc g => acc * 65536 + g) 0

def readV6 (s : List Char) : Option (Nat × List Char) :=
  let (head, r) := readGroups 8 0 s
  if head.length = 8 then some (groupsToNat head, r)
  else match r with
    | ':' :: ':' :: r =>
      let limit := 8 - (head.length + 1)
      let (tail, r) := readGroups limit 0 r
      let zeros := List.replicate (8 - head.length - tail.length) 0
      some (groupsToNat (head ++ zeros ++ tail), r)
    | _ => none

def countChar (c : Char) (s : List Char) : Nat := (s.filter (· == c)).length

/-- `str_contains_colons_and_dots` -/
def containsColonsAndDots (s : List Char) : Bool :=
  decide (countChar ':' s ≥ 2) && decide (countChar '.' s ≥ 2)

/-- `std::net::IpAddr::from_str`: v4 first, then v6; all input must be consumed -/
def parseAddr (s : List Char) : Option (Bool × Nat) :=
  match readV4 s with
  | some (a, []) => some (false, a)
  | _ => match readV6 s with
    | some (a, []) => some (true, a)
    | _ => none

def utf8Len (c : Char) : Nat :=
  let n := c.toNat
  if n < 0x80 then 1 else if n < 0x800 then 2 else if n < 0x10000 then 3 else 4

def byteLen (s : List Char) : Nat := s.foldl (fun acc c => acc + utf8Len c) 0

def parsePrefix (s : List Char) (max maxLen : Nat) : Option Nat :=
  if byteLen s > maxLen then none
  else if s.any (fun c => !isDigit c) then none
  else if s.head? == some '0' && s != ['0'] then none
  else if s.isEmpty then none
  else let n := natOfDigits s; if n > 255 then none else if n > max then none else some n

def splitOnceSlash : List Char → Option (List Char × List Char)
  | [] => none
  | '/' :: r => some ([], r)
  | c :: r => match splitOnceSlash r with
    | some (a, b) => some (c :: a, b)
    | none => none

def parse (str : String) : Option Ext :=
  let s := str.toList
  if byteLen s > 43 then none
  else if containsColonsAndDots s then none
  else match splitOnceSlash s with
    | some (a, p) =>
      match parseAddr a with
      | none => none
      | some (v6, addr) =>
        match (if v6 then parsePrefix p 128 3 else parsePrefix p 32 2) with
        | none => none
        | some pl => some (.ipaddr v6 addr pl)
    | none =>
      match parseAddr s with
      | none => none
      | some (v6, addr) => some (.ipaddr v6 addr (if v6 then 128 else 32))

def width (v6 : Bool) : Nat := if v6 then 128 else 32

/-- network address = addr with the host bits cleared; broadcast = addr with the host bits set -/
def network (v6 : Bool) (addr pl : Nat) : Nat := let h := 2 ^ (width v6 - pl); (addr / h) * h
def broadcast (v6 : Bool) (addr pl : Nat) : Nat := let h := 2 ^ (width v6 - pl); (addr / h) * h + (h - 1)

def isInRange (v6a : Bool) (a pa : Nat) (v6b : Bool) (b pb : Nat) : Bool :=
  v6a == v6b && decide (network v6b b pb ≤ network v6a a pa) && decide (broadcast v6a a pa ≤ broadcast v6b b pb)

def isLoopback (v6 : Bool) (addr pl : Nat) : Bool :=
  if v6 then addr == 1 && decide (pl ≥ 128) else addr / 2 ^ 24 == 127 && decide (pl ≥ 8)

def isMulticast (v6 : Bool) (addr pl : Nat) : Bool :=
  if v6 then addr / 2 ^ 120 == 255 && decide (pl ≥ 8) else addr / 2 ^ 28 == 14 && decide (pl ≥ 4)

end IPAddr

/-! ## datetime / duration -/
namespace Datetime

def isLeap (y : Nat) : Bool := (y % 4 == 0 && y % 100 != 0) || y % 400 == 0

def daysInMonth (y m : Nat) : Nat :=
  match m with
  | 1 => 31 | 2 => if isLeap y then 29 else 28 | 3 => 31 | 4 => 30 | 5 => 31 | 6 => 30
  | 7 => 31 | 8 => 31 | 9 => 30 | 10 => 31 | 11 => 30 | 12 => 31 | _ => 0

/-- days since 1970-01-01 of a proleptic-Gregorian civil date (Hinnant's `days_from_civil`) -/
def daysFromCivil (y m d : Nat) : Int :=
  let y' : Int := if m ≤ 2 then (y : Int) - 1 else y
  let era : Int := (if y' ≥ 0 then y' else y' - 399) / 400
  let yoe : Int := y' - era * 400
  let mp : Int := ((m : Int) + 9) % 12
  let doy : Int := (153 * mp + 2) / 5 + (d : Int) - 1
  let doe : Int := yoe * 365 + yoe / 4 - yoe / 100 + doy
  era * 146097 + doe - 719468

/-- take exactly `n` ASCII digits -/
def takeDigits : Nat → List Char → Option (List Char × List Char)
  | 0, s => some ([], s)
  | n + 1, c :: s => if isDigit c then match takeDigits n s with
      | some (ds, r) => some (c :: ds, r)
      | none => none
    else none
  | _ + 1, [] => none

def expect (c : Char) : List Char → Option (List Char)
  | c' :: r => if c == c' then some r else none
  | [] => none

def msPerDay : Int := 86400000

/-- `DATE_PATTERN` = `^([0-9]{4})-([0-9]{2})-([0-9]{2})` -/
def parseDate (s : List Char) : Option ((Nat × Nat × Nat) × List Char) :=
  match takeDigits 4 s with
  | none => none
  | some (ys, s) => match expect '-' s with
    | none => none
    | some s => match takeDigits 2 s with
      | none => none
      | some (ms, s) => match expect '-' s with
        | none => none
        | some s => match takeDigits 2 s with
          | none => none
          | some (ds, s) => some ((natOfDigits ys, natOfDigits ms, natOfDigits ds), s)

/-- `HMS_PATTERN` = `^T([0-9]{2}):([0-9]{2}):([0-9]{2})` -/
def parseHMS (s : List Char) : Option ((Nat × Nat × Nat) × List Char) :=
  match expect 'T' s with
  | none => none
  | some s => match takeDigits 2 s with
    | none => none
    | some (hs, s) => match expect ':' s with
      | none => none
      | some s => match takeDigits 2 s with
        | none => none
        | some (ms, s) => match expect ':' s with
          | none => none
          | some s => match takeDigits 2 s with
            | none => none
            | some (ss, s) => some ((natOfDigits hs, natOfDigits ms, natOfDigits ss), s)

/-- `(Z|((\+|-)([0-9]{2})([0-9]{2})))$`: returns (offset in seconds, offset valid?) -/
def parseOffset (s : List Char) : Option (Int × Bool) :=
  match s with
  | ['Z'] => some (0, true)
  | sign :: r =>
    if sign == '+' || sign == '-' then
      match takeDigits 2 r with
      | none => none
      | some (hh, r) => match takeDigits 2 r with
        | none => none
        | some (mm, r) =>
          if !r.isEmpty then none else
          let hh := natOfDigits hh; let mm := natOfDigits mm
          let secs : Int := ((hh * 3600 + mm * 60 : Nat) : Int)
          some (if sign == '+' then secs else -secs, decide (hh < 24) && decide (mm < 60))
    else none
  | [] => none

/-- `MS_AND_OFFSET_PATTERN` = `^(\.([0-9]{3}))?(Z|((\+|-)([0-9]{2})([0-9]{2})))$` -/
def parseMsOffset (s : List Char) : Option (Nat × Int × Bool) :=
  match s with
  | '.' :: r => match takeDigits 3 r with
    | none => none
    | some (m3, r) => match parseOffset r with
      | none => none
      | some (o, ok) => some (natOfDigits m3, o, ok)
  | _ => match parseOffset s with
    | none => none
    | some (o, ok) => some (0, o, ok)

def dateOk (y mo d : Nat) : Bool :=
  decide (1 ≤ mo) && decide (mo ≤ 12) && decide (1 ≤ d) && decide (d ≤ daysInMonth y mo)

/-- `parse_datetime`: date, optional `Thh:mm:ss` + `(.SSS)?(Z|(+|-)hhmm)` -/
def parse (str : String) : Option Int :=
  match parseDate str.toList with
  | none => none
  | some ((y, mo, d), s) =>
    if s.isEmpty then
      if dateOk y mo d then some (daysFromCivil y mo d * msPerDay) else none
    else match parseHMS s with
      | none => none
      | some ((h, mi, sec), s) => match parseMsOffset s with
        | none => none
        | some (msec, off, offOk) =>
          if !dateOk y mo d then none
          else if !(decide (h < 24) && decide (mi < 60) && decide (sec < 60)) then none
          else if !offOk then none
          else some (daysFromCivil y mo d * msPerDay + ((h * 3600 + mi * 60 + sec : Nat) : Int) * 1000
                      + (msec : Int) - off * 1000)

/-- Rust `%` (truncated remainder) -/
def toTime (epoch : Int) : Int :=
  if epoch < 0 then
    let rem := Int.tmod epoch msPerDay
    if rem == 0 then rem else rem + msPerDay
  else Int.tmod epoch msPerDay

/-- `checked_sub(epoch.checked_rem_euclid(DAY))` -/
def toDate (epoch : Int) : Option Int := checkedI64 (epoch - Int.emod epoch msPerDay)

def offset (epoch dur : Int) : Option Int := checkedI64 (epoch + dur)
def durationSince (a b : Int) : Option Int := checkedI64 (a - b)

end Datetime

namespace Duration

def u64Max : Nat := 18446744073709551615

/-- one optional `<digits><unit>` component; `unit` is the literal unit and `notFollowedBy` handles `m` vs `ms` -/
def readUnit (unit : List Char) (notS : Bool) (s : List Char) : Option Nat × List Char :=
  let (ds, r) := Ext.spanDigits s
  if ds.isEmpty then (none, s)
  else if unit.isPrefixOf r then
    let r' := r.drop unit.length
    if notS && r'.head? == some 's' then (none, s) else (some (natOfDigits ds), r')
  else (none, s)

/-- `^-?(\d+d)?(\d+h)?(\d+m)?(\d+s)?(\d+ms)?$` with non-empty and not `"-"`;
    returns (neg, d, h, m, s, ms) with absent components as `none` -/
def split (s : List Char) : Option (Bool × Option Nat × Option Nat × Option Nat × Option Nat × Option Nat) :=
  if s.isEmpty || s == ['-'] then none else
  let (neg, r) := match s with | '-' :: r => (true, r) | r => (false, r)
  let (d, r) := readUnit ['d'] false r
  let (h, r) := readUnit ['h'] false r
  let (m, r) := readUnit ['m'] true r
  let (sec, r) := readUnit ['s'] false r
  let (ms, r) := readUnit ['m', 's'] false r
  if r.isEmpty then some (neg, d, h, m, sec, ms) else none

def getNumber : Option Nat → Option Nat
  | none => some 0
  | some n => if n ≤ u64Max then some n else none

def checkedOp (neg : Bool) (x : Int) (y : Nat) (mul : Int) : Option Int := do
  let y ← checkedI64 (y : Int)
  let p ← checkedI64 (y * mul)
  if neg then checkedI64 (x - p) else checkedI64 (x + p)

def arith (neg : Bool) (d h m sec ms : Option Nat) : Option Int := do
  let d ← getNumber d
  let h ← getNumber h
  let m ← getNumber m
  let sec ← getNumber sec
  let ms ← getNumber ms
  let acc ← checkedI64 (if neg then -(ms : Int) else ms)
  let acc ← checkedOp neg acc sec 1000
  let acc ← checkedOp neg acc m 60000
  let acc ← checkedOp neg acc h 3600000
  checkedOp neg acc d 86400000

def parse (str : String) : Option Int :=
  match split str.toList with
  | none => none
  | some (neg, d, h, m, sec, ms) => arith neg d h m sec ms

end Duration
end Ext

/-! ## dispatch (`Extensions::func` + `ExtensionFunction::call`) -/

inductive ErrClass where
  | type | entity | attr | overflow | ext | slot | residual
deriving Repr, DecidableEq, Inhabited

abbrev Result (α) := Except ErrClass α

def Value.asBool : Value → Result Bool
  | .prim (.bool b) => .ok b
  | _ => .error .type
def Value.asInt : Value → Result Int
  | .prim (.int i) => .ok i
  | _ => .error .type
def Value.asString : Value → Result String
  | .prim (.string s) => .ok s
  | _ => .error .type
def Value.asEntity : Value → Result EntityUID
  | .prim (.entityUID u) => .ok u
  | _ => .error .type
def Value.asSet : Value → Result (List Value)
  | .set vs => .ok vs
  | _ => .error .type

def Value.asDecimal : Value → Result Int
  | .ext (.decimal d) => .ok d
  | _ => .error .type
def Value.asDatetime : Value → Result Int
  | .ext (.datetime d) => .ok d
  | _ => .error .type
def Value.asDuration : Value → Result Int
  | .ext (.duration d) => .ok d
  | _ => .error .type

def optToExt {α} : Option α → Result α
  | some a => .ok a
  | none => .error .ext

def vbool (b : Bool) : Value := .prim (.bool b)
def vint (i : Int) : Value := .prim (.int i)

/-- names of the extension functions available with the default features -/
def extFnArity : String → Option Nat
  | "decimal" | "ip" | "datetime" | "duration" => some 1
  | "lessThan" | "lessThanOrEqual" | "greaterThan" | "greaterThanOrEqual" => some 2
  | "isIpv4" | "isIpv6" | "isLoopback" | "isMulticast" => some 1
  | "isInRange" => some 2
  | "offset" | "durationSince" => some 2
  | "toDate" | "toTime" | "toMilliseconds" | "toSeconds" | "toMinutes" | "toHours" | "toDays" => some 1
  | _ => none

def callExt1 (fn : String) (a : Value) : Result Value :=
  match fn with
  | "decimal" => do let s ← a.asString; let v ← optToExt (Ext.Decimal.parse s); .ok (.ext (.decimal v))
  | "ip" => do let s ← a.asString; let v ← optToExt (Ext.IPAddr.parse s); .ok (.ext v)
  | "datetime" => do let s ← a.asString; let v ← optToExt (Ext.Datetime.parse s); .ok (.ext (.datetime v))
  | "duration" => do let s ← a.asString; let v ← optToExt (Ext.Duration.parse s); .ok (.ext (.duration v))
  | "isIpv4" => match a with | .ext (.ipaddr v6 _ _) => .ok (vbool (!v6)) | _ => .error .type
  | "isIpv6" => match a with | .ext (.ipaddr v6 _ _) => .ok (vbool v6) | _ => .error .type
  | "isLoopback" => match a with | .ext (.ipaddr v6 ad p) => .ok (vbool (Ext.IPAddr.isLoopback v6 ad p)) | _ => .error .type
  | "isMulticast" => match a with | .ext (.ipaddr v6 ad p) => .ok (vbool (Ext.IPAddr.isMulticast v6 ad p)) | _ => .error .type
  | "toDate" => do let d ← a.asDatetime; let v ← optToExt (Ext.Datetime.toDate d); .ok (.ext (.datetime v))
  | "toTime" => do let d ← a.asDatetime; .ok (.ext (.duration (Ext.Datetime.toTime d)))
  | "toMilliseconds" => do let d ← a.asDuration; .ok (vint d)
  | "toSeconds" => do let d ← a.asDuration; .ok (vint (Int.tdiv d 1000))
  | "toMinutes" => do let d ← a.asDuration; .ok (vint (Int.tdiv (Int.tdiv d 1000) 60))
  | "toHours" => do let d ← a.asDuration; .ok (vint (Int.tdiv (Int.tdiv (Int.tdiv d 1000) 60) 60))
  | "toDays" => do let d ← a.asDuration; .ok (vint (Int.tdiv (Int.tdiv (Int.tdiv (Int.tdiv d 1000) 60) 60) 24))
  | _ => .error .ext

def callExt2 (fn : String) (a b : Value) : Result Value :=
  match fn with
  | "lessThan" => do let x ← a.asDecimal; let y ← b.asDecimal; .ok (vbool (decide (x < y)))
  | "lessThanOrEqual" => do let x ← a.asDecimal; let y ← b.asDecimal; .ok (vbool (decide (x ≤ y)))
  | "greaterThan" => do let x ← a.asDecimal; let y ← b.asDecimal; .ok (vbool (decide (x > y)))
  | "greaterThanOrEqual" => do let x ← a.asDecimal; let y ← b.asDecimal; .ok (vbool (decide (x ≥ y)))
  | "isInRange" =>
    match a, b with
    | .ext (.ipaddr v6a x pa), .ext (.ipaddr v6b y pb) => .ok (vbool (Ext.IPAddr.isInRange v6a x pa v6b y pb))
    | _, _ => .error .type
  | "offset" => do let d ← a.asDatetime; let u ← b.asDuration; let v ← optToExt (Ext.Datetime.offset d u); .ok (.ext (.datetime v))
  | "durationSince" => do let x ← a.asDatetime; let y ← b.asDatetime; let v ← optToExt (Ext.Datetime.durationSince x y); .ok (.ext (.duration v))
  | _ => .error .ext

/-- unknown function ⇒ lookup error (class `ext`); wrong arity ⇒ `WrongNumArguments` (class `ext`) -/
def callExt (fn : String) (args : List Value) : Result Value :=
  match extFnArity fn with
  | none => .error .ext
  | some n =>
    if args.length != n then .error .ext else
    match args with
    | [a] => callExt1 fn a
    | [a, b] => callExt2 fn a b
    | _ => .error .ext

end Cedar
