import CedarVerif.Cedar.Data
/-
JSON documents as seen by the entity / context / value (de)serialisers: the shape of `serde_json::Value`.
Numbers: `int` carries any integer a `serde_json::Number` can hold as i64/u64 (so it may lie outside i64);
`num` marks a non-integer number (f64) by its text — Cedar accepts none of those.  Objects are association
lists in document order (`serde_json::Map` with `preserve_order`; a `Map` never holds a key twice, the model
still says what happens if it did).  Import-free (model files only).
-/
namespace Cedar

inductive Json where
  | null
  | bool (b : Bool)
  | int (i : Int)
  | num (repr : String)
  | str (s : String)
  | arr (xs : List Json)
  | obj (kvs : List (String × Json))
deriving Repr, Inhabited

namespace Json

mutual
def size : Json → Nat
  | .arr xs => 1 + sizeList xs
  | .obj kvs => 1 + sizeKVs kvs
  | _ => 1
def sizeList : List Json → Nat
  | [] => 0
  | x :: xs => 1 + x.size + sizeList xs
def sizeKVs : List (String × Json) → Nat
  | [] => 0
  | (_, x) :: kvs => 1 + x.size + sizeKVs kvs
end

/-- first binding of a key (a `serde_json::Map` has at most one) -/
def get? (kvs : List (String × Json)) (k : String) : Option Json := lookupKV kvs k

/-- is some key bound twice? -/
def hasDupKeys : List (String × Json) → Bool
  | [] => false
  | (k, _) :: rest => (lookupKV rest k).isSome || hasDupKeys rest

end Json
end Cedar
