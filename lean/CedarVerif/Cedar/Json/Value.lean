import CedarVerif.Cedar.Json.Json
import CedarVerif.Cedar.Json.SchemaType
import CedarVerif.Cedar.Eval
/-
Cedar values / entities <-> JSON.  Mirrors cedar-policy-core/src/entities/json/{value,entities,context}.rs:

* `CJ`                 = `CedarValueJson` (the escape-aware JSON shape), `CJ.ofRaw` = its `Deserialize` impl
                         (`RawCedarValueJson` + `From<RawCedarValueJson>`), `CJ.toJson` = its `Serialize` impl
* `CJ.intoExpr`        = `CedarValueJson::into_expr` / `FnAndArgs::into_expr` (result: a restricted `Expr`)
* `fromExpr/fromValue` = `CedarValueJson::from_expr` / `from_value` (`check_for_reserved_keys`)
* `typed`              = `ValueParser::val_into_restricted_expr` (expected-type directed; `EntityUidJson`,
                         `ExtnValueJson` untagged deserialisation)
* `evalR`              = `RestrictedEvaluator::interpret` (the evaluator model on a restricted expression)
* `toJson / ofJson / ofJsonTyped`, entity and store level.

An extension value in Rust remembers the call that produced it (`RepresentableExtensionValue{func,args}`);
the model's `Ext` is the represented value only, so serialisation is parametrised by a rendering
`ρ : Ext → String × List Expr`; `canonRepr` is Rust's `canonical_repr` (decimal with 4 fraction digits,
`ip("addr/prefix")`, `duration("<n>ms")`, `offset(datetime("1970-01-01"), duration("<n>ms"))`).
Declared fragment: the `unknown` extension function (partial evaluation) is outside the model (`JErr.outside`).
Import-free (model files only).  Total.
-/
namespace Cedar
namespace CJson

inductive JErr where
  | serde            -- serde: the JSON did not match the expected shape (`JsonDeserializationError::Serde`)
  | null             -- `Null`
  | exprTag          -- `ExprTag` (the removed `__expr` escape)
  | escape           -- `ParseEscape` (type / function name is not a normalised `Name`)
  | entityRef        -- `ExpectedLiteralEntityRef`
  | missingCtor      -- `MissingImpliedConstructor`
  | arity            -- `IncorrectNumOfArguments`
  | extLookup        -- `FailedExtensionFunctionLookup`
  | dupKey           -- `DuplicateKey`
  | unexpectedAttr   -- `UnexpectedRecordAttr`
  | missingAttr      -- `MissingRequiredRecordAttr`
  | typeMismatch     -- `TypeMismatch`
  | eval (c : ErrClass) -- evaluation of the restricted expression failed
  | notRecord        -- `ContextCreationError::NotARecord`
  | actionParent     -- `ActionParentIsNotAction`
  | reserved         -- `JsonSerializationError::ReservedKey`
  | call0            -- `JsonSerializationError::ExtnCall0Arguments`
  | exprKind         -- `JsonSerializationError::UnexpectedRestrictedExprKind`
  | fuel             -- the fuel of `typed` ran out (never: fuel = size of the document)
  | outside          -- outside the declared fragment
deriving Repr, DecidableEq, Inhabited

abbrev R (α) := Except JErr α

/-! ## text renderings used by the canonical representations -/

def digitChar (n : Nat) : Char := Char.ofNat (48 + n)

def decDigitsAux : Nat → Nat → List Char → List Char
  | 0, _, acc => acc
  | fuel + 1, n, acc =>
    let acc := digitChar (n % 10) :: acc
    if n / 10 = 0 then acc else decDigitsAux fuel (n / 10) acc

/-- decimal digits of a natural number, no leading zeros (`0` ↦ "0") -/
def decDigits (n : Nat) : List Char := decDigitsAux (n + 1) n []

/-- `i64`'s `Display` -/
def intDigits (i : Int) : List Char :=
  if i < 0 then '-' :: decDigits i.natAbs else decDigits i.natAbs

def pad4 (n : Nat) : List Char :=
  [digitChar (n / 1000 % 10), digitChar (n / 100 % 10), digitChar (n / 10 % 10), digitChar (n % 10)]

/-- `Display for Decimal`: `-?{abs / 10^4}.{abs % 10^4 :04}` -/
def renderDecimal (v : Int) : List Char :=
  (if v < 0 then ['-'] else []) ++ decDigits (v.natAbs / 10000) ++ ['.'] ++ pad4 (v.natAbs % 10000)

/-- `Display for Duration`: `{ms}ms` -/
def renderDuration (ms : Int) : List Char := intDigits ms ++ ['m', 's']

def hexChar (n : Nat) : Char := if n < 10 then Char.ofNat (48 + n) else Char.ofNat (87 + n)

def hexDigitsAux : Nat → Nat → List Char → List Char
  | 0, _, acc => acc
  | fuel + 1, n, acc =>
    let acc := hexChar (n % 16) :: acc
    if n / 16 = 0 then acc else hexDigitsAux fuel (n / 16) acc

/-- `{:x}` -/
def hexDigits (n : Nat) : List Char := hexDigitsAux (n + 1) n []

def joinWith (sep : Char) : List (List Char) → List Char
  | [] => []
  | [x] => x
  | x :: xs => x ++ sep :: joinWith sep xs

/-- `Display for Ipv4Addr` -/
def renderV4 (a : Nat) : List Char :=
  joinWith '.' [decDigits (a / 16777216 % 256), decDigits (a / 65536 % 256), decDigits (a / 256 % 256), decDigits (a % 256)]

def v6Segments (a : Nat) : List Nat :=
  [a / 65536 ^ 7 % 65536, a / 65536 ^ 6 % 65536, a / 65536 ^ 5 % 65536, a / 65536 ^ 4 % 65536,
   a / 65536 ^ 3 % 65536, a / 65536 ^ 2 % 65536, a / 65536 % 65536, a % 65536]

/-- the longest run of zero segments, first one on ties: (start, length) — the loop of `Display for Ipv6Addr` -/
def zeroRun (segs : List Nat) : Nat × Nat :=
  let step := fun (st : Nat × Nat × Nat × Nat × Nat) (seg : Nat) =>
    let (i, ls, ll, cs, cl) := st
    if seg = 0 then
      let cs := if cl = 0 then i else cs
      let cl := cl + 1
      if cl > ll then (i + 1, cs, cl, cs, cl) else (i + 1, ls, ll, cs, cl)
    else (i + 1, ls, ll, 0, 0)
  let (_, ls, ll, _, _) := segs.foldl step (0, 0, 0, 0, 0)
  (ls, ll)

/-- `Display for Ipv6Addr`: IPv4-mapped addresses in dotted form, otherwise `::` compression of the longest
    zero run of length ≥ 2, lower-case hex groups without leading zeros -/
def renderV6 (a : Nat) : List Char :=
  let segs := v6Segments a
  if segs.take 5 == [0, 0, 0, 0, 0] && (segs.drop 5).head? == some 65535 then
    "::ffff:".toList ++ renderV4 (a % 4294967296)
  else
    let (start, len) := zeroRun segs
    if len > 1 then
      joinWith ':' ((segs.take start).map hexDigits) ++ [':', ':'] ++ joinWith ':' ((segs.drop (start + len)).map hexDigits)
    else joinWith ':' (segs.map hexDigits)

/-- `Display for IPAddr`: `{addr}/{prefix}` -/
def renderIp (v6 : Bool) (addr pl : Nat) : List Char :=
  (if v6 then renderV6 addr else renderV4 addr) ++ '/' :: decDigits pl

/-! ## names -/

def isIdStart (c : Char) : Bool :=
  c == '_' || (decide ('a' ≤ c) && decide (c ≤ 'z')) || (decide ('A' ≤ c) && decide (c ≤ 'Z'))
def isIdCont (c : Char) : Bool := isIdStart c || Ext.isDigit c

def isIdent : List Char → Bool
  | [] => false
  | c :: r => isIdStart c && r.all isIdCont

/-- `str::split("::")` -/
def splitColons : List Char → List Char → List (List Char)
  | [], cur => [cur.reverse]
  | ':' :: ':' :: r, cur => cur.reverse :: splitColons r []
  | c :: r, cur => splitColons r (c :: cur)

def reservedIds : List String := ["true", "false", "if", "then", "else", "in", "is", "like", "has", "__cedar"]

/-- `Name::from_normalized_str` succeeds: `^ID(::ID)*$` and no component is a reserved identifier -/
def validName (s : String) : Bool :=
  (splitColons s.toList []).all (fun p => isIdent p && !reservedIds.contains (String.ofList p))

/-! ## `CedarValueJson` -/

inductive CJ where
  | exprEscape (s : String)
  | entityEscape (ty id : String)
  | extnSingle (fn : String) (arg : CJ)
  | extnMulti (fn : String) (args : List CJ)
  | bool (b : Bool)
  | long (i : Int)
  | str (s : String)
  | set (xs : List CJ)
  | record (kvs : List (String × CJ))
  | null
deriving Repr, Inhabited

def hasDup : List String → Bool
  | [] => false
  | k :: rest => rest.contains k || hasDup rest

/-- collecting into a `BTreeMap` (later bindings replace earlier ones) -/
def sortKVs {α} (kvs : List (String × α)) : List (String × α) :=
  kvs.foldl (fun acc kv => insertKV kv.1 kv.2 acc) []

mutual
/-- `RawCedarValueJson::deserialize` succeeds on the whole document: every number is an i64, no object
    binds a key twice (`MapPreventDuplicates`) -/
def rawOk : Json → Bool
  | .null => true
  | .bool _ => true
  | .int i => inI64 i
  | .num _ => false
  | .str _ => true
  | .arr xs => rawOkList xs
  | .obj kvs => rawOkKVs kvs && !hasDup (kvs.map Prod.fst)
def rawOkList : List Json → Bool
  | [] => true
  | x :: xs => rawOk x && rawOkList xs
def rawOkKVs : List (String × Json) → Bool
  | [] => true
  | (_, x) :: kvs => rawOk x && rawOkKVs kvs
end

/-- `From<RawCedarValueJson> for CedarValueJson` on a record (`kvs` is the key-sorted `BTreeMap`): a single-key
    object is an escape when its payload has the right shape, otherwise an ordinary record -/
def CJ.mkRecord (kvs : List (String × CJ)) : CJ :=
  match kvs with
  | [(k, .record r)] =>
    if k == "__extn" && decide (r.length ≥ 2) then
      match lookupKV r "fn" with
      | some (.str f) =>
        match lookupKV r "arg" with
        | some a => .extnSingle f a
        | none =>
          match lookupKV r "args" with
          | some (.set as) => .extnMulti f as
          | _ => .record kvs
      | _ => .record kvs
    else if k == "__entity" && decide (r.length ≥ 2) then
      match lookupKV r "type", lookupKV r "id" with
      | some (.str ty), some (.str id) => .entityEscape ty id
      | _, _ => .record kvs
    else .record kvs
  | [(k, .str s)] => if k == "__expr" then .exprEscape s else .record kvs
  | _ => .record kvs

mutual
/-- `CedarValueJson::deserialize` (on a document for which `rawOk` holds) -/
def CJ.ofRaw : Json → CJ
  | .null => .null
  | .bool b => .bool b
  | .int i => .long i
  | .num _ => .null
  | .str s => .str s
  | .arr xs => .set (CJ.ofRawList xs)
  | .obj kvs => CJ.mkRecord (sortKVs (CJ.ofRawKVs kvs))
def CJ.ofRawList : List Json → List CJ
  | [] => []
  | x :: xs => CJ.ofRaw x :: CJ.ofRawList xs
def CJ.ofRawKVs : List (String × Json) → List (String × CJ)
  | [] => []
  | (k, x) :: kvs => (k, CJ.ofRaw x) :: CJ.ofRawKVs kvs
end

def CJ.ofJson (j : Json) : R CJ := if rawOk j then .ok (CJ.ofRaw j) else .error .serde

mutual
/-- `Serialize for CedarValueJson` (untagged) -/
def CJ.toJson : CJ → Json
  | .exprEscape s => .obj [("__expr", .str s)]
  | .entityEscape ty id => .obj [("__entity", .obj [("type", .str ty), ("id", .str id)])]
  | .extnSingle fn arg => .obj [("__extn", .obj [("fn", .str fn), ("arg", CJ.toJson arg)])]
  | .extnMulti fn args => .obj [("__extn", .obj [("fn", .str fn), ("args", .arr (CJ.toJsonList args))])]
  | .bool b => .bool b
  | .long i => .int i
  | .str s => .str s
  | .set xs => .arr (CJ.toJsonList xs)
  | .record kvs => .obj (CJ.toJsonKVs kvs)
  | .null => .null
def CJ.toJsonList : List CJ → List Json
  | [] => []
  | x :: xs => CJ.toJson x :: CJ.toJsonList xs
def CJ.toJsonKVs : List (String × CJ) → List (String × Json)
  | [] => []
  | (k, x) :: kvs => (k, CJ.toJson x) :: CJ.toJsonKVs kvs
end

mutual
/-- `CedarValueJson::into_expr`; the result uses only `lit`, `set`, `record`, `call` (a restricted expression) -/
def CJ.intoExpr : CJ → R Expr
  | .bool b => .ok (.lit (.bool b))
  | .long i => .ok (.lit (.int i))
  | .str s => .ok (.lit (.string s))
  | .set xs => do let es ← CJ.intoExprList xs; .ok (.set es)
  | .record kvs => do let es ← CJ.intoExprKVs kvs; .ok (.record es)
  | .entityEscape ty id => if validName ty then .ok (.lit (.entityUID ⟨ty, id⟩)) else .error .escape
  | .extnSingle fn arg =>
    if validName fn then do let e ← CJ.intoExpr arg; .ok (.call fn [e]) else .error .escape
  | .extnMulti fn args =>
    if validName fn then do let es ← CJ.intoExprList args; .ok (.call fn es) else .error .escape
  | .exprEscape _ => .error .exprTag
  | .null => .error .null
def CJ.intoExprList : List CJ → R (List Expr)
  | [] => .ok []
  | x :: xs => do let e ← CJ.intoExpr x; let es ← CJ.intoExprList xs; .ok (e :: es)
def CJ.intoExprKVs : List (String × CJ) → R (List (String × Expr))
  | [] => .ok []
  | (k, x) :: kvs => do let e ← CJ.intoExpr x; let es ← CJ.intoExprKVs kvs; .ok ((k, e) :: es)
end

/-! ## serialisation: `from_expr`, `from_value` -/

def reservedKeys : List String := ["__entity", "__extn", "__expr"]

/-- `check_for_reserved_keys` -/
def hasReservedKey {α} (kvs : List (String × α)) : Bool := kvs.any (fun kv => reservedKeys.contains kv.1)

def CJ.ofPrim : Prim → CJ
  | .bool b => .bool b
  | .int i => .long i
  | .string s => .str s
  | .entityUID u => .entityEscape u.ty u.eid

mutual
/-- `CedarValueJson::from_expr` -/
def fromExpr : Expr → R CJ
  | .lit p => .ok (CJ.ofPrim p)
  | .call fn args => do
    let cs ← fromExprList args
    match cs with
    | [] => .error .call0
    | [c] => .ok (.extnSingle fn c)
    | cs => .ok (.extnMulti fn cs)
  | .set xs => do let cs ← fromExprList xs; .ok (.set cs)
  | .record kvs =>
    if hasReservedKey kvs then .error .reserved else do let cs ← fromExprKVs kvs; .ok (.record cs)
  | .unknown n _ => .ok (.extnSingle "unknown" (.str n))
  | _ => .error .exprKind
def fromExprList : List Expr → R (List CJ)
  | [] => .ok []
  | x :: xs => do let c ← fromExpr x; let cs ← fromExprList xs; .ok (c :: cs)
def fromExprKVs : List (String × Expr) → R (List (String × CJ))
  | [] => .ok []
  | (k, x) :: kvs => do let c ← fromExpr x; let cs ← fromExprKVs kvs; .ok ((k, c) :: cs)
end

def litS (cs : List Char) : Expr := .lit (.string (String.ofList cs))

/-- `ExtensionValue::canonical_repr` of the four extension types -/
def canonRepr : Ext → String × List Expr
  | .decimal v => ("decimal", [litS (renderDecimal v)])
  | .ipaddr v6 a p => ("ip", [litS (renderIp v6 a p)])
  | .duration ms => ("duration", [litS (renderDuration ms)])
  | .datetime ms => ("offset", [.call "datetime" [.lit (.string "1970-01-01")], .call "duration" [litS (renderDuration ms)]])

mutual
/-- `CedarValueJson::from_value`, extension values rendered by `ρ` (Rust: the stored `func`/`args`) -/
def fromValueWith (ρ : Ext → String × List Expr) : Value → R CJ
  | .prim p => .ok (CJ.ofPrim p)
  | .set vs => do let cs ← fromValueListWith ρ vs; .ok (.set cs)
  | .record kvs =>
    if hasReservedKey kvs then .error .reserved else do let cs ← fromValueKVsWith ρ kvs; .ok (.record cs)
  | .ext x => do
    let cs ← fromExprList (ρ x).2
    match cs with
    | [] => .error .call0
    | [c] => .ok (.extnSingle (ρ x).1 c)
    | cs => .ok (.extnMulti (ρ x).1 cs)
def fromValueListWith (ρ : Ext → String × List Expr) : List Value → R (List CJ)
  | [] => .ok []
  | v :: vs => do let c ← fromValueWith ρ v; let cs ← fromValueListWith ρ vs; .ok (c :: cs)
def fromValueKVsWith (ρ : Ext → String × List Expr) : List (String × Value) → R (List (String × CJ))
  | [] => .ok []
  | (k, v) :: kvs => do let c ← fromValueWith ρ v; let cs ← fromValueKVsWith ρ kvs; .ok ((k, c) :: cs)
end

def toJsonWith (ρ : Ext → String × List Expr) (v : Value) : R Json :=
  match fromValueWith ρ v with
  | .ok c => .ok c.toJson
  | .error e => .error e

/-- serialise a value (`CedarValueJson::from_value` + `serde_json::to_value`), canonical extension renderings -/
def toJson (v : Value) : R Json := toJsonWith canonRepr v

/-! ## evaluation of restricted expressions -/

def dummyUid : EntityUID := ⟨"", ""⟩
def dummyReq : Request := { principal := dummyUid, action := dummyUid, resource := dummyUid, context := [] }

/-- `RestrictedEvaluator::interpret` -/
def evalR (e : Expr) : R Value :=
  match evaluate dummyReq [] [] e with
  | .ok v => .ok v
  | .error c => .error (.eval c)

mutual
/-- does the document call the `unknown` extension function (partial evaluation: outside the fragment)? -/
def CJ.callsUnknown : CJ → Bool
  | .extnSingle fn arg => fn == "unknown" || CJ.callsUnknown arg
  | .extnMulti fn args => fn == "unknown" || CJ.callsUnknownList args
  | .set xs => CJ.callsUnknownList xs
  | .record kvs => CJ.callsUnknownKVs kvs
  | _ => false
def CJ.callsUnknownList : List CJ → Bool
  | [] => false
  | x :: xs => CJ.callsUnknown x || CJ.callsUnknownList xs
def CJ.callsUnknownKVs : List (String × CJ) → Bool
  | [] => false
  | (_, x) :: kvs => CJ.callsUnknown x || CJ.callsUnknownKVs kvs
end

/-- escape-directed parsing: `val_into_restricted_expr(val, None)` -/
def exprOfJson (j : Json) : R Expr := do
  let c ← CJ.ofJson j
  if c.callsUnknown then .error .outside else c.intoExpr

/-- parse a value from JSON without a schema, then evaluate it -/
def ofJson (j : Json) : R Value := do
  let e ← exprOfJson j
  evalR e

/-! ## expected-type-directed parsing -/

/-- `ExtensionFunction::arg_types` of the functions of `Extensions::all_available()` -/
def extFnSig : String → Option (List SchemaType)
  | "decimal" | "ip" | "datetime" | "duration" => some [.string]
  | "lessThan" | "lessThanOrEqual" | "greaterThan" | "greaterThanOrEqual" => some [.ext "decimal", .ext "decimal"]
  | "isIpv4" | "isIpv6" | "isLoopback" | "isMulticast" => some [.ext "ipaddr"]
  | "isInRange" => some [.ext "ipaddr", .ext "ipaddr"]
  | "offset" => some [.ext "datetime", .ext "duration"]
  | "durationSince" => some [.ext "datetime", .ext "datetime"]
  | "toDate" | "toTime" => some [.ext "datetime"]
  | "toMilliseconds" | "toSeconds" | "toMinutes" | "toHours" | "toDays" => some [.ext "duration"]
  | _ => none

/-- `Extensions::lookup_single_arg_constructor` by extension type name -/
def singleArgCtor : String → Option String
  | "decimal" => some "decimal"
  | "ipaddr" => some "ip"
  | "datetime" => some "datetime"
  | "duration" => some "duration"
  | _ => none

/-- `TypeAndId::deserialize`: an object with string fields `type` and `id` (other fields are ignored), or
    serde's positional struct form `[type, id]`.  (The struct *variants* of the untagged enums `EntityUidJson`,
    `ExtnValueJson`, `FnAndArgs` do not accept the positional form — checked against the implementation.) -/
def typeAndId : Json → Option (String × String)
  | .obj kvs =>
    match lookupKV kvs "type", lookupKV kvs "id" with
    | some (.str ty), some (.str id) => some (ty, id)
    | _, _ => none
  | .arr [.str ty, .str id] => some (ty, id)
  | _ => none

/-- `EntityUidJson::deserialize` (untagged: `__expr`, `__entity`, implicit `{type,id}`, anything else) followed
    by `into_euid` -/
def uidOfJson (j : Json) : R EntityUID :=
  let fin (p : String × String) : R EntityUID := if validName p.1 then .ok ⟨p.1, p.2⟩ else .error .escape
  match j with
  | .obj kvs =>
    match lookupKV kvs "__expr" with
    | some (.str _) => .error .exprTag
    | _ =>
      match (lookupKV kvs "__entity").bind typeAndId with
      | some p => fin p
      | none =>
        match typeAndId j with
        | some p => fin p
        | none => .error .entityRef
  | .arr _ =>
    match typeAndId j with
    | some p => fin p
    | none => .error .entityRef
  | _ => .error .entityRef

/-- `FnAndArgs::deserialize` (untagged `Single{fn,arg}` / `Multi{fn,args}`; objects only) -/
def fnAndArgs : Json → Option (String × List CJ)
  | .obj r =>
    match lookupKV r "fn" with
    | some (.str f) =>
      match (match lookupKV r "arg" with
             | some a => if rawOk a then some (f, [CJ.ofRaw a]) else none
             | none => none) with
      | some res => some res
      | none =>
        match lookupKV r "args" with
        | some (.arr as) => if rawOkList as then some (f, CJ.ofRawList as) else none
        | _ => none
    | _ => none
  | _ => none

inductive ExtnV where
  | exprEscape
  | call (fn : String) (args : List CJ)
  | implicitCtor (c : CJ)

/-- `ExtnValueJson::deserialize` (untagged: `__expr`, `{__extn: FnAndArgs}`, `FnAndArgs`, any `CedarValueJson`) -/
def extnOfJson (j : Json) : R ExtnV :=
  let last : R ExtnV := if rawOk j then .ok (.implicitCtor (CJ.ofRaw j)) else .error .serde
  let implicit : R ExtnV := match fnAndArgs j with
    | some (f, as) => .ok (.call f as)
    | none => last
  match j with
  | .obj kvs =>
    match lookupKV kvs "__expr" with
    | some (.str _) => .ok .exprEscape
    | _ =>
      match (lookupKV kvs "__extn").bind fnAndArgs with
      | some (f, as) => .ok (.call f as)
      | none => implicit
  | _ => implicit

def mapE {α β} (f : α → R β) : List α → R (List β)
  | [] => .ok []
  | x :: xs => do let y ← f x; let ys ← mapE f xs; .ok (y :: ys)

def zipE {α β γ} (f : α → β → R γ) : List α → List β → R (List γ)
  | a :: as, b :: bs => do let y ← f a b; let ys ← zipE f as bs; .ok (y :: ys)
  | _, _ => .ok []

/-- the expected attributes of a record type, in key order: present ⇒ parse with its type, absent and
    required ⇒ error, absent and optional ⇒ skipped -/
def typedAttrs (f : SchemaType → Json → R Expr) (actual : List (String × Json)) :
    List (String × Bool × SchemaType) → R (List (String × Expr))
  | [] => .ok []
  | (k, req, ty) :: rest =>
    match lookupKV actual k with
    | some j => do let e ← f ty j; let es ← typedAttrs f actual rest; .ok ((k, e) :: es)
    | none => if req then .error .missingAttr else typedAttrs f actual rest

/-- the value is of the wrong JSON kind for a set / record type: parse it escape-directed (errors of that
    parse win), then report the type mismatch -/
def mismatch (j : Json) : R Expr := do
  let _ ← exprOfJson j
  .error .typeMismatch

/-- `parse_as_unknown` would fire: an explicit `__extn` escape calling `unknown` (outside the fragment) -/
def explicitUnknown : Json → Bool
  | .obj kvs =>
    match (lookupKV kvs "__extn").bind fnAndArgs with
    | some (f, _) => f == "unknown"
    | none => false
  | _ => false

/-- `ValueParser::val_into_restricted_expr(val, expected_ty)` -/
def typed : Nat → Option SchemaType → Json → R Expr
  | 0, _, _ => .error .fuel
  | fuel + 1, ty, j =>
    if explicitUnknown j then .error .outside else
    match ty with
    | some (.entity _) => do let u ← uidOfJson j; .ok (.lit (.entityUID u))
    | some (.ext name) => do
      let x ← extnOfJson j
      match x with
      | .exprEscape => .error .exprTag
      | .call fn args =>
        if fn == "unknown" then .error .outside else
        if !validName fn then .error .escape else
        match extFnSig fn with
        | none => .error .extLookup
        | some sig =>
          if args.length != sig.length then .error .arity else do
          let es ← zipE (fun t a => typed fuel (some t) a.toJson) sig args
          .ok (.call fn es)
      | .implicitCtor c =>
        match singleArgCtor name with
        | none => .error .missingCtor
        | some ctor => do
          let e ← typed fuel (some .string) c.toJson
          .ok (.call ctor [e])
    | some (.set elem) =>
      match j with
      | .arr xs => do let es ← mapE (typed fuel (some elem)) xs; .ok (.set es)
      | _ => mismatch j
    | some (.record attrs openAttrs) =>
      match j with
      | .obj kvs => do
        let es ← typedAttrs (fun t x => typed fuel (some t) x) kvs attrs
        if !openAttrs && kvs.any (fun kv => (lookupKV attrs kv.1).isNone) then .error .unexpectedAttr
        else .ok (.record es)
      | _ => mismatch j
    | _ => exprOfJson j

mutual
def noDupKeys : Json → Bool
  | .arr xs => noDupKeysList xs
  | .obj kvs => noDupKeysKVs kvs && !hasDup (kvs.map Prod.fst)
  | _ => true
def noDupKeysList : List Json → Bool
  | [] => true
  | x :: xs => noDupKeys x && noDupKeysList xs
def noDupKeysKVs : List (String × Json) → Bool
  | [] => true
  | (_, x) :: kvs => noDupKeys x && noDupKeysKVs kvs
end

/-- schema-directed parsing to a restricted expression (a `serde_json::Value` never binds a key twice;
    a document that does is refused as it would be at the serde level) -/
def exprOfJsonTyped (ty : Option SchemaType) (j : Json) : R Expr :=
  if !noDupKeys j then .error .serde
  else typed (2 * j.size + 2) ty j

/-- parse a value from JSON with an expected type, then evaluate it -/
def ofJsonTyped (ty : SchemaType) (j : Json) : R Value := do
  let e ← exprOfJsonTyped (some ty) j
  evalR e

/-- `ContextJsonParser::from_json_value`: the expression must be a record (`Context::from_expr`) -/
def contextOfJson (ty : Option SchemaType) (j : Json) : R (List (String × Value)) := do
  let e ← exprOfJsonTyped ty j
  match e with
  | .record _ =>
    match ← evalR e with
    | .record kvs => .ok kvs
    | _ => .error .notRecord
  | _ => .error .notRecord

/-- `Context::to_json_value`: the top-level record is checked for reserved keys like any nested record
    (since /repo commit 8968c46 `fix: Context::to_json_value refuses reserved keys at the top level`; before
    that repair only its values were checked — the defect this check found). -/
def contextToJson (ctx : List (String × Value)) : R Json :=
  if hasReservedKey ctx then .error .reserved else
  match fromValueKVsWith canonRepr ctx with
  | .ok cs => .ok (.obj (CJ.toJsonKVs cs))
  | .error e => .error e

/-! ## entities (no schema) -/

/-- `EntityJson::from_entity`: implicit `{type,id}` for uid and parents; *all* ancestors are written as parents;
    `tags` omitted when empty -/
def uidJson (u : EntityUID) : Json := .obj [("type", .str u.ty), ("id", .str u.eid)]

def entityToJson (uid : EntityUID) (d : EntityData) : R Json :=
  match fromValueKVsWith canonRepr d.attrs, fromValueKVsWith canonRepr d.tags with
  | .ok as, .ok ts =>
    .ok (.obj ([("uid", uidJson uid), ("attrs", .obj (CJ.toJsonKVs as)), ("parents", .arr (d.ancestors.map uidJson))]
               ++ (if ts.isEmpty then [] else [("tags", .obj (CJ.toJsonKVs ts))])))
  | .error e, _ => .error e
  | _, .error e => .error e

def isAction (u : EntityUID) : Bool :=
  (splitColons u.ty.toList []).getLast? == some "Action".toList

def attrsOfJson : List (String × Json) → R (List (String × Expr))
  | [] => .ok []
  | (k, j) :: rest => do let e ← exprOfJson j; let es ← attrsOfJson rest; .ok ((k, e) :: es)

def evalKVs : List (String × Expr) → R (List (String × Value))
  | [] => .ok []
  | (k, e) :: rest => do let v ← evalR e; let vs ← evalKVs rest; .ok ((k, v) :: vs)

/-- `EntityJsonParser::parse_ejson` without a schema + `Entity::new`: uid, attrs, parents, tags.
    The `ancestors` field of the result holds the parents as listed (transitive closure is `Entities`' business). -/
def entityOfJson (j : Json) : R (EntityUID × EntityData) :=
  match j with
  | .obj kvs =>
    match lookupKV kvs "uid", lookupKV kvs "attrs", lookupKV kvs "parents" with
    | some uj, some (.obj attrs), some (.arr parents) =>
      let tagsJ : Option (List (String × Json)) := match lookupKV kvs "tags" with
        | none => some []
        | some (.obj ts) => some ts
        | some _ => none
      match tagsJ with
      | none => .error .serde
      | some tags =>
        if !noDupKeys j then .error .serde else do
        let uid ← uidOfJson uj
        let as ← attrsOfJson (sortKVs attrs)
        let ts ← attrsOfJson (sortKVs tags)
        let ps ← mapE (fun p => do
          let u ← uidOfJson p
          if isAction uid && !isAction u then .error .actionParent else .ok u) parents
        let avs ← evalKVs as
        let tvs ← evalKVs ts
        .ok (uid, { attrs := avs, ancestors := ps, tags := tvs })
    | _, _, _ => .error .serde
  | _ => .error .serde

/-- a store: every entity serialised / parsed on its own (`Entities::to_json_value`, `parse_ejsons`) -/
def storeToJson (es : Entities) : R Json := do
  let js ← mapE (fun (p : EntityUID × EntityData) => entityToJson p.1 p.2) es
  .ok (.arr js)

def storeOfJson : Json → R Entities
  | .arr js => mapE entityOfJson js
  | _ => .error .serde

end CJson
end Cedar
