import CedarVerif.Cedar.Validation.Types
/-
`cedar_policy_core::entities::SchemaType` (cedar-policy-core/src/entities/json/schema_types.rs): the types
schema-based JSON parsing can expect.  A record type is the `BTreeMap<SmolStr, AttributeType>` as a key-sorted
association list of `(key, required?, type)` plus the `open_attrs` flag.  Import-free.
(The inductive type is shared with the schema model: Validation/Types.lean.)
-/
namespace Cedar

-- `SchemaType` itself is defined once, in Validation/Types.lean (same constructors, same order).

namespace SchemaType

mutual
def size : SchemaType → Nat
  | .set e => 1 + e.size
  | .record attrs _ => 1 + sizeAttrs attrs
  | _ => 1
def sizeAttrs : List (String × Bool × SchemaType) → Nat
  | [] => 0
  | (_, _, t) :: rest => 1 + t.size + sizeAttrs rest
end

end SchemaType
end Cedar
