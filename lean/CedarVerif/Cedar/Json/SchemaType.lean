import CedarVerif.Cedar.Data
/-
`cedar_policy_core::entities::SchemaType` (cedar-policy-core/src/entities/json/schema_types.rs): the types
schema-based JSON parsing can expect.  A record type is the `BTreeMap<SmolStr, AttributeType>` as a key-sorted
association list of `(key, required?, type)` plus the `open_attrs` flag.  Import-free.
(Self-contained on purpose: the full schema model lives elsewhere.)
-/
namespace Cedar

inductive SchemaType where
  | bool
  | long
  | string
  | set (elem : SchemaType)
  | emptySet
  | record (attrs : List (String × Bool × SchemaType)) (openAttrs : Bool)
  | entity (ty : EntityType)
  | ext (name : String)
deriving Repr, Inhabited

namespace SchemaType

mutual
def size : SchemaType → Nat
  | .set e => 1 + e.size
  | .record attrs _ => 1 + sizeAttrs attrs
  | _ => 1
def sizeAttrs : List (String × Bool × SchemaType) → Nat
  | [] => 0
  | (_, _, t) :: rest => 1 + t.size + sizeAttrs rest
end

end SchemaType
end Cedar
