import CedarVerif.Cedar.Expr
/-
Syntactic operations on expressions used by the C08 model: structural equality (Rust: derived `PartialEq`
ignoring source locations), slot substitution, the slots occurring in an expression.  Import-free.
-/
namespace Cedar

/-! ### structural equality of expressions (Rust: derived `PartialEq` ignoring source locations) -/
mutual
def Expr.beq : Expr → Expr → Bool
  | .lit a, .lit b => a == b
  | .var a, .var b => a == b
  | .slot a, .slot b => a == b
  | .unknown n t, .unknown n' t' => n == n' && t == t'
  | .ite a b c, .ite a' b' c' => Expr.beq a a' && Expr.beq b b' && Expr.beq c c'
  | .and a b, .and a' b' => Expr.beq a a' && Expr.beq b b'
  | .or a b, .or a' b' => Expr.beq a a' && Expr.beq b b'
  | .unaryApp o a, .unaryApp o' a' => o == o' && Expr.beq a a'
  | .binaryApp o a b, .binaryApp o' a' b' => o == o' && Expr.beq a a' && Expr.beq b b'
  | .call f xs, .call f' xs' => f == f' && Expr.beqList xs xs'
  | .getAttr a k, .getAttr a' k' => Expr.beq a a' && k == k'
  | .hasAttr a k, .hasAttr a' k' => Expr.beq a a' && k == k'
  | .like a p, .like a' p' => Expr.beq a a' && p == p'
  | .is a t, .is a' t' => Expr.beq a a' && t == t'
  | .set xs, .set xs' => Expr.beqList xs xs'
  | .record kvs, .record kvs' => Expr.beqKVs kvs kvs'
  | _, _ => false
def Expr.beqList : List Expr → List Expr → Bool
  | [], [] => true
  | x :: xs, y :: ys => Expr.beq x y && Expr.beqList xs ys
  | _, _ => false
def Expr.beqKVs : List (String × Expr) → List (String × Expr) → Bool
  | [], [] => true
  | (k, x) :: xs, (k', y) :: ys => k == k' && Expr.beq x y && Expr.beqKVs xs ys
  | _, _ => false
end

/-! ### substitution (the static policy obtained by writing the linked entity in place of each slot) -/

mutual
def Expr.subst (env : SlotEnv) : Expr → Expr
  | .slot s => match env.lookup s with
    | some u => .lit (.entityUID u)
    | none => .slot s
  | .lit p => .lit p
  | .var v => .var v
  | .unknown n t => .unknown n t
  | .ite c t e => .ite (Expr.subst env c) (Expr.subst env t) (Expr.subst env e)
  | .and a b => .and (Expr.subst env a) (Expr.subst env b)
  | .or a b => .or (Expr.subst env a) (Expr.subst env b)
  | .unaryApp o a => .unaryApp o (Expr.subst env a)
  | .binaryApp o a b => .binaryApp o (Expr.subst env a) (Expr.subst env b)
  | .call f xs => .call f (Expr.substList env xs)
  | .getAttr a k => .getAttr (Expr.subst env a) k
  | .hasAttr a k => .hasAttr (Expr.subst env a) k
  | .like a p => .like (Expr.subst env a) p
  | .is a t => .is (Expr.subst env a) t
  | .set xs => .set (Expr.substList env xs)
  | .record kvs => .record (Expr.substKVs env kvs)
def Expr.substList (env : SlotEnv) : List Expr → List Expr
  | [] => []
  | x :: xs => Expr.subst env x :: Expr.substList env xs
def Expr.substKVs (env : SlotEnv) : List (String × Expr) → List (String × Expr)
  | [] => []
  | (k, x) :: xs => (k, Expr.subst env x) :: Expr.substKVs env xs
end

-- slots occurring in an expression
mutual
def Expr.slots : Expr → List SlotId
  | .slot s => [s]
  | .lit _ => []
  | .var _ => []
  | .unknown _ _ => []
  | .ite c t e => Expr.slots c ++ Expr.slots t ++ Expr.slots e
  | .and a b => Expr.slots a ++ Expr.slots b
  | .or a b => Expr.slots a ++ Expr.slots b
  | .unaryApp _ a => Expr.slots a
  | .binaryApp _ a b => Expr.slots a ++ Expr.slots b
  | .call _ xs => Expr.slotsList xs
  | .getAttr a _ => Expr.slots a
  | .hasAttr a _ => Expr.slots a
  | .like a _ => Expr.slots a
  | .is a _ => Expr.slots a
  | .set xs => Expr.slotsList xs
  | .record kvs => Expr.slotsKVs kvs
def Expr.slotsList : List Expr → List SlotId
  | [] => []
  | x :: xs => Expr.slots x ++ Expr.slotsList xs
def Expr.slotsKVs : List (String × Expr) → List SlotId
  | [] => []
  | (_, x) :: xs => Expr.slots x ++ Expr.slotsKVs xs
end


end Cedar
