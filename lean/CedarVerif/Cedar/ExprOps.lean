import CedarVerif.Cedar.ExprBeq
/-
Syntactic operations on expressions used by the C08 model: structural equality (Rust: derived `PartialEq`
ignoring source locations), slot substitution, the slots occurring in an expression.  Import-free.
-/
namespace Cedar

-- structural equality `Expr.beq` is defined in ExprBeq.lean (shared with the typechecker model)

/-! ### substitution (the static policy obtained by writing the linked entity in place of each slot) -/

mutual
def Expr.subst (env : SlotEnv) : Expr → Expr
  | .slot s => match env.lookup s with
    | some u => .lit (.entityUID u)
    | none => .slot s
  | .lit p => .lit p
  | .var v => .var v
  | .unknown n t => .unknown n t
  | .ite c t e => .ite (Expr.subst env c) (Expr.subst env t) (Expr.subst env e)
  | .and a b => .and (Expr.subst env a) (Expr.subst env b)
  | .or a b => .or (Expr.subst env a) (Expr.subst env b)
  | .unaryApp o a => .unaryApp o (Expr.subst env a)
  | .binaryApp o a b => .binaryApp o (Expr.subst env a) (Expr.subst env b)
  | .call f xs => .call f (Expr.substList env xs)
  | .getAttr a k => .getAttr (Expr.subst env a) k
  | .hasAttr a k => .hasAttr (Expr.subst env a) k
  | .like a p => .like (Expr.subst env a) p
  | .is a t => .is (Expr.subst env a) t
  | .set xs => .set (Expr.substList env xs)
  | .record kvs => .record (Expr.substKVs env kvs)
def Expr.substList (env : SlotEnv) : List Expr → List Expr
  | [] => []
  | x :: xs => Expr.subst env x :: Expr.substList env xs
def Expr.substKVs (env : SlotEnv) : List (String × Expr) → List (String × Expr)
  | [] => []
  | (k, x) :: xs => (k, Expr.subst env x) :: Expr.substKVs env xs
end

-- slots occurring in an expression
mutual
def Expr.slots : Expr → List SlotId
  | .slot s => [s]
  | .lit _ => []
  | .var _ => []
  | .unknown _ _ => []
  | .ite c t e => Expr.slots c ++ Expr.slots t ++ Expr.slots e
  | .and a b => Expr.slots a ++ Expr.slots b
  | .or a b => Expr.slots a ++ Expr.slots b
  | .unaryApp _ a => Expr.slots a
  | .binaryApp _ a b => Expr.slots a ++ Expr.slots b
  | .call _ xs => Expr.slotsList xs
  | .getAttr a _ => Expr.slots a
  | .hasAttr a _ => Expr.slots a
  | .like a _ => Expr.slots a
  | .is a _ => Expr.slots a
  | .set xs => Expr.slotsList xs
  | .record kvs => Expr.slotsKVs kvs
def Expr.slotsList : List Expr → List SlotId
  | [] => []
  | x :: xs => Expr.slots x ++ Expr.slotsList xs
def Expr.slotsKVs : List (String × Expr) → List SlotId
  | [] => []
  | (_, x) :: xs => Expr.slots x ++ Expr.slotsKVs xs
end


end Cedar
