import CedarVerif.Cedar.Eval
import CedarVerif.Cedar.Validation.Schema
/-
Entity manifests (C17).  MIRROR of cedar-policy-core/src/validator/entity_manifest.rs and
entity_manifest/{analysis,type_annotations,loader,slicing}.rs (feature `entity-manifest`):

* data: `EntityRoot`, `AccessTrie` (children, ancestors trie, `is_ancestor`, and of `node_type` the one bit slicing
  reads, `is_entity_type()`), `RootAccessTrie`, `WrappedAccessPaths`, `EntityManifestAnalysisResult`;
* the analysis `entity_manifest_from_expr` on the *typed* AST (`TExpr`: the typechecker's output, carrying the operand
  types that `full_type_required` reads), case by case, including the `panic!/expect` sites as outcomes;
* `to_typed` (type annotation + pruning of children the schema does not declare);
* slicing with an existing store: `load_entities` driven by `EntitySlicer` (`slice_entity`, `slice_val`,
  `prune_child_entity_dereferences`, `find_remaining_entities*`, `merge_entities/values`, `compute_ancestors_request`,
  `load_ancestors`).

Deviations from the Rust control flow (results are equal; the correspondence run diffs them):
  * hash maps are association lists; children are kept in insertion order (printing sorts);
  * `load_entities` processes requests in batches (breadth first); the model enumerates the same requests depth
    first (`expandValue`) and then merges the slices per uid in that order (`merge_entities` is order-insensitive on
    slices of one entity);
  * the slicer's failure exits (`IncompatibleEntityManifest`, the `assert!`s of `find_remaining_entities_value` and
    `slice_val`) are computed by `sliceFault` next to the pure result (`sliceStore = fault or pure result`).
Imports only model files.
-/
namespace Cedar.Manifest
open Cedar

/-! ## data -/

/-- `EntityRoot` -/
inductive EntityRoot where
  | literal (uid : EntityUID)
  | var (v : Var)
deriving Repr, DecidableEq, Inhabited

/-- `AccessTrie`; `RootAccessTrie` is the list of its roots.  `isEntity` is `node_type.is_entity_type()`
(`false` while `node_type` is `None`). -/
inductive AccessTrie where
  | mk (children : List (String × AccessTrie)) (ancestors : List (EntityRoot × AccessTrie))
       (isAncestor : Bool) (isEntity : Bool)
deriving Repr, Inhabited

abbrev Fields := List (String × AccessTrie)
abbrev RootAccessTrie := List (EntityRoot × AccessTrie)

def AccessTrie.children : AccessTrie → Fields | .mk c _ _ _ => c
def AccessTrie.ancestors : AccessTrie → RootAccessTrie | .mk _ a _ _ => a
def AccessTrie.isAncestor : AccessTrie → Bool | .mk _ _ i _ => i
def AccessTrie.isEntity : AccessTrie → Bool | .mk _ _ _ e => e

/-- `AccessTrie::new()` -/
def AccessTrie.new : AccessTrie := .mk [] [] false false

/-- `== AccessTrie::new()` (derived `PartialEq`: no children, empty ancestors trie, not an ancestor, no type) -/
def AccessTrie.isNew : AccessTrie → Bool
  | .mk c a i e => c.isEmpty && a.isEmpty && !i && !e

def lookupField (c : Fields) (k : String) : Option AccessTrie :=
  match c with
  | [] => none
  | (k', t) :: rest => if k' == k then some t else lookupField rest k

def replaceField (k : String) (t : AccessTrie) : Fields → Fields
  | [] => []
  | (k', t') :: rest => if k' == k then (k, t) :: rest else (k', t') :: replaceField k t rest

def lookupRoot (c : RootAccessTrie) (k : EntityRoot) : Option AccessTrie :=
  match c with
  | [] => none
  | (k', t) :: rest => if k' == k then some t else lookupRoot rest k

def replaceRoot (k : EntityRoot) (t : AccessTrie) : RootAccessTrie → RootAccessTrie
  | [] => []
  | (k', t') :: rest => if k' == k then (k, t) :: rest else (k', t') :: replaceRoot k t rest

-- `AccessTrie::union_mut`, `union_fields_mut`, `RootAccessTrie::union_mut` (entry API: occupied → union, vacant → insert)
mutual
def AccessTrie.union (t1 : AccessTrie) : AccessTrie → AccessTrie
  | .mk c2 a2 i2 _ =>
    match t1 with
    | .mk c1 a1 i1 e1 => .mk (unionFields c1 c2) (unionRoots a1 a2) (i1 || i2) e1
def unionFields (c1 : Fields) : Fields → Fields
  | [] => c1
  | (k, v) :: rest =>
    match lookupField c1 k with
    | some t => unionFields (replaceField k (AccessTrie.union t v) c1) rest
    | none => unionFields (c1 ++ [(k, v)]) rest
def unionRoots (c1 : RootAccessTrie) : RootAccessTrie → RootAccessTrie
  | [] => c1
  | (k, v) :: rest =>
    match lookupRoot c1 k with
    | some t => unionRoots (replaceRoot k (AccessTrie.union t v) c1) rest
    | none => unionRoots (c1 ++ [(k, v)]) rest
end

/-- the chain `f₁ → f₂ → … → leaf` (`to_root_access_trie_with_leaf`, the loop over the reversed path) -/
def pathTrie : List String → AccessTrie → AccessTrie
  | [], leaf => leaf
  | f :: fs, leaf => .mk [(f, pathTrie fs leaf)] [] false false

/-- `AccessPath::to_root_access_trie_with_leaf`: nothing is inserted when the chain is `AccessTrie::new()` -/
def toRootTrieWithLeaf (root : EntityRoot) (path : List String) (leaf : AccessTrie) : RootAccessTrie :=
  let cur := pathTrie path leaf
  if cur.isNew then [] else [(root, cur)]

/-! ## the analysis (analysis.rs, entity_manifest.rs) -/

/-- `WrappedAccessPaths` -/
inductive WPaths where
  | empty
  | path (root : EntityRoot) (fields : List String)
  | union (a b : WPaths)
  | record (kvs : List (String × WPaths))
  | set (elems : WPaths)
deriving Repr, Inhabited

/-- failure exits of the analysis -/
inductive MErr where
  /-- `UnsupportedCedarFeatureError` (entity tags) -/
  | unsupported
  /-- `PartialExpressionError` -/
  | partialExpr
  /-- `MismatchedEntityManifestError` of `to_typed` -/
  | mismatched
  /-- a `panic!` / `expect` / `assert!` site of the mirrored code -/
  | panic (site : String)
deriving Repr, DecidableEq, Inhabited

abbrev M := Except MErr

def lookupW (kvs : List (String × WPaths)) (k : String) : Option WPaths :=
  match kvs with
  | [] => none
  | (k', v) :: rest => if k' == k then some v else lookupW rest k

-- `WrappedAccessPaths::get_or_has_attr`
mutual
def WPaths.getOrHasAttr (attr : String) : WPaths → M WPaths
  | .path root fields => .ok (.path root (fields ++ [attr]))
  | .record kvs =>
    match lookupW kvs attr with
    | some f => .ok f
    | none => .ok (.record kvs)
  | .set _ => .error (.panic "Attempted to dereference a set literal.")
  | .empty => .ok .empty
  | .union a b =>
    match WPaths.getOrHasAttr attr a with
    | .error e => .error e
    | .ok a' => match WPaths.getOrHasAttr attr b with
      | .error e => .error e
      | .ok b' => .ok (.union a' b')
end

-- `type_to_access_trie`
mutual
def typeToAccessTrie : CedarType → AccessTrie
  | .record attrs _ => .mk (attrsToFields attrs) [] false false
  | _ => AccessTrie.new
def attrsToFields : List (String × Bool × CedarType) → Fields
  | [] => []
  | (k, _, t) :: rest => (k, typeToAccessTrie t) :: attrsToFields rest
end

/-- the loop of `full_type_required` on a record literal: over the *type's* attributes; the literal's field is looked up
by name (`literal_fields.remove(attr).unwrap_or_else(panic)`) and analysed at the attribute's type.  `fns` holds, per
literal field, its `full_type_required` as a function of the type. -/
def fullTypeRecord (fns : List (String × (CedarType → M RootAccessTrie))) : List (String × Bool × CedarType) → M RootAccessTrie
  | [] => .ok []
  | (attr, _, aty) :: rest =>
    match fns.find? (fun kf => kf.1 == attr) with
    | none => .error (.panic "Missing field in record literal")
    | some kf =>
      match kf.2 aty with
      | .error e => .error e
      | .ok r => match fullTypeRecord fns rest with
        | .error e => .error e
        | .ok rs => .ok (unionRoots r rs)

-- `WrappedAccessPaths::full_type_required`
mutual
def WPaths.fullTypeRequired : WPaths → CedarType → M RootAccessTrie
  | .path root fields, ty => .ok (toRootTrieWithLeaf root fields (typeToAccessTrie ty))
  | .record kvs, ty =>
    match ty with
    | .record attrs _ => fullTypeRecord (fullTypeFns kvs) attrs
    | _ => .error (.panic "Found record literal when expected another type")
  | .set elems, ty =>
    match ty with
    | .set (some ety) => WPaths.fullTypeRequired elems ety
    | .set none => .error (.panic "Expected concrete set type after typechecking")
    | _ => .error (.panic "Found set literal when expected another type")
  | .empty, _ => .ok []
  | .union a b, ty =>
    match WPaths.fullTypeRequired a ty with
    | .error e => .error e
    | .ok ra => match WPaths.fullTypeRequired b ty with
      | .error e => .error e
      | .ok rb => .ok (unionRoots ra rb)
def fullTypeFns : List (String × WPaths) → List (String × (CedarType → M RootAccessTrie))
  | [] => []
  | (k, v) :: rest => (k, WPaths.fullTypeRequired v) :: fullTypeFns rest
end

-- `RootAccessTrie::add_wrapped_access_paths`
mutual
def addWrapped (g : RootAccessTrie) (isAnc : Bool) (ancTrie : RootAccessTrie) : WPaths → RootAccessTrie
  | .path root fields => unionRoots g (toRootTrieWithLeaf root fields (.mk [] ancTrie isAnc false))
  | .record kvs => addWrappedKVs g isAnc ancTrie kvs
  | .set elems => addWrapped g isAnc ancTrie elems
  | .empty => g
  | .union a b => addWrapped (addWrapped g isAnc ancTrie a) isAnc ancTrie b
def addWrappedKVs (g : RootAccessTrie) (isAnc : Bool) (ancTrie : RootAccessTrie) : List (String × WPaths) → RootAccessTrie
  | [] => g
  | (_, v) :: rest => addWrappedKVs (addWrapped g isAnc ancTrie v) isAnc ancTrie rest
end

/-- `to_ancestor_access_trie` -/
def WPaths.toAncestorTrie (p : WPaths) : RootAccessTrie := addWrapped [] true [] p

/-- `EntityManifestAnalysisResult` -/
structure Res where
  global : RootAccessTrie
  paths : WPaths
deriving Repr, Inhabited

def Res.default : Res := ⟨[], .empty⟩
def Res.emptyPaths (r : Res) : Res := ⟨r.global, .empty⟩
def Res.union (a b : Res) : Res := ⟨unionRoots a.global b.global, .union a.paths b.paths⟩
def Res.fromRoot (root : EntityRoot) : Res := ⟨toRootTrieWithLeaf root [] AccessTrie.new, .path root []⟩
/-- `get_or_has_attr` followed by `restore_global_trie_invariant` -/
def Res.getOrHasAttr (r : Res) (attr : String) : M Res :=
  match r.paths.getOrHasAttr attr with
  | .error e => .error e
  | .ok p => .ok ⟨addWrapped r.global false [] p, p⟩
def Res.withAncestorsRequired (r : Res) (ancTrie : RootAccessTrie) : Res :=
  ⟨addWrapped r.global false ancTrie r.paths, r.paths⟩
def Res.fullTypeRequired (r : Res) (ty : CedarType) : M Res :=
  match r.paths.fullTypeRequired ty with
  | .error e => .error e
  | .ok t => .ok ⟨unionRoots r.global t, .empty⟩

/-- the typechecker's output (`Expr<Option<Type>>`), carrying the annotations the analysis reads: the operand types of
`== in contains containsAll containsAny` and of `isEmpty` -/
inductive TExpr where
  | lit (p : Prim)
  | var (v : Var)
  | slot (s : SlotId)
  | unknown (name : String)
  | ite (c t e : TExpr)
  | and (a b : TExpr)
  | or (a b : TExpr)
  | unaryApp (op : UnaryOp) (ty : Option CedarType) (a : TExpr)
  | binaryApp (op : BinaryOp) (ty1 ty2 : Option CedarType) (a b : TExpr)
  | call (fn : String) (args : List TExpr)
  | getAttr (e : TExpr) (attr : String)
  | hasAttr (e : TExpr) (attr : String)
  | like (e : TExpr) (p : Pattern)
  | is (e : TExpr) (ty : EntityType)
  | set (es : List TExpr)
  | record (kvs : List (String × TExpr))
deriving Repr, Inhabited

-- forget the annotations
mutual
def TExpr.erase : TExpr → Expr
  | .lit p => .lit p
  | .var v => .var v
  | .slot s => .slot s
  | .unknown n => .unknown n none
  | .ite c t e => .ite c.erase t.erase e.erase
  | .and a b => .and a.erase b.erase
  | .or a b => .or a.erase b.erase
  | .unaryApp op _ a => .unaryApp op a.erase
  | .binaryApp op _ _ a b => .binaryApp op a.erase b.erase
  | .call fn args => .call fn (eraseList args)
  | .getAttr e a => .getAttr e.erase a
  | .hasAttr e a => .hasAttr e.erase a
  | .like e p => .like e.erase p
  | .is e ty => .is e.erase ty
  | .set es => .set (eraseList es)
  | .record kvs => .record (eraseKVs kvs)
def eraseList : List TExpr → List Expr
  | [] => []
  | x :: xs => x.erase :: eraseList xs
def eraseKVs : List (String × TExpr) → List (String × Expr)
  | [] => []
  | (k, x) :: xs => (k, x.erase) :: eraseKVs xs
end

def needTy : Option CedarType → M CedarType
  | some t => .ok t
  | none => .error (.panic "Expected annotated types after typechecking")

/-- `&&`, `||`, `< <= + - *`: `left.empty_paths().union(right.empty_paths())` -/
def primPair (ra rb : M Res) : M Res :=
  match ra with
  | .error x => .error x
  | .ok ra => match rb with
    | .error x => .error x
    | .ok rb => .ok (ra.emptyPaths.union rb.emptyPaths)

-- `entity_manifest_from_expr`
mutual
def manifestOfExpr : TExpr → M Res
  | .slot s =>
    match s with
    | .principal => .ok (Res.fromRoot (.var .principal))
    | .resource => .ok (Res.fromRoot (.var .resource))
  | .var v => .ok (Res.fromRoot (.var v))
  | .lit (.entityUID u) => .ok (Res.fromRoot (.literal u))
  | .unknown _ => .error .partialExpr
  | .lit _ => .ok Res.default
  | .ite c t e =>
    match manifestOfExpr c with
    | .error x => .error x
    | .ok rc => match manifestOfExpr t with
      | .error x => .error x
      | .ok rt => match manifestOfExpr e with
        | .error x => .error x
        | .ok re => .ok ((rc.emptyPaths.union rt).union re)
  | .and a b => primPair (manifestOfExpr a) (manifestOfExpr b)
  | .or a b => primPair (manifestOfExpr a) (manifestOfExpr b)
  | .unaryApp op ty a =>
    match op with
    | .not | .neg =>
      match manifestOfExpr a with
      | .error x => .error x
      | .ok r => .ok r.emptyPaths
    | .isEmpty =>
      match needTy ty with
      | .error x => .error x
      | .ok ty => match manifestOfExpr a with
        | .error x => .error x
        | .ok r => match r.fullTypeRequired ty with
          | .error x => .error x
          | .ok r' => .ok r'.emptyPaths
  | .binaryApp op ty1 ty2 a b =>
    match op with
    | .less | .lessEq | .add | .sub | .mul => primPair (manifestOfExpr a) (manifestOfExpr b)
    | .getTag | .hasTag => .error .unsupported
    | .eq | .mem | .contains | .containsAll | .containsAny =>
      match manifestOfExpr a with
      | .error x => .error x
      | .ok r1 => match manifestOfExpr b with
        | .error x => .error x
        | .ok r2 => match needTy ty1 with
          | .error x => .error x
          | .ok ty1 => match needTy ty2 with
            | .error x => .error x
            | .ok ty2 =>
              let r1 := if op == .mem then r1.withAncestorsRequired r2.paths.toAncestorTrie else r1
              match r1.fullTypeRequired ty1 with
              | .error x => .error x
              | .ok f1 => match r2.fullTypeRequired ty2 with
                | .error x => .error x
                | .ok f2 => .ok (f1.union f2).emptyPaths
  | .call _ args => manifestUnionList Res.default args
  | .like e _ =>
    match manifestOfExpr e with
    | .error x => .error x
    | .ok r => .ok r.emptyPaths
  | .is e _ =>
    match manifestOfExpr e with
    | .error x => .error x
    | .ok r => .ok r.emptyPaths
  | .set es =>
    match manifestUnionList Res.default es with
    | .error x => .error x
    | .ok r => .ok ⟨r.global, .set r.paths⟩
  | .record kvs =>
    match manifestRecord kvs with
    | .error x => .error x
    | .ok (g, ps) => .ok ⟨g, .record ps⟩
  | .getAttr e attr =>
    match manifestOfExpr e with
    | .error x => .error x
    | .ok r => r.getOrHasAttr attr
  | .hasAttr e attr =>
    match manifestOfExpr e with
    | .error x => .error x
    | .ok r => match r.getOrHasAttr attr with
      | .error x => .error x
      | .ok r' => .ok r'.emptyPaths
/-- `for arg in args { res = res.union(analyse(arg)?) }` -/
def manifestUnionList (acc : Res) : List TExpr → M Res
  | [] => .ok acc
  | x :: xs =>
    match manifestOfExpr x with
    | .error e => .error e
    | .ok r => manifestUnionList (acc.union r) xs
/-- record literal: the global tries are unioned (left fold, starting from the default), the paths kept per key -/
def manifestRecord : List (String × TExpr) → M (RootAccessTrie × List (String × WPaths))
  | [] => .ok ([], [])
  | (k, x) :: xs =>
    match manifestOfExpr x with
    | .error e => .error e
    | .ok r => match manifestRecord xs with
      | .error e => .error e
      | .ok (g, ps) => .ok (unionRoots r.global g, (k, r.paths) :: ps)
end

/-! ## type annotation (type_annotations.rs) -/

/-- `RequestType` -/
structure ReqType where
  principal : EntityType
  action : EntityUID
  resource : EntityType
deriving Repr, Inhabited

/-- `Type::is_entity_type` -/
def isEntityTy : CedarType → Bool
  | .entity _ => true
  | .anyEntity => true
  | _ => false

/-- `Type::euid_literal` -/
def euidLiteralType (s : Schema) (u : EntityUID) : Option CedarType :=
  if isActionType u.ty then
    match s.action? u with
    | some _ => some (.entity [u.ty])
    | none => none
  else
    match s.entityType? u.ty with
    | some _ => some (.entity [u.ty])
    | none => none

/-- the attributes `children_of` consults for a node of type `ty`; `none` = the early `return Ok(empty)` for types
without fields (where Rust also asserts that the node has no children) -/
def attrsOfType (s : Schema) : CedarType → M (Option Attrs)
  | .record attrs _ => .ok (some attrs)
  | .anyEntity => .error .mismatched
  | .entity [ety] =>
    if isActionType ety then .ok (some [])
    else match s.entityType? ety with
      | some et => .ok (some et.attrs)
      | none => .error .mismatched
  | .entity _ => .error .mismatched
  | _ => .ok none

-- `AccessTrie::to_typed`, `children_of`, `RootAccessTrie::to_typed`
mutual
def AccessTrie.toTyped (s : Schema) (rt : ReqType) : AccessTrie → CedarType → M AccessTrie
  | .mk c a i _, ty =>
    match attrsOfType s ty with
    | .error e => .error e
    | .ok none =>
      if !c.isEmpty then .error (.panic "assert!(self.children.is_empty())") else
      match toTypedRoots s rt a with
      | .error e => .error e
      | .ok a' => .ok (.mk [] a' i (isEntityTy ty))
    | .ok (some attrs) =>
      match toTypedFields s rt attrs c with
      | .error e => .error e
      | .ok c' => match toTypedRoots s rt a with
        | .error e => .error e
        | .ok a' => .ok (.mk c' a' i (isEntityTy ty))
/-- children whose field the schema does not mention are dropped -/
def toTypedFields (s : Schema) (rt : ReqType) (attrs : Attrs) : Fields → M Fields
  | [] => .ok []
  | (f, t) :: rest =>
    match Attrs.find? attrs f with
    | none => toTypedFields s rt attrs rest
    | some (_, fty) =>
      match AccessTrie.toTyped s rt t fty with
      | .error e => .error e
      | .ok t' => match toTypedFields s rt attrs rest with
        | .error e => .error e
        | .ok rest' => .ok ((f, t') :: rest')
def toTypedRoots (s : Schema) (rt : ReqType) : RootAccessTrie → M RootAccessTrie
  | [] => .ok []
  | (root, t) :: rest =>
    let ty : M CedarType :=
      match root with
      | .literal u => (match euidLiteralType s u with | some ty => .ok ty | none => .error .mismatched)
      | .var .action => (match euidLiteralType s rt.action with | some ty => .ok ty | none => .error .mismatched)
      | .var .principal => .ok (.entity [rt.principal])
      | .var .resource => .ok (.entity [rt.resource])
      | .var .context => (match s.action? rt.action with | some a => .ok a.context | none => .error .mismatched)
    match ty with
    | .error e => .error e
    | .ok ty =>
      match AccessTrie.toTyped s rt t ty with
      | .error e => .error e
      | .ok t' => match toTypedRoots s rt rest with
        | .error e => .error e
        | .ok rest' => .ok ((root, t') :: rest')
end

/-- the per-request-type body of `compute_entity_manifest`: union of the tries of the typed ASTs of all request
environments with this request type (an `Irrelevant` environment contributes nothing), then `to_typed` -/
def manifestOfEnvs (s : Schema) (rt : ReqType) (es : List TExpr) : M RootAccessTrie :=
  let rec go (acc : RootAccessTrie) : List TExpr → M RootAccessTrie
    | [] => .ok acc
    | e :: rest =>
      match manifestOfExpr e with
      | .error x => .error x
      | .ok r => go (unionRoots acc r.global) rest
  match go [] es with
  | .error x => .error x
  | .ok t => toTypedRoots s rt t

/-! ## slicing (slicing.rs, loader.rs) -/

-- `AccessTrie::slice_val` (pure part) and the attribute loop shared with `slice_entity`
mutual
def sliceVal : AccessTrie → Value → Value
  | .mk c _ _ _, v =>
    match v with
    | .record kvs => .record (sliceFields c kvs)
    | v => v
/-- `for (field, slice) in &self.children { if let Some(v) = record.get(field) { new_map.insert(field, slice.slice_val(v)) } }` -/
def sliceFields : Fields → List (String × Value) → List (String × Value)
  | [], _ => []
  | (f, t) :: rest, kvs =>
    match lookupKV kvs f with
    | some v => insertKV f (sliceVal t v) (sliceFields rest kvs)
    | none => sliceFields rest kvs
end

-- `prune_entity_dereferences` / `prune_child_entity_dereferences`
mutual
def pruneEntityDeref : AccessTrie → AccessTrie
  | .mk c a i e => .mk (if e then [] else pruneFields c) a i e
def pruneFields : Fields → Fields
  | [] => []
  | (k, t) :: rest => (k, pruneEntityDeref t) :: pruneFields rest
end

def pruneChildEntityDeref : AccessTrie → AccessTrie
  | .mk c a i e => .mk (pruneFields c) a i e

/-- `EntitySlicer::load_entities` for one request: `request.access_trie.slice_entity(entity)` on the pruned trie
(no ancestors, no tags) -/
def sliceEntity (t : AccessTrie) (d : EntityData) : EntityData :=
  { attrs := sliceFields (pruneChildEntityDeref t).children d.attrs, ancestors := [], tags := [] }

-- `find_remaining_entities_value` / `find_remaining_entities`, closed under the main loop of `load_entities`:
-- every entity request reachable from a value through a trie, each followed by the requests found in the loaded slice
mutual
def expandValue (es : Entities) : AccessTrie → Value → List (EntityUID × AccessTrie)
  | .mk c a i e, v =>
    match v with
    | .prim (.entityUID u) =>
      (u, .mk c a i e) ::
        (match es.find? u with
         | some d => expandFields es c (sliceFields (pruneFields c) d.attrs)
         | none => [])
    | .record kvs => expandFields es c kvs
    | _ => []
def expandFields (es : Entities) : Fields → List (String × Value) → List (EntityUID × AccessTrie)
  | [], _ => []
  | (f, t) :: rest, kvs =>
    (match lookupKV kvs f with
     | some v => expandValue es t v
     | none => []) ++ expandFields es rest kvs
end

def rootUid (req : Request) : EntityRoot → Option EntityUID
  | .var .principal => some req.principal
  | .var .action => some req.action
  | .var .resource => some req.resource
  | .literal u => some u
  | .var .context => none

/-- `initial_entities_to_load` closed under the loading loop: the context trie is walked over the context value, every
other root is an entity request -/
def allRequests (es : Entities) (req : Request) : RootAccessTrie → List (EntityUID × AccessTrie)
  | [] => []
  | (root, t) :: rest =>
    (match rootUid req root with
     | some u => expandValue es t (.prim (.entityUID u))
     | none => expandFields es t.children req.context) ++ allRequests es req rest

-- `merge_values` / the attribute loop of `merge_entities` (the `assert_eq!`s on equal literals / sets are `mergeFault`)
mutual
def mergeValues (v1 : Value) : Value → Value
  | .record r2 =>
    match v1 with
    | .record r1 => .record (mergeKVs r1 r2)
    | v1 => v1
  | _ => v1
def mergeKVs (r1 : List (String × Value)) : List (String × Value) → List (String × Value)
  | [] => r1
  | (k, v2) :: rest =>
    match lookupKV r1 k with
    | some v1 => mergeKVs (insertKV k (mergeValues v1 v2) r1) rest
    | none => mergeKVs (insertKV k v2 r1) rest
end

def mergeEntities (d1 d2 : EntityData) : EntityData :=
  { attrs := mergeKVs d1.attrs d2.attrs, ancestors := d1.ancestors, tags := [] }

/-- `entities.entry(id)`: occupied → merge, vacant → insert -/
def insertOrMerge (m : Entities) (u : EntityUID) (d : EntityData) : Entities :=
  match m with
  | [] => [(u, d)]
  | (u', d') :: rest => if u' == u then (u', mergeEntities d' d) :: rest else (u', d') :: insertOrMerge rest u d

/-- the loaded slices, merged per uid -/
def loadAll (es : Entities) : List (EntityUID × AccessTrie) → Entities → Entities
  | [], m => m
  | (u, t) :: rest, m =>
    match es.find? u with
    | some d => loadAll es rest (insertOrMerge m u (sliceEntity t d))
    | none => loadAll es rest m

def entityElems : List Value → List EntityUID
  | [] => []
  | .prim (.entityUID u) :: rest => u :: entityElems rest
  | _ :: rest => entityElems rest

-- `compute_ancestors_request`: walk the ancestors trie over the *loaded* entities collecting the ids marked `is_ancestor`
mutual
def ancValue (m : Entities) : AccessTrie → Value → List EntityUID
  | .mk c _ i _, v =>
    match v with
    | .prim (.entityUID u) =>
      (if i then [u] else []) ++
        (match m.find? u with
         | some d => ancFields m c d.attrs
         | none => [])
    | .set vs => if i then entityElems vs else []
    | .record kvs => ancFields m c kvs
    | _ => []
def ancFields (m : Entities) : Fields → List (String × Value) → List EntityUID
  | [], _ => []
  | (f, t) :: rest, kvs =>
    (match lookupKV kvs f with
     | some v => ancValue m t v
     | none => []) ++ ancFields m rest kvs
end

def ancRequest (m : Entities) (req : Request) : RootAccessTrie → List EntityUID
  | [] => []
  | (root, t) :: rest =>
    (match rootUid req root with
     | some u => ancValue m t (.prim (.entityUID u))
     | none => ancFields m t.children req.context) ++ ancRequest m req rest

/-- `EntitySlicer::load_ancestors` + `entity.add_parent`: of the requested ids, those the original entity descends from -/
def addAncestors (es : Entities) (m : Entities) (req : Request) : List (EntityUID × AccessTrie) → Entities → Entities
  | [], acc => acc
  | (u, t) :: rest, acc =>
    let wanted := ancRequest m req t.ancestors
    let have_ := match es.find? u with
      | some d => wanted.filter (fun a => d.ancestors.contains a)
      | none => []
    let acc := acc.map (fun (u', d') =>
      if u' == u then (u', { d' with ancestors := d'.ancestors ++ have_.filter (fun a => !d'.ancestors.contains a) }) else (u', d'))
    addAncestors es m req rest acc

/-- `load_entities` with `EntitySlicer` (pure result): the store sliced by the trie of the request's type -/
def sliceStorePure (t : RootAccessTrie) (req : Request) (es : Entities) : Entities :=
  let reqs := allRequests es req t
  let m := loadAll es reqs []
  addAncestors es m req reqs m

inductive SliceErr where
  /-- `IncompatibleEntityManifestError`: children requested of a set / literal / extension value -/
  | incompatible
  /-- `assert!` / `panic!` sites of loader.rs and slicing.rs -/
  | panic (site : String)
deriving Repr, DecidableEq, Inhabited

def isEntityLit : Value → Bool
  | .prim (.entityUID _) => true
  | _ => false

-- the failure exits of `slice_val` on the values it is applied to
mutual
def sliceValFault : AccessTrie → Value → Option SliceErr
  | .mk c _ _ _, v =>
    match v with
    | .record kvs => sliceFieldsFault c kvs
    | .prim (.entityUID _) => if c.isEmpty then none else some (.panic "assert!(self.children.is_empty())")
    | _ => if c.isEmpty then none else some .incompatible
def sliceFieldsFault : Fields → List (String × Value) → Option SliceErr
  | [], _ => none
  | (f, t) :: rest, kvs =>
    match lookupKV kvs f with
    | some v => (match sliceValFault t v with | some e => some e | none => sliceFieldsFault rest kvs)
    | none => sliceFieldsFault rest kvs
end

-- the `assert!`s of `find_remaining_entities_value`
mutual
def remainingFault : AccessTrie → Value → Option SliceErr
  | .mk c a i _, v =>
    if !a.isEmpty && !isEntityLit v then some (.panic "ancestors trie on a non-entity value") else
    match v with
    | .prim (.entityUID _) => none
    | .set vs =>
      if i && vs.any (fun x => !isEntityLit x) then some (.panic "Found is_ancestor on set of non-entity-type") else none
    | .record kvs =>
      if i then some (.panic "is_ancestor on a record") else remainingFieldsFault c kvs
    | _ => if i then some (.panic "is_ancestor on a non-entity value") else none
def remainingFieldsFault : Fields → List (String × Value) → Option SliceErr
  | [], _ => none
  | (f, t) :: rest, kvs =>
    match lookupKV kvs f with
    | some v => (match remainingFault t v with | some e => some e | none => remainingFieldsFault rest kvs)
    | none => remainingFieldsFault rest kvs
end

/-- first failure over the loading loop (per request: slicing the entity, then scanning the slice) -/
def sliceFault (t : RootAccessTrie) (req : Request) (es : Entities) : Option SliceErr :=
  let ctxFault := match lookupRoot t (.var .context) with
    | some tc => remainingFieldsFault tc.children req.context
    | none => none
  match ctxFault with
  | some e => some e
  | none =>
    (allRequests es req t).findSome? (fun (u, tr) =>
      match es.find? u with
      | some d =>
        (match sliceFieldsFault (pruneChildEntityDeref tr).children d.attrs with
         | some e => some e
         | none => remainingFieldsFault tr.children (sliceEntity tr d).attrs)
      | none => none)

/-- `EntityManifest::slice_entities` for the trie of the request's type (`none`: no entry → the empty store) -/
def sliceStore (t : Option RootAccessTrie) (req : Request) (es : Entities) : Except SliceErr Entities :=
  match t with
  | none => .ok []
  | some t =>
    match sliceFault t req es with
    | some e => .error e
    | none => .ok (sliceStorePure t req es)

end Cedar.Manifest
