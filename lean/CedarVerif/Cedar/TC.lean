/-
C04 model: the entity store's hierarchy maintenance.
Mirrors cedar-policy-core/src/entities.rs (`from_entities`, `add_entities`, `upsert_entities`,
`remove_entities`, `update_entity_map`, the three `TCComputation` modes; `upsert_entities` as REPAIRED in /repo:
the collection is deduped first (`dedupLastAtFirstPos`), `upsertEntitiesPreFix` is the code before the repair) and
cedar-policy-core/src/transitive_closure.rs (`repair_tc`, `compute_tc_internal`, `add_ancestors`,
`enforce_tc_and_dag`, `enforce_tc`, `enforce_dag_from_tc`, `enforce_dag_from_tc_for`) together with the
`TCNode` impl of `Entity` (ast/entity.rs: `out_edges` = parents then indirect ancestors,
`add_edge_to` = `add_indirect_ancestor`, `deep_eq`).

A store is an association list `uid ↦ (parents, indirect ancestors, payload tag)`; lists stand for the
Rust `HashSet`s/`HashMap` (iteration order = list order; results that the property talks about are
order-independent, the driver prints everything sorted). The payload tag stands for attrs+tags, which
matter only for `deep_eq`.

NOT mirrored: the SCC internals of `cyclic_tc` (used by `compute_tc` in `from_entities`); they are
modelled by their contract `closure` (saturate to a fixpoint). Everything else follows the Rust control flow.
Spec side: `Reach` (= Reach⁺ over direct-parent links of the records present; a parent without a record
is a leaf), `parentGraph` and the spec operations on parent graphs.
Import-free, total, computable.
-/
namespace Cedar.TC

variable {α : Type} [DecidableEq α]

structure Node (α : Type) where
  parents : List α
  indirect : List α
  /-- opaque payload (attributes + tags): only compared by `deep_eq` -/
  tag : Nat := 0
deriving Repr

abbrev Store (α : Type) := List (α × Node α)

/-- `Entity::ancestors` / `TCNode::out_edges`: parents chained with indirect ancestors -/
def Node.out (n : Node α) : List α := n.parents ++ n.indirect

def get (s : Store α) (x : α) : Option (Node α) :=
  match s with
  | [] => none
  | (k, n) :: rest => if k = x then some n else get rest x

def set (s : Store α) (x : α) (n : Node α) : Store α :=
  match s with
  | [] => []
  | (k, m) :: rest => if k = x then (k, n) :: rest else (k, m) :: set rest x n

def erase (s : Store α) (x : α) : Store α := s.filter (fun kn => decide (kn.1 ≠ x))

def keys (s : Store α) : List α := s.map (·.1)

/-- `add_indirect_ancestor`: no-op if already a parent (or already present). -/
def Node.addEdge (n : Node α) (k : α) : Node α :=
  if k ∈ n.parents ∨ k ∈ n.indirect then n else { n with indirect := n.indirect ++ [k] }

def Node.addEdges (n : Node α) (ks : List α) : Node α := ks.foldl Node.addEdge n

/-! ### `add_ancestors` (mirror; see design_spikes/tc/AddAncestors.lean) -/

structure LoopSt (α : Type) where
  s : Store α
  seen : List α
  acc : List α
  explored : List α

/-- one iteration of the `for ancestor_id in out_edges` loop; `rec` is `add_ancestors` one level down -/
def loopStep (rec : α → Store α → List α → Store α × List α) (st : LoopSt α) (a : α) : LoopSt α :=
  let r := if a ∈ st.seen then (st.s, st.seen) else rec a st.s (a :: st.seen)
  if a ∈ st.explored then { st with s := r.1, seen := r.2 } else
    match get r.1 a with
    | some na => { s := r.1, seen := r.2, acc := st.acc ++ na.out, explored := a :: st.explored }
    | none => { s := r.1, seen := r.2, acc := st.acc, explored := a :: st.explored }

/-- mirror of `add_ancestors(node_id, nodes, seen)`; `fuel` bounds the recursion depth
    (every recursive call adds a fresh uid to `seen`, so `|uidsOf s| + 1` is never exhausted). -/
def addAnc : Nat → α → Store α → List α → Store α × List α
  | 0, _, s, seen => (s, seen)
  | f+1, x, s, seen =>
    match get s x with
    | none => (s, seen)
    | some nx =>
      let st := nx.out.foldl (loopStep (addAnc f)) { s := s, seen := seen, acc := [], explored := [] }
      match get st.s x with
      | some nx' => (set st.s x (nx'.addEdges st.acc), st.seen)
      | none => (st.s, st.seen)   -- the Rust `expect("This node should always exist.")` site

/-! ### errors, modes -/

inductive Err where
  | duplicate   -- EntitiesError::Duplicate
  | cycle       -- TcError::HasCycle
  | missing     -- TcError::MissingTcEdge
  | fuel        -- model only: `closure` did not stabilise (never produced; see `closure`)
deriving DecidableEq, Repr

inductive Mode where
  | assume | enforce | compute
deriving DecidableEq, Repr

abbrev Res (β : Type) := Except Err β

/-! ### `enforce_tc_and_dag` (exact mirror) -/

/-- `enforce_tc`: every out-edge's target's out-edges are out-edges -/
def enforceTc (s : Store α) : Bool :=
  s.all fun kn => kn.2.out.all fun p =>
    match get s p with
    | some pn => pn.out.all fun g => decide (g ∈ kn.2.out)
    | none => true

/-- `enforce_dag_from_tc`: no node has an out-edge to itself -/
def enforceDag (s : Store α) : Bool := s.all fun kn => decide (kn.1 ∉ kn.2.out)

def enforceTcAndDag (s : Store α) : Res Unit :=
  if enforceTc s then (if enforceDag s then .ok () else .error .cycle) else .error .missing

/-- `enforce_dag_from_tc_for`: only the given nodes are checked for a self-edge -/
def enforceDagFor (t : List α) (s : Store α) : Bool :=
  t.all fun k => match get s k with
    | some n => decide (k ∉ n.out)
    | none => true

/-! ### `repair_tc` -/

def uidsOf (s : Store α) : List α := s.flatMap fun kn => kn.1 :: kn.2.out

def fuelOf (s : Store α) : Nat := (uidsOf s).length + 1

/-- `compute_tc_internal` with `detect_cycles = true`: every node to fix is visited (it is *not*
    put into `seen` by the outer loop) -/
def repairLoop (fuel : Nat) (t : List α) (s : Store α) (seen : List α) : Store α × List α :=
  t.foldl (fun (st : Store α × List α) x => addAnc fuel x st.1 st.2) (s, seen)

/-- `repair_tc(nodes_to_fix, nodes, enforce_dag = true)` -/
def repairTc (t : List α) (s : Store α) : Res (Store α) :=
  let seen := (keys s).filter (fun k => decide (k ∉ t))
  let s' := (repairLoop (fuelOf s) t s seen).1
  if enforceDagFor t s' then .ok s' else .error .cycle

/-! ### `compute_tc` by contract -/

/-- one saturation round (all nodes, from the old store): out(x) ∪= ⋃ { out(a) | a ∈ out(x) } -/
def closeStep (s : Store α) : Store α :=
  s.map fun kn => (kn.1, kn.2.addEdges (kn.2.out.flatMap fun a => match get s a with
    | some na => na.out
    | none => []))

def stable (s : Store α) : Bool := enforceTc s

def closeIter : Nat → Store α → Store α
  | 0, s => s
  | f+1, s => if stable s then s else closeIter f (closeStep s)

/-- contract of `compute_tc(nodes, enforce_dag = true)`: saturate, then look for a self-edge.
    `fuel` rounds always suffice (each unstable round adds an edge); the model reports
    `Err.fuel` rather than assuming it. -/
def closure (s : Store α) : Res (Store α) :=
  let n := (uidsOf s).length
  let s' := closeIter (n * n + 1) s
  if stable s' then (if enforceDag s' then .ok s' else .error .cycle) else .error .fuel

/-! ### `update_entity_map`, `deep_eq` -/

def sameSet (a b : List α) : Bool := a.all (fun x => decide (x ∈ b)) && b.all (fun x => decide (x ∈ a))

/-- `Entity::deep_eq` for two entities with the same uid: same payload, same *ancestor set* -/
def deepEq (n m : Node α) : Bool := n.tag == m.tag && sameSet n.out m.out

def updateEntityMap (s : Store α) (e : α × Node α) (allowOverride : Bool) : Res (Store α) :=
  match get s e.1 with
  | some old =>
    if allowOverride then .ok (set s e.1 e.2)
    else if deepEq e.2 old then .ok s else .error .duplicate
  | none => .ok (s ++ [e])

def createLoop (s : Store α) : List (α × Node α) → Res (Store α)
  | [] => .ok s
  | e :: es =>
    match updateEntityMap s e false with
    | .error err => .error err
    | .ok s' => createLoop s' es

def createEntityMap (es : List (α × Node α)) : Res (Store α) := createLoop [] es

def tinsert (k : α) (t : List α) : List α := if k ∈ t then t else t ++ [k]

/-- the loop "every entity with a touched ancestor becomes touched" (one pass; `touched` grows during it) -/
def touchPass (s : Store α) (t : List α) : List α :=
  s.foldl (fun t kn => if kn.2.out.any (fun a => decide (a ∈ t)) then tinsert kn.1 t else t) t

def finish (mode : Mode) (closeTouched : Bool) (s : Store α) (t : List α) : Res (Store α) :=
  match mode with
  | .assume => .ok s
  | .enforce => (match enforceTcAndDag s with | .ok _ => .ok s | .error e => .error e)
  | .compute => repairTc (if closeTouched then touchPass s t else t) s

/-! ### the four operations -/

def fromEntities (mode : Mode) (es : List (α × Node α)) : Res (Store α) :=
  match createEntityMap es with
  | .error e => .error e
  | .ok m =>
    match mode with
    | .assume => .ok m
    | .enforce => (match enforceTcAndDag m with | .ok _ => .ok m | .error e => .error e)
    | .compute => closure m

def addLoop (s : Store α) (t : List α) : List (α × Node α) → Res (Store α × List α)
  | [] => .ok (s, t)
  | e :: es =>
    match updateEntityMap s e false with
    | .error err => .error err
    | .ok s' => addLoop s' (tinsert e.1 t) es

def addEntities (mode : Mode) (s : Store α) (es : List (α × Node α)) : Res (Store α) :=
  match addLoop s [] es with
  | .error e => .error e
  | .ok (s1, t) => finish mode true s1 t

/-- what `remove_entities` does to a descendant of the removed `u` (whose record was `r`) -/
def stripRemoved (u : α) (r : Node α) (n : Node α) : Node α :=
  { n with parents := n.parents.filter (fun y => decide (y ≠ u)),
           indirect := n.indirect.filter (fun y => decide (y ≠ u) && decide (y ∉ r.out)) }

def removeOne (st : Store α × List α) (u : α) : Store α × List α :=
  match get st.1 u with
  | none => st
  | some r =>
    let s1 := erase st.1 u
    (s1.map (fun kn => if u ∈ kn.2.out then (kn.1, stripRemoved u r kn.2) else kn),
     s1.foldl (fun t kn => if u ∈ kn.2.out then tinsert kn.1 t else t) st.2)

def removeEntities (mode : Mode) (s : Store α) (us : List α) : Res (Store α) :=
  finish mode false (us.foldl removeOne (s, [])).1 (us.foldl removeOne (s, [])).2

/-- what `upsert_entities` does to a descendant of the overwritten `u` (old ancestors `oldAnc`) -/
def stripUpsert (u : α) (oldAnc : List α) (n : Node α) : Node α :=
  { n with indirect := n.indirect.filter (fun y => decide (y ≠ u) && decide (y ∉ oldAnc)) }

def upsertOne (st : Store α × List α) (e : α × Node α) : Store α × List α :=
  match get st.1 e.1 with
  | none => (st.1 ++ [e], tinsert e.1 st.2)
  | some old =>
    (set (st.1.map (fun kn => if kn.1 ≠ e.1 ∧ e.1 ∈ kn.2.out then (kn.1, stripUpsert e.1 old.out kn.2) else kn)) e.1 e.2,
     tinsert e.1 (st.1.foldl (fun t kn => if kn.1 ≠ e.1 ∧ e.1 ∈ kn.2.out then tinsert kn.1 t else t) st.2))

/-- the second loop of `upsert_entities` (`for entity in batch { strip; touch; update_entity_map(.., true) }`)
    followed by the `match tc_computation`. -/
def upsertApply (mode : Mode) (s : Store α) (batch : List (α × Node α)) : Res (Store α) :=
  finish mode true (batch.foldl upsertOne (s, [])).1 (batch.foldl upsertOne (s, [])).2

/-- `position.entry(uid)`: the index recorded for `uid` (the map has at most one entry per uid) -/
def posGet (pos : List (α × Nat)) (u : α) : Option Nat :=
  match pos with
  | [] => none
  | (k, i) :: rest => if k = u then some i else posGet rest u

/-- one iteration of the first loop of the repaired `upsert_entities` on the state (`batch`, `position`):
    `Occupied(pos)` → `if let Some(slot) = batch.get_mut(pos) { *slot = entity }` (`List.set` is a no-op on an
    index out of range, like the `if let`); `Vacant` → `pos.insert(batch.len()); batch.push(entity)`.
    (Schema validation of every entity — repeated ones included — is not part of this model: C04 runs
    without schema.) -/
def dedupStep (st : List (α × Node α) × List (α × Nat)) (e : α × Node α) : List (α × Node α) × List (α × Nat) :=
  match posGet st.2 e.1 with
  | some i => (st.1.set i e, st.2)
  | none => (st.1 ++ [e], st.2 ++ [(e.1, st.1.length)])

/-- the first loop of the repaired `upsert_entities` (`batch` / `position`): a uid named several times in
    the collection keeps only its LAST value, at the position of its FIRST occurrence -/
def dedupLastAtFirstPos (es : List (α × Node α)) : List (α × Node α) := (es.foldl dedupStep ([], [])).1

/-- `upsert_entities` AFTER /repo's fix: dedupe the collection, then apply every uid once. -/
def upsertEntities (mode : Mode) (s : Store α) (es : List (α × Node α)) : Res (Store α) :=
  upsertApply mode s (dedupLastAtFirstPos es)

/-- `upsert_entities` BEFORE /repo's fix (kept as the record of the defect
    `C04-upsert-batch-repeated-uid-stale-ancestor`): the strip/update loop ran over the collection as given,
    so a uid named twice was overwritten twice. -/
def upsertEntitiesPreFix (mode : Mode) (s : Store α) (es : List (α × Node α)) : Res (Store α) :=
  upsertApply mode s es

/-! ### histories -/

inductive Op (α : Type) where
  | from (mode : Mode) (es : List (α × Node α))
  | add (mode : Mode) (es : List (α × Node α))
  | upsert (mode : Mode) (es : List (α × Node α))
  | remove (mode : Mode) (us : List α)

def applyOp (s : Store α) : Op α → Res (Store α)
  | .from m es => fromEntities m es
  | .add m es => addEntities m s es
  | .upsert m es => upsertEntities m s es
  | .remove m us => removeEntities m s us

/-- a failed operation produces no store: the caller keeps the one it had -/
def stepOp (s : Store α) (o : Op α) : Store α :=
  match applyOp s o with
  | .ok s' => s'
  | .error _ => s

def runOps (s : Store α) (ops : List (Op α)) : Store α := ops.foldl stepOp s

/-- histories as the code BEFORE /repo's fix ran them (only `upsert` differs); used only to state the
    recorded defect -/
def applyOpPreFix (s : Store α) : Op α → Res (Store α)
  | .upsert m es => upsertEntitiesPreFix m s es
  | o => applyOp s o

def stepOpPreFix (s : Store α) (o : Op α) : Store α :=
  match applyOpPreFix s o with
  | .ok s' => s'
  | .error _ => s

def runOpsPreFix (s : Store α) (ops : List (Op α)) : Store α := ops.foldl stepOpPreFix s

/-! ### specification side -/

/-- `P x = some ps` : `x` has a record with direct parents `ps`. `Reach P` is Reach⁺. -/
inductive Reach (P : α → Option (List α)) : α → α → Prop
  | edge {x y ps} : P x = some ps → y ∈ ps → Reach P x y
  | step {x y z ps} : P x = some ps → z ∈ ps → Reach P z y → Reach P x y

/-- the direct-parent function of a store -/
def shape (s : Store α) : α → Option (List α) := fun x => (get s x).map (·.parents)

/-- the out-edge function of a store (what `enforce`/`closure` look at) -/
def outShape (s : Store α) : α → Option (List α) := fun x => (get s x).map (·.out)

abbrev PGraph (α : Type) := List (α × List α)

def parentGraph (s : Store α) : PGraph α := s.map fun kn => (kn.1, kn.2.parents)

def PGraph.get (g : PGraph α) (x : α) : Option (List α) :=
  match g with
  | [] => none
  | (k, ps) :: rest => if k = x then some ps else PGraph.get rest x

/-- spec `add`: records with new uids are appended (first occurrence wins), existing ones stay -/
def specAdd (g : PGraph α) : List (α × Node α) → PGraph α
  | [] => g
  | e :: es => match PGraph.get g e.1 with
    | some _ => specAdd g es
    | none => specAdd (g ++ [(e.1, e.2.parents)]) es

def PGraph.set (g : PGraph α) (x : α) (ps : List α) : PGraph α :=
  match g with
  | [] => []
  | (k, qs) :: rest => if k = x then (k, ps) :: rest else (k, qs) :: PGraph.set rest x ps

/-- spec `upsert`: replace the record or append it (last occurrence wins) -/
def specUpsert (g : PGraph α) : List (α × Node α) → PGraph α
  | [] => g
  | e :: es => match PGraph.get g e.1 with
    | some _ => specUpsert (PGraph.set g e.1 e.2.parents) es
    | none => specUpsert (g ++ [(e.1, e.2.parents)]) es

/-- spec `remove`: delete the record *and* the parent links to it -/
def specRemoveOne (g : PGraph α) (u : α) : PGraph α :=
  match PGraph.get g u with
  | none => g
  | some _ => (g.filter (fun kp => decide (kp.1 ≠ u))).map fun kp => (kp.1, kp.2.filter (fun y => decide (y ≠ u)))

def specRemove (g : PGraph α) (us : List α) : PGraph α := us.foldl specRemoveOne g

/-- the store observable: all ancestors of `x` (none if no record) -/
def ancestors (s : Store α) (x : α) : List α :=
  match get s x with
  | some n => n.out
  | none => []

end Cedar.TC
