import CedarVerif.Cedar.Syntax.Print
/-
`Parse.expr : List Token → Option Expr` — recursive-descent parser for the expression language of
cedar-policy-core/src/parser/grammar.lalrpop (`Expr Or And Relation Add Mult Unary Member MemAccess Primary Name Ref
RecInit Literal`), composed with the lowerings of cedar-policy-core/src/parser/cst_to_ast.rs
(`to_expr_or_special` at every level, `ExprOrSpecial`, negative-literal folding, `!`/`-` counting, method dispatch
`to_meth`, function dispatch `into_func`, `to_has_rhs`, `construct_expr_rel`, `extended_has_attr`,
`is_in_entity_type`) and of the AST builder (`&&`/`||` fold two boolean literals; records are `BTreeMap`s).
`none` = the real parser reports at least one error.

Shape: every grammar level is a function of the parser `pe` for `Expr` (open recursion); `parseFuel` ties the knot,
one unit of fuel per nesting of brackets / `if`.  Repetitions `( op X )*`, `MemAccess*`, `Comma<X>` are loops with
their own fuel (`remaining tokens + 1`, never exhausted because every iteration consumes a token).  Import-free.
-/
namespace Cedar.Syntax
open Cedar

/-- `cst_to_ast::ExprOrSpecial`, plus `num` for `Member::to_lit` (a bare number literal, not yet range checked) -/
inductive EOS where
  | expr (e : Expr)
  | var (v : Var)
  | name (path : List String) (id : String)
  | strLit (raw : List Char)
  | boolLit (b : Bool)
  | num (n : Nat)
deriving Repr, Inhabited

abbrev P (α : Type) := List Token → Option (α × List Token)

def i64Max : Nat := 9223372036854775807
def u64Max : Nat := 18446744073709551615

def strOfRaw (raw : List Char) : Option String :=
  match unescapeStr raw with
  | .ok cs => some (String.ofList cs)
  | .error _ => none

/-- `ExprOrSpecial::into_expr` (and `Literal::Num` → `Integer::try_from`) -/
def EOS.toExpr : EOS → Option Expr
  | .expr e => some e
  | .var v => some (.var v)
  | .name _ _ => none
  | .strLit raw => (strOfRaw raw).map (fun s => .lit (.string s))
  | .boolLit b => some (.lit (.bool b))
  | .num n => if n ≤ i64Max then some (.lit (.int (Int.ofNat n))) else none

/-- `to_valid_ident` -/
def validIdent (s : String) : Bool := !(reservedWords.contains s)
/-- `to_unreserved_ident`; also a component of a `Name` (`InternalName → Name` rejects `__cedar`) -/
def unreservedIdent (s : String) : Bool := validIdent s && s != "__cedar"

def varOfName (s : String) : Option Var :=
  if s = "principal" then some .principal else if s = "action" then some .action
  else if s = "resource" then some .resource else if s = "context" then some .context else none

/-- AST builder `and`: two boolean literals are folded -/
def mkAnd : Expr → Expr → Expr
  | .lit (.bool a), .lit (.bool b) => .lit (.bool (a && b))
  | a, b => .and a b
def mkOr : Expr → Expr → Expr
  | .lit (.bool a), .lit (.bool b) => .lit (.bool (a || b))
  | a, b => .or a b

def applyN (f : Expr → Expr) : Nat → Expr → Expr
  | 0, e => e
  | n + 1, e => f (applyN f n e)

def joinName (comps : List String) : String := "::".intercalate comps

/-- `UnreservedId::to_meth` -/
def toMeth (id : String) (e : Expr) (args : List Expr) : Option Expr :=
  if id = "contains" then match args with | [a] => some (.binaryApp .contains e a) | _ => none
  else if id = "containsAll" then match args with | [a] => some (.binaryApp .containsAll e a) | _ => none
  else if id = "containsAny" then match args with | [a] => some (.binaryApp .containsAny e a) | _ => none
  else if id = "isEmpty" then match args with | [] => some (.unaryApp .isEmpty e) | _ => none
  else if id = "getTag" then match args with | [a] => some (.binaryApp .getTag e a) | _ => none
  else if id = "hasTag" then match args with | [a] => some (.binaryApp .hasTag e a) | _ => none
  else if isExtMethod id then some (.call id (e :: args))
  else none

def builtinMethods : List String := ["contains", "containsAll", "containsAny", "isEmpty", "getTag", "hasTag"]

/-- `Name::into_func` -/
def intoFunc (path : List String) (id : String) (args : List Expr) : Option Expr :=
  if path.isEmpty && (isExtMethod id || builtinMethods.contains id) then none
  else if path.isEmpty && isExtFunction id then some (.call id args)
  else none

/-- `( "::" AnyIdent )*` -/
def pathRest : List Token → List String × List Token
  | .dcolon :: .ident s :: ts => let r := pathRest ts; (s :: r.1, r.2)
  | ts => ([], ts)

/-- `Comma<Expr>` followed by the closing token -/
def exprList (pe : P EOS) (close : Token) : Nat → List Token → Option (List Expr × List Token)
  | 0, _ => none
  | _ + 1, [] => none
  | f + 1, t :: ts =>
    if t = close then some ([], ts) else
    match pe (t :: ts) with
    | none => none
    | some (x, rest) =>
      match x.toExpr with
      | none => none
      | some e =>
        match rest with
        | .comma :: rest' =>
          match exprList pe close f rest' with
          | none => none
          | some (es, r) => some (e :: es, r)
        | t' :: rest' => if t' = close then some ([e], rest') else none
        | [] => none

/-- `ExprOrSpecial::into_valid_attr` -/
def EOS.toAttr : EOS → Option String
  | .var v => some (varName v)
  | .name [] id => some id
  | .name _ _ => none
  | .strLit raw => strOfRaw raw
  | _ => none

/-- `Comma<RecInit>` followed by `}` -/
def recInits (pe : P EOS) : Nat → List Token → Option (List (String × Expr) × List Token)
  | 0, _ => none
  | _ + 1, [] => none
  | f + 1, t :: ts =>
    if t = .rbrace then some ([], ts) else
    let key : Option (String × List Token) :=
      -- the production `IF ":" Expr` builds the name `if`, which `to_valid_ident` then rejects: `{if: 1}` is an error
      match t, ts with
      | .ident "if", .colon :: _ => none
      | _, _ => match pe (t :: ts) with
        | none => none
        | some (x, rest) => (x.toAttr).map (·, rest)
    match key with
    | none => none
    | some (k, .colon :: rest) =>
      match pe rest with
      | none => none
      | some (x, rest1) =>
        match x.toExpr with
        | none => none
        | some e =>
          match rest1 with
          | .comma :: rest' =>
            match recInits pe f rest' with
            | none => none
            | some (kvs, r) => some ((k, e) :: kvs, r)
          | .rbrace :: rest' => some ([(k, e)], rest')
          | _ => none
    | some _ => none

def insertKV (kv : String × Expr) : List (String × Expr) → List (String × Expr)
  | [] => [kv]
  | x :: xs => if kv.1 < x.1 then kv :: x :: xs else x :: insertKV kv xs

def hasDupKey : List (String × Expr) → Bool
  | [] => false
  | (k, _) :: xs => xs.any (fun y => y.1 == k) || hasDupKey xs

/-- `ExprBuilder::record`: duplicate keys are an error; a `BTreeMap` iterates in key order -/
def mkRecord (kvs : List (String × Expr)) : Option Expr :=
  if hasDupKey kvs then none else some (.record (kvs.foldr insertKV []))

/-- `Primary` -/
def primary (pe : P EOS) : P EOS
  | .ident s :: ts =>
    let pr := pathRest ts
    let comps := s :: pr.1
    match pr.2 with
    | .dcolon :: .str raw :: rest =>
      -- `Ref::Uid`
      if comps.all unreservedIdent then
        (strOfRaw raw).map (fun eid => (.expr (.lit (.entityUID ⟨joinName comps, eid⟩)), rest))
      else none
    | .dcolon :: _ => none
    | rest =>
      match pr.1 with
      | [] =>
        if s = "true" then some (.boolLit true, rest)
        else if s = "false" then some (.boolLit false, rest)
        else match varOfName s with
          | some v => some (.var v, rest)
          | none => if unreservedIdent s then some (.name [] s, rest) else none
      | _ => if comps.all unreservedIdent then some (.name comps.dropLast (comps.getLast?.getD s), rest) else none
  | .num n :: ts => if n ≤ u64Max then some (.num n, ts) else none
  | .str raw :: ts => some (.strLit raw, ts)
  | .slot s :: ts =>
    if s = "?principal" then some (.expr (.slot .principal), ts)
    else if s = "?resource" then some (.expr (.slot .resource), ts)
    else none
  | .lparen :: ts =>
    match pe ts with
    | some (x, .rparen :: rest) => x.toExpr.map (fun e => (.expr e, rest))
    | _ => none
  | .lbrack :: ts =>
    match exprList pe .rbrack (ts.length + 1) ts with
    | some (es, rest) => some (.expr (.set es), rest)
    | none => none
  | .lbrace :: ts =>
    match recInits pe (ts.length + 1) ts with
    | some (kvs, rest) => (mkRecord kvs).map (fun e => (.expr e, rest))
    | none => none
  | _ => none

/-- `MemAccess`, with `.id(args)` already paired up (`build_expr_accessor`'s `(Field, [Call, ..])` case) -/
inductive Acc where
  | field (id : String)
  | meth (id : String) (args : List Expr)
  | call (args : List Expr)
  | index (s : String)
deriving Repr, Inhabited

/-- `MemAccess*` -/
def accesses (pe : P EOS) : Nat → List Token → Option (List Acc × List Token)
  | 0, ts =>
    match ts with
    | .dot :: _ | .lparen :: _ | .lbrack :: _ => none
    | _ => some ([], ts)
  | f + 1, .dot :: .ident s :: .lparen :: ts =>
    if unreservedIdent s then
      match exprList pe .rparen (ts.length + 1) ts with
      | none => none
      | some (args, rest) =>
        match accesses pe f rest with
        | none => none
        | some (as, r) => some (.meth s args :: as, r)
    else none
  | f + 1, .dot :: .ident s :: ts =>
    if unreservedIdent s then
      match accesses pe f ts with
      | none => none
      | some (as, r) => some (.field s :: as, r)
    else none
  | _ + 1, .dot :: _ => none
  | f + 1, .lparen :: ts =>
    match exprList pe .rparen (ts.length + 1) ts with
    | none => none
    | some (args, rest) =>
      match accesses pe f rest with
      | none => none
      | some (as, r) => some (.call args :: as, r)
  | f + 1, .lbrack :: ts =>
    match pe ts with
    | some (.strLit raw, .rbrack :: rest) =>
      match strOfRaw raw with
      | none => none
      | some s =>
        match accesses pe f rest with
        | none => none
        | some (as, r) => some (.index s :: as, r)
    | _ => none
  | _ + 1, ts => some ([], ts)

/-- the loop at the end of `Member::to_expr_or_special` (`build_expr_accessor`) -/
def applyAccs : Expr → List Acc → Option Expr
  | head, [] => some head
  | _, .call _ :: _ => none
  | head, .meth id args :: rest =>
    match toMeth id head args with
    | none => none
    | some e => applyAccs e rest
  | head, .field id :: rest => applyAccs (.getAttr head id) rest
  | head, .index s :: rest => applyAccs (.getAttr head s) rest

/-- `Member::to_expr_or_special` -/
def lowerMember : EOS → List Acc → Option EOS
  | prim, [] => some prim
  | .name path id, .call args :: rest =>
    match intoFunc path id args with
    | none => none
    | some e => (applyAccs e rest).map .expr
  | .name _ _, _ => none
  | .var v, accs => (applyAccs (.var v) accs).map .expr
  | prim, accs =>
    match prim.toExpr with
    | none => none
    | some e => (applyAccs e accs).map .expr

/-- `Member` -/
def member (pe : P EOS) : P EOS := fun ts =>
  match primary pe ts with
  | none => none
  | some (prim, rest) =>
    match accesses pe (rest.length + 1) rest with
    | none => none
    | some (accs, rest') => (lowerMember prim accs).map (·, rest')

def countBang : List Token → Nat × List Token
  | .bang :: ts => let r := countBang ts; (r.1 + 1, r.2)
  | ts => (0, ts)
def countMinus : List Token → Nat × List Token
  | .minus :: ts => let r := countMinus ts; (r.1 + 1, r.2)
  | ts => (0, ts)

/-- `Unary` -/
def unary (pe : P EOS) : P EOS := fun ts =>
  match ts with
  | .bang :: _ =>
    let c := countBang ts
    if c.1 > 4 then none else
    match member pe c.2 with
    | none => none
    | some (m, rest) => m.toExpr.map (fun e => (.expr (applyN (.unaryApp .not) c.1 e), rest))
  | .minus :: _ =>
    let c := countMinus ts
    if c.1 > 4 then none else
    match member pe c.2 with
    | none => none
    | some (.num k, rest) =>
      if k ≤ i64Max + 1 then some (.expr (applyN (.unaryApp .neg) (c.1 - 1) (.lit (.int (- Int.ofNat k)))), rest)
      else none
    | some (m, rest) => m.toExpr.map (fun e => (.expr (applyN (.unaryApp .neg) c.1 e), rest))
  | _ => member pe ts

/-- classification of a token at a chain level: `none` = not an operator of this level,
    `some none` = an operator the lowering rejects, `some (some g)` = combine with `g` -/
abbrev OpOf := Token → Option (Option (Expr → Expr → Expr))

/-- `( op X )*`, left fold -/
def chainLoop (operand : P EOS) (opOf : OpOf) : Nat → Expr → List Token → Option (Expr × List Token)
  | _, acc, [] => some (acc, [])
  | 0, acc, t :: ts => if (opOf t).isSome then none else some (acc, t :: ts)
  | f + 1, acc, t :: ts =>
    match opOf t with
    | none => some (acc, t :: ts)
    | some none => none
    | some (some g) =>
      match operand ts with
      | none => none
      | some (x, rest) =>
        match x.toExpr with
        | none => none
        | some e => chainLoop operand opOf f (g acc e) rest

/-- `X ( op X )*`; a lone `X` keeps its "special" status -/
def chainLevel (operand : P EOS) (opOf : OpOf) : P EOS := fun ts =>
  match operand ts with
  | none => none
  | some (first, rest) =>
    match rest with
    | [] => some (first, [])
    | t :: _ =>
      if (opOf t).isSome then
        match first.toExpr with
        | none => none
        | some e => (chainLoop operand opOf rest.length e rest).map (fun r => (.expr r.1, r.2))
      else some (first, rest)

def multOp : OpOf
  | .star => some (some (.binaryApp .mul))
  | .slash => some none
  | .percent => some none
  | _ => none
def addOp : OpOf
  | .plus => some (some (.binaryApp .add))
  | .minus => some (some (.binaryApp .sub))
  | _ => none
def andOp : OpOf
  | .andand => some (some mkAnd)
  | _ => none
def orOp : OpOf
  | .oror => some (some mkOr)
  | _ => none

def mult (pe : P EOS) : P EOS := chainLevel (unary pe) multOp
def add (pe : P EOS) : P EOS := chainLevel (mult pe) addOp

/-- `RelOp` with `construct_expr_rel` -/
def relOp : OpOf
  | .lt => some (some (.binaryApp .less))
  | .le => some (some (.binaryApp .lessEq))
  | .ge => some (some (fun a b => .unaryApp .not (.binaryApp .less a b)))
  | .gt => some (some (fun a b => .unaryApp .not (.binaryApp .lessEq a b)))
  | .neq => some (some (fun a b => .unaryApp .not (.binaryApp .eq a b)))
  | .eqeq => some (some (.binaryApp .eq))
  | .eq => some none
  | .ident s => if s = "in" then some (some (.binaryApp .mem)) else none
  | _ => none

/-- tokens that would continue an `Add` phrase after a complete `Member` -/
def continuesAdd : List Token → Bool
  | .dot :: _ | .lparen :: _ | .lbrack :: _ | .star :: _ | .slash :: _ | .percent :: _ | .plus :: _ | .minus :: _ => true
  | _ => false

def hasFields : List Token → Option (List String × List Token)
  | .dot :: .ident s :: ts =>
    if unreservedIdent s then
      match hasFields ts with
      | none => none
      | some (fs, r) => some (s :: fs, r)
    else none
  | .dot :: _ => none
  | ts => some ([], ts)

/-- the right-hand side of `has` (`Add::to_has_rhs`): a string literal, or `id(.id)*` -/
def hasRhs : List Token → Option (List String × List Token)
  | .str raw :: rest =>
    if continuesAdd rest then none else (strOfRaw raw).map (fun s => ([s], rest))
  | .ident s :: rest =>
    if unreservedIdent s then
      match rest with
      | .dcolon :: _ => none
      | _ =>
        match hasFields rest with
        | none => none
        | some (fs, r) => if continuesAdd r then none else some (s :: fs, r)
    else none
  | _ => none

/-- `ExprBuilder::extended_has_attr` -/
def extendedHas (e : Expr) (first : String) (rest : List String) : Expr :=
  (rest.foldl (fun (st : Expr × Expr) a => (mkAnd st.1 (.hasAttr st.2 a), .getAttr st.2 a))
    (.hasAttr e first, .getAttr e first)).1

def EOS.toTypeName : EOS → Option String
  | .var v => some (varName v)
  | .name path id => some (joinName (path ++ [id]))
  | _ => none

def startsWithRelOp : List Token → Bool
  | t :: _ => (relOp t).isSome
  | [] => false

/-- `Relation` -/
def relation (pe : P EOS) : P EOS := fun ts =>
  match add pe ts with
  | none => none
  | some (first, rest) =>
    match rest with
    | [] => some (first, [])
    | t :: rest1 =>
      if t = .ident "has" then
        match first.toExpr, hasRhs rest1 with
        | some e, some (a :: as, rest2) => some (.expr (extendedHas e a as), rest2)
        | _, _ => none
      else if t = .ident "like" then
        match first.toExpr, add pe rest1 with
        | some e, some (.strLit raw, rest2) =>
          match unescapePattern raw with
          | .ok p => some (.expr (.like e p), rest2)
          | .error _ => none
        | _, _ => none
      else if t = .ident "is" then
        match first.toExpr, add pe rest1 with
        | some e, some (x, rest2) =>
          match x.toTypeName with
          | none => none
          | some ty =>
            match rest2 with
            | .ident "in" :: rest3 =>
              match add pe rest3 with
              | none => none
              | some (y, rest4) =>
                match y.toExpr with
                | none => none
                | some e2 => some (.expr (mkAnd (.is e ty) (.binaryApp .mem e e2)), rest4)
            | _ => some (.expr (.is e ty), rest2)
        | _, _ => none
      else
        match relOp t with
        | none => some (first, rest)
        | some none => none
        | some (some g) =>
          match first.toExpr, add pe rest1 with
          | some a, some (y, rest2) =>
            match y.toExpr with
            | none => none
            | some b => if startsWithRelOp rest2 then none else some (.expr (g a b), rest2)
          | _, _ => none

def andLevel (pe : P EOS) : P EOS := chainLevel (relation pe) andOp
def orLevel (pe : P EOS) : P EOS := chainLevel (andLevel pe) orOp

/-- `Expr` -/
def exprLevel (pe : P EOS) : P EOS := fun ts =>
  match ts with
  | .ident "if" :: ts1 =>
    match pe ts1 with
    | some (c, .ident "then" :: ts2) =>
      match pe ts2 with
      | some (t, .ident "else" :: ts3) =>
        match pe ts3 with
        | some (e, rest) =>
          match c.toExpr, t.toExpr, e.toExpr with
          | some c, some t, some e => some (.expr (.ite c t e), rest)
          | _, _, _ => none
        | none => none
      | _ => none
    | _ => none
  | _ => orLevel pe ts

def parseFuel : Nat → P EOS
  | 0 => fun _ => none
  | n + 1 => exprLevel (parseFuel n)

/-- `Expr::from_str` on the token level -/
def Parse.expr (ts : List Token) : Option Expr :=
  match parseFuel (ts.length + 1) ts with
  | some (x, []) => x.toExpr
  | _ => none

end Cedar.Syntax
