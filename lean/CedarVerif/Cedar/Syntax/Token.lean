/-
Tokens of the Cedar policy grammar (cedar-policy-core/src/parser/grammar.lalrpop, `match { ... }`).
Keywords are not separate tokens: the grammar accepts every keyword wherever an identifier is
accepted (`AnyIdent`), so the parser looks at the identifier's spelling.  Import-free.
-/
namespace Cedar.Syntax

inductive Token where
  /-- `IDENTIFIER` and all keyword tokens (`true false if permit forbid when unless in has like is then else
      principal action resource context`) -/
  | ident (s : String)
  /-- `NUMBER` = `[0-9]+`, by value (the range check `u64::from_str` is done by the parser) -/
  | num (n : Nat)
  /-- `STRINGLIT`: the raw text between the quotes, *not* unescaped -/
  | str (raw : List Char)
  /-- `?principal`, `?resource`, or any other `?ident` -/
  | slot (s : String)
  | at | dot | comma | semi | colon | dcolon
  | lparen | rparen | lbrace | rbrace | lbrack | rbrack
  | eqeq | neq | lt | le | ge | gt
  | oror | andand
  | plus | minus | star | slash | percent
  | bang | eq
deriving Repr, DecidableEq, Inhabited

end Cedar.Syntax
