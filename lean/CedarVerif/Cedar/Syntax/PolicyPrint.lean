import CedarVerif.Cedar.Syntax.Print
import CedarVerif.Cedar.PolicySet
/-
`printPolicy : TemplateBody → List Token` — mirror of `impl Display for TemplateBody` (cedar-policy-core/src/ast/policy.rs;
`Template`, static `Policy` and `StaticPolicy` print through it), tokenised:
  * `Annotations::fmt`: one `@key("value")` per entry of the `BTreeMap`, the value with `escape_debug` (a value-less
    annotation `@key` is stored as `""` and therefore printed `@key("")`);
  * `effect(principal-constraint, action-constraint, resource-constraint)`; `PrincipalOrResourceConstraint::display`
    prints the reference through `EntityReference::into_expr` (an entity literal or the slot `?principal`/`?resource`),
    `ActionConstraint`'s `Display` prints `action`, `action == uid`, `action in [uid,…]` (always with brackets);
  * `non_scope_constraints`: nothing for `None`, ONE clause `when { e }` for `Some(e)` (no `unless`, never several);
  * `;`.
The policy AST is `Cedar.TemplateBody` (Cedar/PolicySet.lean, the C08 model's type).  Import-free.
-/
namespace Cedar.Syntax
open Cedar

def effectName : Effect → String
  | .permit => "permit" | .forbid => "forbid"

/-- `EntityReference::into_expr(slot)` -/
def refExpr (slot : SlotId) : EntityRef → Expr
  | .euid u => .lit (.entityUID u)
  | .slot => .slot slot

def uidSet (us : List EntityUID) : Expr := .set (us.map (fun u => .lit (.entityUID u)))

/-- `Annotations`' `Display` -/
def printAnnots (me : Char → Bool) : List (String × String) → List Token
  | [] => []
  | (k, v) :: as => .at :: .ident k :: .lparen :: strTok me v :: .rparen :: printAnnots me as

/-- `PrincipalOrResourceConstraint::display(v)` -/
def printScope (me : Char → Bool) (v : String) (slot : SlotId) : ScopeC → List Token
  | .any => [.ident v]
  | .mem r => .ident v :: .ident "in" :: printE me (refExpr slot r)
  | .eq r => .ident v :: .eqeq :: printE me (refExpr slot r)
  | .is ty => .ident v :: .ident "is" :: nameTokens ty
  | .isIn ty r => .ident v :: .ident "is" :: (nameTokens ty ++ .ident "in" :: printE me (refExpr slot r))

/-- `ActionConstraint`'s `Display` -/
def printAction (me : Char → Bool) : ActionC → List Token
  | .any => [.ident "action"]
  | .mem us => .ident "action" :: .ident "in" :: printE me (uidSet us)
  | .eq u => .ident "action" :: .eqeq :: printE me (.lit (.entityUID u))

def printCond (me : Char → Bool) : Option Expr → List Token
  | none => [.semi]
  | some e => .ident "when" :: .lbrace :: (printE me e ++ [.rbrace, .semi])

/-- `format!("{template}")` tokenised -/
def printPolicy (me : Char → Bool) (b : TemplateBody) : List Token :=
  printAnnots me b.annotations ++
  (.ident (effectName b.effect) :: .lparen ::
    (printScope me "principal" .principal b.principalC ++ (.comma ::
      (printAction me b.actionC ++ (.comma ::
        (printScope me "resource" .resource b.resourceC ++ (.rparen :: printCond me b.nonScope)))))))

end Cedar.Syntax
