import CedarVerif.Cedar.Expr
import CedarVerif.Cedar.Syntax.Token
import CedarVerif.Cedar.Syntax.Escape
/-
`Print.expr : Expr → List Token` — mirror of the `Display` impl used for `ast::Expr`:
`impl Display for ast::Expr` converts to the EST (`into_expr::<est::Builder>`, one EST node per AST node) and uses
cedar-policy-core/src/est/expr.rs `BoundedDisplay for ExprNoExt / ExtFuncCall`, `maybe_with_parens`,
`display_cedarvaluejson`.  The token list is the printed text tokenised (white space is not significant).
The `escape_debug` Unicode tables are the parameter `me` (see Escape.lean).  Import-free.
-/
namespace Cedar.Syntax
open Cedar

/-- extension functions printed/parsed in method style (`Extensions::all_available()`, `CallStyle::MethodStyle`) -/
def extMethods : List String :=
  ["lessThan", "lessThanOrEqual", "greaterThan", "greaterThanOrEqual",
   "isIpv4", "isIpv6", "isLoopback", "isMulticast", "isInRange",
   "offset", "durationSince", "toDate", "toTime", "toMilliseconds", "toSeconds", "toMinutes", "toHours", "toDays"]

/-- extension functions in function style -/
def extFunctions : List String := ["decimal", "ip", "datetime", "duration", "unknown"]

def isExtMethod (s : String) : Bool := extMethods.contains s
def isExtFunction (s : String) : Bool := extFunctions.contains s

def isIdStart (c : Char) : Bool := c = '_' || ('a' ≤ c && c ≤ 'z') || ('A' ≤ c && c ≤ 'Z')
def isIdCont (c : Char) : Bool := isIdStart c || ('0' ≤ c && c ≤ '9')

/-- `^[_a-zA-Z][_a-zA-Z0-9]*$` -/
def isIdentChars : List Char → Bool
  | [] => false
  | c :: cs => isIdStart c && cs.all isIdCont

/-- the nine keywords `to_valid_ident` rejects -/
def reservedWords : List String := ["true", "false", "if", "then", "else", "in", "is", "like", "has"]

/-- `ast::name::is_normalized_ident`: identifier syntax and not in `RESERVED_IDS` (the nine keywords and `__cedar`) -/
def isNormalizedIdent (s : String) : Bool :=
  isIdentChars s.toList && !(reservedWords.contains s) && s != "__cedar"

/-- `Name`'s `Display`: components joined by `::` -/
def nameTokens (n : String) : List Token :=
  match n.splitOn "::" with
  | [] => []
  | c :: cs => Token.ident c :: cs.flatMap (fun x => [Token.dcolon, Token.ident x])

def varName : Var → String
  | .principal => "principal" | .action => "action" | .resource => "resource" | .context => "context"

def slotName : SlotId → String
  | .principal => "?principal" | .resource => "?resource"

/-- `maybe_with_parens`: which EST nodes are printed bare when they are an operand -/
def needsParens : Expr → Bool
  | .lit _ | .var _ | .slot _ | .unknown _ _ | .set _ | .record _ | .getAttr _ _ | .call _ _ => false
  | .unaryApp .isEmpty _ => false
  | .binaryApp .contains _ _ | .binaryApp .containsAll _ _ | .binaryApp .containsAny _ _
  | .binaryApp .getTag _ _ | .binaryApp .hasTag _ _ => false
  | _ => true

def paren (b : Bool) (ts : List Token) : List Token :=
  if b then Token.lparen :: (ts ++ [Token.rparen]) else ts

def isAnd : Expr → Bool | .and _ _ => true | _ => false
def isOr : Expr → Bool | .or _ _ => true | _ => false
def isBin (op : BinaryOp) : Expr → Bool | .binaryApp op' _ _ => op == op' | _ => false

def strTok (me : Char → Bool) (s : String) : Token := .str (escapeStr me s.toList)

/-- attribute / record key position: bare identifier when possible -/
def keyTok (me : Char → Bool) (s : String) : Token :=
  if isNormalizedIdent s then .ident s else strTok me s

def methodName : BinaryOp → String
  | .contains => "contains" | .containsAll => "containsAll" | .containsAny => "containsAny"
  | .getTag => "getTag" | .hasTag => "hasTag" | _ => ""

def infixTok : BinaryOp → Token
  | .eq => .eqeq | .less => .lt | .lessEq => .le | .mem => .ident "in"
  | .add => .plus | .sub => .minus | .mul => .star | _ => .eq

mutual
def printE (me : Char → Bool) : Expr → List Token
  | .lit (.bool b) => [.ident (if b then "true" else "false")]
  | .lit (.int i) => if i < 0 then [.lparen, .minus, .num i.natAbs, .rparen] else [.num i.toNat]
  | .lit (.string s) => [strTok me s]
  | .lit (.entityUID u) => nameTokens u.ty ++ [.dcolon, strTok me u.eid]
  | .var v => [.ident (varName v)]
  | .slot s => [.slot (slotName s)]
  | .unknown n _ => [.ident "unknown", .lparen, strTok me n, .rparen]
  | .ite c t e => .ident "if" :: (printE me c ++ (.ident "then" :: (printE me t ++ (.ident "else" :: printE me e))))
  | .and a b => paren (needsParens a && !isAnd a) (printE me a) ++ (.andand :: paren (needsParens b) (printE me b))
  | .or a b => paren (needsParens a && !isOr a) (printE me a) ++ (.oror :: paren (needsParens b) (printE me b))
  | .unaryApp .not a => .bang :: paren (needsParens a) (printE me a)
  | .unaryApp .neg a => .minus :: .lparen :: (printE me a ++ [.rparen])
  | .unaryApp .isEmpty a => paren (needsParens a) (printE me a) ++ [.dot, .ident "isEmpty", .lparen, .rparen]
  | .binaryApp op a b =>
    match op with
    | .eq | .less | .lessEq | .mem =>
      paren (needsParens a) (printE me a) ++ (infixTok op :: paren (needsParens b) (printE me b))
    | .add | .sub | .mul =>
      paren (needsParens a && !isBin op a) (printE me a) ++ (infixTok op :: paren (needsParens b) (printE me b))
    | .contains | .containsAll | .containsAny | .getTag | .hasTag =>
      paren (needsParens a) (printE me a) ++ (.dot :: .ident (methodName op) :: .lparen :: (printE me b ++ [.rparen]))
  | .call fn args =>
    if isExtMethod fn then
      match args with
      | r :: rest =>
        paren (needsParens r) (printE me r) ++ (.dot :: .ident fn :: .lparen :: (printEs me rest ++ [.rparen]))
      | [] => nameTokens fn ++ [.lparen, .rparen]
    else nameTokens fn ++ (.lparen :: (printEs me args ++ [.rparen]))
  | .getAttr e a =>
    paren (needsParens e) (printE me e) ++ (if isNormalizedIdent a then [.dot, .ident a] else [.lbrack, strTok me a, .rbrack])
  | .hasAttr e a => paren (needsParens e) (printE me e) ++ [.ident "has", keyTok me a]
  | .like e p => paren (needsParens e) (printE me e) ++ [.ident "like", .str (escapePattern me p)]
  | .is e ty => paren (needsParens e) (printE me e) ++ (.ident "is" :: nameTokens ty)
  | .set es => .lbrack :: (printEs me es ++ [.rbrack])
  | .record kvs => .lbrace :: (printKVs me kvs ++ [.rbrace])
/-- comma separated -/
def printEs (me : Char → Bool) : List Expr → List Token
  | [] => []
  | e :: es => printE me e ++ printEsTail me es
def printEsTail (me : Char → Bool) : List Expr → List Token
  | [] => []
  | e :: es => .comma :: (printE me e ++ printEsTail me es)
def printKVs (me : Char → Bool) : List (String × Expr) → List Token
  | [] => []
  | (k, v) :: kvs => keyTok me k :: .colon :: (printE me v ++ printKVsTail me kvs)
def printKVsTail (me : Char → Bool) : List (String × Expr) → List Token
  | [] => []
  | (k, v) :: kvs => .comma :: keyTok me k :: .colon :: (printE me v ++ printKVsTail me kvs)
end

/-- `format!("{e}")` tokenised -/
def Print.expr (me : Char → Bool) (e : Expr) : List Token := printE me e

end Cedar.Syntax
