import CedarVerif.Cedar.Syntax.Parse
import CedarVerif.Cedar.Syntax.PolicyPrint
/-
`parsePolicy : String → List Token → Option TemplateBody` — the grammar rules `Policy Annotation VariableDef Cond`
of cedar-policy-core/src/parser/grammar.lalrpop composed with the lowerings of cst_to_ast.rs
(`to_policy_template`, `get_ast_annotations`/`to_kv_pair`, `extract_scope`, `to_principal_or_resource_constraint`,
`to_action_constraint`, `Cond::to_expr`, `construct_template_policy`) and cst_to_ast/to_ref_or_refs.rs, on top of the
expression parser `parseFuel` (Parse.lean).  `none` = the real parser reports at least one error.

  * annotations: `@ AnyIdent ( "(" STR ")" )?`, value unescaped, a missing value is `""`; a duplicate key is an error;
    the `BTreeMap` iterates in key order;
  * effect: the identifier `permit` / `forbid`;
  * scope: exactly three `VariableDef`s `principal …, action …, resource …` (`Comma<…>`: a trailing comma is allowed);
    `VariableDef := AnyIdent (":" Name)? ("is" Add)? (RelOp Expr)?` — `: Name` is always an error (`TypeConstraints`);
    the `Expr` after `==`/`in` must be (parentheses aside) a bare entity literal, the matching slot, or — for `action in`
    only — a list of entity literals (`to_ref_or_refs`): the model parses it with the expression parser and inspects the
    result (an entity-literal / slot / set-of-entity-literals AST arises from nothing else); `action` admits no `is`,
    and every action uid must have the base type name `Action` (`contains_only_action_types`);
    `action in uid` is `action in [uid]`;
  * conditions: `(when|unless) "{" Expr "}"`*, no slots inside, `unless e` ⇒ `!e`, then the right fold
    `c1 && (c2 && (… && cn))` with the AST builder's `and` (two Boolean literals fold), `None` for no clause;
  * `;` and end of input (one policy).
Import-free.
-/
namespace Cedar.Syntax
open Cedar

def insertAnn (kv : String × String) : List (String × String) → List (String × String)
  | [] => [kv]
  | x :: xs => if kv.1 < x.1 then kv :: x :: xs else x :: insertAnn kv xs

def hasDupAnn : List (String × String) → Bool
  | [] => false
  | (k, _) :: xs => xs.any (fun y => y.1 == k) || hasDupAnn xs

/-- `Annotation*` (fuel: one unit per annotation) -/
def parseAnnots : Nat → List Token → Option (List (String × String) × List Token)
  | 0, _ => none
  | f + 1, .at :: .ident k :: .lparen :: ts =>
    match ts with
    | .str raw :: .rparen :: rest =>
      match strOfRaw raw, parseAnnots f rest with
      | some v, some (as, r) => some ((k, v) :: as, r)
      | _, _ => none
    | _ => none
  | f + 1, .at :: .ident k :: ts =>
    match parseAnnots f ts with
    | some (as, r) => some ((k, "") :: as, r)
    | none => none
  | _ + 1, .at :: _ => none
  | _ + 1, ts => some ([], ts)

/-- `to_ref_or_slot(var)` on the lowered expression -/
def EOS.toRef (slot : SlotId) : EOS → Option EntityRef
  | .expr (.lit (.entityUID u)) => some (.euid u)
  | .expr (.slot s) => if s = slot then some .slot else none
  | _ => none

def uidsOf : List Expr → Option (List EntityUID)
  | [] => some []
  | .lit (.entityUID u) :: es => (uidsOf es).map (u :: ·)
  | _ => none

/-- `to_refs(var)` -/
def EOS.toRefs : EOS → Option (List EntityUID)
  | .expr (.lit (.entityUID u)) => some [u]
  | .expr (.set es) => uidsOf es
  | _ => none

/-- `to_ref(var)` -/
def EOS.toUid : EOS → Option EntityUID
  | .expr (.lit (.entityUID u)) => some u
  | _ => none

/-- `EntityType::is_action`: the base name is `Action` -/
def isActionUid (u : EntityUID) : Bool := (u.ty.splitOn "::").getLast? == some "Action"

/-- the `Expr` after `==` / `in` in a principal / resource element -/
def scopeRef (pe : P EOS) (slot : SlotId) (ts : List Token) : Option (EntityRef × List Token) :=
  match pe ts with
  | none => none
  | some (y, rest) => (y.toRef slot).map (·, rest)

/-- a `VariableDef` lowered by `to_principal_or_resource_constraint` (the caller checks the following `,` / `)`) -/
def scopeElem (pe : P EOS) (v : String) (slot : SlotId) : List Token → Option (ScopeC × List Token)
  | .ident s :: ts =>
    if s ≠ v then none else
    match ts with
    | .colon :: _ => none
    | .ident "is" :: ts1 =>
      match add pe ts1 with
      | none => none
      | some (x, ts2) =>
        match x.toTypeName with
        | none => none
        | some ty =>
          match ts2 with
          | .ident "in" :: ts3 => (scopeRef pe slot ts3).map (fun r => (.isIn ty r.1, r.2))
          | _ => some (.is ty, ts2)
    | .ident "in" :: ts1 => (scopeRef pe slot ts1).map (fun r => (.mem r.1, r.2))
    | .eqeq :: ts1 => (scopeRef pe slot ts1).map (fun r => (.eq r.1, r.2))
    | _ => some (.any, ts)
  | _ => none

/-- a `VariableDef` lowered by `to_action_constraint` -/
def actionElem (pe : P EOS) : List Token → Option (ActionC × List Token)
  | .ident s :: ts =>
    if s ≠ "action" then none else
    match ts with
    | .colon :: _ => none
    | .ident "is" :: _ => none
    | .ident "in" :: ts1 =>
      match pe ts1 with
      | none => none
      | some (y, rest) =>
        match y.toRefs with
        | none => none
        | some us => if us.all isActionUid then some (.mem us, rest) else none
    | .eqeq :: ts1 =>
      match pe ts1 with
      | none => none
      | some (y, rest) =>
        match y.toUid with
        | none => none
        | some u => if isActionUid u then some (.eq u, rest) else none
    | _ => some (.any, ts)
  | _ => none

/-- `"(" Comma<VariableDef> ")"` with `extract_scope`: exactly three elements, in this order -/
def parseScope (pe : P EOS) : List Token → Option ((ScopeC × ActionC × ScopeC) × List Token)
  | .lparen :: ts =>
    match scopeElem pe "principal" .principal ts with
    | some (pc, .comma :: ts1) =>
      match actionElem pe ts1 with
      | some (ac, .comma :: ts2) =>
        match scopeElem pe "resource" .resource ts2 with
        | some (rc, .rparen :: rest) => some ((pc, ac, rc), rest)
        | some (rc, .comma :: .rparen :: rest) => some ((pc, ac, rc), rest)
        | _ => none
      | _ => none
    | _ => none
  | _ => none

/-- `Cond*` with `Cond::to_expr` and the no-slots check (fuel: one unit per clause) -/
def parseConds (pe : P EOS) : Nat → List Token → Option (List Expr × List Token)
  | 0, _ => none
  | f + 1, .ident k :: .lbrace :: ts =>
    if k = "when" ∨ k = "unless" then
      match pe ts with
      | some (x, .rbrace :: rest) =>
        match x.toExpr with
        | none => none
        | some e =>
          if (Expr.slots e).isEmpty then
            match parseConds pe f rest with
            | none => none
            | some (es, r) => some ((if k = "when" then e else .unaryApp .not e) :: es, r)
          else none
      | _ => none
    else none
  | _ + 1, ts => some ([], ts)

/-- `construct_template_policy`: right fold with the builder's `and` -/
def foldConds : List Expr → Option Expr
  | [] => none
  | [e] => some e
  | e :: es => (foldConds es).map (mkAnd e)

def effectOf (s : String) : Option Effect :=
  if s = "permit" then some .permit else if s = "forbid" then some .forbid else none

/-- `Policy` with an explicit fuel for the expression parser and the two loops -/
def parsePolicyF (n : Nat) (id : String) (ts : List Token) : Option TemplateBody :=
  match parseAnnots n ts with
  | none => none
  | some (annots, ts1) =>
    if hasDupAnn annots then none else
    match ts1 with
    | .ident eff :: ts2 =>
      match effectOf eff, parseScope (parseFuel n) ts2 with
      | some effect, some ((pc, ac, rc), ts3) =>
        match parseConds (parseFuel n) n ts3 with
        | some (cs, [.semi]) =>
          some { id := id, annotations := annots.foldr insertAnn [], effect := effect,
                 principalC := pc, actionC := ac, resourceC := rc, nonScope := foldConds cs }
        | _ => none
      | _, _ => none
    | _ => none

/-- `parse_policy_or_template(Some(id), text)` on the token level -/
def parsePolicy (id : String) (ts : List Token) : Option TemplateBody := parsePolicyF (ts.length + 1) id ts

end Cedar.Syntax
