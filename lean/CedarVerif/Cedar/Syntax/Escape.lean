import CedarVerif.Cedar.Pattern
/-
String / pattern escaping and unescaping.

* `escapeChar/escapeStr/escapePattern` mirror Rust's `char::escape_debug` / `str::escape_debug` as used by the
  `Display` impls of literals, entity ids, attribute names, annotation values (`"{}"`, `s.escape_debug()`) and of
  `ast::Pattern` (cedar-policy-core/src/ast/pattern.rs).  Which *other* characters get the `\u{…}` form is decided by
  Unicode tables (`is_grapheme_extended`, `is_printable`) that are not reproduced: they are the parameter
  `mustEscape`.  `str::escape_debug` uses a different predicate for the first character than for the rest, so the
  general form `escapeStrAt` takes a position-dependent predicate.
* `unescape` mirrors `rustc_literal_escaper::unescape_str` (v0.0.8) as driven by
  cedar-policy-core/src/parser/unescape.rs `to_unescaped_string` / `to_pattern`: `\n \r \t \\ \0 \' \" \xHH \u{…}`,
  backslash-newline continuation, and `\*` in patterns.  Rust collects all errors; the model reports the first one
  (accept/reject and the first error kind coincide).
Import-free (model files only).
-/
namespace Cedar.Syntax

/-- lower-case hex digit of `n < 16` -/
def hexDigitChar (n : Nat) : Char :=
  if n < 10 then Char.ofNat (48 + n) else Char.ofNat (87 + n)

/-- hex digits of `n`, most significant first, no leading zeros, at least one digit (Rust `{:x}`), `n < 16^fuel` -/
def hexDigits : Nat → Nat → List Char
  | 0, _ => []
  | f + 1, n => if n < 16 then [hexDigitChar n] else hexDigits f (n / 16) ++ [hexDigitChar (n % 16)]

/-- `char::escape_debug`: `esc` says whether the Unicode tables ask for the `\u{…}` form -/
def escapeChar (esc : Bool) (c : Char) : List Char :=
  if c = '\x00' then ['\\', '0']
  else if c = '\t' then ['\\', 't']
  else if c = '\r' then ['\\', 'r']
  else if c = '\n' then ['\\', 'n']
  else if c = '\\' then ['\\', '\\']
  else if c = '"' then ['\\', '"']
  else if c = '\'' then ['\\', '\'']
  else if esc then '\\' :: 'u' :: '{' :: (hexDigits 6 c.toNat ++ ['}'])
  else [c]

def escapeStrAt (mustEscape : Nat → Char → Bool) : Nat → List Char → List Char
  | _, [] => []
  | i, c :: cs => escapeChar (mustEscape i c) c ++ escapeStrAt mustEscape (i + 1) cs

def escapeStr (mustEscape : Char → Bool) (s : List Char) : List Char :=
  escapeStrAt (fun _ => mustEscape) 0 s

/-- `impl Display for Pattern` -/
def escapePattern (mustEscape : Char → Bool) : Pattern → List Char
  | [] => []
  | .star :: ps => '*' :: escapePattern mustEscape ps
  | .char c :: ps =>
    (if c = '*' then ['\\', '*'] else escapeChar (mustEscape c) c) ++ escapePattern mustEscape ps

/-! ### unescape -/

/-- the fatal `EscapeError`s reachable from `unescape_str` -/
inductive EscErr where
  | LoneSlash | InvalidEscape | BareCarriageReturn | EscapeOnlyChar
  | TooShortHexEscape | InvalidCharInHexEscape | OutOfRangeHexEscape
  | NoBraceInUnicodeEscape | InvalidCharInUnicodeEscape | EmptyUnicodeEscape | UnclosedUnicodeEscape
  | LeadingUnderscoreUnicodeEscape | OverlongUnicodeEscape | LoneSurrogateUnicodeEscape | OutOfRangeUnicodeEscape
deriving Repr, DecidableEq, Inhabited

/-- `char::to_digit(16)` -/
def hexVal (c : Char) : Option Nat :=
  if '0' ≤ c ∧ c ≤ '9' then some (c.toNat - 48)
  else if 'a' ≤ c ∧ c ≤ 'f' then some (c.toNat - 87)
  else if 'A' ≤ c ∧ c ≤ 'F' then some (c.toNat - 55)
  else none

/-- `char::from_u32` after the `> char::MAX` test -/
def charOfCode (v : Nat) : Except EscErr Char :=
  if v > 0x10FFFF then .error .OutOfRangeUnicodeEscape
  else if 0xD800 ≤ v ∧ v ≤ 0xDFFF then .error .LoneSurrogateUnicodeEscape
  else .ok (Char.ofNat v)

def isSkippedWs (c : Char) : Bool := c = ' ' || c = '\t' || c = '\n' || c = '\r'

/-- output element: in pattern mode every `Ok('*')` the callback receives is the wildcard — a bare `*`, but also
`\x2a` and `\u{2a}` (`to_pattern`: `Ok(c) => if c == '*' { Wildcard }`); only `\*` gives a literal star -/
def elemOf (pat : Bool) (c : Char) : PatElem := if pat && c = '*' then .star else .char c

mutual
/-- main loop of `Unescape::unescape` -/
def unescapeGo (pat : Bool) : List Char → Except EscErr (List PatElem)
  | [] => .ok []
  | '\\' :: rest => unescapeEsc pat rest
  | c :: rest =>
    if c = '"' then .error .EscapeOnlyChar
    else if c = '\r' then .error .BareCarriageReturn
    else (unescapeGo pat rest).map (elemOf pat c :: ·)
/-- after a backslash: newline continuation or `unescape_1` -/
def unescapeEsc (pat : Bool) : List Char → Except EscErr (List PatElem)
  | [] => .error .LoneSlash
  | c :: rest =>
    if c = '\n' then unescapeSkip pat rest
    else if c = '0' then (unescapeGo pat rest).map (.char '\x00' :: ·)
    else if c = '"' then (unescapeGo pat rest).map (.char '"' :: ·)
    else if c = 'n' then (unescapeGo pat rest).map (.char '\n' :: ·)
    else if c = 'r' then (unescapeGo pat rest).map (.char '\r' :: ·)
    else if c = 't' then (unescapeGo pat rest).map (.char '\t' :: ·)
    else if c = '\\' then (unescapeGo pat rest).map (.char '\\' :: ·)
    else if c = '\'' then (unescapeGo pat rest).map (.char '\'' :: ·)
    else if c = 'x' then
      match rest with
      | [] => .error .TooShortHexEscape
      | hi :: rest1 =>
        match hexVal hi with
        | none => .error .InvalidCharInHexEscape
        | some h =>
          match rest1 with
          | [] => .error .TooShortHexEscape
          | lo :: rest2 =>
            match hexVal lo with
            | none => .error .InvalidCharInHexEscape
            | some l =>
              if h * 16 + l < 128 then (unescapeGo pat rest2).map (elemOf pat (Char.ofNat (h * 16 + l)) :: ·)
              else .error .OutOfRangeHexEscape
    else if c = 'u' then
      match rest with
      | '{' :: rest1 =>
        match rest1 with
        | [] => .error .UnclosedUnicodeEscape
        | d :: rest2 =>
          if d = '_' then .error .LeadingUnderscoreUnicodeEscape
          else if d = '}' then .error .EmptyUnicodeEscape
          else match hexVal d with
            | none => .error .InvalidCharInUnicodeEscape
            | some v => unescapeUni pat v 1 rest2
      | _ => .error .NoBraceInUnicodeEscape
    else if pat && c = '*' then (unescapeGo pat rest).map (.char '*' :: ·)
    else .error .InvalidEscape
/-- the digit loop of `unicode_escape` (`value`, `n_digits`) -/
def unescapeUni (pat : Bool) (value nd : Nat) : List Char → Except EscErr (List PatElem)
  | [] => .error .UnclosedUnicodeEscape
  | c :: rest =>
    if c = '_' then unescapeUni pat value nd rest
    else if c = '}' then
      if nd > 6 then .error .OverlongUnicodeEscape
      else match charOfCode value with
        | .error e => .error e
        | .ok ch => (unescapeGo pat rest).map (elemOf pat ch :: ·)
    else match hexVal c with
      | none => .error .InvalidCharInUnicodeEscape
      | some d => if nd + 1 > 6 then unescapeUni pat value (nd + 1) rest else unescapeUni pat (value * 16 + d) (nd + 1) rest
/-- `skip_ascii_whitespace` after backslash-newline (its two diagnostics are warnings, not errors) -/
def unescapeSkip (pat : Bool) : List Char → Except EscErr (List PatElem)
  | [] => .ok []
  | c :: rest =>
    if isSkippedWs c then unescapeSkip pat rest
    -- otherwise: back to the main loop on `c :: rest` (inlined to keep the recursion structural)
    else if c = '\\' then unescapeEsc pat rest
    else if c = '"' then .error .EscapeOnlyChar
    else (unescapeGo pat rest).map (elemOf pat c :: ·)
end

def patChars : List PatElem → List Char
  | [] => []
  | .char c :: ps => c :: patChars ps
  | .star :: ps => '*' :: patChars ps

/-- `to_unescaped_string` -/
def unescapeStr (raw : List Char) : Except EscErr (List Char) := (unescapeGo false raw).map patChars

/-- `to_pattern` -/
def unescapePattern (raw : List Char) : Except EscErr Pattern := unescapeGo true raw

end Cedar.Syntax
