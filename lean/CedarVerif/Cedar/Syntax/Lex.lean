import CedarVerif.Cedar.Syntax.Print
/-
`lex : List Char → Option (List Token)` — the lexer LALRPOP generates from the `match { … }` block of
cedar-policy-core/src/parser/grammar.lalrpop (driven by `text_to_cst.rs`): longest match over
  * skipped: `\s*` (Unicode `White_Space`) and `//[^\n\r]*[\n\r]*`;
  * `IDENTIFIER` `[_a-zA-Z][_a-zA-Z0-9]*` and all keyword literals (`true false if permit … context`): one `Token.ident`
    (the grammar accepts every keyword wherever an identifier is accepted; the parser looks at the spelling);
  * `NUMBER` `[0-9]+` → `Token.num` by value (the `u64` range check is the parser's);
  * `STRINGLIT` `"(\\.|[^"\\])*"` → `Token.str raw`, the text between the quotes, NOT unescaped (the CST keeps the raw text,
    `cst_to_ast` unescapes through `unescape.rs` = `strOfRaw`); `.` does not match `\n`, so backslash-newline is a lex error,
    as are an unterminated literal and a trailing backslash;
  * `?principal`, `?resource`, `\?[_a-zA-Z][_a-zA-Z0-9]*` → `Token.slot` with the full spelling; a lone `?` is an error;
  * punctuation, two-character forms first (`:: == != <= >= || &&`); a lone `|` or `&` and every other character is an error.
The token classes are disjoint on their first character except `/` vs `//`, `<` vs `<=` … (longest match), so the order of the
tests below is immaterial.  `none` = the real lexer reports `InvalidToken`.
`render` prints a token list with single spaces between tokens (what the harness's `render` does); `TokOK` says a token is
something the lexer can produce.  Import-free.
-/
namespace Cedar.Syntax

/-- Unicode `White_Space` (regex `\s`, Rust `char::is_whitespace`) -/
def isWs (c : Char) : Bool :=
  let n := c.toNat
  (9 ≤ n && n ≤ 13) || n == 32 || n == 0x85 || n == 0xA0 || n == 0x1680 || (0x2000 ≤ n && n ≤ 0x200A) ||
  n == 0x2028 || n == 0x2029 || n == 0x202F || n == 0x205F || n == 0x3000

def isDig (c : Char) : Bool := '0' ≤ c && c ≤ '9'

/-- longest prefix of characters satisfying `p`, and the rest -/
def spanC (p : Char → Bool) : List Char → List Char × List Char
  | [] => ([], [])
  | c :: cs => if p c then ((spanC p cs).1.cons c, (spanC p cs).2) else ([], c :: cs)

/-- `[0-9]+` by value -/
def digitsVal (ds : List Char) : Nat := ds.foldl (fun acc c => acc * 10 + (c.toNat - 48)) 0

/-- the rest of a `STRINGLIT` after the opening quote: the raw body and what follows the closing quote -/
def strBody : List Char → Option (List Char × List Char)
  | [] => none
  | c :: cs =>
    if c = '"' then some ([], cs)
    else if c = '\\' then
      match cs with
      | [] => none
      | d :: ds => if d = '\n' then none else (strBody ds).map (fun p => (c :: d :: p.1, p.2))
    else (strBody cs).map (fun p => (c :: p.1, p.2))

def punct2 (c d : Char) : Option Token :=
  if c = ':' ∧ d = ':' then some .dcolon else if c = '=' ∧ d = '=' then some .eqeq
  else if c = '!' ∧ d = '=' then some .neq else if c = '<' ∧ d = '=' then some .le
  else if c = '>' ∧ d = '=' then some .ge else if c = '|' ∧ d = '|' then some .oror
  else if c = '&' ∧ d = '&' then some .andand else none

def punct1 (c : Char) : Option Token :=
  if c = '@' then some .at else if c = '.' then some .dot else if c = ',' then some .comma
  else if c = ';' then some .semi else if c = ':' then some .colon
  else if c = '(' then some .lparen else if c = ')' then some .rparen
  else if c = '{' then some .lbrace else if c = '}' then some .rbrace
  else if c = '[' then some .lbrack else if c = ']' then some .rbrack
  else if c = '<' then some .lt else if c = '>' then some .gt
  else if c = '+' then some .plus else if c = '-' then some .minus else if c = '*' then some .star
  else if c = '/' then some .slash else if c = '%' then some .percent
  else if c = '!' then some .bang else if c = '=' then some .eq else none

inductive LexStep where
  | skip (rest : List Char)
  | tok (t : Token) (rest : List Char)
  | fail

def punctStep (c : Char) (cs : List Char) : LexStep :=
  match cs with
  | d :: ds =>
    match punct2 c d with
    | some t => .tok t ds
    | none => match punct1 c with | some t => .tok t cs | none => .fail
  | [] => match punct1 c with | some t => .tok t cs | none => .fail

def isCommentStart (c : Char) (cs : List Char) : Bool :=
  c = '/' && (match cs with | d :: _ => d = '/' | [] => false)

/-- one longest-match step at a non-empty input -/
def lexStep (c : Char) (cs : List Char) : LexStep :=
  if isIdStart c then .tok (.ident (String.ofList (c :: (spanC isIdCont cs).1))) (spanC isIdCont cs).2
  else if isDig c then .tok (.num (digitsVal (c :: (spanC isDig cs).1))) (spanC isDig cs).2
  else if c = '"' then
    match strBody cs with
    | some (raw, rest) => .tok (.str raw) rest
    | none => .fail
  else if c = '?' then
    match cs with
    | d :: ds => if isIdStart d then .tok (.slot (String.ofList (c :: d :: (spanC isIdCont ds).1))) (spanC isIdCont ds).2 else .fail
    | [] => .fail
  else if isCommentStart c cs then .skip (spanC (fun x => !(x = '\n' || x = '\r')) cs).2
  else if isWs c then .skip cs
  else punctStep c cs

def lexFuel : Nat → List Char → Option (List Token)
  | 0, _ => none
  | _ + 1, [] => some []
  | f + 1, c :: cs =>
    match lexStep c cs with
    | .skip rest => lexFuel f rest
    | .tok t rest => (lexFuel f rest).map (t :: ·)
    | .fail => none

/-- the lexer (every step consumes at least one character: `length + 1` units of fuel suffice) -/
def lex (cs : List Char) : Option (List Token) := lexFuel (cs.length + 1) cs

/-! ### printing tokens -/

def tokChars : Token → List Char
  | .ident s => s.toList
  | .num n => Nat.toDigits 10 n
  | .str raw => '"' :: (raw ++ ['"'])
  | .slot s => s.toList
  | .at => ['@'] | .dot => ['.'] | .comma => [','] | .semi => [';'] | .colon => [':'] | .dcolon => [':', ':']
  | .lparen => ['('] | .rparen => [')'] | .lbrace => ['{'] | .rbrace => ['}'] | .lbrack => ['['] | .rbrack => [']']
  | .eqeq => ['=', '='] | .neq => ['!', '='] | .lt => ['<'] | .le => ['<', '='] | .ge => ['>', '='] | .gt => ['>']
  | .oror => ['|', '|'] | .andand => ['&', '&']
  | .plus => ['+'] | .minus => ['-'] | .star => ['*'] | .slash => ['/'] | .percent => ['%']
  | .bang => ['!'] | .eq => ['=']

def renderTail : List Token → List Char
  | [] => []
  | t :: ts => ' ' :: (tokChars t ++ renderTail ts)

/-- tokens separated by single spaces -/
def render : List Token → List Char
  | [] => []
  | t :: ts => tokChars t ++ renderTail ts

/-- `(\\.|[^"\\])*` -/
def rawOK : List Char → Bool
  | [] => true
  | c :: cs =>
    if c = '"' then false
    else if c = '\\' then
      match cs with
      | [] => false
      | d :: ds => d != '\n' && rawOK ds
    else rawOK cs

/-- a token the lexer can produce: identifier-shaped `IDENTIFIER`s, string tokens holding escaped text, slots `?ident` -/
def TokOK : Token → Bool
  | .ident s => isIdentChars s.toList
  | .str raw => rawOK raw
  | .slot s => match s.toList with | c :: cs => c = '?' && isIdentChars cs | [] => false
  | _ => true

end Cedar.Syntax
