import CedarVerif.Cedar.Partial
/-
Type-aware partial evaluation (TPE).  Mirrors cedar-policy-core/src/tpe/{residual,evaluator,request,entities,
response}.rs and tpe.rs:
  * `Residual` = `Concrete {value, ty} | Partial {kind, ty} | Error(ty)` (`part` because `partial` is a keyword),
    `RKind` = `ResidualKind`; `Residual.ofExpr` = `try_from_typed_expr` (static policies: a slot is an error);
  * `interpret` = `Evaluator::interpret`, ARM BY ARM (variables with unknown principal / resource id and unknown
    context; `&&`/`||` incl. `<error-free> && false → false` guarded by `canError` =
    `can_error_assuming_well_formed`; `if`; `is` with the partial request's types; `like`; the binary operators incl.
    `in` with unknown ancestors and the entity-set case, `getTag`/`hasTag` with tags `None` ≠ empty; `.`/`has` on
    records and on entities with unknown attributes; unary operators; extension calls; sets; records);
    `normalize_ext_value` is the identity here (extension values are modelled by represented value) and
    `stack_size_check` is not modelled (never reached at the depths generated);
  * `Response` = the decision table of `Response::new` (the same five rows as `PartialResponse::decision`,
    `Cedar.Table.decide`) and its views as projections of ONE map (`residuals`);
  * `reauthorize`, consistency of a concrete request / store with the partial ones, the permission queries.
The types carried by residuals never influence evaluation; `Ty` is an opaque tag.  The typed expression the TPE
starts from is produced by the Rust typechecker (trusted base, tied by C03) and is an input of the model.
Import-free (only other model files).
-/
namespace Cedar.Tpe
open Cedar

abbrev Ty := String

mutual
inductive Residual where
  | concrete (v : Value) (ty : Ty)
  | part (k : RKind) (ty : Ty)
  | error (ty : Ty)
inductive RKind where
  | var (v : Var)
  | ite (c t e : Residual)
  | and (a b : Residual)
  | or (a b : Residual)
  | unaryApp (op : UnaryOp) (a : Residual)
  | binaryApp (op : BinaryOp) (a b : Residual)
  | call (fn : String) (args : List Residual)
  | getAttr (e : Residual) (attr : String)
  | hasAttr (e : Residual) (attr : String)
  | like (e : Residual) (p : Pattern)
  | is (e : Residual) (ety : EntityType)
  | set (es : List Residual)
  | record (kvs : List (String × Residual))
end

instance : Inhabited Residual := ⟨.error ""⟩

def Residual.isConcrete : Residual → Bool
  | .concrete _ _ => true
  | _ => false
def Residual.isError : Residual → Bool
  | .error _ => true
  | _ => false
def Residual.isPartial : Residual → Bool
  | .part _ _ => true
  | _ => false
def Residual.isTrue : Residual → Bool
  | .concrete (.prim (.bool true)) _ => true
  | _ => false
def Residual.isFalse : Residual → Bool
  | .concrete (.prim (.bool false)) _ => true
  | _ => false

/-! ### `try_from_typed_expr` -/
mutual
def Residual.ofExpr : Expr → Option Residual
  | .lit p => some (.concrete (.prim p) "")
  | .var v => some (.part (.var v) "")
  | .slot _ => none          -- static policies: empty slot environment ⇒ `UnlinkedSlotError`
  | .unknown _ _ => none     -- `UnknownNotSupportedError`
  | .ite c t e =>
    match Residual.ofExpr c, Residual.ofExpr t, Residual.ofExpr e with
    | some c, some t, some e => some (.part (.ite c t e) "")
    | _, _, _ => none
  | .and a b =>
    match Residual.ofExpr a, Residual.ofExpr b with
    | some a, some b => some (.part (.and a b) "")
    | _, _ => none
  | .or a b =>
    match Residual.ofExpr a, Residual.ofExpr b with
    | some a, some b => some (.part (.or a b) "")
    | _, _ => none
  | .unaryApp op a => (Residual.ofExpr a).map (fun a => .part (.unaryApp op a) "")
  | .binaryApp op a b =>
    match Residual.ofExpr a, Residual.ofExpr b with
    | some a, some b => some (.part (.binaryApp op a b) "")
    | _, _ => none
  | .call fn args => (Residual.ofExprList args).map (fun rs => .part (.call fn rs) "")
  | .getAttr e a => (Residual.ofExpr e).map (fun e => .part (.getAttr e a) "")
  | .hasAttr e a => (Residual.ofExpr e).map (fun e => .part (.hasAttr e a) "")
  | .like e p => (Residual.ofExpr e).map (fun e => .part (.like e p) "")
  | .is e ty => (Residual.ofExpr e).map (fun e => .part (.is e ty) "")
  | .set xs => (Residual.ofExprList xs).map (fun rs => .part (.set rs) "")
  | .record kvs => (Residual.ofExprKVs kvs).map (fun rs => .part (.record rs) "")
def Residual.ofExprList : List Expr → Option (List Residual)
  | [] => some []
  | x :: xs =>
    match Residual.ofExpr x, Residual.ofExprList xs with
    | some r, some rs => some (r :: rs)
    | _, _ => none
def Residual.ofExprKVs : List (String × Expr) → Option (List (String × Residual))
  | [] => some []
  | (k, x) :: xs =>
    match Residual.ofExpr x, Residual.ofExprKVs xs with
    | some r, some rs => some ((k, r) :: rs)
    | _, _ => none
end

/-! ### `can_error_assuming_well_formed` -/
mutual
def Residual.canError : Residual → Bool
  | .concrete _ _ => false
  | .error _ => true
  | .part k _ => k.canError
def RKind.canError : RKind → Bool
  | .var _ => false
  | .and a b => a.canError || b.canError
  | .or a b => a.canError || b.canError
  | .ite c t e => c.canError || t.canError || e.canError
  | .is e _ => e.canError
  | .like e _ => e.canError
  | .binaryApp op a b =>
    match op with
    | .add | .mul | .sub => true
    | .getTag => true
    | _ => a.canError || b.canError
  | .call _ _ => true
  | .getAttr _ _ => true
  | .hasAttr e _ => e.canError
  | .unaryApp op a =>
    match op with
    | .neg => true
    | _ => a.canError
  | .set es => Residual.canErrorList es
  | .record kvs => Residual.canErrorKVs kvs
def Residual.canErrorList : List Residual → Bool
  | [] => false
  | r :: rs => r.canError || Residual.canErrorList rs
def Residual.canErrorKVs : List (String × Residual) → Bool
  | [] => false
  | (_, r) :: rs => r.canError || Residual.canErrorKVs rs
end

/-! ### `all_literal_uids` -/
mutual
def valueUids : Value → List EntityUID
  | .prim (.entityUID u) => [u]
  | .prim _ => []
  | .ext _ => []
  | .set vs => valueUidsList vs
  | .record kvs => valueUidsKVs kvs
def valueUidsList : List Value → List EntityUID
  | [] => []
  | v :: vs => valueUids v ++ valueUidsList vs
def valueUidsKVs : List (String × Value) → List EntityUID
  | [] => []
  | (_, v) :: kvs => valueUids v ++ valueUidsKVs kvs
end

mutual
def Residual.uids : Residual → List EntityUID
  | .concrete v _ => valueUids v
  | .error _ => []
  | .part k _ => k.uids
def RKind.uids : RKind → List EntityUID
  | .var _ => []
  | .ite c t e => c.uids ++ t.uids ++ e.uids
  | .and a b => a.uids ++ b.uids
  | .or a b => a.uids ++ b.uids
  | .unaryApp _ a => a.uids
  | .binaryApp _ a b => a.uids ++ b.uids
  | .call _ args => Residual.uidsList args
  | .getAttr e _ => e.uids
  | .hasAttr e _ => e.uids
  | .like e _ => e.uids
  | .is e _ => e.uids
  | .set es => Residual.uidsList es
  | .record kvs => Residual.uidsKVs kvs
def Residual.uidsList : List Residual → List EntityUID
  | [] => []
  | r :: rs => r.uids ++ Residual.uidsList rs
def Residual.uidsKVs : List (String × Residual) → List EntityUID
  | [] => []
  | (_, r) :: rs => r.uids ++ Residual.uidsKVs rs
end

/-! ### `impl From<Residual> for Expr` (an error node is a call of the non-existent function `error`) -/
mutual
def Residual.toExpr : Residual → Expr
  | .concrete v _ => v.toExpr
  | .error _ => .call "error" []
  | .part k _ => k.toExpr
def RKind.toExpr : RKind → Expr
  | .var v => .var v
  | .ite c t e => .ite c.toExpr t.toExpr e.toExpr
  | .and a b => .and a.toExpr b.toExpr
  | .or a b => .or a.toExpr b.toExpr
  | .unaryApp op a => .unaryApp op a.toExpr
  | .binaryApp op a b => .binaryApp op a.toExpr b.toExpr
  | .call fn args => .call fn (Residual.toExprList args)
  | .getAttr e a => .getAttr e.toExpr a
  | .hasAttr e a => .hasAttr e.toExpr a
  | .like e p => .like e.toExpr p
  | .is e ty => .is e.toExpr ty
  | .set es => .set (Residual.toExprList es)
  | .record kvs => .record (Residual.toExprKVs kvs)
def Residual.toExprList : List Residual → List Expr
  | [] => []
  | r :: rs => r.toExpr :: Residual.toExprList rs
def Residual.toExprKVs : List (String × Residual) → List (String × Expr)
  | [] => []
  | (k, r) :: rs => (k, r.toExpr) :: Residual.toExprKVs rs
end

/-! ### partial request and partial entities (`tpe/request.rs`, `tpe/entities.rs`) -/

/-- `PartialEntityUID` -/
structure PUid where
  ty : EntityType
  eid : Option String
deriving Repr, DecidableEq, Inhabited

def PUid.uid? (p : PUid) : Option EntityUID := p.eid.map (fun i => ⟨p.ty, i⟩)

/-- `PartialRequest`: the action is concrete, the context is fully known or unknown -/
structure PRequest where
  principal : PUid
  action : EntityUID
  resource : PUid
  context : Option (List (String × Value))
deriving Repr, Inhabited

/-- `PartialEntity`: attributes, ancestors (transitively closed), tags — each known or unknown -/
structure PEntity where
  attrs : Option (List (String × Value))
  ancestors : Option (List EntityUID)
  tags : Option (List (String × Value))
deriving Repr, Inhabited

abbrev PEntities := List (EntityUID × PEntity)

def PEntities.find? (es : PEntities) (uid : EntityUID) : Option PEntity :=
  match es with
  | [] => none
  | (u, d) :: rest => if u == uid then some d else PEntities.find? rest uid

/-- `get_attrs` / `get_ancestors` / `get_tags`: a missing entity and an unknown component are treated alike -/
def PEntities.attrs? (es : PEntities) (u : EntityUID) : Option (List (String × Value)) := (es.find? u).bind (·.attrs)
def PEntities.ancestors? (es : PEntities) (u : EntityUID) : Option (List EntityUID) := (es.find? u).bind (·.ancestors)
def PEntities.tags? (es : PEntities) (u : EntityUID) : Option (List (String × Value)) := (es.find? u).bind (·.tags)
def PEntities.contains (es : PEntities) (u : EntityUID) : Bool := (es.find? u).isSome

/-! ### `Evaluator::interpret` -/

def mkBool (b : Bool) (ty : Ty) : Residual := .concrete (.prim (.bool b)) ty

def ofResult (ty : Ty) : Result Value → Residual
  | .ok v => .concrete v ty
  | .error _ => .error ty

/-- `Value::get_as_entity_set` -/
def asEntitySet (v : Value) : Result (List EntityUID) :=
  match v.asSet with
  | .ok vs => asEntityList vs
  | .error e => .error e

/-- the `(Concrete v1, Concrete v2)` arm of `BinaryApp`; `a1`, `a2` are the interpreted operands (kept in a residual) -/
def interpretBinary (es : PEntities) (ty : Ty) (op : BinaryOp) (v1 v2 : Value) (a1 a2 : Residual) : Residual :=
  let resid := Residual.part (.binaryApp op a1 a2) ty
  match op with
  | .mem =>
    match v1.asEntity with
    | .error _ => .error ty
    | .ok uid1 =>
      match v2.asEntity with
      | .ok uid2 =>
        if uid1 == uid2 then mkBool true ty
        else match es.ancestors? uid1 with
          | some anc => mkBool (anc.contains uid2) ty
          | none => resid
      | .error _ =>
        match asEntitySet v2 with
        | .ok uids =>
          let anc := es.ancestors? uid1
          if uids.contains uid1 || (match anc with | some a => uids.any (fun u2 => a.contains u2) | none => false) then
            mkBool true ty
          else if !uids.isEmpty && anc.isNone then resid
          else mkBool false ty
        | .error _ => .error ty
  | .getTag =>
    match v1.asEntity with
    | .error _ => .error ty
    | .ok uid =>
      match v2.asString with
      | .error _ => .error ty
      | .ok tag =>
        match es.tags? uid with
        | some tags => (match lookupKV tags tag with | some v => .concrete v ty | none => .error ty)
        | none => resid
  | .hasTag =>
    match v1.asEntity with
    | .error _ => .error ty
    | .ok uid =>
      match v2.asString with
      | .error _ => .error ty
      | .ok tag =>
        match es.tags? uid with
        | some tags => mkBool (lookupKV tags tag).isSome ty
        | none => resid
  -- `binary_relation`, `binary_arith`, `contains*`: store-free, as in the concrete evaluator
  | op => ofResult ty (applyBinary [] op v1 v2)

def allConcrete : List Residual → Option (List Value)
  | [] => some []
  | .concrete v _ :: rs => (allConcrete rs).map (v :: ·)
  | _ :: _ => none

def allConcreteKVs : List (String × Residual) → Option (List (String × Value))
  | [] => some []
  | (k, .concrete v _) :: rs => (allConcreteKVs rs).map ((k, v) :: ·)
  | _ :: _ => none

mutual
def interpret (req : PRequest) (es : PEntities) : Residual → Residual
  | .concrete v ty => .concrete v ty
  | .error ty => .error ty
  | .part k ty => interpretKind req es ty k
def interpretKind (req : PRequest) (es : PEntities) (ty : Ty) : RKind → Residual
  | .var .action => .concrete (.prim (.entityUID req.action)) ty
  | .var .principal =>
    match req.principal.uid? with
    | some u => .concrete (.prim (.entityUID u)) ty
    | none => .part (.var .principal) ty
  | .var .resource =>
    match req.resource.uid? with
    | some u => .concrete (.prim (.entityUID u)) ty
    | none => .part (.var .resource) ty
  | .var .context =>
    match req.context with
    | some c => .concrete (.record c) ty
    | none => .part (.var .context) ty
  | .and l r =>
    match interpret req es l with
    | .concrete v _ =>
      match v.asBool with
      | .ok false => mkBool false ty                 -- false && <right> => false
      | .ok true => interpret req es r               -- true && <right> => <right>
      | .error _ => .error ty
    | .part lk lty =>
      match interpret req es r with
      | .concrete v _ =>
        match v.asBool with
        | .ok true => .part lk lty                   -- <left-residual> && true => <left-residual>
        | .ok false =>
          if !(Residual.part lk lty).canError then mkBool false ty   -- <error-free> && false => false
          else .part (.and (.part lk lty) (mkBool false ty)) ty
        | .error _ => .part (.and (.part lk lty) (.error ty)) ty
      | right => .part (.and (.part lk lty) right) ty
    | .error _ => .error ty
  | .or l r =>
    match interpret req es l with
    | .concrete v _ =>
      match v.asBool with
      | .ok true => mkBool true ty
      | .ok false => interpret req es r
      | .error _ => .error ty
    | .part lk lty =>
      match interpret req es r with
      | .concrete v _ =>
        match v.asBool with
        | .ok false => .part lk lty
        | .ok true =>
          if !(Residual.part lk lty).canError then mkBool true ty
          else .part (.or (.part lk lty) (mkBool true ty)) ty
        | .error _ => .part (.or (.part lk lty) (.error ty)) ty
      | right => .part (.or (.part lk lty) right) ty
    | .error _ => .error ty
  | .ite c t e =>
    match interpret req es c with
    | .concrete v _ =>
      match v.asBool with
      | .ok true => interpret req es t
      | .ok false => interpret req es e
      | .error _ => .error ty
    | .part ck cty => .part (.ite (.part ck cty) (interpret req es t) (interpret req es e)) ty
    | .error _ => .error ty
  | .is e ety =>
    match interpret req es e with
    | .concrete v _ =>
      match v.asEntity with
      | .ok u => mkBool (u.ty == ety) ty
      | .error _ => .error ty
    | .part (.var .principal) _ => mkBool (ety == req.principal.ty) ty
    | .part (.var .resource) _ => mkBool (ety == req.resource.ty) ty
    | .part k kty => .part (.is (.part k kty) ety) ty
    | .error _ => .error ty
  | .like e p =>
    match interpret req es e with
    | .concrete v _ =>
      match v.asString with
      | .ok s => mkBool (wm p s.toList) ty
      | .error _ => .error ty
    | .part k kty => .part (.like (.part k kty) p) ty
    | .error _ => .error ty
  | .binaryApp op x y =>
    match interpret req es x, interpret req es y with
    | .concrete v1 t1, .concrete v2 t2 => interpretBinary es ty op v1 v2 (.concrete v1 t1) (.concrete v2 t2)
    | .error _, _ => .error ty
    | _, .error _ => .error ty
    | a1, a2 => .part (.binaryApp op a1 a2) ty
  | .getAttr e a =>
    match interpret req es e with
    | .concrete (.record kvs) _ =>
      (match lookupKV kvs a with | some x => .concrete x ty | none => .error ty)
    | .concrete (.prim (.entityUID u)) vty =>
      (match es.attrs? u with
       | some attrs => (match lookupKV attrs a with | some x => .concrete x ty | none => .error ty)
       | none => .part (.getAttr (.concrete (.prim (.entityUID u)) vty) a) ty)
    | .concrete _ _ => .error ty
    | .part k kty => .part (.getAttr (.part k kty) a) ty
    | .error _ => .error ty
  | .hasAttr e a =>
    match interpret req es e with
    | .concrete (.record kvs) _ => mkBool (lookupKV kvs a).isSome ty
    | .concrete (.prim (.entityUID u)) vty =>
      (match es.attrs? u with
       | some attrs => mkBool (lookupKV attrs a).isSome ty
       | none => .part (.hasAttr (.concrete (.prim (.entityUID u)) vty) a) ty)
    | .concrete _ _ => .error ty
    | .part k kty => .part (.hasAttr (.part k kty) a) ty
    | .error _ => .error ty
  | .unaryApp op a =>
    match interpret req es a with
    | .concrete v _ => ofResult ty (applyUnary op v)
    | .part k kty => .part (.unaryApp op (.part k kty)) ty
    | .error _ => .error ty
  | .call fn args =>
    let rs := interpretList req es args
    match allConcrete rs with
    | some vals => ofResult ty (callExt fn vals)
    | none => if rs.any Residual.isError then .error ty else .part (.call fn rs) ty
  | .set xs =>
    let rs := interpretList req es xs
    match allConcrete rs with
    | some vals => .concrete (.set (Value.mkSet vals)) ty
    | none => if rs.any Residual.isError then .error ty else .part (.set rs) ty
  | .record kvs =>
    let rs := interpretKVs req es kvs
    match allConcreteKVs rs with
    | some vals => .concrete (.record (vals.foldl (fun acc kv => insertKV kv.1 kv.2 acc) [])) ty
    | none => if rs.any (fun kv => kv.2.isError) then .error ty else .part (.record rs) ty
def interpretList (req : PRequest) (es : PEntities) : List Residual → List Residual
  | [] => []
  | r :: rs => interpret req es r :: interpretList req es rs
def interpretKVs (req : PRequest) (es : PEntities) : List (String × Residual) → List (String × Residual)
  | [] => []
  | (k, r) :: rs => (k, interpret req es r) :: interpretKVs req es rs
end

/-! ### `Response` (`tpe/response.rs`) -/

/-- the bucket a residual falls into (`is_true` / `is_false` / `is_error` / otherwise) -/
inductive Class where | tt | ff | err | res
deriving Repr, DecidableEq, Inhabited

def Residual.cls (r : Residual) : Class :=
  if r.isTrue then .tt else if r.isFalse then .ff else if r.isError then .err else .res

/-- `ResidualPolicy { residual, policy }` (`policy` is the original input policy) -/
structure ResidualPolicy where
  id : String
  effect : Effect
  residual : Residual
  original : Policy
deriving Inhabited

/-- `Response`: ONE map id ↦ residual policy (kept in input order; ids are unique); the eight id buckets and every
    view are projections of it. -/
structure Response where
  residuals : List ResidualPolicy
  request : PRequest
  entities : PEntities
deriving Inhabited

def Response.bucket (r : Response) (eff : Effect) (c : Class) : List ResidualPolicy :=
  r.residuals.filter (fun rp => rp.effect == eff && rp.residual.cls == c)

def Response.flag (r : Response) (eff : Effect) (c : Class) : Bool :=
  r.residuals.any (fun rp => rp.effect == eff && rp.residual.cls == c)

/-- the `match` of `Response::new` on `(!true_forbids.is_empty(), !true_permits.is_empty(),
    !residual_permits.is_empty(), !residual_forbids.is_empty())`: the same five rows as `PartialResponse::decision` -/
def Response.decision (r : Response) : Option Decision :=
  Table.decide (r.flag .forbid .tt) (r.flag .permit .tt) (r.flag .permit .res) (r.flag .forbid .res)

/-- `policies()` -/
def Response.policies (r : Response) : List ResidualPolicy := r.residuals
/-- `get_residual_policy(id)` -/
def Response.getPolicy (r : Response) (id : String) : Option ResidualPolicy := r.residuals.find? (fun rp => rp.id == id)
/-- `residual_policies()` of the public API: `residual_permits().chain(residual_forbids())` -/
def Response.residualPolicies (r : Response) : List ResidualPolicy := r.bucket .permit .res ++ r.bucket .forbid .res

/-- the policy a view presents for a residual policy: `impl From<ResidualPolicy> for Policy`
    (unconstrained scope, the residual as the only `when` clause) -/
def ResidualPolicy.toPolicy (rp : ResidualPolicy) : Policy :=
  { id := rp.id, effect := rp.effect, condition := residualCondition rp.residual.toExpr, env := [] }

/-- `policy_set()` AS IMPLEMENTED in this snapshot: `ps.add(p.policy.as_ref().clone())` collects the ORIGINAL
    policies (known finding C14-policy-set-view-original); `reauthorize` and the queries evaluate this set. -/
def Response.policySet (r : Response) : List Policy := r.residuals.map (·.original)

/-- what the property (and the documentation of `policy_set`) asks for -/
def Response.policySetSpec (r : Response) : List Policy := r.residuals.map (·.toPolicy)

/-- input of `tpe::is_authorized` after `policy_residual_map`: the original policy and its typed condition -/
structure TPolicy where
  policy : Policy
  typed : Expr
deriving Inhabited

def residualPolicyOf (req : PRequest) (es : PEntities) (tp : TPolicy) : Option ResidualPolicy :=
  (Residual.ofExpr tp.typed).map (fun r =>
    { id := tp.policy.id, effect := tp.policy.effect, residual := interpret req es r, original := tp.policy })

def mapM? {α β} (f : α → Option β) : List α → Option (List β)
  | [] => some []
  | x :: xs => match f x, mapM? f xs with
    | some y, some ys => some (y :: ys)
    | _, _ => none

/-- `tpe::is_authorized` (`none`: `TpeError`, e.g. a slot or an unknown in a policy) -/
def isAuthorized (req : PRequest) (es : PEntities) (tps : List TPolicy) : Option Response :=
  (mapM? (residualPolicyOf req es) tps).map (fun rs => { residuals := rs, request := req, entities := es })

/-! ### consistency (`check_consistency`) and `reauthorize` -/

def PUid.consistent (p : PUid) (u : EntityUID) : Bool :=
  u.ty == p.ty && (match p.eid with | some i => i == u.eid | none => true)

def PRequest.consistent (p : PRequest) (q : Request) : Bool :=
  p.principal.consistent q.principal && p.resource.consistent q.resource && q.action == p.action &&
  (match p.context with | some c => Value.beqKVs c q.context | none => true)

def sameUids (a b : List EntityUID) : Bool := a.all (b.contains ·) && b.all (a.contains ·)

def PEntity.consistent (p : PEntity) (d : EntityData) : Bool :=
  (match p.attrs with | some a => Value.beqKVs a d.attrs | none => true) &&
  (match p.ancestors with | some n => sameUids n d.ancestors | none => true) &&
  (match p.tags with | some t => Value.beqKVs t d.tags | none => true)

def PEntities.consistent (ps : PEntities) (es : Entities) : Bool :=
  ps.all (fun (u, p) => match es.find? u with | some d => p.consistent d | none => false)

/-- `Response::reauthorize` (schema validation of the concrete request / entities is not modelled: the harness only
    submits valid ones): consistency checks, then the concrete authorizer over `policy_set()` -/
def Response.reauthorize (r : Response) (req : Request) (es : Entities) : Option Cedar.Response :=
  if r.request.consistent req && r.entities.consistent es then some (Cedar.isAuthorized req es r.policySet) else none

/-- reauthorization over the residuals (what the property describes) -/
def Response.reauthorizeSpec (r : Response) (req : Request) (es : Entities) : Option Cedar.Response :=
  if r.request.consistent req && r.entities.consistent es then some (Cedar.isAuthorized req es r.policySetSpec) else none

/-! ### permission queries (`query_resource` / `query_principal` / `query_action` of the public API) -/

/-- `PartialEntities::from_concrete` -/
def PEntities.ofConcrete (es : Entities) : PEntities :=
  es.map (fun (u, d) => (u, { attrs := some d.attrs, ancestors := some d.ancestors, tags := some d.tags }))

/-- candidates of a resource / principal query: the entities of the store of the queried type -/
def candidates (es : Entities) (ty : EntityType) : List EntityUID := (es.filter (fun x => x.1.ty == ty)).map (·.1)

/-- `query_resource`: the three arms on the TPE decision; `None` re-authorizes every candidate over `policy_set()` -/
def queryResource (tps : List TPolicy) (principal action : EntityUID) (rty : EntityType) (ctx : List (String × Value))
    (es : Entities) : Option (List EntityUID) :=
  let preq : PRequest := ⟨⟨principal.ty, some principal.eid⟩, action, ⟨rty, none⟩, some ctx⟩
  match isAuthorized preq (PEntities.ofConcrete es) tps with
  | none => none
  | some resp =>
    match resp.decision with
    | some .allow => some (candidates es rty)
    | some .deny => some []
    | none => some ((candidates es rty).filter (fun u =>
        (Cedar.isAuthorized ⟨principal, action, u, ctx⟩ es resp.policySet).decision == .allow))

def queryPrincipal (tps : List TPolicy) (pty : EntityType) (action resource : EntityUID) (ctx : List (String × Value))
    (es : Entities) : Option (List EntityUID) :=
  let preq : PRequest := ⟨⟨pty, none⟩, action, ⟨resource.ty, some resource.eid⟩, some ctx⟩
  match isAuthorized preq (PEntities.ofConcrete es) tps with
  | none => none
  | some resp =>
    match resp.decision with
    | some .allow => some (candidates es pty)
    | some .deny => some []
    | none => some ((candidates es pty).filter (fun u =>
        (Cedar.isAuthorized ⟨u, action, resource, ctx⟩ es resp.policySet).decision == .allow))

/-- `query_action` over the actions that apply (`acts`, each with the typed policies of its environment):
    every action whose TPE decision is not `Deny`, labelled with that decision -/
def queryAction (acts : List (EntityUID × List TPolicy)) (p r : PUid) (ctx : Option (List (String × Value)))
    (es : PEntities) : List (EntityUID × Option Decision) :=
  acts.filterMap (fun (a, tps) =>
    match isAuthorized ⟨p, a, r, ctx⟩ es tps with
    | none => none
    | some resp => if resp.decision == some .deny then none else some (a, resp.decision))

end Cedar.Tpe
