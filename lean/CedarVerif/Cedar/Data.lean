/-
Core data of the model: entity uids, primitives, extension values (by represented value),
`Value` with the permutation-insensitive semantic equality `Value.beq`.
Mirrors cedar-policy-core/src/ast/{value,literal,name,entity}.rs.  Import-free.
-/
namespace Cedar

/-- fully qualified entity type name, e.g. `"NS::User"` (as printed by Rust `EntityType`'s `Display`) -/
abbrev EntityType := String

structure EntityUID where
  ty : EntityType
  eid : String
deriving DecidableEq, Repr, Inhabited

inductive Prim where
  | bool (b : Bool)
  | int (i : Int)
  | string (s : String)
  | entityUID (uid : EntityUID)
deriving DecidableEq, Repr, Inhabited

/-- extension values, by represented value (C07: equality ignores constructor spelling) -/
inductive Ext where
  | decimal (v : Int)
  | ipaddr (v6 : Bool) (addr : Nat) (prefixLen : Nat)
  | datetime (ms : Int)
  | duration (ms : Int)
deriving DecidableEq, Repr, Inhabited

inductive Value where
  | prim (p : Prim)
  | set (vs : List Value)
  | record (kvs : List (String × Value))
  | ext (x : Ext)
deriving Repr, Inhabited

mutual
def Value.size : Value → Nat
  | .prim _ => 1
  | .ext _ => 1
  | .set vs => 1 + Value.sizeList vs
  | .record kvs => 1 + Value.sizeKVs kvs
def Value.sizeList : List Value → Nat
  | [] => 0
  | v :: vs => 1 + v.size + Value.sizeList vs
def Value.sizeKVs : List (String × Value) → Nat
  | [] => 0
  | (_, v) :: kvs => 1 + v.size + Value.sizeKVs kvs
end

-- Semantic equality: sets are compared as sets (order- and duplicate-insensitive),
-- records pointwise (kept sorted by key with unique keys — Rust's `BTreeMap`).
mutual
def Value.beq : Value → Value → Bool
  | .prim a, .prim b => a == b
  | .ext a, .ext b => a == b
  | .set as, .set bs => Value.subset as bs && Value.subset bs as
  | .record as, .record bs => Value.beqKVs as bs
  | _, _ => false
termination_by a b => a.size + b.size
decreasing_by all_goals simp [Value.size]; all_goals omega
def Value.elem (v : Value) : List Value → Bool
  | [] => false
  | w :: ws => Value.beq v w || Value.elem v ws
termination_by ws => v.size + Value.sizeList ws
decreasing_by all_goals simp [Value.sizeList]; all_goals omega
def Value.subset : List Value → List Value → Bool
  | [], _ => true
  | a :: as, bs => Value.elem a bs && Value.subset as bs
termination_by as bs => Value.sizeList as + Value.sizeList bs
decreasing_by all_goals simp [Value.sizeList]; all_goals omega
def Value.beqKVs : List (String × Value) → List (String × Value) → Bool
  | [], [] => true
  | (k, a) :: as, (k', b) :: bs => k == k' && Value.beq a b && Value.beqKVs as bs
  | _, _ => false
termination_by as bs => Value.sizeKVs as + Value.sizeKVs bs
decreasing_by all_goals simp [Value.sizeKVs]; all_goals omega
end

/-- dedup modulo `beq`, keeping last occurrences (mirror of collecting into a `BTreeSet`) -/
def Value.mkSet : List Value → List Value
  | [] => []
  | v :: vs => let rest := Value.mkSet vs; if Value.elem v rest then rest else v :: rest

def lookupKV {α} (kvs : List (String × α)) (k : String) : Option α :=
  match kvs with
  | [] => none
  | (k', v) :: rest => if k' == k then some v else lookupKV rest k

/-- insert into a key-sorted assoc list, replacing an existing binding (BTreeMap::insert) -/
def insertKV {α} (k : String) (v : α) : List (String × α) → List (String × α)
  | [] => [(k, v)]
  | (k', v') :: rest =>
    if k < k' then (k, v) :: (k', v') :: rest
    else if k == k' then (k, v) :: rest
    else (k', v') :: insertKV k v rest

def i64Min : Int := -9223372036854775808
def i64Max : Int := 9223372036854775807
def inI64 (i : Int) : Bool := decide (i64Min ≤ i) && decide (i ≤ i64Max)

end Cedar
