import CedarVerif.Cedar.Expr
import CedarVerif.Cedar.Ext
/-
The concrete evaluator. Mirrors the value paths of `Evaluator::partial_interpret_internal`
(cedar-policy-core/src/evaluator.rs): left-to-right, short-circuit `&&`/`||`/`if`, checked i64
arithmetic, total `==`, sets modulo `beq`, `in` via the stored ancestor sets, `has`/`.`/tags, `is`, `like`.
Import-free.
-/
namespace Cedar

def intOrErr (i : Int) : Result Value :=
  if inI64 i then .ok (.prim (.int i)) else .error .overflow

def asEntityList : List Value → Result (List EntityUID)
  | [] => .ok []
  | v :: vs => do
    let u ← v.asEntity
    let us ← asEntityList vs
    .ok (u :: us)

def inE (es : Entities) (u1 u2 : EntityUID) : Bool :=
  u1 == u2 || (match es.find? u1 with
    | some d => d.ancestors.contains u2
    | none => false)

def applyUnary (op : UnaryOp) (v : Value) : Result Value :=
  match op with
  | .not => do let b ← v.asBool; .ok (.prim (.bool (!b)))
  | .neg => do let i ← v.asInt; intOrErr (-i)
  | .isEmpty => do let s ← v.asSet; .ok (.prim (.bool s.isEmpty))

/-- `<`/`<=`: longs, or two extension values of the same operator-overloading type (datetime, duration) -/
def applyCmp (strict : Bool) (v1 v2 : Value) : Result Value :=
  let cmp (a b : Int) : Bool := if strict then decide (a < b) else decide (a ≤ b)
  match v1, v2 with
  | .prim (.int a), .prim (.int b) => .ok (.prim (.bool (cmp a b)))
  | .ext (.datetime a), .ext (.datetime b) => .ok (.prim (.bool (cmp a b)))
  | .ext (.duration a), .ext (.duration b) => .ok (.prim (.bool (cmp a b)))
  | _, _ => .error .type

def applyBinary (es : Entities) (op : BinaryOp) (v1 v2 : Value) : Result Value :=
  match op with
  | .eq => .ok (.prim (.bool (Value.beq v1 v2)))
  | .less => applyCmp true v1 v2
  | .lessEq => applyCmp false v1 v2
  | .add => do let a ← v1.asInt; let b ← v2.asInt; intOrErr (a + b)
  | .sub => do let a ← v1.asInt; let b ← v2.asInt; intOrErr (a - b)
  | .mul => do let a ← v1.asInt; let b ← v2.asInt; intOrErr (a * b)
  | .mem => do
    let u1 ← v1.asEntity
    match v2 with
    | .prim (.entityUID u2) => .ok (.prim (.bool (inE es u1 u2)))
    | .set vs => do
      let us ← asEntityList vs
      .ok (.prim (.bool (us.any (inE es u1 ·))))
    | _ => .error .type
  | .contains => do let s ← v1.asSet; .ok (.prim (.bool (Value.elem v2 s)))
  | .containsAll => do let s1 ← v1.asSet; let s2 ← v2.asSet; .ok (.prim (.bool (Value.subset s2 s1)))
  | .containsAny => do let s1 ← v1.asSet; let s2 ← v2.asSet; .ok (.prim (.bool (s1.any (Value.elem · s2))))
  | .getTag => do
    let u ← v1.asEntity
    let t ← v2.asString
    match es.find? u with
    | none => .error .entity
    | some d => match lookupKV d.tags t with
      | some v => .ok v
      | none => .error .attr
  | .hasTag => do
    let u ← v1.asEntity
    let t ← v2.asString
    match es.find? u with
    | none => .ok (.prim (.bool false))
    | some d => .ok (.prim (.bool (lookupKV d.tags t).isSome))

mutual
def evaluate (req : Request) (es : Entities) (env : SlotEnv) : Expr → Result Value
  | .lit p => .ok (.prim p)
  | .var .principal => .ok (.prim (.entityUID req.principal))
  | .var .action => .ok (.prim (.entityUID req.action))
  | .var .resource => .ok (.prim (.entityUID req.resource))
  | .var .context => .ok (.record req.context)
  | .unknown _ _ => .error .residual
  | .slot s => match env.lookup s with
    | some u => .ok (.prim (.entityUID u))
    | none => .error .slot
  | .ite c t e =>
    match evaluate req es env c with
    | .error err => .error err
    | .ok v => match v.asBool with
      | .error err => .error err
      | .ok true => evaluate req es env t
      | .ok false => evaluate req es env e
  | .and a b =>
    match evaluate req es env a with
    | .error err => .error err
    | .ok v => match v.asBool with
      | .error err => .error err
      | .ok false => .ok (.prim (.bool false))
      | .ok true => match evaluate req es env b with
        | .error err => .error err
        | .ok w => match w.asBool with
          | .error err => .error err
          | .ok r => .ok (.prim (.bool r))
  | .or a b =>
    match evaluate req es env a with
    | .error err => .error err
    | .ok v => match v.asBool with
      | .error err => .error err
      | .ok true => .ok (.prim (.bool true))
      | .ok false => match evaluate req es env b with
        | .error err => .error err
        | .ok w => match w.asBool with
          | .error err => .error err
          | .ok r => .ok (.prim (.bool r))
  | .unaryApp op a =>
    match evaluate req es env a with
    | .error err => .error err
    | .ok v => applyUnary op v
  | .binaryApp op a b =>
    match evaluate req es env a with
    | .error err => .error err
    | .ok v1 => match evaluate req es env b with
      | .error err => .error err
      | .ok v2 => applyBinary es op v1 v2
  | .call fn args =>
    match evaluateList req es env args with
    | .error err => .error err
    | .ok vs => callExt fn vs
  | .getAttr e attr =>
    match evaluate req es env e with
    | .error err => .error err
    | .ok (.record kvs) => match lookupKV kvs attr with
      | some v => .ok v
      | none => .error .attr
    | .ok (.prim (.entityUID u)) => match es.find? u with
      | none => .error .entity
      | some d => match lookupKV d.attrs attr with
        | some v => .ok v
        | none => .error .attr
    | .ok _ => .error .type
  | .hasAttr e attr =>
    match evaluate req es env e with
    | .error err => .error err
    | .ok (.record kvs) => .ok (.prim (.bool (lookupKV kvs attr).isSome))
    | .ok (.prim (.entityUID u)) => match es.find? u with
      | none => .ok (.prim (.bool false))
      | some d => .ok (.prim (.bool (lookupKV d.attrs attr).isSome))
    | .ok _ => .error .type
  | .like e p =>
    match evaluate req es env e with
    | .error err => .error err
    | .ok v => match v.asString with
      | .error err => .error err
      | .ok s => .ok (.prim (.bool (wm p s.toList)))
  | .is e ty =>
    match evaluate req es env e with
    | .error err => .error err
    | .ok v => match v.asEntity with
      | .error err => .error err
      | .ok u => .ok (.prim (.bool (u.ty == ty)))
  | .set xs =>
    match evaluateList req es env xs with
    | .error err => .error err
    | .ok vs => .ok (.set (Value.mkSet vs))
  | .record kvs =>
    match evaluateKVs req es env kvs with
    | .error err => .error err
    | .ok vs => .ok (.record (vs.foldl (fun acc kv => insertKV kv.1 kv.2 acc) []))
def evaluateList (req : Request) (es : Entities) (env : SlotEnv) : List Expr → Result (List Value)
  | [] => .ok []
  | x :: xs =>
    match evaluate req es env x with
    | .error err => .error err
    | .ok v => match evaluateList req es env xs with
      | .error err => .error err
      | .ok vs => .ok (v :: vs)
def evaluateKVs (req : Request) (es : Entities) (env : SlotEnv) : List (String × Expr) → Result (List (String × Value))
  | [] => .ok []
  | (k, x) :: xs =>
    match evaluate req es env x with
    | .error err => .error err
    | .ok v => match evaluateKVs req es env xs with
      | .error err => .error err
      | .ok vs => .ok ((k, v) :: vs)
end

end Cedar
