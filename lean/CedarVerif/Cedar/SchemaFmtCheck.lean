import CedarVerif.Cedar.SchemaDecl2
/-
C09, fragment level, part 4: the REFUSAL CASES of fmt.rs `json_schema_to_cedar_schema_str` (`ToCedarSchemaSyntaxError`).

  1. `NameCollisions`: for every namespace EXCEPT THE EMPTY ONE (`.filter(|(name, _)| !name.is_none())`), the declared entity-type names
     that are also declared common-type names of the same namespace, fully qualified; a non-empty collection is the error (the
     collection is built from `HashSet::intersection`, i.e. in no particular order: the model lists the names in namespace order,
     then entity-type key order — compare as sets).
  2. `UnconvertibleEntityTypeShape`: the standard entity types (of EVERY namespace, the empty one included) whose `shape` is not a
     record-type literal (e.g. `"shape": {"type": "SomeCommonType"}`, cedar#1702); only looked at when there is no collision.
     `EntityTypeJ.shape` of this model is always a record, so such entity types are given separately (`nonRecordShaped`: their
     fully qualified names, in the order fmt.rs meets them); for a fragment expressible as a `FragmentJ` that list is empty.
  3. otherwise `Ok(fragment.to_string())`.
-/
namespace Cedar.SchemaSyntax

inductive FmtErr where
  | nameCollisions (names : List QName)
  | unconvertibleShape (names : List QName)
deriving DecidableEq, Repr

instance fmtResultDecEq : DecidableEq (Except FmtErr (List Tok))
  | .ok a, .ok b => if h : a = b then isTrue (by rw [h]) else isFalse (fun h' => by cases h'; exact h rfl)
  | .error a, .error b => if h : a = b then isTrue (by rw [h]) else isFalse (fun h' => by cases h'; exact h rfl)
  | .ok _, .error _ => isFalse (fun h' => by cases h')
  | .error _, .ok _ => isFalse (fun h' => by cases h')

/-- `RawName::new_from_unreserved(n, None).qualify_with_name(Some(ns))` -/
def qualifyIn (ns : QName) (n : String) : QName := ⟨ns.comps, n⟩

/-- `entity_types.intersection(&common_types)` of one (named) namespace -/
def nsCollisions (ns : QName) (d : NamespaceJ) : List QName :=
  ((d.entities.map (·.1)).filter fun n => (d.commons.map (·.1)).contains n).map (qualifyIn ns)

def fragCollisions : List (QName × NamespaceJ) → List QName
  | [] => []
  | (q, d) :: rest => nsCollisions q d ++ fragCollisions rest

/-- `json_schema_to_cedar_schema_str` -/
def toCedarChecked (f : FragmentJ) (nonRecordShaped : List QName := []) : Except FmtErr (List Tok) :=
  match fragCollisions f.named with
  | c :: cs => .error (.nameCollisions (c :: cs))
  | [] =>
    match nonRecordShaped with
    | n :: ns => .error (.unconvertibleShape (n :: ns))
    | [] => .ok (printFragmentJ f)

/-- the declaration environment of a fragment: every declared common / entity type fully qualified, the namespaces with actions -/
def nsEnvNames (path : List String) (l : List String) : List QName := l.map fun n => ⟨path, n⟩

def envOfFragment (f : FragmentJ) : Env :=
  let nss : List (List String × NamespaceJ) :=
    (match f.empty with | some d => [([], d)] | none => []) ++ f.named.map fun x => (x.1.comps, x.2)
  { commons := nss.flatMap fun x => nsEnvNames x.1 (x.2.commons.map (·.1)),
    entities := nss.flatMap fun x => nsEnvNames x.1 (x.2.entities.map (·.1)),
    actionNs := (nss.filter fun x => !x.2.actions.isEmpty).map (·.1) }

end Cedar.SchemaSyntax
