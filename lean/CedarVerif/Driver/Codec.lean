import CedarVerif.Util.Sexp
import CedarVerif.Cedar.Authorizer
/-
Decoders (s-expression → model objects) and canonical printers for the line protocol.
Driver-side glue: not subject to theorems; part of the trusted correspondence harness.
-/
namespace CedarVerif
open Cedar

def Sexp.asStr? : Sexp → Option String
  | .str s => some s
  | _ => none
def Sexp.asAtom? : Sexp → Option String
  | .atom s => some s
  | _ => none
def Sexp.asInt? : Sexp → Option Int
  | .atom s => s.toInt?
  | _ => none
def Sexp.asNat? : Sexp → Option Nat
  | .atom s => s.toNat?
  | _ => none

def decUid : Sexp → Option EntityUID
  | .list [.atom "e", .str ty, .str eid] => some ⟨ty, eid⟩
  | _ => none

mutual
partial def decValue : Sexp → Option Value
  | .list [.atom "b", .atom "true"] => some (.prim (.bool true))
  | .list [.atom "b", .atom "false"] => some (.prim (.bool false))
  | .list [.atom "i", n] => n.asInt?.map (fun i => .prim (.int i))
  | .list [.atom "s", .str s] => some (.prim (.string s))
  | .list [.atom "e", .str ty, .str eid] => some (.prim (.entityUID ⟨ty, eid⟩))
  | .list (.atom "set" :: xs) => (decValues xs).map .set
  | .list (.atom "rec" :: xs) => (decKVs xs).map .record
  | .list [.atom "dec", n] => n.asInt?.map (fun i => .ext (.decimal i))
  | .list [.atom "ip", .atom "4", a, p] => do let a ← a.asNat?; let p ← p.asNat?; some (.ext (.ipaddr false a p))
  | .list [.atom "ip", .atom "6", a, p] => do let a ← a.asNat?; let p ← p.asNat?; some (.ext (.ipaddr true a p))
  | .list [.atom "dt", n] => n.asInt?.map (fun i => .ext (.datetime i))
  | .list [.atom "dur", n] => n.asInt?.map (fun i => .ext (.duration i))
  | _ => none
partial def decValues : List Sexp → Option (List Value)
  | [] => some []
  | x :: xs => do let v ← decValue x; let vs ← decValues xs; some (v :: vs)
partial def decKVs : List Sexp → Option (List (String × Value))
  | [] => some []
  | .list [.str k, x] :: xs => do let v ← decValue x; let vs ← decKVs xs; some ((k, v) :: vs)
  | _ => none
end

def decPrim (s : Sexp) : Option Prim :=
  match decValue s with
  | some (.prim p) => some p
  | _ => none

def decVar : String → Option Var
  | "principal" => some .principal | "action" => some .action
  | "resource" => some .resource | "context" => some .context | _ => none
def decUnary : String → Option UnaryOp
  | "not" => some .not | "neg" => some .neg | "isEmpty" => some .isEmpty | _ => none
def decBinary : String → Option BinaryOp
  | "eq" => some .eq | "less" => some .less | "lessEq" => some .lessEq | "add" => some .add
  | "sub" => some .sub | "mul" => some .mul | "in" => some .mem | "contains" => some .contains
  | "containsAll" => some .containsAll | "containsAny" => some .containsAny
  | "getTag" => some .getTag | "hasTag" => some .hasTag | _ => none
def decSlot : String → Option SlotId
  | "principal" => some .principal | "resource" => some .resource | _ => none

def decPatElem : Sexp → Option PatElem
  | .atom "star" => some .star
  | .atom n => n.toNat?.map (fun k => .char (Char.ofNat k))
  | _ => none

def decPattern : Sexp → Option Pattern
  | .list (.atom "pat" :: xs) => xs.mapM decPatElem
  | _ => none

def decTyAnn : Sexp → Option TyAnn
  | .atom "bool" => some .bool | .atom "long" => some .long | .atom "string" => some .string
  | .atom "set" => some .set | .atom "record" => some .record
  | .list [.atom "entity", .str t] => some (.entity t)
  | .list [.atom "ext", .str t] => some (.ext t)
  | _ => none

mutual
partial def decExpr : Sexp → Option Expr
  | .list [.atom "lit", v] => (decPrim v).map .lit
  | .list [.atom "var", .atom v] => (decVar v).map .var
  | .list [.atom "slot", .atom v] => (decSlot v).map .slot
  | .list [.atom "unk", .str n] => some (.unknown n none)
  | .list [.atom "unk", .str n, t] => (decTyAnn t).map (fun t => .unknown n (some t))
  | .list [.atom "ite", c, t, e] => do some (.ite (← decExpr c) (← decExpr t) (← decExpr e))
  | .list [.atom "and", a, b] => do some (.and (← decExpr a) (← decExpr b))
  | .list [.atom "or", a, b] => do some (.or (← decExpr a) (← decExpr b))
  | .list [.atom "un", .atom op, a] => do some (.unaryApp (← decUnary op) (← decExpr a))
  | .list [.atom "bin", .atom op, a, b] => do some (.binaryApp (← decBinary op) (← decExpr a) (← decExpr b))
  | .list (.atom "call" :: .str fn :: args) => do some (.call fn (← decExprs args))
  | .list [.atom "get", e, .str a] => do some (.getAttr (← decExpr e) a)
  | .list [.atom "has", e, .str a] => do some (.hasAttr (← decExpr e) a)
  | .list [.atom "like", e, p] => do some (.like (← decExpr e) (← decPattern p))
  | .list [.atom "is", e, .str t] => do some (.is (← decExpr e) t)
  | .list (.atom "set" :: xs) => do some (.set (← decExprs xs))
  | .list (.atom "rec" :: xs) => do some (.record (← decExprKVs xs))
  | _ => none
partial def decExprs : List Sexp → Option (List Expr)
  | [] => some []
  | x :: xs => do let v ← decExpr x; let vs ← decExprs xs; some (v :: vs)
partial def decExprKVs : List Sexp → Option (List (String × Expr))
  | [] => some []
  | .list [.str k, x] :: xs => do let v ← decExpr x; let vs ← decExprKVs xs; some ((k, v) :: vs)
  | _ => none
end

def decEntity : Sexp → Option (EntityUID × EntityData)
  | .list [.atom "ent", uid, .list (.atom "attrs" :: attrs), .list (.atom "anc" :: anc), .list (.atom "tags" :: tags)] => do
    let uid ← decUid uid
    let attrs ← decKVs attrs
    let anc ← anc.mapM decUid
    let tags ← decKVs tags
    some (uid, { attrs := attrs, ancestors := anc, tags := tags })
  | _ => none

def decEntities : Sexp → Option Entities
  | .list (.atom "entities" :: xs) => xs.mapM decEntity
  | _ => none

def decRequest : Sexp → Option Request
  | .list [.atom "req", p, a, r, .list (.atom "ctx" :: kvs)] => do
    some { principal := ← decUid p, action := ← decUid a, resource := ← decUid r, context := ← decKVs kvs }
  | _ => none

def decSlotEnv : Sexp → Option SlotEnv
  | .list (.atom "env" :: xs) => xs.mapM (fun x => match x with
      | .list [.atom s, u] => do some (← decSlot s, ← decUid u)
      | _ => none)
  | _ => none

def decEffect : Sexp → Option Effect
  | .atom "permit" => some .permit | .atom "forbid" => some .forbid | _ => none

def decPolicy : Sexp → Option Policy
  | .list [.atom "policy", .str id, eff, env, e] => do
    some { id := id, effect := ← decEffect eff, env := ← decSlotEnv env, condition := ← decExpr e }
  | _ => none

def decPolicies : Sexp → Option (List Policy)
  | .list (.atom "policies" :: xs) => xs.mapM decPolicy
  | _ => none

/-! ### canonical printing -/

def insertSorted (s : String) : List String → List String
  | [] => [s]
  | x :: xs => if s ≤ x then s :: x :: xs else x :: insertSorted s xs

def sortStrings (xs : List String) : List String := xs.foldr insertSorted []

def dedupSorted : List String → List String
  | a :: b :: rest => if a == b then dedupSorted (b :: rest) else a :: dedupSorted (b :: rest)
  | l => l

def encUid (u : EntityUID) : Sexp := .list [.atom "e", .str u.ty, .str u.eid]

mutual
partial def encValue : Value → String
  | .prim (.bool b) => s!"(b {b})"
  | .prim (.int i) => s!"(i {i})"
  | .prim (.string s) => "(s " ++ (Sexp.str s).toString ++ ")"
  | .prim (.entityUID u) => (encUid u).toString
  | .set vs => "(set" ++ String.join ((dedupSorted (sortStrings (vs.map encValue))).map (" " ++ ·)) ++ ")"
  | .record kvs => "(rec" ++ String.join (kvs.map (fun (k, v) => " (" ++ (Sexp.str k).toString ++ " " ++ encValue v ++ ")")) ++ ")"
  | .ext (.decimal d) => s!"(dec {d})"
  | .ext (.ipaddr v6 a p) => s!"(ip {if v6 then 6 else 4} {a} {p})"
  | .ext (.datetime d) => s!"(dt {d})"
  | .ext (.duration d) => s!"(dur {d})"
end

def encErr : ErrClass → String
  | .type => "type" | .entity => "entity" | .attr => "attr" | .overflow => "overflow"
  | .ext => "ext" | .slot => "slot" | .residual => "residual"

def encResult : Result Value → String
  | .ok v => "(ok " ++ encValue v ++ ")"
  | .error e => "(err " ++ encErr e ++ ")"

def encIds (ids : List String) : String :=
  "(" ++ " ".intercalate (sortStrings (ids.map (fun s => (Sexp.str s).toString))) ++ ")"

def encResponse (r : Response) : String :=
  "(resp " ++ (match r.decision with | .allow => "allow" | .deny => "deny") ++ " " ++ encIds r.reasons ++ " " ++ encIds r.errors ++ ")"

end CedarVerif
