import CedarVerif.Driver.Codec
import CedarVerif.Cedar.Validation.Schema
/-
Decoder of the resolved-schema s-expression written by harness/src/sx_schema.rs (grammar documented there):

  schema  ::= (schema (etypes etype*) (actions action*))
  etype   ::= (etype "Name" (attrs attr*) open|closed (tags type | none) (desc "Name"*) (enum "id"* | none))
  action  ::= (action uid (principals "Name"*) (resources "Name"*) (context type) (desc uid*) (anc uid*) (attrs ("k" value)*))
  attr    ::= ("name" req|opt type)
  type    ::= never | (bool any|tt|ff) | long | string | (set any) | (set type) | (record open|closed attr*)
            | (entity "Name"+) | anyEntity | (ext "name")

Driver-side glue (trusted correspondence harness), not subject to theorems.
-/
namespace CedarVerif
open Cedar

def decOpen : Sexp → Option Bool
  | .atom "open" => some true
  | .atom "closed" => some false
  | _ => none

def decStrs (xs : List Sexp) : Option (List String) := xs.mapM Sexp.asStr?

mutual
partial def decType : Sexp → Option CedarType
  | .atom "never" => some .never
  | .list [.atom "bool", .atom "any"] => some (.bool .anyBool)
  | .list [.atom "bool", .atom "tt"] => some (.bool .tt)
  | .list [.atom "bool", .atom "ff"] => some (.bool .ff)
  | .atom "long" => some .long
  | .atom "string" => some .string
  | .list [.atom "set", .atom "any"] => some (.set none)
  | .list [.atom "set", t] => do some (.set (some (← decType t)))
  | .list (.atom "record" :: o :: attrs) => do some (.record (← decAttrs attrs) (← decOpen o))
  | .list (.atom "entity" :: names) => do some (.entity (← decStrs names))
  | .atom "anyEntity" => some .anyEntity
  | .list [.atom "ext", .str n] => some (.ext n)
  | _ => none
partial def decAttrs : List Sexp → Option Attrs
  | [] => some []
  | .list [.str k, .atom r, t] :: rest => do
    let req ← (match r with | "req" => some true | "opt" => some false | _ => none)
    let t ← decType t
    let rest ← decAttrs rest
    some ((k, req, t) :: rest)
  | _ => none
end

def decEType : Sexp → Option (EntityType × EntityTypeEntry)
  | .list [.atom "etype", .str name, .list (.atom "attrs" :: attrs), o, .list [.atom "tags", tags],
           .list (.atom "desc" :: desc), .list (.atom "enum" :: en)] => do
    let attrs ← decAttrs attrs
    let o ← decOpen o
    let tags ← (match tags with | .atom "none" => some none | t => (decType t).map some)
    let desc ← decStrs desc
    let en ← (match en with | [.atom "none"] => some none | ids => (decStrs ids).map some)
    some (name, { attrs := attrs, isOpen := o, tags := tags, descendants := desc, enumIds := en })
  | _ => none

def decAction : Sexp → Option (EntityUID × ActionEntry)
  | .list [.atom "action", uid, .list (.atom "principals" :: ps), .list (.atom "resources" :: rs),
           .list [.atom "context", ctx], .list (.atom "desc" :: desc), .list (.atom "anc" :: anc),
           .list (.atom "attrs" :: attrs)] => do
    some (← decUid uid, { principals := ← decStrs ps, resources := ← decStrs rs, context := ← decType ctx,
                          descendants := ← desc.mapM decUid, ancestors := ← anc.mapM decUid, attrs := ← decKVs attrs })
  | _ => none

def decSchema : Sexp → Option Schema
  | .list [.atom "schema", .list (.atom "etypes" :: ets), .list (.atom "actions" :: acts)] => do
    some { ets := ← ets.mapM decEType, acts := ← acts.mapM decAction }
  | _ => none

end CedarVerif
