import CedarVerif.Driver.CodecSchema
import CedarVerif.Cedar.Validation.Typecheck
import CedarVerif.Cedar.Validation.Conformance
/-
Driver ops of C03 (policy typechecker):
  (tyck <schema> strict|permissive all (tpl <pu> <ru>) <cond>)
      → (tyck (envs ((<P> <action uid> <R> <pslot> <rslot>) tt|ff|bool|fail)…) impossible|possible|n/a) | (outside-model)
        every linked request environment of the schema (sorted, duplicates merged); `<pu>`/`<ru>` say how `?principal` /
        `?resource` occur in the scope: none | eq | in | other; a slot type is a string or `-`;
        `n/a` when some environment fails (the impossible-policy flag is then not compared)
  (tyck <schema> strict|permissive (env <P> <action uid> <R> <pslot> <rslot>) <cond>)
      → tt | ff | bool | fail | (outside-model)
  (inst <value> <type>) → true | false        (`typecheckValue`, the executable `InstanceOfType`)
-/
namespace CedarVerif.Ops
open CedarVerif Cedar

def decTyckMode : Sexp → Option ValidationMode
  | .atom "strict" => some .strict
  | .atom "permissive" => some .permissive
  | _ => none

def decSlotUse : Sexp → Option SlotUse
  | .atom "none" => some .absent
  | .atom "eq" => some .eq
  | .atom "in" => some .mem
  | .atom "other" => some .other
  | _ => none

def decSlotTy : Sexp → Option (Option EntityType)
  | .atom "-" => some none
  | .str t => some (some t)
  | _ => none

def encVerdict : Verdict → String
  | .tt => "tt" | .ff => "ff" | .bool => "bool" | .fail => "fail"

def encSlotTy : Option EntityType → String
  | none => "-"
  | some t => (Sexp.str t).toString

def encEnv (e : RequestEnv) : String :=
  "(" ++ (Sexp.str e.principal).toString ++ " " ++ (encUid e.action).toString ++ " " ++ (Sexp.str e.resource).toString ++ " " ++
    encSlotTy e.principalSlot ++ " " ++ encSlotTy e.resourceSlot ++ ")"

def handleTyck (x : Sexp) : Option String :=
  match x with
  | .list [.atom "tyck", s, m, .atom "all", .list [.atom "tpl", pu, ru], e] =>
    match decSchema s, decTyckMode m, decSlotUse pu, decSlotUse ru, decExpr e with
    | some s, some m, some pu, some ru, some e =>
      some (match checkPolicy m s pu ru e with
        | none => "(outside-model)"
        | some vs =>
          let entries := dedupSorted (sortStrings (vs.map (fun p => "(" ++ encEnv p.1 ++ " " ++ encVerdict p.2 ++ ")")))
          let flag := if !accepted vs then "n/a" else if impossible vs then "impossible" else "possible"
          "(tyck (envs" ++ String.join (entries.map (" " ++ ·)) ++ ") " ++ flag ++ ")")
    | _, _, _, _, _ => some "(bad-op)"
  | .list [.atom "tyck", s, m, .list [.atom "env", .str p, a, .str r, ps, rs], e] =>
    match decSchema s, decTyckMode m, decUid a, decSlotTy ps, decSlotTy rs, decExpr e with
    | some s, some m, some a, some ps, some rs, some e =>
      some (match s.action? a with
        | none => "(bad-op)"
        | some act =>
          match checkEnv m s { principal := p, action := a, resource := r, context := act.context, principalSlot := ps, resourceSlot := rs } e with
          | some v => encVerdict v
          | none => "(outside-model)")
    | _, _, _, _, _, _ => some "(bad-op)"
  | .list [.atom "inst", v, t] =>
    match decValue v, decType t with
    | some v, some t => some (toString (typecheckValue v t))
    | _, _ => some "(bad-op)"
  | _ => none

end CedarVerif.Ops
