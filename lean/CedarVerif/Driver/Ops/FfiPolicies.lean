import CedarVerif.Driver.Ops.PolicySet
import CedarVerif.Cedar.FfiPolicies
/-
Driver op for C19 (policy-set assembly): run the mirror of `ffi::PolicySet::parse` on an FFI policy set whose documents
are given by the parser's verdict. Glue code, not subject to theorems.

  (ffipols (static S) (templates ("id" TD)…) (links (link "tid" "newid" ENV|bad)…))
  S    := (text bad) | (text ITEM…) | (set D…) | (map ("id" D)…)
  D    := (cedar bad) | (cedar BODY) | (json bad) | (json BODY)          BODY = `(body …)` of the `pset` op
  TD   := (cedar bad) | (cedar TPL)  | (json bad) | (json TPL)           TPL  = `(tpl …)`  of the `pset` op
  ITEM := (s BODY) | (t TPL)                                              the id inside BODY / TPL is ignored (it is assigned)
  ENV  := `(env (principal uid)? (resource uid)?)`
`templates` must be listed in the order the `HashMap` iterated (or: the reply is compared up to the order of errors —
the reply sorts them). Reply:
  (ok <api listing as in `pset`>)            or
  (errs E…sorted…), E := parsePolicies | templateInStatic | (parsePolicy "id"|none) | (fromPolicies KIND) |
                         (parseTemplate "id") | (addTemplate "id" KIND) | linkValues | (link KIND)
-/
namespace CedarVerif.Ops.FfiPols
open CedarVerif Cedar Cedar.FfiP CedarVerif.Ops

def decFmt : Sexp → Option Fmt
  | .atom "cedar" => some .cedar
  | .atom "json" => some .json
  | _ => none

def decDoc : Sexp → Option PolicyDoc
  | .list [f, .atom "bad"] => do some { fmt := ← decFmt f, parsed := none }
  | .list [f, b] => do some { fmt := ← decFmt f, parsed := some (← decBody b) }
  | _ => none

def decTDoc : Sexp → Option TemplateDoc
  | .list [f, .atom "bad"] => do some { fmt := ← decFmt f, parsed := none }
  | .list [f, t] => do some { fmt := ← decFmt f, parsed := some (← decTemplate t) }
  | _ => none

def decItem : Sexp → Option ConcatItem
  | .list [.atom "s", b] => (decBody b).map .static
  | .list [.atom "t", t] => (decTemplate t).map .template
  | _ => none

def decStatic : Sexp → Option StaticPolicySet
  | .list [.atom "text", .atom "bad"] => some (.concatenated none)
  | .list (.atom "text" :: items) => (items.mapM decItem).map (fun is => .concatenated (some is))
  | .list (.atom "set" :: ds) => (ds.mapM decDoc).map .set
  | .list (.atom "map" :: es) => (es.mapM (fun (e : Sexp) => match e with
      | .list [.str id, d] => (decDoc d).map (fun d => (id, d))
      | _ => none)).map .map
  | _ => none

def decLink : Sexp → Option TemplateLink
  | .list [.atom "link", .str tid, .str nid, .atom "bad"] => some { templateId := tid, newId := nid, values := none }
  | .list [.atom "link", .str tid, .str nid, env] => do
    some { templateId := tid, newId := nid, values := some (← decSlotVals env) }
  | _ => none

def encErr : Err → String
  | .parsePolicies => "parsePolicies"
  | .templateInStatic => "templateInStatic"
  | .parsePolicy (some id) => "(parsePolicy " ++ qs id ++ ")"
  | .parsePolicy none => "(parsePolicy none)"
  | .fromPolicies e => "(fromPolicies " ++ encErrKind e ++ ")"
  | .parseTemplate id => "(parseTemplate " ++ qs id ++ ")"
  | .addTemplate id e => "(addTemplate " ++ qs id ++ " " ++ encErrKind e ++ ")"
  | .linkValues => "linkValues"
  | .link e => "(link " ++ encErrKind e ++ ")"

def handleFfiPols (x : Sexp) : Option String :=
  match x with
  | .list [.atom "ffipols", .list [.atom "static", s], .list (.atom "templates" :: ts), .list (.atom "links" :: ls)] =>
    match decStatic s, ts.mapM (fun (e : Sexp) => match e with
        | .list [.str id, d] => (decTDoc d).map (fun d => (id, d))
        | _ => none), ls.mapM decLink with
    | some s, some ts, some ls =>
      match assemble { staticPolicies := s, templates := ts, templateLinks := ls } with
      | .ok set => some ("(ok " ++ apiListing set ++ ")")
      | .error es => some ("(errs" ++ String.join ((sortStrings (es.map encErr)).map (" " ++ ·)) ++ ")")
    | _, _, _ => some "(bad-op)"
  | _ => none

end CedarVerif.Ops.FfiPols
