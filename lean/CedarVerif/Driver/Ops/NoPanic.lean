import CedarVerif.Driver.Codec
import CedarVerif.Cedar.NoPanic.Datetime
/- Driver ops of the C20 mirrors: the panic-site-explicit `parse_datetime` and `contains_at_least_two`. -/
namespace CedarVerif.Ops
open CedarVerif Cedar

/-- `none` = not one of this module's ops -/
def handleNoPanic (x : Sexp) : Option String :=
  match x with
  | .list [.atom "np-datetime", .str s] =>
    some (match NoPanic.parseDatetime s.toList with
      | .ok ms => s!"(np-datetime (dt {ms}))"
      | .err _ => "(np-datetime err)"
      | .panic site => s!"(np-datetime panic:{site})")
  | .list [.atom "np-two", .str s, .str c] =>
    match c.toList with
    | [ch] => some (match NoPanic.containsAtLeastTwo s.toList ch with
      | .result b => s!"(np-two {b})"
      | .panic site => s!"(np-two panic:{site})")
    | _ => some "(bad-op)"
  | _ => none

end CedarVerif.Ops
