import CedarVerif.Driver.Codec
import CedarVerif.Cedar.NoPanic.Datetime
import CedarVerif.Cedar.NoPanic.Collections
import CedarVerif.Cedar.NoPanic.Dispatch
import CedarVerif.Cedar.NoPanic.Unescape
/- Driver ops of the C20 mirrors: the panic-site-explicit `parse_datetime`, `contains_at_least_two`,
`FromIterator<Value> for Set` (`np-set`), `to_unescaped_string` + `Display` of its errors (`np-unescape`) and the public helpers `binary_relation` / `binary_arith` (`np-binop`; here a
`panic` reply is an expected answer for operators outside the helper's contract and must match the implementation). -/
namespace CedarVerif.Ops
open CedarVerif Cedar

/-- `none` = not one of this module's ops -/
def handleNoPanic (x : Sexp) : Option String :=
  match x with
  | .list [.atom "np-datetime", .str s] =>
    some (match NoPanic.parseDatetime s.toList with
      | .ok ms => s!"(np-datetime (dt {ms}))"
      | .err _ => "(np-datetime err)"
      | .panic site => s!"(np-datetime panic:{site})")
  | .list [.atom "np-two", .str s, .str c] =>
    match c.toList with
    | [ch] => some (match NoPanic.containsAtLeastTwo s.toList ch with
      | .result b => s!"(np-two {b})"
      | .panic site => s!"(np-two panic:{site})")
    | _ => some "(bad-op)"
  | .list (.atom "np-set" :: xs) =>
    match decValues xs with
    | none => some "(bad-op)"
    | some vs => some (match NoPanic.setFromIter vs with
      | .built s => s!"(np-set {if s.fast.isSome then "fast" else "slow"} {s.authoritative.length})"
      | .panic site => s!"(np-set panic:{site})")
  | .list [.atom "np-binop", .atom which, .atom op, a, b] =>
    match decBinary op, decValue a, decValue b with
    | some op, some v1, some v2 =>
      let o := if which == "rel" then NoPanic.binaryRelation op v1 v2 else NoPanic.binaryArith op v1 v2
      some (match o with
        | .ret r => s!"(np-binop {encResult r})"
        | .panic _ => "(np-binop panic)")
    | _, _, _ => some "(bad-op)"
  | .list [.atom "np-unescape", .atom mode, .str s] =>
    some (match NoPanic.unescapeSlices s.toList (mode == "pat") with
      | .ret true _ => "(np-unescape ok)"
      | .ret false shown => "(np-unescape err" ++ String.join (shown.map (fun t => " " ++ (Sexp.str (String.ofList t)).toString)) ++ ")"
      | .panic site => s!"(np-unescape panic:{site})"
      | .fuel => "(np-unescape fuel)")
  | _ => none

end CedarVerif.Ops
