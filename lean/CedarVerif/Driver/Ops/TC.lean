import CedarVerif.Driver.Codec
import CedarVerif.Cedar.TC
/- Driver op of C04: `(tc (ops OP…))` — a whole store history in one line (the driver is stateless).
   OP = (from MODE (ENT…)) | (add MODE (ENT…)) | (upsert MODE (ENT…)) | (remove MODE (UID…))
   ENT = (ent UID TAG (par UID…) (ind UID…)); MODE = compute | enforce | assume.
   Reply: `(tc R…)`, one R per op: `(ok STATE)` or `(err KIND)` (store unchanged),
   STATE = `((UID (p UID…) (a UID…))…)`, everything sorted. Uids are handled as their canonical text. -/
namespace CedarVerif.Ops
open CedarVerif Cedar Cedar.TC

def decUidS (x : Sexp) : Option String := (decUid x).map fun u => toString (encUid u)

def decUidList : List Sexp → Option (List String)
  | [] => some []
  | x :: xs => do let u ← decUidS x; let us ← decUidList xs; some (u :: us)

def dedupL (xs : List String) : List String := xs.foldl (fun acc x => if x ∈ acc then acc else acc ++ [x]) []

def decEnt : Sexp → Option (String × Node String)
  | .list [.atom "ent", u, tag, .list (.atom "par" :: ps), .list (.atom "ind" :: is)] => do
    let u ← decUidS u
    let tag ← tag.asNat?
    let ps ← decUidList ps
    let is ← decUidList is
    some (u, { parents := dedupL ps, indirect := dedupL is, tag := tag })
  | _ => none

def decEnts : List Sexp → Option (List (String × Node String))
  | [] => some []
  | x :: xs => do let e ← decEnt x; let es ← decEnts xs; some (e :: es)

def decMode : Sexp → Option Mode
  | .atom "compute" => some .compute
  | .atom "enforce" => some .enforce
  | .atom "assume" => some .assume
  | _ => none

def decOp : Sexp → Option (Op String)
  | .list [.atom "from", m, .list es] => do some (.from (← decMode m) (← decEnts es))
  | .list [.atom "add", m, .list es] => do some (.add (← decMode m) (← decEnts es))
  | .list [.atom "upsert", m, .list es] => do some (.upsert (← decMode m) (← decEnts es))
  | .list [.atom "remove", m, .list us] => do some (.remove (← decMode m) (← decUidList us))
  | _ => none

def decOps : List Sexp → Option (List (Op String))
  | [] => some []
  | x :: xs => do let o ← decOp x; let os ← decOps xs; some (o :: os)

def encSet (xs : List String) : String := " ".intercalate (dedupSorted (sortStrings xs))

def encState (s : Store String) : String :=
  let rows := s.map fun kn => s!"({kn.1} (p{if kn.2.parents.isEmpty then "" else " "}{encSet kn.2.parents}) (a{if kn.2.out.isEmpty then "" else " "}{encSet kn.2.out}))"
  "(" ++ " ".intercalate (sortStrings rows) ++ ")"

def encTcErr : Err → String
  | .duplicate => "duplicate"
  | .cycle => "cycle"
  | .missing => "missing"
  | .fuel => "fuel"

def runHistory (ops : List (Op String)) : String :=
  let (_, outs) := ops.foldl (fun (st : Store String × List String) o =>
    match applyOp st.1 o with
    | .ok s' => (s', st.2 ++ [s!"(ok {encState s'})"])
    | .error e => (st.1, st.2 ++ [s!"(err {encTcErr e})"])) ([], [])
  "(tc " ++ " ".intercalate outs ++ ")"

def handleTC (x : Sexp) : Option String :=
  match x with
  | .list [.atom "tc", .list (.atom "ops" :: ops)] =>
    match decOps ops with
    | some ops => some (runHistory ops)
    | none => some "(bad-op)"
  | _ => none

end CedarVerif.Ops
