import CedarVerif.Driver.Codec
import CedarVerif.Cedar.Batched
/- Driver ops of C14 / C15:
   `(tpe <preq> <pents> (pols (pol "id" permit|forbid <typed-cond>)…))` → `(tpe allow|deny|none (("id" true|false|error|residual)…))`
   `(tpe-re <preq> <pents> <pols> <req> <entities>)` → `(re ("id" true|false|error)…)`: what the residual policies
        (`impl From<ResidualPolicy> for Policy`, through `Residual.toExpr`) evaluate to on a concrete completion
   `(batch <budget> <req> <entities> <pols>)` → `(ok allow|deny) | (insufficient) | (error)` with the exact store loader.
   Residual shapes are never printed. -/
namespace CedarVerif.Ops.Tpe
open CedarVerif Cedar Cedar.Tpe

def decPUid : Sexp → Option PUid
  | .list [.atom "e", .str ty, .str eid] => some ⟨ty, some eid⟩
  | .list [.atom "unk", .str ty] => some ⟨ty, none⟩
  | _ => none

def decCtx : Sexp → Option (Option (List (String × Value)))
  | .list [.atom "noctx"] => some none
  | .list (.atom "ctx" :: kvs) => (decKVs kvs).map some
  | _ => none

def decPReq : Sexp → Option Tpe.PRequest
  | .list [.atom "preq", p, a, r, c] => do
    some { principal := ← decPUid p, action := ← decUid a, resource := ← decPUid r, context := ← decCtx c }
  | _ => none

def decOptKVs (tag none_ : String) : Sexp → Option (Option (List (String × Value)))
  | .list [.atom t] => if t == none_ then some none else if t == tag then some (some []) else none
  | .list (.atom t :: kvs) => if t == tag then (decKVs kvs).map some else none
  | _ => none

def decOptAnc : Sexp → Option (Option (List EntityUID))
  | .list [.atom "noanc"] => some none
  | .list (.atom "anc" :: xs) => (xs.mapM decUid).map some
  | _ => none

def decPEnt : Sexp → Option (EntityUID × PEntity)
  | .list [.atom "pent", uid, attrs, anc, tags] => do
    some (← decUid uid, { attrs := ← decOptKVs "attrs" "noattrs" attrs, ancestors := ← decOptAnc anc, tags := ← decOptKVs "tags" "notags" tags })
  | _ => none

def decPEnts : Sexp → Option Tpe.PEntities
  | .list (.atom "pents" :: xs) => xs.mapM decPEnt
  | _ => none

def decTPolicy : Sexp → Option TPolicy
  | .list [.atom "pol", .str id, eff, cond] => do
    let eff ← decEffect eff
    let e ← decExpr cond
    some { policy := { id := id, effect := eff, condition := e, env := [] }, typed := e }
  | _ => none

def decTPolicies : Sexp → Option (List TPolicy)
  | .list (.atom "pols" :: xs) => xs.mapM decTPolicy
  | _ => none

def encDec? : Option Decision → String
  | some .allow => "allow"
  | some .deny => "deny"
  | none => "none"

def encClass : Class → String
  | .tt => "true"
  | .ff => "false"
  | .err => "error"
  | .res => "residual"

def encTpe (r : Tpe.Response) : String :=
  let items := sortStrings (r.residuals.map (fun rp => "(" ++ (Sexp.str rp.id).toString ++ " " ++ encClass rp.residual.cls ++ ")"))
  "(tpe " ++ encDec? r.decision ++ " (" ++ " ".intercalate items ++ "))"

def encOutcome : Cedar.Outcome → String
  | .sat => "true"
  | .unsat => "false"
  | .err => "error"

def handleTpe (x : Sexp) : Option String :=
  match x with
  | .list [.atom "tpe", req, ents, ps] =>
    match decPReq req, decPEnts ents, decTPolicies ps with
    | some req, some ents, some ps =>
      match Tpe.isAuthorized req ents ps with
      | some r => some (encTpe r)
      | none => some "(outside-model)"
    | _, _, _ => some "(bad-op)"
  | .list [.atom "tpe-re", req, ents, ps, creq, cents] =>
    match decPReq req, decPEnts ents, decTPolicies ps, decRequest creq, decEntities cents with
    | some req, some ents, some ps, some creq, some cents =>
      match Tpe.isAuthorized req ents ps with
      | some r =>
        let items := r.residuals.map (fun rp => "(" ++ (Sexp.str rp.id).toString ++ " " ++ encOutcome (rp.toPolicy.outcome creq cents) ++ ")")
        some ("(re" ++ String.join (items.map (" " ++ ·)) ++ ")")
      | none => some "(outside-model)"
    | _, _, _, _, _ => some "(bad-op)"
  | .list [.atom "batch", b, req, ents, ps] =>
    match b.asNat?, decRequest req, decEntities ents, decTPolicies ps with
    | some b, some req, some ents, some ps =>
      match Batched.run b (Batched.storeLoader ents) req ps with
      | .ok .allow => some "(ok allow)"
      | .ok .deny => some "(ok deny)"
      | .insufficient => some "(insufficient)"
      | .error => some "(error)"
      | .tpeError => some "(outside-model)"
    | _, _, _, _ => some "(bad-op)"
  | _ => none

end CedarVerif.Ops.Tpe
