import CedarVerif.Util.Sexp
import CedarVerif.Cedar.SymCC
/- Driver op of C18: `(symcc SET [SET])`, SET = `(ps (EFFECT OUTCOME)…)`, EFFECT = permit | forbid,
   OUTCOME = sat | unsat | err — the CONCRETE outcome of each policy on one request and store (sent by the harness
   from Rust's evaluator).  The model takes the compile contract for granted (sat ↦ `some true`, unsat ↦ `some false`,
   err ↦ `none`; enforcer assumptions all `true`) and predicts the constant of every verification condition,
   for the plain compiler's builders (symcc/verifier.rs) and the optimised ones (symccopt/verifier.rs):

     (vc (symcc BLOCK) (symccopt BLOCK))
     BLOCK = (pols (NE AM NM)…) (sets (AA AD)…) (pair IMPLIES EQUIVALENT DISJOINT | -) (match IMPLIES EQUIVALENT DISJOINT | -)

   each entry `holds` (asserts unsatisfiable) or `fails`; `pols` lists the policies of the first set then of the second;
   `pair` needs two sets; `match` is the policy-level `verify_matches_*` trio for the first policy of each set
   (needs two non-empty sets). -/
namespace CedarVerif.Ops.SymCCOp
open CedarVerif Cedar.SymCC

def decEffect : Sexp → Option Effect
  | .atom "permit" => some .permit
  | .atom "forbid" => some .forbid
  | _ => none

/-- the compile contract on a literal environment -/
def decOutcome : Sexp → Option (Option Bool)
  | .atom "sat" => some (some true)
  | .atom "unsat" => some (some false)
  | .atom "err" => some none
  | _ => none

def decPolicy : Sexp → Option CPolicy
  | .list [e, o] => do some { effect := ← decEffect e, term := ← decOutcome o }
  | _ => none

def decPolicies : List Sexp → Option CPolicies
  | [] => some []
  | x :: xs => do let p ← decPolicy x; let ps ← decPolicies xs; some (p :: ps)

def decSet : Sexp → Option CPolicies
  | .list (.atom "ps" :: xs) => decPolicies xs
  | _ => none

def hf (b : Bool) : String := if b then "holds" else "fails"

def encPol (v : PolicyVCs) : String := s!"({hf v.neverErrors} {hf v.alwaysMatches} {hf v.neverMatches})"
def encSetV (v : SetVCs) : String := s!"({hf v.alwaysAllows} {hf v.alwaysDenies})"
def encPair (tag : String) (v : Option PairVCs) : String :=
  match v with
  | some v => s!"({tag} {hf v.implies} {hf v.equivalent} {hf v.disjoint})"
  | none => s!"({tag} -)"

def firstTerm : CPolicies → Option (Option Bool)
  | [] => none
  | p :: _ => some p.term

structure Fns where
  pol : Asserts → CPolicy → PolicyVCs
  set : Asserts → CPolicies → SetVCs
  pair : Asserts → CPolicies → CPolicies → PairVCs
  mtch : Asserts → Option Bool → Option Bool → PairVCs

def plain : Fns := { pol := policyVCs, set := setVCs, pair := pairVCs, mtch := matchVCs }
def opt : Fns := { pol := policyVCsOpt, set := setVCsOpt, pair := pairVCsOpt, mtch := matchVCsOpt }

/-- `enf` = [true] : on a literal environment built from a valid store the enforcer's assumption set folds to
    `{true}` (or is empty); by `Cedar.C18.enf_irrelevant` any all-true list gives the same constants -/
def block (f : Fns) (s1 : CPolicies) (s2 : Option CPolicies) : String :=
  let enf : Asserts := [true]
  let all := s1 ++ (s2.getD [])
  let pols := " ".intercalate (all.map fun p => encPol (f.pol enf p))
  let sets := " ".intercalate (([s1] ++ (match s2 with | some s => [s] | none => [])).map fun s => encSetV (f.set enf s))
  let pair := encPair "pair" (s2.map fun s => f.pair enf s1 s)
  let m := match s2 with
    | some s => (match firstTerm s1, firstTerm s with
      | some t1, some t2 => some (f.mtch enf t1 t2)
      | _, _ => none)
    | none => none
  s!"(pols{if all.isEmpty then "" else " "}{pols}) (sets {sets}) {pair} {encPair "match" m}"

def reply (s1 : CPolicies) (s2 : Option CPolicies) : String :=
  s!"(vc (symcc {block plain s1 s2}) (symccopt {block opt s1 s2}))"

def handleSymCC (x : Sexp) : Option String :=
  match x with
  | .list [.atom "symcc", a] =>
    match decSet a with
    | some s1 => some (reply s1 none)
    | none => some "(bad-op)"
  | .list [.atom "symcc", a, b] =>
    match decSet a, decSet b with
    | some s1, some s2 => some (reply s1 (some s2))
    | _, _ => some "(bad-op)"
  | _ => none

end CedarVerif.Ops.SymCCOp
