import CedarVerif.Driver.CodecSchema
import CedarVerif.Cedar.Manifest
import CedarVerif.Lemmas.ManifestCheck
/-
Driver ops of C17 (entity manifests):
  (manifest <schema> (rt "P" uid "R") <texpr>*)            → canonical trie | (unsupported) | (partial) | (mismatched) | (panic)
        the tries of the typed ASTs (one per request environment of this request type) unioned, then `to_typed`
  (mslice <schema> (rt "P" uid "R") <rtrie>|none <req> <entities>)   → canonical store | (error incompatible) | (panic)
        the trie as Rust serialises it (no node types: `to_typed` is re-run, as `EntityManifest::from_json_*` does)

  texpr ::= like the expression grammar of Codec.lean, plus (tbin op ty1 ty2 a b) and (tun isEmpty ty a)
            (`ty` in the grammar of CodecSchema.lean, or `untyped`)
  rtrie ::= (rtrie (root trie)*)          root ::= (var principal|action|resource|context) | (lit uid)
  trie  ::= (trie anc|noanc (children ("k" trie)*) rtrie)
  (mspec <schema> (rt …) <rtrie> <req> <entities>)          → (spec ok) | (spec FAILED …)
        the model's slice checked against the specification used by Thm/C17.lean (`subStoreB`, `coverRootsB`: sound
        checkers for `SubStore` / `CoverRoots`, Lemmas/ManifestCheck.lean) — samples `slicer_meets_spec` (now proved, Thm/C17.lean) on real inputs
Canonical printing sorts roots and children by their printed form.
-/
namespace CedarVerif.Ops.ManifestOps
open CedarVerif Cedar Cedar.Manifest

def decOptType : Sexp → Option (Option CedarType)
  | .atom "untyped" => some none
  | t => (decType t).map some

mutual
partial def decTExpr : Sexp → Option TExpr
  | .list [.atom "lit", v] => (decPrim v).map .lit
  | .list [.atom "var", .atom v] => (decVar v).map .var
  | .list [.atom "slot", .atom v] => (decSlot v).map .slot
  | .list [.atom "ite", c, t, e] => do some (.ite (← decTExpr c) (← decTExpr t) (← decTExpr e))
  | .list [.atom "and", a, b] => do some (.and (← decTExpr a) (← decTExpr b))
  | .list [.atom "or", a, b] => do some (.or (← decTExpr a) (← decTExpr b))
  | .list [.atom "un", .atom op, a] => do some (.unaryApp (← decUnary op) none (← decTExpr a))
  | .list [.atom "tun", .atom op, ty, a] => do some (.unaryApp (← decUnary op) (← decOptType ty) (← decTExpr a))
  | .list [.atom "bin", .atom op, a, b] => do some (.binaryApp (← decBinary op) none none (← decTExpr a) (← decTExpr b))
  | .list [.atom "tbin", .atom op, t1, t2, a, b] => do
    some (.binaryApp (← decBinary op) (← decOptType t1) (← decOptType t2) (← decTExpr a) (← decTExpr b))
  | .list (.atom "call" :: .str fn :: args) => do some (.call fn (← decTExprs args))
  | .list [.atom "get", e, .str a] => do some (.getAttr (← decTExpr e) a)
  | .list [.atom "has", e, .str a] => do some (.hasAttr (← decTExpr e) a)
  | .list [.atom "like", e, p] => do some (.like (← decTExpr e) (← decPattern p))
  | .list [.atom "is", e, .str t] => do some (.is (← decTExpr e) t)
  | .list (.atom "set" :: xs) => do some (.set (← decTExprs xs))
  | .list (.atom "rec" :: xs) => do some (.record (← decTExprKVs xs))
  | _ => none
partial def decTExprs : List Sexp → Option (List TExpr)
  | [] => some []
  | x :: xs => do let v ← decTExpr x; let vs ← decTExprs xs; some (v :: vs)
partial def decTExprKVs : List Sexp → Option (List (String × TExpr))
  | [] => some []
  | .list [.str k, x] :: xs => do let v ← decTExpr x; let vs ← decTExprKVs xs; some ((k, v) :: vs)
  | _ => none
end

def decRoot : Sexp → Option EntityRoot
  | .list [.atom "var", .atom v] => (decVar v).map .var
  | .list [.atom "lit", u] => (decUid u).map .literal
  | _ => none

mutual
partial def decTrie : Sexp → Option AccessTrie
  | .list [.atom "trie", .atom anc, .list (.atom "children" :: kids), rt] => do
    let i ← (match anc with | "anc" => some true | "noanc" => some false | _ => none)
    some (.mk (← decKids kids) (← decRTrie rt) i false)
  | _ => none
partial def decKids : List Sexp → Option Fields
  | [] => some []
  | .list [.str k, t] :: rest => do some ((k, ← decTrie t) :: (← decKids rest))
  | _ => none
partial def decRTrie : Sexp → Option RootAccessTrie
  | .list (.atom "rtrie" :: roots) => decRoots roots
  | _ => none
partial def decRoots : List Sexp → Option RootAccessTrie
  | [] => some []
  | .list [r, t] :: rest => do some ((← decRoot r, ← decTrie t) :: (← decRoots rest))
  | _ => none
end

def decReqType : Sexp → Option ReqType
  | .list [.atom "rt", .str p, a, .str r] => do some { principal := p, action := ← decUid a, resource := r }
  | _ => none

def encVar : Var → String
  | .principal => "principal" | .action => "action" | .resource => "resource" | .context => "context"

def encRoot : EntityRoot → String
  | .var v => "(var " ++ encVar v ++ ")"
  | .literal u => "(lit " ++ (encUid u).toString ++ ")"

/-- sort (key, text) pairs by key, then by text -/
def sortPairs (xs : List (String × String)) : List String :=
  let ins (x : String × String) : List (String × String) → List (String × String) :=
    fun l =>
      let rec go : List (String × String) → List (String × String)
        | [] => [x]
        | y :: ys => if x.1 < y.1 || (x.1 == y.1 && x.2 ≤ y.2) then x :: y :: ys else y :: go ys
      go l
  (xs.foldr ins []).map (·.2)

mutual
partial def encTrie : AccessTrie → String
  | .mk c a i _ =>
    let kids := sortPairs (c.map (fun (k, t) => (k, "(" ++ (Sexp.str k).toString ++ " " ++ encTrie t ++ ")")))
    "(trie " ++ (if i then "anc" else "noanc") ++ " (children" ++ String.join (kids.map (" " ++ ·)) ++ ") " ++ encRTrie a ++ ")"
partial def encRTrie (r : RootAccessTrie) : String :=
  let roots := sortStrings (r.map (fun (k, t) => "(" ++ encRoot k ++ " " ++ encTrie t ++ ")"))
  "(rtrie" ++ String.join (roots.map (" " ++ ·)) ++ ")"
end

def encKVs (kvs : List (String × Value)) : String :=
  String.join ((sortPairs (kvs.map (fun (k, v) => (k, "(" ++ (Sexp.str k).toString ++ " " ++ encValue v ++ ")")))).map (" " ++ ·))

/-- the store as `sx::entities` prints it: entities sorted by printed uid, attrs by key, ancestors sorted -/
def encEntities (es : Entities) : String :=
  let ents := es.map (fun (u, d) =>
    let us := (encUid u).toString
    (us, "(ent " ++ us ++ " (attrs" ++ encKVs d.attrs ++ ") (anc" ++
      String.join ((dedupSorted (sortStrings (d.ancestors.map (fun a => (encUid a).toString)))).map (" " ++ ·)) ++
      ") (tags" ++ encKVs d.tags ++ "))"))
  "(entities" ++ String.join ((sortPairs ents).map (" " ++ ·)) ++ ")"

def encMErr : MErr → String
  | .unsupported => "(unsupported)"
  | .partialExpr => "(partial)"
  | .mismatched => "(mismatched)"
  | .panic _ => "(panic)"

def handleManifest (x : Sexp) : Option String :=
  match x with
  | .list (.atom "manifest" :: s :: rt :: es) =>
    match decSchema s, decReqType rt with
    | some s, some rt =>
      -- `unknown` is not in the line grammar: lines with unknowns are not emitted
      match decTExprs es with
      | some es =>
        some (match manifestOfEnvs s rt es with
          | .ok t => encRTrie t
          | .error e => encMErr e)
      | none => some "(bad-op)"
    | _, _ => some "(bad-op)"
  | .list [.atom "mslice", s, rt, trie, req, ents] =>
    match decSchema s, decReqType rt, decRequest req, decEntities ents with
    | some s, some rt, some req, some ents =>
      let t : Option (Option RootAccessTrie) := match trie with
        | .atom "none" => some none
        | t => (decRTrie t).map some
      match t with
      | none => some "(bad-op)"
      | some none => some (match sliceStore none req ents with | .ok es => encEntities es | .error _ => "(panic)")
      | some (some t) =>
        some (match toTypedRoots s rt t with
          | .error e => encMErr e
          | .ok t =>
            match sliceStore (some t) req ents with
            | .ok es => encEntities es
            | .error .incompatible => "(error incompatible)"
            | .error (.panic _) => "(panic)")
    | _, _, _, _ => some "(bad-op)"
  | .list [.atom "mspec", s, rt, trie, req, ents] =>
    match decSchema s, decReqType rt, decRTrie trie, decRequest req, decEntities ents with
    | some s, some rt, some t, some req, some ents =>
      some (match toTypedRoots s rt t with
        | .error e => encMErr e
        | .ok t =>
          match sliceFault t req ents with
          | some _ => "(spec fault)"
          | none =>
            let es' := sliceStorePure t req ents
            let a := subStoreB ents es'
            let b := coverRootsB ents es' req t
            if a && b then "(spec ok)" else s!"(spec FAILED substore={a} cover={b})")
    | _, _, _, _, _ => some "(bad-op)"
  | _ => none

end CedarVerif.Ops.ManifestOps
