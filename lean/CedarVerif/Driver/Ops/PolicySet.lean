import CedarVerif.Driver.Codec
import CedarVerif.Cedar.PolicySet
/-
Driver ops for C08: `pset` (a whole history of policy-set operations on two registers, through the core
model or the API-layer model; the reply lists after each op the outcome, the renaming, the sorted listing
and the authorization responses on the given requests) and `linkeq` (a linked policy vs. its substituted
static policy). Glue code, not subject to theorems.
-/
namespace CedarVerif.Ops
open CedarVerif Cedar

def decRef : Sexp → Option EntityRef
  | .atom "slot" => some .slot
  | x => (decUid x).map .euid

def decScopeC : Sexp → Option ScopeC
  | .atom "any" => some .any
  | .list [.atom "eq", r] => (decRef r).map .eq
  | .list [.atom "in", r] => (decRef r).map .mem
  | .list [.atom "is", .str t] => some (.is t)
  | .list [.atom "isin", .str t, r] => (decRef r).map (.isIn t)
  | _ => none

def decActionC : Sexp → Option ActionC
  | .atom "any" => some .any
  | .list [.atom "eq", u] => (decUid u).map .eq
  | .list (.atom "in" :: us) => (us.mapM decUid).map .mem
  | _ => none

def decAnnos : Sexp → Option (List (String × String))
  | .list (.atom "annos" :: xs) => xs.mapM (fun x => match x with
      | .list [.str k, .str v] => some (k, v)
      | _ => none)
  | _ => none

def decBody : Sexp → Option TemplateBody
  | .list [.atom "body", .str id, eff, annos, pc, ac, rc, ns] => do
    let ns ← match ns with
      | .atom "none" => some none
      | e => (decExpr e).map some
    some { id := id, effect := ← decEffect eff, annotations := ← decAnnos annos, principalC := ← decScopeC pc,
           actionC := ← decActionC ac, resourceC := ← decScopeC rc, nonScope := ns }
  | _ => none

def decTemplate : Sexp → Option Template
  | .list [.atom "tpl", b, .list (.atom "slots" :: ss)] => do
    let ss ← ss.mapM (fun s => match s with | .atom a => decSlot a | _ => none)
    some { body := ← decBody b, slots := ss }
  | _ => none

def decSlotVals (x : Sexp) : Option SlotVals := do
  let env ← decSlotEnv x
  some { principal := env.lookup .principal, resource := env.lookup .resource }

inductive HOp where
  | addStatic (w : Nat) (b : TemplateBody)
  | add (w : Nat) (b : TemplateBody)
  | addLinked (w : Nat) (t : Template) (lid : String) (vals : SlotVals)
  | addT (w : Nat) (t : Template)
  | link (w : Nat) (tid lid : String) (vals : SlotVals)
  | unlink (w : Nat) (id : String)
  | rmStatic (w : Nat) (id : String)
  | rmTemplate (w : Nat) (id : String)
  | merge (w : Nat) (rename : Bool)

def decHOp : Sexp → Option HOp
  | .list [.atom "addstatic", w, b] => do some (.addStatic (← w.asNat?) (← decBody b))
  | .list [.atom "add", w, b] => do some (.add (← w.asNat?) (← decBody b))
  | .list [.atom "addlinked", w, t, .str lid, env] => do some (.addLinked (← w.asNat?) (← decTemplate t) lid (← decSlotVals env))
  | .list [.atom "addt", w, t] => do some (.addT (← w.asNat?) (← decTemplate t))
  | .list [.atom "link", w, .str tid, .str lid, env] => do some (.link (← w.asNat?) tid lid (← decSlotVals env))
  | .list [.atom "unlink", w, .str id] => do some (.unlink (← w.asNat?) id)
  | .list [.atom "rmstatic", w, .str id] => do some (.rmStatic (← w.asNat?) id)
  | .list [.atom "rmtemplate", w, .str id] => do some (.rmTemplate (← w.asNat?) id)
  | .list [.atom "merge", w, .atom "true"] => do some (.merge (← w.asNat?) true)
  | .list [.atom "merge", w, .atom "false"] => do some (.merge (← w.asNat?) false)
  | _ => none

def encErrKind : PSError → String
  | .occupied => "occupied" | .arity => "arity" | .noSuchTemplate => "noSuchTemplate" | .idConflict => "idConflict"
  | .unlinkMissing => "unlinkMissing" | .notLink => "notLink" | .rmtNoTemplate => "rmtNoTemplate"
  | .rmtWithLinks => "rmtWithLinks" | .rmtNotTemplate => "rmtNotTemplate" | .rmsNoLink => "rmsNoLink"
  | .rmsNoTemplate => "rmsNoTemplate" | .alreadyDefined => "alreadyDefined" | .expectedStatic => "expectedStatic"
  | .expectedTemplate => "expectedTemplate" | .policyNonexistent => "policyNonexistent"
  | .templateNonexistent => "templateNonexistent" | .removeTemplateWithActiveLinks => "removeTemplateWithActiveLinks"
  | .removeTemplateNotTemplate => "removeTemplateNotTemplate" | .linkNonexistent => "linkNonexistent"
  | .unlinkLinkNotLink => "unlinkLinkNotLink" | .panic _ => "panic"

def qs (s : String) : String := (Sexp.str s).toString

def encEffect : Effect → String
  | .permit => "permit" | .forbid => "forbid"

def encAnnos (a : List (String × String)) : String :=
  "(annos" ++ String.join (a.map (fun (k, v) => " (" ++ qs k ++ " " ++ qs v ++ ")")) ++ ")"

def encVals (v : SlotVals) : String :=
  "(env" ++ (match v.principal with | some u => " (principal " ++ (encUid u).toString ++ ")" | none => "") ++
  (match v.resource with | some u => " (resource " ++ (encUid u).toString ++ ")" | none => "") ++ ")"

def encSlotName : SlotId → String
  | .principal => "principal" | .resource => "resource"

def encPolicyEntry (id : String) (p : TPolicy) : String :=
  "(p " ++ qs id ++ " " ++ (if p.isStatic then "static" else "link") ++ " " ++ qs p.template.id ++ " " ++
  encEffect p.template.effect ++ " " ++ encAnnos p.template.body.annotations ++ " " ++ encVals p.values ++ ")"

def encTemplateEntry (t : Template) : String :=
  "(t " ++ qs t.id ++ " " ++ encEffect t.effect ++ " " ++ encAnnos t.body.annotations ++ " (slots" ++
  String.join ((sortStrings (t.slots.map encSlotName)).map (" " ++ ·)) ++ "))"

def encL2 (tid : String) (ids : List String) : String :=
  "(l2 " ++ qs tid ++ " " ++ encIds ids ++ ")"

/-- core listing: `policies()`, `templates()` (slots ≠ 0), `all_templates()` ids, `get_linked_policies` per template -/
def coreListing (ps : PolicySet) : String :=
  let ents := ps.links.map (fun e => encPolicyEntry e.2.id e.2) ++
    (ps.templates.filter (fun e => !e.2.slots.isEmpty)).map (fun e => encTemplateEntry e.2) ++
    ps.templates.map (fun e => "(at " ++ qs e.2.id ++ ")") ++
    ps.templates.map (fun e => match ps.t2l.get? e.2.id with
      | some s => encL2 e.2.id s
      | none => "(l2 " ++ qs e.2.id ++ " missing)")
  "(listing" ++ String.join ((sortStrings ents).map (" " ++ ·)) ++ ")"

/-- API listing: `policies()`, `templates()`, `get_linked_policies` per template -/
def apiListing (s : ApiPolicySet) : String :=
  let ents := s.policies.map (fun e => encPolicyEntry e.2.id e.2) ++
    s.templates.map (fun e => encTemplateEntry e.2) ++
    s.templates.map (fun e => match s.ast.t2l.get? e.2.id with
      | some l => encL2 e.2.id l
      | none => "(l2 " ++ qs e.2.id ++ " missing)")
  "(listing" ++ String.join ((sortStrings ents).map (" " ++ ·)) ++ ")"

def encRen (r : List (String × String)) : String :=
  "(ren" ++ String.join ((sortStrings (r.map (fun (a, b) => "(" ++ qs a ++ " " ++ qs b ++ ")"))).map (" " ++ ·)) ++ ")"

def encStep {σ} (st : Step σ) (listing : σ → String) (auth : σ → List String) : String :=
  match st.err with
  | some (.panic _) => "(step panic)"
  | some e => "(step " ++ encErrKind e ++ " " ++ encRen st.rename ++ " " ++ listing st.ps ++ String.join ((auth st.ps).map (" " ++ ·)) ++ ")"
  | none => "(step ok " ++ encRen st.rename ++ " " ++ listing st.ps ++ String.join ((auth st.ps).map (" " ++ ·)) ++ ")"

def coreApply (a b : PolicySet) : HOp → Nat × Step PolicySet
  | .addStatic w x => (w, (if w == 0 then a else b).addStatic x)
  | .add w x => (w, (if w == 0 then a else b).add (linkStaticPolicy x).2)
  | .addLinked w t lid vals => (w, match t.link lid vals with
      | some p => (if w == 0 then a else b).add p
      | none => { ps := (if w == 0 then a else b), err := some .arity })
  | .addT w t => (w, (if w == 0 then a else b).addTemplate t)
  | .link w tid lid vals => (w, (if w == 0 then a else b).link tid lid vals)
  | .unlink w id => (w, (if w == 0 then a else b).unlink id)
  | .rmStatic w id => (w, (if w == 0 then a else b).removeStatic id)
  | .rmTemplate w id => (w, (if w == 0 then a else b).removeTemplate id)
  | .merge w r => (w, if w == 0 then a.merge b r else b.merge a r)

def apiApply (a b : ApiPolicySet) : HOp → Nat × Step ApiPolicySet
  | .addStatic w x => (w, (if w == 0 then a else b).add (linkStaticPolicy x).2)
  | .add w x => (w, (if w == 0 then a else b).add (linkStaticPolicy x).2)
  | .addLinked w t lid vals => (w, match t.link lid vals with
      | some p => (if w == 0 then a else b).add p
      | none => { ps := (if w == 0 then a else b), err := some .arity })
  | .addT w t => (w, (if w == 0 then a else b).addTemplate t)
  | .link w tid lid vals => (w, (if w == 0 then a else b).link tid lid vals)
  | .unlink w id => (w, (if w == 0 then a else b).unlink id)
  | .rmStatic w id => (w, (if w == 0 then a else b).removeStatic id)
  | .rmTemplate w id => (w, (if w == 0 then a else b).removeTemplate id)
  | .merge w r => (w, if w == 0 then a.merge b r else b.merge a r)

def runHist {σ} (apply : σ → σ → HOp → Nat × Step σ) (listing : σ → String) (auth : σ → List String) :
    List HOp → σ → σ → List String → List String
  | [], _, _, acc => acc.reverse
  | op :: ops, a, b, acc =>
    let (w, st) := apply a b op
    let acc := encStep st listing auth :: acc
    match st.err with
    | some (.panic _) => acc.reverse
    | _ => if w == 0 then runHist apply listing auth ops st.ps b acc else runHist apply listing auth ops a st.ps acc

def handlePSet (x : Sexp) : Option String :=
  match x with
  | .list [.atom "pset", .atom layer, .list (.atom "ops" :: ops), .list (.atom "reqs" :: reqs), ents] =>
    match ops.mapM decHOp, reqs.mapM decRequest, decEntities ents with
    | some ops, some reqs, some ents =>
      if layer == "core" then
        let auth := fun (ps : PolicySet) => reqs.map (fun r => encResponse (ps.authorize r ents))
        some ("(hist" ++ String.join ((runHist coreApply coreListing auth ops {} {} []).map (" " ++ ·)) ++ ")")
      else if layer == "api" then
        let auth := fun (ps : ApiPolicySet) => reqs.map (fun r => encResponse (ps.authorize r ents))
        some ("(hist" ++ String.join ((runHist apiApply apiListing auth ops {} {} []).map (" " ++ ·)) ++ ")")
      else some "(bad-op)"
    | _, _, _ => some "(bad-op)"
  | .list [.atom "linkeq", t, .str lid, env, req, ents, cond, sbody] =>
    match decTemplate t, decSlotVals env, decRequest req, decEntities ents, decExpr cond, decBody sbody with
    | some t, some vals, some req, some ents, some cond, some sbody =>
      match t.link lid vals with
      | none => some "(linkeq arity)"
      | some p =>
        let sub := t.substitute vals lid
        let r1 := evaluate req ents p.values.toEnv p.template.condition
        let r2 := evaluate req ents [] sub.condition
        let lp := p.toPolicy
        let sp : Policy := { id := lid, effect := sub.effect, condition := sub.condition, env := [] }
        some ("(linkeq " ++ encResult r1 ++ " " ++ encResult r2 ++ " " ++ toString (Expr.beq cond t.condition) ++ " " ++
          toString (sub.beq sbody) ++ " " ++ encResponse (isAuthorized req ents [lp]) ++ " " ++
          encResponse (isAuthorized req ents [sp]) ++ ")")
    | _, _, _, _, _, _ => some "(bad-op)"
  | _ => none

end CedarVerif.Ops
