import CedarVerif.Util.Sexp
import CedarVerif.Driver.Codec
import CedarVerif.Cedar.SymCompile
/- Driver op of C18 (compiler fragment): `(symc REQ (etys ETY…) EXPR)`,
   REQ = `(req p a r (ctx …))`, ETY = `(std "Type")` (standard entity type: every eid valid) | `(enum "Type" "eid"…)`
   (enumerated / action type: `SymEntityData::members`), EXPR in the expression grammar.
   Reply: the term `Cedar.SymC.compile` produces on the literal environment, which must be a folded literal option term:
     (some (b true)) | (some (i 3)) | (some (s "x")) | (some (e "T" "id")) | (none) | (reject) (= CompileError::TypeError)
   Second form `(symc REQ (etys …) (ctxty ("attr" req|opt bool|long|string|(entity "T"))…) EXPR)` (attributes sorted by
   name): the context term is `ctxTermOf REQ.context ctxty` (= `Term::from_value`), the fragment is `SFrag2`
   (+ `context`, `e.a`, `e has a`); `(some (rec))` is printed for a folded record term.
   THIRD fragment (`SFrag3`, the 5-argument form): set literals, `contains containsAll containsAny isEmpty`, set `==`;
   a folded set term is printed `(some (set ELT…))` with the element encodings sorted as strings (canonical on both sides).
   `(outside-model)` for expressions outside the declared fragment `SFrag` / `SFrag2`; `(nonliteral)` can never be printed
   (theorem `compile_correct_fragment`) and would be a diff. -/
namespace CedarVerif.Ops.SymCompileOp
open CedarVerif Cedar Cedar.SymC

def decEty : Sexp → Option (EntityType × Option (List String))
  | .list [.atom "std", .str ty] => some (ty, none)
  | .list (.atom "enum" :: .str ty :: ids) => do
    let ids ← ids.mapM Sexp.asStr?
    some (ty, some ids)
  | _ => none

def encPrimTerm : TermPrim → String
  | .bool b => encValue (.prim (.bool b))
  | .bitvec bv => encValue (.prim (.int bv.toInt))
  | .string s => encValue (.prim (.string s))
  | .entity u => encValue (.prim (.entityUID u))

def decCtxAttrTy : Sexp → Option CtxAttrTy
  | .atom "bool" => some .bool
  | .atom "long" => some .long
  | .atom "string" => some .string
  | .list [.atom "entity", .str ty] => some (.entity ty)
  | _ => none

def decCtxAttr : Sexp → Option (String × CtxAttrTy × Bool)
  | .list [.str a, .atom "req", ty] => do let ty ← decCtxAttrTy ty; some (a, ty, true)
  | .list [.str a, .atom "opt", ty] => do let ty ← decCtxAttrTy ty; some (a, ty, false)
  | _ => none

def encElt : Term → String
  | .prim p => encPrimTerm p
  | _ => "(nonprim)"

def encFolded : CResult → String
  | .ok (.some (.setNil _)) => "(some (set))"
  | .ok (.some (.setCons t rest)) =>
    "(some (set" ++ String.join ((sortStrings ((t :: setElts rest).map encElt)).map (" " ++ ·)) ++ "))"
  | .ok (.some (.prim p)) => "(some " ++ encPrimTerm p ++ ")"
  | .ok (.some .recNil) => "(some (rec))"
  | .ok (.some (.recCons _ _ _)) => "(some (rec))"
  | .error .noSuchAttr => "(reject)"
  | .ok (.none _) => "(none)"
  | .ok _ => "(nonliteral)"
  | .error .typeError => "(reject)"
  | .error .unsupported => "(reject)"
  | .error .outside => "(outside-model)"

def handleSymC (x : Sexp) : Option String :=
  match x with
  | .list [.atom "symc", req, .list (.atom "etys" :: etys), e] =>
    match decRequest req, etys.mapM decEty, decExpr e with
    | some req, some etys, some e =>
      if inFrag e then some (encFolded (compile (litEnv req etys) e)) else some "(outside-model)"
    | _, _, _ => some "(bad-op)"
  | .list [.atom "symc", req, .list (.atom "etys" :: etys), .list (.atom "ctxty" :: attrs), e] =>
    match decRequest req, etys.mapM decEty, attrs.mapM decCtxAttr, decExpr e with
    | some req, some etys, some attrs, some e =>
      if inFrag3 e then
        match ctxTermOf req.context attrs with
        | some ctxT => some (encFolded (compile (litEnv2 req etys ctxT) e))
        | none => some "(outside-model)"
      else some "(outside-model)"
    | _, _, _, _ => some "(bad-op)"
  | _ => none

end CedarVerif.Ops.SymCompileOp
