import CedarVerif.Driver.Ops.Syntax
import CedarVerif.Driver.Ops.PolicySet
import CedarVerif.Cedar.Syntax.PolicyParse
import CedarVerif.Cedar.Syntax.Lex
/-
Driver ops of the policy-level syntax model (C05):
  (polprint <body> (tokens …))     → (same) | (diff (tokens …model…))   `printPolicy` vs the given tokens (string tokens by value)
  (polparse "<id>" (tokens …))     → (ok <body>) | (none)               `parsePolicy`
  (lex "<text>")                   → (tokens …) | (lexerr)              the model lexer `Cedar.Syntax.lex` (numbers by value)
  (lexpolparse "<id>" "<text>")    → (ok <body>) | (none)               `lex` then `parsePolicy`: text → AST without any harness tokenizer
`<body>` is the C08 encoding `(body "id" effect (annos …) pc ac rc nonscope|none)` (harness/src/c08.rs `body_sx`).
Glue code, not subject to theorems.
-/
namespace CedarVerif.Ops.SynPol
open CedarVerif CedarVerif.Ops Cedar Cedar.Syntax

def encRef : EntityRef → String
  | .slot => "slot"
  | .euid u => (encUid u).toString

def encScopeC : ScopeC → String
  | .any => "any"
  | .eq r => "(eq " ++ encRef r ++ ")"
  | .mem r => "(in " ++ encRef r ++ ")"
  | .is t => "(is " ++ q t ++ ")"
  | .isIn t r => "(isin " ++ q t ++ " " ++ encRef r ++ ")"

def encActionC : ActionC → String
  | .any => "any"
  | .eq u => "(eq " ++ (encUid u).toString ++ ")"
  | .mem us => "(in" ++ String.join (us.map (fun u => " " ++ (encUid u).toString)) ++ ")"

def encBody (b : TemplateBody) : String :=
  "(body " ++ q b.id ++ " " ++ encEffect b.effect ++ " " ++ encAnnos b.annotations ++ " " ++ encScopeC b.principalC ++ " " ++
    encActionC b.actionC ++ " " ++ encScopeC b.resourceC ++ " " ++
    (match b.nonScope with | none => "none" | some e => encExpr e) ++ ")"

def handleSyntaxPolicy (x : Sexp) : Option String :=
  match x with
  | .list [.atom "polprint", b, ts] =>
    match decBody b, decTokens ts with
    | some b, some ts =>
      let mine := printPolicy asciiEscape b
      some (if sameTokens false mine ts then "(same)" else "(diff " ++ encTokens mine ++ ")")
    | _, _ => some "(bad-op)"
  | .list [.atom "polparse", .str id, ts] =>
    match decTokens ts with
    | some ts => some (match parsePolicy id ts with | some b => "(ok " ++ encBody b ++ ")" | none => "(none)")
    | none => some "(bad-op)"
  | .list [.atom "lex", .str text] =>
    some (match lex text.toList with | some ts => encTokens ts | none => "(lexerr)")
  | .list [.atom "lexpolparse", .str id, .str text] =>
    some (match (lex text.toList).bind (parsePolicy id) with | some b => "(ok " ++ encBody b ++ ")" | none => "(none)")
  | _ => none

end CedarVerif.Ops.SynPol
