import CedarVerif.Util.Sexp
import CedarVerif.Cedar.Fmt
/- Driver op of the formatter model (C12): `(fmt-tokens "text")` = the token stream with attached comments
   as computed by the mirror of `lexer.rs::get_token_stream`. -/
namespace CedarVerif.Ops
open CedarVerif Cedar.Fmt

def encChars (c : List Char) : Sexp := .str (String.ofList c)

def encWTok (t : WTok) : Sexp :=
  .list [.atom "t", .atom t.kind, encChars t.text, .list (t.leading.map encChars), encChars t.trailing]

/-- `none` = not one of this module's ops -/
def handleFmt (x : Sexp) : Option String :=
  match x with
  | .list [.atom "fmt-tokens", .str text] =>
    match tokenStream text.toList with
    | none => some "(lex-error)"
    | some (ts, eof) =>
      some (toString (Sexp.list (.atom "toks" :: (ts.map encWTok ++ [.list (.atom "eof" :: eof.map encChars)]))))
  | .list (.atom "fmt-tokens" :: _) => some "(bad-op)"
  | _ => none

end CedarVerif.Ops
