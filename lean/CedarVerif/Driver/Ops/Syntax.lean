import CedarVerif.Driver.Codec
import CedarVerif.Cedar.Syntax.Parse
/-
Driver ops of the syntax model (C05):
  (print <expr>)                         → (tokens …)           `Print.expr` with the ASCII instance of `mustEscape`
  (print-check <expr> (tokens …))        → (same) | (diff (tokens …model…))   model print vs given tokens; string
                                            tokens are compared by their unescaped value (pattern after `like`)
  (parse (tokens …))                     → (ok <expr>) | (none)
  (unescape str|pat "<raw>")             → (ok (s "…")) | (ok (pat …)) | (err Kind)
  (ext-styles (fn "…")|(meth "…") …)     → (same) | (diff)      the call-style table
Token encoding: (id "x") (num 12) (str "raw") (slot "?principal") and bare atoms for punctuation.
-/
namespace CedarVerif.Ops
open CedarVerif Cedar Cedar.Syntax

def punctTable : List (String × Token) := [
  ("at", .at), ("dot", .dot), ("comma", .comma), ("semi", .semi), ("colon", .colon), ("dcolon", .dcolon),
  ("lparen", .lparen), ("rparen", .rparen), ("lbrace", .lbrace), ("rbrace", .rbrace), ("lbrack", .lbrack), ("rbrack", .rbrack),
  ("eqeq", .eqeq), ("neq", .neq), ("lt", .lt), ("le", .le), ("ge", .ge), ("gt", .gt), ("oror", .oror), ("andand", .andand),
  ("plus", .plus), ("minus", .minus), ("star", .star), ("slash", .slash), ("percent", .percent), ("bang", .bang), ("eq", .eq)]

def decToken : Sexp → Option Token
  | .list [.atom "id", .str s] => some (.ident s)
  | .list [.atom "num", .atom n] => n.toNat?.map .num
  | .list [.atom "str", .str s] => some (.str s.toList)
  | .list [.atom "slot", .str s] => some (.slot s)
  | .atom a => (punctTable.find? (fun p => p.1 == a)).map (·.2)
  | _ => none

def decTokens : Sexp → Option (List Token)
  | .list (.atom "tokens" :: xs) => xs.mapM decToken
  | _ => none

def encToken : Token → String
  | .ident s => "(id " ++ (Sexp.str s).toString ++ ")"
  | .num n => s!"(num {n})"
  | .str raw => "(str " ++ (Sexp.str (String.ofList raw)).toString ++ ")"
  | .slot s => "(slot " ++ (Sexp.str s).toString ++ ")"
  | t => match punctTable.find? (fun p => p.2 == t) with
    | some p => p.1
    | none => "?"

def encTokens (ts : List Token) : String :=
  "(tokens" ++ String.join (ts.map (fun t => " " ++ encToken t)) ++ ")"

def q (s : String) : String := (Sexp.str s).toString

def encVar : Var → String
  | .principal => "principal" | .action => "action" | .resource => "resource" | .context => "context"
def encUnary : UnaryOp → String
  | .not => "not" | .neg => "neg" | .isEmpty => "isEmpty"
def encBinary : BinaryOp → String
  | .eq => "eq" | .less => "less" | .lessEq => "lessEq" | .add => "add" | .sub => "sub" | .mul => "mul" | .mem => "in"
  | .contains => "contains" | .containsAll => "containsAll" | .containsAny => "containsAny" | .getTag => "getTag" | .hasTag => "hasTag"
def encTyAnn : TyAnn → String
  | .bool => "bool" | .long => "long" | .string => "string" | .set => "set" | .record => "record"
  | .entity t => "(entity " ++ q t ++ ")" | .ext t => "(ext " ++ q t ++ ")"
def encPrim : Prim → String
  | .bool b => s!"(b {b})"
  | .int i => s!"(i {i})"
  | .string s => "(s " ++ q s ++ ")"
  | .entityUID u => "(e " ++ q u.ty ++ " " ++ q u.eid ++ ")"
def encPattern (p : Pattern) : String :=
  "(pat" ++ String.join (p.map (fun e => match e with | .star => " star" | .char c => s!" {c.toNat}")) ++ ")"

/-- the protocol's expression syntax (harness/src/sx.rs `expr`) -/
partial def encExpr : Expr → String
  | .lit p => "(lit " ++ encPrim p ++ ")"
  | .var v => "(var " ++ encVar v ++ ")"
  | .slot s => "(slot " ++ (match s with | .principal => "principal" | .resource => "resource") ++ ")"
  | .unknown n none => "(unk " ++ q n ++ ")"
  | .unknown n (some t) => "(unk " ++ q n ++ " " ++ encTyAnn t ++ ")"
  | .ite c t e => "(ite " ++ encExpr c ++ " " ++ encExpr t ++ " " ++ encExpr e ++ ")"
  | .and a b => "(and " ++ encExpr a ++ " " ++ encExpr b ++ ")"
  | .or a b => "(or " ++ encExpr a ++ " " ++ encExpr b ++ ")"
  | .unaryApp op a => "(un " ++ encUnary op ++ " " ++ encExpr a ++ ")"
  | .binaryApp op a b => "(bin " ++ encBinary op ++ " " ++ encExpr a ++ " " ++ encExpr b ++ ")"
  | .call fn args => "(call " ++ q fn ++ String.join (args.map (fun a => " " ++ encExpr a)) ++ ")"
  | .getAttr e a => "(get " ++ encExpr e ++ " " ++ q a ++ ")"
  | .hasAttr e a => "(has " ++ encExpr e ++ " " ++ q a ++ ")"
  | .like e p => "(like " ++ encExpr e ++ " " ++ encPattern p ++ ")"
  | .is e t => "(is " ++ encExpr e ++ " " ++ q t ++ ")"
  | .set es => "(set" ++ String.join (es.map (fun a => " " ++ encExpr a)) ++ ")"
  | .record kvs => "(rec" ++ String.join (kvs.map (fun kv => " (" ++ q kv.1 ++ " " ++ encExpr kv.2 ++ ")")) ++ ")"

/-- the instance of `mustEscape` used by the driver: everything outside printable ASCII -/
def asciiEscape (c : Char) : Bool := c.toNat < 32 || c.toNat ≥ 127

def encEscErr : EscErr → String
  | .LoneSlash => "LoneSlash" | .InvalidEscape => "InvalidEscape" | .BareCarriageReturn => "BareCarriageReturn"
  | .EscapeOnlyChar => "EscapeOnlyChar" | .TooShortHexEscape => "TooShortHexEscape"
  | .InvalidCharInHexEscape => "InvalidCharInHexEscape" | .OutOfRangeHexEscape => "OutOfRangeHexEscape"
  | .NoBraceInUnicodeEscape => "NoBraceInUnicodeEscape" | .InvalidCharInUnicodeEscape => "InvalidCharInUnicodeEscape"
  | .EmptyUnicodeEscape => "EmptyUnicodeEscape" | .UnclosedUnicodeEscape => "UnclosedUnicodeEscape"
  | .LeadingUnderscoreUnicodeEscape => "LeadingUnderscoreUnicodeEscape" | .OverlongUnicodeEscape => "OverlongUnicodeEscape"
  | .LoneSurrogateUnicodeEscape => "LoneSurrogateUnicodeEscape" | .OutOfRangeUnicodeEscape => "OutOfRangeUnicodeEscape"

/-- token lists equal up to the spelling of escapes inside string tokens -/
def sameTokens : Bool → List Token → List Token → Bool
  | _, [], [] => true
  | afterLike, .str a :: as, .str b :: bs =>
    (if afterLike then
      match unescapePattern a, unescapePattern b with
      | .ok x, .ok y => x == y
      | _, _ => false
    else
      match unescapeStr a, unescapeStr b with
      | .ok x, .ok y => x == y
      | _, _ => false) && sameTokens false as bs
  | _, a :: as, b :: bs => a == b && sameTokens (a == .ident "like") as bs
  | _, _, _ => false

def insertS (s : String) : List String → List String
  | [] => [s]
  | x :: xs => if s ≤ x then s :: x :: xs else x :: insertS s xs

def handleSyntax (x : Sexp) : Option String :=
  match x with
  | .list [.atom "print", e] =>
    match decExpr e with
    | some e => some (encTokens (Print.expr asciiEscape e))
    | none => some "(bad-op)"
  | .list [.atom "print-check", e, ts] =>
    match decExpr e, decTokens ts with
    | some e, some ts =>
      let mine := Print.expr asciiEscape e
      some (if sameTokens false mine ts then "(same)" else "(diff " ++ encTokens mine ++ ")")
    | _, _ => some "(bad-op)"
  | .list [.atom "parse", ts] =>
    match decTokens ts with
    | some ts => some (match Parse.expr ts with | some e => "(ok " ++ encExpr e ++ ")" | none => "(none)")
    | none => some "(bad-op)"
  | .list [.atom "unescape", .atom "str", .str raw] =>
    some (match unescapeStr raw.toList with
      | .ok cs => "(ok (s " ++ q (String.ofList cs) ++ "))"
      | .error e => "(err " ++ encEscErr e ++ ")")
  | .list [.atom "unescape", .atom "pat", .str raw] =>
    some (match unescapePattern raw.toList with
      | .ok p => "(ok " ++ encPattern p ++ ")"
      | .error e => "(err " ++ encEscErr e ++ ")")
  | .list (.atom "ext-styles" :: xs) =>
    let given := xs.filterMap (fun x => match x with
      | .list [.atom k, .str n] => some (k ++ " " ++ n)
      | _ => none)
    let mine := (extFunctions.map ("fn " ++ ·)) ++ (extMethods.map ("meth " ++ ·))
    some (if given.length == xs.length && given.foldr insertS [] == mine.foldr insertS [] then "(same)" else "(diff)")
  | _ => none

end CedarVerif.Ops
