import CedarVerif.Driver.Codec
import CedarVerif.Cedar.SetRepr
/- Driver ops of the core model: eval, auth, like, ext (C01, C02, C07). -/
namespace CedarVerif.Ops
open CedarVerif Cedar

def encIdx : IdxOutcome → String
  | .result b => toString b
  | .panic s => "panic:" ++ s
  | .fuel => "fuel"

/-- `none` = not one of this module's ops -/
def handleCore (x : Sexp) : Option String :=
  match x with
  | .list [.atom "eval", req, ents, env, e] =>
    match decRequest req, decEntities ents, decSlotEnv env, decExpr e with
    | some req, some ents, some env, some e => some (encResult (evaluate req ents env e))
    | _, _, _, _ => some "(bad-op)"
  | .list [.atom "auth", req, ents, ps] =>
    match decRequest req, decEntities ents, decPolicies ps with
    | some req, some ents, some ps => some (encResponse (isAuthorized req ents ps))
    | _, _, _ => some "(bad-op)"
  | .list [.atom "like", p, .str t] =>
    match decPattern p with
    | some p => some s!"(like {M p t.toList} {wm p t.toList} {encIdx (wmIdx p t.toList)})"
    | none => some "(bad-op)"
  | .list (.atom "ext" :: .str fn :: args) =>
    match decValues args with
    | some vs => some (encResult (callExt fn vs))
    | none => some "(bad-op)"
  | .list [.atom "setop", .list (.atom "set" :: xs), .list (.atom "set" :: ys), v] =>
    -- mirror of `ast::value::Set` (fast / authoritative paths): contains, is_subset, is_disjoint, ==
    match decValues xs, decValues ys, decValue v with
    | some xs, some ys, some v =>
      let s := SetRepr.make xs; let o := SetRepr.make ys
      some s!"(setop {s.contains v} {s.isSubset o} {s.isDisjoint o} {s.eq o} {s.fast.isSome} {s.authoritative.length})"
    | _, _, _ => some "(bad-op)"
  | _ => none

end CedarVerif.Ops
