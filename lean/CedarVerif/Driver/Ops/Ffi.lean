import CedarVerif.Util.Sexp
import CedarVerif.Cedar.Ffi
/- Driver op of the FFI cache model (C19).
   `(ffi (ops OP…))`, one line = one history on a fresh thread, oldest call first:
     `(pp "id" TAG ok|bad)`    preparse_policy_set under "id" of document TAG whose parse succeeds / fails
     `(ps "name" TAG ok|bad)`  preparse_schema
     `(auth "id" "name"|none)` stateful_is_authorized naming policy set "id" and schema "name" / no schema
   reply `(replies R…)`: `ok` / `fail` for a preparse; `(used PTAG STAG|none)` / `failure` for a stateful call
   (which registered documents the call's tail was run with). -/
namespace CedarVerif.Ops
open CedarVerif Cedar.Ffi

/-- documents are (tag, verdict of the parser); the tail reports the tags of the parsed objects it received -/
def ffiParams : Params (Nat × Bool) (Nat × Bool) Nat Nat Unit (Nat × Option Nat) where
  parsePolicies d := if d.2 then some d.1 else none
  parseSchema d := if d.2 then some d.1 else none
  core sch ps _ := .success (ps, sch)

def decVerdict : Sexp → Option Bool
  | .atom "ok" => some true
  | .atom "bad" => some false
  | _ => none

def decFfiOp : Sexp → Option (Op (Nat × Bool) (Nat × Bool) Unit)
  | .list [.atom "pp", .str id, .atom t, v] =>
    match t.toNat?, decVerdict v with
    | some t, some v => some (.preparsePolicySet id (t, v))
    | _, _ => none
  | .list [.atom "ps", .str n, .atom t, v] =>
    match t.toNat?, decVerdict v with
    | some t, some v => some (.preparseSchema n (t, v))
    | _, _ => none
  | .list [.atom "auth", .str id, .str n] => some (.statefulAuth ⟨some n, id, ()⟩)
  | .list [.atom "auth", .str id, .atom "none"] => some (.statefulAuth ⟨none, id, ()⟩)
  | _ => none

def encFfiReply : Reply (Nat × Option Nat) → String
  | .checkParse .success => "ok"
  | .checkParse .failure => "fail"
  | .answer .failure => "failure"
  | .answer (.success (p, none)) => s!"(used {p} none)"
  | .answer (.success (p, some s)) => s!"(used {p} {s})"

def handleFfi (x : Sexp) : Option String :=
  match x with
  | .list [.atom "ffi", .list (.atom "ops" :: ops)] =>
    match ops.mapM decFfiOp with
    | some ops => some ("(replies" ++ String.join ((replies ffiParams {} ops).map (fun r => " " ++ encFfiReply r)) ++ ")")
    | none => some "(bad-op)"
  | _ => none

end CedarVerif.Ops
