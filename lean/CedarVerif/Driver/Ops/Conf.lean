import CedarVerif.Driver.CodecSchema
import CedarVerif.Cedar.Validation.Conformance
/-
Driver op of C11 (schema conformance):
  (conf <schema> entity  (ent uid (attrs …) (anc …) (tags …)))   → ok | (violation <class>) | (panic) | (nonschematic)
  (conf <schema> request (req p a r (ctx …)))                    → ok | (violation <class>)
  (conf <schema> context (actx <action uid> (rec …)))            → ok | (violation <class>)
Classes are those of harness/src/c11.rs (`ent_class`, `req_class`).
-/
namespace CedarVerif.Ops
open CedarVerif Cedar

def encEntityViolation : EntityViolation → String
  | .unexpectedType => "(violation unexpected-type)"
  | .enumId => "(violation enum)"
  | .undeclaredAction => "(violation undeclared-action)"
  | .actionMismatch => "(violation action-mismatch)"
  | .missingAttr => "(violation missing-attr)"
  | .unexpectedAttr => "(violation unexpected-attr)"
  | .typeMismatch => "(violation type)"
  | .unexpectedTag => "(violation unexpected-tag)"
  | .ancestorType => "(violation ancestor)"
  | .panic => "(panic)"

def encRequestViolation : RequestViolation → String
  | .undeclaredAction => "(violation undeclared-action)"
  | .undeclaredPrincipalType => "(violation undeclared-principal-type)"
  | .undeclaredResourceType => "(violation undeclared-resource-type)"
  | .principalType => "(violation principal-type)"
  | .resourceType => "(violation resource-type)"
  | .context => "(violation context)"
  | .enumId => "(violation enum)"

def handleConf (x : Sexp) : Option String :=
  match x with
  | .list [.atom "conf", s, .atom "entity", e] =>
    match decSchema s, decEntity e with
    | some s, some (uid, d) =>
      -- hypothesis of `C11.checkEntity_iff`, re-checked on every schema the harness sends
      if !s.schematic then some "(nonschematic)" else
      some (match checkEntity s uid d with
      | .ok () => "ok"
      | .error v => encEntityViolation v)
    | _, _ => some "(bad-op)"
  | .list [.atom "conf", s, .atom "request", q] =>
    match decSchema s, decRequest q with
    | some s, some q => some (match checkRequest s q with
      | .ok () => "ok"
      | .error v => encRequestViolation v)
    | _, _ => some "(bad-op)"
  | .list [.atom "conf", s, .atom "context", .list [.atom "actx", a, .list (.atom "rec" :: kvs)]] =>
    match decSchema s, decUid a, decKVs kvs with
    | some s, some a, some ctx => some (match checkContext s a ctx with
      | .ok () => "ok"
      | .error v => encRequestViolation v)
    | _, _, _ => some "(bad-op)"
  | _ => none

end CedarVerif.Ops
