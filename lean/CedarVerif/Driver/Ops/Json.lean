import CedarVerif.Driver.Codec
import CedarVerif.Cedar.Json.Value
/-
Driver ops of C10 (entity / context / value JSON).

Requests                                   reply
  (json to <value>)                        (ok <json>) | (err class)      CedarValueJson::from_value + to_value (canonical ext renderings)
  (json of <json>)                         (ok <value>) | (err class)     val_into_restricted_expr(_, None) + restricted evaluation
  (json oftyped <type> <json>)             (ok <value>) | (err class)     val_into_restricted_expr(_, Some ty) + restricted evaluation
  (json ctx none|<type> <json>)            (ok (rec …)) | (err class)     ContextJsonParser::from_json_value
  (json ctxto (rec …))                     (ok <json>) | (err class)      Context::to_json_value
  (json ent <json>)                        (ok (ent uid (attrs …) (anc …parents as listed, sorted…) (tags …))) | (err class)
  (json entto (ent uid (attrs …) (anc …) (tags …)))   (ok <json>) | (err class)     Entity::to_json_value

Sexp encoding of JSON documents (`serde_json::Value`):
  null   (jb true|false)   (ji <integer>)   (jn "<text of a non-integer number>")   (js "<string>")
  (ja <json>…)   (jo ("<key>" <json>)…)
Canonical printing (replies): object members sorted by their printed text; array elements sorted by their
printed text (a Cedar set has no order) — except the `args` array of an `__extn` payload, whose order is the
argument order.  The harness prints the implementation's JSON with the same rule.
Types: bool long string emptyset (set τ) (entity "T") (ext "name") (record open|closed ("k" req|opt τ)…).
Error classes: serde null exprtag escape entityref missingctor arity extlookup dupkey unexpectedattr missingattr
typemismatch eval notrecord actionparent reserved call0 exprkind fuel; `outside` is answered `(outside-model)`.
Driver-side glue (trusted): not subject to theorems.
-/
namespace CedarVerif.Ops
open CedarVerif Cedar Cedar.CJson

mutual
partial def decJson : Sexp → Option Json
  | .atom "null" => some .null
  | .list [.atom "jb", .atom "true"] => some (.bool true)
  | .list [.atom "jb", .atom "false"] => some (.bool false)
  | .list [.atom "ji", n] => n.asInt?.map .int
  | .list [.atom "jn", .str r] => some (.num r)
  | .list [.atom "js", .str s] => some (.str s)
  | .list (.atom "ja" :: xs) => (decJsons xs).map .arr
  | .list (.atom "jo" :: xs) => (decJsonKVs xs).map .obj
  | _ => none
partial def decJsons : List Sexp → Option (List Json)
  | [] => some []
  | x :: xs => do let v ← decJson x; let vs ← decJsons xs; some (v :: vs)
partial def decJsonKVs : List Sexp → Option (List (String × Json))
  | [] => some []
  | .list [.str k, x] :: xs => do let v ← decJson x; let vs ← decJsonKVs xs; some ((k, v) :: vs)
  | _ => none
end

mutual
partial def decType : Sexp → Option SchemaType
  | .atom "bool" => some .bool
  | .atom "long" => some .long
  | .atom "string" => some .string
  | .atom "emptyset" => some .emptySet
  | .list [.atom "set", t] => (decType t).map .set
  | .list [.atom "entity", .str t] => some (.entity t)
  | .list [.atom "ext", .str n] => some (.ext n)
  | .list (.atom "record" :: .atom "open" :: attrs) => (decAttrTypes attrs).map (fun as => .record as true)
  | .list (.atom "record" :: .atom "closed" :: attrs) => (decAttrTypes attrs).map (fun as => .record as false)
  | _ => none
partial def decAttrTypes : List Sexp → Option (List (String × Bool × SchemaType))
  | [] => some []
  | .list [.str k, .atom r, t] :: xs => do
    let req ← (match r with | "req" => some true | "opt" => some false | _ => none)
    let t ← decType t
    let rest ← decAttrTypes xs
    some ((k, req, t) :: rest)
  | _ => none
end

def qstr (s : String) : String := (Sexp.str s).toString

mutual
partial def encJson : Json → String
  | .null => "null"
  | .bool b => s!"(jb {b})"
  | .int i => s!"(ji {i})"
  | .num r => "(jn " ++ qstr r ++ ")"
  | .str s => "(js " ++ qstr s ++ ")"
  | .arr xs => "(ja" ++ String.join ((sortStrings (xs.map encJson)).map (" " ++ ·)) ++ ")"
  | .obj kvs => "(jo" ++ String.join ((sortStrings (kvs.map (fun (k, v) =>
      "(" ++ qstr k ++ " " ++ (if k == "__extn" then encExtnPayload v else encJson v) ++ ")"))).map (" " ++ ·)) ++ ")"
partial def encExtnPayload : Json → String
  | .obj kvs => "(jo" ++ String.join ((sortStrings (kvs.map (fun (k, v) =>
      "(" ++ qstr k ++ " " ++ (match k, v with
        | "args", .arr xs => "(ja" ++ String.join ((xs.map encJson).map (" " ++ ·)) ++ ")"
        | _, _ => encJson v) ++ ")"))).map (" " ++ ·)) ++ ")"
  | j => encJson j
end

def encJErr : JErr → String
  | .serde => "serde" | .null => "null" | .exprTag => "exprtag" | .escape => "escape" | .entityRef => "entityref"
  | .missingCtor => "missingctor" | .arity => "arity" | .extLookup => "extlookup" | .dupKey => "dupkey"
  | .unexpectedAttr => "unexpectedattr" | .missingAttr => "missingattr" | .typeMismatch => "typemismatch"
  | .eval _ => "eval" | .notRecord => "notrecord" | .actionParent => "actionparent" | .reserved => "reserved"
  | .call0 => "call0" | .exprKind => "exprkind" | .fuel => "fuel" | .outside => "outside"

def encR {α} (f : α → String) : R α → String
  | .ok a => "(ok " ++ f a ++ ")"
  | .error .outside => "(outside-model)"
  | .error e => "(err " ++ encJErr e ++ ")"

def encKVs (kvs : List (String × Value)) : String :=
  String.join (kvs.map (fun (k, v) => " (" ++ qstr k ++ " " ++ encValue v ++ ")"))

def encEntity (p : EntityUID × EntityData) : String :=
  "(ent " ++ (encUid p.1).toString ++ " (attrs" ++ encKVs p.2.attrs ++ ") (anc"
    ++ String.join ((dedupSorted (sortStrings (p.2.ancestors.map (fun u => (encUid u).toString)))).map (" " ++ ·))
    ++ ") (tags" ++ encKVs p.2.tags ++ "))"

def handleJson (x : Sexp) : Option String :=
  match x with
  | .list [.atom "json", .atom "to", v] =>
    match decValue v with
    | some v => some (encR encJson (toJson v))
    | none => some "(bad-op)"
  | .list [.atom "json", .atom "of", j] =>
    match decJson j with
    | some j => some (encR encValue (ofJson j))
    | none => some "(bad-op)"
  | .list [.atom "json", .atom "oftyped", t, j] =>
    match decType t, decJson j with
    | some t, some j => some (encR encValue (ofJsonTyped t j))
    | _, _ => some "(bad-op)"
  | .list [.atom "json", .atom "ctx", t, j] =>
    let ty : Option (Option SchemaType) := match t with
      | .atom "none" => some none
      | t => (decType t).map some
    match ty, decJson j with
    | some ty, some j => some (encR (fun kvs => encValue (.record kvs)) (contextOfJson ty j))
    | _, _ => some "(bad-op)"
  | .list [.atom "json", .atom "ctxto", v] =>
    match decValue v with
    | some (.record kvs) => some (encR encJson (contextToJson kvs))
    | _ => some "(bad-op)"
  | .list [.atom "json", .atom "ent", j] =>
    match decJson j with
    | some j => some (encR encEntity (entityOfJson j))
    | none => some "(bad-op)"
  | .list [.atom "json", .atom "entto", e] =>
    match decEntity e with
    | some (uid, d) => some (encR encJson (entityToJson uid d))
    | none => some "(bad-op)"
  | _ => none

end CedarVerif.Ops
