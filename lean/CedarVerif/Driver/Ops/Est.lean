import CedarVerif.Driver.CodecExpr
/- Driver ops of the JSON policy format (C06): `(est of <expr>)`, `(est to <json>)`. -/
namespace CedarVerif.Ops
open CedarVerif Cedar Cedar.Est

def handleEst (x : Sexp) : Option String :=
  match x with
  | .list [.atom "est", .atom "of", e] =>
    match decExpr e with
    | some e => some (encJson (ofExpr e))
    | none => some "(bad-op)"
  | .list [.atom "est", .atom "to", j] =>
    match decJson j with
    | some j => some (match toExpr j with
      | .ok e => "(ok " ++ (encExpr e).toString ++ ")"
      | .error _ => "(err)")
    | none => some "(bad-op)"
  | _ => none

end CedarVerif.Ops
