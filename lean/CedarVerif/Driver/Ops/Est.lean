import CedarVerif.Driver.CodecExpr
import CedarVerif.Cedar.Est.Policy
/- Driver ops of the JSON policy format (C06): `(est of <expr>)`, `(est to <json>)`. -/
namespace CedarVerif.Ops
open CedarVerif Cedar Cedar.Est

def encRef : EntityRef → Sexp
  | .euid u => encUid u
  | .slot => .list [.atom "slot"]

def encScope : ScopeC → Sexp
  | .any => .list [.atom "any"]
  | .eq r => .list [.atom "eq", encRef r]
  | .mem r => .list [.atom "in", encRef r]
  | .is ty => .list [.atom "is", .str ty]
  | .isIn ty r => .list [.atom "isin", .str ty, encRef r]

def encActionC : ActionC → Sexp
  | .any => .list [.atom "any"]
  | .eq u => .list [.atom "eq", encUid u]
  | .mem us => .list (.atom "in" :: us.map encUid)

def encTemplate (t : Template) : Sexp :=
  .list [.atom "tpl", .atom (effectName t.effect), encScope t.principal, encActionC t.action, encScope t.resource,
         .list (.atom "ann" :: t.annotations.map (fun (k, v) => .list [.str k, .str v])),
         match t.cond with
         | none => .list [.atom "none"]
         | some e => .list [.atom "some", encExpr e]]

def handleEst (x : Sexp) : Option String :=
  match x with
  | .list [.atom "est", .atom "of", e] =>
    match decExpr e with
    | some e => some (encJson (ofExpr e))
    | none => some "(bad-op)"
  | .list [.atom "est", .atom "to", j] =>
    match decJson j with
    | some j => some (match toExpr j with
      | .ok e => "(ok " ++ (encExpr e).toString ++ ")"
      | .error _ => "(err)")
    | none => some "(bad-op)"
  | .list [.atom "estpol", .atom "to", j] =>
    match decJson j with
    | some j => some (match toTemplate j with
      | .ok t => "(ok " ++ (encTemplate t).toString ++ ")"
      | .error _ => "(err)")
    | none => some "(bad-op)"
  | _ => none

end CedarVerif.Ops
