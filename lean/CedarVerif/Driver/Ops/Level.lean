import CedarVerif.Driver.CodecSchema
import CedarVerif.Driver.Ops.Tyck
import CedarVerif.Cedar.Validation.Level
import CedarVerif.Cedar.Slice
/-
Driver ops of C16 (level validation and the level-n slice):
  (level <schema> levels <cond>)                      static policy
  (level <schema> levels (tpl <pu> <ru>) <cond>)      template; `<pu>`/`<ru>` as in the `tyck` op (none | eq | in | other)
      → (level v0 v1 v2 v3 v4) | (outside-model)
        the verdict of strict validation with maximum dereference level n = 0..4 on the static policy with condition
        `<cond>`, over all request environments of the schema: `ok`, or `(fail [max:K] [lit] [internal])` with K the
        largest "requires level" among the `MaximumLevelExceeded` errors
  (level <schema> <n> (env <P> <action uid> <R>) <cond>)
      → ok | (fail …) | (outside-model)          one environment, one level
  (slice <n> <request> <entities>) → (entities …)   `Slice.atLevel`, printed like harness/src/sx.rs `entities`
-/
namespace CedarVerif.Ops.Level
open CedarVerif Cedar Cedar.Level

def encVerdict (errs : List LevelErr) : String :=
  if errs.isEmpty then "ok" else
    let maxK := errs.foldl (fun acc e => match e with
      | .maxExceeded k => (match acc with | some m => some (max m k) | none => some k)
      | _ => acc) (none : Option Nat)
    let lit := errs.any (fun e => e == .litDeref)
    let int := errs.any (fun e => e == .internal)
    "(fail" ++ (match maxK with | some k => s!" max:{k}" | none => "") ++ (if lit then " lit" else "") ++
      (if int then " internal" else "") ++ ")"

def encKVs (kvs : List (String × Value)) : String :=
  String.join (kvs.map (fun (k, v) => " (" ++ (Sexp.str k).toString ++ " " ++ encValue v ++ ")"))

def encEntity (p : EntityUID × EntityData) : String :=
  "(ent " ++ (encUid p.1).toString ++ " (attrs" ++ encKVs p.2.attrs ++ ") (anc" ++
    String.join ((sortStrings (p.2.ancestors.map (fun u => (encUid u).toString))).map (" " ++ ·)) ++ ") (tags" ++
    encKVs p.2.tags ++ "))"

/-- sorted by the uid's text, as the harness prints stores -/
def encEntities (es : Entities) : String :=
  let keyed := es.map (fun p => ((encUid p.1).toString, encEntity p))
  let sorted := keyed.foldr (fun x acc =>
    let rec ins : List (String × String) → List (String × String)
      | [] => [x]
      | y :: ys => if x.1 ≤ y.1 then x :: y :: ys else y :: ins ys
    ins acc) []
  "(entities" ++ String.join (sorted.map (fun x => " " ++ x.2)) ++ ")"

def handleLevel (x : Sexp) : Option String :=
  match x with
  | .list [.atom "level", s, .atom "levels", e] =>
    match decSchema s, decExpr e with
    | some s, some e =>
      let vs := [0, 1, 2, 3, 4].map (fun n => levelPolicy n .strict s .absent .absent e)
      if vs.any Option.isNone then some "(outside-model)"
      else some ("(level" ++ String.join (vs.map (fun v => " " ++ encVerdict (v.getD []))) ++ ")")
    | _, _ => some "(bad-op)"
  | .list [.atom "level", s, .atom "levels", .list [.atom "tpl", pu, ru], e] =>
    match decSchema s, Ops.decSlotUse pu, Ops.decSlotUse ru, decExpr e with
    | some s, some pu, some ru, some e =>
      let vs := [0, 1, 2, 3, 4].map (fun n => levelPolicy n .strict s pu ru e)
      if vs.any Option.isNone then some "(outside-model)"
      else some ("(level" ++ String.join (vs.map (fun v => " " ++ encVerdict (v.getD []))) ++ ")")
    | _, _, _, _ => some "(bad-op)"
  | .list [.atom "level", s, n, .list [.atom "env", .str p, a, .str r], e] =>
    match decSchema s, n.asNat?, decUid a, decExpr e with
    | some s, some n, some a, some e =>
      some (match s.action? a with
        | none => "(bad-op)"
        | some act =>
          match levelEnv n .strict s { principal := p, action := a, resource := r, context := act.context, principalSlot := none, resourceSlot := none } e with
          | some errs => encVerdict errs
          | none => "(outside-model)")
    | _, _, _, _ => some "(bad-op)"
  | .list [.atom "slice", n, q, es] =>
    match n.asNat?, decRequest q, decEntities es with
    | some n, some q, some es => some (encEntities (Slice.atLevel n q es))
    | _, _, _ => some "(bad-op)"
  | _ => none

end CedarVerif.Ops.Level
