import CedarVerif.Driver.CodecSchema
import CedarVerif.Driver.CodecExpr
import CedarVerif.Cedar.Validation.Level
/-
Driver ops that tie the model's TYPED AST (`Cedar.Level.annotate`, the object the C14 / C15 / C16 / C17 `*_valid`
theorems speak about through `IsTypedFor` / `typedPolicy` / `typedAst`) to the typed expression that the Rust
typechecker hands back (`Typechecker::typecheck_by_single_request_env` → `PolicyCheck::{Success, Irrelevant}`):

  (typedast shape <schema> (env <P> <action uid> <R>) <cond>)
      → (typed success|irrelevant <expr>) | (err) | (outside-model)
        `<expr>` = `(annotate .strict s env cond []).erase`, printed like harness/src/sx.rs `expr` (= `into_expr` of Rust's
        typed expression); `irrelevant` when the condition is typed `False` (`PolicyCheck::Irrelevant`), `(err)` when the
        strict typechecker model rejects (`PolicyCheck::Fail`, or `Irrelevant` with errors).
  (typedast types <schema> (env <P> <action uid> <R>) <cond>)
      → (typed success|irrelevant <ttree>) | (err) | (outside-model) | (model-mismatch)
        `<ttree>` ::= (ty <type> (<head> …<ttree>…))  : the same tree with the type annotation of EVERY node (`expr.data()`
        in Rust, `typeOf` under the capabilities in force at that node in the model; types printed as in
        harness/src/sx_schema.rs `ty`).  The tree is rebuilt here (`ann`, same recursion as `annotate`), and the op answers
        `(model-mismatch)` unless the `TExpr` it builds alongside (kinds = `kindOf` of the printed child types) is
        literally the `TExpr` that `annotate` returns — so what is compared with Rust is `annotate`'s output, decorated.
-/
namespace CedarVerif.Ops.TypedAst
open CedarVerif Cedar Cedar.Level

partial def encType : CedarType → Sexp
  | .never => .atom "never"
  | .bool .anyBool => .list [.atom "bool", .atom "any"]
  | .bool .tt => .list [.atom "bool", .atom "tt"]
  | .bool .ff => .list [.atom "bool", .atom "ff"]
  | .long => .atom "long"
  | .string => .atom "string"
  | .set none => .list [.atom "set", .atom "any"]
  | .set (some t) => .list [.atom "set", encType t]
  | .record attrs o =>
    .list (.atom "record" :: .atom (if o then "open" else "closed") ::
      attrs.map (fun (k, r, t) => .list [.str k, .atom (if r then "req" else "opt"), encType t]))
  | .entity names => .list (.atom "entity" :: names.map Sexp.str)
  | .anyEntity => .atom "anyEntity"
  | .ext n => .list [.atom "ext", .str n]

def tnode (τ : CedarType) (body : List Sexp) : Sexp := .list [.atom "ty", encType τ, .list body]

abbrev R := Except TcError (Sexp × TExpr)

-- the typed tree, and the `TExpr` it decorates; same recursion and capability threading as `annotate`
mutual
partial def ann (s : Schema) (env : RequestEnv) (e : Expr) (caps : Capabilities) : R :=
  match typeOf .strict s env e caps with
  | .error err => .error err
  | .ok (τ, _) =>
    match e with
    | .lit p => .ok (tnode τ [.atom "lit", encPrim p], .lit p)
    | .var v => .ok (tnode τ [.atom "var", .atom (encVar v)], .var v)
    | .slot sl => .ok (tnode τ [.atom "slot", .atom (encSlotId sl)], .slot sl)
    | .unknown _ _ => .error .outside
    | .ite c t f =>
      match typeOf .strict s env c caps, ann s env c caps with
      | .error err, _ => .error err
      | _, .error err => .error err
      | .ok (τc, cc), .ok (xc, tc) =>
        if τc.isTrue then
          match ann s env t (caps.union cc) with
          | .error err => .error err
          | .ok (xt, tt) => .ok (tnode τ [.atom "ite", xc, xt, xt], .ite tc tt tt)
        else if τc.isFalse then
          match ann s env f caps with
          | .error err => .error err
          | .ok (xf, tf) => .ok (tnode τ [.atom "ite", xc, xf, xf], .ite tc tf tf)
        else
          match ann s env t (caps.union cc), ann s env f caps with
          | .error err, _ => .error err
          | _, .error err => .error err
          | .ok (xt, tt), .ok (xf, tf) => .ok (tnode τ [.atom "ite", xc, xt, xf], .ite tc tt tf)
    | .and a b =>
      match typeOf .strict s env a caps, ann s env a caps with
      | .error err, _ => .error err
      | _, .error err => .error err
      | .ok (τa, ca), .ok (xa, ta) =>
        if τa.isFalse then .ok (xa, ta)
        else match ann s env b (caps.union ca) with
          | .error err => .error err
          | .ok (xb, tb) => .ok (tnode τ [.atom "and", xa, xb], .and ta tb)
    | .or a b =>
      match typeOf .strict s env a caps, ann s env a caps with
      | .error err, _ => .error err
      | _, .error err => .error err
      | .ok (τa, _), .ok (xa, ta) =>
        if τa.isTrue then .ok (xa, ta)
        else match ann s env b caps with
          | .error err => .error err
          | .ok (xb, tb) => .ok (tnode τ [.atom "or", xa, xb], .or ta tb)
    | .unaryApp op a =>
      match ann s env a caps with
      | .error err => .error err
      | .ok (xa, ta) => .ok (tnode τ [.atom "un", .atom (encUnary op), xa], .unaryApp op ta)
    | .binaryApp op a b =>
      match ann s env a caps, ann s env b caps with
      | .error err, _ => .error err
      | _, .error err => .error err
      | .ok (xa, ta), .ok (xb, tb) => .ok (tnode τ [.atom "bin", .atom (encBinary op), xa, xb], .binaryApp op ta tb)
    | .call fn args =>
      match annList s env args caps with
      | .error err => .error err
      | .ok xs => .ok (tnode τ (.atom "call" :: .str fn :: xs.map (·.1)), .call fn (xs.map (·.2)))
    | .getAttr x a =>
      match typeOf .strict s env x caps, ann s env x caps with
      | .error err, _ => .error err
      | _, .error err => .error err
      | .ok (τx, _), .ok (xx, tx) => .ok (tnode τ [.atom "get", xx, .str a], .getAttr (kindOf τx) tx a)
    | .hasAttr x a =>
      match typeOf .strict s env x caps, ann s env x caps with
      | .error err, _ => .error err
      | _, .error err => .error err
      | .ok (τx, _), .ok (xx, tx) => .ok (tnode τ [.atom "has", xx, .str a], .hasAttr (kindOf τx) tx a)
    | .like x p =>
      match ann s env x caps with
      | .error err => .error err
      | .ok (xx, tx) => .ok (tnode τ [.atom "like", xx, .list (.atom "pat" :: p.map encPatElem)], .like tx p)
    | .is x ety =>
      match ann s env x caps with
      | .error err => .error err
      | .ok (xx, tx) => .ok (tnode τ [.atom "is", xx, .str ety], .is tx ety)
    | .set es =>
      match annList s env es caps with
      | .error err => .error err
      | .ok xs => .ok (tnode τ (.atom "set" :: xs.map (·.1)), .set (xs.map (·.2)))
    | .record kvs =>
      match annList s env (kvs.map (·.2)) caps with
      | .error err => .error err
      | .ok xs =>
        let ks := kvs.map (·.1)
        .ok (tnode τ (.atom "rec" :: (ks.zip xs).map (fun (k, x) => .list [.str k, x.1])), .record ((ks.zip xs).map (fun (k, x) => (k, x.2))))
partial def annList (s : Schema) (env : RequestEnv) (es : List Expr) (caps : Capabilities) : Except TcError (List (Sexp × TExpr)) :=
  match es with
  | [] => .ok []
  | e :: rest =>
    match ann s env e caps, annList s env rest caps with
    | .error err, _ => .error err
    | _, .error err => .error err
    | .ok x, .ok xs => .ok (x :: xs)
end

/-- literal equality of typed ASTs (through the derived `Repr`) -/
def sameTExpr (a b : TExpr) : Bool := toString (repr a) == toString (repr b)

def decEnv (s : Schema) : Sexp → Option RequestEnv
  | .list [.atom "env", .str p, a, .str r] => do
    let a ← decUid a
    let act ← s.action? a
    some { principal := p, action := a, resource := r, context := act.context, principalSlot := none, resourceSlot := none }
  | _ => none

def handleTypedAst (x : Sexp) : Option String :=
  match x with
  | .list [.atom "typedast", .atom which, s, env, e] =>
    match decSchema s, decExpr e with
    | some s, some e =>
      match decEnv s env with
      | none => some "(bad-op)"
      | some env =>
        some (match expectOneOf (typeOf .strict s env e []) [boolT] with
          | .error .outside => "(outside-model)"
          | .error .fail => "(err)"
          | .ok (τ, _) =>
            let verdict := if τ.isFalse then "irrelevant" else "success"
            match annotate .strict s env e [] with
            | .error .outside => "(outside-model)"
            | .error .fail => "(err)"
            | .ok te =>
              if which == "shape" then "(typed " ++ verdict ++ " " ++ (encExpr te.erase).toString ++ ")"
              else if which == "types" then
                match ann s env e [] with
                | .error .outside => "(outside-model)"
                | .error .fail => "(model-mismatch)"
                | .ok (x, te') =>
                  if sameTExpr te te' then "(typed " ++ verdict ++ " " ++ x.toString ++ ")" else "(model-mismatch)"
              else "(bad-op)")
    | _, _ => some "(bad-op)"
  | _ => none

end CedarVerif.Ops.TypedAst
