import CedarVerif.Util.Sexp
import CedarVerif.Cedar.SchemaSyntax
import CedarVerif.Cedar.SchemaDecl
import CedarVerif.Cedar.SchemaDecl2
import CedarVerif.Cedar.SchemaCollect
import CedarVerif.Cedar.SchemaFmtCheck
import CedarVerif.Cedar.SchemaAnnot
import CedarVerif.Driver.Codec
/-
Driver ops of C09 (schema syntaxes):
  (sty print <tyjson>)                                   → (toks <tok>…)
  (sty parse (toks <tok>…))                              → (ok <tyjson>) | (err)
  (sty parse-entity (toks <tok>…))                       → (ok (names …sorted) (in …) <shape tyjson> (tags <tyjson>)|(notags)) | (err)
  (sty resolve "ns" (commons "q"…) (entities "q"…) (actions "ns"…) entity|common|either "name")
                                                         → (common "q") | (entity "q") | (builtin "Long") | (undefined) | (shadow)
  (sty print-frag <frag>)                                → (toks <tok>…)            whole-fragment printer of fmt.rs
  (sty parse-frag (toks <tok>…))                         → (ok <frag, entries and namespaces sorted>) | (err)   grammar + to_json_schema.rs
  (sty collect-frag (toks <tok>…))                       → (ok <frag in KEY order, nothing sorted by the codec>) | (err dup-decl) | (err dup-ns) | (err syntax)
                                                            `parseFragmentCollected` (the BTreeMap collection of to_json_schema.rs)
  (sty to-cedar-checked <frag> (nonrec "A::B"…))         → (toks <tok>…) | (err collision) | (err nonrecord)     `toCedarChecked`
  (sty print-frag-a <afrag>)                             → (toks <tok>…)            `printFragmentA` (annotations as `at (id k) [lp (str v) rp]`)
  (sty parse-frag-a (toks <tok>…))                       → (ok (items <item>…)) | (err)     `parseItemsA` (grammar + `deduplicate_annotations`), AST level:
                                                            item ::= (ns "A::B" <anns> (entity|action|type <anns>)…) | (decl entity|action|type <anns>), source order
afrag  ::= (afrag <ans>…)      ans ::= (ns "A::B"|"" <anns> (commons ("N" <anns> tyjson)…) (entities ("N" <anns> ent)…) (actions ("N" <anns> act)…))
anns   ::= (anns ("k" "v")|("k" none)…)
frag   ::= (frag <ns>…)        ns ::= (ns "A::B"|"" (commons ("N" tyjson)…) (entities ("N" ent)…) (actions ("N" act)…))
ent    ::= (std (in "q"…) <record tyjson> (tags tyjson)|(notags)) | (enum "a"…)
act    ::= (act (in (ref "T"|none "id")…)|(noin) (applies (p "q"…) (r "q"…) tyjson)|(noapplies))
tyjson ::= bool | long | string | (set T) | (record ("k" req|opt T)…) | (entity "A::B") | (eoc "A::B") | (ext "n") | (cref "A::B")
tok    ::= (id "x") | (str "x") | dcolon | lt | gt | lb | rb | colon | comma | q | <any other atom>
-/
namespace CedarVerif.Ops
open CedarVerif Cedar.SchemaSyntax

def decQName (s : String) : QName :=
  match (s.splitOn "::").reverse with
  | [] => ⟨[], s⟩
  | b :: p => ⟨p.reverse, b⟩

def encQName (q : QName) : String := "::".intercalate q.comps

def qstrS (s : String) : String := "\"" ++ Sexp.escapeString s ++ "\""

mutual
partial def decTyJson : Sexp → Option TyJson
  | .atom "bool" => some .bool
  | .atom "long" => some .long
  | .atom "string" => some .string
  | .list [.atom "set", e] => (decTyJson e).map .set
  | .list (.atom "record" :: attrs) => (decAttrsJ attrs).map .record
  | .list [.atom "entity", .str n] => some (.entity (decQName n))
  | .list [.atom "eoc", .str n] => some (.entityOrCommon (decQName n))
  | .list [.atom "ext", .str n] => some (.ext n)
  | .list [.atom "cref", .str n] => some (.commonRef (decQName n))
  | _ => none
partial def decAttrsJ : List Sexp → Option AttrsJ
  | [] => some .nil
  | .list [.str k, .atom r, t] :: rest =>
    match decTyJson t, decAttrsJ rest with
    | some t, some rest => if r = "req" then some (.cons k true t rest) else if r = "opt" then some (.cons k false t rest) else none
    | _, _ => none
  | _ => none
end

mutual
partial def encTyJson : TyJson → String
  | .bool => "bool"
  | .long => "long"
  | .string => "string"
  | .set e => s!"(set {encTyJson e})"
  | .record attrs => "(record" ++ encAttrsJ attrs ++ ")"
  | .entity n => s!"(entity {qstrS (encQName n)})"
  | .entityOrCommon n => s!"(eoc {qstrS (encQName n)})"
  | .ext n => s!"(ext {qstrS n})"
  | .commonRef n => s!"(cref {qstrS (encQName n)})"
partial def encAttrsJ : AttrsJ → String
  | .nil => ""
  | .cons k req t rest => s!" ({qstrS k} {if req then "req" else "opt"} {encTyJson t})" ++ encAttrsJ rest
end

def decTok : Sexp → Option Tok
  | .list [.atom "id", .str s] => some (.id s)
  | .list [.atom "str", .str s] => some (.str s)
  | .atom "dcolon" => some .dcolon
  | .atom "lt" => some .lt
  | .atom "gt" => some .gt
  | .atom "lb" => some .lb
  | .atom "rb" => some .rb
  | .atom "colon" => some .colon
  | .atom "comma" => some .comma
  | .atom "q" => some .q
  | .atom a => some (.other a)
  | _ => none

def encTok : Tok → String
  | .id s => s!"(id {qstrS s})"
  | .str s => s!"(str {qstrS s})"
  | .dcolon => "dcolon" | .lt => "lt" | .gt => "gt" | .lb => "lb" | .rb => "rb"
  | .colon => "colon" | .comma => "comma" | .q => "q"
  | .other a => a

def decStrs : List Sexp → Option (List String)
  | [] => some []
  | .str s :: r => (decStrs r).map (s :: ·)
  | _ => none

def decNs (s : String) : List String := if s = "" then [] else s.splitOn "::"

def encResolved (env : Env) (r : Option Resolved) : String :=
  match r with
  | none => "(undefined)"
  | some r => match classify env r with
    | .builtin n => s!"(builtin {qstrS n})"
    | .common q => s!"(common {qstrS (encQName q)})"
    | .entity q => s!"(entity {qstrS (encQName q)})"
    | _ => "(bad-op)"


/-! fragments -/
namespace C09Frag

def decEnt : Sexp → Option EntityKindJ
  | .list (.atom "enum" :: cs) => (decStrs cs).map .enum
  | .list [.atom "std", .list (.atom "in" :: ms), shape, tags] =>
    match decStrs ms, decTyJson shape with
    | some ms, some (.record as) =>
      (match tags with
        | .list [.atom "notags"] => some (.standard ⟨ms.map decQName, as, none⟩)
        | .list [.atom "tags", t] => (decTyJson t).map fun t => .standard ⟨ms.map decQName, as, some t⟩
        | _ => none)
    | _, _ => none
  | _ => none

def decRef : Sexp → Option ActRef
  | .list [.atom "ref", .atom "none", .str id] => some ⟨none, id⟩
  | .list [.atom "ref", .str ty, .str id] => some ⟨some (decQName ty), id⟩
  | _ => none

def decAct : Sexp → Option ActionJ
  | .list [.atom "act", m, a] =>
    let m? : Option (Option (List ActRef)) := match m with
      | .list [.atom "noin"] => some none
      | .list (.atom "in" :: rs) => (rs.mapM decRef).map some
      | _ => none
    let a? : Option (Option ApplySpecJ) := match a with
      | .list [.atom "noapplies"] => some none
      | .list [.atom "applies", .list (.atom "p" :: ps), .list (.atom "r" :: rs), ctx] =>
        (match decStrs ps, decStrs rs, decTyJson ctx with
          | some ps, some rs, some ctx => some (some ⟨ps.map decQName, rs.map decQName, ctx⟩)
          | _, _, _ => none)
      | _ => none
    match m?, a? with
    | some m, some a => some ⟨m, a⟩
    | _, _ => none
  | _ => none

def decEntries {α : Type} (f : Sexp → Option α) : List Sexp → Option (List (String × α))
  | [] => some []
  | .list [.str n, x] :: rest =>
    (match f x, decEntries f rest with
      | some x, some rest => some ((n, x) :: rest)
      | _, _ => none)
  | _ => none

def decNsJ : Sexp → Option (String × NamespaceJ)
  | .list [.atom "ns", .str n, .list (.atom "commons" :: cs), .list (.atom "entities" :: es), .list (.atom "actions" :: as)] =>
    match decEntries decTyJson cs, decEntries decEnt es, decEntries decAct as with
    | some cs, some es, some as => some (n, ⟨cs, es, as⟩)
    | _, _, _ => none
  | _ => none

def decFrag : Sexp → Option FragmentJ
  | .list (.atom "frag" :: nss) =>
    match nss.mapM decNsJ with
    | some l =>
      some ⟨(l.find? (·.1 == "")).map (·.2), (l.filter (·.1 != "")).map fun x => (decQName x.1, x.2)⟩
    | none => none
  | _ => none

def encEnt : EntityKindJ → String
  | .enum cs => "(enum" ++ String.join (cs.map fun c => " " ++ qstrS c) ++ ")"
  | .standard e => "(std (in" ++ String.join (e.memberOf.map fun q => " " ++ qstrS (encQName q)) ++ ") " ++ encTyJson (.record e.shape) ++ " " ++
      (match e.tags with | some t => s!"(tags {encTyJson t})" | none => "(notags)") ++ ")"

def encRef (r : ActRef) : String :=
  "(ref " ++ (match r.ty with | some q => qstrS (encQName q) | none => "none") ++ " " ++ qstrS r.id ++ ")"

def encAct (a : ActionJ) : String :=
  "(act " ++ (match a.memberOf with | some rs => "(in" ++ String.join (rs.map fun r => " " ++ encRef r) ++ ")" | none => "(noin)") ++ " " ++
    (match a.appliesTo with
      | some s => "(applies (p" ++ String.join (s.principals.map fun q => " " ++ qstrS (encQName q)) ++ ") (r" ++
          String.join (s.resources.map fun q => " " ++ qstrS (encQName q)) ++ ") " ++ encTyJson s.context ++ ")"
      | none => "(noapplies)") ++ ")"

def encEntries {α : Type} (f : α → String) (l : List (String × α)) : String :=
  String.join ((CedarVerif.sortStrings (l.map fun x => "(" ++ qstrS x.1 ++ " " ++ f x.2 ++ ")")).map (" " ++ ·))

def encNsJ (name : String) (d : NamespaceJ) : String :=
  "(ns " ++ qstrS name ++ " (commons" ++ encEntries encTyJson d.commons ++ ") (entities" ++ encEntries encEnt d.entities ++
    ") (actions" ++ encEntries encAct d.actions ++ "))"

def encFrag (f : FragmentJ) : String :=
  let nss := (match f.empty with | some d => [encNsJ "" d] | none => []) ++ f.named.map fun x => encNsJ (encQName x.1) x.2
  "(frag" ++ String.join ((CedarVerif.sortStrings nss).map (" " ++ ·)) ++ ")"

/-- entries in the given order (no sorting by the codec) -/
def encEntriesO {α : Type} (f : α → String) (l : List (String × α)) : String :=
  String.join (l.map fun x => " (" ++ qstrS x.1 ++ " " ++ f x.2 ++ ")")

def encNsJO (name : String) (d : NamespaceJ) : String :=
  "(ns " ++ qstrS name ++ " (commons" ++ encEntriesO encTyJson d.commons ++ ") (entities" ++ encEntriesO encEnt d.entities ++
    ") (actions" ++ encEntriesO encAct d.actions ++ "))"

/-- the empty namespace first (`None` is the least key), then the named ones in the given order -/
def encFragO (f : FragmentJ) : String :=
  let nss := (match f.empty with | some d => [encNsJO "" d] | none => []) ++ f.named.map fun x => encNsJO (encQName x.1) x.2
  "(frag" ++ String.join (nss.map (" " ++ ·)) ++ ")"

def encDeclErr : DeclErr → String
  | .syntax => "(err syntax)"
  | .duplicateDecl => "(err dup-decl)"
  | .duplicateNamespace => "(err dup-ns)"

/-- the harness lexer names `;` `=` `[` `]` semi / eq / lk / rk -/
def fixTok : Tok → Tok
  | .other "semi" => .other ";" | .other "eq" => .other "=" | .other "lk" => .other "[" | .other "rk" => .other "]"
  | t => t

def unfixTok : Tok → Tok
  | .other ";" => .other "semi" | .other "=" => .other "eq" | .other "[" => .other "lk" | .other "]" => .other "rk"
  | t => t


/-! annotated fragments -/
def decAnns : Sexp → Option AnnsJ
  | .list (.atom "anns" :: l) => l.mapM fun
      | .list [.str k, .str v] => some (k, some v)
      | .list [.str k, .atom "none"] => some (k, none)
      | _ => none
  | _ => none

def decEntriesA {α : Type} (f : Sexp → Option α) : List Sexp → Option (List (AnnsJ × String × α))
  | [] => some []
  | .list [.str n, a, x] :: rest =>
    (match decAnns a, f x, decEntriesA f rest with
      | some a, some x, some rest => some ((a, n, x) :: rest)
      | _, _, _ => none)
  | _ => none

def decNsA : Sexp → Option (String × AnnsJ × NamespaceA)
  | .list [.atom "ns", .str n, a, .list (.atom "commons" :: cs), .list (.atom "entities" :: es), .list (.atom "actions" :: as)] =>
    match decAnns a, decEntriesA decTyJson cs, decEntriesA decEnt es, decEntriesA decAct as with
    | some a, some cs, some es, some as => some (n, a, ⟨cs, es, as⟩)
    | _, _, _, _ => none
  | _ => none

def decFragA : Sexp → Option FragmentA
  | .list (.atom "afrag" :: nss) =>
    match nss.mapM decNsA with
    | some l => some ⟨(l.find? (·.1 == "")).map (·.2.2), (l.filter (·.1 != "")).map fun x => (decQName x.1, x.2.1, x.2.2)⟩
    | none => none
  | _ => none

def encAnns (a : AnnsJ) : String :=
  "(anns" ++ String.join (a.map fun x => " (" ++ qstrS x.1 ++ " " ++ (match x.2 with | some v => qstrS v | none => "none") ++ ")") ++ ")"

def declKind : DeclC → String
  | .ent _ => "entity" | .action _ => "action" | .common _ _ => "type"

def encItemA : ItemA → String
  | .ns a q ds => "(ns " ++ qstrS (encQName q) ++ " " ++ encAnns a ++
      String.join (ds.map fun x => " (" ++ declKind x.2 ++ " " ++ encAnns x.1 ++ ")") ++ ")"
  | .decl a d => "(decl " ++ declKind d ++ " " ++ encAnns a ++ ")"

def fixTokA : Tok → Tok
  | .other "at" => .other "@" | .other "lp" => .other "(" | .other "rp" => .other ")"
  | t => fixTok t

def unfixTokA : Tok → Tok
  | .other "@" => .other "at" | .other "(" => .other "lp" | .other ")" => .other "rp"
  | t => unfixTok t

def handleSchemaFrag (x : Sexp) : Option String :=
  match x with
  | .list [.atom "sty", .atom "print-frag-a", f] =>
    match decFragA f with
    | some f => some ("(toks" ++ String.join ((printFragmentA f).map fun k => " " ++ encTok (unfixTokA k)) ++ ")")
    | none => some "(bad-op)"
  | .list [.atom "sty", .atom "parse-frag-a", .list (.atom "toks" :: ts)] =>
    match ts.mapM decTok with
    | some ts => some (match parseItemsA (ts.length + 1) (ts.map fixTokA) with
      | some its => "(ok (items" ++ String.join (its.map fun i => " " ++ encItemA i) ++ "))"
      | none => "(err)")
    | none => some "(bad-op)"
  | .list [.atom "sty", .atom "print-frag", f] =>
    match decFrag f with
    | some f => some ("(toks" ++ String.join ((printFragmentJ f).map fun k => " " ++ encTok (unfixTok k)) ++ ")")
    | none => some "(bad-op)"
  | .list [.atom "sty", .atom "parse-frag", .list (.atom "toks" :: ts)] =>
    match ts.mapM decTok with
    | some ts => some (match parseFragment (ts.map fixTok) with
      | some f => s!"(ok {encFrag f})"
      | none => "(err)")
    | none => some "(bad-op)"
  | .list [.atom "sty", .atom "to-cedar-checked", f, .list (.atom "nonrec" :: ns)] =>
    match decFrag f, decStrs ns with
    | some f, some ns => some (match toCedarChecked f (ns.map decQName) with
      | .ok toks => "(toks" ++ String.join (toks.map fun k => " " ++ encTok (unfixTok k)) ++ ")"
      | .error (.nameCollisions _) => "(err collision)"
      | .error (.unconvertibleShape _) => "(err nonrecord)")
    | _, _ => some "(bad-op)"
  | .list [.atom "sty", .atom "collect-frag", .list (.atom "toks" :: ts)] =>
    match ts.mapM decTok with
    | some ts => some (match parseFragmentCollected (ts.map fixTok) with
      | .ok f => s!"(ok {encFragO f})"
      | .error e => encDeclErr e)
    | none => some "(bad-op)"
  | _ => none
end C09Frag

def handleSchemaSyntax (x : Sexp) : Option String :=
  match C09Frag.handleSchemaFrag x with
  | some r => some r
  | none =>
  match x with
  | .list [.atom "sty", .atom "print", t] =>
    match decTyJson t with
    | some t => some ("(toks" ++ String.join ((printTy t).map fun k => " " ++ encTok k) ++ ")")
    | none => some "(bad-op)"
  | .list [.atom "sty", .atom "parse", .list (.atom "toks" :: ts)] =>
    match ts.mapM decTok with
    | some ts => some (match parseTy ts with
      | some t => s!"(ok {encTyJson t})"
      | none => "(err)")
    | none => some "(bad-op)"
  | .list [.atom "sty", .atom "resolve", .str ns, .list (.atom "commons" :: cs), .list (.atom "entities" :: es),
           .list (.atom "actions" :: as), .atom kind, .str name] =>
    match decStrs cs, decStrs es, decStrs as with
    | some cs, some es, some as =>
      let env : Env := { commons := cs.map decQName, entities := es.map decQName, actionNs := as.map decNs }
      let kind? : Option RefKind := if kind = "entity" then some .entity else if kind = "common" then some .common
        else if kind = "either" then some .either else none
      match kind? with
      | none => some "(bad-op)"
      | some k =>
        if shadowing env then some "(shadow)"
        else some (encResolved env (resolveRef env (decNs ns) k (decQName name)))
    | _, _, _ => some "(bad-op)"
  | .list [.atom "sty", .atom "parse-entity", .list (.atom "toks" :: ts)] =>
    -- the harness lexer names `;` `=` `[` `]` semi / eq / lk / rk
    let fix : Tok → Tok
      | .other "semi" => .other ";" | .other "eq" => .other "=" | .other "lk" => .other "[" | .other "rk" => .other "]"
      | t => t
    match ts.mapM decTok with
    | some ts => some (match parseEntityDecl (ts.map fix) with
      | some d =>
        "(ok (names" ++ String.join ((CedarVerif.sortStrings (d.names.map qstrS)).map (" " ++ ·)) ++ ") (in" ++
          String.join (d.memberOf.map fun q => " " ++ qstrS (encQName q)) ++ ") " ++ encTyJson (toJson (.record d.attrs)) ++ " " ++
          (match d.tags with | some t => s!"(tags {encTyJson (toJson t)})" | none => "(notags)") ++ ")"
      | none => "(err)")
    | none => some "(bad-op)"
  | .list (.atom "sty" :: _) => some "(bad-op)"
  | _ => none

end CedarVerif.Ops
