import CedarVerif.Util.Sexp
import CedarVerif.Cedar.SchemaSyntax
import CedarVerif.Cedar.SchemaDecl
import CedarVerif.Driver.Codec
/-
Driver ops of C09 (schema syntaxes):
  (sty print <tyjson>)                                   → (toks <tok>…)
  (sty parse (toks <tok>…))                              → (ok <tyjson>) | (err)
  (sty parse-entity (toks <tok>…))                       → (ok (names …sorted) (in …) <shape tyjson> (tags <tyjson>)|(notags)) | (err)
  (sty resolve "ns" (commons "q"…) (entities "q"…) (actions "ns"…) entity|common|either "name")
                                                         → (common "q") | (entity "q") | (builtin "Long") | (undefined) | (shadow)
tyjson ::= bool | long | string | (set T) | (record ("k" req|opt T)…) | (entity "A::B") | (eoc "A::B") | (ext "n") | (cref "A::B")
tok    ::= (id "x") | (str "x") | dcolon | lt | gt | lb | rb | colon | comma | q | <any other atom>
-/
namespace CedarVerif.Ops
open CedarVerif Cedar.SchemaSyntax

def decQName (s : String) : QName :=
  match (s.splitOn "::").reverse with
  | [] => ⟨[], s⟩
  | b :: p => ⟨p.reverse, b⟩

def encQName (q : QName) : String := "::".intercalate q.comps

def qstrS (s : String) : String := "\"" ++ Sexp.escapeString s ++ "\""

mutual
partial def decTyJson : Sexp → Option TyJson
  | .atom "bool" => some .bool
  | .atom "long" => some .long
  | .atom "string" => some .string
  | .list [.atom "set", e] => (decTyJson e).map .set
  | .list (.atom "record" :: attrs) => (decAttrsJ attrs).map .record
  | .list [.atom "entity", .str n] => some (.entity (decQName n))
  | .list [.atom "eoc", .str n] => some (.entityOrCommon (decQName n))
  | .list [.atom "ext", .str n] => some (.ext n)
  | .list [.atom "cref", .str n] => some (.commonRef (decQName n))
  | _ => none
partial def decAttrsJ : List Sexp → Option AttrsJ
  | [] => some .nil
  | .list [.str k, .atom r, t] :: rest =>
    match decTyJson t, decAttrsJ rest with
    | some t, some rest => if r = "req" then some (.cons k true t rest) else if r = "opt" then some (.cons k false t rest) else none
    | _, _ => none
  | _ => none
end

mutual
partial def encTyJson : TyJson → String
  | .bool => "bool"
  | .long => "long"
  | .string => "string"
  | .set e => s!"(set {encTyJson e})"
  | .record attrs => "(record" ++ encAttrsJ attrs ++ ")"
  | .entity n => s!"(entity {qstrS (encQName n)})"
  | .entityOrCommon n => s!"(eoc {qstrS (encQName n)})"
  | .ext n => s!"(ext {qstrS n})"
  | .commonRef n => s!"(cref {qstrS (encQName n)})"
partial def encAttrsJ : AttrsJ → String
  | .nil => ""
  | .cons k req t rest => s!" ({qstrS k} {if req then "req" else "opt"} {encTyJson t})" ++ encAttrsJ rest
end

def decTok : Sexp → Option Tok
  | .list [.atom "id", .str s] => some (.id s)
  | .list [.atom "str", .str s] => some (.str s)
  | .atom "dcolon" => some .dcolon
  | .atom "lt" => some .lt
  | .atom "gt" => some .gt
  | .atom "lb" => some .lb
  | .atom "rb" => some .rb
  | .atom "colon" => some .colon
  | .atom "comma" => some .comma
  | .atom "q" => some .q
  | .atom a => some (.other a)
  | _ => none

def encTok : Tok → String
  | .id s => s!"(id {qstrS s})"
  | .str s => s!"(str {qstrS s})"
  | .dcolon => "dcolon" | .lt => "lt" | .gt => "gt" | .lb => "lb" | .rb => "rb"
  | .colon => "colon" | .comma => "comma" | .q => "q"
  | .other a => a

def decStrs : List Sexp → Option (List String)
  | [] => some []
  | .str s :: r => (decStrs r).map (s :: ·)
  | _ => none

def decNs (s : String) : List String := if s = "" then [] else s.splitOn "::"

def encResolved (env : Env) (r : Option Resolved) : String :=
  match r with
  | none => "(undefined)"
  | some r => match classify env r with
    | .builtin n => s!"(builtin {qstrS n})"
    | .common q => s!"(common {qstrS (encQName q)})"
    | .entity q => s!"(entity {qstrS (encQName q)})"
    | _ => "(bad-op)"

def handleSchemaSyntax (x : Sexp) : Option String :=
  match x with
  | .list [.atom "sty", .atom "print", t] =>
    match decTyJson t with
    | some t => some ("(toks" ++ String.join ((printTy t).map fun k => " " ++ encTok k) ++ ")")
    | none => some "(bad-op)"
  | .list [.atom "sty", .atom "parse", .list (.atom "toks" :: ts)] =>
    match ts.mapM decTok with
    | some ts => some (match parseTy ts with
      | some t => s!"(ok {encTyJson t})"
      | none => "(err)")
    | none => some "(bad-op)"
  | .list [.atom "sty", .atom "resolve", .str ns, .list (.atom "commons" :: cs), .list (.atom "entities" :: es),
           .list (.atom "actions" :: as), .atom kind, .str name] =>
    match decStrs cs, decStrs es, decStrs as with
    | some cs, some es, some as =>
      let env : Env := { commons := cs.map decQName, entities := es.map decQName, actionNs := as.map decNs }
      let kind? : Option RefKind := if kind = "entity" then some .entity else if kind = "common" then some .common
        else if kind = "either" then some .either else none
      match kind? with
      | none => some "(bad-op)"
      | some k =>
        if shadowing env then some "(shadow)"
        else some (encResolved env (resolveRef env (decNs ns) k (decQName name)))
    | _, _, _ => some "(bad-op)"
  | .list [.atom "sty", .atom "parse-entity", .list (.atom "toks" :: ts)] =>
    -- the harness lexer names `;` `=` `[` `]` semi / eq / lk / rk
    let fix : Tok → Tok
      | .other "semi" => .other ";" | .other "eq" => .other "=" | .other "lk" => .other "[" | .other "rk" => .other "]"
      | t => t
    match ts.mapM decTok with
    | some ts => some (match parseEntityDecl (ts.map fix) with
      | some d =>
        "(ok (names" ++ String.join ((CedarVerif.sortStrings (d.names.map qstrS)).map (" " ++ ·)) ++ ") (in" ++
          String.join (d.memberOf.map fun q => " " ++ qstrS (encQName q)) ++ ") " ++ encTyJson (toJson (.record d.attrs)) ++ " " ++
          (match d.tags with | some t => s!"(tags {encTyJson (toJson t)})" | none => "(notags)") ++ ")"
      | none => "(err)")
    | none => some "(bad-op)"
  | .list (.atom "sty" :: _) => some "(bad-op)"
  | _ => none

end CedarVerif.Ops
