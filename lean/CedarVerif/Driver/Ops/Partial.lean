import CedarVerif.Driver.Codec
import CedarVerif.Cedar.Partial
/- Driver ops of C13: `(peval <preq> <pentities> <policies>)` → the partial observable;
   `(reauth <preq> <pentities> <pentities'> <policies> <subst>)` → the partial observable of the re-authorized
   response (or `(reauth-err …)`). Residual shapes are never printed. -/
namespace CedarVerif.Ops
open CedarVerif Cedar

def decEntry : Sexp → Option UidEntry
  | .list [.atom "e", .str ty, .str eid] => some (.known ⟨ty, eid⟩)
  | .list [.atom "unk"] => some (.unknown none)
  | .list [.atom "unk", .str t] => some (.unknown (some t))
  | _ => none

def decPContext : Sexp → Option (Option PContext)
  | .list [.atom "noctx"] => some none
  | .list (.atom "ctx" :: kvs) => (decKVs kvs).map (fun r => some (.value r))
  | .list (.atom "rctx" :: kvs) => (decExprKVs kvs).map (fun r => some (.residual r))
  | _ => none

def decPRequest : Sexp → Option PRequest
  | .list [.atom "preq", p, a, r, c] => do
    some { principal := ← decEntry p, action := ← decEntry a, resource := ← decEntry r, context := ← decPContext c }
  | _ => none

def decPV : Sexp → Option PartialValue
  | .list [.atom "v", v] => (decValue v).map .value
  | .list [.atom "r", e] => (decExpr e).map .residual
  | _ => none

def decPKVs : List Sexp → Option (List (String × PartialValue))
  | [] => some []
  | .list [.str k, x] :: xs => do let v ← decPV x; let vs ← decPKVs xs; some ((k, v) :: vs)
  | _ => none

def decPEntity : Sexp → Option (EntityUID × PEntityData)
  | .list [.atom "ent", uid, .list (.atom "attrs" :: attrs), .list (.atom "anc" :: anc), .list (.atom "tags" :: tags)] => do
    let uid ← decUid uid
    let attrs ← decPKVs attrs
    let anc ← anc.mapM decUid
    let tags ← decPKVs tags
    some (uid, { attrs := attrs, ancestors := anc, tags := tags })
  | _ => none

def decPEntities : Sexp → Option PEntities
  | .list (.atom "pentities" :: .atom mode :: xs) => do
    let ents ← xs.mapM decPEntity
    match mode with
    | "partial" => some { ents := ents, partialMode := true }
    | "concrete" => some { ents := ents, partialMode := false }
    | _ => none
  | _ => none

def decSubst : Sexp → Option Mapper
  | .list (.atom "subst" :: kvs) => decKVs kvs
  | _ => none

def encDecision? : Option Decision → String
  | some .allow => "allow"
  | some .deny => "deny"
  | none => "none"

def encPResponse (pr : PartialResponse) : String :=
  if !pr.stuck.isEmpty then "(stuck " ++ encIds pr.stuck ++ ")" else
  let cls : List (String × String) :=
    (pr.satisfiedPermits ++ pr.satisfiedForbids).map (fun id => (id, "true")) ++
    (pr.falsePermits ++ pr.falseForbids).map (fun x => (x.1, if x.2 then "error" else "false")) ++
    (pr.residualPermits ++ pr.residualForbids).map (fun x => (x.1, "residual"))
  let items := sortStrings (cls.map (fun (id, c) => "(" ++ (Sexp.str id).toString ++ " " ++ c ++ ")"))
  "(presp " ++ encDecision? pr.decision ++ " (cls" ++ String.join (items.map (" " ++ ·)) ++
    (if pr.mayPanics then ") (construct-policy-panic))" else
      ") (may " ++ encIds pr.mayBeDetermining ++ ") (must " ++ encIds pr.mustBeDetermining ++ "))")

def handlePartial (x : Sexp) : Option String :=
  match x with
  | .list [.atom "peval", req, ents, ps] =>
    match decPRequest req, decPEntities ents, decPolicies ps with
    | some req, some ents, some ps => some (encPResponse (isAuthorizedCore [] req ents ps))
    | _, _, _ => some "(bad-op)"
  | .list [.atom "reauth", req, ents, ents', ps, sub] =>
    match decPRequest req, decPEntities ents, decPEntities ents', decPolicies ps, decSubst sub with
    | some req, some ents, some ents', some ps, some m =>
      match (isAuthorizedCore [] req ents ps).reauthorize m ents' with
      | .ok pr2 => some ("(reauth " ++ encPResponse pr2 ++ ")")
      | .error .concretization => some "(reauth-err concretization)"
      | .error .panic => some "(reauth-panic)"
      | .error .stuck => some "(reauth-err stuck)"
    | _, _, _, _, _ => some "(bad-op)"
  | .list [.atom "reauth2", req, ents, ents', ps, sub, sub2] =>
    match decPRequest req, decPEntities ents, decPEntities ents', decPolicies ps, decSubst sub, decSubst sub2 with
    | some req, some ents, some ents', some ps, some m, some m2 =>
      match ((isAuthorizedCore [] req ents ps).reauthorize m ents').bind (fun pr2 => pr2.reauthorize m2 ents') with
      | .ok pr3 => some ("(reauth " ++ encPResponse pr3 ++ ")")
      | .error .concretization => some "(reauth-err concretization)"
      | .error .panic => some "(reauth-panic)"
      | .error .stuck => some "(reauth-err stuck)"
    | _, _, _, _, _, _ => some "(bad-op)"
  | _ => none

end CedarVerif.Ops
