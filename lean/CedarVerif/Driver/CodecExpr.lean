import CedarVerif.Driver.Codec
import CedarVerif.Cedar.Est.Est
/-
Printer `Expr → sexp` (same layout as the harness's `sx::expr`) and the JSON s-expression codec
`(null) (b true) (n 5) (s "…") (arr …) (obj ("k" v)…)`.  Driver-side glue.
-/
namespace CedarVerif
open Cedar Cedar.Est

def encPrim : Prim → Sexp
  | .bool b => .list [.atom "b", .atom (toString b)]
  | .int i => .list [.atom "i", .atom (toString i)]
  | .string s => .list [.atom "s", .str s]
  | .entityUID u => encUid u

def encVar : Var → String
  | .principal => "principal" | .action => "action" | .resource => "resource" | .context => "context"
def encSlotId : SlotId → String
  | .principal => "principal" | .resource => "resource"
def encUnary : UnaryOp → String
  | .not => "not" | .neg => "neg" | .isEmpty => "isEmpty"
def encBinary : BinaryOp → String
  | .eq => "eq" | .less => "less" | .lessEq => "lessEq" | .add => "add" | .sub => "sub" | .mul => "mul"
  | .mem => "in" | .contains => "contains" | .containsAll => "containsAll" | .containsAny => "containsAny"
  | .getTag => "getTag" | .hasTag => "hasTag"
def encTyAnn : TyAnn → Sexp
  | .bool => .atom "bool" | .long => .atom "long" | .string => .atom "string" | .set => .atom "set"
  | .record => .atom "record"
  | .entity t => .list [.atom "entity", .str t]
  | .ext t => .list [.atom "ext", .str t]
def encPatElem : PatElem → Sexp
  | .star => .atom "star"
  | .char c => .atom (toString c.toNat)

mutual
partial def encExpr : Expr → Sexp
  | .lit p => .list [.atom "lit", encPrim p]
  | .var v => .list [.atom "var", .atom (encVar v)]
  | .slot s => .list [.atom "slot", .atom (encSlotId s)]
  | .unknown n none => .list [.atom "unk", .str n]
  | .unknown n (some t) => .list [.atom "unk", .str n, encTyAnn t]
  | .ite c t e => .list [.atom "ite", encExpr c, encExpr t, encExpr e]
  | .and a b => .list [.atom "and", encExpr a, encExpr b]
  | .or a b => .list [.atom "or", encExpr a, encExpr b]
  | .unaryApp op a => .list [.atom "un", .atom (encUnary op), encExpr a]
  | .binaryApp op a b => .list [.atom "bin", .atom (encBinary op), encExpr a, encExpr b]
  | .call fn args => .list (.atom "call" :: .str fn :: args.map encExpr)
  | .getAttr e a => .list [.atom "get", encExpr e, .str a]
  | .hasAttr e a => .list [.atom "has", encExpr e, .str a]
  | .like e p => .list [.atom "like", encExpr e, .list (.atom "pat" :: p.map encPatElem)]
  | .is e t => .list [.atom "is", encExpr e, .str t]
  | .set es => .list (.atom "set" :: es.map encExpr)
  | .record kvs => .list (.atom "rec" :: kvs.map (fun (k, e) => .list [.str k, encExpr e]))
end

mutual
partial def decJson : Sexp → Option Json
  | .list [.atom "null"] => some .null
  | .list [.atom "b", .atom "true"] => some (.bool true)
  | .list [.atom "b", .atom "false"] => some (.bool false)
  | .list [.atom "n", n] => n.asInt?.map .num
  | .list [.atom "s", .str s] => some (.str s)
  | .list (.atom "arr" :: xs) => (decJsons xs).map .arr
  | .list (.atom "obj" :: kvs) => (decJsonKVs kvs).map .obj
  | _ => none
partial def decJsons : List Sexp → Option (List Json)
  | [] => some []
  | x :: xs => do let v ← decJson x; let vs ← decJsons xs; some (v :: vs)
partial def decJsonKVs : List Sexp → Option (List (String × Json))
  | [] => some []
  | .list [.str k, x] :: xs => do let v ← decJson x; let vs ← decJsonKVs xs; some ((k, v) :: vs)
  | _ => none
end

/-- canonical JSON printer: object members sorted by name (as the harness's `json_sx`) -/
partial def encJson : Json → String
  | .null => "(null)"
  | .bool b => s!"(b {b})"
  | .num i => s!"(n {i})"
  | .str s => "(s " ++ (Sexp.str s).toString ++ ")"
  | .arr xs => "(arr" ++ String.join (xs.map (fun x => " " ++ encJson x)) ++ ")"
  | .obj kvs =>
    let ms := kvs.map (fun (k, v) => (k, " (" ++ (Sexp.str k).toString ++ " " ++ encJson v ++ ")"))
    let sorted := ms.foldr (fun kv acc =>
      let rec ins : List (String × String) → List (String × String)
        | [] => [kv]
        | x :: xs => if kv.1 ≤ x.1 then kv :: x :: xs else x :: ins xs
      ins acc) []
    "(obj" ++ String.join (sorted.map (·.2)) ++ ")"

end CedarVerif
