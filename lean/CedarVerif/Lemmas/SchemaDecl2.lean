import CedarVerif.Cedar.SchemaDecl2
import CedarVerif.Lemmas.SchemaDecl
/-
C09 lemmas, declaration level part 2: enum entities, actions, common types, namespaces, fragments.
-/
namespace Cedar.SchemaSyntax

/-! ### enum entities -/

theorem parseEidsTail_print : ∀ (cs : List String) (rest : List Tok), cs ≠ [] →
    parseEidsTail (printStrs cs ++ tRbrack :: rest) = some (cs, rest)
  | [], _, h => absurd rfl h
  | [s], rest, _ => by simp [printStrs, parseEidsTail, tRbrack]
  | s :: s2 :: more, rest, _ => by
    have ih := parseEidsTail_print (s2 :: more) rest (by simp)
    simp only [printStrs, List.cons_append] at ih ⊢
    simp only [parseEidsTail, ih]

theorem parseEntityAny_enum (name : String) (cs : List String) (fuel : Nat) (rest : List Tok)
    (hn : validId name = true) (hr : name ≠ "__cedar") (hc : cs ≠ []) :
    parseEntityAny fuel (printEnumJ name cs ++ rest) = some (.enum [name] cs, rest) := by
  have h := parseEidsTail_print cs (tSemi :: rest) hc
  simp only [printEnumJ, List.cons_append, List.append_assoc, parseEntityAny, parseIdents, hn, if_true, tLbrack]
  simp only [List.cons_append, List.nil_append] at h ⊢
  rw [h]
  simp [tSemi, Ne.symm hr]

/-- what follows the names of a printed standard entity declaration is not `enum` -/
theorem entityCont_cases (ms : List QName) (as : AttrsC) (tags : Option TyCedar) (rest : List Tok) :
    let c := printInPart ms ++ (printShapePart as ++ (printTagsPart tags ++ tSemi :: rest))
    (∃ tl, c = .id "in" :: tl) ∨ (∃ tl, c = .other "=" :: tl) ∨ (∃ tl, c = .id "tags" :: tl) ∨ (∃ tl, c = .other ";" :: tl) := by
  intro c
  cases ms with
  | nil =>
    rcases shapeCont_cases as tags rest with ⟨tl, h⟩ | ⟨tl, h⟩ | ⟨tl, h⟩
    · exact Or.inr (Or.inl ⟨tl, by simpa [c, printInPart] using h⟩)
    · exact Or.inr (Or.inr (Or.inl ⟨tl, by simpa [c, printInPart] using h⟩))
    · exact Or.inr (Or.inr (Or.inr ⟨tl, by simpa [c, printInPart] using h⟩))
  | cons q qs => exact Or.inl ⟨_, by simp [c, printInPart]; rfl⟩

theorem parseEntityAny_standard (d : EntityDecl) (h : WFD d) (fuel : Nat) (hf : declFuel d ≤ fuel) (rest : List Tok) :
    parseEntityAny fuel (printEntity d ++ rest) = some (.standard d, rest) := by
  have hp := parseEntity_print d h fuel hf rest
  obtain ⟨names, memberOf, attrs, tags⟩ := d
  obtain ⟨hne, hvn, hvm, hwa, hwt⟩ := h
  have hR2 := shapeCont_cases attrs tags rest
  have hid := parseIdents_print names _ hne (fun n hn => (hvn n hn).1) (inCont_noComma memberOf _ hR2)
  have hc := entityCont_cases memberOf attrs tags rest
  simp only [printEntity, List.cons_append, List.append_assoc, List.nil_append] at hp hid ⊢
  simp only [parseEntityAny]
  rw [hid]
  rcases hc with ⟨tl, h⟩ | ⟨tl, h⟩ | ⟨tl, h⟩ | ⟨tl, h⟩
  all_goals
    split
    · rename_i heq
      rw [h] at heq
      simp at heq
    · rw [hp]

/-! ### actions -/

theorem parseNames_single (n : String) (cont : List Tok) (h : NoComma cont) :
    parseNames (.str n :: cont) = some ([n], cont) := by
  cases cont with
  | nil => simp [parseNames, parseAttrNameTok]
  | cons t r => cases t <;> simp_all [parseNames, parseAttrNameTok, NoComma]

theorem parseQualTail_print (cs : List String) (e : String) (rest : List Tok) (hv : ∀ c ∈ cs, validId c = true) :
    parseQualTail (printPathTail cs ++ .dcolon :: .str e :: rest) = some (cs, e, rest) := by
  induction cs with
  | nil => simp [printPathTail, parseQualTail]
  | cons c cs ih =>
    have hc := hv c (by simp)
    have ih' := ih (fun x hx => hv x (by simp [hx]))
    simp [printPathTail, parseQualTail, hc, ih']

/-- what the Cedar syntax can say about a parent: its type is always written (`Action` when absent) -/
def normActRef (r : ActRef) : ActRef := ⟨some (r.ty.getD actionTy), r.id⟩

def WFRef (r : ActRef) : Prop := ∀ q, r.ty = some q → ∀ c ∈ q.comps, validId c = true

theorem parseQualName_print (r : ActRef) (rest : List Tok) (hv : WFRef r) :
    parseQualName (printActRef r ++ rest) = some (normActRef r, rest) := by
  have hvq : ∀ c ∈ (r.ty.getD actionTy).comps, validId c = true := by
    cases hty : r.ty with
    | none => simp [actionTy, QName.comps]; decide
    | some q => simpa using hv q hty
  simp only [printActRef, normActRef]
  generalize r.ty.getD actionTy = q at hvq ⊢
  obtain ⟨path, base⟩ := q
  cases path with
  | nil =>
    have hb : validId base = true := hvq base (by simp [QName.comps])
    simp [printName, QName.comps, printPathTail, parseQualName, parseQualTail, hb, QName.ofComps]
  | cons s path =>
    have hs : validId s = true := hvq s (by simp [QName.comps])
    have hq := parseQualTail_print (path ++ [base]) r.id rest
      (fun c hc => hvq c (by simp [QName.comps] at hc ⊢; exact Or.inr hc))
    have hhead : ∃ tl, printPathTail (path ++ [base]) ++ Tok.dcolon :: Tok.str r.id :: rest = .dcolon :: tl := by
      cases path <;> simp [printPathTail]
    obtain ⟨tl, htl⟩ := hhead
    simp only [printName, QName.comps, List.cons_append, List.append_assoc, List.nil_append]
    rw [htl] at hq ⊢
    simp only [parseQualName, hs, if_true, hq]
    rw [ofComps_append path base s]

theorem parseQualNamesTail_print : ∀ (rs : List ActRef) (fuel : Nat) (rest : List Tok), rs ≠ [] → rs.length ≤ fuel →
    (∀ r ∈ rs, WFRef r) →
    parseQualNamesTail fuel (printActRefs rs ++ tRbrack :: rest) = some (rs.map normActRef, rest)
  | [], _, _, h, _, _ => absurd rfl h
  | [r], fuel, rest, _, hf, hv => by
    cases fuel with
    | zero => simp at hf
    | succ fuel =>
      have := parseQualName_print r (tRbrack :: rest) (hv r (by simp))
      simp only [tRbrack] at this
      simp only [printActRefs, parseQualNamesTail, tRbrack, this]
      simp
  | r :: r2 :: more, fuel, rest, _, hf, hv => by
    cases fuel with
    | zero => simp at hf
    | succ fuel =>
      have ih := parseQualNamesTail_print (r2 :: more) fuel rest (by simp) (by simp at hf ⊢; omega)
        (fun x hx => hv x (List.mem_cons_of_mem _ hx))
      have h1 := parseQualName_print r (.comma :: (printActRefs (r2 :: more) ++ tRbrack :: rest)) (hv r (by simp))
      simp only [printActRefs, List.append_assoc, List.cons_append]
      simp only [parseQualNamesTail, h1, ih]
      simp

/-- `Some([])` and `None` both print nothing -/
def normParents : Option (List ActRef) → Option (List ActRef)
  | some (p :: ps) => some ((p :: ps).map normActRef)
  | _ => none

theorem parseParentsPart_print (m : Option (List ActRef)) (fuel : Nat) (R : List Tok)
    (hv : ∀ l, m = some l → ∀ r ∈ l, WFRef r) (hf : ∀ l, m = some l → l.length ≤ fuel)
    (hR : (∃ tl, R = .id "appliesTo" :: tl) ∨ (∃ tl, R = .other ";" :: tl)) :
    parseParentsPart fuel (printParentsPart m ++ R) = some (normParents m, R) := by
  match m with
  | none => rcases hR with ⟨tl, h⟩ | ⟨tl, h⟩ <;> subst h <;> simp [printParentsPart, parseParentsPart, normParents]
  | some [] => rcases hR with ⟨tl, h⟩ | ⟨tl, h⟩ <;> subst h <;> simp [printParentsPart, parseParentsPart, normParents]
  | some (p :: ps) =>
    have h := parseQualNamesTail_print (p :: ps) fuel R (by simp) (hf _ rfl) (hv _ rfl)
    simp only [printParentsPart, List.cons_append, List.append_assoc, List.nil_append, parseParentsPart, tLbrack, normParents]
    rw [h]

theorem parseEntTypes_list (qs : List QName) (fuel : Nat) (rest : List Tok) (hne : qs ≠ []) (hf : qs.length ≤ fuel)
    (hv : ∀ q ∈ qs, ∀ c ∈ q.comps, validId c = true) :
    parseEntTypes fuel (tLbrack :: (printNames qs ++ tRbrack :: rest)) = some (qs, rest) := by
  obtain ⟨s, tl, hh⟩ := printNames_head qs hne
  have hp := parsePathsTail_print qs fuel rest hne hf hv
  rw [hh] at hp ⊢
  simp only [List.cons_append, tLbrack] at hp ⊢
  simp only [parseEntTypes]
  exact hp

/-- a context the Cedar syntax can write: a record or a name (`context: Set<…>` is not in the grammar) -/
def CtxOK (t : TyJson) : Prop := ∀ e, t ≠ .set e

def ctxItemOfC : TyCedar → AppItem
  | .record as => .ctxRec as
  | .ident q => .ctxPath q
  | .set _ => .ctxRec .nil

def ctxItemOf (t : TyJson) : AppItem := ctxItemOfC (toCedar t)

theorem parseAppItem_ctx (ctx : TyJson) (hw : WFJ ctx) (hok : CtxOK ctx) (fuel : Nat) (hf : sizeC (toCedar ctx) ≤ fuel)
    (rest : List Tok) :
    parseAppItem fuel (.id "context" :: .colon :: (printTy ctx ++ .rb :: rest)) = some (ctxItemOf ctx, .rb :: rest) := by
  have hwc := wfc_toCedar ctx hw
  have hc : ∀ e, toCedar ctx ≠ .set e := by
    intro e
    cases ctx <;> simp [toCedar]
    exact absurd rfl (hok _)
  rw [printTy_eq_printC]
  simp only [ctxItemOf]
  generalize toCedar ctx = c at hwc hc hf ⊢
  cases c with
  | set e => exact absurd rfl (hc e)
  | ident q =>
    obtain ⟨s, tl, h1, h2⟩ := parsePath_print q (.rb :: rest) (by simpa [WFC] using hwc) (okRest_rb _)
    simp only [printC]
    rw [h1]
    simp [parseAppItem, h2, ctxItemOfC]
  | record as =>
    have := parseC_print (.record as) hwc fuel (.rb :: rest) hf (okRest_rb _)
    simp only [printC, List.cons_append, List.append_assoc, List.nil_append] at this ⊢
    simp only [parseAppItem, this, ctxItemOfC]

def WFSpec (s : ApplySpecJ) : Prop :=
  (∀ q ∈ s.principals, ∀ c ∈ q.comps, validId c = true) ∧ (∀ q ∈ s.resources, ∀ c ∈ q.comps, validId c = true) ∧
  WFJ s.context ∧ CtxOK s.context

def appItemsOf : Option ApplySpecJ → Option (List AppItem)
  | some ⟨p :: ps, r :: rs, ctx⟩ => some [.pr true (p :: ps), .pr false (r :: rs), ctxItemOf ctx]
  | _ => none

def specFuel (s : ApplySpecJ) : Nat := s.principals.length + s.resources.length + sizeC (toCedar s.context) + 3

/-- fuel for the part that is printed -/
def specFuelO : Option ApplySpecJ → Nat
  | some ⟨p :: ps, r :: rs, ctx⟩ => specFuel ⟨p :: ps, r :: rs, ctx⟩
  | _ => 0

theorem parseAppliesPart_print (a : Option ApplySpecJ) (fuel : Nat) (rest : List Tok)
    (hw : ∀ s, a = some s → WFSpec s) (hf : specFuelO a ≤ fuel) :
    parseAppliesPart fuel (printAppliesPart a ++ tSemi :: rest) = some (appItemsOf a, tSemi :: rest) := by
  match a with
  | none => simp [printAppliesPart, parseAppliesPart, tSemi, appItemsOf]
  | some ⟨[], _, _⟩ => simp [printAppliesPart, parseAppliesPart, tSemi, appItemsOf]
  | some ⟨_ :: _, [], _⟩ => simp [printAppliesPart, parseAppliesPart, tSemi, appItemsOf]
  | some ⟨p :: ps, r :: rs, ctx⟩ =>
    obtain ⟨hp, hr, hwc, hok⟩ := hw _ rfl
    have hf' := hf
    simp only [specFuelO, specFuel, List.length_cons] at hf'
    obtain ⟨f, rfl⟩ : ∃ f, fuel = f + 3 := ⟨fuel - 3, by omega⟩
    have h3 := parseAppItem_ctx ctx hwc hok f (by omega) (tSemi :: rest)
    have h2 := parseEntTypes_list (r :: rs) (f + 1) (.comma :: .id "context" :: .colon :: (printTy ctx ++ .rb :: tSemi :: rest))
      (by simp) (by simp; omega) hr
    have h1 := parseEntTypes_list (p :: ps) (f + 2) (.comma :: .id "resource" :: .colon :: tLbrack :: (printNames (r :: rs) ++ tRbrack ::
      .comma :: .id "context" :: .colon :: (printTy ctx ++ .rb :: tSemi :: rest))) (by simp) (by simp; omega) hp
    have hA2 : parseAppItem (f + 1) (.id "resource" :: .colon :: tLbrack :: (printNames (r :: rs) ++ tRbrack ::
        .comma :: .id "context" :: .colon :: (printTy ctx ++ .rb :: tSemi :: rest))) = some (.pr false (r :: rs),
        .comma :: .id "context" :: .colon :: (printTy ctx ++ .rb :: tSemi :: rest)) := by
      simp only [parseAppItem, h2]
    have hA1 : parseAppItem (f + 2) (.id "principal" :: .colon :: tLbrack :: (printNames (p :: ps) ++ tRbrack :: .comma ::
        .id "resource" :: .colon :: tLbrack :: (printNames (r :: rs) ++ tRbrack ::
        .comma :: .id "context" :: .colon :: (printTy ctx ++ .rb :: tSemi :: rest)))) = some (.pr true (p :: ps),
        .comma :: .id "resource" :: .colon :: tLbrack :: (printNames (r :: rs) ++ tRbrack ::
        .comma :: .id "context" :: .colon :: (printTy ctx ++ .rb :: tSemi :: rest))) := by
      simp only [parseAppItem, h1]
    simp only [printAppliesPart, List.cons_append, List.append_assoc, List.nil_append, parseAppliesPart, appItemsOf]
    simp only [parseAppDecls, hA1, hA2, h3]

def WFAct (a : ActionJ) : Prop :=
  (∀ l, a.memberOf = some l → ∀ r ∈ l, WFRef r) ∧ (∀ s, a.appliesTo = some s → WFSpec s)

def actFuel (a : ActionJ) : Nat :=
  (match a.memberOf with | some l => l.length | none => 0) + specFuelO a.appliesTo

/-- the Cedar AST the printed action declaration denotes -/
def ActionJ.toDecl (name : String) (a : ActionJ) : ActionDeclC := ⟨[name], normParents a.memberOf, appItemsOf a.appliesTo⟩

theorem appliesCont_cases (a : Option ApplySpecJ) (rest : List Tok) :
    (∃ tl, printAppliesPart a ++ tSemi :: rest = .id "appliesTo" :: tl) ∨
    (∃ tl, printAppliesPart a ++ tSemi :: rest = .other ";" :: tl) := by
  match a with
  | none => exact Or.inr ⟨rest, by simp [printAppliesPart, tSemi]⟩
  | some ⟨[], _, _⟩ => exact Or.inr ⟨rest, by simp [printAppliesPart, tSemi]⟩
  | some ⟨_ :: _, [], _⟩ => exact Or.inr ⟨rest, by simp [printAppliesPart, tSemi]⟩
  | some ⟨p :: ps, r :: rs, ctx⟩ =>
    refine Or.inl ⟨(printAppliesPart (some ⟨p :: ps, r :: rs, ctx⟩) ++ tSemi :: rest).tail, ?_⟩
    simp only [printAppliesPart, List.cons_append, List.tail_cons]

theorem parentsCont_noComma (m : Option (List ActRef)) (R : List Tok)
    (hR : (∃ tl, R = .id "appliesTo" :: tl) ∨ (∃ tl, R = .other ";" :: tl)) : NoComma (printParentsPart m ++ R) := by
  match m with
  | none => rcases hR with ⟨tl, h⟩ | ⟨tl, h⟩ <;> subst h <;> simp [printParentsPart, NoComma]
  | some [] => rcases hR with ⟨tl, h⟩ | ⟨tl, h⟩ <;> subst h <;> simp [printParentsPart, NoComma]
  | some (p :: ps) => simp [printParentsPart, NoComma]

theorem parseAction_print (name : String) (a : ActionJ) (hw : WFAct a) (fuel : Nat) (hf : actFuel a ≤ fuel) (rest : List Tok) :
    parseAction fuel (printActionJ name a ++ rest) = some (a.toDecl name, rest) := by
  obtain ⟨m, ap⟩ := a
  obtain ⟨hwm, hws⟩ := hw
  simp only at hwm hws
  have hR := appliesCont_cases ap rest
  have hf1 : ∀ l, m = some l → l.length ≤ fuel := by
    intro l hl; subst hl; simp only [actFuel] at hf; omega
  have hf2 : specFuelO ap ≤ fuel := by
    simp only [actFuel] at hf; omega
  simp only [printActionJ, List.cons_append, List.append_assoc, List.nil_append, parseAction]
  rw [parseNames_single name _ (parentsCont_noComma m _ hR)]
  simp only []
  rw [parseParentsPart_print m fuel _ hwm hf1 hR]
  simp only []
  rw [parseAppliesPart_print ap fuel rest hws hf2]
  simp [tSemi, ActionJ.toDecl]

/-! ### common types -/

theorem parseCommon_print (name : String) (t : TyJson) (hn : validId name = true) (hr : name ≠ "__cedar")
    (hk : reservedCommonNames.contains name = false) (hw : WFJ t) (fuel : Nat) (hf : sizeC (toCedar t) ≤ fuel) (rest : List Tok) :
    parseCommon fuel (printCommonJ name t ++ rest) = some ((name, toCedar t), rest) := by
  have := parseC_print (toCedar t) (wfc_toCedar t hw) fuel (tSemi :: rest) hf (okRest_other _ _)
  simp only [tSemi] at this
  simp only [printCommonJ, List.cons_append, List.append_assoc, List.nil_append, parseCommon, tEq, tSemi, printTy_eq_printC, this]
  have hk' : ¬ name ∈ reservedCommonNames := by simpa using hk
  simp [hn, hr, hk']

/-! ### fuel bounds -/

theorem printActRefs_length : ∀ (rs : List ActRef), rs.length ≤ (printActRefs rs).length
  | [] => by simp [printActRefs]
  | [r] => by simp [printActRefs, printActRef]
  | r :: r2 :: more => by
    have ih := printActRefs_length (r2 :: more)
    simp only [printActRefs, printActRef, List.length_append, List.length_cons] at ih ⊢
    omega

theorem specFuelO_le_length (a : Option ApplySpecJ) : specFuelO a ≤ (printAppliesPart a).length := by
  match a with
  | none => simp [specFuelO]
  | some ⟨[], _, _⟩ => simp [specFuelO]
  | some ⟨_ :: _, [], _⟩ => simp [specFuelO]
  | some ⟨p :: ps, r :: rs, ctx⟩ =>
    have h1 := printNames_length (p :: ps)
    have h2 := printNames_length (r :: rs)
    have h3 := sizeC_le_length (toCedar ctx)
    simp only [specFuelO, specFuel, printAppliesPart, printTy_eq_printC, List.length_cons, List.length_append] at h1 h2 ⊢
    omega

theorem actFuel_le_length (name : String) (a : ActionJ) : actFuel a ≤ (printActionJ name a).length := by
  obtain ⟨m, ap⟩ := a
  have h2 := specFuelO_le_length ap
  have h1 : (match m with | some l => l.length | none => 0) ≤ (printParentsPart m).length := by
    match m with
    | none => simp
    | some [] => simp
    | some (p :: ps) =>
      have := printActRefs_length (p :: ps)
      simp only [printParentsPart, List.length_cons, List.length_append] at this ⊢
      omega
  simp only [actFuel, printActionJ, List.length_cons, List.length_append]
  omega

/-! ### one declaration -/

theorem parseDecl_of_action (toks tl : List Tok) (h : toks = .id "action" :: tl) :
    parseDecl toks = (match parseAction (toks.length + 1) toks with
      | some (d, r) => some (.action d, r)
      | none => none) := by
  subst h; simp [parseDecl]; rfl

theorem parseDecl_of_entity (toks tl : List Tok) (h : toks = .id "entity" :: tl) :
    parseDecl toks = (match parseEntityAny (toks.length + 1) toks with
      | some (d, r) => some (.ent d, r)
      | none => none) := by
  subst h; simp [parseDecl]; rfl

theorem parseDecl_of_type (toks tl : List Tok) (h : toks = .id "type" :: tl) :
    parseDecl toks = (match parseCommon (toks.length + 1) toks with
      | some ((n, t), r) => some (.common n t, r)
      | none => none) := by
  subst h; simp [parseDecl]; rfl

/-- a printed declaration: it starts a declaration and `parseDecl` reads it back, whatever follows -/
def GoodDecl (P : List Tok) (D : DeclC) : Prop :=
  ∀ rest, isDeclStart (P ++ rest) = true ∧ parseDecl (P ++ rest) = some (D, rest)

theorem goodDecl_action (name : String) (a : ActionJ) (hw : WFAct a) :
    GoodDecl (printActionJ name a) (.action (a.toDecl name)) := by
  intro rest
  have hlen := actFuel_le_length name a
  have h := parseAction_print name a hw ((printActionJ name a ++ rest).length + 1) (by simp only [List.length_append]; omega) rest
  have hh : printActionJ name a ++ rest =
      .id "action" :: (.str name :: (printParentsPart a.memberOf ++ (printAppliesPart a.appliesTo ++ [tSemi])) ++ rest) := by
    simp [printActionJ]
  refine ⟨by rw [hh]; simp [isDeclStart], ?_⟩
  rw [parseDecl_of_action _ _ hh, h]

theorem goodDecl_common (name : String) (t : TyJson) (hn : validId name = true) (hr : name ≠ "__cedar")
    (hk : reservedCommonNames.contains name = false) (hw : WFJ t) :
    GoodDecl (printCommonJ name t) (.common name (toCedar t)) := by
  intro rest
  have hlen := sizeC_le_length (toCedar t)
  have h := parseCommon_print name t hn hr hk hw ((printCommonJ name t ++ rest).length + 1)
    (by simp only [printCommonJ, printTy_eq_printC, List.length_append, List.length_cons]; omega) rest
  have hh : printCommonJ name t ++ rest = .id "type" :: (.id name :: tEq :: (printTy t ++ [tSemi]) ++ rest) := by
    simp [printCommonJ]
  refine ⟨by rw [hh]; simp [isDeclStart], ?_⟩
  rw [parseDecl_of_type _ _ hh, h]

/-- JSON-level well-formedness of an entity-type entry -/
def WFEntJ (name : String) : EntityKindJ → Prop
  | .standard e => validId name = true ∧ name ≠ "__cedar" ∧ (∀ q ∈ e.memberOf, ∀ c ∈ q.comps, validId c = true) ∧
      WFJ (.record e.shape) ∧ (∀ t, e.tags = some t → WFJ t)
  | .enum cs => validId name = true ∧ name ≠ "__cedar" ∧ cs ≠ []

def entDeclOf (name : String) : EntityKindJ → EntDeclC
  | .standard e => .standard (e.toDecl name)
  | .enum cs => .enum [name] cs

theorem wfd_toDecl (name : String) (e : EntityTypeJ) (h : WFEntJ name (.standard e)) : WFD (e.toDecl name) := by
  obtain ⟨hn, hr, hm, hws, hwt⟩ := h
  refine ⟨by simp [EntityTypeJ.toDecl], ?_, hm, ?_, ?_⟩
  · intro n hn'; simp [EntityTypeJ.toDecl] at hn'; subst hn'; exact ⟨hn, hr⟩
  · have := wfc_toCedar (.record e.shape) hws
    simpa [toCedar, WFC, EntityTypeJ.toDecl] using this
  · intro t ht
    simp only [EntityTypeJ.toDecl, Option.map_eq_some_iff] at ht
    obtain ⟨tj, htj, rfl⟩ := ht
    exact wfc_toCedar tj (hwt tj htj)

theorem goodDecl_entity (name : String) (k : EntityKindJ) (hw : WFEntJ name k) :
    GoodDecl (printEntityKindJ name k) (.ent (entDeclOf name k)) := by
  intro rest
  cases k with
  | standard e =>
    have hwf := wfd_toDecl name e hw
    have hlen := declFuel_le_length (e.toDecl name)
    have h := parseEntityAny_standard (e.toDecl name) hwf ((printEntity (e.toDecl name) ++ rest).length + 1)
      (by simp only [List.length_append]; omega) rest
    have hh : printEntity (e.toDecl name) ++ rest = .id "entity" :: ((printEntity (e.toDecl name)).tail ++ rest) := by
      simp [printEntity]
    simp only [printEntityKindJ, entDeclOf]
    refine ⟨by rw [hh]; simp [isDeclStart], ?_⟩
    rw [parseDecl_of_entity _ _ hh, h]
  | enum cs =>
    obtain ⟨hn, hr, hc⟩ := hw
    have h := parseEntityAny_enum name cs ((printEnumJ name cs ++ rest).length + 1) rest hn hr hc
    have hh : printEnumJ name cs ++ rest = .id "entity" :: ((printEnumJ name cs).tail ++ rest) := by
      simp [printEnumJ]
    simp only [printEntityKindJ, entDeclOf]
    refine ⟨by rw [hh]; simp [isDeclStart], ?_⟩
    rw [parseDecl_of_entity _ _ hh, h]

/-! ### declaration lists -/

def printPairs : List (List Tok × DeclC) → List Tok
  | [] => []
  | (P, _) :: l => P ++ printPairs l

theorem printPairs_append (a b : List (List Tok × DeclC)) : printPairs (a ++ b) = printPairs a ++ printPairs b := by
  induction a with
  | nil => simp [printPairs]
  | cons x a ih => obtain ⟨P, D⟩ := x; simp [printPairs, ih]

theorem parseDeclList_pairs : ∀ (L : List (List Tok × DeclC)) (fuel : Nat) (rest : List Tok),
    (∀ x ∈ L, GoodDecl x.1 x.2) → isDeclStart rest = false → L.length < fuel →
    parseDeclList fuel (printPairs L ++ rest) = some (L.map (·.2), rest)
  | [], fuel, rest, _, hr, hf => by
    obtain ⟨f, rfl⟩ : ∃ f, fuel = f + 1 := ⟨fuel - 1, by omega⟩
    simp [printPairs, parseDeclList, hr]
  | (P, D) :: L, fuel, rest, hg, hr, hf => by
    obtain ⟨f, rfl⟩ : ∃ f, fuel = f + 1 := ⟨fuel - 1, by omega⟩
    have ih := parseDeclList_pairs L f rest (fun x hx => hg x (List.mem_cons_of_mem _ hx)) hr (by simp at hf; omega)
    obtain ⟨hs, hp⟩ := hg (P, D) (by simp) (printPairs L ++ rest)
    simp only [printPairs, List.append_assoc]
    simp only [parseDeclList, hs, if_true, hp, ih, List.map_cons]

theorem parseItems_declStart (f : Nat) (toks : List Tok) (h : isDeclStart toks = true) :
    parseItems (f + 1) toks = (match parseDecl toks with
      | some (d, r) =>
        (match parseItems f r with
          | some its => some (.decl d :: its)
          | none => none)
      | none => none) := by
  have : ∃ k tl, toks = .id k :: tl ∧ k ≠ "namespace" := by
    unfold isDeclStart at h
    split at h <;> simp_all
  obtain ⟨k, tl, rfl, hk⟩ := this
  rw [parseItems]
  · rfl
  · intro heq; simp at heq
  · intro s r heq
    simp only [List.cons.injEq, Tok.id.injEq] at heq
    exact hk heq.1

theorem parseItems_pairs : ∀ (L : List (List Tok × DeclC)) (fuel : Nat) (rest : List Tok) (its : List ItemC),
    (∀ x ∈ L, GoodDecl x.1 x.2) → (∀ f', fuel ≤ f' → parseItems f' rest = some its) →
    ∀ f', fuel + L.length ≤ f' → parseItems f' (printPairs L ++ rest) = some (L.map (fun x => .decl x.2) ++ its)
  | [], fuel, rest, its, _, h => by
    intro f' hf'
    simpa [printPairs] using h f' (by simpa using hf')
  | (P, D) :: L, fuel, rest, its, hg, h => by
    intro f' hf'
    simp only [List.length_cons] at hf'
    obtain ⟨g, rfl⟩ : ∃ g, f' = g + 1 := ⟨f' - 1, by omega⟩
    have ih := parseItems_pairs L fuel rest its (fun x hx => hg x (List.mem_cons_of_mem _ hx)) h g (by omega)
    obtain ⟨hs, hp⟩ := hg (P, D) (by simp) (printPairs L ++ rest)
    simp only [printPairs, List.append_assoc]
    rw [parseItems_declStart _ _ hs, hp]
    simp only [ih, List.map_cons, List.cons_append]

/-! ### namespaces and fragments: parsing -/

def pairsOfCommons (l : List (String × TyJson)) : List (List Tok × DeclC) :=
  l.map fun x => (printCommonJ x.1 x.2, .common x.1 (toCedar x.2))
def pairsOfEntities (l : List (String × EntityKindJ)) : List (List Tok × DeclC) :=
  l.map fun x => (printEntityKindJ x.1 x.2, .ent (entDeclOf x.1 x.2))
def pairsOfActions (l : List (String × ActionJ)) : List (List Tok × DeclC) :=
  l.map fun x => (printActionJ x.1 x.2, .action (x.2.toDecl x.1))
def pairsOfNs (d : NamespaceJ) : List (List Tok × DeclC) :=
  pairsOfCommons d.commons ++ (pairsOfEntities d.entities ++ pairsOfActions d.actions)

/-- the Cedar declarations the printed namespace body denotes -/
def declsOfNs (d : NamespaceJ) : List DeclC := (pairsOfNs d).map (·.2)

theorem printPairs_commons (l : List (String × TyJson)) : printPairs (pairsOfCommons l) = printCommonsJ l := by
  induction l with
  | nil => rfl
  | cons x l ih =>
    obtain ⟨n, t⟩ := x
    simp only [pairsOfCommons, List.map_cons, printPairs, printCommonsJ] at ih ⊢
    rw [ih]

theorem printPairs_entities (l : List (String × EntityKindJ)) : printPairs (pairsOfEntities l) = printEntitiesJ l := by
  induction l with
  | nil => rfl
  | cons x l ih =>
    obtain ⟨n, t⟩ := x
    simp only [pairsOfEntities, List.map_cons, printPairs, printEntitiesJ] at ih ⊢
    rw [ih]

theorem printPairs_actions (l : List (String × ActionJ)) : printPairs (pairsOfActions l) = printActionsJ l := by
  induction l with
  | nil => rfl
  | cons x l ih =>
    obtain ⟨n, t⟩ := x
    simp only [pairsOfActions, List.map_cons, printPairs, printActionsJ] at ih ⊢
    rw [ih]

theorem printPairs_ns (d : NamespaceJ) : printPairs (pairsOfNs d) = printNsJ d := by
  simp [pairsOfNs, printPairs_append, printPairs_commons, printPairs_entities, printPairs_actions, printNsJ]

/-- JSON-level well-formedness of a namespace: declared names are identifiers the grammar accepts (not `__cedar`, common-type names
not reserved), every path component too, enum choice lists non-empty, contexts are records or names -/
def WFNs (d : NamespaceJ) : Prop :=
  (∀ x ∈ d.commons, validId x.1 = true ∧ x.1 ≠ "__cedar" ∧ reservedCommonNames.contains x.1 = false ∧ WFJ x.2) ∧
  (∀ x ∈ d.entities, WFEntJ x.1 x.2) ∧ (∀ x ∈ d.actions, WFAct x.2)

theorem good_pairsOfNs (d : NamespaceJ) (h : WFNs d) : ∀ x ∈ pairsOfNs d, GoodDecl x.1 x.2 := by
  intro x hx
  simp only [pairsOfNs, List.mem_append, pairsOfCommons, pairsOfEntities, pairsOfActions, List.mem_map] at hx
  rcases hx with ⟨y, hy, rfl⟩ | ⟨y, hy, rfl⟩ | ⟨y, hy, rfl⟩
  · obtain ⟨a, b, c, e⟩ := h.1 y hy
    exact goodDecl_common _ _ a b c e
  · exact goodDecl_entity _ _ (h.2.1 y hy)
  · exact goodDecl_action _ _ (h.2.2 y hy)

def nsCount (d : NamespaceJ) : Nat := d.commons.length + d.entities.length + d.actions.length

theorem pairsOfNs_length (d : NamespaceJ) : (pairsOfNs d).length = nsCount d := by
  simp [pairsOfNs, nsCount, pairsOfCommons, pairsOfEntities, pairsOfActions]; omega

def WFNamed (l : List (QName × NamespaceJ)) : Prop :=
  ∀ x ∈ l, (∀ c ∈ x.1.comps, validId c = true) ∧ x.1.isReserved = false ∧ WFNs x.2

def namedFuel : List (QName × NamespaceJ) → Nat
  | [] => 1
  | (_, d) :: l => nsCount d + 2 + namedFuel l

theorem parseItems_named : ∀ (l : List (QName × NamespaceJ)), WFNamed l → ∀ f', namedFuel l ≤ f' →
    parseItems f' (printNamedJ l) = some (l.map fun x => .ns x.1 (declsOfNs x.2))
  | [], _, f', hf => by
    obtain ⟨g, rfl⟩ : ∃ g, f' = g + 1 := ⟨f' - 1, by simp [namedFuel] at hf; omega⟩
    simp [printNamedJ, parseItems]
  | (q, d) :: l, hw, f', hf => by
    simp only [namedFuel] at hf
    obtain ⟨g, rfl⟩ : ∃ g, f' = g + 1 := ⟨f' - 1, by omega⟩
    obtain ⟨hq, hres, hd⟩ := hw (q, d) (by simp)
    have ih := parseItems_named l (fun x hx => hw x (List.mem_cons_of_mem _ hx)) g (by omega)
    have hdl := parseDeclList_pairs (pairsOfNs d) g (.rb :: printNamedJ l) (good_pairsOfNs d hd) (by simp [isDeclStart])
      (by rw [pairsOfNs_length]; omega)
    rw [printPairs_ns] at hdl
    obtain ⟨s, tl, h1, h2⟩ := parsePath_print q (.lb :: (printNsJ d ++ .rb :: printNamedJ l)) hq (by simp [OkRest])
    simp only [printNamedJ]
    rw [h1]
    simp only [parseItems, h2, hdl, hres, ih, declsOfNs, List.map_cons]
    simp

theorem printPairs_length : ∀ (L : List (List Tok × DeclC)), (∀ x ∈ L, GoodDecl x.1 x.2) → L.length ≤ (printPairs L).length
  | [], _ => by simp
  | (P, D) :: L, hg => by
    have ih := printPairs_length L (fun x hx => hg x (List.mem_cons_of_mem _ hx))
    have hp : 1 ≤ P.length := by
      have := (hg (P, D) (by simp) []).1
      cases P with
      | nil => simp [isDeclStart] at this
      | cons a b => simp
    simp only [printPairs, List.length_cons, List.length_append]
    omega

theorem namedFuel_le_length : ∀ (l : List (QName × NamespaceJ)), WFNamed l → namedFuel l ≤ (printNamedJ l).length + 1
  | [], _ => by simp [namedFuel]
  | (q, d) :: l, hw => by
    have ih := namedFuel_le_length l (fun x hx => hw x (List.mem_cons_of_mem _ hx))
    have h1 := printPairs_length (pairsOfNs d) (good_pairsOfNs d (hw (q, d) (by simp)).2.2)
    rw [printPairs_ns, pairsOfNs_length] at h1
    have h2 := printName_length q
    simp only [namedFuel, printNamedJ, List.length_cons, List.length_append]
    omega

/-- the items the printed fragment denotes -/
def itemsOf (f : FragmentJ) : List ItemC :=
  (match f.empty with
    | some d => (pairsOfNs d).map (fun x => .decl x.2)
    | none => []) ++ f.named.map fun x => .ns x.1 (declsOfNs x.2)

def WFFrag (f : FragmentJ) : Prop := (∀ d, f.empty = some d → WFNs d) ∧ WFNamed f.named

theorem parseItems_fragment (f : FragmentJ) (hw : WFFrag f) :
    parseItems ((printFragmentJ f).length + 1) (printFragmentJ f) = some (itemsOf f) := by
  obtain ⟨e, named⟩ := f
  obtain ⟨hwe, hwn⟩ := hw
  simp only at hwe hwn
  have hn := parseItems_named named hwn
  have hlen := namedFuel_le_length named hwn
  cases e with
  | none =>
    simp only [printFragmentJ, itemsOf, List.nil_append]
    exact hn _ (by omega)
  | some d =>
    have hg := good_pairsOfNs d (hwe d rfl)
    have h := parseItems_pairs (pairsOfNs d) (namedFuel named) (printNamedJ named) _ hg hn
    have hl := printPairs_length (pairsOfNs d) hg
    rw [printPairs_ns] at h hl
    simp only [printFragmentJ, itemsOf]
    exact h _ (by simp only [List.length_append]; omega)

/-! ### namespaces and fragments: conversion to the JSON form, `normalise` -/

/-- what a context becomes: a record keeps its shape (leaves entity-or-common), a name of any kind (primitive, extension, entity,
common, entity-or-common) is re-read as a MUST-BE-COMMON reference (to_json_schema.rs `convert_context_decl`) -/
def normCtx : TyJson → TyJson
  | .record as => .record (eocFormAttrs as)
  | .set e => .set e
  | .bool => .commonRef (cedarName "Bool")
  | .long => .commonRef (cedarName "Long")
  | .string => .commonRef (cedarName "String")
  | .ext n => .commonRef (cedarName n)
  | .entity n => .commonRef n
  | .entityOrCommon n => .commonRef n
  | .commonRef n => .commonRef n

/-- an `appliesTo` with an empty principal or resource list — or none at all — comes back as the EMPTY `ApplySpec`
(fmt.rs prints nothing: the other list and the context are lost) -/
def normApply : Option ApplySpecJ → ApplySpecJ
  | some ⟨p :: ps, r :: rs, ctx⟩ => ⟨p :: ps, r :: rs, normCtx ctx⟩
  | _ => ⟨[], [], .record .nil⟩

def normAction (a : ActionJ) : ActionJ := ⟨normParents a.memberOf, some (normApply a.appliesTo)⟩

def normEnt : EntityKindJ → EntityKindJ
  | .standard e => .standard { memberOf := e.memberOf, shape := eocFormAttrs e.shape, tags := e.tags.map eocForm }
  | .enum cs => .enum cs

def normNs (d : NamespaceJ) : NamespaceJ :=
  ⟨d.commons.map fun x => (x.1, eocForm x.2), d.entities.map fun x => (x.1, normEnt x.2), d.actions.map fun x => (x.1, normAction x.2)⟩

/-- an empty-namespace entry without declarations prints nothing and is absent afterwards -/
def normFragment (f : FragmentJ) : FragmentJ :=
  ⟨match f.empty with
    | some d => if nsCount d = 0 then none else some (normNs d)
    | none => none,
   f.named.map fun x => (x.1, normNs x.2)⟩

def SortedEnt : EntityKindJ → Prop
  | .standard e => SortedT (.record e.shape) ∧ (∀ t, e.tags = some t → SortedT t)
  | .enum _ => True

/-- record attributes are in `BTreeMap` order (true of every deserialised JSON schema) -/
def SortedNs (d : NamespaceJ) : Prop :=
  (∀ x ∈ d.commons, SortedT x.2) ∧ (∀ x ∈ d.entities, SortedEnt x.2) ∧
  (∀ x ∈ d.actions, ∀ s, x.2.appliesTo = some s → SortedT s.context)

def ctxItemJson : AppItem → TyJson
  | .ctxPath q => .commonRef q
  | .ctxRec as => .record (collectJ .nil as)
  | .pr _ _ => .record .nil

theorem ctx_norm (t : TyJson) (hs : SortedT t) (hok : CtxOK t) : ctxItemJson (ctxItemOf t) = normCtx t := by
  cases t with
  | set e => exact absurd rfl (hok e)
  | record as =>
    have := normalize_eq_eocForm (.record as) hs
    simp only [toCedar, toJson, eocForm, TyJson.record.injEq] at this
    simp [ctxItemOf, toCedar, ctxItemOfC, ctxItemJson, normCtx, this]
  | _ => simp [ctxItemOf, toCedar, ctxItemOfC, ctxItemJson, normCtx]

theorem convertApp_three (ps rs : List QName) (p r : QName) (it : AppItem) (hit : ∀ b ts, it ≠ .pr b ts) :
    convertApp [.pr true (p :: ps), .pr false (r :: rs), it] ⟨none, none, none⟩ = some ⟨p :: ps, r :: rs, ctxItemJson it⟩ := by
  cases it with
  | pr b ts => exact absurd rfl (hit b ts)
  | ctxPath q => simp [convertApp, ctxItemJson]
  | ctxRec as => simp [convertApp, ctxItemJson]

theorem ctxItemOf_not_pr (t : TyJson) : ∀ b ts, ctxItemOf t ≠ .pr b ts := by
  intro b ts
  simp only [ctxItemOf]
  cases toCedar t <;> simp [ctxItemOfC]

theorem toJsonActions_toDecl (name : String) (a : ActionJ)
    (hs : ∀ s, a.appliesTo = some s → SortedT s.context ∧ CtxOK s.context) :
    (a.toDecl name).toJsonActions = some [(name, normAction a)] := by
  obtain ⟨m, ap⟩ := a
  match ap, hs with
  | none, _ => simp [ActionJ.toDecl, ActionDeclC.toJsonActions, appItemsOf, normAction, normApply]
  | some ⟨[], _, _⟩, _ => simp [ActionJ.toDecl, ActionDeclC.toJsonActions, appItemsOf, normAction, normApply]
  | some ⟨_ :: _, [], _⟩, _ => simp [ActionJ.toDecl, ActionDeclC.toJsonActions, appItemsOf, normAction, normApply]
  | some ⟨p :: ps, r :: rs, ctx⟩, hs =>
    obtain ⟨h1, h2⟩ := hs _ rfl
    simp only [ActionJ.toDecl, ActionDeclC.toJsonActions, appItemsOf, convertApp_three ps rs p r _ (ctxItemOf_not_pr ctx),
      ctx_norm ctx h1 h2, normAction, normApply, List.map_cons, List.map_nil]

theorem toJsonKinds_entDeclOf (name : String) (k : EntityKindJ) (hs : SortedEnt k) :
    (entDeclOf name k).toJsonKinds = [(name, normEnt k)] := by
  cases k with
  | enum cs => simp [entDeclOf, EntDeclC.toJsonKinds, normEnt]
  | standard e =>
    obtain ⟨hss, hst⟩ := hs
    have hshape : collectJ .nil (toCedarAttrs e.shape) = eocFormAttrs e.shape := by
      have := normalize_eq_eocForm (.record e.shape) hss
      simpa [toCedar, toJson, eocForm] using this
    have htags : (e.tags.map toCedar).map toJson = e.tags.map eocForm := by
      cases ht : e.tags with
      | none => rfl
      | some t => simp [normalize_eq_eocForm t (hst t ht)]
    simp [entDeclOf, EntDeclC.toJsonKinds, normEnt, EntityDecl.toJsonTypes, EntityTypeJ.toDecl, hshape, htags]

theorem convertDecls_commons : ∀ (l : List (String × TyJson)) (ds : List DeclC) (ns : NamespaceJ),
    (∀ x ∈ l, SortedT x.2) → convertDecls ds = some ns →
    convertDecls ((pairsOfCommons l).map (·.2) ++ ds) = some { ns with commons := l.map (fun x => (x.1, eocForm x.2)) ++ ns.commons }
  | [], ds, ns, _, h => by simpa [pairsOfCommons] using h
  | (n, t) :: l, ds, ns, hs, h => by
    have ih := convertDecls_commons l ds ns (fun x hx => hs x (List.mem_cons_of_mem _ hx)) h
    simp only [pairsOfCommons, List.map_cons, List.map_map, List.cons_append] at ih ⊢
    simp only [convertDecls, ih, normalize_eq_eocForm t (hs (n, t) (by simp))]

theorem convertDecls_entities : ∀ (l : List (String × EntityKindJ)) (ds : List DeclC) (ns : NamespaceJ),
    (∀ x ∈ l, SortedEnt x.2) → convertDecls ds = some ns →
    convertDecls ((pairsOfEntities l).map (·.2) ++ ds) = some { ns with entities := l.map (fun x => (x.1, normEnt x.2)) ++ ns.entities }
  | [], ds, ns, _, h => by simpa [pairsOfEntities] using h
  | (n, k) :: l, ds, ns, hs, h => by
    have ih := convertDecls_entities l ds ns (fun x hx => hs x (List.mem_cons_of_mem _ hx)) h
    simp only [pairsOfEntities, List.map_cons, List.map_map, List.cons_append] at ih ⊢
    simp only [convertDecls, ih, toJsonKinds_entDeclOf n k (hs (n, k) (by simp))]
    simp

theorem convertDecls_actions : ∀ (l : List (String × ActionJ)) (ds : List DeclC) (ns : NamespaceJ),
    (∀ x ∈ l, ∀ s, x.2.appliesTo = some s → SortedT s.context ∧ CtxOK s.context) → convertDecls ds = some ns →
    convertDecls ((pairsOfActions l).map (·.2) ++ ds) = some { ns with actions := l.map (fun x => (x.1, normAction x.2)) ++ ns.actions }
  | [], ds, ns, _, h => by simpa [pairsOfActions] using h
  | (n, a) :: l, ds, ns, hs, h => by
    have ih := convertDecls_actions l ds ns (fun x hx => hs x (List.mem_cons_of_mem _ hx)) h
    simp only [pairsOfActions, List.map_cons, List.map_map, List.cons_append] at ih ⊢
    simp only [convertDecls, ih, toJsonActions_toDecl n a (hs (n, a) (by simp))]
    simp

theorem convertDecls_ns (d : NamespaceJ) (hw : WFNs d) (hs : SortedNs d) : convertDecls (declsOfNs d) = some (normNs d) := by
  obtain ⟨cs, es, as⟩ := d
  obtain ⟨hs1, hs2, hs3⟩ := hs
  have h3 := convertDecls_actions as [] ⟨[], [], []⟩
    (fun x hx s hsx => ⟨hs3 x hx s hsx, (hw.2.2 x hx).2 s hsx |>.2.2.2⟩) (by simp [convertDecls])
  have h2 := convertDecls_entities es _ _ hs2 h3
  have h1 := convertDecls_commons cs _ _ hs1 h2
  simp only [declsOfNs, pairsOfNs, List.map_append, List.append_nil] at h1 ⊢
  rw [h1]
  simp [normNs]

theorem convertItems_named : ∀ (l : List (QName × NamespaceJ)), WFNamed l → (∀ x ∈ l, SortedNs x.2) →
    convertItems (l.map fun x => .ns x.1 (declsOfNs x.2)) = some ([], l.map fun x => (x.1, normNs x.2))
  | [], _, _ => by simp [convertItems]
  | (q, d) :: l, hw, hs => by
    have ih := convertItems_named l (fun x hx => hw x (List.mem_cons_of_mem _ hx)) (fun x hx => hs x (List.mem_cons_of_mem _ hx))
    simp only [List.map_cons, convertItems, ih, convertDecls_ns d (hw (q, d) (by simp)).2.2 (hs (q, d) (by simp))]

theorem convertItems_decls : ∀ (L : List DeclC) (rest : List ItemC) (u : List DeclC) (n : List (QName × NamespaceJ)),
    convertItems rest = some (u, n) → convertItems (L.map .decl ++ rest) = some (L ++ u, n)
  | [], _, _, _, h => by simpa using h
  | d :: L, rest, u, n, h => by
    have ih := convertItems_decls L rest u n h
    simp only [List.map_cons, List.cons_append, convertItems, ih]

def SortedFrag (f : FragmentJ) : Prop := (∀ d, f.empty = some d → SortedNs d) ∧ (∀ x ∈ f.named, SortedNs x.2)

theorem toJsonFragment_itemsOf (f : FragmentJ) (hw : WFFrag f) (hs : SortedFrag f) :
    toJsonFragment (itemsOf f) = some (normFragment f) := by
  obtain ⟨e, named⟩ := f
  obtain ⟨hwe, hwn⟩ := hw
  obtain ⟨hse, hsn⟩ := hs
  simp only at hwe hwn hse hsn
  have hn := convertItems_named named hwn hsn
  cases e with
  | none => simp [itemsOf, toJsonFragment, hn, normFragment]
  | some d =>
    have hc := convertDecls_ns d (hwe d rfl) (hse d rfl)
    have hd := convertItems_decls (declsOfNs d) _ _ _ hn
    have hcount : (declsOfNs d).length = nsCount d := by simp [declsOfNs, pairsOfNs_length]
    simp only [itemsOf, normFragment]
    have hmap : (pairsOfNs d).map (fun x => ItemC.decl x.2) = (declsOfNs d).map .decl := by simp [declsOfNs]
    rw [hmap]
    simp only [toJsonFragment, hd, List.append_nil]
    cases hL : declsOfNs d with
    | nil =>
      rw [hL] at hcount
      simp at hcount
      simp [← hcount]
    | cons x xs =>
      rw [hL] at hcount hc
      simp only [List.length_cons] at hcount
      have : nsCount d ≠ 0 := by omega
      simp [hc, this]
