import CedarVerif.Lemmas.TypecheckSound2
import CedarVerif.Lemmas.TypecheckPRules
/-
C03: soundness of the typechecker model in PERMISSIVE mode on the fragment `InFragmentP` — the fragment of
`soundM .permissive` (every construct, joins with a flat side) closed under the constructs that permissive mode types
with NON-FLAT joins: `if` with two arbitrary branch types (entity-type unions, record joins), set literals of arbitrary
element types (also `[]`), and `==`, `contains`, `containsAll`, `containsAny`, `isEmpty` over such operands.
The invariant drops `mono` (the types are no longer single-entity types): the static type is not `Never`, and `Good`.
-/
namespace Cedar.C03

open Cedar

/-- expressions whose permissive type obviously has distinct record keys: flat kinds, literals, `principal` `action`
`resource`, slots (needed of the `then` branch of a join and of the elements of a set literal, see `plub_inst_l`) -/
def ndBase (e : Expr) : Bool :=
  FlatExpr e || (match e with
    | .lit _ => true
    | .var .principal => true
    | .var .resource => true
    | .var .action => true
    | .slot _ => true
    | _ => false)

theorem flat_nd {τ : CedarType} (h : τ.flat = true) : ndTy τ = true := by
  cases τ <;> simp [CedarType.flat] at h <;> rfl

theorem ndBase_nd {s : Schema} {env : RequestEnv} {e : Expr} {caps : Capabilities} {τ : CedarType} {c : Capabilities}
    (hb : ndBase e = true) (h : typeOf .permissive s env e caps = .ok (τ, c)) : ndTy τ = true := by
  unfold ndBase at hb
  rw [Bool.or_eq_true] at hb
  rcases hb with hb | hb
  · exact flat_nd (flat_typeOf hb h)
  · cases e with
    | lit p =>
      cases p with
      | entityUID u =>
        simp only [typeOf] at h
        cases hl : euidLiteralType s u with
        | none => rw [hl] at h; cases h
        | some τ' =>
          rw [hl] at h
          simp only [ok, Except.ok.injEq, Prod.mk.injEq] at h
          rw [← h.1, euidLiteralType_some hl]; rfl
      | bool b => exact flat_nd (flat_typeOf (e := .lit (.bool b)) rfl h)
      | int i => exact flat_nd (flat_typeOf (e := .lit (.int i)) rfl h)
      | string x => exact flat_nd (flat_typeOf (e := .lit (.string x)) rfl h)
    | var v =>
      cases v with
      | principal => simp only [typeOf, ok, Except.ok.injEq, Prod.mk.injEq] at h; rw [← h.1]; rfl
      | resource => simp only [typeOf, ok, Except.ok.injEq, Prod.mk.injEq] at h; rw [← h.1]; rfl
      | action =>
        simp only [typeOf] at h
        cases hl : euidLiteralType s env.action with
        | none => rw [hl] at h; cases h
        | some τ' =>
          rw [hl] at h
          simp only [ok, Except.ok.injEq, Prod.mk.injEq] at h
          rw [← h.1, euidLiteralType_some hl]; rfl
      | context => simp at hb
    | slot sid =>
      cases sid <;>
        (simp only [typeOf, ok, Except.ok.injEq, Prod.mk.injEq] at h; rw [← h.1]; split <;> rfl)
    | _ => simp at hb

theorem typeOfList_ndBase {s : Schema} {env : RequestEnv} {caps : Capabilities} :
    ∀ {es : List Expr} {τs : List CedarType}, es.all ndBase = true → typeOfList .permissive s env es caps = .ok τs →
      ∀ t, t ∈ τs → ndTy t = true
  | [], τs, _, h, t, ht => by simp only [typeOfList, Except.ok.injEq] at h; subst h; cases ht
  | e :: es, τs, hf, h, t, ht => by
    simp only [List.all_cons, Bool.and_eq_true] at hf
    obtain ⟨τ, c, τs', h1, h2, rfl⟩ := typeOfList_cons h
    rcases List.mem_cons.mp ht with rfl | ht
    · exact ndBase_nd hf.1 h1
    · exact typeOfList_ndBase hf.2 h2 t ht

-- THE PERMISSIVE FRAGMENT: `InFragmentM .permissive`, closed under non-flat joins and their consumers
mutual
def InFragmentP (env : RequestEnv) : Expr → Bool
  | .ite c t e => InFragmentM .permissive env (.ite c t e) ||
      (InFragmentP env c && InFragmentP env t && InFragmentP env e && ndBase t)
  | .unaryApp op a => InFragmentM .permissive env (.unaryApp op a) || ((op == .isEmpty || op == .not) && InFragmentP env a)
  | .binaryApp op a b => InFragmentM .permissive env (.binaryApp op a b) ||
      ((op == .eq || op == .contains || op == .containsAll || op == .containsAny) && InFragmentP env a && InFragmentP env b)
  | .set es => InFragmentM .permissive env (.set es) || (InFragmentPList env es && es.all ndBase)
  | .lit p => InFragmentM .permissive env (.lit p)
  | .var v => InFragmentM .permissive env (.var v)
  | .slot x => InFragmentM .permissive env (.slot x)
  | .unknown n t => InFragmentM .permissive env (.unknown n t)
  | .and a b => InFragmentM .permissive env (.and a b) || (InFragmentP env a && InFragmentP env b)
  | .or a b => InFragmentM .permissive env (.or a b) || (InFragmentP env a && InFragmentP env b)
  | .call f args => InFragmentM .permissive env (.call f args)
  | .getAttr e a => InFragmentM .permissive env (.getAttr e a)
  | .hasAttr e a => InFragmentM .permissive env (.hasAttr e a)
  | .like e p => InFragmentM .permissive env (.like e p)
  | .is e t => InFragmentM .permissive env (.is e t)
  | .record kvs => InFragmentM .permissive env (.record kvs)
def InFragmentPList (env : RequestEnv) : List Expr → Bool
  | [] => true
  | e :: es => InFragmentP env e && InFragmentPList env es
end

theorem andType_ne_never {τa τb : CedarType} (ha : τa ≠ .never) (hb : τb ≠ .never) : andType τa τb ≠ .never := by
  unfold andType
  split <;> first | assumption | (intro h; cases h)

theorem orType_ne_never {τa τb : CedarType} (ha : τa ≠ .never) (hb : τb ≠ .never) : orType τa τb ≠ .never := by
  unfold orType
  split <;> first | assumption | (intro h; cases h)

theorem plub_ne_never {a b c : CedarType} (h : lub .permissive a b = some c) (ha : a ≠ .never) (hb : b ≠ .never) :
    c ≠ .never := by
  intro hc; subst hc
  generalize hn : CedarType.never = n at h
  cases plub_cases h
  case sub_l => exact hb hn.symm
  case sub_r => exact ha hn.symm
  all_goals cases hn

theorem plub_tt_r {a b : CedarType} (h : lub .permissive a b = some (.bool .tt)) (hb : b ≠ .never) : b = .bool .tt := by
  generalize hc : CedarType.bool .tt = c at h
  cases plub_cases h
  case sub_l => rfl
  case sub_r hs =>
    subst hc
    rcases subtype_tt hs with h1 | h1
    · exact h1
    · exact (hb h1).elim
  all_goals cases hc

/-- `==` is sound whatever the operand types are (entity-type unions included) -/
theorem eq_good_any {s : Schema} {env : RequestEnv} {w : World} {a b : Expr} {τa τb : CedarType} {ca cb : Capabilities}
    (henv : EnvMatches s env w.q) (sa : TySound w a τa ca) (sb : TySound w b τb cb) :
    Good w (.binaryApp .eq a b) (eqType env a b τa τb) [] := by
  rcases sa with ⟨err, he, hp⟩ | ⟨v1, hv1, hi1, _⟩
  · exact Good.err (by simp [evaluate, he]) hp
  · rcases sb with ⟨err, he, hp⟩ | ⟨v2, hv2, hi2, _⟩
    · exact Good.err (by simp [evaluate, hv1, he]) hp
    · refine Good.value (v := .prim (.bool (Value.beq v1 v2))) (by simp [evaluate, hv1, hv2, applyBinary]) (inst_bool_iff.mpr ?_)
      unfold eqType
      split
      · rename_i hdis
        cases τa <;> cases τb <;> simp only [typesDisjoint, Bool.false_eq_true] at hdis
        rename_i l0 l1
        cases hi1 with
        | entity u1 _ hm0 =>
          cases hi2 with
          | entity u2 _ hm1 =>
            have hne : u1 ≠ u2 := by
              intro h; subst h
              simp only [Bool.not_eq_true', List.any_eq_false] at hdis
              have := hdis _ hm0
              simp only [List.contains_iff_mem] at this
              exact this hm1
            simp [Value.beq, boolInst, hne]
      · split
        · rename_i la lb hla hlb
          have e1 := asLiteral_eval henv hla
          have e2 := asLiteral_eval henv hlb
          rw [hv1] at e1; rw [hv2] at e2
          cases e1; cases e2
          by_cases hl : la = lb
          · subst hl; simp [Value.beq, boolInst]
          · simp [Value.beq, boolInst, hl]
        · simp [boolInst, boolT]

theorem set_good_perm {w : World} {es : List Expr} {τs : List CedarType} {τ : CedarType}
    (hl : ListGood w es τs) (hnd : ∀ t, t ∈ τs → ndTy t = true) (h : lubAll .permissive τs = some τ) :
    Good w (.set es) (.set (some τ)) [] := by
  rcases hl with ⟨err, he, hp⟩ | ⟨vs, hvs, hall⟩
  · exact Good.err (by simp [evaluate, he]) hp
  · refine Good.value (v := .set (Value.mkSet vs)) (by simp [evaluate, hvs])
      (permissive_set_literal_inst h hnd (fun v hv => ?_))
    exact forall2_mem_l hall v (mkSet_subset vs v hv)

theorem soundP_base {s : Schema} {env : RequestEnv} {w : World} (hWF : SchemaWF2 s) (henv : EnvMatches s env w.q)
    (e : Expr) (hf : InFragmentM .permissive env e = true) (caps : Capabilities) (τ : CedarType) (c' : Capabilities)
    (h : typeOf .permissive s env e caps = .ok (τ, c')) :
    τ ≠ .never ∧ (Sem s env w → CapsHold w caps → Good w e τ c') :=
  let ⟨hm, g⟩ := soundM (m := .permissive) hWF henv e hf caps τ c' h
  ⟨mono_ne_never hm, g⟩

mutual
theorem soundP {s : Schema} {env : RequestEnv} {w : World} (hWF : SchemaWF2 s) (henv : EnvMatches s env w.q) :
    ∀ (e : Expr), InFragmentP env e = true → ∀ (caps : Capabilities) (τ : CedarType) (c' : Capabilities),
      typeOf .permissive s env e caps = .ok (τ, c') → τ ≠ .never ∧ (Sem s env w → CapsHold w caps → Good w e τ c')
  | .lit p, hf, caps, τ, c', h => soundP_base hWF henv _ (by simpa only [InFragmentP] using hf) caps τ c' h
  | .var v, hf, caps, τ, c', h => soundP_base hWF henv _ (by simpa only [InFragmentP] using hf) caps τ c' h
  | .slot x, hf, caps, τ, c', h => soundP_base hWF henv _ (by simpa only [InFragmentP] using hf) caps τ c' h
  | .unknown n t, hf, caps, τ, c', h => soundP_base hWF henv _ (by simpa only [InFragmentP] using hf) caps τ c' h
  | .call f args, hf, caps, τ, c', h => soundP_base hWF henv _ (by simpa only [InFragmentP] using hf) caps τ c' h
  | .getAttr e a, hf, caps, τ, c', h => soundP_base hWF henv _ (by simpa only [InFragmentP] using hf) caps τ c' h
  | .hasAttr e a, hf, caps, τ, c', h => soundP_base hWF henv _ (by simpa only [InFragmentP] using hf) caps τ c' h
  | .like e p, hf, caps, τ, c', h => soundP_base hWF henv _ (by simpa only [InFragmentP] using hf) caps τ c' h
  | .is e t, hf, caps, τ, c', h => soundP_base hWF henv _ (by simpa only [InFragmentP] using hf) caps τ c' h
  | .record kvs, hf, caps, τ, c', h => soundP_base hWF henv _ (by simpa only [InFragmentP] using hf) caps τ c' h
  | .and a b, hf, caps, τ, c', h => by
    simp only [InFragmentP, Bool.or_eq_true, Bool.and_eq_true] at hf
    rcases hf with hf | ⟨hfa, hfb⟩
    · exact soundP_base hWF henv _ hf caps τ c' h
    have iha := soundP hWF henv a hfa
    have ihb := soundP hWF henv b hfb
    simp only [typeOf] at h
    cases hA : expectOneOf (typeOf .permissive s env a caps) [boolT] with
    | error err => rw [hA] at h; cases h
    | ok pa =>
      obtain ⟨τa, ca⟩ := pa
      rw [hA] at h; simp only at h
      obtain ⟨hta, hsa⟩ := expectOneOf_ok hA
      have hba := subtype_bool hsa
      obtain ⟨hma, ga⟩ := iha caps τa ca hta
      split at h
      · rename_i hfalse
        simp only [ok, Except.ok.injEq, Prod.mk.injEq] at h; obtain ⟨rfl, rfl⟩ := h
        have := isFalse_eq hfalse; subst this
        refine ⟨(by intro h; cases h), fun hs hc => ⟨?_, fun h => by cases h⟩⟩
        obtain ⟨sa, _⟩ := ga hs hc
        rcases sa.bool_cases hba with ⟨err, he, hp⟩ | ⟨x, hx, hix, _⟩
        · exact TySound.of_err (by simp [evaluate, he]) hp
        · have : x = false := by simpa [boolInst] using hix
          subst this
          exact TySound.of_bool (b := false) (by simp [evaluate, hx, Value.asBool]) (by simp [boolInst]) (fun h => by cases h)
      · cases hB : expectOneOf (typeOf .permissive s env b (caps.union ca)) [boolT] with
        | error err => rw [hB] at h; cases h
        | ok pb =>
          obtain ⟨τb, cb⟩ := pb
          rw [hB] at h; simp only [Except.ok.injEq, Prod.mk.injEq] at h; obtain ⟨rfl, rfl⟩ := h
          obtain ⟨htb, hsb⟩ := expectOneOf_ok hB
          have hbb := subtype_bool hsb
          obtain ⟨hmb, gb⟩ := ihb (caps.union ca) τb cb htb
          refine ⟨andType_ne_never hma hmb, fun hs hc => ?_⟩
          obtain ⟨sa, sa2⟩ := ga hs hc
          have ihb' := fun hca => gb hs (capsHold_union.mpr ⟨hc, hca⟩)
          refine ⟨and_sound sa hba (fun hca => (ihb' hca).1) hbb (andType_inst hba hbb) (fun h1 h2 => andCaps_hold h1 h2),
            fun htt => ?_⟩
          obtain ⟨rfl, rfl⟩ := andType_tt htt hba hbb
          have hca := sa2 rfl
          exact andCaps_hold hca ((ihb' hca).2 rfl)
  | .or a b, hf, caps, τ, c', h => by
    simp only [InFragmentP, Bool.or_eq_true, Bool.and_eq_true] at hf
    rcases hf with hf | ⟨hfa, hfb⟩
    · exact soundP_base hWF henv _ hf caps τ c' h
    have iha := soundP hWF henv a hfa
    have ihb := soundP hWF henv b hfb
    simp only [typeOf] at h
    cases hA : expectOneOf (typeOf .permissive s env a caps) [boolT] with
    | error err => rw [hA] at h; cases h
    | ok pa =>
      obtain ⟨τa, ca⟩ := pa
      rw [hA] at h; simp only at h
      obtain ⟨hta, hsa⟩ := expectOneOf_ok hA
      have hba := subtype_bool hsa
      obtain ⟨hma, ga⟩ := iha caps τa ca hta
      split at h
      · rename_i htrue
        simp only [Except.ok.injEq, Prod.mk.injEq] at h; obtain ⟨rfl, rfl⟩ := h
        have := isTrue_eq htrue; subst this
        refine ⟨(by intro h; cases h), fun hs hc => ?_⟩
        obtain ⟨sa, sa2⟩ := ga hs hc
        refine ⟨?_, fun _ => sa2 rfl⟩
        rcases sa.bool_cases hba with ⟨err, he, hp⟩ | ⟨x, hx, hix, hcx⟩
        · exact TySound.of_err (by simp [evaluate, he]) hp
        · have : x = true := by simpa [boolInst] using hix
          subst this
          exact TySound.of_bool (b := true) (by simp [evaluate, hx, Value.asBool]) (by simp [boolInst]) (fun _ => hcx rfl)
      · cases hB : expectOneOf (typeOf .permissive s env b caps) [boolT] with
        | error err => rw [hB] at h; cases h
        | ok pb =>
          obtain ⟨τb, cb⟩ := pb
          rw [hB] at h; simp only [Except.ok.injEq, Prod.mk.injEq] at h; obtain ⟨rfl, rfl⟩ := h
          obtain ⟨htb, hsb⟩ := expectOneOf_ok hB
          have hbb := subtype_bool hsb
          obtain ⟨hmb, gb⟩ := ihb caps τb cb htb
          refine ⟨orType_ne_never hma hmb, fun hs hc => ?_⟩
          obtain ⟨sa, sa2⟩ := ga hs hc
          obtain ⟨sb, sb2⟩ := gb hs hc
          have hL : boolInst true τa = true → CapsHold w ca → CapsHold w (orCaps τa τb ca cb) := by
            intro hi hca
            unfold orCaps
            split
            · exact sb2 rfl
            · exact hca
            · simp [boolInst] at hi
            · exact capsHold_inter_right hca
          have hR : boolInst true τb = true → CapsHold w cb → CapsHold w (orCaps τa τb ca cb) := by
            intro hi hcb
            unfold orCaps
            split
            · exact hcb
            · simp [boolInst] at hi
            · exact hcb
            · exact capsHold_inter_left hcb
          refine ⟨or_sound sa hba sb hbb (orType_inst hba hbb) hL hR, fun htt => ?_⟩
          rcases orType_tt htt hba hbb with rfl | ⟨rfl, rfl⟩
          · exact hR (by simp [boolInst]) (sb2 rfl)
          · exact hL (by simp [boolInst]) (sa2 rfl)
  | .ite c t e, hf, caps, τ, c', h => by
    simp only [InFragmentP, Bool.or_eq_true, Bool.and_eq_true] at hf
    rcases hf with hf | ⟨⟨⟨hfc, hft⟩, hfe⟩, hndt⟩
    · exact soundP_base hWF henv _ hf caps τ c' h
    have ihc := soundP hWF henv c hfc
    have iht := soundP hWF henv t hft
    have ihe := soundP hWF henv e hfe
    simp only [typeOf] at h
    cases hC : expectOneOf (typeOf .permissive s env c caps) [boolT] with
    | error err => rw [hC] at h; cases h
    | ok pc =>
      obtain ⟨τc, cc⟩ := pc
      rw [hC] at h; simp only at h
      obtain ⟨htc, hsc⟩ := expectOneOf_ok hC
      have hbc := subtype_bool hsc
      obtain ⟨_, gc⟩ := ihc caps τc cc htc
      split at h
      · -- test typed True
        rename_i htrue
        have := isTrue_eq htrue; subst this
        cases hT : typeOf .permissive s env t (caps.union cc) with
        | error err => rw [hT] at h; cases h
        | ok pt =>
          obtain ⟨τt, ct⟩ := pt
          rw [hT] at h; simp only [Except.ok.injEq, Prod.mk.injEq] at h; obtain ⟨rfl, rfl⟩ := h
          obtain ⟨hmt, gt⟩ := iht (caps.union cc) τt ct hT
          refine ⟨hmt, fun hs hc => ?_⟩
          obtain ⟨sc, sc2⟩ := gc hs hc
          have hcond := sc.bool_cases hbc
          have hcc : CapsHold w cc := sc2 rfl
          obtain ⟨st, st2⟩ := gt hs (capsHold_union.mpr ⟨hc, hcc⟩)
          refine ⟨?_, fun htt => capsHold_union.mpr ⟨st2 htt, hcc⟩⟩
          rcases hcond with ⟨err, he, hp⟩ | ⟨x, hx, hix, _⟩
          · exact TySound.of_err (by simp [evaluate, he]) hp
          · have : x = true := by simpa [boolInst] using hix
            subst this
            have heq : w.eval (.ite c t e) = w.eval t := by simp [evaluate, hx, Value.asBool]
            rcases st with ⟨err, he, hp⟩ | ⟨v, hv, hi, hcv⟩
            · exact Or.inl ⟨err, by rw [heq, he], hp⟩
            · exact Or.inr ⟨v, by rw [heq, hv], hi, fun hvt => capsHold_union.mpr ⟨hcv hvt, hcc⟩⟩
      · split at h
        · -- test typed False
          rename_i _ hfalse
          have := isFalse_eq hfalse; subst this
          obtain ⟨hme, ge⟩ := ihe caps τ c' h
          refine ⟨hme, fun hs hc => ?_⟩
          obtain ⟨sc, _⟩ := gc hs hc
          have hcond := sc.bool_cases hbc
          obtain ⟨se, se2⟩ := ge hs hc
          refine ⟨?_, se2⟩
          rcases hcond with ⟨err, he, hp⟩ | ⟨x, hx, hix, _⟩
          · exact TySound.of_err (by simp [evaluate, he]) hp
          · have : x = false := by simpa [boolInst] using hix
            subst this
            have heq : w.eval (.ite c t e) = w.eval e := by simp [evaluate, hx, Value.asBool]
            rcases se with ⟨err, he, hp⟩ | ⟨v, hv, hi, hcv⟩
            · exact Or.inl ⟨err, by rw [heq, he], hp⟩
            · exact Or.inr ⟨v, by rw [heq, hv], hi, hcv⟩
        · -- both branches: the permissive least upper bound of two ARBITRARY types
          obtain ⟨τt, ct, τe, ce, hT, hE, hk⟩ := both_ok h
          cases hl : lub .permissive τt τe with
          | none => rw [hl] at hk; cases hk
          | some τl =>
            rw [hl] at hk
            simp only [Except.ok.injEq, Prod.mk.injEq] at hk; obtain ⟨rfl, rfl⟩ := hk
            obtain ⟨hmt, gt⟩ := iht (caps.union cc) τt ct hT
            obtain ⟨hme, ge⟩ := ihe caps τe ce hE
            refine ⟨plub_ne_never hl hmt hme, fun hs hc => ?_⟩
            obtain ⟨sc, _⟩ := gc hs hc
            obtain ⟨se, se2⟩ := ge hs hc
            refine ⟨permissive_ite_join_sound hbc sc (fun hcc => (gt hs (capsHold_union.mpr ⟨hc, hcc⟩)).1) se
              (ndBase_nd hndt hT) hl, fun htt => ?_⟩
            subst htt
            exact capsHold_inter_left (se2 (plub_tt_r hl hme))
  | .unaryApp op a, hf, caps, τ, c', h => by
    simp only [InFragmentP, Bool.or_eq_true, Bool.and_eq_true] at hf
    rcases hf with hf | ⟨hop, hfa⟩
    · exact soundP_base hWF henv _ hf caps τ c' h
    have iha := soundP hWF henv a hfa
    cases op with
    | isEmpty =>
      simp only [typeOf] at h
      cases hA : expectOneOf (typeOf .permissive s env a caps) [.set none] with
      | error err => rw [hA] at h; cases h
      | ok pa =>
        obtain ⟨τa, ca⟩ := pa
        rw [hA] at h
        simp only [ok, Except.ok.injEq, Prod.mk.injEq] at h; obtain ⟨rfl, rfl⟩ := h
        obtain ⟨hta, hsa⟩ := expectOneOf_ok hA
        exact ⟨(by intro h; cases h), fun hs hc => isEmpty_good ((iha caps τa ca hta).2 hs hc).1 (shape_set hsa)⟩
    | not =>
      simp only [typeOf] at h
      cases hA : expectOneOf (typeOf .permissive s env a caps) [boolT] with
      | error err => rw [hA] at h; cases h
      | ok pa =>
        obtain ⟨τa, ca⟩ := pa
        rw [hA] at h
        obtain ⟨hta, hsa⟩ := expectOneOf_ok hA
        have hba := subtype_bool hsa
        obtain ⟨_, ga⟩ := iha caps τa ca hta
        rcases hba with rfl | ⟨bt, rfl⟩
        · simp only [ok, Except.ok.injEq, Prod.mk.injEq] at h; obtain ⟨rfl, rfl⟩ := h
          exact ⟨(by intro h; cases h), fun hs hc => ⟨not_sound (ga hs hc).1 (Or.inl rfl) (by intro x hx; simp [boolInst] at hx), fun h => by cases h⟩⟩
        · cases bt <;> simp only [ok, Except.ok.injEq, Prod.mk.injEq] at h <;> obtain ⟨rfl, rfl⟩ := h
          · exact ⟨(by intro h; cases h), fun hs hc => ⟨not_sound (ga hs hc).1 (Or.inr ⟨_, rfl⟩) (by intro x _; simp [boolInst, boolT]), fun h => by cases h⟩⟩
          · exact ⟨(by intro h; cases h), fun hs hc => ⟨not_sound (ga hs hc).1 (Or.inr ⟨_, rfl⟩) (by intro x hx; simpa [boolInst] using hx), fun _ => capsHold_nil w⟩⟩
          · exact ⟨(by intro h; cases h), fun hs hc => ⟨not_sound (ga hs hc).1 (Or.inr ⟨_, rfl⟩) (by intro x hx; simpa [boolInst] using hx), fun _ => capsHold_nil w⟩⟩
    | neg => exact absurd hop (by decide)
  | .binaryApp op a b, hf, caps, τ, c', h => by
    simp only [InFragmentP, Bool.or_eq_true, Bool.and_eq_true] at hf
    rcases hf with hf | ⟨⟨hop, hfa⟩, hfb⟩
    · exact soundP_base hWF henv _ hf caps τ c' h
    have iha := soundP hWF henv a hfa
    have ihb := soundP hWF henv b hfb
    cases op with
    | eq =>
      simp only [typeOf] at h
      obtain ⟨τa, ca, τb, cb, hta, htb, hk⟩ := both_ok h
      split at hk
      · cases hk
      · simp only [ok, Except.ok.injEq, Prod.mk.injEq] at hk; obtain ⟨rfl, rfl⟩ := hk
        obtain ⟨bt, hbt⟩ := eqType_bool env a b τa τb
        exact ⟨(by rw [hbt]; intro h; cases h),
          fun hs hc => eq_good_any henv ((iha caps τa ca hta).2 hs hc).1 ((ihb caps τb cb htb).2 hs hc).1⟩
    | contains =>
      simp only [typeOf] at h
      obtain ⟨τa, ca, τb, cb, hA, htb, hk⟩ := both_ok h
      obtain ⟨hta, hsa⟩ := expectOneOf_ok hA
      obtain ⟨rfl, rfl⟩ := ite_err_ok hk
      exact ⟨(by intro h; cases h),
        fun hs hc => contains_good ((iha caps τa ca hta).2 hs hc).1 (shape_set hsa) ((ihb caps τb cb htb).2 hs hc).1⟩
    | containsAll =>
      simp only [typeOf] at h
      obtain ⟨τa, ca, τb, cb, hA, hB, hk⟩ := both_ok h
      obtain ⟨hta, hsa⟩ := expectOneOf_ok hA
      obtain ⟨htb, hsb⟩ := expectOneOf_ok hB
      obtain ⟨rfl, rfl⟩ := ite_err_ok hk
      exact ⟨(by intro h; cases h), fun hs hc => containsAll_good ((iha caps τa ca hta).2 hs hc).1 (shape_set hsa)
        ((ihb caps τb cb htb).2 hs hc).1 (shape_set hsb)⟩
    | containsAny =>
      simp only [typeOf] at h
      obtain ⟨τa, ca, τb, cb, hA, hB, hk⟩ := both_ok h
      obtain ⟨hta, hsa⟩ := expectOneOf_ok hA
      obtain ⟨htb, hsb⟩ := expectOneOf_ok hB
      obtain ⟨rfl, rfl⟩ := ite_err_ok hk
      exact ⟨(by intro h; cases h), fun hs hc => containsAny_good ((iha caps τa ca hta).2 hs hc).1 (shape_set hsa)
        ((ihb caps τb cb htb).2 hs hc).1 (shape_set hsb)⟩
    | less => exact absurd hop (by decide)
    | lessEq => exact absurd hop (by decide)
    | add => exact absurd hop (by decide)
    | sub => exact absurd hop (by decide)
    | mul => exact absurd hop (by decide)
    | mem => exact absurd hop (by decide)
    | getTag => exact absurd hop (by decide)
    | hasTag => exact absurd hop (by decide)
  | .set es, hf, caps, τ, c', h => by
    simp only [InFragmentP, Bool.or_eq_true, Bool.and_eq_true] at hf
    rcases hf with hf | ⟨hfl, hnd⟩
    · exact soundP_base hWF henv _ hf caps τ c' h
    have ih := soundPList hWF henv es hfl
    simp only [typeOf] at h
    cases hL : typeOfList .permissive s env es caps with
    | error err => rw [hL] at h; cases h
    | ok τs =>
      rw [hL] at h; simp only at h
      split at h
      · cases h
      · cases hlub : lubAll .permissive τs with
        | none => rw [hlub] at h; cases h
        | some τ' =>
          rw [hlub] at h
          simp only [ok, Except.ok.injEq, Prod.mk.injEq] at h; obtain ⟨rfl, rfl⟩ := h
          exact ⟨(by intro h; cases h),
            fun hs hc => set_good_perm (ih caps τs hL hs hc) (typeOfList_ndBase hnd hL) hlub⟩
theorem soundPList {s : Schema} {env : RequestEnv} {w : World} (hWF : SchemaWF2 s) (henv : EnvMatches s env w.q) :
    ∀ (es : List Expr), InFragmentPList env es = true → ∀ (caps : Capabilities) (τs : List CedarType),
      typeOfList .permissive s env es caps = .ok τs → Sem s env w → CapsHold w caps → ListGood w es τs
  | [], _, caps, τs, h => by
    simp only [typeOfList, Except.ok.injEq] at h; subst h
    exact fun _ _ => listGood_nil w
  | e :: es, hf, caps, τs, h => by
    simp only [InFragmentPList, Bool.and_eq_true] at hf
    obtain ⟨τ, c, τs', h1, h2, rfl⟩ := typeOfList_cons h
    obtain ⟨_, g⟩ := soundP hWF henv e hf.1 caps τ c h1
    have gs := soundPList hWF henv es hf.2 caps τs' h2
    exact fun hs hc => listGood_cons (g hs hc).1 (gs hs hc)
end

end Cedar.C03
