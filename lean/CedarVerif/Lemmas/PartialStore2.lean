import CedarVerif.Lemmas.PartialStoreU
/-
C13, partial stores and residual contexts: the store-dependent binary operators and the request variables of the first
pass under `StoreCompletes` / `Concretizes2`.
-/
namespace Cedar
namespace PS

section
variable {σ : Mapper} {req : Request} {es : Entities} {env : SlotEnv} {pes : PEntities} {U : EntityUID → Prop}

theorem evalIn_sound (u1 : EntityUID) (anc : Option (List EntityUID)) (v2 : Value)
    (hin : ∀ u2, inE es u1 u2 = (u1 == u2 || (match anc with | some a => a.contains u2 | none => false))) :
    Sound2 σ req es env (applyBinary es .mem (.prim (.entityUID u1)) v2) (evalIn u1 anc v2) := by
  simp only [applyBinary, bind, Except.bind, Value.asEntity]
  cases v2 with
  | prim p =>
    cases p with
    | entityUID u2 => exact s2_val (by simp only [hin]; rfl) trivial
    | bool b => exact s2_err .type rfl
    | int i => exact s2_err .type rfl
    | string s => exact s2_err .type rfl
  | set vs =>
    simp only [evalIn]
    cases hl : asEntityList vs with
    | error c => exact s2_err c rfl
    | ok us =>
      refine s2_val ?_ trivial
      simp only [hin]
      rfl
  | record kvs => exact s2_err .type rfl
  | ext x => exact s2_err .type rfl

/-- the value/value arm, relativised: `Bound` is needed only for the uid of the left operand, which lies in `U` -/
theorem papplyBinary_sound3_on (hS : StoreCompletesOn U σ pes es) (op : BinaryOp) {v1 v2 : Value} (h1 : v1.Canon) (h2 : v2.Canon)
    (hU1 : VIn U v1) :
    Sound2 σ req es env (applyBinary es op v1 v2) (papplyBinary pes op v1 v2) := by
  cases hop : op.storeFree with
  | true =>
    rw [papplyBinary_storeFree pes es op hop]
    refine s2_ofResult (fun w hw => ?_)
    rw [← applyBinary_storeFree es op hop] at hw
    exact applyBinary_canon (es := []) (by intro u d h; cases h) hw
  | false =>
    cases op <;> simp [BinaryOp.storeFree] at hop
    · -- mem
      cases he : v1.asEntity with
      | error c => simp only [papplyBinary, applyBinary, bind, Except.bind, he]; exact s2_err c rfl
      | ok u1 =>
        have hv1 := asEntity_ok he; subst hv1
        simp only [papplyBinary, he]
        rcases entity_cases pes u1 with ⟨d, hf, hE⟩ | ⟨hf, hp, hE⟩ | ⟨hf, hp, hE⟩
        · rw [hE]
          obtain ⟨d', hf', hanc, _, _⟩ := hS.data hf
          exact evalIn_sound u1 (some d.ancestors) v2 (by intro u2; simp only [inE, hf', hanc])
        · rw [hE]
          exact evalIn_sound u1 none v2 (by intro u2; simp only [inE, hS.noSuch hf hp])
        · rw [hE]
          have hb := hS.bound hf hp (hU1 _ (by simp [Cedar.Tpe.valueUids]))
          refine s2_res ?_ (typedOK_vacuous (by intro _ _ h; cases h))
            (.binaryApp .mem (.unknown _ _ (unkOK_of_bound hb)) (frag2_toExpr σ v2 h2))
          have e1 := Y_bound req es env hb
          have e2 := Y_toExpr σ req es env h2
          simp only [Y] at e1 e2
          simp only [Y, Expr.substUnk, evaluate] at e1 e2 ⊢
          rw [e1, e2]
          exact Agree.refl _
    · -- getTag
      cases he : v1.asEntity with
      | error c => simp only [papplyBinary, applyBinary, bind, Except.bind, he]; exact s2_err c rfl
      | ok u =>
        have hv1 := asEntity_ok he; subst hv1
        cases hs : v2.asString with
        | error c => simp only [papplyBinary, applyBinary, bind, Except.bind, he, hs]; exact s2_err c rfl
        | ok t =>
          simp only [papplyBinary, applyBinary, bind, Except.bind, he, hs]
          rcases entity_cases pes u with ⟨d, hf, hE⟩ | ⟨hf, hp, hE⟩ | ⟨hf, hp, hE⟩
          · rw [hE]
            obtain ⟨d', hf', _, _, htags⟩ := hS.data hf
            simp only [hf']
            cases hl : lookupKV d.tags t with
            | none => simp only [htags.get_none hl]; exact s2_err .attr rfl
            | some pv =>
              obtain ⟨v, hv, hav⟩ := htags.get_some hl
              simp only [hv]
              exact sound2_ofPV hav
          · rw [hE]; simp only [hS.noSuch hf hp]; exact s2_err .entity rfl
          · rw [hE]
            have hb := hS.bound hf hp (hU1 _ (by simp [Cedar.Tpe.valueUids]))
            have hv2 : v2 = .prim (.string t) := by
              unfold Value.asString at hs
              split at hs
              · cases hs; rfl
              · cases hs
            subst hv2
            refine s2_res ?_ (typedOK_vacuous (by intro _ _ h; cases h))
              (.binaryApp .getTag (.unknown _ _ (unkOK_of_bound hb)) (.lit _))
            have e1 := Y_bound req es env hb
            simp only [Y, Expr.substUnk, evaluate] at e1 ⊢
            rw [e1]
            simp only [applyBinary, bind, Except.bind, he, hs]
            exact Agree.refl _
    · -- hasTag
      cases he : v1.asEntity with
      | error c => simp only [papplyBinary, applyBinary, bind, Except.bind, he]; exact s2_err c rfl
      | ok u =>
        have hv1 := asEntity_ok he; subst hv1
        cases hs : v2.asString with
        | error c => simp only [papplyBinary, applyBinary, bind, Except.bind, he, hs]; exact s2_err c rfl
        | ok t =>
          simp only [papplyBinary, applyBinary, bind, Except.bind, he, hs]
          rcases entity_cases pes u with ⟨d, hf, hE⟩ | ⟨hf, hp, hE⟩ | ⟨hf, hp, hE⟩
          · rw [hE]
            obtain ⟨d', hf', _, _, htags⟩ := hS.data hf
            simp only [hf']
            exact s2_val (by rw [htags.isSome t]) trivial
          · rw [hE]; simp only [hS.noSuch hf hp]; exact s2_val rfl trivial
          · rw [hE]
            have hb := hS.bound hf hp (hU1 _ (by simp [Cedar.Tpe.valueUids]))
            have hv2 : v2 = .prim (.string t) := by
              unfold Value.asString at hs
              split at hs
              · cases hs; rfl
              · cases hs
            subst hv2
            refine s2_res ?_ (typedOK_vacuous (by intro _ _ h; cases h))
              (.binaryApp .hasTag (.unknown _ _ (unkOK_of_bound hb)) (.lit _))
            have e1 := Y_bound req es env hb
            simp only [Y, Expr.substUnk, evaluate] at e1 ⊢
            rw [e1]
            simp only [applyBinary, bind, Except.bind, he, hs]
            exact Agree.refl _

theorem papplyBinary_sound3 (hS : StoreCompletes σ pes es) (op : BinaryOp) {v1 v2 : Value} (h1 : v1.Canon) (h2 : v2.Canon) :
    Sound2 σ req es env (applyBinary es op v1 v2) (papplyBinary pes op v1 v2) :=
  papplyBinary_sound3_on (U := fun _ => True) (storeCompletesOn_of hS) op h1 h2 (fun _ _ => trivial)

end

end PS
end Cedar
