import CedarVerif.Cedar.SymCompile
import CedarVerif.Cedar.Eval
import CedarVerif.Lemmas.SetRepr
import CedarVerif.Lemmas.Beq
/-
Helper lemmas for C18's compiler fragment (`Cedar.SymC`): the factory's folding on literal arguments and the
induction `compile_rel` (compile on the literal environment vs. `evaluate`).
-/
namespace Cedar.SymC
open Cedar

/-! ### 64-bit bitvectors vs. in-range integers -/

theorem inI64_iff (a : Int) : inI64 a = true ↔ (-9223372036854775808 ≤ a ∧ a ≤ 9223372036854775807) := by
  unfold inI64 i64Min i64Max
  rw [Bool.and_eq_true, decide_eq_true_eq, decide_eq_true_eq]

theorem toInt_ofInt_of_inI64 {a : Int} (h : inI64 a = true) : (BitVec.ofInt 64 a).toInt = a := by
  rw [inI64_iff] at h
  rw [BitVec.toInt_ofInt, Int.bmod_def]
  have : ((2:Nat)^64 : Nat) = 18446744073709551616 := by decide
  rw [this]
  omega

theorem ofInt_sub64 (a b : Int) : BitVec.ofInt 64 (a - b) = BitVec.ofInt 64 a - BitVec.ofInt 64 b := by
  rw [Int.sub_eq_add_neg, BitVec.ofInt_add, BitVec.ofInt_neg, BitVec.sub_eq_add_neg]

theorem overflows_eq (i : Int) : overflows i = !inI64 i := by
  unfold overflows inI64 i64Min i64Max
  by_cases h1 : i < -9223372036854775808 <;> by_cases h2 : i > 9223372036854775807 <;> simp [h1, h2] <;> omega

theorem ofInt_inj64 {a b : Int} (ha : inI64 a = true) (hb : inI64 b = true) :
    BitVec.ofInt 64 a = BitVec.ofInt 64 b ↔ a = b := by
  constructor
  · intro h
    have := congrArg BitVec.toInt h
    rwa [toInt_ofInt_of_inI64 ha, toInt_ofInt_of_inI64 hb] at this
  · intro h; rw [h]

/-! ### folding of the option / ite constructors -/

theorem iteSimplify_true (a b : Term) : iteSimplify tTrue a b = a := by
  simp [iteSimplify]

theorem iteSimplify_false (a b : Term) : iteSimplify tFalse a b = b := by
  unfold iteSimplify
  by_cases h : a = b
  · simp [h]
  · simp [h]

theorem fite_true (a b : Term) : fite tTrue a b = a := by
  unfold fite; split <;> simp [iteSimplify_true]

theorem fite_false (a b : Term) : fite tFalse a b = b := by
  unfold fite; split <;> simp [iteSimplify_false]

theorem isNone_none (ty : TermType) : isNone (.none ty) = tTrue := by simp [isNone]
theorem isNone_some (x : Term) : isNone (.some x) = tFalse := by simp [isNone]

theorem ifSome_none (ty : TermType) (r : Term) : ∃ ty', ifSome (.none ty) r = .none ty' := by
  unfold ifSome
  split
  · exact ⟨_, by rw [isNone_none, fite_true]; rfl⟩
  · exact ⟨_, by unfold ifFalse; rw [isNone_none, fite_true]; rfl⟩

theorem ifSome_some_opt {x r : Term} {ty : TermType} (h : r.typeOf = .option ty) : ifSome (.some x) r = r := by
  unfold ifSome
  rw [h]
  simp only [isNone_some, fite_false]

theorem optionGet_some (x : Term) : optionGet (.some x) = x := by simp [optionGet]

/-! ### the relation between an evaluation result and a folded term -/

/-- integers are in the i64 range (an invariant of the evaluator's values) -/
def PrimOk : Prim → Prop
  | .int i => inI64 i = true
  | _ => True

/-- a context attribute vs. its field term: required ↦ literal, optional present ↦ `some lit`, absent ↦ `none ty` -/
def FieldOK (ov : Option Value) (ft : Term) : Prop :=
  (∃ p, PrimOk p ∧ ov = some (.prim p) ∧ (ft = .prim (litPrim p) ∨ ft = .some (.prim (litPrim p)))) ∨
  (ov = none ∧ ∃ ty, ft = .none ty)

/-- the context term `t` represents the (FLAT) context `ctx`, attribute by attribute, and has no other attribute -/
def CtxOK (ctx : List (String × Value)) (t : Term) : Prop :=
  t.isRecord = true ∧ (∀ a ft, recFind? t a = some ft → FieldOK (lookupKV ctx a) ft) ∧
  (∀ a, recFind? t a = none → lookupKV ctx a = none)

/-- primitive value `v` ↦ `some (lit v)`; the context record ↦ `some ctxT`; error ↦ `none` (of some type) -/
def Rel (ctx : List (String × Value)) (ctxT : Term) (r : Result Value) (t : Term) : Prop :=
  match r with
  | .ok v => (∃ p, v = .prim p ∧ PrimOk p ∧ t = .some (.prim (litPrim p))) ∨
             (v = .record ctx ∧ t = .some ctxT ∧ CtxOK ctx ctxT)
  | .error _ => ∃ ty, t = .none ty

section
variable {ctx : List (String × Value)} {ctxT : Term}

theorem Rel.cases {r : Result Value} {t : Term} (h : Rel ctx ctxT r t) :
    (∃ p, r = .ok (.prim p) ∧ PrimOk p ∧ t = .some (.prim (litPrim p))) ∨ (∃ err ty, r = .error err ∧ t = .none ty) ∨
    (r = .ok (.record ctx) ∧ t = .some ctxT ∧ CtxOK ctx ctxT) := by
  cases r with
  | ok v =>
    rcases h with ⟨p, rfl, hp, ht⟩ | ⟨rfl, ht, hc⟩
    · exact Or.inl ⟨p, rfl, hp, ht⟩
    · exact Or.inr (Or.inr ⟨rfl, ht, hc⟩)
  | error e => obtain ⟨ty, ht⟩ := h; exact Or.inr (Or.inl ⟨e, ty, rfl, ht⟩)

theorem Rel.typeOf {r : Result Value} {t : Term} (h : Rel ctx ctxT r t) : ∃ ty, t.typeOf = .option ty := by
  rcases h.cases with ⟨p, _, _, rfl⟩ | ⟨_, ty, _, rfl⟩ | ⟨_, rfl, _⟩
  · exact ⟨_, rfl⟩
  · exact ⟨_, rfl⟩
  · exact ⟨_, rfl⟩

theorem Rel.prim {p : Prim} (hp : PrimOk p) : Rel ctx ctxT (.ok (.prim p)) (.some (.prim (litPrim p))) :=
  Or.inl ⟨p, rfl, hp, rfl⟩

end

/-! ### record terms -/

theorem isRecord_typeOf : ∀ {t : Term}, t.isRecord = true → t.typeOf.isRecordType = true
  | .recNil, _ => rfl
  | .recCons _ _ _, _ => rfl
  | .prim _, h | .none _, h | .some _, h | .app1 _ _ _, h | .app2 _ _ _ _, h | .app3 _ _ _ _ _, h => by
    simp [Term.isRecord] at h

theorem tyFind_typeOf : ∀ {t : Term}, t.isRecord = true → ∀ a, tyFind? t.typeOf a = (recFind? t a).map Term.typeOf
  | .recNil, _, a => by simp [Term.typeOf, tyFind?, recFind?]
  | .recCons b ft rest, h, a => by
    have ih := tyFind_typeOf (t := rest) (by simpa [Term.isRecord] using h) a
    simp only [Term.typeOf, tyFind?, recFind?]
    split
    · rfl
    · exact ih
  | .prim _, h, _ | .none _, h, _ | .some _, h, _ | .app1 _ _ _, h, _ | .app2 _ _ _ _, h, _ | .app3 _ _ _ _ _, h, _ => by
    simp [Term.isRecord] at h

theorem isRecord_not_opt {t : Term} (h : t.isRecord = true) : (∀ x, t ≠ .some x) ∧ (∀ ty, t ≠ .none ty) ∧ (∀ p, t ≠ .prim p) := by
  cases t <;> simp [Term.isRecord] at h ⊢

theorem litPrim_typeOf_bool {p : Prim} (h : (litPrim p).typeOf = .bool) : ∃ b, p = .bool b := by
  cases p <;> simp [litPrim, TermPrim.typeOf] at h
  exact ⟨_, rfl⟩

theorem litPrim_typeOf_bv {p : Prim} (h : (litPrim p).typeOf = .bitvec64) : ∃ i, p = .int i := by
  cases p <;> simp [litPrim, TermPrim.typeOf] at h
  exact ⟨_, rfl⟩

theorem litPrim_beq {p q : Prim} (hp : PrimOk p) (hq : PrimOk q) : (litPrim p == litPrim q) = (p == q) := by
  rw [Bool.eq_iff_iff, beq_iff_eq, beq_iff_eq]
  cases p <;> cases q <;> simp [litPrim]
  exact ofInt_inj64 hp hq

/-! ### the compile helpers on folded operands -/

theorem compileIf_none {ty : TermType} {r2 r3 : CResult} {r : Term} (h : compileIf (.none ty) r2 r3 = .ok r) :
    ∃ ty', r = .none ty' := by
  cases ty <;> simp [compileIf, Term.typeOf] at h
  cases r2 <;> simp at h
  cases r3 <;> simp at h
  split at h
  · simp only [Except.ok.injEq] at h; subst h; exact ifSome_none _ _
  · simp at h

theorem compileIf_nonbool {p : Prim} (hp : ∀ b, p ≠ .bool b) (r2 r3 : CResult) :
    compileIf (.some (.prim (litPrim p))) r2 r3 = .error .typeError := by
  cases p <;> simp [compileIf, litPrim, Term.typeOf, TermPrim.typeOf]
  exact absurd rfl (hp _)

theorem compileAnd_none {ty : TermType} {r2 : CResult} {r : Term} (h : compileAnd (.none ty) r2 = .ok r) :
    ∃ ty', r = .none ty' := by
  cases ty <;> simp [compileAnd, Term.typeOf] at h
  cases r2 <;> simp at h
  split at h
  · simp only [Except.ok.injEq] at h; subst h; exact ifSome_none _ _
  · simp at h

theorem compileOr_none {ty : TermType} {r2 : CResult} {r : Term} (h : compileOr (.none ty) r2 = .ok r) :
    ∃ ty', r = .none ty' := by
  cases ty <;> simp [compileOr, Term.typeOf] at h
  cases r2 <;> simp at h
  split at h
  · simp only [Except.ok.injEq] at h; subst h; exact ifSome_none _ _
  · simp at h

theorem compileAnd_nonbool {p : Prim} (hp : ∀ b, p ≠ .bool b) (r2 : CResult) :
    compileAnd (.some (.prim (litPrim p))) r2 = .error .typeError := by
  cases p <;> simp [compileAnd, litPrim, Term.typeOf, TermPrim.typeOf]
  exact absurd rfl (hp _)

theorem compileOr_nonbool {p : Prim} (hp : ∀ b, p ≠ .bool b) (r2 : CResult) :
    compileOr (.some (.prim (litPrim p))) r2 = .error .typeError := by
  cases p <;> simp [compileOr, litPrim, Term.typeOf, TermPrim.typeOf]
  exact absurd rfl (hp _)

theorem compileAnd_true {r2 : CResult} {r : Term} (h : compileAnd (.some tTrue) r2 = .ok r) :
    r2 = .ok r ∧ r.typeOf = .option .bool := by
  cases r2 with
  | error e => simp [compileAnd, Term.typeOf, TermPrim.typeOf] at h
  | ok t2 =>
    simp only [compileAnd, Term.typeOf, TermPrim.typeOf] at h
    split at h
    · rename_i hty
      simp only [Except.ok.injEq] at h
      have hty' : t2.typeOf = .option .bool := by simpa using hty
      rw [optionGet_some, fite_true, ifSome_some_opt hty'] at h
      subst h
      exact ⟨rfl, hty'⟩
    · simp at h

theorem compileOr_false {r2 : CResult} {r : Term} (h : compileOr (.some tFalse) r2 = .ok r) :
    r2 = .ok r ∧ r.typeOf = .option .bool := by
  cases r2 with
  | error e => simp [compileOr, Term.typeOf, TermPrim.typeOf] at h
  | ok t2 =>
    simp only [compileOr, Term.typeOf, TermPrim.typeOf] at h
    split at h
    · rename_i hty
      simp only [Except.ok.injEq] at h
      have hty' : t2.typeOf = .option .bool := by simpa using hty
      rw [optionGet_some, fite_false, ifSome_some_opt hty'] at h
      subst h
      exact ⟨rfl, hty'⟩
    · simp at h

section
variable {ctx : List (String × Value)} {ctxT : Term}

/-- `!` / unary `-` on a folded operand -/
theorem compileApp1_spec {op : UnaryOp} {p : Prim} (hp : PrimOk p) {r0 : Term}
    (h : compileApp1 op (.prim (litPrim p)) = .ok r0) : Rel ctx ctxT (applyUnary op (.prim p)) r0 := by
  cases op with
  | isEmpty => cases p <;> simp [compileApp1, litPrim, Term.typeOf, TermPrim.typeOf] at h
  | not =>
    cases p <;> simp [compileApp1, litPrim, Term.typeOf, TermPrim.typeOf] at h
    subst h
    rename_i b
    exact Or.inl ⟨.bool (!b), by simp [applyUnary, Value.asBool], trivial, rfl⟩
  | neg =>
    cases p <;> simp [compileApp1, litPrim, Term.typeOf, TermPrim.typeOf] at h
    subst h
    rename_i a
    have ha : inI64 a = true := hp
    simp only [applyUnary, Value.asInt, bind, Except.bind, intOrErr, ifFalse, bvnego, bvneg,
      toInt_ofInt_of_inI64 ha, overflows_eq]
    cases hov : inI64 (-a)
    · simp only [Bool.not_false, fite_true]
      exact ⟨_, rfl⟩
    · simp only [Bool.not_true, fite_false]
      exact Or.inl ⟨.int (-a), rfl, hov, by simp [someOf, litPrim, BitVec.ofInt_neg]⟩

theorem compileApp2_eq (l1 l2 : TermPrim) :
    compileApp2 .eq (.prim l1) (.prim l2) = .ok (.some (.prim (.bool (l1 == l2)))) := by
  by_cases hty : l1.typeOf = l2.typeOf
  · by_cases hl : l1 = l2
    · simp [compileApp2, reducibleEq, Term.typeOf, hty, hl, feq, eqSimplify, someOf]
    · simp [compileApp2, reducibleEq, Term.typeOf, hty, hl, feq, eqSimplify, someOf, Term.isLiteral]
  · have hl : l1 ≠ l2 := fun h => hty (by rw [h])
    have hp : l1.typeOf.isPrimType = true ∧ l2.typeOf.isPrimType = true := by
      cases l1 <;> cases l2 <;> simp [TermPrim.typeOf, TermType.isPrimType]
    simp [compileApp2, reducibleEq, Term.typeOf, hty, hl, hp.1, hp.2, someOf]

/-- `== < <= + - *` on two folded operands -/
theorem compileApp2_spec (es : Entities) {op : BinaryOp} {p1 p2 : Prim} (h1 : PrimOk p1) (h2 : PrimOk p2) {r0 : Term}
    (h : compileApp2 op (.prim (litPrim p1)) (.prim (litPrim p2)) = .ok r0) :
    Rel ctx ctxT (applyBinary es op (.prim p1) (.prim p2)) r0 := by
  cases op with
  | eq =>
    rw [compileApp2_eq] at h
    simp only [Except.ok.injEq] at h
    subst h
    refine Or.inl ⟨.bool (p1 == p2), by simp [applyBinary, beq_prim], trivial, ?_⟩
    rw [litPrim_beq h1 h2]; rfl
  | less =>
    cases p1 <;> cases p2 <;> simp [compileApp2, litPrim, Term.typeOf, TermPrim.typeOf] at h
    subst h
    rename_i a b
    refine Or.inl ⟨.bool (decide (a < b)), by simp [applyBinary, applyCmp], trivial, ?_⟩
    simp [someOf, bvslt, bvcmp, toInt_ofInt_of_inI64 (show inI64 a = true from h1),
      toInt_ofInt_of_inI64 (show inI64 b = true from h2), litPrim]
  | lessEq =>
    cases p1 <;> cases p2 <;> simp [compileApp2, litPrim, Term.typeOf, TermPrim.typeOf] at h
    subst h
    rename_i a b
    refine Or.inl ⟨.bool (decide (a ≤ b)), by simp [applyBinary, applyCmp], trivial, ?_⟩
    simp [someOf, bvsle, bvcmp, toInt_ofInt_of_inI64 (show inI64 a = true from h1),
      toInt_ofInt_of_inI64 (show inI64 b = true from h2), litPrim]
  | add =>
    cases p1 <;> cases p2 <;> simp [compileApp2, litPrim, Term.typeOf, TermPrim.typeOf] at h
    subst h
    rename_i a b
    have ha : inI64 a = true := h1
    have hb : inI64 b = true := h2
    simp only [applyBinary, Value.asInt, bind, Except.bind, intOrErr, ifFalse, bvsaddo, bvso, bvadd, bvapp,
      toInt_ofInt_of_inI64 ha, toInt_ofInt_of_inI64 hb, overflows_eq]
    cases hov : inI64 (a + b)
    · simp only [Bool.not_false, fite_true]
      exact ⟨_, rfl⟩
    · simp only [Bool.not_true, fite_false]
      exact Or.inl ⟨.int (a + b), rfl, hov, by simp [someOf, litPrim, BitVec.ofInt_add]⟩
  | sub =>
    cases p1 <;> cases p2 <;> simp [compileApp2, litPrim, Term.typeOf, TermPrim.typeOf] at h
    subst h
    rename_i a b
    have ha : inI64 a = true := h1
    have hb : inI64 b = true := h2
    simp only [applyBinary, Value.asInt, bind, Except.bind, intOrErr, ifFalse, bvssubo, bvso, bvsub, bvapp,
      toInt_ofInt_of_inI64 ha, toInt_ofInt_of_inI64 hb, overflows_eq]
    cases hov : inI64 (a - b)
    · simp only [Bool.not_false, fite_true]
      exact ⟨_, rfl⟩
    · simp only [Bool.not_true, fite_false]
      exact Or.inl ⟨.int (a - b), rfl, hov, by simp [someOf, litPrim, ofInt_sub64]⟩
  | mul =>
    cases p1 <;> cases p2 <;> simp [compileApp2, litPrim, Term.typeOf, TermPrim.typeOf] at h
    subst h
    rename_i a b
    have ha : inI64 a = true := h1
    have hb : inI64 b = true := h2
    simp only [applyBinary, Value.asInt, bind, Except.bind, intOrErr, ifFalse, bvsmulo, bvso, bvmul, bvapp,
      toInt_ofInt_of_inI64 ha, toInt_ofInt_of_inI64 hb, overflows_eq]
    cases hov : inI64 (a * b)
    · simp only [Bool.not_false, fite_true]
      exact ⟨_, rfl⟩
    · simp only [Bool.not_true, fite_false]
      exact Or.inl ⟨.int (a * b), rfl, hov, by simp [someOf, litPrim, BitVec.ofInt_mul]⟩
  | _ => cases p1 <;> cases p2 <;> simp [compileApp2, litPrim, Term.typeOf, TermPrim.typeOf] at h


/-! ### record-typed operands -/

theorem compileApp1_record {op : UnaryOp} {t : Term} (h : t.isRecord = true) : compileApp1 op t = .error .typeError := by
  have := isRecord_typeOf h
  unfold compileApp1
  split <;> simp_all [TermType.isRecordType]

theorem reducibleEq_record {ty1 ty2 : TermType} (h : ty1.isRecordType = true ∨ ty2.isRecordType = true) {b : Bool}
    (h0 : reducibleEq ty1 ty2 = .ok b) : ty1 = ty2 := by
  unfold reducibleEq at h0
  by_cases he : ty1 = ty2
  · exact he
  · have : (ty1.isPrimType && ty2.isPrimType) = false := by
      rcases h with h | h
      · cases ty1 <;> simp_all [TermType.isPrimType, TermType.isRecordType]
      · cases ty2 <;> simp_all [TermType.isPrimType, TermType.isRecordType]
    simp [he, this] at h0

theorem compileApp2_record {op : BinaryOp} {t1 t2 r0 : Term}
    (h : t1.typeOf.isRecordType = true ∨ (t2.typeOf.isRecordType = true ∧ ∀ ty, t1.typeOf ≠ .set ty))
    (h0 : compileApp2 op t1 t2 = .ok r0) : op = .eq ∧ t1.typeOf = t2.typeOf := by
  unfold compileApp2 at h0
  split at h0
  · refine ⟨rfl, ?_⟩
    cases hr : reducibleEq t1.typeOf t2.typeOf with
    | error e => simp [hr] at h0
    | ok b => exact reducibleEq_record (h.imp id And.left) hr
  all_goals first
    | (simp at h0; done)
    | (rcases h with h | ⟨h, hns⟩ <;> simp_all [TermType.isRecordType])

theorem compileApp2_eq_self {t : Term} (h : t.isRecord = true) : compileApp2 .eq t t = .ok (.some tTrue) := by
  cases t <;> simp [Term.isRecord] at h <;>
    simp [compileApp2, reducibleEq, feq, eqSimplify, someOf]

theorem compileCond_record {t : Term} (h : t.isRecord = true) (r2 r3 : CResult) :
    compileIf (.some t) r2 r3 = .error .typeError ∧ compileAnd (.some t) r2 = .error .typeError ∧
    compileOr (.some t) r2 = .error .typeError := by
  cases t <;> simp [Term.isRecord] at h <;>
    simp [compileIf, compileAnd, compileOr, Term.typeOf]

end

/-! ### the induction -/

section
variable (req : Request) (es : Entities) (senv : SlotEnv) (etys : List (EntityType × Option (List String))) (ctxT : Term)

theorem unary_rel {op : UnaryOp} {a : Expr}
    (ih : ∀ t, compile (litEnv2 req etys ctxT) a = .ok t → Rel req.context ctxT (evaluate req es senv a) t)
    {t : Term} (hc : compile (litEnv2 req etys ctxT) (.unaryApp op a) = .ok t) :
    Rel req.context ctxT (evaluate req es senv (.unaryApp op a)) t := by
  simp only [compile] at hc
  cases h1 : compile (litEnv2 req etys ctxT) a with
  | error e => simp [h1] at hc
  | ok t1 =>
    simp only [h1] at hc
    cases h0 : compileApp1 op (optionGet t1) with
    | error e => simp [h0] at hc
    | ok r0 =>
      simp only [h0, Except.ok.injEq] at hc
      subst hc
      rcases (ih t1 h1).cases with ⟨p, hev, hp, rfl⟩ | ⟨err, ty, hev, rfl⟩ | ⟨hev, rfl, hck⟩
      rotate_right
      · rw [optionGet_some, compileApp1_record hck.1] at h0
        simp at h0
      · rw [optionGet_some] at h0
        have hr := compileApp1_spec (ctx := req.context) (ctxT := ctxT) hp h0
        obtain ⟨ty, hty⟩ := hr.typeOf
        rw [ifSome_some_opt hty]
        simpa [evaluate, hev] using hr
      · obtain ⟨ty', h'⟩ := ifSome_none ty r0
        rw [h']
        simp only [evaluate, hev]
        exact ⟨ty', rfl⟩

theorem binary_rel {op : BinaryOp} {a b : Expr}
    (iha : ∀ t, compile (litEnv2 req etys ctxT) a = .ok t → Rel req.context ctxT (evaluate req es senv a) t)
    (ihb : ∀ t, compile (litEnv2 req etys ctxT) b = .ok t → Rel req.context ctxT (evaluate req es senv b) t)
    {t : Term} (hc : compile (litEnv2 req etys ctxT) (.binaryApp op a b) = .ok t) :
    Rel req.context ctxT (evaluate req es senv (.binaryApp op a b)) t := by
  simp only [compile] at hc
  cases h1 : compile (litEnv2 req etys ctxT) a with
  | error e => simp [h1] at hc
  | ok t1 =>
    simp only [h1] at hc
    cases h2 : compile (litEnv2 req etys ctxT) b with
    | error e => simp [h2] at hc
    | ok t2 =>
      simp only [h2] at hc
      cases h0 : compileApp2 op (optionGet t1) (optionGet t2) with
      | error e => simp [h0] at hc
      | ok r0 =>
        simp only [h0, Except.ok.injEq] at hc
        subst hc
        rcases (iha t1 h1).cases with ⟨p1, hev1, hp1, rfl⟩ | ⟨err, ty, hev1, rfl⟩ | ⟨hev1, rfl, hck⟩
        rotate_right
        · rcases (ihb t2 h2).cases with ⟨p2, hev2, hp2, rfl⟩ | ⟨err, ty, hev2, rfl⟩ | ⟨hev2, rfl, _⟩
          · rw [optionGet_some, optionGet_some] at h0
            have := (compileApp2_record (Or.inl (isRecord_typeOf hck.1)) h0).2
            have hh := isRecord_typeOf hck.1
            rw [this] at hh
            cases p2 <;> simp [litPrim, Term.typeOf, TermPrim.typeOf, TermType.isRecordType] at hh
          · obtain ⟨ty', h'⟩ := ifSome_none ty r0
            rw [h', ifSome_some_opt (ty := ty') rfl]
            simp only [evaluate, hev1, hev2]
            exact ⟨ty', rfl⟩
          · rw [optionGet_some] at h0
            obtain ⟨rfl, _⟩ := compileApp2_record (Or.inl (isRecord_typeOf hck.1)) h0
            rw [compileApp2_eq_self hck.1] at h0
            simp only [Except.ok.injEq] at h0
            subst h0
            rw [ifSome_some_opt (ty := .bool) rfl, ifSome_some_opt (ty := .bool) rfl]
            simp only [evaluate, hev1, hev2, applyBinary, Value.beq_rfl]
            exact Rel.prim (p := .bool true) trivial
        · rcases (ihb t2 h2).cases with ⟨p2, hev2, hp2, rfl⟩ | ⟨err, ty, hev2, rfl⟩ | ⟨hev2, rfl, hck⟩
          rotate_right
          · rw [optionGet_some, optionGet_some] at h0
            have := (compileApp2_record (Or.inr ⟨isRecord_typeOf hck.1, by
              intro ty hty; cases p1 <;> simp [litPrim, Term.typeOf, TermPrim.typeOf] at hty⟩) h0).2
            have hh := isRecord_typeOf hck.1
            rw [← this] at hh
            cases p1 <;> simp [litPrim, Term.typeOf, TermPrim.typeOf, TermType.isRecordType] at hh
          · rw [optionGet_some, optionGet_some] at h0
            have hr := compileApp2_spec (ctx := req.context) (ctxT := ctxT) es hp1 hp2 h0
            obtain ⟨ty, hty⟩ := hr.typeOf
            rw [ifSome_some_opt hty, ifSome_some_opt hty]
            simpa [evaluate, hev1, hev2] using hr
          · obtain ⟨ty', h'⟩ := ifSome_none ty r0
            rw [h', ifSome_some_opt (ty := ty') rfl]
            simp only [evaluate, hev1, hev2]
            exact ⟨ty', rfl⟩
        · obtain ⟨ty', h'⟩ := ifSome_none ty (ifSome t2 r0)
          rw [h']
          simp only [evaluate, hev1]
          exact ⟨ty', rfl⟩


theorem compileAttr_prim (p : Prim) (attr : String) :
    (∃ e, compileGetAttr (.prim (litPrim p)) attr = .error e) ∧ (∃ e, compileHasAttr (.prim (litPrim p)) attr = .error e) := by
  cases p <;> simp [compileGetAttr, compileHasAttr, compileAttrsOf, litPrim, Term.typeOf, TermPrim.typeOf]

theorem getAttr_rel {a : Expr} {attr : String}
    (ih : ∀ t, compile (litEnv2 req etys ctxT) a = .ok t → Rel req.context ctxT (evaluate req es senv a) t)
    {t : Term} (hc : compile (litEnv2 req etys ctxT) (.getAttr a attr) = .ok t) :
    Rel req.context ctxT (evaluate req es senv (.getAttr a attr)) t := by
  simp only [compile] at hc
  cases h1 : compile (litEnv2 req etys ctxT) a with
  | error e => simp [h1] at hc
  | ok t1 =>
    simp only [h1] at hc
    cases h0 : compileGetAttr (optionGet t1) attr with
    | error e => simp [h0] at hc
    | ok r0 =>
      simp only [h0, Except.ok.injEq] at hc
      subst hc
      rcases (ih t1 h1).cases with ⟨p, hev, hp, rfl⟩ | ⟨err, ty, hev, rfl⟩ | ⟨hev, rfl, hck⟩
      · obtain ⟨e, he⟩ := (compileAttr_prim p attr).1
        rw [optionGet_some, he] at h0
        simp at h0
      · obtain ⟨ty', h'⟩ := ifSome_none ty r0
        rw [h']
        simp only [evaluate, hev]
        exact ⟨ty', rfl⟩
      · obtain ⟨hrec, hfld, hno⟩ := hck
        have hrt := isRecord_typeOf hrec
        have hattrs : compileAttrsOf ctxT = .ok ctxT := by
          unfold compileAttrsOf
          split <;> simp_all [TermType.isRecordType]
        rw [optionGet_some] at h0
        simp only [compileGetAttr, hattrs, hrt, if_true, tyFind_typeOf hrec] at h0
        cases hf : recFind? ctxT attr with
        | none => simp [hf] at h0
        | some ft =>
          simp only [hf, Option.map_some] at h0
          have hget : recordGet ctxT attr = ft := by simp [recordGet, hrec, hf]
          rw [hget] at h0
          rcases hfld attr ft hf with ⟨p, hp, hlk, rfl | rfl⟩ | ⟨hlk, ty, rfl⟩
          · have : r0 = .some (.prim (litPrim p)) := by
              cases p <;> simpa [litPrim, Term.typeOf, TermPrim.typeOf, TermType.isOptionType, someOf, eq_comm] using h0
            subst this
            rw [ifSome_some_opt (ty := (litPrim p).typeOf) rfl]
            simp only [evaluate, hev, hlk]
            exact Rel.prim hp
          · have : r0 = .some (.prim (litPrim p)) := by
              simpa [Term.typeOf, TermType.isOptionType, eq_comm] using h0
            subst this
            rw [ifSome_some_opt (ty := (litPrim p).typeOf) rfl]
            simp only [evaluate, hev, hlk]
            exact Rel.prim hp
          · have : r0 = .none ty := by
              simpa [Term.typeOf, TermType.isOptionType, eq_comm] using h0
            subst this
            rw [ifSome_some_opt (ty := ty) rfl]
            simp only [evaluate, hev, hlk]
            exact ⟨ty, rfl⟩

theorem hasAttr_rel {a : Expr} {attr : String}
    (ih : ∀ t, compile (litEnv2 req etys ctxT) a = .ok t → Rel req.context ctxT (evaluate req es senv a) t)
    {t : Term} (hc : compile (litEnv2 req etys ctxT) (.hasAttr a attr) = .ok t) :
    Rel req.context ctxT (evaluate req es senv (.hasAttr a attr)) t := by
  simp only [compile] at hc
  cases h1 : compile (litEnv2 req etys ctxT) a with
  | error e => simp [h1] at hc
  | ok t1 =>
    simp only [h1] at hc
    cases h0 : compileHasAttr (optionGet t1) attr with
    | error e => simp [h0] at hc
    | ok r0 =>
      simp only [h0, Except.ok.injEq] at hc
      subst hc
      rcases (ih t1 h1).cases with ⟨p, hev, hp, rfl⟩ | ⟨err, ty, hev, rfl⟩ | ⟨hev, rfl, hck⟩
      · obtain ⟨e, he⟩ := (compileAttr_prim p attr).2
        rw [optionGet_some, he] at h0
        simp at h0
      · obtain ⟨ty', h'⟩ := ifSome_none ty r0
        rw [h']
        simp only [evaluate, hev]
        exact ⟨ty', rfl⟩
      · obtain ⟨hrec, hfld, hno⟩ := hck
        have hrt := isRecord_typeOf hrec
        have hattrs : compileAttrsOf ctxT = .ok ctxT := by
          unfold compileAttrsOf
          split <;> simp_all [TermType.isRecordType]
        rw [optionGet_some] at h0
        simp only [compileHasAttr, hattrs, hrt, if_true, tyFind_typeOf hrec] at h0
        cases hf : recFind? ctxT attr with
        | none =>
          simp only [hf, Option.map_none, Except.ok.injEq] at h0
          subst h0
          rw [ifSome_some_opt (ty := .bool) rfl]
          simp only [evaluate, hev, hno attr hf]
          exact Rel.prim (p := .bool false) trivial
        | some ft =>
          simp only [hf, Option.map_some] at h0
          have hget : recordGet ctxT attr = ft := by simp [recordGet, hrec, hf]
          rw [hget] at h0
          rcases hfld attr ft hf with ⟨p, hp, hlk, rfl | rfl⟩ | ⟨hlk, ty, rfl⟩
          · have : r0 = .some tTrue := by
              cases p <;> simpa [litPrim, Term.typeOf, TermPrim.typeOf, TermType.isOptionType, someOf, eq_comm] using h0
            subst this
            rw [ifSome_some_opt (ty := .bool) rfl]
            simp only [evaluate, hev, hlk]
            exact Rel.prim (p := .bool true) trivial
          · have : r0 = .some tTrue := by
              simpa [Term.typeOf, TermType.isOptionType, someOf, isSome, isNone, fnot, eq_comm] using h0
            subst this
            rw [ifSome_some_opt (ty := .bool) rfl]
            simp only [evaluate, hev, hlk]
            exact Rel.prim (p := .bool true) trivial
          · have : r0 = .some tFalse := by
              simpa [Term.typeOf, TermType.isOptionType, someOf, isSome, isNone, fnot, eq_comm] using h0
            subst this
            rw [ifSome_some_opt (ty := .bool) rfl]
            simp only [evaluate, hev, hlk]
            exact Rel.prim (p := .bool false) trivial

theorem like_rel {a : Expr} {pat : Pattern}
    (ih : ∀ t, compile (litEnv2 req etys ctxT) a = .ok t → Rel req.context ctxT (evaluate req es senv a) t)
    {t : Term} (hc : compile (litEnv2 req etys ctxT) (.like a pat) = .ok t) :
    Rel req.context ctxT (evaluate req es senv (.like a pat)) t := by
  simp only [compile] at hc
  cases h1 : compile (litEnv2 req etys ctxT) a with
  | error e => simp [h1] at hc
  | ok t1 =>
    simp only [h1] at hc
    cases h0 : compileLike (optionGet t1) pat with
    | error e => simp [h0] at hc
    | ok r0 =>
      simp only [h0, Except.ok.injEq] at hc
      subst hc
      rcases (ih t1 h1).cases with ⟨p, hev, hp, rfl⟩ | ⟨err, ty, hev, rfl⟩ | ⟨hev, rfl, hck⟩
      · rw [optionGet_some] at h0
        cases p <;> simp [compileLike, litPrim, Term.typeOf, TermPrim.typeOf, stringLike, someOf] at h0
        subst h0
        rw [ifSome_some_opt (ty := .bool) rfl]
        simp only [evaluate, hev, Value.asString]
        exact Rel.prim (p := .bool _) trivial
      · obtain ⟨ty', h'⟩ := ifSome_none ty r0
        rw [h']
        simp only [evaluate, hev]
        exact ⟨ty', rfl⟩
      · rw [optionGet_some] at h0
        have := isRecord_typeOf hck.1
        unfold compileLike at h0
        split at h0
        · simp_all [TermType.isRecordType]
        · simp at h0

theorem is_rel {a : Expr} {ety : EntityType}
    (ih : ∀ t, compile (litEnv2 req etys ctxT) a = .ok t → Rel req.context ctxT (evaluate req es senv a) t)
    {t : Term} (hc : compile (litEnv2 req etys ctxT) (.is a ety) = .ok t) :
    Rel req.context ctxT (evaluate req es senv (.is a ety)) t := by
  simp only [compile] at hc
  cases h1 : compile (litEnv2 req etys ctxT) a with
  | error e => simp [h1] at hc
  | ok t1 =>
    simp only [h1] at hc
    cases h0 : compileIs (optionGet t1) ety with
    | error e => simp [h0] at hc
    | ok r0 =>
      simp only [h0, Except.ok.injEq] at hc
      subst hc
      rcases (ih t1 h1).cases with ⟨p, hev, hp, rfl⟩ | ⟨err, ty, hev, rfl⟩ | ⟨hev, rfl, hck⟩
      · rw [optionGet_some] at h0
        cases p <;> simp [compileIs, litPrim, Term.typeOf, TermPrim.typeOf, someOf] at h0
        subst h0
        rename_i u
        rw [ifSome_some_opt (ty := .bool) rfl]
        simp only [evaluate, hev, Value.asEntity]
        have : (ety == u.ty) = (u.ty == ety) := by
          rw [Bool.eq_iff_iff, beq_iff_eq, beq_iff_eq]; exact eq_comm
        rw [this]
        exact Rel.prim (p := .bool _) trivial
      · obtain ⟨ty', h'⟩ := ifSome_none ty r0
        rw [h']
        simp only [evaluate, hev]
        exact ⟨ty', rfl⟩
      · rw [optionGet_some] at h0
        have := isRecord_typeOf hck.1
        unfold compileIs at h0
        split at h0
        · simp_all [TermType.isRecordType]
        · simp at h0

/-- compile on the literal environment of `req` vs. `evaluate`, on the fragment -/
theorem compile_rel2 (hctx : ctxT.typeOf.isRecordType = true → CtxOK req.context ctxT) {e : Expr} (hf : SFrag2 e) :
    ∀ t, compile (litEnv2 req etys ctxT) e = .ok t → Rel req.context ctxT (evaluate req es senv e) t := by
  induction hf with
  | litBool b =>
    intro t hc
    simp only [compile, compilePrim, someOf, Except.ok.injEq] at hc
    subst hc
    exact Rel.prim (p := .bool b) trivial
  | litInt i h =>
    intro t hc
    simp only [compile, compilePrim, someOf, Except.ok.injEq] at hc
    subst hc
    exact Rel.prim (p := .int i) h
  | litString s =>
    intro t hc
    simp only [compile, compilePrim, someOf, Except.ok.injEq] at hc
    subst hc
    exact Rel.prim (p := .string s) trivial
  | litEntity uid =>
    intro t hc
    simp only [compile, compilePrim, someOf] at hc
    split at hc
    · simp only [Except.ok.injEq] at hc
      subst hc
      exact Rel.prim (p := .entityUID uid) trivial
    · simp at hc
  | principal =>
    intro t hc
    simp [compile, compileVar, someOf, Term.typeOf, TermPrim.typeOf, TermType.isEntityType, litEnv, litEnv2] at hc
    subst hc
    exact Rel.prim (p := .entityUID req.principal) trivial
  | action =>
    intro t hc
    simp [compile, compileVar, someOf, Term.typeOf, TermPrim.typeOf, TermType.isEntityType, litEnv, litEnv2] at hc
    subst hc
    exact Rel.prim (p := .entityUID req.action) trivial
  | resource =>
    intro t hc
    simp [compile, compileVar, someOf, Term.typeOf, TermPrim.typeOf, TermType.isEntityType, litEnv, litEnv2] at hc
    subst hc
    exact Rel.prim (p := .entityUID req.resource) trivial
  | context =>
    intro t hc
    simp only [compile, compileVar, litEnv2, someOf] at hc
    by_cases hr : ctxT.typeOf.isRecordType = true
    · simp only [hr, if_true, Except.ok.injEq] at hc
      subst hc
      simp only [evaluate]
      exact Or.inr ⟨rfl, rfl, hctx hr⟩
    · simp [hr] at hc
  | @ite c x y _ _ _ ihc ihx ihy =>
    intro t hc
    simp only [compile] at hc
    cases h1 : compile (litEnv2 req etys ctxT) c with
    | error e => simp [h1] at hc
    | ok t1 =>
      simp only [h1] at hc
      rcases (ihc t1 h1).cases with ⟨p, hev, hp, rfl⟩ | ⟨err, ty, hev, rfl⟩ | ⟨hev, rfl, hck⟩
      · by_cases hb : ∃ b, p = .bool b
        · obtain ⟨b, rfl⟩ := hb
          cases b
          · have := ihy t (by simpa [compileIf, litPrim] using hc)
            simpa [evaluate, hev, Value.asBool] using this
          · have := ihx t (by simpa [compileIf, litPrim] using hc)
            simpa [evaluate, hev, Value.asBool] using this
        · rw [compileIf_nonbool (fun b h => hb ⟨b, h⟩)] at hc
          simp at hc
      · obtain ⟨ty', rfl⟩ := compileIf_none hc
        simp only [evaluate, hev]
        exact ⟨ty', rfl⟩
      · rw [(compileCond_record hck.1 _ _).1] at hc
        simp at hc
  | @and a b _ _ iha ihb =>
    intro t hc
    simp only [compile] at hc
    cases h1 : compile (litEnv2 req etys ctxT) a with
    | error e => simp [h1] at hc
    | ok t1 =>
      simp only [h1] at hc
      rcases (iha t1 h1).cases with ⟨p, hev, hp, rfl⟩ | ⟨err, ty, hev, rfl⟩ | ⟨hev, rfl, hck⟩
      · by_cases hb : ∃ b, p = .bool b
        · obtain ⟨b, rfl⟩ := hb
          cases b
          · simp only [compileAnd, litPrim, Except.ok.injEq] at hc
            subst hc
            have hev' : evaluate req es senv (.and a b) = .ok (.prim (.bool false)) := by
              simp [evaluate, hev, Value.asBool]
            rw [hev']
            exact Rel.prim (p := .bool false) trivial
          · obtain ⟨h2, hty⟩ := compileAnd_true (r := t) (by simpa [litPrim] using hc)
            rcases (ihb t h2).cases with ⟨q, hevb, hq, rfl⟩ | ⟨err, ty, hevb, rfl⟩ | ⟨hevb, rfl, hck⟩
            · obtain ⟨r, rfl⟩ := litPrim_typeOf_bool (p := q) (by simpa [Term.typeOf] using hty)
              have hev' : evaluate req es senv (.and a b) = .ok (.prim (.bool r)) := by
                simp [evaluate, hev, hevb, Value.asBool]
              rw [hev']
              exact Rel.prim (p := .bool r) trivial
            · simp only [evaluate, hev, hevb, Value.asBool]
              exact ⟨ty, rfl⟩
            · have hh := isRecord_typeOf hck.1
              simp only [Term.typeOf, TermType.option.injEq] at hty
              rw [hty] at hh
              simp [TermType.isRecordType] at hh
        · rw [compileAnd_nonbool (fun b h => hb ⟨b, h⟩)] at hc
          simp at hc
      · obtain ⟨ty', rfl⟩ := compileAnd_none hc
        simp only [evaluate, hev]
        exact ⟨ty', rfl⟩
      · rw [(compileCond_record hck.1 (compile (litEnv2 req etys ctxT) b) (.error .typeError)).2.1] at hc
        simp at hc
  | @or a b _ _ iha ihb =>
    intro t hc
    simp only [compile] at hc
    cases h1 : compile (litEnv2 req etys ctxT) a with
    | error e => simp [h1] at hc
    | ok t1 =>
      simp only [h1] at hc
      rcases (iha t1 h1).cases with ⟨p, hev, hp, rfl⟩ | ⟨err, ty, hev, rfl⟩ | ⟨hev, rfl, hck⟩
      · by_cases hb : ∃ b, p = .bool b
        · obtain ⟨b, rfl⟩ := hb
          cases b
          · obtain ⟨h2, hty⟩ := compileOr_false (r := t) (by simpa [litPrim] using hc)
            rcases (ihb t h2).cases with ⟨q, hevb, hq, rfl⟩ | ⟨err, ty, hevb, rfl⟩ | ⟨hevb, rfl, hck⟩
            · obtain ⟨r, rfl⟩ := litPrim_typeOf_bool (p := q) (by simpa [Term.typeOf] using hty)
              have hev' : evaluate req es senv (.or a b) = .ok (.prim (.bool r)) := by
                simp [evaluate, hev, hevb, Value.asBool]
              rw [hev']
              exact Rel.prim (p := .bool r) trivial
            · simp only [evaluate, hev, hevb, Value.asBool]
              exact ⟨ty, rfl⟩
            · have hh := isRecord_typeOf hck.1
              simp only [Term.typeOf, TermType.option.injEq] at hty
              rw [hty] at hh
              simp [TermType.isRecordType] at hh
          · simp only [compileOr, litPrim, Except.ok.injEq] at hc
            subst hc
            have hev' : evaluate req es senv (.or a b) = .ok (.prim (.bool true)) := by
              simp [evaluate, hev, Value.asBool]
            rw [hev']
            exact Rel.prim (p := .bool true) trivial
        · rw [compileOr_nonbool (fun b h => hb ⟨b, h⟩)] at hc
          simp at hc
      · obtain ⟨ty', rfl⟩ := compileOr_none hc
        simp only [evaluate, hev]
        exact ⟨ty', rfl⟩
      · rw [(compileCond_record hck.1 (compile (litEnv2 req etys ctxT) b) (.error .typeError)).2.2] at hc
        simp at hc
  | not _ ih => exact fun t hc => unary_rel req es senv etys ctxT ih hc
  | neg _ ih => exact fun t hc => unary_rel req es senv etys ctxT ih hc
  | eq _ _ iha ihb => exact fun t hc => binary_rel req es senv etys ctxT iha ihb hc
  | less _ _ iha ihb => exact fun t hc => binary_rel req es senv etys ctxT iha ihb hc
  | lessEq _ _ iha ihb => exact fun t hc => binary_rel req es senv etys ctxT iha ihb hc
  | add _ _ iha ihb => exact fun t hc => binary_rel req es senv etys ctxT iha ihb hc
  | sub _ _ iha ihb => exact fun t hc => binary_rel req es senv etys ctxT iha ihb hc
  | mul _ _ iha ihb => exact fun t hc => binary_rel req es senv etys ctxT iha ihb hc
  | @getAttr a attr _ ih => exact fun t hc => getAttr_rel req es senv etys ctxT ih hc
  | @hasAttr a attr _ ih => exact fun t hc => hasAttr_rel req es senv etys ctxT ih hc
  | @like a p _ ih => exact fun t hc => like_rel req es senv etys ctxT ih hc
  | @is a ety _ ih => exact fun t hc => is_rel req es senv etys ctxT ih hc

end

/-! ### `ctxTermOf` (the `Record` arm of `Term::from_value`) builds a term satisfying `CtxOK` -/

theorem termOfPrim_eq (p : Prim) : termOfPrim p = .prim (litPrim p) := by cases p <;> rfl

/-- the part of "the context conforms to the flat context type `attrs`" that `CtxOK` needs: every attribute the context
    supplies is declared and its value is a primitive (longs in the i64 range, an invariant of `Value`s built by the
    parser / evaluator).  (Full conformance — value of the declared type, required attributes present — implies it.) -/
def FlatConforms (ctx : List (String × Value)) (attrs : List (Attr × CtxAttrTy × Bool)) : Prop :=
  ∀ a v, lookupKV ctx a = some v → (∃ p, v = .prim p ∧ PrimOk p) ∧ a ∈ attrs.map (·.1)

theorem ctxTermOf_spec (ctx : List (String × Value))
    (hv : ∀ a v, lookupKV ctx a = some v → ∃ p, v = .prim p ∧ PrimOk p) :
    ∀ (attrs : List (Attr × CtxAttrTy × Bool)), ∃ t, ctxTermOf ctx attrs = some t ∧ t.isRecord = true ∧
      (∀ a ft, recFind? t a = some ft → FieldOK (lookupKV ctx a) ft) ∧
      (∀ a, recFind? t a = none → a ∉ attrs.map (·.1))
  | [] => ⟨.recNil, rfl, rfl, by simp [recFind?], by simp⟩
  | (b, ty, rq) :: rest => by
    obtain ⟨rt, hrt, hrec, hfld, hno⟩ := ctxTermOf_spec ctx hv rest
    have hfind : ∀ (x : Term) a, recFind? (.recCons b x rt) a = if b == a then some x else recFind? rt a := by
      intro x a; simp [recFind?]
    cases hl : lookupKV ctx b with
    | none =>
      refine ⟨.recCons b (noneOf ty.termType) rt, by simp [ctxTermOf, hrt, hl], by simpa [Term.isRecord] using hrec, ?_, ?_⟩
      · intro a ft h
        rw [hfind] at h
        split at h
        · rename_i hb
          have : b = a := by simpa using hb
          subst this
          simp only [Option.some.injEq] at h
          subst h
          exact Or.inr ⟨hl, _, rfl⟩
        · exact hfld a ft h
      · intro a h
        rw [hfind] at h
        split at h
        · simp at h
        · rename_i hb
          have hne : ¬ b = a := by simpa using hb
          simp only [List.map_cons, List.mem_cons, not_or]
          exact ⟨fun e => hne e.symm, hno a h⟩
    | some v =>
      obtain ⟨p, rfl, hp⟩ := hv b v hl
      refine ⟨.recCons b (if rq then termOfPrim p else someOf (termOfPrim p)) rt, by simp [ctxTermOf, hrt, hl],
        by simpa [Term.isRecord] using hrec, ?_, ?_⟩
      · intro a ft h
        rw [hfind] at h
        split at h
        · rename_i hb
          have : b = a := by simpa using hb
          subst this
          simp only [Option.some.injEq] at h
          subst h
          refine Or.inl ⟨p, hp, hl, ?_⟩
          cases rq
          · right; simp [termOfPrim_eq, someOf]
          · left; simp [termOfPrim_eq]
        · exact hfld a ft h
      · intro a h
        rw [hfind] at h
        split at h
        · simp at h
        · rename_i hb
          have hne : ¬ b = a := by simpa using hb
          simp only [List.map_cons, List.mem_cons, not_or]
          exact ⟨fun e => hne e.symm, hno a h⟩


theorem inFrag_sound : ∀ (e : Expr), inFrag e = true → SFrag e
  | .lit (.bool b), _ => .litBool b
  | .lit (.int i), h => .litInt i (by simpa [inFrag] using h)
  | .lit (.string s), _ => .litString s
  | .lit (.entityUID u), _ => .litEntity u
  | .var .principal, _ => .principal
  | .var .action, _ => .action
  | .var .resource, _ => .resource
  | .var .context, h => by simp [inFrag] at h
  | .ite c t e, h => by
    simp only [inFrag, Bool.and_eq_true] at h
    exact .ite (inFrag_sound c h.1.1) (inFrag_sound t h.1.2) (inFrag_sound e h.2)
  | .and a b, h => by
    simp only [inFrag, Bool.and_eq_true] at h
    exact .and (inFrag_sound a h.1) (inFrag_sound b h.2)
  | .or a b, h => by
    simp only [inFrag, Bool.and_eq_true] at h
    exact .or (inFrag_sound a h.1) (inFrag_sound b h.2)
  | .unaryApp .not a, h => .not (inFrag_sound a (by simpa [inFrag] using h))
  | .unaryApp .neg a, h => .neg (inFrag_sound a (by simpa [inFrag] using h))
  | .unaryApp .isEmpty a, h => by simp [inFrag] at h
  | .binaryApp op a b, h => by
    simp only [inFrag, Bool.and_eq_true] at h
    have ha := inFrag_sound a h.1.2
    have hb := inFrag_sound b h.2
    cases op <;> simp at h
    · exact .eq ha hb
    · exact .less ha hb
    · exact .lessEq ha hb
    · exact .add ha hb
    · exact .sub ha hb
    · exact .mul ha hb
  | .slot _, h => by simp [inFrag] at h
  | .unknown _ _, h => by simp [inFrag] at h
  | .call _ _, h => by simp [inFrag] at h
  | .getAttr _ _, h => by simp [inFrag] at h
  | .hasAttr _ _, h => by simp [inFrag] at h
  | .like _ _, h => by simp [inFrag] at h
  | .is _ _, h => by simp [inFrag] at h
  | .set _, h => by simp [inFrag] at h
  | .record _, h => by simp [inFrag] at h

theorem SFrag.toSFrag2 {e : Expr} (h : SFrag e) : SFrag2 e := by
  induction h with
  | litBool b => exact .litBool b
  | litInt i h => exact .litInt i h
  | litString s => exact .litString s
  | litEntity u => exact .litEntity u
  | principal => exact .principal
  | action => exact .action
  | resource => exact .resource
  | ite _ _ _ a b c => exact .ite a b c
  | and _ _ a b => exact .and a b
  | or _ _ a b => exact .or a b
  | not _ a => exact .not a
  | neg _ a => exact .neg a
  | eq _ _ a b => exact .eq a b
  | less _ _ a b => exact .less a b
  | lessEq _ _ a b => exact .lessEq a b
  | add _ _ a b => exact .add a b
  | sub _ _ a b => exact .sub a b
  | mul _ _ a b => exact .mul a b

theorem inFrag2_sound : ∀ (e : Expr), inFrag2 e = true → SFrag2 e
  | .lit (.bool b), _ => .litBool b
  | .lit (.int i), h => .litInt i (by simpa [inFrag2] using h)
  | .lit (.string s), _ => .litString s
  | .lit (.entityUID u), _ => .litEntity u
  | .var .principal, _ => .principal
  | .var .action, _ => .action
  | .var .resource, _ => .resource
  | .var .context, _ => .context
  | .ite c t e, h => by
    simp only [inFrag2, Bool.and_eq_true] at h
    exact .ite (inFrag2_sound c h.1.1) (inFrag2_sound t h.1.2) (inFrag2_sound e h.2)
  | .and a b, h => by
    simp only [inFrag2, Bool.and_eq_true] at h
    exact .and (inFrag2_sound a h.1) (inFrag2_sound b h.2)
  | .or a b, h => by
    simp only [inFrag2, Bool.and_eq_true] at h
    exact .or (inFrag2_sound a h.1) (inFrag2_sound b h.2)
  | .unaryApp .not a, h => .not (inFrag2_sound a (by simpa [inFrag2] using h))
  | .unaryApp .neg a, h => .neg (inFrag2_sound a (by simpa [inFrag2] using h))
  | .unaryApp .isEmpty a, h => by simp [inFrag2] at h
  | .binaryApp op a b, h => by
    simp only [inFrag2, Bool.and_eq_true] at h
    have ha := inFrag2_sound a h.1.2
    have hb := inFrag2_sound b h.2
    cases op <;> simp at h
    · exact .eq ha hb
    · exact .less ha hb
    · exact .lessEq ha hb
    · exact .add ha hb
    · exact .sub ha hb
    · exact .mul ha hb
  | .getAttr a attr, h => .getAttr attr (inFrag2_sound a (by simpa [inFrag2] using h))
  | .hasAttr a attr, h => .hasAttr attr (inFrag2_sound a (by simpa [inFrag2] using h))
  | .slot _, h => by simp [inFrag2] at h
  | .unknown _ _, h => by simp [inFrag2] at h
  | .call _ _, h => by simp [inFrag2] at h
  | .like a p, h => .like p (inFrag2_sound a (by simpa [inFrag2] using h))
  | .is a ety, h => .is ety (inFrag2_sound a (by simpa [inFrag2] using h))
  | .set _, h => by simp [inFrag2] at h
  | .record _, h => by simp [inFrag2] at h

end Cedar.SymC
