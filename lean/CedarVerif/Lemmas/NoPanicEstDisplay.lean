import CedarVerif.Cedar.NoPanic.EstDisplay
/-
C20 lemmas for `Cedar/NoPanic/EstDisplay.lean`: with the emptiness guard (`fixed = true`) no value reaches a panic outcome,
by mutual structural induction over the value and its lists; the `enumerate()` loops keep `i + remaining = len`.
-/
namespace Cedar
namespace NoPanic
namespace EstDisp

def Out.isPanic : Out → Bool
  | .panic _ => true
  | .text _ => false

theorem Out.not_isPanic_iff (o : Out) : o.isPanic = false ↔ ∀ site, o ≠ .panic site := by
  cases o <;> simp [Out.isPanic]

theorem bind_safe {o : Out} {f : String → Out} (h1 : o.isPanic = false) (h2 : ∀ s, (f s).isPanic = false) :
    (o.bind f).isPanic = false := by
  cases o with
  | text s => exact h2 s
  | panic p => cases h1

mutual
theorem display_safe (style : String → Option Bool) : ∀ (n : Option Nat) (v : CVJ), (display true style n v).isPanic = false
  | n, .atom t => by simp [display, Out.isPanic]
  | n, .extnSingle fn arg => by
    unfold display
    split <;> exact bind_safe (display_safe style n arg) (fun _ => rfl)
  | n, .extnMulti fn [] => by
    unfold display
    simp only [Bool.not_true, List.isEmpty_nil, Bool.or_self, Bool.and_false, Bool.false_eq_true, if_false]
    exact bind_safe (commaSep_safe style n []) (fun _ => rfl)
  | n, .extnMulti fn (a0 :: rest) => by
    unfold display
    split
    · refine bind_safe (display_safe style n a0) (fun r => ?_)
      rw [if_pos (by simp)]
      exact bind_safe (commaSep_safe style n rest) (fun _ => rfl)
    · exact bind_safe (commaSep_safe style n (a0 :: rest)) (fun _ => rfl)
  | n, .set vs => by
    unfold display
    split
    · split
      · exact bind_safe (takeSep_safe style _ _ vs) (fun _ => rfl)
      · exact bind_safe (enumSep_safe style _ vs.length 0 vs (by omega)) (fun _ => rfl)
    · exact bind_safe (enumSep_safe style _ vs.length 0 vs (by omega)) (fun _ => rfl)
  | n, .record kvs => by
    unfold display
    split
    · split
      · exact bind_safe (takeSepKV_safe style _ _ kvs) (fun _ => rfl)
      · exact bind_safe (enumSepKV_safe style _ kvs.length 0 kvs (by omega)) (fun _ => rfl)
    · exact bind_safe (enumSepKV_safe style _ kvs.length 0 kvs (by omega)) (fun _ => rfl)

theorem commaSep_safe (style : String → Option Bool) : ∀ (n : Option Nat) (vs : List CVJ), (commaSep true style n vs).isPanic = false
  | n, [] => by simp [commaSep, Out.isPanic]
  | n, [last] => by unfold commaSep; exact display_safe style n last
  | n, a :: b :: rest => by
    unfold commaSep
    exact bind_safe (display_safe style n a) (fun _ => bind_safe (commaSep_safe style n (b :: rest)) (fun _ => rfl))

theorem takeSep_safe (style : String → Option Bool) (bound : Nat) : ∀ (k : Nat) (vs : List CVJ),
    (takeSep true style bound k vs).isPanic = false
  | 0, _ => by simp [takeSep, Out.isPanic]
  | _ + 1, [] => by simp [takeSep, Out.isPanic]
  | k + 1, v :: vs => by
    unfold takeSep
    exact bind_safe (display_safe style _ v) (fun _ => bind_safe (takeSep_safe style bound k vs) (fun _ => rfl))

theorem enumSep_safe (style : String → Option Bool) (n : Option Nat) (len : Nat) : ∀ (i : Nat) (vs : List CVJ),
    i + vs.length = len → (enumSep true style n len i vs).isPanic = false
  | _, [], _ => by simp [enumSep, Out.isPanic]
  | i, v :: vs, h => by
    unfold enumSep
    simp only [List.length_cons] at h
    refine bind_safe (display_safe style n v) (fun _ => ?_)
    rw [if_neg (by omega)]
    exact bind_safe (enumSep_safe style n len (i + 1) vs (by omega)) (fun _ => rfl)

theorem takeSepKV_safe (style : String → Option Bool) (bound : Nat) : ∀ (k : Nat) (kvs : List (String × CVJ)),
    (takeSepKV true style bound k kvs).isPanic = false
  | 0, _ => by simp [takeSepKV, Out.isPanic]
  | _ + 1, [] => by simp [takeSepKV, Out.isPanic]
  | k + 1, (key, v) :: kvs => by
    unfold takeSepKV
    exact bind_safe (display_safe style _ v) (fun _ => bind_safe (takeSepKV_safe style bound k kvs) (fun _ => rfl))

theorem enumSepKV_safe (style : String → Option Bool) (n : Option Nat) (len : Nat) : ∀ (i : Nat) (kvs : List (String × CVJ)),
    i + kvs.length = len → (enumSepKV true style n len i kvs).isPanic = false
  | _, [], _ => by simp [enumSepKV, Out.isPanic]
  | i, (key, v) :: kvs, h => by
    unfold enumSepKV
    simp only [List.length_cons] at h
    refine bind_safe (display_safe style n v) (fun _ => ?_)
    rw [if_neg (by omega)]
    exact bind_safe (enumSepKV_safe style n len (i + 1) kvs (by omega)) (fun _ => rfl)
end

/-- before the guard: a method-style function applied to `[]` reaches `&args[0]`, wherever the value is nested — here at top level -/
theorem display_prefix_panics (style : String → Option Bool) (n : Option Nat) (fn : String) (h : style fn = some true) :
    display false style n (.extnMulti fn []) = .panic "&args[0]" := by
  unfold display
  simp [h]

end EstDisp
end NoPanic
end Cedar
