import CedarVerif.Cedar.PolicySet
/-
C08 helper lemmas, part 1: evaluation commutes with slot substitution (induction over `Expr` with the mutual
evaluator); the condition of the substituted template is the substituted condition; `check_binding`.
-/
namespace Cedar

/-! ### evaluation under a slot environment = evaluation of the substituted expression under the empty one -/

mutual
theorem eval_subst (req : Request) (es : Entities) (env : SlotEnv) :
    (e : Expr) → evaluate req es env e = evaluate req es [] (Expr.subst env e)
  | .lit p => by simp only [Expr.subst, evaluate]
  | .var v => by cases v <;> simp only [Expr.subst, evaluate]
  | .slot s => by
    simp only [Expr.subst, evaluate]
    cases h : List.lookup s env with
    | none => simp [evaluate, List.lookup]
    | some u => simp [evaluate]
  | .unknown n t => by simp only [Expr.subst, evaluate]
  | .ite c t e => by
    simp only [Expr.subst, evaluate]
    rw [eval_subst req es env c, eval_subst req es env t, eval_subst req es env e]
  | .and a b => by
    simp only [Expr.subst, evaluate]
    rw [eval_subst req es env a, eval_subst req es env b]
  | .or a b => by
    simp only [Expr.subst, evaluate]
    rw [eval_subst req es env a, eval_subst req es env b]
  | .unaryApp o a => by
    simp only [Expr.subst, evaluate]
    rw [eval_subst req es env a]
  | .binaryApp o a b => by
    simp only [Expr.subst, evaluate]
    rw [eval_subst req es env a, eval_subst req es env b]
  | .call f xs => by
    simp only [Expr.subst, evaluate]
    rw [evalList_subst req es env xs]
  | .getAttr a k => by
    simp only [Expr.subst, evaluate]
    rw [eval_subst req es env a]
  | .hasAttr a k => by
    simp only [Expr.subst, evaluate]
    rw [eval_subst req es env a]
  | .like a p => by
    simp only [Expr.subst, evaluate]
    rw [eval_subst req es env a]
  | .is a t => by
    simp only [Expr.subst, evaluate]
    rw [eval_subst req es env a]
  | .set xs => by
    simp only [Expr.subst, evaluate]
    rw [evalList_subst req es env xs]
  | .record kvs => by
    simp only [Expr.subst, evaluate]
    rw [evalKVs_subst req es env kvs]
theorem evalList_subst (req : Request) (es : Entities) (env : SlotEnv) :
    (xs : List Expr) → evaluateList req es env xs = evaluateList req es [] (Expr.substList env xs)
  | [] => by simp only [Expr.substList, evaluateList]
  | x :: xs => by
    simp only [Expr.substList, evaluateList]
    rw [eval_subst req es env x, evalList_subst req es env xs]
theorem evalKVs_subst (req : Request) (es : Entities) (env : SlotEnv) :
    (kvs : List (String × Expr)) → evaluateKVs req es env kvs = evaluateKVs req es [] (Expr.substKVs env kvs)
  | [] => by simp only [Expr.substKVs, evaluateKVs]
  | (k, x) :: xs => by
    simp only [Expr.substKVs, evaluateKVs]
    rw [eval_subst req es env x, evalKVs_subst req es env xs]
end

/-! ### substitution is the identity on slot-free expressions (the parser rejects slots in `when`/`unless`) -/

mutual
theorem subst_noSlots (env : SlotEnv) : (e : Expr) → e.slots = [] → Expr.subst env e = e
  | .lit _, _ => by simp only [Expr.subst]
  | .var _, _ => by simp only [Expr.subst]
  | .slot s, h => by simp [Expr.slots] at h
  | .unknown _ _, _ => by simp only [Expr.subst]
  | .ite c t e, h => by
    simp only [Expr.slots, List.append_eq_nil_iff] at h
    simp only [Expr.subst, subst_noSlots env c h.1.1, subst_noSlots env t h.1.2, subst_noSlots env e h.2]
  | .and a b, h => by
    simp only [Expr.slots, List.append_eq_nil_iff] at h
    simp only [Expr.subst, subst_noSlots env a h.1, subst_noSlots env b h.2]
  | .or a b, h => by
    simp only [Expr.slots, List.append_eq_nil_iff] at h
    simp only [Expr.subst, subst_noSlots env a h.1, subst_noSlots env b h.2]
  | .unaryApp _ a, h => by
    simp only [Expr.slots] at h
    simp only [Expr.subst, subst_noSlots env a h]
  | .binaryApp _ a b, h => by
    simp only [Expr.slots, List.append_eq_nil_iff] at h
    simp only [Expr.subst, subst_noSlots env a h.1, subst_noSlots env b h.2]
  | .call _ xs, h => by
    simp only [Expr.slots] at h
    simp only [Expr.subst, substList_noSlots env xs h]
  | .getAttr a _, h => by
    simp only [Expr.slots] at h
    simp only [Expr.subst, subst_noSlots env a h]
  | .hasAttr a _, h => by
    simp only [Expr.slots] at h
    simp only [Expr.subst, subst_noSlots env a h]
  | .like a _, h => by
    simp only [Expr.slots] at h
    simp only [Expr.subst, subst_noSlots env a h]
  | .is a _, h => by
    simp only [Expr.slots] at h
    simp only [Expr.subst, subst_noSlots env a h]
  | .set xs, h => by
    simp only [Expr.slots] at h
    simp only [Expr.subst, substList_noSlots env xs h]
  | .record kvs, h => by
    simp only [Expr.slots] at h
    simp only [Expr.subst, substKVs_noSlots env kvs h]
theorem substList_noSlots (env : SlotEnv) : (xs : List Expr) → Expr.slotsList xs = [] → Expr.substList env xs = xs
  | [], _ => by simp only [Expr.substList]
  | x :: xs, h => by
    simp only [Expr.slotsList, List.append_eq_nil_iff] at h
    simp only [Expr.substList, subst_noSlots env x h.1, substList_noSlots env xs h.2]
theorem substKVs_noSlots (env : SlotEnv) : (kvs : List (String × Expr)) → Expr.slotsKVs kvs = [] → Expr.substKVs env kvs = kvs
  | [], _ => by simp only [Expr.substKVs]
  | (k, x) :: xs, h => by
    simp only [Expr.slotsKVs, List.append_eq_nil_iff] at h
    simp only [Expr.substKVs, subst_noSlots env x h.1, substKVs_noSlots env xs h.2]
end

/-! ### the substituted template's condition is the substituted condition -/

theorem slotId_pr : (SlotId.principal == SlotId.resource) = false := by decide
theorem slotId_rp : (SlotId.resource == SlotId.principal) = false := by decide

theorem toEnv_lookup_principal (v : SlotVals) : List.lookup SlotId.principal v.toEnv = v.principal := by
  cases v with
  | mk p r => cases p <;> cases r <;> simp [SlotVals.toEnv, List.lookup, slotId_pr, slotId_rp]

theorem toEnv_lookup_resource (v : SlotVals) : List.lookup SlotId.resource v.toEnv = v.resource := by
  cases v with
  | mk p r => cases p <;> cases r <;> simp [SlotVals.toEnv, List.lookup, slotId_pr, slotId_rp]

theorem toEnv_lookup (v : SlotVals) (s : SlotId) : List.lookup s v.toEnv = v.get s := by
  cases s
  · exact toEnv_lookup_principal v
  · exact toEnv_lookup_resource v

theorem substList_lits (env : SlotEnv) (us : List EntityUID) :
    Expr.substList env (us.map (fun u => Expr.lit (.entityUID u))) = us.map (fun u => Expr.lit (.entityUID u)) := by
  induction us with
  | nil => simp [Expr.substList]
  | cons u us ih => simp [Expr.substList, Expr.subst, ih]

theorem subst_ref (env : SlotEnv) (r : EntityRef) (s : SlotId) :
    Expr.subst env (r.toExpr s) = (r.fill (List.lookup s env)).toExpr s := by
  cases r with
  | euid u => cases h : List.lookup s env <;> simp [EntityRef.toExpr, EntityRef.fill, Expr.subst]
  | slot => cases h : List.lookup s env <;> simp [EntityRef.toExpr, EntityRef.fill, Expr.subst, h]

theorem subst_scope (env : SlotEnv) (c : ScopeC) (v : Var) (s : SlotId) :
    Expr.subst env (c.toExpr v s) = (c.fill (List.lookup s env)).toExpr v s := by
  cases c <;> simp [ScopeC.toExpr, ScopeC.fill, Expr.subst, subst_ref]

theorem subst_action (env : SlotEnv) (c : ActionC) : Expr.subst env c.toExpr = c.toExpr := by
  cases c <;> simp [ActionC.toExpr, Expr.subst, substList_lits]

theorem asBoolLit_subst (env : SlotEnv) (e : Expr) : (Expr.subst env e).asBoolLit = e.asBoolLit := by
  cases e with
  | slot s => cases h : List.lookup s env <;> simp [Expr.subst, Expr.asBoolLit, h]
  | lit p => simp [Expr.subst]
  | _ => simp [Expr.subst, Expr.asBoolLit]

theorem subst_mkAnd (env : SlotEnv) (a b : Expr) :
    Expr.subst env (mkAnd a b) = mkAnd (Expr.subst env a) (Expr.subst env b) := by
  unfold mkAnd
  rw [asBoolLit_subst, asBoolLit_subst]
  cases a.asBoolLit <;> cases b.asBoolLit <;> simp [Expr.subst]

theorem substitute_condition (t : Template) (vals : SlotVals) (newId : String) :
    (t.substitute vals newId).condition = Expr.subst vals.toEnv t.condition := by
  unfold Template.substitute Template.condition TemplateBody.condition
  simp only [subst_mkAnd, subst_scope, subst_action, toEnv_lookup_principal, toEnv_lookup_resource]
  cases t.body.nonScope <;> simp [Expr.subst]

/-! ### `check_binding` -/

theorem checkBinding_iff (t : Template) (vals : SlotVals) :
    t.checkBinding vals = true ↔ ∀ s : SlotId, s ∈ t.slots ↔ (vals.get s).isSome = true := by
  unfold Template.checkBinding
  simp only [Bool.and_eq_true, List.isEmpty_iff, List.filter_eq_nil_iff]
  constructor
  · rintro ⟨h1, h2⟩ s
    constructor
    · intro hs
      have := h1 s hs
      cases hg : vals.get s <;> simp_all
    · intro hs
      have hk : s ∈ vals.keys := by
        cases s <;> simp_all [SlotVals.keys, SlotVals.get]
      have := h2 s hk
      cases hany : t.slots.any (fun ts => ts == s) with
      | false => simp [hany] at this
      | true =>
        simp only [List.any_eq_true, beq_iff_eq] at hany
        obtain ⟨x, hx, rfl⟩ := hany
        exact hx
  · intro h
    constructor
    · intro s hs
      have := (h s).mp hs
      cases hg : vals.get s <;> simp_all
    · intro s hs
      have hg : (vals.get s).isSome = true := by
        cases s <;> simp_all [SlotVals.keys, SlotVals.get]
      have := (h s).mpr hg
      have hany : t.slots.any (fun ts => ts == s) = true := by
        simp only [List.any_eq_true, beq_iff_eq]
        exact ⟨s, this, rfl⟩
      simp [hany]

end Cedar
