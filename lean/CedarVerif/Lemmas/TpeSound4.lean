import CedarVerif.Lemmas.TpeArms
/- C14 helpers: soundness of `interpret` on `Frag` (all constructors; side conditions on `&&` / `||`), by induction. -/
namespace Cedar.Tpe
open Cedar

variable {preq : PRequest} {pes : PEntities} {req : Request} {es : Entities}

theorem beq_comm_str (a b : String) : (a == b) = (b == a) := by
  cases h : a == b <;> cases h' : b == a <;> simp_all

theorem interpret_sound_frag (hC : Completes preq pes req es) {r : Residual} (hf : Frag preq pes req es r) :
    Agree ((interpret preq pes r).eval req es) (r.eval req es) := by
  induction hf with
  | concrete v ty => simp [interpret, Residual.eval, Agree]
  | error ty => simp [interpret, Residual.eval, Agree]
  | var x ty => rw [interpret]; exact sound_var hC x ty
  | @and l r ty _ _ hbl hbr hef ihl ihr =>
    rw [interpret, interpretKind_and]
    simp only [Residual.eval, RKind.eval]
    exact and_arm req es ty _ _ _ _ ihl ihr hbl hbr hef
  | @or l r ty _ _ hbl hbr hef ihl ihr =>
    rw [interpret, interpretKind_or]
    simp only [Residual.eval, RKind.eval]
    exact or_arm req es ty _ _ _ _ ihl ihr hbl hbr hef
  | @ite c t e ty _ _ _ ihc iht ihe =>
    rw [interpret, interpretKind]
    simp only [Residual.eval, RKind.eval]
    cases hc : interpret preq pes c with
    | concrete v vt =>
      rw [hc] at ihc
      have hx : c.eval req es = .ok v := agree_ok_left (by simpa [Residual.eval] using ihc)
      rw [hx]
      simp only [iteR]
      cases v.asBool with
      | error _ => simp [Residual.eval, Agree]
      | ok b => cases b <;> simp [iht, ihe]
    | part k kt =>
      rw [hc] at ihc
      simp only [Residual.eval, RKind.eval]
      exact iteR_congr ihc iht ihe
    | error et =>
      rw [hc] at ihc
      obtain ⟨e', he'⟩ := agree_err_left (by simpa [Residual.eval] using ihc)
      simp [he', Residual.eval, iteR, Agree]
  | @unary op a ty _ ih =>
    rw [interpret, interpretKind]
    simp only [Residual.eval, RKind.eval]
    cases hq : interpret preq pes a with
    | concrete v t =>
      rw [hq] at ih
      have hx : a.eval req es = .ok v := agree_ok_left (by simpa [Residual.eval] using ih)
      rw [hx]; simp only [bindR]
      exact agree_ofResult ty req es _
    | part k t =>
      rw [hq] at ih
      simp only [Residual.eval, RKind.eval]; exact bindR_congr _ ih
    | error t =>
      rw [hq] at ih
      obtain ⟨e', he'⟩ := agree_err_left (by simpa [Residual.eval] using ih)
      simp [he', Residual.eval, bindR, Agree]
  | @like e p ty _ ih =>
    rw [interpret, interpretKind]
    simp only [Residual.eval, RKind.eval]
    cases hq : interpret preq pes e with
    | concrete v t =>
      rw [hq] at ih
      have hx : e.eval req es = .ok v := agree_ok_left (by simpa [Residual.eval] using ih)
      rw [hx]; simp only [bindR, likeV]
      cases v.asString <;> simp [mkBool, Residual.eval, Agree]
    | part k t =>
      rw [hq] at ih
      simp only [Residual.eval, RKind.eval]; exact bindR_congr _ ih
    | error t =>
      rw [hq] at ih
      obtain ⟨e', he'⟩ := agree_err_left (by simpa [Residual.eval] using ih)
      simp [he', Residual.eval, bindR, Agree]
  | @is e ety ty _ ih =>
    rw [interpret, interpretKind]
    simp only [Residual.eval, RKind.eval]
    cases hq : interpret preq pes e with
    | concrete v t =>
      rw [hq] at ih
      have hx : e.eval req es = .ok v := agree_ok_left (by simpa [Residual.eval] using ih)
      rw [hx]; simp only [bindR, isV]
      cases v.asEntity <;> simp [mkBool, Residual.eval, Agree]
    | error t =>
      rw [hq] at ih
      obtain ⟨e', he'⟩ := agree_err_left (by simpa [Residual.eval] using ih)
      simp [he', Residual.eval, bindR, Agree]
    | part k t =>
      rw [hq] at ih
      have generic : Agree ((Residual.part (.is (.part k t) ety) ty).eval req es) (bindR (e.eval req es) (isV ety)) := by
        simp only [Residual.eval, RKind.eval]; exact bindR_congr _ ih
      cases k with
      | var x =>
        cases x with
        | principal =>
          have hx : e.eval req es = .ok (.prim (.entityUID req.principal)) :=
            agree_ok_left (by simpa [Residual.eval, RKind.eval] using ih)
          simp [hx, bindR, isV, Value.asEntity, mkBool, Residual.eval, Agree, hC.ptype, beq_comm_str ety]
        | resource =>
          have hx : e.eval req es = .ok (.prim (.entityUID req.resource)) :=
            agree_ok_left (by simpa [Residual.eval, RKind.eval] using ih)
          simp [hx, bindR, isV, Value.asEntity, mkBool, Residual.eval, Agree, hC.rtype, beq_comm_str ety]
        | action => exact generic
        | context => exact generic
      | _ => exact generic
  | @getAttr e a ty _ ih =>
    rw [interpret, interpretKind]
    simp only [Residual.eval, RKind.eval]
    cases hq : interpret preq pes e with
    | error t =>
      rw [hq] at ih
      obtain ⟨e', he'⟩ := agree_err_left (by simpa [Residual.eval] using ih)
      simp [he', Residual.eval, bindR, Agree]
    | part k t =>
      rw [hq] at ih
      simp only [Residual.eval, RKind.eval]; exact bindR_congr _ ih
    | concrete v t =>
      rw [hq] at ih
      have hx : e.eval req es = .ok v := agree_ok_left (by simpa [Residual.eval] using ih)
      rw [hx]; simp only [bindR]
      cases v with
      | record kvs => simp only [getAttrV]; cases lookupKV kvs a <;> simp [Residual.eval, Agree]
      | set vs => simp [getAttrV, Residual.eval, Agree]
      | ext x => simp [getAttrV, Residual.eval, Agree]
      | prim p =>
        cases p with
        | entityUID u =>
          cases ha : pes.attrs? u with
          | none => simp only [ha, Residual.eval, RKind.eval, bindR]; exact Agree.rfl' _
          | some attrs =>
            obtain ⟨d, hd, hda⟩ := hC.attrs u attrs ha
            simp only [ha, getAttrV, hd, hda]
            cases lookupKV attrs a <;> simp [Residual.eval, Agree]
        | bool b => simp [getAttrV, Residual.eval, Agree]
        | int i => simp [getAttrV, Residual.eval, Agree]
        | string s => simp [getAttrV, Residual.eval, Agree]
  | @hasAttr e a ty _ ih =>
    rw [interpret, interpretKind]
    simp only [Residual.eval, RKind.eval]
    cases hq : interpret preq pes e with
    | error t =>
      rw [hq] at ih
      obtain ⟨e', he'⟩ := agree_err_left (by simpa [Residual.eval] using ih)
      simp [he', Residual.eval, bindR, Agree]
    | part k t =>
      rw [hq] at ih
      simp only [Residual.eval, RKind.eval]; exact bindR_congr _ ih
    | concrete v t =>
      rw [hq] at ih
      have hx : e.eval req es = .ok v := agree_ok_left (by simpa [Residual.eval] using ih)
      rw [hx]; simp only [bindR]
      cases v with
      | record kvs => simp [hasAttrV, mkBool, Residual.eval, Agree]
      | set vs => simp [hasAttrV, Residual.eval, Agree]
      | ext x => simp [hasAttrV, Residual.eval, Agree]
      | prim p =>
        cases p with
        | entityUID u =>
          cases ha : pes.attrs? u with
          | none => simp only [ha, Residual.eval, RKind.eval, bindR]; exact Agree.rfl' _
          | some attrs =>
            obtain ⟨d, hd, hda⟩ := hC.attrs u attrs ha
            simp [ha, hasAttrV, hd, hda, mkBool, Residual.eval, Agree]
        | bool b => simp [hasAttrV, Residual.eval, Agree]
        | int i => simp [hasAttrV, Residual.eval, Agree]
        | string s => simp [hasAttrV, Residual.eval, Agree]
  | @binary op a b ty _ _ iha ihb =>
    rw [interpret, interpretKind_binary]
    simp only [Residual.eval, RKind.eval]
    exact binary_arm hC ty op _ _ _ _ iha ihb
  | @call fn args ty _ ih =>
    rw [interpret, interpretKind_call]
    simp only [Residual.eval, eval_call]
    exact list_arm ty _ _ _ (callExt fn) _ (evalList_interp args ih) (fun vals => agree_ofResult ty req es _)
      (fun rs => eval_call fn rs)
  | @set xs ty _ ih =>
    rw [interpret, interpretKind_set]
    simp only [Residual.eval, eval_set]
    exact list_arm ty _ _ _ (fun vs => .ok (.set (Value.mkSet vs))) _ (evalList_interp xs ih)
      (fun vals => by simp [Residual.eval, Agree]) (fun rs => eval_set rs)
  | @record kvs ty _ ih =>
    rw [interpret, interpretKind_record]
    simp only [Residual.eval, eval_record]
    exact record_arm ty _ _ (evalKVs_interp kvs ih)

end Cedar.Tpe
