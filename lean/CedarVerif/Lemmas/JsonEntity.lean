import CedarVerif.Lemmas.JsonRoundTrip
/-
C10, entity level: attribute / tag maps and parent lists round trip through `EntityJson`.
-/
namespace Cedar
namespace CJson

mutual
theorem noDup_of_rawOk : ∀ (j : Json), rawOk j = true → noDupKeys j = true
  | .null, _ => rfl
  | .bool _, _ => rfl
  | .int _, _ => rfl
  | .num _, _ => rfl
  | .str _, _ => rfl
  | .arr xs, h => by simp only [rawOk] at h; simp only [noDupKeys]; exact noDupList_of_rawOk xs h
  | .obj kvs, h => by
    simp only [rawOk, Bool.and_eq_true] at h
    simp only [noDupKeys, Bool.and_eq_true]
    exact ⟨noDupKVs_of_rawOk kvs h.1, h.2⟩
theorem noDupList_of_rawOk : ∀ (xs : List Json), rawOkList xs = true → noDupKeysList xs = true
  | [], _ => rfl
  | x :: xs, h => by
    simp only [rawOkList, Bool.and_eq_true] at h
    simp only [noDupKeysList, Bool.and_eq_true]
    exact ⟨noDup_of_rawOk x h.1, noDupList_of_rawOk xs h.2⟩
theorem noDupKVs_of_rawOk : ∀ (kvs : List (String × Json)), rawOkKVs kvs = true → noDupKeysKVs kvs = true
  | [], _ => rfl
  | (_, x) :: kvs, h => by
    simp only [rawOkKVs, Bool.and_eq_true] at h
    simp only [noDupKeysKVs, Bool.and_eq_true]
    exact ⟨noDup_of_rawOk x h.1, noDupKVs_of_rawOk kvs h.2⟩
end

theorem attrsOfJson_of (cs : List (String × CJ)) : ∀ (es : List (String × Expr)),
    rawOkKVs (CJ.toJsonKVs cs) = true → CJ.ofRawKVs (CJ.toJsonKVs cs) = cs → CJ.callsUnknownKVs cs = false →
    CJ.intoExprKVs cs = .ok es → attrsOfJson (CJ.toJsonKVs cs) = .ok es := by
  induction cs with
  | nil => intro es _ _ _ h; simp [CJ.intoExprKVs] at h; subst h; rfl
  | cons p cs ih =>
    obtain ⟨k, c⟩ := p
    intro es h1 h2 h3 h4
    simp only [CJ.toJsonKVs, rawOkKVs, Bool.and_eq_true] at h1
    simp only [CJ.toJsonKVs, CJ.ofRawKVs, List.cons.injEq, Prod.mk.injEq, true_and] at h2
    simp only [CJ.callsUnknownKVs, Bool.or_eq_false_iff] at h3
    simp only [CJ.intoExprKVs, bind_ok] at h4
    obtain ⟨e, he, es', hes', hh⟩ := h4
    cases hh
    have := ih es' h1.2 h2.2 h3.2 hes'
    simp [CJ.toJsonKVs, attrsOfJson, exprOfJson, CJ.ofJson, h1.1, h2.1, h3.1, he, this, bind, Except.bind]

theorem evalKVs_of (es : List (String × Expr)) : ∀ (vs : List (String × Value)),
    evaluateKVs dummyReq [] [] es = .ok vs → evalKVs es = .ok vs := by
  induction es with
  | nil => intro vs h; simp [evaluateKVs] at h; subst h; rfl
  | cons p es ih =>
    obtain ⟨k, e⟩ := p
    intro vs h
    simp only [evaluateKVs] at h
    split at h
    · cases h
    · rename_i v hv
      split at h
      · cases h
      · rename_i vs' hvs'
        cases h
        simp [evalKVs, evalR, hv, ih vs' hvs', bind, Except.bind]

/-- an attribute (or tag) map: serialise, then parse each member and evaluate -/
theorem kvs_roundtrip (kvs : List (String × Value)) (cs : List (String × CJ))
    (hwf : WFKVs kvs) (hs : Sorted (kvs.map Prod.fst)) (hext : AllExtKVs (LeafOK canonRepr) kvs)
    (h : fromValueKVsWith canonRepr kvs = .ok cs) :
    ∃ es vs', attrsOfJson (sortKVs (CJ.toJsonKVs cs)) = .ok es ∧ evalKVs es = .ok vs' ∧ BeqKVs kvs vs' ∧
      noDupKeysKVs (CJ.toJsonKVs cs) = true ∧ hasDup ((CJ.toJsonKVs cs).map Prod.fst) = false := by
  obtain ⟨h1, h2, h3, hk, es, h4, vs', h5, h6⟩ := rt_kvs canonRepr kvs cs hwf hext h
  have hsorted : Sorted ((CJ.toJsonKVs cs).map Prod.fst) := by rw [keys_toJsonKVs, hk]; exact hs
  refine ⟨es, vs', ?_, evalKVs_of es vs' h5, h6, noDupKVs_of_rawOk _ h1, hasDup_sorted _ hsorted⟩
  rw [sortKVs_sorted _ hsorted]
  exact attrsOfJson_of cs es h1 h2 h3 h4

/-- one parent document (`EntityUidJson::into_euid` + the action-parent check of `parse_ejson`) -/
def parentStep (uid : EntityUID) (p : Json) : R EntityUID := do
  let u ← uidOfJson p
  if isAction uid && !isAction u then .error .actionParent else .ok u

theorem uidOfJson_uidJson (u : EntityUID) (hv : validName u.ty = true) : uidOfJson (uidJson u) = .ok u := by
  simp [uidJson, uidOfJson, typeAndId, lookupKV, hv]

/-- the parent list: every `{type,id}` document parses back to its uid -/
theorem parents_roundtrip (uid : EntityUID) (us : List EntityUID) (hv : ∀ u, u ∈ us → validName u.ty = true)
    (hact : isAction uid = true → ∀ u, u ∈ us → isAction u = true) :
    mapE (parentStep uid) (us.map uidJson) = .ok us := by
  induction us with
  | nil => rfl
  | cons u us ih =>
    have hu := hv u (List.mem_cons_self ..)
    have ih' := ih (fun w hw => hv w (List.mem_cons_of_mem _ hw)) (fun ha w hw => hact ha w (List.mem_cons_of_mem _ hw))
    have hcond : (isAction uid && !isAction u) = false := by
      cases ha : isAction uid with
      | false => rfl
      | true => simp [hact ha u (List.mem_cons_self ..)]
    have hstep : parentStep uid (uidJson u) = .ok u := by
      simp [parentStep, uidOfJson_uidJson u hu, hcond, bind, Except.bind]
    simp only [List.map_cons, mapE, hstep, ih', bind, Except.bind]

end CJson
end Cedar
