import CedarVerif.Cedar.Partial
/- Bucket membership of the partial authorizer loop and the decision-table lemma (DESIGN.md appendix C),
   stated over the model's `PartialResponse`. -/
namespace Cedar

/-- what is known about one policy after partial evaluation vs. its final outcome under a completion -/
def Consistent (c : PolicyResult) (o : Outcome) : Prop :=
  match c with
  | .sat => o = .sat
  | .unsat => o = .unsat
  | .err => o = .err
  | .residual _ => True
  | .stuck => False

/-- the concrete authorizer's decision from final per-policy outcomes (C01 `allow_iff`, as a definition) -/
def concreteDecision (ps : List Policy) (out : Policy → Outcome) : Decision :=
  if ps.any (fun p => p.effect == .permit && out p == .sat) && !ps.any (fun p => p.effect == .forbid && out p == .sat)
  then .allow else .deny

/-- the concrete determining policies (C01 `reasons_exact`, as a definition) -/
def determining (ps : List Policy) (out : Policy → Outcome) : List String :=
  if ps.any (fun p => p.effect == .forbid && out p == .sat)
  then (ps.filter (fun p => p.effect == .forbid && out p == .sat)).map (·.id)
  else (ps.filter (fun p => p.effect == .permit && out p == .sat)).map (·.id)

section
variable (m : Mapper) (es : PEntities)

theorem step_request (pr : PartialResponse) (p : Policy) :
    (PartialResponse.step m es pr p).request = pr.request := by
  unfold PartialResponse.step
  split <;> rfl

theorem fold_request (ps : List Policy) (pr : PartialResponse) :
    (ps.foldl (PartialResponse.step m es) pr).request = pr.request := by
  induction ps generalizing pr with
  | nil => rfl
  | cons p ps ih => rw [List.foldl_cons, ih, step_request]

/-- membership in every bucket after one step -/
structure StepSpec (pr pr' : PartialResponse) (p : Policy) (c : PolicyResult) : Prop where
  sp : ∀ id, id ∈ pr'.satisfiedPermits ↔ id ∈ pr.satisfiedPermits ∨ (id = p.id ∧ p.effect = .permit ∧ c = .sat)
  sf : ∀ id, id ∈ pr'.satisfiedForbids ↔ id ∈ pr.satisfiedForbids ∨ (id = p.id ∧ p.effect = .forbid ∧ c = .sat)
  fp : ∀ id b, (id, b) ∈ pr'.falsePermits ↔ (id, b) ∈ pr.falsePermits ∨
        (id = p.id ∧ p.effect = .permit ∧ ((b = false ∧ c = .unsat) ∨ (b = true ∧ c = .err)))
  ff : ∀ id b, (id, b) ∈ pr'.falseForbids ↔ (id, b) ∈ pr.falseForbids ∨
        (id = p.id ∧ p.effect = .forbid ∧ ((b = false ∧ c = .unsat) ∨ (b = true ∧ c = .err)))
  rp : ∀ id e, (id, e) ∈ pr'.residualPermits ↔ (id, e) ∈ pr.residualPermits ∨ (id = p.id ∧ p.effect = .permit ∧ c = .residual e)
  rf : ∀ id e, (id, e) ∈ pr'.residualForbids ↔ (id, e) ∈ pr.residualForbids ∨ (id = p.id ∧ p.effect = .forbid ∧ c = .residual e)
  st : ∀ id, id ∈ pr'.stuck ↔ id ∈ pr.stuck ∨ (id = p.id ∧ c = .stuck)

theorem step_spec (pr : PartialResponse) (p : Policy) :
    StepSpec pr (PartialResponse.step m es pr p) p (partialEvaluate m pr.request es p) := by
  unfold PartialResponse.step
  cases hc : partialEvaluate m pr.request es p <;> cases he : p.effect <;>
    constructor <;> intros <;> simp [Prod.ext_iff, he] <;>
    try (constructor <;> (intro h; rcases h with h | ⟨h1, h2⟩ <;> first | exact Or.inl h | exact Or.inr ⟨h1, h2.symm⟩))

/-- membership in every bucket after the whole loop -/
structure FoldSpec (req : PRequest) (pr pr' : PartialResponse) (ps : List Policy) : Prop where
  sp : ∀ id, id ∈ pr'.satisfiedPermits ↔ id ∈ pr.satisfiedPermits ∨
        ∃ p, p ∈ ps ∧ id = p.id ∧ p.effect = .permit ∧ partialEvaluate m req es p = .sat
  sf : ∀ id, id ∈ pr'.satisfiedForbids ↔ id ∈ pr.satisfiedForbids ∨
        ∃ p, p ∈ ps ∧ id = p.id ∧ p.effect = .forbid ∧ partialEvaluate m req es p = .sat
  fp : ∀ id b, (id, b) ∈ pr'.falsePermits ↔ (id, b) ∈ pr.falsePermits ∨
        ∃ p, p ∈ ps ∧ id = p.id ∧ p.effect = .permit ∧
          ((b = false ∧ partialEvaluate m req es p = .unsat) ∨ (b = true ∧ partialEvaluate m req es p = .err))
  ff : ∀ id b, (id, b) ∈ pr'.falseForbids ↔ (id, b) ∈ pr.falseForbids ∨
        ∃ p, p ∈ ps ∧ id = p.id ∧ p.effect = .forbid ∧
          ((b = false ∧ partialEvaluate m req es p = .unsat) ∨ (b = true ∧ partialEvaluate m req es p = .err))
  rp : ∀ id e, (id, e) ∈ pr'.residualPermits ↔ (id, e) ∈ pr.residualPermits ∨
        ∃ p, p ∈ ps ∧ id = p.id ∧ p.effect = .permit ∧ partialEvaluate m req es p = .residual e
  rf : ∀ id e, (id, e) ∈ pr'.residualForbids ↔ (id, e) ∈ pr.residualForbids ∨
        ∃ p, p ∈ ps ∧ id = p.id ∧ p.effect = .forbid ∧ partialEvaluate m req es p = .residual e
  st : ∀ id, id ∈ pr'.stuck ↔ id ∈ pr.stuck ∨ ∃ p, p ∈ ps ∧ id = p.id ∧ partialEvaluate m req es p = .stuck

theorem fold_spec (ps : List Policy) (pr : PartialResponse) :
    FoldSpec m es pr.request pr (ps.foldl (PartialResponse.step m es) pr) ps := by
  induction ps generalizing pr with
  | nil => constructor <;> intros <;> simp
  | cons p ps ih =>
    have h1 := step_spec m es pr p
    have h2 := ih (PartialResponse.step m es pr p)
    rw [step_request] at h2
    rw [List.foldl_cons]
    constructor
    · intro id; rw [h2.sp, h1.sp]; simp only [List.mem_cons, exists_eq_or_imp, or_assoc]
    · intro id; rw [h2.sf, h1.sf]; simp only [List.mem_cons, exists_eq_or_imp, or_assoc]
    · intro id b; rw [h2.fp, h1.fp]; simp only [List.mem_cons, exists_eq_or_imp, or_assoc]
    · intro id b; rw [h2.ff, h1.ff]; simp only [List.mem_cons, exists_eq_or_imp, or_assoc]
    · intro id e; rw [h2.rp, h1.rp]; simp only [List.mem_cons, exists_eq_or_imp, or_assoc]
    · intro id e; rw [h2.rf, h1.rf]; simp only [List.mem_cons, exists_eq_or_imp, or_assoc]
    · intro id; rw [h2.st, h1.st]; simp only [List.mem_cons, exists_eq_or_imp, or_assoc]

/-- the buckets of `isAuthorizedCore` characterised by the per-policy results -/
theorem core_spec (req : PRequest) (ps : List Policy) :
    FoldSpec m es req { request := req } (isAuthorizedCore m req es ps) ps :=
  fold_spec m es ps { request := req }

end

theorem ne_isEmpty_iff {α} {l : List α} : (!l.isEmpty) = true ↔ ∃ x, x ∈ l := by
  cases l with
  | nil => simp
  | cons a t => simp

end Cedar
