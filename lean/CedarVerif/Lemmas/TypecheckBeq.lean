import CedarVerif.Cedar.Validation.Typecheck
/- `Expr.beq` (the model of `ExprShapeOnly` equality) decides equality of expressions. -/
namespace Cedar

mutual
theorem Expr.beq_eq : ∀ (a b : Expr), Expr.beq a b = true → a = b
  | .lit p, b, h => by
    cases b <;> simp only [Expr.beq, Bool.false_eq_true] at h
    simp only [beq_iff_eq] at h; rw [h]
  | .var p, b, h => by
    cases b <;> simp only [Expr.beq, Bool.false_eq_true] at h
    simp only [beq_iff_eq] at h; rw [h]
  | .slot p, b, h => by
    cases b <;> simp only [Expr.beq, Bool.false_eq_true] at h
    simp only [beq_iff_eq] at h; rw [h]
  | .unknown n t, b, h => by
    cases b <;> simp only [Expr.beq, Bool.false_eq_true] at h
    simp only [Bool.and_eq_true, beq_iff_eq] at h; rw [h.1, h.2]
  | .ite a1 a2 a3, b, h => by
    cases b <;> simp only [Expr.beq, Bool.false_eq_true] at h
    rename_i b1 b2 b3
    simp only [Bool.and_eq_true] at h
    rw [Expr.beq_eq a1 b1 h.1.1, Expr.beq_eq a2 b2 h.1.2, Expr.beq_eq a3 b3 h.2]
  | .and a1 a2, b, h => by
    cases b <;> simp only [Expr.beq, Bool.false_eq_true] at h
    rename_i b1 b2
    simp only [Bool.and_eq_true] at h
    rw [Expr.beq_eq a1 b1 h.1, Expr.beq_eq a2 b2 h.2]
  | .or a1 a2, b, h => by
    cases b <;> simp only [Expr.beq, Bool.false_eq_true] at h
    rename_i b1 b2
    simp only [Bool.and_eq_true] at h
    rw [Expr.beq_eq a1 b1 h.1, Expr.beq_eq a2 b2 h.2]
  | .unaryApp o a1, b, h => by
    cases b <;> simp only [Expr.beq, Bool.false_eq_true] at h
    rename_i o' b1
    simp only [Bool.and_eq_true, beq_iff_eq] at h
    rw [h.1, Expr.beq_eq a1 b1 h.2]
  | .binaryApp o a1 a2, b, h => by
    cases b <;> simp only [Expr.beq, Bool.false_eq_true] at h
    rename_i o' b1 b2
    simp only [Bool.and_eq_true, beq_iff_eq] at h
    rw [h.1.1, Expr.beq_eq a1 b1 h.1.2, Expr.beq_eq a2 b2 h.2]
  | .call f as, b, h => by
    cases b <;> simp only [Expr.beq, Bool.false_eq_true] at h
    rename_i f' bs
    simp only [Bool.and_eq_true, beq_iff_eq] at h
    rw [h.1, Expr.beqList_eq as bs h.2]
  | .getAttr a1 k, b, h => by
    cases b <;> simp only [Expr.beq, Bool.false_eq_true] at h
    rename_i b1 k'
    simp only [Bool.and_eq_true, beq_iff_eq] at h
    rw [h.2, Expr.beq_eq a1 b1 h.1]
  | .hasAttr a1 k, b, h => by
    cases b <;> simp only [Expr.beq, Bool.false_eq_true] at h
    rename_i b1 k'
    simp only [Bool.and_eq_true, beq_iff_eq] at h
    rw [h.2, Expr.beq_eq a1 b1 h.1]
  | .like a1 k, b, h => by
    cases b <;> simp only [Expr.beq, Bool.false_eq_true] at h
    rename_i b1 k'
    simp only [Bool.and_eq_true, beq_iff_eq] at h
    rw [h.2, Expr.beq_eq a1 b1 h.1]
  | .is a1 k, b, h => by
    cases b <;> simp only [Expr.beq, Bool.false_eq_true] at h
    rename_i b1 k'
    simp only [Bool.and_eq_true, beq_iff_eq] at h
    rw [h.2, Expr.beq_eq a1 b1 h.1]
  | .set as, b, h => by
    cases b <;> simp only [Expr.beq, Bool.false_eq_true] at h
    rename_i bs
    rw [Expr.beqList_eq as bs h]
  | .record as, b, h => by
    cases b <;> simp only [Expr.beq, Bool.false_eq_true] at h
    rename_i bs
    rw [Expr.beqKVs_eq as bs h]
theorem Expr.beqList_eq : ∀ (as bs : List Expr), Expr.beqList as bs = true → as = bs
  | [], bs, h => by cases bs <;> simp only [Expr.beqList, Bool.false_eq_true] at h; rfl
  | a :: as, bs, h => by
    cases bs <;> simp only [Expr.beqList, Bool.false_eq_true] at h
    rename_i b bs
    simp only [Bool.and_eq_true] at h
    rw [Expr.beq_eq a b h.1, Expr.beqList_eq as bs h.2]
theorem Expr.beqKVs_eq : ∀ (as bs : List (String × Expr)), Expr.beqKVs as bs = true → as = bs
  | [], bs, h => by cases bs <;> simp only [Expr.beqKVs, Bool.false_eq_true] at h; rfl
  | (k, a) :: as, bs, h => by
    cases bs <;> simp only [Expr.beqKVs, Bool.false_eq_true] at h
    rename_i kb bs
    obtain ⟨k', b⟩ := kb
    simp only [Expr.beqKVs, Bool.and_eq_true, beq_iff_eq] at h
    rw [h.1.1, Expr.beq_eq a b h.1.2, Expr.beqKVs_eq as bs h.2]
end

theorem Capability.beq_eq {a b : Capability} (h : Capability.beq a b = true) : a = b := by
  obtain ⟨ao, ak, akd⟩ := a
  obtain ⟨bo, bk, bkd⟩ := b
  simp only [Capability.beq, Bool.and_eq_true, beq_iff_eq] at h
  rw [h.1.1, Expr.beq_eq _ _ h.1.2, Expr.beq_eq _ _ h.2]

end Cedar
