import CedarVerif.Lemmas.PartialStore6
import CedarVerif.Lemmas.PartialStore7
/-
C13:
  * policy-level agreement when the second pass reads the UNSUBSTITUTED store (`PolicyAgreesOn pes`), for stores whose
    residual attributes are all direct unknowns (`DirectUnk`): `policyAgreesOn_of_frag3_direct`;
  * the recursion-budget check for a second pass on an arbitrary store (`fuelOKOn`);
  * `concretizes2_of_concretizeRequest`: `PartialResponse::concretize_request σ = ok (a concrete request)` gives
    `Concretizes2` — the relation the soundness theorems assume — from the do-block of the model, step by step
    (`conc_of_concretize`, `ctxCompletes_of_substitute`).
-/
namespace Cedar
namespace PS

section
variable (σ : Mapper) (req : Request) (es : Entities)

theorem policyAgreesOn_of_frag3_direct (hctx : (Value.record req.context).Canon)
    (preq : PRequest) (pes : PEntities) (hS : StoreCompletes σ pes es) (hD : DirectUnk pes) (hC : Concretizes2 σ es preq req)
    (p : Policy) (hf : Frag2 σ p.condition) (hsub : p.condition.substUnk σ = p.condition)
    (hslot : ∀ r, partialEvaluate [] preq pes p = .residual r → r.hasSlot = false)
    (hns2 : ∀ q, residualPolicy (partialEvaluate [] preq pes p) p = some q →
      partialEvaluate σ (.ofConcrete req) pes q ≠ .stuck)
    (hns1 : partialEvaluate [] preq pes p ≠ .stuck) :
    PolicyAgreesOn pes σ preq pes req es p :=
  policyAgreesOn_of_sound σ req es pes (fun _ hfr n => bridge_direct σ req es [] hctx pes hS hD hfr n)
    preq pes p
    (pinterp_sound3 σ req es p.env hctx [] preq pes hS (MapLE.nil σ) hC defaultFuel p.condition hf) hsub hslot hns2 hns1

end

/-- neither pass exhausts the model's recursion budget, the second pass reading the store `pes2` -/
def fuelOKOn (pes2 : PEntities) (σ : Mapper) (req : Request) (preq : PRequest) (pes : PEntities) (ps : List Policy) : Bool :=
  ps.all fun p => !isStuck (partialEvaluate [] preq pes p) &&
    (match residualPolicy (partialEvaluate [] preq pes p) p with
     | some q => !isStuck (partialEvaluate σ (.ofConcrete req) pes2 q)
     | none => true)

theorem fuelOKOn_spec {pes2 : PEntities} {σ : Mapper} {req : Request} {preq : PRequest} {pes : PEntities} {ps : List Policy}
    (h : fuelOKOn pes2 σ req preq pes ps = true) :
    (∀ p, p ∈ ps → partialEvaluate [] preq pes p ≠ .stuck) ∧
    (∀ p, p ∈ ps → ∀ q, residualPolicy (partialEvaluate [] preq pes p) p = some q →
      partialEvaluate σ (.ofConcrete req) pes2 q ≠ .stuck) := by
  unfold fuelOKOn at h
  rw [List.all_eq_true] at h
  constructor
  · intro p hp hs
    have := h p hp
    rw [hs] at this
    simp [isStuck] at this
  · intro p hp q hq hs
    have := h p hp
    rw [hq] at this
    simp only [Bool.and_eq_true] at this
    have h2 := this.2
    rw [hs] at h2
    simp [isStuck] at h2

/-! ### `concretize_request` -/

theorem isAuthorizedCore_request (m : Mapper) (preq : PRequest) (pes : PEntities) (ps : List Policy) :
    (isAuthorizedCore m preq pes ps).request = preq := by
  unfold isAuthorizedCore
  rw [fold_request]

/-- the context a residual-free fragment hypothesis speaks about: a `Context::Residual` lies in `Frag2 σ` (σ defines its
    unknowns with canonical values of the annotated types; distinct keys) -/
def CtxFrag (σ : Mapper) (pc : Option PContext) : Prop :=
  ∀ kvs, pc = some (.residual kvs) → Frag2 σ (.record kvs)

theorem substitute_value (kvs : List (String × Value)) (σ : Mapper) :
    (PContext.value kvs).substitute σ = .ok (.value kvs) := rfl

/-- **what `concretize_request` computes is `Concretizes2`**: if the model's `concretizeRequest σ` — principal / action /
    resource through `EntityUIDEntry::concretize` (σ's value must be an entity, a known entry must not be re-bound, a typed
    unknown must get an entity of that type), the context replaced by σ's `context` record if it was missing (conflict if it
    was present), then `Context::substitute` (substitute + restricted evaluation) — returns the *concrete* request `req`, then
    `req` concretises the partial request under σ in the sense the soundness theorems assume.  The only side condition is
    that a residual context lies in the fragment. -/
theorem concretizes2_of_concretizeRequest (pr : PartialResponse) (σ : Mapper) (es : Entities) (req : Request)
    (hf : CtxFrag σ pr.request.context)
    (h : pr.concretizeRequest σ = .ok (.ofConcrete req)) : Concretizes2 σ es pr.request req := by
  unfold PartialResponse.concretizeRequest at h
  cases hp : pr.request.principal.concretize "principal" σ with
  | error e => rw [hp] at h; cases h
  | ok p' =>
  cases ha : pr.request.action.concretize "action" σ with
  | error e => rw [hp, ha] at h; cases h
  | ok a' =>
  cases hr : pr.request.resource.concretize "resource" σ with
  | error e => rw [hp, ha, hr] at h; cases h
  | ok r' =>
  rw [hp, ha, hr] at h
  simp only [bind, Except.bind] at h
  -- the context steps
  cases hl : lookupKV σ "context" with
  | none =>
    rw [hl] at h
    simp only [pure, Except.pure] at h
    cases hc : pr.request.context with
    | none => rw [hc] at h; simp [PRequest.ofConcrete] at h
    | some c =>
      rw [hc] at h
      simp only at h
      cases hs : c.substitute σ with
      | error e => rw [hs] at h; simp [Except.map] at h
      | ok c' =>
        rw [hs] at h
        simp only [Except.map, Except.ok.injEq, PRequest.ofConcrete, PRequest.mk.injEq, Option.some.injEq] at h
        obtain ⟨h1, h2, h3, h4⟩ := h
        subst h1 h2 h3 h4
        refine ⟨conc_of_concretize hp, conc_of_concretize ha, conc_of_concretize hr, ?_⟩
        rw [hc]
        cases c with
        | value kvs =>
          rw [substitute_value] at hs
          simp only [Except.ok.injEq, PContext.value.injEq] at hs
          exact hs
        | residual kvs => exact ctxCompletes_of_substitute σ es (hf kvs hc) hs
  | some val =>
    rw [hl] at h
    cases val with
    | record attrs =>
      simp only at h
      cases hc : pr.request.context with
      | some c => rw [hc] at h; simp [throw, throwThe, MonadExceptOf.throw] at h
      | none =>
        rw [hc] at h
        simp only [pure, Except.pure, substitute_value, Except.map, Except.ok.injEq, PRequest.ofConcrete, PRequest.mk.injEq,
          Option.some.injEq, PContext.value.injEq] at h
        obtain ⟨h1, h2, h3, h4⟩ := h
        subst h1 h2 h3 h4
        refine ⟨conc_of_concretize hp, conc_of_concretize ha, conc_of_concretize hr, ?_⟩
        rw [hc]
        exact hl
    | prim p => simp [throw, throwThe, MonadExceptOf.throw] at h
    | set vs => simp [throw, throwThe, MonadExceptOf.throw] at h
    | ext x => simp [throw, throwThe, MonadExceptOf.throw] at h

/-! ### calls of the `unknown` extension function in the policy text -/

/-- read a literal `unknown("s")` call as the untyped unknown node it creates (`create_new_unknown`); everything else
    unchanged.  This is the only reading under which such a policy has a concrete counterpart: `Expr::substitute` replaces
    unknown *nodes*, never the call. -/
def isUnkCall (fn : String) (args : List Expr) : Option String :=
  if fn = "unknown" then
    match args with
    | [.lit (.string s)] => some s
    | _ => none
  else none

mutual
def desugarUnk : Expr → Expr
  | .lit p => .lit p
  | .var v => .var v
  | .slot s => .slot s
  | .unknown n ty => .unknown n ty
  | .ite c t e => .ite (desugarUnk c) (desugarUnk t) (desugarUnk e)
  | .and a b => .and (desugarUnk a) (desugarUnk b)
  | .or a b => .or (desugarUnk a) (desugarUnk b)
  | .unaryApp op a => .unaryApp op (desugarUnk a)
  | .binaryApp op a b => .binaryApp op (desugarUnk a) (desugarUnk b)
  | .call fn args => match isUnkCall fn args with
    | some s => .unknown s none
    | none => .call fn (desugarUnkList args)
  | .getAttr e a => .getAttr (desugarUnk e) a
  | .hasAttr e a => .hasAttr (desugarUnk e) a
  | .like e p => .like (desugarUnk e) p
  | .is e ty => .is (desugarUnk e) ty
  | .set xs => .set (desugarUnkList xs)
  | .record kvs => .record (desugarUnkKVs kvs)
def desugarUnkList : List Expr → List Expr
  | [] => []
  | x :: xs => desugarUnk x :: desugarUnkList xs
def desugarUnkKVs : List (String × Expr) → List (String × Expr)
  | [] => []
  | (k, x) :: xs => (k, desugarUnk x) :: desugarUnkKVs xs
end

/-- the first pass turns a literal `unknown("s")` call into the untyped unknown node, for every mapper, request, store and
    budget ≥ 2 — WITHOUT consulting the mapper (`efunc.call` returns the residual directly) -/
theorem pinterp_unknownCall (m : Mapper) (preq : PRequest) (pes : PEntities) (env : SlotEnv) (n : Nat) (s : String) :
    pinterp m preq pes env (n + 2) (.call "unknown" [.lit (.string s)]) = .res (.unknown s none) := by
  simp [pinterp, collectPV, splitPV, pcallExt, Value.asString, Except.map]

end PS
end Cedar
