import CedarVerif.Cedar.SymCompile
/-
Set terms of the symbolic compiler model (`Cedar.SymC`, third fragment): the canonical form `setOf` (= collecting into a
BTreeSet) keeps exactly the members of the input list, and the literal folding of `factory::set_member` on it is list
membership.  (Everything about the ORDER of the canonical form — sortedness, extensionality — is not needed for these.)
-/
namespace Cedar.SymC

theorem setInsert_mem (x y : Term) : ∀ (l : List Term), y ∈ setInsert x l ↔ (y = x ∨ y ∈ l)
  | [] => by simp [setInsert]
  | z :: zs => by
    unfold setInsert
    by_cases h1 : (x == z) = true
    · have : x = z := by simpa using h1
      subst this
      simp
    · simp only [h1]
      by_cases h2 : termLt x z = true
      · simp [h2]
      · simp only [h2, Bool.false_eq_true, if_false, List.mem_cons, setInsert_mem x y zs]
        constructor
        · rintro (h | h | h)
          · exact Or.inr (Or.inl h)
          · exact Or.inl h
          · exact Or.inr (Or.inr h)
        · rintro (h | h | h)
          · exact Or.inr (Or.inl h)
          · exact Or.inl h
          · exact Or.inr (Or.inr h)

theorem foldl_setInsert_mem (y : Term) : ∀ (ts acc : List Term),
    y ∈ ts.foldl (fun acc t => setInsert t acc) acc ↔ (y ∈ ts ∨ y ∈ acc)
  | [], acc => by simp
  | t :: ts, acc => by
    simp only [List.foldl_cons, foldl_setInsert_mem y ts, setInsert_mem, List.mem_cons]
    constructor
    · rintro (h | h | h)
      · exact Or.inl (Or.inr h)
      · exact Or.inl (Or.inl h)
      · exact Or.inr h
    · rintro ((h | h) | h)
      · exact Or.inr (Or.inl h)
      · exact Or.inl h
      · exact Or.inr (Or.inr h)

theorem setElts_setMk (ty : TermType) : ∀ (l : List Term), setElts (setMk ty l) = l
  | [] => rfl
  | t :: ts => by simp [setMk, setElts, setElts_setMk ty ts]

theorem isSet_setMk (ty : TermType) : ∀ (l : List Term), (setMk ty l).isSet = true
  | [] => rfl
  | t :: ts => by simp [setMk, Term.isSet, isSet_setMk ty ts]

theorem typeOf_setMk (ty : TermType) : ∀ (l : List Term), (setMk ty l).typeOf = .set ty
  | [] => rfl
  | t :: ts => by simp [setMk, Term.typeOf, typeOf_setMk ty ts]

theorem isLiteral_setMk (ty : TermType) : ∀ (l : List Term), (∀ x, x ∈ l → x.isLiteral = true) → (setMk ty l).isLiteral = true
  | [], _ => rfl
  | t :: ts, h => by
    simp only [setMk, Term.isLiteral, Bool.and_eq_true]
    exact ⟨h t (by simp), isLiteral_setMk ty ts (fun x hx => h x (by simp [hx]))⟩

/-- collecting into the canonical form keeps exactly the members -/
theorem setOf_mem (ts : List Term) (ty : TermType) (y : Term) : y ∈ setElts (setOf ts ty) ↔ y ∈ ts := by
  simp [setOf, setElts_setMk, foldl_setInsert_mem]

theorem setOf_typeOf (ts : List Term) (ty : TermType) : (setOf ts ty).typeOf = .set ty := typeOf_setMk ty _

theorem setOf_isLiteral (ts : List Term) (ty : TermType) (h : ∀ x, x ∈ ts → x.isLiteral = true) :
    (setOf ts ty).isLiteral = true :=
  isLiteral_setMk ty _ (fun x hx => h x ((foldl_setInsert_mem x ts []).mp hx |>.resolve_right (by simp)))

theorem contains_congr {l1 l2 : List Term} (h : ∀ y, y ∈ l1 ↔ y ∈ l2) (x : Term) : l1.contains x = l2.contains x := by
  rw [Bool.eq_iff_iff]; simp [h x]

/-- `factory::set_member` on a literal element and the canonical literal set of `ts` folds to list membership -/
theorem setMember_setOf (x : Term) (ts : List Term) (ty : TermType) (hx : x.isLiteral = true)
    (hts : ∀ y, y ∈ ts → y.isLiteral = true) :
    setMember x (setOf ts ty) = .prim (.bool (ts.contains x)) := by
  have hm := setOf_mem ts ty
  have hc := contains_congr hm x
  unfold setMember
  rw [show (setOf ts ty).isSet = true from isSet_setMk ty _]
  simp only [if_true]
  by_cases he : (setElts (setOf ts ty)).isEmpty = true
  · simp only [he, if_true]
    have : setElts (setOf ts ty) = [] := by simpa using he
    rw [this] at hc
    simp only [List.contains_nil] at hc
    rw [← hc]
  · simp only [he, hx, setOf_isLiteral ts ty hts, Bool.and_self, if_true, Bool.false_eq_true, if_false, hc]

/-- `factory::set_is_empty` on the canonical set of `ts` -/
theorem setIsEmpty_setOf (ts : List Term) (ty : TermType) : setIsEmpty (setOf ts ty) = .prim (.bool ts.isEmpty) := by
  unfold setIsEmpty
  rw [show (setOf ts ty).isSet = true from isSet_setMk ty _]
  simp only [if_true]
  congr 2
  have hm := setOf_mem ts ty
  cases ts with
  | nil => simp [setOf, setMk, setElts]
  | cons t ts =>
    cases h : setElts (setOf (t :: ts) ty) with
    | nil => have := (hm t).mpr (by simp); rw [h] at this; simp at this
    | cons _ _ => rfl

end Cedar.SymC
