import CedarVerif.Cedar.SymCompile
/-
Set terms of the symbolic compiler model (`Cedar.SymC`, third fragment): the canonical form `setOf` (= collecting into a
BTreeSet) keeps exactly the members of the input list, and the literal folding of `factory::set_member` on it is list
membership.  (Everything about the ORDER of the canonical form — sortedness, extensionality — is not needed for these.)
-/
namespace Cedar.SymC

theorem setInsert_mem (x y : Term) : ∀ (l : List Term), y ∈ setInsert x l ↔ (y = x ∨ y ∈ l)
  | [] => by simp [setInsert]
  | z :: zs => by
    unfold setInsert
    by_cases h1 : (x == z) = true
    · have : x = z := by simpa using h1
      subst this
      simp
    · simp only [h1]
      by_cases h2 : termLt x z = true
      · simp [h2]
      · simp only [h2, Bool.false_eq_true, if_false, List.mem_cons, setInsert_mem x y zs]
        constructor
        · rintro (h | h | h)
          · exact Or.inr (Or.inl h)
          · exact Or.inl h
          · exact Or.inr (Or.inr h)
        · rintro (h | h | h)
          · exact Or.inr (Or.inl h)
          · exact Or.inl h
          · exact Or.inr (Or.inr h)

theorem foldl_setInsert_mem (y : Term) : ∀ (ts acc : List Term),
    y ∈ ts.foldl (fun acc t => setInsert t acc) acc ↔ (y ∈ ts ∨ y ∈ acc)
  | [], acc => by simp
  | t :: ts, acc => by
    simp only [List.foldl_cons, foldl_setInsert_mem y ts, setInsert_mem, List.mem_cons]
    constructor
    · rintro (h | h | h)
      · exact Or.inl (Or.inr h)
      · exact Or.inl (Or.inl h)
      · exact Or.inr h
    · rintro ((h | h) | h)
      · exact Or.inr (Or.inl h)
      · exact Or.inl h
      · exact Or.inr (Or.inr h)

theorem setElts_setMk (ty : TermType) : ∀ (l : List Term), setElts (setMk ty l) = l
  | [] => rfl
  | t :: ts => by simp [setMk, setElts, setElts_setMk ty ts]

theorem isSet_setMk (ty : TermType) : ∀ (l : List Term), (setMk ty l).isSet = true
  | [] => rfl
  | t :: ts => by simp [setMk, Term.isSet, isSet_setMk ty ts]

theorem typeOf_setMk (ty : TermType) : ∀ (l : List Term), (setMk ty l).typeOf = .set ty
  | [] => rfl
  | t :: ts => by simp [setMk, Term.typeOf, typeOf_setMk ty ts]

theorem isLiteral_setMk (ty : TermType) : ∀ (l : List Term), (∀ x, x ∈ l → x.isLiteral = true) → (setMk ty l).isLiteral = true
  | [], _ => rfl
  | t :: ts, h => by
    simp only [setMk, Term.isLiteral, Bool.and_eq_true]
    exact ⟨h t (by simp), isLiteral_setMk ty ts (fun x hx => h x (by simp [hx]))⟩

/-- collecting into the canonical form keeps exactly the members -/
theorem setOf_mem (ts : List Term) (ty : TermType) (y : Term) : y ∈ setElts (setOf ts ty) ↔ y ∈ ts := by
  simp [setOf, setElts_setMk, foldl_setInsert_mem]

theorem setOf_typeOf (ts : List Term) (ty : TermType) : (setOf ts ty).typeOf = .set ty := typeOf_setMk ty _

theorem setOf_isLiteral (ts : List Term) (ty : TermType) (h : ∀ x, x ∈ ts → x.isLiteral = true) :
    (setOf ts ty).isLiteral = true :=
  isLiteral_setMk ty _ (fun x hx => h x ((foldl_setInsert_mem x ts []).mp hx |>.resolve_right (by simp)))

theorem contains_congr {l1 l2 : List Term} (h : ∀ y, y ∈ l1 ↔ y ∈ l2) (x : Term) : l1.contains x = l2.contains x := by
  rw [Bool.eq_iff_iff]; simp [h x]

/-- `factory::set_member` on a literal element and the canonical literal set of `ts` folds to list membership -/
theorem setMember_setOf (x : Term) (ts : List Term) (ty : TermType) (hx : x.isLiteral = true)
    (hts : ∀ y, y ∈ ts → y.isLiteral = true) :
    setMember x (setOf ts ty) = .prim (.bool (ts.contains x)) := by
  have hm := setOf_mem ts ty
  have hc := contains_congr hm x
  unfold setMember
  rw [show (setOf ts ty).isSet = true from isSet_setMk ty _]
  simp only [if_true]
  by_cases he : (setElts (setOf ts ty)).isEmpty = true
  · simp only [he, if_true]
    have : setElts (setOf ts ty) = [] := by simpa using he
    rw [this] at hc
    simp only [List.contains_nil] at hc
    rw [← hc]
  · simp only [he, hx, setOf_isLiteral ts ty hts, Bool.and_self, if_true, Bool.false_eq_true, if_false, hc]

/-- `factory::set_is_empty` on the canonical set of `ts` -/
theorem setIsEmpty_setOf (ts : List Term) (ty : TermType) : setIsEmpty (setOf ts ty) = .prim (.bool ts.isEmpty) := by
  unfold setIsEmpty
  rw [show (setOf ts ty).isSet = true from isSet_setMk ty _]
  simp only [if_true]
  congr 2
  have hm := setOf_mem ts ty
  cases ts with
  | nil => simp [setOf, setMk, setElts]
  | cons t ts =>
    cases h : setElts (setOf (t :: ts) ty) with
    | nil => have := (hm t).mpr (by simp); rw [h] at this; simp at this
    | cons _ _ => rfl

theorem all_contains_congr {a1 a2 b1 b2 : List Term} (ha : ∀ y, y ∈ a1 ↔ y ∈ a2) (hb : ∀ y, y ∈ b1 ↔ y ∈ b2) :
    a1.all (fun x => b1.contains x) = a2.all (fun x => b2.contains x) := by
  rw [Bool.eq_iff_iff]
  simp only [List.all_eq_true, List.contains_iff_mem]
  constructor
  · intro h x hx; exact (hb x).mp (h x ((ha x).mpr hx))
  · intro h x hx; exact (hb x).mpr (h x ((ha x).mp hx))

/-- `factory::set_subset` on two canonical literal sets folds to "every element of the first list occurs in the second" -/
theorem setSubset_setOf (as bs : List Term) (ty : TermType)
    (has : ∀ y, y ∈ as → y.isLiteral = true) (hbs : ∀ y, y ∈ bs → y.isLiteral = true) :
    setSubset (setOf as ty) (setOf bs ty) = .prim (.bool (as.all (fun x => bs.contains x))) := by
  have hc := all_contains_congr (setOf_mem as ty) (setOf_mem bs ty)
  unfold setSubset
  by_cases he : (setOf as ty == setOf bs ty) = true
  · simp only [he, if_true]
    have : setOf as ty = setOf bs ty := by simpa using he
    have hall : (setElts (setOf as ty)).all (fun x => (setElts (setOf as ty)).contains x) = true := by
      simp [List.all_eq_true]
    rw [← hc, ← this, hall]
  · simp only [he, Bool.false_eq_true, if_false]
    rw [show (setOf as ty).isSet = true from isSet_setMk ty _, show (setOf bs ty).isSet = true from isSet_setMk ty _,
      setOf_isLiteral as ty has, setOf_isLiteral bs ty hbs]
    by_cases hem : (setElts (setOf as ty)).isEmpty = true
    · simp only [hem, Bool.and_self, if_true]
      have : setElts (setOf as ty) = [] := by simpa using hem
      rw [← hc, this]; rfl
    · simp only [hem, Bool.and_false, Bool.false_eq_true, if_false, Bool.and_self, if_true, hc]

theorem setIsEmpty_isSet {s : Term} (h : s.isSet = true) : setIsEmpty s = .prim (.bool (setElts s).isEmpty) := by
  simp [setIsEmpty, h]

theorem nonempty_eq_any {E as bs : List Term} (h : ∀ y, y ∈ E ↔ (y ∈ as ∧ y ∈ bs)) :
    (!E.isEmpty) = as.any (fun x => bs.contains x) := by
  rw [Bool.eq_iff_iff]
  simp only [Bool.not_eq_true', List.any_eq_true, List.contains_iff_mem]
  constructor
  · intro hne
    cases E with
    | nil => simp at hne
    | cons e es => exact ⟨e, (h e).mp (by simp)⟩
  · rintro ⟨x, hx⟩
    cases E with
    | nil => exact absurd ((h x).mpr hx) (by simp)
    | cons e es => rfl

/-- `factory::set_inter` on two canonical literal sets: a set term whose members are the common members -/
theorem setInter_setOf (as bs : List Term) (ty : TermType)
    (has : ∀ y, y ∈ as → y.isLiteral = true) (hbs : ∀ y, y ∈ bs → y.isLiteral = true) :
    (setInter (setOf as ty) (setOf bs ty)).isSet = true ∧
    ∀ y, y ∈ setElts (setInter (setOf as ty) (setOf bs ty)) ↔ (y ∈ as ∧ y ∈ bs) := by
  have ha := setOf_mem as ty
  have hb := setOf_mem bs ty
  have hsa : (setOf as ty).isSet = true := isSet_setMk ty _
  have hsb : (setOf bs ty).isSet = true := isSet_setMk ty _
  unfold setInter
  by_cases he : (setOf as ty == setOf bs ty) = true
  · simp only [he, if_true]
    have : setOf as ty = setOf bs ty := by simpa using he
    refine ⟨hsa, fun y => ?_⟩
    constructor
    · intro hy; exact ⟨(ha y).mp hy, (hb y).mp (this ▸ hy)⟩
    · intro hy; exact (ha y).mpr hy.1
  · simp only [he, Bool.false_eq_true, if_false, hsa, hsb, Bool.true_and]
    by_cases h1 : (setElts (setOf as ty)).isEmpty = true
    · simp only [h1, if_true]
      refine ⟨hsa, fun y => ?_⟩
      have hnil : setElts (setOf as ty) = [] := by simpa using h1
      constructor
      · intro hy; rw [hnil] at hy; simp at hy
      · intro hy; exact (ha y).mpr hy.1
    · simp only [h1, Bool.false_eq_true, if_false]
      by_cases h2 : (setElts (setOf bs ty)).isEmpty = true
      · simp only [h2, if_true]
        refine ⟨hsb, fun y => ?_⟩
        have hnil : setElts (setOf bs ty) = [] := by simpa using h2
        constructor
        · intro hy; rw [hnil] at hy; simp at hy
        · intro hy; exact (hb y).mpr hy.2
      · simp only [h2, Bool.false_eq_true, if_false, setOf_isLiteral as ty has, setOf_isLiteral bs ty hbs, Bool.and_self,
          if_true]
        refine ⟨isSet_setMk _ _, fun y => ?_⟩
        rw [setElts_setMk]
        simp only [List.mem_filter, List.contains_iff_mem, ha, hb]

/-- `factory::set_intersects` on two canonical literal sets folds to "some element of the first list occurs in the second" -/
theorem setIntersects_setOf (as bs : List Term) (ty : TermType)
    (has : ∀ y, y ∈ as → y.isLiteral = true) (hbs : ∀ y, y ∈ bs → y.isLiteral = true) :
    setIntersects (setOf as ty) (setOf bs ty) = .prim (.bool (as.any (fun x => bs.contains x))) := by
  obtain ⟨hs, hm⟩ := setInter_setOf as bs ty has hbs
  unfold setIntersects
  rw [setIsEmpty_isSet hs, ← nonempty_eq_any hm]
  rfl

/-! the driver's decidable fragment test `inFrag3` is sound for `SFrag3` -/
mutual
theorem inFrag3_sound : ∀ (e : Expr), inFrag3 e = true → SFrag3 e
  | .lit (.bool b), _ => .litBool b
  | .lit (.int i), h => .litInt i (by simpa [inFrag3] using h)
  | .lit (.string s), _ => .litString s
  | .lit (.entityUID u), _ => .litEntity u
  | .var .principal, _ => .principal
  | .var .action, _ => .action
  | .var .resource, _ => .resource
  | .var .context, _ => .context
  | .ite c t e, h => by
    simp only [inFrag3, Bool.and_eq_true] at h
    exact .ite (inFrag3_sound c h.1.1) (inFrag3_sound t h.1.2) (inFrag3_sound e h.2)
  | .and a b, h => by
    simp only [inFrag3, Bool.and_eq_true] at h
    exact .and (inFrag3_sound a h.1) (inFrag3_sound b h.2)
  | .or a b, h => by
    simp only [inFrag3, Bool.and_eq_true] at h
    exact .or (inFrag3_sound a h.1) (inFrag3_sound b h.2)
  | .unaryApp .not a, h => .not (inFrag3_sound a (by simpa [inFrag3] using h))
  | .unaryApp .neg a, h => .neg (inFrag3_sound a (by simpa [inFrag3] using h))
  | .unaryApp .isEmpty a, h => .isEmpty (inFrag3_sound a (by simpa [inFrag3] using h))
  | .binaryApp op a b, h => by
    simp only [inFrag3, Bool.and_eq_true] at h
    have ha := inFrag3_sound a h.1.2
    have hb := inFrag3_sound b h.2
    cases op <;> simp at h
    · exact .eq ha hb
    · exact .less ha hb
    · exact .lessEq ha hb
    · exact .add ha hb
    · exact .sub ha hb
    · exact .mul ha hb
    · exact .contains ha hb
    · exact .containsAll ha hb
    · exact .containsAny ha hb
  | .getAttr a attr, h => .getAttr attr (inFrag3_sound a (by simpa [inFrag3] using h))
  | .hasAttr a attr, h => .hasAttr attr (inFrag3_sound a (by simpa [inFrag3] using h))
  | .slot _, h => by simp [inFrag3] at h
  | .unknown _ _, h => by simp [inFrag3] at h
  | .call _ _, h => by simp [inFrag3] at h
  | .like a p, h => .like p (inFrag3_sound a (by simpa [inFrag3] using h))
  | .is a ety, h => .is ety (inFrag3_sound a (by simpa [inFrag3] using h))
  | .set xs, h => .set (inFrag3List_sound xs (by simpa [inFrag3] using h))
  | .record _, h => by simp [inFrag3] at h
theorem inFrag3List_sound : ∀ (xs : List Expr), inFrag3List xs = true → ∀ x, x ∈ xs → SFrag3 x
  | [], _ => by intro x hx; cases hx
  | y :: ys, h => by
    simp only [inFrag3List, Bool.and_eq_true] at h
    intro x hx
    rcases List.mem_cons.mp hx with hxy | hx
    · rw [hxy]; exact inFrag3_sound y h.1
    · exact inFrag3List_sound ys h.2 x hx
end

end Cedar.SymC
