import CedarVerif.Lemmas.ManifestSound
/-
C17 helper lemmas, part 3b: the `in` operator — the ancestors trie attached to the left operand's paths requests the
entities the right operand denotes, so the sliced store answers `in` like the full store.
-/
namespace Cedar.Manifest
open Cedar

/-- along a covered path the slice covers the leaf annotation at the value reached -/
theorem cover_walk_leaf {es es' : Entities} {req : Request} (hsub : SubStore es es') (leaf : AccessTrie) :
    ∀ (fs : List String) (v0 v0' v v' : Value),
      CoverV es es' req (pathTrie fs leaf) v0 v0' → Trim v0' v0 →
      walk es v0 fs = some v → walk es' v0' fs = some v' → CoverV es es' req leaf v v' ∧ Trim v' v
  | [], v0, v0', v, v', hc, ht, h1, h2 => by
    simp only [walk, Option.some.injEq] at h1 h2
    subst h1; subst h2
    exact ⟨hc, ht⟩
  | f :: fs, v0, v0', v, v', hc, ht, h1, h2 => by
    simp only [walk] at h1 h2
    cases hs : stepV es v0 f with
    | none => simp [hs] at h1
    | some w =>
      simp only [hs] at h1
      have hc' : CoverV es es' req (.mk [(f, pathTrie fs leaf)] [] false false) v0 v0' := hc
      obtain ⟨w', h3, h4, h5⟩ := cover_step hsub hc' ht hs
      simp only [h3] at h2
      exact cover_walk_leaf hsub leaf fs w w' v v' h4 h5 h1 h2

/-- the entity ids a value offers to `in` on its right-hand side -/
def memTargets : Value → List EntityUID
  | .prim (.entityUID u) => [u]
  | .set vs => entityElems vs
  | _ => []

theorem ancRoot_eq (m : Entities) (req : Request) (root : EntityRoot) (t : AccessTrie) :
    ancRoot m req root t = ancValue m t (rootVal req root) := by
  obtain ⟨c, a, i, e⟩ := t
  cases root with
  | literal u => rfl
  | var x => cases x <;> rfl

/-- walking a path whose leaf is marked `is_ancestor` collects what the path denotes -/
theorem anc_walk (m : Entities) (x : EntityUID) (anc : RootAccessTrie) (e : Bool) : ∀ (fs : List String) (v0 v : Value),
    walk m v0 fs = some v → x ∈ memTargets v → x ∈ ancValue m (pathTrie fs (.mk [] anc true e)) v0
  | [], v0, v, h, hx => by
    simp only [walk, Option.some.injEq] at h
    subst h
    cases v0 with
    | prim p =>
      cases p with
      | entityUID u =>
        simp only [memTargets, List.mem_singleton] at hx
        subst hx
        simp [pathTrie, ancValue]
      | bool b => simp [memTargets] at hx
      | int n => simp [memTargets] at hx
      | string s => simp [memTargets] at hx
    | set vs => simpa [pathTrie, ancValue, memTargets] using hx
    | record kvs => simp [memTargets] at hx
    | ext y => simp [memTargets] at hx
  | f :: fs, v0, v, h, hx => by
    simp only [walk] at h
    cases hs : stepV m v0 f with
    | none => simp [hs] at h
    | some w =>
      simp only [hs] at h
      have ih := anc_walk m x anc e fs w v h hx
      cases v0 with
      | prim p =>
        cases p with
        | entityUID u =>
          simp only [stepV] at hs
          cases hf : m.find? u with
          | none => simp [hf] at hs
          | some d =>
            simp only [hf] at hs
            simp only [pathTrie, ancValue, hf, ancFields, hs, List.mem_append]
            right; left; exact ih
        | bool b => simp [stepV] at hs
        | int n => simp [stepV] at hs
        | string s => simp [stepV] at hs
      | record kvs =>
        simp only [stepV] at hs
        simp only [pathTrie, ancValue, ancFields, hs, List.mem_append]
        left; exact ih
      | set vs => simp [stepV] at hs
      | ext y => simp [stepV] at hs

mutual
theorem anc_mono_addWrapped (m : Entities) (req : Request) (x : EntityUID) (i : Bool) (anc : RootAccessTrie) :
    ∀ (p : WPaths) (g : RootAccessTrie), x ∈ ancRequest m req g → x ∈ ancRequest m req (addWrapped g i anc p)
  | .path root fs, g, h => by
    simp only [addWrapped]
    exact (ancRequest_union m req x _ g).1 h
  | .record kvs, g, h => by
    simp only [addWrapped]
    exact anc_mono_addWrappedKVs m req x i anc kvs g h
  | .set el, g, h => by
    simp only [addWrapped]
    exact anc_mono_addWrapped m req x i anc el g h
  | .empty, g, h => by simpa [addWrapped] using h
  | .union a b, g, h => by
    simp only [addWrapped]
    exact anc_mono_addWrapped m req x i anc b _ (anc_mono_addWrapped m req x i anc a g h)
theorem anc_mono_addWrappedKVs (m : Entities) (req : Request) (x : EntityUID) (i : Bool) (anc : RootAccessTrie) :
    ∀ (kvs : List (String × WPaths)) (g : RootAccessTrie), x ∈ ancRequest m req g → x ∈ ancRequest m req (addWrappedKVs g i anc kvs)
  | [], g, h => by simpa [addWrappedKVs] using h
  | (_, v) :: rest, g, h => by
    simp only [addWrappedKVs]
    exact anc_mono_addWrappedKVs m req x i anc rest _ (anc_mono_addWrapped m req x i anc v g h)
end

/-- the ancestors trie built from the right operand's paths requests what the right operand denotes (in the slice) -/
theorem anc_of_pcover {es es' : Entities} {req : Request} (x : EntityUID) :
    ∀ (P : WPaths) (g : RootAccessTrie) (v : Value), PCover es es' req P v v → x ∈ memTargets v →
      x ∈ ancRequest es' req (addWrapped g true [] P)
  | .path root fs, g, v, hp, hx => by
    simp only [addWrapped]
    apply (ancRequest_union es' req x _ g).2
    have hw := anc_walk es' x [] false fs _ v hp.2 hx
    have hnn : (pathTrie fs (AccessTrie.mk [] [] true false)).isNew = false := by
      cases fs <;> rfl
    simp only [toRootTrieWithLeaf, hnn, Bool.false_eq_true, if_false, ancRequest_cons, List.mem_append, ancRoot_eq]
    left; exact hw
  | .union a b, g, v, hp, hx => by
    simp only [addWrapped]
    rcases hp with hp | hp
    · exact anc_mono_addWrapped es' req x true [] b _ (anc_of_pcover x a g v hp hx)
    · exact anc_of_pcover x b _ v hp hx
  | .empty, g, v, hp, hx => by
    -- a scalar offers no targets
    exfalso
    cases v with
    | prim p => cases p <;> simp_all [memTargets, PCover, Scalar]
    | set vs => simp [PCover, Scalar] at hp
    | record kvs => simp [memTargets] at hx
    | ext y => simp [memTargets] at hx
  | .record kvs, _, _, hp, _ => by simp [PCover] at hp
  | .set el, _, _, hp, _ => by simp [PCover] at hp

/-- `in` between an entity reached through covered paths (annotated with the ancestors trie `ancT`) and a requested
target is answered by the slice as by the store -/
theorem inE_sliced {es es' : Entities} {req : Request} (hsub : SubStore es es') (hctx : CtxWF req) (ancT : RootAccessTrie)
    (u1 x : EntityUID) (hx : x ∈ ancRequest es' req ancT) :
    ∀ (P : WPaths), PCover es es' req P (.prim (.entityUID u1)) (.prim (.entityUID u1)) →
      PathsCov es es' req false ancT P → inE es' u1 x = inE es u1 x
  | .path root fs, hp, hcov => by
    simp only [PathsCov, toRootTrieWithLeaf] at hcov
    simp only [inE]
    cases hf : es.find? u1 with
    | none =>
      have : es'.find? u1 = none := by
        cases hf' : es'.find? u1 with
        | none => rfl
        | some d' =>
          obtain ⟨d, hd, _⟩ := hsub u1 d' hf'
          rw [hf] at hd; cases hd
      simp [this]
    | some d =>
      by_cases hnew : (pathTrie fs (AccessTrie.mk [] ancT false false)).isNew = true
      · -- nothing requested: then the ancestors trie is empty and offers no `x`
        exfalso
        cases fs with
        | nil =>
          simp only [pathTrie, AccessTrie.isNew, Bool.and_eq_true, List.isEmpty_iff] at hnew
          have : ancT = [] := hnew.1.1.2
          subst this
          simp [ancRequest] at hx
        | cons f fs => simp [pathTrie, AccessTrie.isNew] at hnew
      · simp only [hnew, Bool.false_eq_true, if_false, CoverRoots] at hcov
        obtain ⟨hleaf, _⟩ := cover_walk_leaf hsub (.mk [] ancT false false) fs _ _ _ _ hcov.1
          (trim_rootVal hctx root) hp.1 hp.2
        simp only [CoverV] at hleaf
        obtain ⟨d', h1, _, h3⟩ := hleaf.2 d hf
        obtain ⟨d0, hd0, _, hanc⟩ := hsub u1 d' h1
        rw [hf] at hd0; cases hd0
        simp only [h1]
        congr 1
        cases hc : d.ancestors.contains x with
        | true =>
          have : x ∈ d'.ancestors := h3 x hx (by simpa using hc)
          simpa using this
        | false =>
          cases hc' : d'.ancestors.contains x with
          | false => rfl
          | true =>
            have : x ∈ d.ancestors := hanc x (by simpa using hc')
            have : d.ancestors.contains x = true := by simpa using this
            rw [hc] at this; cases this
  | .union a b, hp, hcov => by
    simp only [PathsCov] at hcov
    rcases hp with hp | hp
    · exact inE_sliced hsub hctx ancT u1 x hx a hp hcov.1
    · exact inE_sliced hsub hctx ancT u1 x hx b hp hcov.2
  | .empty, hp, _ => by simp [PCover, Scalar] at hp
  | .record kvs, hp, _ => by simp [PCover] at hp
  | .set el, hp, _ => by simp [PCover] at hp

theorem asEntityList_mem : ∀ (vs : List Value) (us : List EntityUID), asEntityList vs = .ok us → ∀ x, x ∈ us → x ∈ entityElems vs
  | [], us, h, x, hx => by
    simp only [asEntityList, Except.ok.injEq] at h
    subst h; simp at hx
  | v :: vs, us, h, x, hx => by
    simp only [asEntityList, bind, Except.bind] at h
    cases hv : v.asEntity with
    | error e => simp [hv] at h
    | ok u =>
      simp only [hv] at h
      cases hr : asEntityList vs with
      | error e => simp [hr] at h
      | ok us' =>
        simp only [hr, Except.ok.injEq] at h
        subst h
        cases v with
        | prim p =>
          cases p with
          | entityUID u0 =>
            simp only [Value.asEntity, Except.ok.injEq] at hv
            subst hv
            simp only [List.mem_cons] at hx
            simp only [entityElems, List.mem_cons]
            rcases hx with hx | hx
            · exact Or.inl hx
            · exact Or.inr (asEntityList_mem vs us' hr x hx)
          | bool b => simp [Value.asEntity] at hv
          | int n => simp [Value.asEntity] at hv
          | string s => simp [Value.asEntity] at hv
        | set s => simp [Value.asEntity] at hv
        | record kvs => simp [Value.asEntity] at hv
        | ext y => simp [Value.asEntity] at hv

theorem any_congr_mem {α} (f g : α → Bool) : ∀ (l : List α), (∀ x, x ∈ l → f x = g x) → l.any f = l.any g
  | [], _ => rfl
  | a :: l, h => by
    simp only [List.any_cons, h a (by simp), any_congr_mem f g l (fun x hx => h x (by simp [hx]))]

/-- `applyBinary .mem` over the slice, when every target is answered alike -/
theorem applyMem_sliced (es es' : Entities) (v1 v2 : Value)
    (h : ∀ u1 x, v1 = .prim (.entityUID u1) → x ∈ memTargets v2 → inE es' u1 x = inE es u1 x) :
    applyBinary es' .mem v1 v2 = applyBinary es .mem v1 v2 := by
  simp only [applyBinary]
  cases hv : v1.asEntity with
  | error e => rfl
  | ok u1 =>
    have e1 : v1 = .prim (.entityUID u1) := by
      cases v1 with
      | prim p => cases p <;> simp_all [Value.asEntity]
      | set s => simp [Value.asEntity] at hv
      | record kvs => simp [Value.asEntity] at hv
      | ext y => simp [Value.asEntity] at hv
    simp only [bind, Except.bind]
    cases v2 with
    | prim p =>
      cases p with
      | entityUID u2 =>
        simp only
        rw [h u1 u2 e1 (by simp [memTargets])]
      | bool b => rfl
      | int n => rfl
      | string s => rfl
    | set vs =>
      simp only
      cases hr : asEntityList vs with
      | error e => rfl
      | ok us =>
        simp only
        rw [any_congr_mem (fun x => inE es' u1 x) (fun x => inE es u1 x) us
          (fun x hx => h u1 x e1 (by simpa [memTargets] using asEntityList_mem vs us hr x hx))]
    | record kvs => rfl
    | ext y => rfl

end Cedar.Manifest
