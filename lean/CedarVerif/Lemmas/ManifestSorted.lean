import CedarVerif.Lemmas.ManifestFull
import CedarVerif.Lemmas.TypecheckIn
/-
C17 helper lemmas, part 15: THE SLICER KEEPS RECORDS KEY-SORTED.  The store `slice_entities` computes
(`sliceStorePure`: `slice_val` builds records with `insert`, `merge_values` merges with `insert`) has key-sorted attribute
records whenever the full store has (`sortedStore_slice`) — the hypothesis `SortedStore es'` of `eval_simL` / `full_eq`
is a property of the model's slicer, not an assumption about it.
-/
namespace Cedar.Manifest
open Cedar

theorem rsortedKVs_insertKV (k : String) (v : Value) (l : List (String × Value)) (hv : RSorted v) (hl : RSortedKVs l) :
    RSortedKVs (insertKV k v l) := by
  apply rsortedKVs_of_mem
  intro p hp
  rcases mem_insertKV k v l p hp with rfl | hp
  · exact hv
  · exact rsortedKVs_mem hl p hp

mutual
theorem rsorted_sliceVal : ∀ (t : AccessTrie) (v : Value), RSorted v → RSorted (sliceVal t v)
  | .mk c a i e, v, h => by
    cases v with
    | record kvs =>
      simp only [RSorted] at h
      simp only [sliceVal, RSorted]
      exact sorted_sliceFields c kvs h.2
    | prim p => simp [sliceVal, RSorted]
    | set s => simp [sliceVal, RSorted]
    | ext x => simp [sliceVal, RSorted]
theorem sorted_sliceFields : ∀ (c : Fields) (kvs : List (String × Value)), RSortedKVs kvs →
    KSorted (sliceFields c kvs) ∧ RSortedKVs (sliceFields c kvs)
  | [], _, _ => by simp [sliceFields, KSorted, RSortedKVs]
  | (f, t) :: rest, kvs, h => by
    unfold sliceFields
    obtain ⟨h1, h2⟩ := sorted_sliceFields rest kvs h
    cases hv : lookupKV kvs f with
    | none => exact ⟨h1, h2⟩
    | some v =>
      simp only
      exact ⟨ksorted_insertKV f _ _ h1, rsortedKVs_insertKV f _ _ (rsorted_sliceVal t v (rsorted_lookup h hv)) h2⟩
end

mutual
theorem rsorted_mergeValues : ∀ (v2 v1 : Value), RSorted v1 → RSorted v2 → RSorted (mergeValues v1 v2)
  | .record r2, v1, h1, h2 => by
    cases v1 with
    | record r1 =>
      simp only [RSorted] at h1 h2
      simp only [mergeValues, RSorted]
      exact sorted_mergeKVs r2 r1 h1.1 h1.2 h2.2
    | prim p => simpa [mergeValues] using h1
    | set s => simpa [mergeValues] using h1
    | ext x => simpa [mergeValues] using h1
  | .prim _, v1, h1, _ => by simpa [mergeValues] using h1
  | .set _, v1, h1, _ => by simpa [mergeValues] using h1
  | .ext _, v1, h1, _ => by simpa [mergeValues] using h1
theorem sorted_mergeKVs : ∀ (r2 r1 : List (String × Value)), KSorted r1 → RSortedKVs r1 → RSortedKVs r2 →
    KSorted (mergeKVs r1 r2) ∧ RSortedKVs (mergeKVs r1 r2)
  | [], r1, h1, h2, _ => by simp only [mergeKVs]; exact ⟨h1, h2⟩
  | (k, v2) :: rest, r1, h1, h2, h3 => by
    simp only [RSortedKVs] at h3
    unfold mergeKVs
    cases hl : lookupKV r1 k with
    | none =>
      simp only
      exact sorted_mergeKVs rest _ (ksorted_insertKV k v2 r1 h1) (rsortedKVs_insertKV k v2 r1 h3.1 h2) h3.2
    | some v1 =>
      simp only
      exact sorted_mergeKVs rest _ (ksorted_insertKV k _ r1 h1)
        (rsortedKVs_insertKV k _ r1 (rsorted_mergeValues v2 v1 (rsorted_lookup h2 hl) h3.1) h2) h3.2
end

/-- every entry has key-sorted attributes -/
def AllSorted (m : Entities) : Prop := ∀ p, p ∈ m → KSorted p.2.attrs ∧ RSortedKVs p.2.attrs

theorem allSorted_insertOrMerge : ∀ (m : Entities) (u : EntityUID) (d : EntityData), AllSorted m →
    KSorted d.attrs → RSortedKVs d.attrs → AllSorted (insertOrMerge m u d)
  | [], u, d, _, h1, h2 => by
    intro p hp
    simp only [insertOrMerge, List.mem_singleton] at hp
    subst hp
    exact ⟨h1, h2⟩
  | (u', d') :: rest, u, d, hm, h1, h2 => by
    intro p hp
    simp only [insertOrMerge] at hp
    have hd' := hm (u', d') (by simp)
    split at hp
    · simp only [List.mem_cons] at hp
      rcases hp with rfl | hp
      · simp only [mergeEntities]
        exact sorted_mergeKVs d.attrs d'.attrs hd'.1 hd'.2 h2
      · exact hm p (by simp [hp])
    · simp only [List.mem_cons] at hp
      rcases hp with rfl | hp
      · exact hd'
      · exact allSorted_insertOrMerge rest u d (fun q hq => hm q (by simp [hq])) h1 h2 p hp

theorem allSorted_loadAll (es : Entities) (hst : SortedStore es) : ∀ (reqs : List (EntityUID × AccessTrie)) (m : Entities),
    AllSorted m → AllSorted (loadAll es reqs m)
  | [], m, h => h
  | (u, t) :: rest, m, h => by
    simp only [loadAll]
    cases hf : es.find? u with
    | none => exact allSorted_loadAll es hst rest m h
    | some d =>
      simp only
      apply allSorted_loadAll es hst rest
      obtain ⟨c, a, i, e⟩ := t
      have := sorted_sliceFields (pruneChildEntityDeref (.mk c a i e)).children d.attrs (hst u d hf).2
      exact allSorted_insertOrMerge m u _ h this.1 this.2

theorem allSorted_addAncestors (es m : Entities) (req : Request) : ∀ (reqs : List (EntityUID × AccessTrie)) (acc : Entities),
    AllSorted acc → AllSorted (addAncestors es m req reqs acc)
  | [], acc, h => h
  | (u, t) :: rest, acc, h => by
    simp only [addAncestors]
    apply allSorted_addAncestors es m req rest
    intro p hp
    simp only [List.mem_map] at hp
    obtain ⟨q, hq, e⟩ := hp
    obtain ⟨u', d'⟩ := q
    have := h (u', d') hq
    simp only at e
    split at e <;> (subst e; exact this)

/-- THE SLICE OF A KEY-SORTED STORE IS KEY-SORTED -/
theorem sortedStore_slice (t : RootAccessTrie) (req : Request) (es : Entities) (hst : SortedStore es) :
    SortedStore (sliceStorePure t req es) := by
  intro u d hf
  have hm := Cedar.C03.entities_find?_mem hf
  have : AllSorted (sliceStorePure t req es) := by
    simp only [sliceStorePure]
    apply allSorted_addAncestors
    apply allSorted_loadAll es hst
    intro p hp; cases hp
  exact this (u, d) hm

theorem sortedStore_sliceStore {t : RootAccessTrie} {req : Request} {es es' : Entities} (hst : SortedStore es)
    (hs : sliceStore (some t) req es = .ok es') : SortedStore es' := by
  simp only [sliceStore] at hs
  split at hs
  · cases hs
  · simp only [Except.ok.injEq] at hs
    subst hs
    exact sortedStore_slice t req es hst

/-! ## executable checks (for the non-vacuity examples) -/

def ksortedB : List (String × Value) → Bool
  | [] => true
  | (k, _) :: rest => rest.all (fun p => decide (k < p.1)) && ksortedB rest

mutual
def rsortedB : Value → Bool
  | .record kvs => ksortedB kvs && rsortedKVsB kvs
  | _ => true
def rsortedKVsB : List (String × Value) → Bool
  | [] => true
  | (_, v) :: rest => rsortedB v && rsortedKVsB rest
end

theorem ksortedB_sound : ∀ (l : List (String × Value)), ksortedB l = true → KSorted l
  | [], _ => trivial
  | (k, v) :: rest, h => by
    simp only [ksortedB, Bool.and_eq_true, List.all_eq_true, decide_eq_true_eq] at h
    exact ⟨h.1, ksortedB_sound rest h.2⟩

mutual
theorem rsortedB_sound : ∀ (v : Value), rsortedB v = true → RSorted v
  | .record kvs, h => by
    simp only [rsortedB, Bool.and_eq_true] at h
    exact ⟨ksortedB_sound kvs h.1, rsortedKVsB_sound kvs h.2⟩
  | .prim _, _ => trivial
  | .set _, _ => trivial
  | .ext _, _ => trivial
theorem rsortedKVsB_sound : ∀ (l : List (String × Value)), rsortedKVsB l = true → RSortedKVs l
  | [], _ => trivial
  | (k, v) :: rest, h => by
    simp only [rsortedKVsB, Bool.and_eq_true] at h
    exact ⟨rsortedB_sound v h.1, rsortedKVsB_sound rest h.2⟩
end

def sortedStoreB (es : Entities) : Bool := es.all (fun p => ksortedB p.2.attrs && rsortedKVsB p.2.attrs)
def sortedReqB (req : Request) : Bool := ksortedB req.context && rsortedKVsB req.context

theorem sortedStoreB_sound (es : Entities) (h : sortedStoreB es = true) : SortedStore es := by
  intro u d hf
  have hm := Cedar.C03.entities_find?_mem hf
  simp only [sortedStoreB, List.all_eq_true, Bool.and_eq_true] at h
  have := h (u, d) hm
  exact ⟨ksortedB_sound _ this.1, rsortedKVsB_sound _ this.2⟩

theorem sortedReqB_sound (req : Request) (h : sortedReqB req = true) : SortedReq req := by
  simp only [sortedReqB, Bool.and_eq_true] at h
  exact ⟨ksortedB_sound _ h.1, rsortedKVsB_sound _ h.2⟩

end Cedar.Manifest
