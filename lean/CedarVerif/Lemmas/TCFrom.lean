import CedarVerif.Lemmas.TCUpsert
/-
Lemmas for C04, part 6: `from_entities(…, ComputeNow)` on inputs without indirect ancestors.
Whatever the contract `closure` (saturation to a fixpoint, standing for `compute_tc`) returns satisfies the
store invariant: saturation keeps the direct parents, only adds edges justified by parent-reachability and
keeps parents/indirect disjoint; the final checks (`stable`, `enforceDag`) give closedness and no self-edge.
-/
namespace Cedar.TC
set_option linter.unusedSectionVars false

variable {α : Type} [DecidableEq α]

/-- every record has no indirect ancestors -/
def PureStore (s : Store α) : Prop := ∀ x n, get s x = some n → n.indirect = []

theorem createLoop_pure : ∀ (es : List (α × Node α)) (s m : Store α),
    createLoop s es = .ok m → PureBatch es → PureStore s → PureStore m := by
  intro es
  induction es with
  | nil => intro s m h _ hs; simp only [createLoop] at h; cases h; exact hs
  | cons e es ih =>
    intro s m h hp hs
    simp only [createLoop] at h
    have hp' : PureBatch es := fun e' he' => hp e' (List.mem_cons_of_mem _ he')
    cases hu : updateEntityMap s e false with
    | error err => rw [hu] at h; cases h
    | ok s' =>
      rw [hu] at h
      simp only at h
      refine ih s' m h hp' ?_
      unfold updateEntityMap at hu
      cases hge : get s e.1 with
      | some old =>
        rw [hge] at hu
        simp only [Bool.false_eq_true, if_false] at hu
        split at hu
        · cases hu; exact hs
        · cases hu
      | none =>
        rw [hge] at hu
        cases hu
        intro x n hx
        rw [get_append_single] at hx
        cases hgx : get s x with
        | some n0 => rw [hgx] at hx; cases hx; exact hs x n hgx
        | none =>
          rw [hgx] at hx
          by_cases hex : e.1 = x
          · simp only [hex, if_true, Option.some.injEq] at hx
            subst hx; exact hp e List.mem_cons_self
          · simp [hex] at hx

/-- the edges one saturation round adds to the record `n` -/
def stepEdges (s : Store α) (n : Node α) : List α :=
  n.out.flatMap fun a => match get s a with
    | some na => na.out
    | none => []

theorem get_closeStep (s : Store α) (x : α) :
    get (closeStep s) x = (get s x).map (fun n => n.addEdges (stepEdges s n)) := by
  unfold closeStep
  exact get_map_node' s _ (fun _ n => n.addEdges (stepEdges s n)) (fun _ => rfl) x

theorem mem_stepEdges {s : Store α} {n : Node α} {y : α} (h : y ∈ stepEdges s n) :
    ∃ a na, a ∈ n.out ∧ get s a = some na ∧ y ∈ na.out := by
  unfold stepEdges at h
  rw [List.mem_flatMap] at h
  obtain ⟨a, ha, hy⟩ := h
  cases hg : get s a with
  | none => rw [hg] at hy; cases hy
  | some na => rw [hg] at hy; exact ⟨a, na, ha, hg, hy⟩

/-- what saturation preserves, relative to a fixed parent function `P` -/
structure SatInv (P : α → Option (List α)) (s : Store α) : Prop where
  shp : ShapeIs P s
  snd : Sound P s
  dis : Disjoint s

theorem closeStep_satInv {P : α → Option (List α)} {s : Store α} (h : SatInv P s) : SatInv P (closeStep s) := by
  refine ⟨?_, ?_, ?_⟩
  · intro x
    rw [get_closeStep, ← h.shp x]
    cases get s x with
    | none => rfl
    | some n => simp [addEdges_parents]
  · intro x n' hx y hy
    rw [get_closeStep] at hx
    cases hg : get s x with
    | none => rw [hg] at hx; cases hx
    | some n =>
      rw [hg] at hx
      simp only [Option.map_some, Option.some.injEq] at hx
      subst hx
      rcases (mem_addEdges_out _ _ _).mp hy with hy | hy
      · exact h.snd x n hg y hy
      · obtain ⟨a, na, ha, hga, hya⟩ := mem_stepEdges hy
        exact (h.snd x n hg a ha).trans (h.snd a na hga y hya)
  · intro x n' hx y hyp hyi
    rw [get_closeStep] at hx
    cases hg : get s x with
    | none => rw [hg] at hx; cases hx
    | some n =>
      rw [hg] at hx
      simp only [Option.map_some, Option.some.injEq] at hx
      subst hx
      rcases addEdges_indirect n _ y hyi with h' | h'
      · rw [addEdges_parents] at hyp
        exact h.dis x n hg y hyp h'
      · exact h' hyp

theorem closeIter_satInv {P : α → Option (List α)} : ∀ (f : Nat) (s : Store α), SatInv P s → SatInv P (closeIter f s) := by
  intro f
  induction f with
  | zero => intro s h; exact h
  | succ f ih =>
    intro s h
    simp only [closeIter]
    split
    · exact h
    · exact ih _ (closeStep_satInv h)

theorem enforceTc_get {s : Store α} (h : enforceTc s = true) :
    ∀ x n, get s x = some n → ∀ p, p ∈ n.out → ∀ pn, get s p = some pn → ∀ g, g ∈ pn.out → g ∈ n.out := by
  intro x n hx p hp pn hpn g hg
  unfold enforceTc at h
  rw [List.all_eq_true] at h
  have h1 := h (x, n) (get_some_mem hx)
  rw [List.all_eq_true] at h1
  have h2 := h1 p hp
  simp only [hpn, List.all_eq_true, decide_eq_true_eq] at h2
  exact h2 g hg

theorem enforceDag_get {s : Store α} (h : enforceDag s = true) : ∀ x n, get s x = some n → x ∉ n.out := by
  intro x n hx
  unfold enforceDag at h
  rw [List.all_eq_true] at h
  simpa using h (x, n) (get_some_mem hx)

/-- a saturated store without self-edge whose edges are justified satisfies the store invariant -/
theorem storeInv_of_closed {s : Store α} (hi : SatInv (shape s) s) (ht : enforceTc s = true)
    (hd : enforceDag s = true) : StoreInv s := by
  have htc := enforceTc_get ht
  have hns := enforceDag_get hd
  have key : ∀ x y, Reach (shape s) x y → ∀ n, get s x = some n → y ∈ n.out := by
    intro x y hr
    induction hr with
    | edge hp hy =>
      intro n hn
      rw [shape_some hn] at hp; cases hp
      exact mem_out.mpr (Or.inl hy)
    | @step x' y' z ps hp hz hzy ih =>
      intro n hn
      rw [shape_some hn] at hp; cases hp
      obtain ⟨pz, hpz⟩ := hzy.src_some
      obtain ⟨nz, hnz, _⟩ := shape_some_inv hpz
      exact htc x' n hn z (mem_out.mpr (Or.inl hz)) nz hnz y' (ih nz hnz)
  refine ⟨?_, ?_, hi.dis⟩
  · intro x n hx y
    exact ⟨fun hy => hi.snd x n hx y hy, fun hr => key x y hr n hx⟩
  · intro x hr
    obtain ⟨ps, hps⟩ := hr.src_some
    obtain ⟨n, hn, _⟩ := shape_some_inv hps
    exact hns x n hn (key x x hr n hn)

theorem satInv_of_pure {s : Store α} (h : PureStore s) : SatInv (shape s) s := by
  refine ⟨shapeIs_shape s, ?_, ?_⟩
  · intro x n hx y hy
    have : y ∈ n.parents := by
      unfold Node.out at hy; rw [h x n hx] at hy; simpa using hy
    exact Reach.edge (shape_some hx) this
  · intro x n hx y _ hyi
    rw [h x n hx] at hyi; cases hyi

theorem shape_eq_of_shapeIs {s s' : Store α} (h : ShapeIs (shape s) s') : shape s' = shape s :=
  funext (fun x => h x)

/-- whatever `closure` returns on a store without indirect ancestors satisfies the store invariant and
    has the input's parent function -/
theorem closure_storeInv (m s' : Store α) (hm : PureStore m) (h : closure m = .ok s') :
    StoreInv s' ∧ shape s' = shape m := by
  unfold closure at h
  simp only at h
  have hi := closeIter_satInv (P := shape m) ((uidsOf m).length * (uidsOf m).length + 1) m (satInv_of_pure hm)
  split at h
  · rename_i hst
    split at h
    · rename_i hd
      cases h
      have hsh := shape_eq_of_shapeIs hi.shp
      refine ⟨storeInv_of_closed (by rw [hsh]; exact hi) hst hd, hsh⟩
    · cases h
  · cases h

/-- `from_entities(…, ComputeNow)` on a batch without indirect ancestors: an accepted result satisfies the
    store invariant -/
theorem fromEntities_inv (es : List (α × Node α)) (s' : Store α) (hp : PureBatch es)
    (h : fromEntities .compute es = .ok s') : StoreInv s' := by
  unfold fromEntities at h
  cases hc : createEntityMap es with
  | error e => rw [hc] at h; cases h
  | ok m =>
    rw [hc] at h
    simp only at h
    have hm : PureStore m := createLoop_pure es [] m hc hp (fun x n hx => by simp [get] at hx)
    exact (closure_storeInv m s' hm h).1

end Cedar.TC
