import CedarVerif.Lemmas.ExtDigits
/-
Decimal: declarative language, syntactic split characterisation, exactness of the checked-arithmetic tail.
-/
namespace Cedar.Ext.Decimal

/-- the decimal literal `-?ip.fp` as a character list -/
def render (neg : Bool) (ip fp : List Char) : List Char := (if neg then ['-'] else []) ++ ip ++ '.' :: fp

/-- both parts are non-empty runs of ASCII digits -/
def WF (ip fp : List Char) : Prop := ip ≠ [] ∧ fp ≠ [] ∧ allDigits ip = true ∧ allDigits fp = true

instance (ip fp : List Char) : Decidable (WF ip fp) := by unfold WF; infer_instance

/-- the exact value of the literal, scaled by 10^4 (meaningful when `fp.length ≤ 4`) -/
def exact (neg : Bool) (ip fp : List Char) : Int :=
  (if neg then -1 else 1) * ((natOfDigits ip : Int) * 10 ^ 4 + (natOfDigits fp : Int) * 10 ^ (4 - fp.length))

/-- `split` after the sign has been removed -/
def splitRest (neg : Bool) (rest : List Char) : Option (Bool × List Char × List Char) :=
  match (spanDigits rest).2 with
  | '.' :: rest' =>
    if (spanDigits rest).1.isEmpty || (spanDigits rest').1.isEmpty || !(spanDigits rest').2.isEmpty then none
    else some (neg, (spanDigits rest).1, (spanDigits rest').1)
  | _ => none

theorem split_dash (r : List Char) : split ('-' :: r) = splitRest true r := by
  rfl

theorem split_noDash (s : List Char) (h : ∀ r, s ≠ '-' :: r) : split s = splitRest false s := by
  unfold split
  split
  · rename_i r heq
    split at heq
    · exact absurd rfl (h _)
    · cases heq; rfl

theorem dot_not_digit : isDigit '.' = false := by decide
theorem dash_not_digit : isDigit '-' = false := by decide

theorem splitRest_iff (neg neg' : Bool) (rest ip fp : List Char) :
    splitRest neg rest = some (neg', ip, fp) ↔ neg' = neg ∧ rest = ip ++ '.' :: fp ∧ WF ip fp := by
  constructor
  · intro h
    unfold splitRest at h
    split at h
    · rename_i rest' hr
      split at h
      · cases h
      · rename_i hc
        simp only [Bool.or_eq_true, Bool.not_eq_true', not_or, Bool.not_eq_true, Bool.not_eq_false] at hc
        cases h
        obtain ⟨a1, a2, _⟩ := spanDigits_spec rest
        obtain ⟨b1, b2, _⟩ := spanDigits_spec rest'
        have hnil : (spanDigits rest').2 = [] := by simpa using hc.2
        refine ⟨rfl, ?_, ?_, ?_, a2, b2⟩
        · rw [hr] at a1; rw [hnil, List.append_nil] at b1; rw [← b1]; exact a1
        · intro e; rw [e] at hc; simp at hc
        · intro e; rw [e] at hc; simp at hc
    · cases h
  · rintro ⟨rfl, rfl, h1, h2, h3, h4⟩
    have e1 : spanDigits (ip ++ '.' :: fp) = (ip, '.' :: fp) :=
      spanDigits_append _ _ h3 (noDigitHead_cons dot_not_digit)
    have e2 : spanDigits fp = (fp, []) := by
      have := spanDigits_append fp [] h4 noDigitHead_nil
      simpa using this
    unfold splitRest
    rw [e1]; simp only [e2]
    cases ip with
    | nil => exact absurd rfl h1
    | cons a as =>
      cases fp with
      | nil => exact absurd rfl h2
      | cons b bs => simp

/-- `split` recognises exactly the language `-?\d+\.\d+` (ASCII digits) and returns its three parts -/
theorem split_iff (s : List Char) (neg : Bool) (ip fp : List Char) :
    split s = some (neg, ip, fp) ↔ s = render neg ip fp ∧ WF ip fp := by
  by_cases hs : ∃ r, s = '-' :: r
  · obtain ⟨r, rfl⟩ := hs
    rw [split_dash, splitRest_iff]
    constructor
    · rintro ⟨rfl, rfl, h⟩; exact ⟨by simp [render], h⟩
    · rintro ⟨h, hwf⟩
      cases neg with
      | true => simp only [render, if_true, List.cons_append, List.nil_append, List.cons.injEq, true_and] at h
                exact ⟨rfl, h, hwf⟩
      | false =>
        exfalso
        simp only [render, Bool.false_eq_true, if_false, List.nil_append] at h
        obtain ⟨h1, _, h3, _⟩ := hwf
        cases ip with
        | nil => exact h1 rfl
        | cons a as =>
          simp only [List.cons_append, List.cons.injEq] at h
          simp only [allDigits_cons, Bool.and_eq_true] at h3
          rw [← h.1] at h3
          simp [dash_not_digit] at h3
  · have hs' : ∀ r, s ≠ '-' :: r := fun r e => hs ⟨r, e⟩
    rw [split_noDash s hs', splitRest_iff]
    constructor
    · rintro ⟨rfl, rfl, h⟩; exact ⟨by simp [render], h⟩
    · rintro ⟨h, hwf⟩
      cases neg with
      | true => exfalso; apply hs; exact ⟨ip ++ '.' :: fp, by simp [h, render]⟩
      | false => exact ⟨rfl, by simpa [render] using h, hwf⟩

theorem fp_bound (fp : List Char) (hne : fp ≠ []) (hlen : fp.length ≤ 4) (hd : allDigits fp = true) :
    natOfDigits fp * 10 ^ (4 - fp.length) < 10000 ∧ natOfDigits fp < 10000 := by
  have h := natOfDigits_lt fp hd
  have hpos : 0 < fp.length := List.length_pos_iff.mpr hne
  generalize natOfDigits fp = n at *
  generalize fp.length = k at *
  have : k = 1 ∨ k = 2 ∨ k = 3 ∨ k = 4 := by omega
  rcases this with rfl | rfl | rfl | rfl <;> simp at h ⊢ <;> omega

/-- the checked-arithmetic chain computes the exact scaled value or fails exactly on i64 overflow -/
theorem arith_exact (neg : Bool) (n m k : Nat) (hk : k ≤ 4) (h1 : m * 10 ^ (4 - k) < 10000) (h2 : m < 10000) :
    arith neg n m k =
      let e : Int := (if neg then -1 else 1) * ((n : Int) * 10 ^ 4 + (m : Int) * 10 ^ (4 - k))
      if inI64 e then some e else none := by
  have hP : (((10 ^ (4 - k) : Nat)) : Int) = (10 : Int) ^ (4 - k) := by simp
  have hF : (m : Int) * ((10 ^ (4 - k) : Nat) : Int) < 10000 := by
    have := Int.ofNat_lt.mpr h1
    rw [Int.natCast_mul] at this; exact this
  have hF0 : (0 : Int) ≤ (m : Int) * ((10 ^ (4 - k) : Nat) : Int) :=
    Int.mul_nonneg (Int.natCast_nonneg _) (Int.natCast_nonneg _)
  have hM : (m : Int) < 10000 := Int.ofNat_lt.mpr h2
  have hM0 : (0 : Int) ≤ (m : Int) := Int.natCast_nonneg _
  have hN0 : (0 : Int) ≤ (n : Int) := Int.natCast_nonneg _
  have hk' : ¬ (4 < k) := by omega
  have e4 : (10 : Int) ^ 4 = 10000 := by decide
  simp only [arith, hk', if_false, ← hP, e4, Option.bind_eq_bind]
  generalize (m : Int) = M at *
  generalize hFF : M * ((10 ^ (4 - k) : Nat) : Int) = F at *
  generalize (n : Int) = N at *
  have cM : inI64 M = true := by rw [inI64_iff]; omega
  have cF : inI64 F = true := by rw [inI64_iff]; omega
  cases neg <;> simp only [Bool.false_eq_true, if_false, if_true, Bool.not_false, Bool.not_true]
  · -- positive
    cases hex : inI64 (1 * (N * 10000 + F))
    · simp only [Bool.false_eq_true, if_false]
      rw [inI64_false_iff] at hex
      cases c1 : inI64 N
      · simp only [checkedI64_none c1, Option.bind_none]
      · cases c2 : inI64 (N * 10000)
        · simp only [checkedI64_some c1, checkedI64_none c2, Option.bind_some, Option.bind_none]
        · have c3 : inI64 (N * 10000 + F) = false := by rw [inI64_false_iff]; omega
          simp only [checkedI64_some c1, checkedI64_some c2, checkedI64_some cM, hFF, checkedI64_some cF,
            checkedI64_none c3, Option.bind_some]
    · simp only [if_true]
      rw [inI64_iff] at hex
      have c1 : inI64 N = true := by rw [inI64_iff]; omega
      have c2 : inI64 (N * 10000) = true := by rw [inI64_iff]; omega
      have c3 : inI64 (N * 10000 + F) = true := by rw [inI64_iff]; omega
      simp only [checkedI64_some c1, checkedI64_some c2, checkedI64_some cM, hFF, checkedI64_some cF,
        checkedI64_some c3, Option.bind_some]
      congr 1; omega
  · -- negative
    cases hex : inI64 (-1 * (N * 10000 + F))
    · simp only [Bool.false_eq_true, if_false]
      rw [inI64_false_iff] at hex
      cases c1 : inI64 (-N)
      · simp only [checkedI64_none c1, Option.bind_none]
      · cases c2 : inI64 (-N * 10000)
        · simp only [checkedI64_some c1, checkedI64_none c2, Option.bind_some, Option.bind_none]
        · have c3 : inI64 (-N * 10000 - F) = false := by rw [inI64_false_iff]; omega
          simp only [checkedI64_some c1, checkedI64_some c2, checkedI64_some cM, hFF, checkedI64_some cF,
            checkedI64_none c3, Option.bind_some]
    · simp only [if_true]
      rw [inI64_iff] at hex
      have c1 : inI64 (-N) = true := by rw [inI64_iff]; omega
      have c2 : inI64 (-N * 10000) = true := by rw [inI64_iff]; omega
      have c3 : inI64 (-N * 10000 - F) = true := by rw [inI64_iff]; omega
      simp only [checkedI64_some c1, checkedI64_some c2, checkedI64_some cM, hFF, checkedI64_some cF,
        checkedI64_some c3, Option.bind_some]
      congr 1; omega

/-- more than four fraction digits: always rejected -/
theorem arith_tooManyDigits (neg : Bool) (n m k : Nat) (hk : 4 < k) : arith neg n m k = none := by
  simp only [arith, hk, if_true, Option.bind_eq_bind]
  cases h1 : checkedI64 (if neg = true then -(n : Int) else n) with
  | none => rfl
  | some l =>
    simp only [Option.bind_some]
    cases h2 : checkedI64 (l * 10000) with
    | none => rfl
    | some l' => rfl

end Cedar.Ext.Decimal
