import CedarVerif.Lemmas.BatchedProgress
/- C15 helpers: BOUNDEDNESS of the loop — the ids a residual mentions after `interpret` are ids of the input residual,
   of the request, or ids occurring in attribute / tag values of the loaded entities. -/
namespace Cedar.Batched
open Cedar Cedar.Tpe

/-! ### results of operators mention no ids -/

theorem callExt1_noUids {fn : String} {a w : Value} (h : callExt1 fn a = .ok w) : valueUids w = [] := by
  unfold callExt1 at h
  simp only [bind, Except.bind, optToExt, vbool, vint] at h
  repeat' split at h
  all_goals first
    | (cases h; done)
    | (cases h; rfl)

theorem callExt2_noUids {fn : String} {a b w : Value} (h : callExt2 fn a b = .ok w) : valueUids w = [] := by
  unfold callExt2 at h
  simp only [bind, Except.bind, optToExt, vbool] at h
  repeat' split at h
  all_goals first
    | (cases h; done)
    | (cases h; rfl)

theorem callExt_noUids {fn : String} {args : List Value} {w : Value} (h : callExt fn args = .ok w) : valueUids w = [] := by
  unfold callExt at h
  repeat' split at h
  all_goals first
    | (cases h; done)
    | exact callExt1_noUids h
    | exact callExt2_noUids h

theorem applyUnary_noUids {op : UnaryOp} {v w : Value} (h : applyUnary op v = .ok w) : valueUids w = [] := by
  unfold applyUnary at h
  simp only [bind, Except.bind, intOrErr] at h
  repeat' split at h
  all_goals first
    | (cases h; done)
    | (cases h; rfl)

theorem applyCmp_noUids {s : Bool} {v1 v2 w : Value} (h : applyCmp s v1 v2 = .ok w) : valueUids w = [] := by
  unfold applyCmp at h
  repeat' split at h
  all_goals first
    | (cases h; done)
    | (cases h; rfl)

theorem applyBinary_noUids {op : BinaryOp} (hop : storeFreeOp op = true) {v1 v2 w : Value}
    (h : applyBinary [] op v1 v2 = .ok w) : valueUids w = [] := by
  cases op <;> simp [storeFreeOp] at hop
  case less => exact applyCmp_noUids h
  case lessEq => exact applyCmp_noUids h
  all_goals
    simp only [applyBinary, bind, Except.bind, intOrErr] at h
    repeat' split at h
    all_goals first
      | (cases h; done)
      | (cases h; rfl)

/-! ### ids inside values -/

def ValIn (U : List EntityUID) (v : Value) : Prop := ∀ u, u ∈ valueUids v → u ∈ U
def KVsIn (U : List EntityUID) (kvs : List (String × Value)) : Prop := ∀ u, u ∈ valueUidsKVs kvs → u ∈ U
def UidsIn (U : List EntityUID) (r : Residual) : Prop := ∀ u, u ∈ r.uids → u ∈ U

theorem valIn_of_noUids {U : List EntityUID} {v : Value} (h : valueUids v = []) : ValIn U v := by
  intro u hu; rw [h] at hu; cases hu

theorem lookupKV_in {U : List EntityUID} {kvs : List (String × Value)} (h : KVsIn U kvs) {k : String} {v : Value}
    (hl : lookupKV kvs k = some v) : ValIn U v := by
  induction kvs with
  | nil => simp [lookupKV] at hl
  | cons x kvs ih =>
    obtain ⟨k', v'⟩ := x
    simp only [lookupKV] at hl
    split at hl
    · cases hl
      intro u hu; exact h u (by simp only [valueUidsKVs, List.mem_append]; exact Or.inl hu)
    · exact ih (fun u hu => h u (by simp only [valueUidsKVs, List.mem_append]; exact Or.inr hu)) hl

theorem mkSet_sub (vs : List Value) : ∀ u, u ∈ valueUidsList (Value.mkSet vs) → u ∈ valueUidsList vs := by
  induction vs with
  | nil => intro u hu; simpa [Value.mkSet] using hu
  | cons v vs ih =>
    intro u hu
    simp only [Value.mkSet] at hu
    simp only [valueUidsList, List.mem_append]
    split at hu
    · exact Or.inr (ih u hu)
    · simp only [valueUidsList, List.mem_append] at hu
      rcases hu with hu | hu
      · exact Or.inl hu
      · exact Or.inr (ih u hu)

theorem insertKV_sub (k : String) (v : Value) (kvs : List (String × Value)) :
    ∀ u, u ∈ valueUidsKVs (insertKV k v kvs) → u ∈ valueUids v ∨ u ∈ valueUidsKVs kvs := by
  induction kvs with
  | nil => intro u hu; simpa [insertKV, valueUidsKVs] using hu
  | cons x kvs ih =>
    obtain ⟨k', v'⟩ := x
    intro u hu
    simp only [insertKV] at hu
    split at hu
    · simpa [valueUidsKVs] using hu
    · split at hu
      · simp only [valueUidsKVs, List.mem_append] at hu ⊢
        rcases hu with hu | hu
        · exact Or.inl hu
        · exact Or.inr (Or.inr hu)
      · simp only [valueUidsKVs, List.mem_append] at hu ⊢
        rcases hu with hu | hu
        · exact Or.inr (Or.inl hu)
        · rcases ih u hu with h | h
          · exact Or.inl h
          · exact Or.inr (Or.inr h)

theorem foldl_insertKV_sub (vals acc : List (String × Value)) :
    ∀ u, u ∈ valueUidsKVs (vals.foldl (fun acc kv => insertKV kv.1 kv.2 acc) acc) →
      u ∈ valueUidsKVs vals ∨ u ∈ valueUidsKVs acc := by
  induction vals generalizing acc with
  | nil => intro u hu; exact Or.inr hu
  | cons x vals ih =>
    obtain ⟨k, v⟩ := x
    intro u hu
    simp only [List.foldl_cons] at hu
    simp only [valueUidsKVs, List.mem_append]
    rcases ih _ u hu with h | h
    · exact Or.inl (Or.inr h)
    · rcases insertKV_sub k v acc u h with h | h
      · exact Or.inl (Or.inl h)
      · exact Or.inr h

theorem allConcrete_uids {rs : List Residual} {vals : List Value} (h : allConcrete rs = some vals) :
    valueUidsList vals = Residual.uidsList rs := by
  induction rs generalizing vals with
  | nil => simp only [allConcrete, Option.some.injEq] at h; subst h; rfl
  | cons r rs ih =>
    cases r with
    | concrete v t =>
      simp only [allConcrete, Option.map_eq_some_iff] at h
      obtain ⟨vs, hvs, rfl⟩ := h
      simp [valueUidsList, Residual.uidsList, Residual.uids, ih hvs]
    | part k t => simp [allConcrete] at h
    | error t => simp [allConcrete] at h

theorem allConcreteKVs_uids {rs : List (String × Residual)} {vals : List (String × Value)} (h : allConcreteKVs rs = some vals) :
    valueUidsKVs vals = Residual.uidsKVs rs := by
  induction rs generalizing vals with
  | nil => simp only [allConcreteKVs, Option.some.injEq] at h; subst h; rfl
  | cons kr rs ih =>
    obtain ⟨k, r⟩ := kr
    cases r with
    | concrete v t =>
      simp only [allConcreteKVs, Option.map_eq_some_iff] at h
      obtain ⟨vs, hvs, rfl⟩ := h
      simp [valueUidsKVs, Residual.uidsKVs, Residual.uids, ih hvs]
    | part k t => simp [allConcreteKVs] at h
    | error t => simp [allConcreteKVs] at h

theorem uidsList_in {U : List EntityUID} {rs : List Residual} (h : ∀ r, r ∈ rs → UidsIn U r) :
    ∀ u, u ∈ Residual.uidsList rs → u ∈ U := by
  induction rs with
  | nil => intro u hu; cases hu
  | cons a l ih =>
    intro u hu
    simp only [Residual.uidsList, List.mem_append] at hu
    rcases hu with hu | hu
    · exact h a (by simp) u hu
    · exact ih (fun r hr => h r (by simp [hr])) u hu

theorem uidsKVs_in {U : List EntityUID} {rs : List (String × Residual)} (h : ∀ kv, kv ∈ rs → UidsIn U kv.2) :
    ∀ u, u ∈ Residual.uidsKVs rs → u ∈ U := by
  induction rs with
  | nil => intro u hu; cases hu
  | cons a l ih =>
    obtain ⟨k, r⟩ := a
    intro u hu
    simp only [Residual.uidsKVs, List.mem_append] at hu
    rcases hu with hu | hu
    · exact h (k, r) (by simp) u hu
    · exact ih (fun kv hkv => h kv (by simp [hkv])) u hu

theorem mem_of_uidsList {rs : List Residual} {u : EntityUID} (h : u ∈ Residual.uidsList rs) : ∃ r, r ∈ rs ∧ u ∈ r.uids := by
  induction rs with
  | nil => cases h
  | cons a l ih =>
    simp only [Residual.uidsList, List.mem_append] at h
    rcases h with h | h
    · exact ⟨a, by simp, h⟩
    · obtain ⟨r, hr, hu⟩ := ih h; exact ⟨r, by simp [hr], hu⟩

theorem mem_of_uidsKVs {rs : List (String × Residual)} {u : EntityUID} (h : u ∈ Residual.uidsKVs rs) :
    ∃ kv, kv ∈ rs ∧ u ∈ kv.2.uids := by
  induction rs with
  | nil => cases h
  | cons a l ih =>
    obtain ⟨k, r⟩ := a
    simp only [Residual.uidsKVs, List.mem_append] at h
    rcases h with h | h
    · exact ⟨(k, r), by simp, h⟩
    · obtain ⟨kv, hr, hu⟩ := ih h; exact ⟨kv, by simp [hr], hu⟩

/-! ### `interpret` stays inside the universe -/

/-- attribute and tag values of the loaded entities mention ids of `U` only -/
def StoreIn (U : List EntityUID) (pes : Tpe.PEntities) : Prop :=
  ∀ u p, pes.find? u = some p → (∀ a, p.attrs = some a → KVsIn U a) ∧ (∀ t, p.tags = some t → KVsIn U t)

/-- the request mentions ids of `U` only -/
def ReqIn (U : List EntityUID) (preq : Tpe.PRequest) : Prop :=
  (∀ u, preq.principal.uid? = some u → u ∈ U) ∧ preq.action ∈ U ∧ (∀ u, preq.resource.uid? = some u → u ∈ U) ∧
  (∀ c, preq.context = some c → KVsIn U c)

variable {U : List EntityUID} {preq : Tpe.PRequest} {pes : Tpe.PEntities}

theorem uidsIn_nil {r : Residual} (h : r.uids = []) : UidsIn U r := by
  intro u hu; rw [h] at hu; cases hu

theorem uidsIn_ofResult (ty : Ty) {x : Result Value} (h : ∀ w, x = .ok w → valueUids w = []) : UidsIn U (ofResult ty x) := by
  cases x with
  | error e => exact uidsIn_nil rfl
  | ok w => exact uidsIn_nil (h w rfl)

theorem attrs_in (hS : StoreIn U pes) {u : EntityUID} {a : List (String × Value)} (h : pes.attrs? u = some a) : KVsIn U a := by
  unfold Tpe.PEntities.attrs? at h
  cases hp : pes.find? u with
  | none => simp [hp] at h
  | some p => rw [hp] at h; exact (hS u p hp).1 a h

theorem tags_in (hS : StoreIn U pes) {u : EntityUID} {a : List (String × Value)} (h : pes.tags? u = some a) : KVsIn U a := by
  unfold Tpe.PEntities.tags? at h
  cases hp : pes.find? u with
  | none => simp [hp] at h
  | some p => rw [hp] at h; exact (hS u p hp).2 a h

theorem interpretBinary_uidsIn (hS : StoreIn U pes) (ty : Ty) (op : BinaryOp) (v1 v2 : Value) (t1 t2 : Ty)
    (h1 : ValIn U v1) (h2 : ValIn U v2) :
    UidsIn U (interpretBinary pes ty op v1 v2 (.concrete v1 t1) (.concrete v2 t2)) := by
  have resid : UidsIn U (.part (.binaryApp op (.concrete v1 t1) (.concrete v2 t2)) ty) := by
    intro u hu
    simp only [Residual.uids, RKind.uids, List.mem_append] at hu
    rcases hu with hu | hu
    · exact h1 u hu
    · exact h2 u hu
  by_cases hop : storeFreeOp op = true
  · have : interpretBinary pes ty op v1 v2 (.concrete v1 t1) (.concrete v2 t2) = ofResult ty (applyBinary [] op v1 v2) := by
      cases op <;> first | (simp [storeFreeOp] at hop; done) | rfl
    rw [this]
    exact uidsIn_ofResult ty (fun w hw => applyBinary_noUids hop hw)
  · cases op <;> simp [storeFreeOp] at hop
    · -- `in`
      unfold interpretBinary
      simp only
      (repeat' split) <;> first | exact resid | exact uidsIn_nil rfl
    · -- `getTag`
      unfold interpretBinary
      simp only
      cases v1.asEntity with
      | error e => exact uidsIn_nil rfl
      | ok u =>
        simp only
        cases v2.asString with
        | error e => exact uidsIn_nil rfl
        | ok tag =>
          simp only
          cases ht : pes.tags? u with
          | none => exact resid
          | some tags =>
            simp only
            cases hl : lookupKV tags tag with
            | none => exact uidsIn_nil rfl
            | some v => exact lookupKV_in (tags_in hS ht) hl
    · -- `hasTag`
      unfold interpretBinary
      simp only
      (repeat' split) <;> first | exact resid | exact uidsIn_nil rfl

theorem andResult_uidsIn (ty : Ty) (L R : Residual) (hL : UidsIn U L) (hR : UidsIn U R) : UidsIn U (andResult ty L R) := by
  have key : ∀ X : Residual, UidsIn U X → UidsIn U (.part (.and L X) ty) := by
    intro X hX u hu
    simp only [Residual.uids, RKind.uids, List.mem_append] at hu
    rcases hu with hu | hu
    · exact hL u hu
    · exact hX u hu
  unfold andResult
  (repeat' split) <;> first
    | exact hR
    | exact hL
    | exact uidsIn_nil rfl
    | exact key _ hR
    | exact key _ (uidsIn_nil rfl)

theorem orResult_uidsIn (ty : Ty) (L R : Residual) (hL : UidsIn U L) (hR : UidsIn U R) : UidsIn U (orResult ty L R) := by
  have key : ∀ X : Residual, UidsIn U X → UidsIn U (.part (.or L X) ty) := by
    intro X hX u hu
    simp only [Residual.uids, RKind.uids, List.mem_append] at hu
    rcases hu with hu | hu
    · exact hL u hu
    · exact hX u hu
  unfold orResult
  (repeat' split) <;> first
    | exact hR
    | exact hL
    | exact uidsIn_nil rfl
    | exact key _ hR
    | exact key _ (uidsIn_nil rfl)

/-- **boundedness of `interpret`**: ids of the output are ids of the input, of the request, or of loaded values -/
theorem interpret_uidsIn (hS : StoreIn U pes) (hR : ReqIn U preq) (r : Residual) :
    UidsIn U r → UidsIn U (interpret preq pes r) := by
  induction Residual.all r with
  | concrete v ty => intro h; rw [interpret]; exact h
  | error ty => intro h; rw [interpret]; exact h
  | var x ty =>
    intro _
    rw [interpret]
    obtain ⟨h1, h2, h3, h4⟩ := hR
    cases x
    · rw [interpretKind]
      cases hp : preq.principal.uid? with
      | none => exact uidsIn_nil rfl
      | some u => intro x hx; simp only [Residual.uids, valueUids, List.mem_singleton] at hx; subst hx; exact h1 _ hp
    · rw [interpretKind]
      intro x hx; simp only [Residual.uids, valueUids, List.mem_singleton] at hx; subst hx; exact h2
    · rw [interpretKind]
      cases hp : preq.resource.uid? with
      | none => exact uidsIn_nil rfl
      | some u => intro x hx; simp only [Residual.uids, valueUids, List.mem_singleton] at hx; subst hx; exact h3 _ hp
    · rw [interpretKind]
      cases hp : preq.context with
      | none => exact uidsIn_nil rfl
      | some c => intro x hx; simp only [Residual.uids, valueUids] at hx; exact h4 c hp x hx
  | @and l r ty _ _ ihl ihr =>
    intro h
    rw [interpret, interpretKind_and]
    exact andResult_uidsIn ty _ _
      (ihl (fun u hu => h u (by simp only [Residual.uids, RKind.uids, List.mem_append]; exact Or.inl hu)))
      (ihr (fun u hu => h u (by simp only [Residual.uids, RKind.uids, List.mem_append]; exact Or.inr hu)))
  | @or l r ty _ _ ihl ihr =>
    intro h
    rw [interpret, interpretKind_or]
    exact orResult_uidsIn ty _ _
      (ihl (fun u hu => h u (by simp only [Residual.uids, RKind.uids, List.mem_append]; exact Or.inl hu)))
      (ihr (fun u hu => h u (by simp only [Residual.uids, RKind.uids, List.mem_append]; exact Or.inr hu)))
  | @ite c t e ty _ _ _ ihc iht ihe =>
    intro h
    rw [interpret, interpretKind_ite]
    have hc := ihc (fun u hu => h u (by simp only [Residual.uids, RKind.uids, List.mem_append]; exact Or.inl (Or.inl hu)))
    have ht := iht (fun u hu => h u (by simp only [Residual.uids, RKind.uids, List.mem_append]; exact Or.inl (Or.inr hu)))
    have he := ihe (fun u hu => h u (by simp only [Residual.uids, RKind.uids, List.mem_append]; exact Or.inr hu))
    unfold iteResult
    (repeat' split) <;> first
      | exact ht
      | exact he
      | exact uidsIn_nil rfl
      | (rename_i heq
         rw [heq] at hc
         intro u hu
         simp only [Residual.uids, RKind.uids, List.mem_append] at hu
         rcases hu with (hu | hu) | hu
         · exact hc u hu
         · exact ht u hu
         · exact he u hu)
  | @unary op a ty _ ih =>
    intro h
    rw [interpret, interpretKind_unary]
    have ha := ih (fun u hu => h u (by simpa [Residual.uids, RKind.uids] using hu))
    unfold unaryResult
    split
    · exact uidsIn_ofResult ty (fun w hw => applyUnary_noUids hw)
    · rename_i hA; rw [hA] at ha
      intro u hu; exact ha u (by simpa [Residual.uids, RKind.uids] using hu)
    · exact uidsIn_nil rfl
  | @binary op a b ty _ _ iha ihb =>
    intro h
    rw [interpret, interpretKind_binary]
    have ha := iha (fun u hu => h u (by simp only [Residual.uids, RKind.uids, List.mem_append]; exact Or.inl hu))
    have hb := ihb (fun u hu => h u (by simp only [Residual.uids, RKind.uids, List.mem_append]; exact Or.inr hu))
    have generic : UidsIn U (.part (.binaryApp op (interpret preq pes a) (interpret preq pes b)) ty) := by
      intro u hu
      simp only [Residual.uids, RKind.uids, List.mem_append] at hu
      rcases hu with hu | hu
      · exact ha u hu
      · exact hb u hu
    cases hA : interpret preq pes a with
    | error t => exact uidsIn_nil rfl
    | concrete v1 t1 =>
      cases hB : interpret preq pes b with
      | error t => exact uidsIn_nil rfl
      | concrete v2 t2 =>
        rw [hA] at ha; rw [hB] at hb
        exact interpretBinary_uidsIn hS ty op v1 v2 t1 t2 ha hb
      | part k t => rw [hA, hB] at generic; exact generic
    | part k t =>
      cases hB : interpret preq pes b with
      | error t2 => exact uidsIn_nil rfl
      | concrete v2 t2 => rw [hA, hB] at generic; exact generic
      | part k2 t2 => rw [hA, hB] at generic; exact generic
  | @getAttr e a ty _ ih =>
    intro h
    rw [interpret, interpretKind_getAttr]
    have he := ih (fun u hu => h u (by simpa [Residual.uids, RKind.uids] using hu))
    cases hA : interpret preq pes e with
    | error t => exact uidsIn_nil rfl
    | part k t =>
      rw [hA] at he
      intro u hu; exact he u (by simpa [getAttrResult, Residual.uids, RKind.uids] using hu)
    | concrete v t =>
      rw [hA] at he
      cases v with
      | record kvs =>
        simp only [getAttrResult]
        cases hl : lookupKV kvs a with
        | none => exact uidsIn_nil rfl
        | some x => exact lookupKV_in (U := U) (fun u hu => he u (by simpa [Residual.uids, valueUids] using hu)) hl
      | set vs => exact uidsIn_nil rfl
      | ext x => exact uidsIn_nil rfl
      | prim p =>
        cases p with
        | entityUID u =>
          simp only [getAttrResult]
          cases ha : pes.attrs? u with
          | none => intro x hx; exact he x (by simpa [Residual.uids, RKind.uids] using hx)
          | some attrs =>
            simp only
            cases hl : lookupKV attrs a with
            | none => exact uidsIn_nil rfl
            | some x => exact lookupKV_in (attrs_in hS ha) hl
        | bool b => exact uidsIn_nil rfl
        | int i => exact uidsIn_nil rfl
        | string s => exact uidsIn_nil rfl
  | @hasAttr e a ty _ ih =>
    intro h
    rw [interpret, interpretKind_hasAttr]
    have he := ih (fun u hu => h u (by simpa [Residual.uids, RKind.uids] using hu))
    cases hA : interpret preq pes e with
    | error t => exact uidsIn_nil rfl
    | part k t =>
      rw [hA] at he
      intro u hu; exact he u (by simpa [hasAttrResult, Residual.uids, RKind.uids] using hu)
    | concrete v t =>
      rw [hA] at he
      cases v with
      | record kvs => exact uidsIn_nil rfl
      | set vs => exact uidsIn_nil rfl
      | ext x => exact uidsIn_nil rfl
      | prim p =>
        cases p with
        | entityUID u =>
          simp only [hasAttrResult]
          cases ha : pes.attrs? u with
          | none => intro x hx; exact he x (by simpa [Residual.uids, RKind.uids] using hx)
          | some attrs => exact uidsIn_nil rfl
        | bool b => exact uidsIn_nil rfl
        | int i => exact uidsIn_nil rfl
        | string s => exact uidsIn_nil rfl
  | @like e p ty _ ih =>
    intro h
    rw [interpret, interpretKind_like]
    have he := ih (fun u hu => h u (by simpa [Residual.uids, RKind.uids] using hu))
    cases hA : interpret preq pes e with
    | error t => exact uidsIn_nil rfl
    | part k t =>
      rw [hA] at he
      intro u hu; exact he u (by simpa [likeResult, Residual.uids, RKind.uids] using hu)
    | concrete v t =>
      simp only [likeResult]
      cases v.asString <;> exact uidsIn_nil rfl
  | @is e ety ty _ ih =>
    intro h
    rw [interpret, interpretKind_is]
    have he := ih (fun u hu => h u (by simpa [Residual.uids, RKind.uids] using hu))
    cases hA : interpret preq pes e with
    | error t => exact uidsIn_nil rfl
    | concrete v t =>
      simp only [isResult]
      cases v.asEntity <;> exact uidsIn_nil rfl
    | part k t =>
      rw [hA] at he
      have generic : UidsIn U (.part (.is (.part k t) ety) ty) := by
        intro u hu; exact he u (by simpa [Residual.uids, RKind.uids] using hu)
      cases k with
      | var x => cases x <;> first | exact generic | exact uidsIn_nil rfl
      | _ => exact generic
  | @call fn args ty _ ih =>
    intro h
    rw [interpret, interpretKind_call]
    have hall : ∀ r', r' ∈ interpretList preq pes args → UidsIn U r' := by
      intro r' hr'
      obtain ⟨r, hr, rfl⟩ := mem_interpretList hr'
      exact ih r hr (fun u hu => h u (by simp only [Residual.uids, RKind.uids]; exact mem_uidsList hr hu))
    unfold listResult
    (repeat' split)
    · exact uidsIn_ofResult ty (fun w hw => callExt_noUids hw)
    · exact uidsIn_nil rfl
    · intro u hu; exact uidsList_in hall u (by simpa [Residual.uids, RKind.uids] using hu)
  | @set xs ty _ ih =>
    intro h
    rw [interpret, interpretKind_set]
    have hall : ∀ r', r' ∈ interpretList preq pes xs → UidsIn U r' := by
      intro r' hr'
      obtain ⟨r, hr, rfl⟩ := mem_interpretList hr'
      exact ih r hr (fun u hu => h u (by simp only [Residual.uids, RKind.uids]; exact mem_uidsList hr hu))
    unfold listResult
    (repeat' split)
    · rename_i vals hac
      intro u hu
      simp only [Residual.uids, valueUids] at hu
      exact uidsList_in hall u (by rw [← allConcrete_uids hac]; exact mkSet_sub _ u hu)
    · exact uidsIn_nil rfl
    · intro u hu; exact uidsList_in hall u (by simpa [Residual.uids, RKind.uids] using hu)
  | @record kvs ty _ ih =>
    intro h
    rw [interpret, interpretKind_record]
    have hall : ∀ kv', kv' ∈ interpretKVs preq pes kvs → UidsIn U kv'.2 := by
      intro kv' hkv'
      obtain ⟨kv, hkv, heq⟩ := mem_interpretKVs hkv'
      rw [heq]
      exact ih kv hkv (fun u hu => h u (by simp only [Residual.uids, RKind.uids]; exact mem_uidsKVs hkv hu))
    unfold recordResult
    (repeat' split)
    · rename_i vals hac
      intro u hu
      simp only [Residual.uids, recordOf, valueUids] at hu
      rcases foldl_insertKV_sub vals [] u hu with hu | hu
      · exact uidsKVs_in hall u (by rw [← allConcreteKVs_uids hac]; exact hu)
      · cases hu
    · exact uidsIn_nil rfl
    · intro u hu; exact uidsKVs_in hall u (by simpa [Residual.uids, RKind.uids] using hu)

/-! ### the loop stays inside the universe -/

/-- attribute and tag values of the store mention ids of `U` only -/
def EsIn (U : List EntityUID) (es : Entities) : Prop := ∀ u d, es.find? u = some d → KVsIn U d.attrs ∧ KVsIn U d.tags

/-- `U` contains the ids of the request (incl. its context), of the typed conditions, and of the attribute / tag values
    of the store (it need not contain the store's own keys or ancestor lists: those are never requested for their own sake) -/
structure Universe (U : List EntityUID) (q : Request) (es : Entities) (tps : List TPolicy) : Prop where
  req : ReqIn U (prequestOf q)
  store : EsIn U es
  pols : ∀ tp, tp ∈ tps → ∀ r0, Residual.ofExpr tp.typed = some r0 → UidsIn U r0

theorem loadedFrom_storeIn {es : Entities} (hes : EsIn U es) (hL : LoadedFrom es pes) : StoreIn U pes := by
  intro u p hp
  rw [hL u p hp]
  cases hf : es.find? u with
  | none =>
    refine ⟨?_, ?_⟩ <;>
    · intro a ha
      simp only [pentityOf, Option.some.injEq] at ha
      subst ha
      intro x hx; cases hx
  | some d =>
    obtain ⟨h1, h2⟩ := hes u d hf
    refine ⟨?_, ?_⟩
    · intro a ha; simp only [pentityOf, Option.some.injEq] at ha; subst ha; exact h1
    · intro a ha; simp only [pentityOf, Option.some.injEq] at ha; subst ha; exact h2

/-- the invariant of the loop incl. boundedness -/
def SInvU (q : Request) (es : Entities) (tps : List TPolicy) (U : List EntityUID) (st : State) : Prop :=
  SInv q es tps st ∧ ∀ rp, rp ∈ st.residuals → UidsIn U rp.residual

theorem sinvU_init {q : Request} {es : Entities} {tps : List TPolicy} (hT : TypedSafe q es tps) (hU : Universe U q es tps)
    {st0 : State} (h0 : initState (prequestOf q) tps = some st0) : SInvU q es tps U st0 := by
  refine ⟨sinv_init hT h0, ?_⟩
  unfold initState at h0
  cases hm : mapM? (residualPolicyOf (prequestOf q) ([] : Tpe.PEntities)) tps with
  | none => simp [hm] at h0
  | some rs =>
    simp only [hm, Option.map_some, Option.some.injEq] at h0
    subst h0
    intro rp hrp
    obtain ⟨tp, htp, hf⟩ := (mapM?_spec hm).2 rp hrp
    unfold residualPolicyOf at hf
    cases ho : Residual.ofExpr tp.typed with
    | none => simp [ho] at hf
    | some r0 =>
      simp only [ho, Option.map_some, Option.some.injEq] at hf
      subst hf
      exact interpret_uidsIn (fun u p hp => by simp [Tpe.PEntities.find?] at hp) hU.req r0 (hU.pols tp htp r0 ho)

theorem sinvU_step {q : Request} {es : Entities} {tps : List TPolicy} {loader : Loader} (hF : Faithful loader es)
    (hU : Universe U q es tps) {st st' : State} (hi : SInvU q es tps U st) (hs : step (prequestOf q) loader st = some st') :
    SInvU q es tps U st' := by
  have hi' := sinv_step hF hi.1 hs
  refine ⟨hi', ?_⟩
  have hS := loadedFrom_storeIn hU.store hi'.loaded
  unfold step at hs
  cases ha : addLoaded st.entities (loader st.toLoad) with
  | none => simp [ha] at hs
  | some es2 =>
    simp only [ha, Option.some.injEq] at hs
    subst hs
    intro rp' hrp'
    simp only [List.mem_map] at hrp'
    obtain ⟨rp, hrp, rfl⟩ := hrp'
    exact interpret_uidsIn hS hU.req rp.residual (hi.2 rp hrp)

theorem sinvU_loopInv {q : Request} {es : Entities} {tps : List TPolicy} {loader : Loader}
    (hF : Faithful loader es) (hE : TypedAgrees q es tps) (hB : CondsBool q es tps) (hU : Universe U q es tps) :
    LoopInv (prequestOf q) loader U (SInvU q es tps U) where
  step := fun _ _ hi hs => sinvU_step hF hU hi hs
  progress := fun st hi hd =>
    toLoad_ne_nil (prequestOf_concrete q) (loadedFrom_fullyKnown hi.1.loaded)
      (fun rp hrp => by obtain ⟨_, _, _, _, _, _, _, hr, _⟩ := hi.1.tracked rp hrp; exact hr) hd
  bounded := by
    intro st hi u hu
    unfold State.toLoad at hu
    rw [mem_dedup, List.mem_filter] at hu
    obtain ⟨rp, hrp, hm⟩ := List.mem_flatMap.mp hu.1
    exact hi.2 rp hrp u hm
  boolTyped := fun _ hi => sinv_boolTyped hE hB hi.1

end Cedar.Batched
