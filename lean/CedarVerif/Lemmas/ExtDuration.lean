import CedarVerif.Lemmas.ExtDigits
/-
Duration: declarative language `-?(\d+d)?(\d+h)?(\d+m)?(\d+s)?(\d+ms)?` (at least one component),
syntactic split characterisation, exactness of the checked accumulation.
-/
namespace Cedar.Ext.Duration

/-- one optional component: digits followed by the unit -/
def rc (unit : List Char) : Option (List Char) → List Char
  | none => []
  | some ds => ds ++ unit

/-- a present component is a non-empty run of ASCII digits -/
def WFc (c : Option (List Char)) : Prop := ∀ ds, c = some ds → ds ≠ [] ∧ allDigits ds = true

theorem WFc_none : WFc none := by intro ds h; cases h

instance (c : Option (List Char)) : Decidable (WFc c) :=
  match c with
  | none => isTrue (by intro ds h; cases h)
  | some ds => if h : ds ≠ [] ∧ allDigits ds = true then isTrue (by intro ds' e; cases e; exact h)
               else isFalse (fun hw => h (hw ds rfl))

def render (neg : Bool) (D H M S MS : Option (List Char)) : List Char :=
  (if neg then ['-'] else []) ++ (rc ['d'] D ++ (rc ['h'] H ++ (rc ['m'] M ++ (rc ['s'] S ++ (rc ['m', 's'] MS ++ [])))))

/-- all present components well formed, at least one present -/
def WF (D H M S MS : Option (List Char)) : Prop :=
  WFc D ∧ WFc H ∧ WFc M ∧ WFc S ∧ WFc MS ∧
  (D.isSome || H.isSome || M.isSome || S.isSome || MS.isSome) = true

instance (D H M S MS : Option (List Char)) : Decidable (WF D H M S MS) := by unfold WF; infer_instance

def cval (c : Option (List Char)) : Nat := (c.map natOfDigits).getD 0

/-- the exact number of milliseconds denoted by the literal -/
def exact (neg : Bool) (d h m s ms : Nat) : Int :=
  (if neg then -1 else 1) *
    ((ms : Int) + (s : Int) * 1000 + (m : Int) * 60000 + (h : Int) * 3600000 + (d : Int) * 86400000)

/-! ### `readUnit` -/

theorem readUnit_nil (u : List Char) (notS : Bool) : readUnit u notS [] = (none, []) := rfl

theorem readUnit_noDigit (u : List Char) (notS : Bool) (c : Char) (r : List Char) (h : isDigit c = false) :
    readUnit u notS (c :: r) = (none, c :: r) := by
  simp [readUnit, spanDigits, h]

/-- a present component is consumed -/
theorem readUnit_take (u : List Char) (notS : Bool) (ds t : List Char) (c : Char) (u' : List Char)
    (hu : u = c :: u') (hc : isDigit c = false) (hne : ds ≠ []) (hd : allDigits ds = true)
    (hs : notS = true → t.head? ≠ some 's') :
    readUnit u notS (ds ++ u ++ t) = (some (natOfDigits ds), t) := by
  subst hu
  have e : spanDigits (ds ++ (c :: u') ++ t) = (ds, (c :: u') ++ t) := by
    rw [List.append_assoc]; exact spanDigits_append _ _ hd (noDigitHead_cons hc)
  unfold readUnit
  rw [e]
  have hemp : ds.isEmpty = false := by cases ds with | nil => exact absurd rfl hne | cons _ _ => rfl
  have hp : (c :: u').isPrefixOf ((c :: u') ++ t) = true :=
    List.isPrefixOf_iff_prefix.mpr (List.prefix_append _ _)
  simp only [hemp, Bool.false_eq_true, if_false, hp, if_true, List.drop_left]
  cases notS with
  | false => simp
  | true =>
    have := hs rfl
    simp [this]

/-- a component with a different unit is left alone -/
theorem readUnit_skip (u : List Char) (notS : Bool) (ds : List Char) (c : Char) (r : List Char)
    (hc : isDigit c = false) (hd : allDigits ds = true)
    (hdiff : u.isPrefixOf (c :: r) = false ∨ (notS = true ∧ ((c :: r).drop u.length).head? = some 's')) :
    readUnit u notS (ds ++ c :: r) = (none, ds ++ c :: r) := by
  have e : spanDigits (ds ++ c :: r) = (ds, c :: r) := spanDigits_append _ _ hd (noDigitHead_cons hc)
  unfold readUnit
  rw [e]
  simp only
  split
  · rfl
  · rcases hdiff with h | ⟨h1, h2⟩
    · simp [h]
    · subst h1
      split
      · simp [h2]
      · rfl

/-- result of `readUnit`: either nothing consumed, or a non-empty digit run followed by the unit -/
theorem readUnit_spec (u : List Char) (notS : Bool) (s : List Char) (c : Option Nat) (r : List Char)
    (h : readUnit u notS s = (c, r)) :
    ∃ C : Option (List Char), WFc C ∧ c = C.map natOfDigits ∧ s = rc u C ++ r := by
  unfold readUnit at h
  obtain ⟨a1, a2, _⟩ := spanDigits_spec s
  generalize spanDigits s = p at *
  obtain ⟨ds, r0⟩ := p
  simp only at h a1 a2
  split at h
  · cases h; exact ⟨none, WFc_none, rfl, rfl⟩
  · rename_i hemp
    split at h
    · rename_i hp
      split at h
      · cases h; exact ⟨none, WFc_none, rfl, rfl⟩
      · cases h
        refine ⟨some ds, ?_, rfl, ?_⟩
        · intro ds' e; cases e
          exact ⟨by intro e; subst e; simp at hemp, a2⟩
        · have := List.prefix_iff_eq_append.mp (List.isPrefixOf_iff_prefix.mp hp)
          simp only [rc, List.append_assoc]; rw [this]; exact a1
    · cases h; exact ⟨none, WFc_none, rfl, rfl⟩

/-! ### the five-stage chain -/

/-- `split` after the emptiness test and the sign -/
def splitRest (neg : Bool) (r : List Char) :
    Option (Bool × Option Nat × Option Nat × Option Nat × Option Nat × Option Nat) :=
  let (d, r) := readUnit ['d'] false r
  let (h, r) := readUnit ['h'] false r
  let (m, r) := readUnit ['m'] true r
  let (sec, r) := readUnit ['s'] false r
  let (ms, r) := readUnit ['m', 's'] false r
  if r.isEmpty then some (neg, d, h, m, sec, ms) else none

theorem split_dash (r : List Char) (h : r ≠ []) : split ('-' :: r) = splitRest true r := by
  cases r with
  | nil => exact absurd rfl h
  | cons c r => rfl

theorem split_noDash (s : List Char) (hne : s ≠ []) (h : ∀ r, s ≠ '-' :: r) : split s = splitRest false s := by
  unfold split
  have h1 : (s.isEmpty || s == ['-']) = false := by
    cases s with
    | nil => exact absurd rfl hne
    | cons c r =>
      simp only [List.isEmpty_cons, Bool.false_or]
      apply Bool.eq_false_iff.mpr
      intro e
      have : c :: r = ['-'] := by simpa using e
      exact h [] (by rw [this])
  rw [h1]
  simp only [Bool.false_eq_true, if_false]
  rfl

/-- skipping lemma lifted to an optional component followed by a tail -/
theorem readUnit_skip_rc (u : List Char) (notS : Bool) (c : Char) (u' : List Char) (C : Option (List Char))
    (t : List Char) (hC : WFc C) (hc : isDigit c = false)
    (hdiff : ∀ r, u.isPrefixOf (c :: (u' ++ r)) = false ∨
              (notS = true ∧ ((c :: (u' ++ r)).drop u.length).head? = some 's'))
    (ht : readUnit u notS t = (none, t)) :
    readUnit u notS (rc (c :: u') C ++ t) = (none, rc (c :: u') C ++ t) := by
  cases C with
  | none => simpa [rc] using ht
  | some ds =>
    have := readUnit_skip u notS ds c (u' ++ t) hc (hC ds rfl).2 (hdiff t)
    simpa [rc, List.append_assoc] using this

theorem readUnit_rc (u : List Char) (notS : Bool) (c : Char) (u' : List Char) (hu : u = c :: u')
    (C : Option (List Char)) (t : List Char) (hC : WFc C) (hc : isDigit c = false)
    (ht : readUnit u notS t = (none, t)) (hs : notS = true → t.head? ≠ some 's') :
    readUnit u notS (rc u C ++ t) = (C.map natOfDigits, t) := by
  cases C with
  | none => simpa [rc] using ht
  | some ds =>
    have := readUnit_take u notS ds t c u' hu hc (hC ds rfl).1 (hC ds rfl).2 hs
    simpa [rc] using this

theorem head_rc_ne_s (c : Char) (u' : List Char) (C : Option (List Char)) (t : List Char) (hC : WFc C)
    (ht : t.head? ≠ some 's') : (rc (c :: u') C ++ t).head? ≠ some 's' := by
  cases C with
  | none => simpa [rc] using ht
  | some ds =>
    obtain ⟨h1, h2⟩ := hC ds rfl
    cases ds with
    | nil => exact absurd rfl h1
    | cons a as =>
      simp only [allDigits_cons, Bool.and_eq_true] at h2
      simp only [rc, List.cons_append, List.head?_cons, ne_eq, Option.some.injEq]
      intro e; rw [e] at h2
      have : isDigit 's' = false := by decide
      simp [this] at h2

theorem nd_d : isDigit 'd' = false := by decide
theorem nd_h : isDigit 'h' = false := by decide
theorem nd_m : isDigit 'm' = false := by decide
theorem nd_s : isDigit 's' = false := by decide

theorem splitRest_render (neg : Bool) (D H M S MS : Option (List Char))
    (hD : WFc D) (hH : WFc H) (hM : WFc M) (hS : WFc S) (hMS : WFc MS) :
    splitRest neg (rc ['d'] D ++ (rc ['h'] H ++ (rc ['m'] M ++ (rc ['s'] S ++ (rc ['m', 's'] MS ++ []))))) =
      some (neg, D.map natOfDigits, H.map natOfDigits, M.map natOfDigits, S.map natOfDigits,
            MS.map natOfDigits) := by
  -- tails
  have t5 : ∀ u notS, readUnit u notS [] = (none, []) := fun u notS => readUnit_nil u notS
  -- stage d
  have sd : readUnit ['d'] false (rc ['h'] H ++ (rc ['m'] M ++ (rc ['s'] S ++ (rc ['m', 's'] MS ++ [])))) =
      (none, _) :=
    readUnit_skip_rc _ _ 'h' [] H _ hH nd_h (fun r => Or.inl (by simp [List.isPrefixOf]))
      (readUnit_skip_rc _ _ 'm' [] M _ hM nd_m (fun r => Or.inl (by simp [List.isPrefixOf]))
        (readUnit_skip_rc _ _ 's' [] S _ hS nd_s (fun r => Or.inl (by simp [List.isPrefixOf]))
          (readUnit_skip_rc _ _ 'm' ['s'] MS _ hMS nd_m (fun r => Or.inl (by simp [List.isPrefixOf])) (t5 _ _))))
  have sh : readUnit ['h'] false (rc ['m'] M ++ (rc ['s'] S ++ (rc ['m', 's'] MS ++ []))) = (none, _) :=
    readUnit_skip_rc _ _ 'm' [] M _ hM nd_m (fun r => Or.inl (by simp [List.isPrefixOf]))
      (readUnit_skip_rc _ _ 's' [] S _ hS nd_s (fun r => Or.inl (by simp [List.isPrefixOf]))
        (readUnit_skip_rc _ _ 'm' ['s'] MS _ hMS nd_m (fun r => Or.inl (by simp [List.isPrefixOf])) (t5 _ _)))
  have sm : readUnit ['m'] true (rc ['s'] S ++ (rc ['m', 's'] MS ++ [])) = (none, _) :=
    readUnit_skip_rc _ _ 's' [] S _ hS nd_s (fun r => Or.inl (by simp [List.isPrefixOf]))
      (readUnit_skip_rc _ _ 'm' ['s'] MS _ hMS nd_m (fun r => Or.inr ⟨rfl, by simp⟩) (t5 _ _))
  have ss : readUnit ['s'] false (rc ['m', 's'] MS ++ []) = (none, _) :=
    readUnit_skip_rc _ _ 'm' ['s'] MS _ hMS nd_m (fun r => Or.inl (by simp [List.isPrefixOf])) (t5 _ _)
  have hsm : (rc ['s'] S ++ (rc ['m', 's'] MS ++ [])).head? ≠ some 's' :=
    head_rc_ne_s 's' [] S _ hS (head_rc_ne_s 'm' ['s'] MS _ hMS (by simp))
  unfold splitRest
  rw [readUnit_rc ['d'] false 'd' [] rfl D _ hD nd_d sd (by intro h; cases h)]
  simp only
  rw [readUnit_rc ['h'] false 'h' [] rfl H _ hH nd_h sh (by intro h; cases h)]
  simp only
  rw [readUnit_rc ['m'] true 'm' [] rfl M _ hM nd_m sm (fun _ => hsm)]
  simp only
  rw [readUnit_rc ['s'] false 's' [] rfl S _ hS nd_s ss (by intro h; cases h)]
  simp only
  rw [readUnit_rc ['m', 's'] false 'm' ['s'] rfl MS _ hMS nd_m (t5 _ _) (by intro h; cases h)]
  simp

theorem splitRest_spec (neg neg' : Bool) (r : List Char) (d h m s ms : Option Nat)
    (hsp : splitRest neg r = some (neg', d, h, m, s, ms)) :
    neg' = neg ∧ ∃ D H M S MS : Option (List Char), WFc D ∧ WFc H ∧ WFc M ∧ WFc S ∧ WFc MS ∧
      r = rc ['d'] D ++ (rc ['h'] H ++ (rc ['m'] M ++ (rc ['s'] S ++ (rc ['m', 's'] MS ++ [])))) ∧
      d = D.map natOfDigits ∧ h = H.map natOfDigits ∧ m = M.map natOfDigits ∧ s = S.map natOfDigits ∧
      ms = MS.map natOfDigits := by
  unfold splitRest at hsp
  generalize e1 : readUnit ['d'] false r = p1 at hsp
  obtain ⟨d1, r1⟩ := p1
  simp only at hsp
  generalize e2 : readUnit ['h'] false r1 = p2 at hsp
  obtain ⟨d2, r2⟩ := p2
  simp only at hsp
  generalize e3 : readUnit ['m'] true r2 = p3 at hsp
  obtain ⟨d3, r3⟩ := p3
  simp only at hsp
  generalize e4 : readUnit ['s'] false r3 = p4 at hsp
  obtain ⟨d4, r4⟩ := p4
  simp only at hsp
  generalize e5 : readUnit ['m', 's'] false r4 = p5 at hsp
  obtain ⟨d5, r5⟩ := p5
  simp only at hsp
  split at hsp
  · rename_i hemp
    cases hsp
    have hr5 : r5 = [] := by simpa using hemp
    subst hr5
    obtain ⟨D, hD, rfl, rfl⟩ := readUnit_spec _ _ _ _ _ e1
    obtain ⟨H, hH, rfl, rfl⟩ := readUnit_spec _ _ _ _ _ e2
    obtain ⟨M, hM, rfl, rfl⟩ := readUnit_spec _ _ _ _ _ e3
    obtain ⟨S, hS, rfl, rfl⟩ := readUnit_spec _ _ _ _ _ e4
    obtain ⟨MS, hMS, rfl, rfl⟩ := readUnit_spec _ _ _ _ _ e5
    exact ⟨rfl, D, H, M, S, MS, hD, hH, hM, hS, hMS, rfl, rfl, rfl, rfl, rfl, rfl⟩
  · cases hsp


/-! ### `split` recognises exactly the declarative language -/

def HeadDigit (t : List Char) : Prop := ∃ c r, t = c :: r ∧ isDigit c = true

theorem rc_headDigit (u : List Char) (C : Option (List Char)) (t : List Char) (hC : WFc C)
    (h : C.isSome = true ∨ HeadDigit t) : HeadDigit (rc u C ++ t) := by
  cases C with
  | none =>
    rcases h with h | h
    · cases h
    · simpa [rc] using h
  | some ds =>
    obtain ⟨h1, h2⟩ := hC ds rfl
    cases ds with
    | nil => exact absurd rfl h1
    | cons a as =>
      simp only [allDigits_cons, Bool.and_eq_true] at h2
      exact ⟨a, as ++ u ++ t, by simp [rc], h2.1⟩

theorem body_headDigit (D H M S MS : Option (List Char)) (hwf : WF D H M S MS) :
    HeadDigit (rc ['d'] D ++ (rc ['h'] H ++ (rc ['m'] M ++ (rc ['s'] S ++ (rc ['m', 's'] MS ++ []))))) := by
  obtain ⟨hD, hH, hM, hS, hMS, hsome⟩ := hwf
  simp only [Bool.or_eq_true] at hsome
  by_cases h5 : MS.isSome = true
  · exact rc_headDigit _ _ _ hD (Or.inr (rc_headDigit _ _ _ hH (Or.inr (rc_headDigit _ _ _ hM (Or.inr
      (rc_headDigit _ _ _ hS (Or.inr (rc_headDigit _ _ _ hMS (Or.inl h5)))))))))
  by_cases h4 : S.isSome = true
  · exact rc_headDigit _ _ _ hD (Or.inr (rc_headDigit _ _ _ hH (Or.inr (rc_headDigit _ _ _ hM (Or.inr
      (rc_headDigit _ _ _ hS (Or.inl h4)))))))
  by_cases h3 : M.isSome = true
  · exact rc_headDigit _ _ _ hD (Or.inr (rc_headDigit _ _ _ hH (Or.inr (rc_headDigit _ _ _ hM (Or.inl h3)))))
  by_cases h2 : H.isSome = true
  · exact rc_headDigit _ _ _ hD (Or.inr (rc_headDigit _ _ _ hH (Or.inl h2)))
  by_cases h1 : D.isSome = true
  · exact rc_headDigit _ _ _ hD (Or.inl h1)
  · exfalso; simp [h1, h2, h3, h4, h5] at hsome

theorem split_nil : split [] = none := rfl
theorem split_onlyDash : split ['-'] = none := rfl

/-- `split` succeeds exactly on the renderings of well-formed literals, and returns their components -/
theorem split_iff (s : List Char) (neg : Bool) (d h m sec ms : Option Nat) :
    split s = some (neg, d, h, m, sec, ms) ↔
      ∃ D H M S MS : Option (List Char), s = render neg D H M S MS ∧ WF D H M S MS ∧
        d = D.map natOfDigits ∧ h = H.map natOfDigits ∧ m = M.map natOfDigits ∧ sec = S.map natOfDigits ∧
        ms = MS.map natOfDigits := by
  constructor
  · intro hsp
    have hne : s ≠ [] := by intro e; subst e; rw [split_nil] at hsp; cases hsp
    have hnd : s ≠ ['-'] := by intro e; subst e; rw [split_onlyDash] at hsp; cases hsp
    have key : ∀ (neg0 : Bool) (r : List Char), r ≠ [] → splitRest neg0 r = some (neg, d, h, m, sec, ms) →
        s = (if neg0 then ['-'] else []) ++ r →
        ∃ D H M S MS : Option (List Char), s = render neg D H M S MS ∧ WF D H M S MS ∧
          d = D.map natOfDigits ∧ h = H.map natOfDigits ∧ m = M.map natOfDigits ∧ sec = S.map natOfDigits ∧
          ms = MS.map natOfDigits := by
      intro neg0 r hr h0 hs
      obtain ⟨rfl, D, H, M, S, MS, hD, hH, hM, hS, hMS, hr', e1, e2, e3, e4, e5⟩ := splitRest_spec _ _ _ _ _ _ _ _ h0
      refine ⟨D, H, M, S, MS, by rw [hs, hr']; rfl, ⟨hD, hH, hM, hS, hMS, ?_⟩, e1, e2, e3, e4, e5⟩
      cases D with
      | some _ => rfl
      | none => cases H with
        | some _ => rfl
        | none => cases M with
          | some _ => rfl
          | none => cases S with
            | some _ => rfl
            | none => cases MS with
              | some _ => rfl
              | none => exact absurd hr' hr
    by_cases hs : ∃ r, s = '-' :: r
    · obtain ⟨r, rfl⟩ := hs
      have hr : r ≠ [] := by intro e; subst e; exact hnd rfl
      rw [split_dash r hr] at hsp
      exact key true r hr hsp rfl
    · have hs' : ∀ r, s ≠ '-' :: r := fun r e => hs ⟨r, e⟩
      rw [split_noDash s hne hs'] at hsp
      exact key false s hne hsp rfl
  · rintro ⟨D, H, M, S, MS, rfl, hwf, rfl, rfl, rfl, rfl, rfl⟩
    obtain ⟨c, r, hb, hc⟩ := body_headDigit D H M S MS hwf
    obtain ⟨hD, hH, hM, hS, hMS, _⟩ := hwf
    have hsr := splitRest_render neg D H M S MS hD hH hM hS hMS
    cases neg with
    | true =>
      simp only [render, if_true, List.cons_append, List.nil_append]
      rw [split_dash _ (by rw [hb]; simp)]
      exact hsr
    | false =>
      simp only [render, Bool.false_eq_true, if_false, List.nil_append]
      rw [split_noDash _ (by rw [hb]; simp)]
      · exact hsr
      · intro r' e
        rw [hb] at e
        simp only [List.cons.injEq] at e
        rw [e.1] at hc
        revert hc; decide

/-! ### exactness of the checked accumulation -/

def vo (o : Option Nat) : Nat := o.getD 0

theorem checkedI64_eq_some (x y : Int) :
    checkedI64 x = some y ↔ (-9223372036854775808 ≤ x ∧ x ≤ 9223372036854775807) ∧ x = y := by
  unfold checkedI64
  cases h : inI64 x
  · rw [inI64_false_iff] at h; simp [h]
  · rw [inI64_iff] at h; simp [h]

theorem getNumber_eq_some (o : Option Nat) (n : Nat) :
    getNumber o = some n ↔ vo o ≤ 18446744073709551615 ∧ vo o = n := by
  cases o with
  | none => simp [getNumber, vo]
  | some k =>
    have hu : u64Max = 18446744073709551615 := rfl
    simp only [getNumber, vo, Option.getD_some]
    by_cases hk : k ≤ u64Max
    · rw [if_pos hk]; rw [hu] at hk; simp [hk]
    · rw [if_neg hk]; rw [hu] at hk; simp [hk]

theorem checkedOp_eq_some (neg : Bool) (x : Int) (y : Nat) (mul v : Int) :
    checkedOp neg x y mul = some v ↔
      (-9223372036854775808 ≤ (y : Int) ∧ (y : Int) ≤ 9223372036854775807) ∧
      (-9223372036854775808 ≤ (y : Int) * mul ∧ (y : Int) * mul ≤ 9223372036854775807) ∧
      (-9223372036854775808 ≤ v ∧ v ≤ 9223372036854775807) ∧
      v = (if neg then x - (y : Int) * mul else x + (y : Int) * mul) := by
  simp only [checkedOp, Option.bind_eq_bind, Option.bind_eq_some_iff, checkedI64_eq_some]
  cases neg <;> simp only [Bool.false_eq_true, if_false, if_true, checkedI64_eq_some]
  all_goals
    constructor
    · rintro ⟨a, ⟨h1, rfl⟩, b, ⟨h2, rfl⟩, h3, rfl⟩
      exact ⟨h1, h2, h3, rfl⟩
    · rintro ⟨h1, h2, h3, rfl⟩
      exact ⟨_, ⟨h1, rfl⟩, _, ⟨h2, rfl⟩, h3, rfl⟩

theorem arith_eq_some (neg : Bool) (d h m s ms : Option Nat) (v : Int) :
    arith neg d h m s ms = some v ↔
      v = exact neg (vo d) (vo h) (vo m) (vo s) (vo ms) ∧
      (-9223372036854775808 ≤ v ∧ v ≤ 9223372036854775807) := by
  simp only [arith, Option.bind_eq_bind, Option.bind_eq_some_iff, getNumber_eq_some, checkedOp_eq_some,
    checkedI64_eq_some, exact]
  generalize vo d = D
  generalize vo h = H
  generalize vo m = M
  generalize vo s = S
  generalize vo ms = MS
  cases neg <;> simp only [Bool.false_eq_true, if_false, if_true]
  all_goals
    constructor
    · rintro ⟨_, ⟨_, rfl⟩, _, ⟨_, rfl⟩, _, ⟨_, rfl⟩, _, ⟨_, rfl⟩, _, ⟨_, rfl⟩, _, ⟨_, rfl⟩, _, ⟨_, _, _, rfl⟩,
        _, ⟨_, _, _, rfl⟩, _, ⟨_, _, _, rfl⟩, _, _, h, rfl⟩
      omega
    · rintro ⟨rfl, h⟩
      refine ⟨_, ⟨?_, rfl⟩, _, ⟨?_, rfl⟩, _, ⟨?_, rfl⟩, _, ⟨?_, rfl⟩, _, ⟨?_, rfl⟩, _, ⟨?_, rfl⟩, _, ⟨?_, ?_, ?_, rfl⟩,
        _, ⟨?_, ?_, ?_, rfl⟩, _, ⟨?_, ?_, ?_, rfl⟩, ?_, ?_, ?_, ?_⟩ <;> omega
end Cedar.Ext.Duration
