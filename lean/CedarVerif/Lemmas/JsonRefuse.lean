import CedarVerif.Lemmas.JsonBasic
/-
C10: serialisation (`from_value`) fails exactly when some record inside the value has a reserved key, and then
with `ReservedKey`.
-/
namespace Cedar
namespace CJson

theorem canon_leaf_ok (x : Ext) : ∃ c, fromValueWith canonRepr (.ext x) = .ok c := by
  cases x <;> simp [fromValueWith, canonRepr, fromExprList, fromExpr, litS, bind, Except.bind, CJ.ofPrim]

mutual
theorem refuse_value : ∀ (v : Value),
    (hasReserved v = true → fromValueWith canonRepr v = .error .reserved) ∧
    (hasReserved v = false → ∃ c, fromValueWith canonRepr v = .ok c)
  | .prim p => by simp [hasReserved, fromValueWith]
  | .ext x => by
    refine ⟨by simp [hasReserved], fun _ => canon_leaf_ok x⟩
  | .set vs => by
    obtain ⟨h1, h2⟩ := refuse_list vs
    constructor
    · intro h
      simp only [hasReserved] at h
      simp [fromValueWith, h1 h, bind, Except.bind]
    · intro h
      simp only [hasReserved] at h
      obtain ⟨cs, hcs⟩ := h2 h
      exact ⟨.set cs, by simp [fromValueWith, hcs, bind, Except.bind]⟩
  | .record kvs => by
    obtain ⟨h1, h2⟩ := refuse_kvs kvs
    constructor
    · intro h
      simp only [hasReserved, Bool.or_eq_true] at h
      simp only [fromValueWith]
      split
      · rfl
      · rename_i hk
        rcases h with h | h
        · exact absurd h hk
        · simp [h1 h, bind, Except.bind]
    · intro h
      simp only [hasReserved, Bool.or_eq_false_iff] at h
      obtain ⟨cs, hcs⟩ := h2 h.2
      exact ⟨.record cs, by simp [fromValueWith, h.1, hcs, bind, Except.bind]⟩
theorem refuse_list : ∀ (vs : List Value),
    (hasReservedList vs = true → fromValueListWith canonRepr vs = .error .reserved) ∧
    (hasReservedList vs = false → ∃ cs, fromValueListWith canonRepr vs = .ok cs)
  | [] => by simp [hasReservedList, fromValueListWith]
  | v :: vs => by
    obtain ⟨a1, a2⟩ := refuse_value v
    obtain ⟨b1, b2⟩ := refuse_list vs
    constructor
    · intro h
      simp only [hasReservedList, Bool.or_eq_true] at h
      cases hv : hasReserved v with
      | true => simp [fromValueListWith, a1 hv, bind, Except.bind]
      | false =>
        obtain ⟨c, hc⟩ := a2 hv
        rcases h with h | h
        · rw [hv] at h; cases h
        · simp [fromValueListWith, hc, b1 h, bind, Except.bind]
    · intro h
      simp only [hasReservedList, Bool.or_eq_false_iff] at h
      obtain ⟨c, hc⟩ := a2 h.1
      obtain ⟨cs, hcs⟩ := b2 h.2
      exact ⟨c :: cs, by simp [fromValueListWith, hc, hcs, bind, Except.bind]⟩
theorem refuse_kvs : ∀ (kvs : List (String × Value)),
    (hasReservedKVs kvs = true → fromValueKVsWith canonRepr kvs = .error .reserved) ∧
    (hasReservedKVs kvs = false → ∃ cs, fromValueKVsWith canonRepr kvs = .ok cs)
  | [] => by simp [hasReservedKVs, fromValueKVsWith]
  | (k, v) :: kvs => by
    obtain ⟨a1, a2⟩ := refuse_value v
    obtain ⟨b1, b2⟩ := refuse_kvs kvs
    constructor
    · intro h
      simp only [hasReservedKVs, Bool.or_eq_true] at h
      cases hv : hasReserved v with
      | true => simp [fromValueKVsWith, a1 hv, bind, Except.bind]
      | false =>
        obtain ⟨c, hc⟩ := a2 hv
        rcases h with h | h
        · rw [hv] at h; cases h
        · simp [fromValueKVsWith, hc, b1 h, bind, Except.bind]
    · intro h
      simp only [hasReservedKVs, Bool.or_eq_false_iff] at h
      obtain ⟨c, hc⟩ := a2 h.1
      obtain ⟨cs, hcs⟩ := b2 h.2
      exact ⟨(k, c) :: cs, by simp [fromValueKVsWith, hc, hcs, bind, Except.bind]⟩
end

end CJson
end Cedar
