import CedarVerif.Lemmas.JsonIpV6Hex
import CedarVerif.Lemmas.JsonIpV6Run
/-
C10 / C07, IPv6 literals: `Display` of an IPv6 `IPAddr` (`renderIp true`: lower-case hex groups without leading
zeros, `::` for the first longest run of at least two zero groups, `/prefix`) parses back through `IPAddr.parse`
to the same value — for every address that is not IPv4-mapped (`parse_renderIp_v6`).  For IPv4-mapped addresses
(`::ffff:a.b.c.d`) `Display` prints the dotted form, which Cedar's `ip()` refuses (`parse_renderIp_v6_mapped`).
-/
namespace Cedar
namespace CJson
open Ext Ext.IPAddr

/-- the condition under which `Display for Ipv6Addr` prints the dotted IPv4-mapped form (exactly the test of
    `renderV6`) -/
def isV4Mapped (a : Nat) : Bool :=
  (v6Segments a).take 5 == [0, 0, 0, 0, 0] && ((v6Segments a).drop 5).head? == some 65535

/-- the text `::ffff:` -/
def v6_mappedPrefix : List Char := "::ffff:".toList

theorem v6_renderV6_mapped (a : Nat) (hm : isV4Mapped a = true) :
    renderV6 a = v6_mappedPrefix ++ renderV4 (a % 4294967296) := by
  unfold isV4Mapped at hm
  simp only [renderV6, hm, if_true]
  rfl

theorem v6_renderV6_unmapped (a s l : Nat) (hm : isV4Mapped a = false) (hz : zeroRun (v6Segments a) = (s, l)) :
    renderV6 a =
      if l > 1 then
        joinWith ':' (((v6Segments a).take s).map hexDigits) ++
          ':' :: ':' :: joinWith ':' (((v6Segments a).drop (s + l)).map hexDigits)
      else joinWith ':' ((v6Segments a).map hexDigits) := by
  unfold isV4Mapped at hm
  simp only [renderV6, hm, hz, Bool.false_eq_true, if_false]
  split
  · simp only [List.append_assoc, List.cons_append, List.nil_append]
  · rfl

/-! ### `readV4` does not accept a text without '.' -/

theorem v6_readOctet_rest (s : List Char) (a : Nat) (r : List Char) (h : readOctet s = some (a, r)) :
    ∃ ds, s = ds ++ r := by
  have hsp := spanDigits_spec s
  cases hsd : spanDigits s with
  | mk ds rest =>
    rw [hsd] at hsp
    simp only [readOctet, hsd] at h
    split at h
    · cases h
    · split at h
      · cases h
      · split at h
        · cases h
        · simp only [Option.some.injEq, Prod.mk.injEq] at h
          exact ⟨ds, by rw [← h.2]; exact hsp.1⟩

theorem v6_readV4_none (s : List Char) (h : '.' ∉ s) : readV4 s = none := by
  cases ho : readOctet s with
  | none => exact readV4_none_of_first s ho
  | some p =>
    obtain ⟨a, r⟩ := p
    obtain ⟨ds, e⟩ := v6_readOctet_rest s a r ho
    have hr : '.' ∉ r := by
      intro hc; apply h; rw [e]; exact List.mem_append_right _ hc
    cases r with
    | nil => simp [readV4, ho, bind, Option.bind]
    | cons c r' =>
      have hc : c ≠ '.' := by
        intro e'; subst e'; exact hr (List.mem_cons_self ..)
      simp only [readV4, ho, bind, Option.bind]
      split
      · rename_i heq
        simp only [List.cons.injEq] at heq
        exact absurd heq.1 hc
      · rfl

/-! ### `readV6` on canonical group lists -/

/-- eight groups, no compression -/
theorem v6_readV6_full (gs : List Nat) (hlen : gs.length = 8) (hg : ∀ g, g ∈ gs → g < 65536) :
    readV6 (joinWith ':' (gs.map hexDigits)) = some (groupsToNat gs, []) := by
  have h := readGroups_joinWith gs 8 [] (by omega) hg (Or.inl rfl)
  rw [List.append_nil] at h
  simp only [readV6, h, hlen, if_true]

/-- `head::tail` with at least one group compressed away -/
theorem v6_readV6_compressed (hd tl : List Nat) (l : Nat) (hlen : hd.length + l + tl.length = 8) (hl : 1 ≤ l)
    (hgh : ∀ g, g ∈ hd → g < 65536) (hgt : ∀ g, g ∈ tl → g < 65536) :
    readV6 (joinWith ':' (hd.map hexDigits) ++ ':' :: ':' :: joinWith ':' (tl.map hexDigits)) =
      some (groupsToNat (hd ++ (List.replicate l 0 ++ tl)), []) := by
  have h1 := readGroups_joinWith hd 8 (':' :: ':' :: joinWith ':' (tl.map hexDigits)) (by omega) hgh
    (Or.inr (Or.inr ⟨_, rfl⟩))
  have h2 := readGroups_joinWith tl (8 - (hd.length + 1)) [] (by omega) hgt (Or.inl rfl)
  rw [List.append_nil] at h2
  have hne : ¬ hd.length = 8 := by omega
  have hz : 8 - hd.length - tl.length = l := by omega
  simp only [readV6, h1, hne, if_false, h2, hz, List.append_assoc]

example : readV6 "1::".toList = some (2 ^ 112, []) := by decide +kernel

/-! ### the canonical text of an address that is not IPv4-mapped -/

theorem v6_take_lt (a s g : Nat) (h : g ∈ (v6Segments a).take s) : g < 65536 :=
  v6Segments_lt a g (List.mem_of_mem_take h)
theorem v6_drop_lt (a s g : Nat) (h : g ∈ (v6Segments a).drop s) : g < 65536 :=
  v6Segments_lt a g (List.mem_of_mem_drop h)

/-- characters, length and `readV6` of the canonical text -/
theorem v6_renderV6_facts (a : Nat) (ha : a < 2 ^ 128) (hm : isV4Mapped a = false) :
    (∀ c, c ∈ renderV6 a → v6_hexOut c ∨ c = ':') ∧ (renderV6 a).length ≤ 39 ∧
      readV6 (renderV6 a) = some (a, []) := by
  cases hz : zeroRun (v6Segments a) with
  | mk s l =>
    have hspec := zeroRun_spec (v6Segments a)
    rw [hz] at hspec
    simp only [v6Segments_length] at hspec
    obtain ⟨hle, hsplit⟩ := hspec
    rw [v6_renderV6_unmapped a s l hm hz]
    by_cases hl : l > 1
    · simp only [hl, if_true]
      have hlt1 := v6_take_lt a s
      have hlt2 := v6_drop_lt a (s + l)
      have hlen1 : ((v6Segments a).take s).length = s := by
        rw [List.length_take, v6Segments_length]; omega
      have hlen2 : ((v6Segments a).drop (s + l)).length = 8 - (s + l) := by
        rw [List.length_drop, v6Segments_length]
      refine ⟨?_, ?_, ?_⟩
      · intro c hc
        simp only [List.mem_append, List.mem_cons] at hc
        rcases hc with h | rfl | rfl | h
        · exact v6_joinWith_chars _ c h
        · exact Or.inr rfl
        · exact Or.inr rfl
        · exact v6_joinWith_chars _ c h
      · have l1 := v6_joinWith_length _ hlt1
        have l2 := v6_joinWith_length _ hlt2
        rw [hlen1] at l1
        rw [hlen2] at l2
        simp only [List.length_append, List.length_cons]
        split at l1 <;> split at l2 <;> omega
      · rw [v6_readV6_compressed _ _ l (by rw [hlen1, hlen2]; omega) (by omega) hlt1 hlt2, ← hsplit,
          groupsToNat_v6Segments a ha]
    · simp only [hl, if_false]
      refine ⟨fun c hc => v6_joinWith_chars _ c hc, ?_, ?_⟩
      · have l1 := v6_joinWith_length _ (v6Segments_lt a)
        have hne : v6Segments a ≠ [] := by simp [v6Segments]
        rw [v6Segments_length] at l1
        simp only [hne, if_false] at l1
        omega
      · rw [v6_readV6_full _ (v6Segments_length a) (v6Segments_lt a), groupsToNat_v6Segments a ha]

theorem v6_parseAddr_renderV6 (a : Nat) (ha : a < 2 ^ 128) (hm : isV4Mapped a = false) :
    parseAddr (renderV6 a) = some (true, a) := by
  obtain ⟨hch, _, hrd⟩ := v6_renderV6_facts a ha hm
  have hdot : '.' ∉ renderV6 a := by
    intro h
    rcases hch _ h with h' | h'
    · exact v6_hexOut_ne_dot h' rfl
    · revert h'; decide
  simp only [parseAddr, v6_readV4_none _ hdot, hrd]

/-- **IPv6 round trip**: the canonical text of an IPv6 address with prefix (`Display for IPAddr`) parses back to the
    same value, for every address that is not IPv4-mapped -/
theorem parse_renderIp_v6 (a p : Nat) (ha : a < 2 ^ 128) (hp : p ≤ 128) (hm : isV4Mapped a = false) :
    IPAddr.parse (String.ofList (renderIp true a p)) = some (.ipaddr true a p) := by
  obtain ⟨hch, hlen, _⟩ := v6_renderV6_facts a ha hm
  obtain ⟨_, hdig, _⟩ := decDigits_spec p
  have hplen : (decDigits p).length ≤ 3 := decDigits_length_le p 3 (by decide) (by omega)
  have hslash : '/' ∉ renderV6 a := by
    intro h
    rcases hch _ h with h' | h'
    · exact v6_hexOut_ne_slash h' rfl
    · revert h'; decide
  -- every character of the text is ASCII and none is '.'
  have hall : ∀ c, c ∈ renderV6 a ++ '/' :: decDigits p → c.toNat < 128 ∧ c ≠ '.' := by
    intro c hc
    simp only [List.mem_append, List.mem_cons] at hc
    rcases hc with h | rfl | h
    · rcases hch c h with h' | rfl
      · exact ⟨v6_hexOut_ascii h', v6_hexOut_ne_dot h'⟩
      · exact ⟨by decide, by decide⟩
    · exact ⟨by decide, by decide⟩
    · have hd := hdig c h
      exact ⟨digit_ascii hd, by intro e; subst e; revert hd; decide⟩
  have hbl : byteLen (renderV6 a ++ '/' :: decDigits p) ≤ 43 := by
    rw [byteLen_ascii _ (fun c hc => (hall c hc).1)]
    simp only [List.length_append, List.length_cons]
    omega
  have hcd : containsColonsAndDots (renderV6 a ++ '/' :: decDigits p) = false := by
    have : countChar '.' (renderV6 a ++ '/' :: decDigits p) = 0 :=
      countChar_zero _ _ (fun h => (hall _ h).2 rfl)
    simp [containsColonsAndDots, this]
  have := parse_addr_prefix (renderV6 a) (decDigits p) true a p hbl hcd hslash (v6_parseAddr_renderV6 a ha hm)
    (by simp only [if_true]; exact parsePrefix_decDigits p 128 3 hp (by decide) (by decide) (by decide))
  simpa only [renderIp, if_true] using this

/-! ### IPv4-mapped addresses: the canonical text is refused -/

theorem v6_countChar_append (c : Char) (x y : List Char) : countChar c (x ++ y) = countChar c x + countChar c y := by
  simp [countChar, List.filter_append]

theorem v6_countChar_cons_self (c : Char) (x : List Char) : countChar c (c :: x) = countChar c x + 1 := by
  simp [countChar]

/-- **recorded observation**: `Display` prints an IPv4-mapped IPv6 address as `::ffff:a.b.c.d`, and `ip()` refuses
    that text (at least two ':' and at least two '.'), whatever the prefix -/
theorem parse_renderIp_v6_mapped (a p : Nat) (hm : isV4Mapped a = true) :
    IPAddr.parse (String.ofList (renderIp true a p)) = none := by
  apply parse_colonsAndDots
  · simp only [String.toList_ofList, renderIp, if_true, v6_renderV6_mapped a hm, v6_countChar_append]
    have : countChar ':' v6_mappedPrefix = 3 := by decide +kernel
    omega
  · simp only [String.toList_ofList, renderIp, if_true, v6_renderV6_mapped a hm, renderV4, joinWith,
      v6_countChar_append, v6_countChar_cons_self]
    omega

/-! ### instances (non-vacuity) -/

example : IPAddr.parse "::1/128" = some (.ipaddr true 1 128) := by
  have h := parse_renderIp_v6 1 128 (by decide) (by decide) (by decide +kernel)
  have e : String.ofList (renderIp true 1 128) = "::1/128" := by decide +kernel
  rwa [e] at h

example : IPAddr.parse "ff00::/8" = some (.ipaddr true (255 * 2 ^ 120) 8) := by
  have h := parse_renderIp_v6 (255 * 2 ^ 120) 8 (by decide) (by decide) (by decide +kernel)
  have e : String.ofList (renderIp true (255 * 2 ^ 120) 8) = "ff00::/8" := by decide +kernel
  rwa [e] at h

example : IPAddr.parse "1:2:3:4:5:6:7:8/64" = some (.ipaddr true 0x00010002000300040005000600070008 64) := by
  have h := parse_renderIp_v6 0x00010002000300040005000600070008 64 (by decide) (by decide) (by decide +kernel)
  have e : String.ofList (renderIp true 0x00010002000300040005000600070008 64) = "1:2:3:4:5:6:7:8/64" := by
    decide +kernel
  rwa [e] at h

example : IPAddr.parse "1::/16" = some (.ipaddr true (2 ^ 112) 16) := by
  have h := parse_renderIp_v6 (2 ^ 112) 16 (by decide) (by decide) (by decide +kernel)
  have e : String.ofList (renderIp true (2 ^ 112) 16) = "1::/16" := by decide +kernel
  rwa [e] at h

example : IPAddr.parse "::/0" = some (.ipaddr true 0 0) := by
  have h := parse_renderIp_v6 0 0 (by decide) (by decide) (by decide +kernel)
  have e : String.ofList (renderIp true 0 0) = "::/0" := by decide +kernel
  rwa [e] at h

-- a single zero group is not compressed; the first of two equally long runs is
example : String.ofList (renderIp true 0x20010db8000000010000000000000001 128) = "2001:db8:0:1::1/128" := by
  decide +kernel
example : IPAddr.parse "1::2:0:0:3:4/128" = some (.ipaddr true 0x00010000000000020000000000030004 128) := by
  have h := parse_renderIp_v6 0x00010000000000020000000000030004 128 (by decide) (by decide) (by decide +kernel)
  have e : String.ofList (renderIp true 0x00010000000000020000000000030004 128) = "1::2:0:0:3:4/128" := by
    decide +kernel
  rwa [e] at h

-- the refused class
example : isV4Mapped 0xffff01020304 = true := by decide +kernel
example : IPAddr.parse "::ffff:1.2.3.4/128" = none := by
  have h := parse_renderIp_v6_mapped 0xffff01020304 128 (by decide +kernel)
  have e : String.ofList (renderIp true 0xffff01020304 128) = "::ffff:1.2.3.4/128" := by decide +kernel
  rwa [e] at h

end CJson
end Cedar
