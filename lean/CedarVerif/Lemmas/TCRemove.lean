import CedarVerif.Lemmas.TCOps
/-
Lemmas for C04, part 4: `remove_entities` for arbitrary uid lists.
The uids are processed one after the other and the intermediate stores are *not* closed. `RInv` relates
the intermediate store to the original one (which satisfies `StoreInv`) and is preserved by every single
removal; at the end it yields exactly what `repair_tc` needs (`repair_establishes`).
Key clauses: `d` (if a node lost an original ancestor `v`, it lost every indirect ancestor above `v`) and
`e` (an indirect ancestor kept by `x` above a kept ancestor `w` is kept by `w` too).
-/
namespace Cedar.TC
set_option linter.unusedSectionVars false

variable {α : Type} [DecidableEq α]

def stripNode (u : α) (r : Node α) (n : Node α) : Node α := if u ∈ n.out then stripRemoved u r n else n

theorem mem_out {n : Node α} {y : α} : y ∈ n.out ↔ y ∈ n.parents ∨ y ∈ n.indirect := by
  unfold Node.out; exact List.mem_append

theorem mem_strip_parents (u : α) (r n : Node α) (y : α) :
    y ∈ (stripNode u r n).parents ↔ y ∈ n.parents ∧ y ≠ u := by
  unfold stripNode
  by_cases hu : u ∈ n.out
  · simp [hu, stripRemoved, List.mem_filter]
  · simp only [hu, if_false]
    constructor
    · intro h; exact ⟨h, fun e => hu (mem_out.mpr (Or.inl (e ▸ h)))⟩
    · intro h; exact h.1

theorem mem_strip_indirect (u : α) (r n : Node α) (y : α) :
    y ∈ (stripNode u r n).indirect ↔ y ∈ n.indirect ∧ y ≠ u ∧ (u ∈ n.out → y ∉ r.out) := by
  unfold stripNode
  by_cases hu : u ∈ n.out
  · simp [hu, stripRemoved, List.mem_filter]
  · simp only [hu, if_false]
    constructor
    · intro h; exact ⟨h, fun e => hu (mem_out.mpr (Or.inr (e ▸ h))), fun h' => h'.elim⟩
    · intro h; exact h.1

theorem strip_tag (u : α) (r n : Node α) : (stripNode u r n).tag = n.tag := by
  unfold stripNode; split <;> rfl

theorem get_map_node (s : Store α) (g : α × Node α → α × Node α) (f : Node α → Node α)
    (hg : ∀ kn, g kn = (kn.1, f kn.2)) (x : α) : get (s.map g) x = (get s x).map f := by
  induction s with
  | nil => rfl
  | cons kv rest ih =>
    obtain ⟨k, v⟩ := kv
    by_cases hk : k = x
    · simp [get, hg, hk]
    · simp only [List.map_cons, hg, get, hk, if_false]
      rw [← ih]

theorem get_erase (s : Store α) (u x : α) : get (erase s u) x = if x = u then none else get s x := by
  induction s with
  | nil => simp [erase, get]
  | cons kv rest ih =>
    obtain ⟨k, v⟩ := kv
    unfold erase at ih ⊢
    by_cases hku : k = u
    · subst hku
      simp only [List.filter_cons, ne_eq, not_true_eq_false, decide_false, Bool.false_eq_true, if_false]
      rw [ih]
      by_cases hx : x = k
      · simp [hx]
      · have : ¬ k = x := fun e => hx e.symm
        simp [get, hx, this]
    · simp only [List.filter_cons, ne_eq, hku, not_false_eq_true, decide_true, if_true]
      by_cases hkx : k = x
      · have : ¬ x = u := fun e => hku (hkx.trans e)
        simp [get, hkx, this]
      · simp only [get, hkx, if_false]
        exact ih

theorem removeOne_none {s : Store α} {t : List α} {u : α} (h : get s u = none) : removeOne (s, t) u = (s, t) := by
  simp [removeOne, h]

theorem get_removeOne {s : Store α} {t : List α} {u : α} {r : Node α} (h : get s u = some r) (x : α) :
    get (removeOne (s, t) u).1 x = if x = u then none else (get s x).map (stripNode u r) := by
  simp only [removeOne, h]
  rw [get_map_node (erase s u) _ (stripNode u r), get_erase]
  · split <;> simp
  · intro kn
    unfold stripNode
    split <;> rfl

theorem fold_touch_sub (u : α) (s1 : Store α) : ∀ (t : List α) a, a ∈ t →
    a ∈ s1.foldl (fun t kn => if u ∈ kn.2.out then tinsert kn.1 t else t) t := by
  induction s1 with
  | nil => intro t a h; exact h
  | cons kn s ih =>
    intro t a h
    simp only [List.foldl_cons]
    apply ih
    split
    · exact tinsert_sub _ _ _ h
    · exact h

theorem fold_touch_untouched (u : α) (s1 : Store α) : ∀ (t : List α) x,
    x ∉ s1.foldl (fun t kn => if u ∈ kn.2.out then tinsert kn.1 t else t) t →
    x ∉ t ∧ ∀ n, (x, n) ∈ s1 → u ∉ n.out := by
  induction s1 with
  | nil => intro t x h; exact ⟨h, fun n hn => (by cases hn)⟩
  | cons kn s ih =>
    intro t x h
    simp only [List.foldl_cons] at h
    obtain ⟨h1, h2⟩ := ih _ x h
    constructor
    · intro hx; apply h1; split
      · exact tinsert_sub _ _ _ hx
      · exact hx
    · intro n hn hu
      simp only [List.mem_cons] at hn
      rcases hn with rfl | hn
      · apply h1; simp only [hu, if_true]; exact tinsert_self _ _
      · exact h2 n hn hu

theorem removeOne_untouched {s : Store α} {t : List α} {u : α} {r : Node α} (h : get s u = some r) (x : α)
    (hx : x ∉ (removeOne (s, t) u).2) : x ∉ t ∧ ∀ n, get s x = some n → x ≠ u → u ∉ n.out := by
  simp only [removeOne, h] at hx
  obtain ⟨h1, h2⟩ := fold_touch_untouched u (erase s u) t x hx
  refine ⟨h1, fun n hn hxu => h2 n (get_some_mem ?_)⟩
  rw [get_erase]; simp [hxu, hn]

/-- relation between the original store `s0` (satisfying `StoreInv`), the uids `R` removed so far, and
    the intermediate state `(s, t)` of `remove_entities` -/
structure RInv (s0 : Store α) (R : List α) (s : Store α) (t : List α) : Prop where
  k1 : ∀ x, x ∈ R → get s x = none
  k2 : ∀ x n0, get s0 x = some n0 → x ∉ R → ∃ n, get s x = some n
  a : ∀ x n, get s x = some n → ∃ n0, get s0 x = some n0 ∧
        (∀ y, y ∈ n.parents ↔ y ∈ n0.parents ∧ y ∉ R) ∧ (∀ y, y ∈ n.indirect → y ∈ n0.indirect ∧ y ∉ R)
  d : ∀ x n n0, get s x = some n → get s0 x = some n0 → ∀ v, v ∈ n0.out → v ∉ n.out →
        ∀ y, Reach (shape s0) v y → y ∉ n.indirect
  e : ∀ x n w nw, get s x = some n → get s w = some nw → w ∈ n.out →
        ∀ y, y ∈ n.indirect → Reach (shape s0) w y → y ∈ nw.out
  i2 : ∀ x n, get s x = some n → x ∉ t → get s0 x = some n ∧ ∀ y, y ∈ n.out → y ∉ R

theorem RInv.init (s0 : Store α) (h0 : StoreInv s0) : RInv s0 [] s0 [] := by
  refine ⟨fun x h => (by cases h), fun x n0 h _ => ⟨n0, h⟩, ?_, ?_, ?_, ?_⟩
  · intro x n hx
    exact ⟨n, hx, fun y => by simp, fun y hy => ⟨hy, by simp⟩⟩
  · intro x n n0 hx hx0 v hv hv'
    rw [hx] at hx0; cases hx0
    exact absurd hv hv'
  · intro x n w nw _ hw _ y _ hr
    exact (h0.exact w nw hw y).mpr hr
  · intro x n hx _
    exact ⟨hx, fun y _ => by simp⟩

/-- out-edges of an intermediate record are original out-edges, not removed -/
theorem RInv.out_sub {s0 s : Store α} {R t : List α} (h : RInv s0 R s t) {x : α} {n : Node α}
    (hx : get s x = some n) : ∃ n0, get s0 x = some n0 ∧ ∀ y, y ∈ n.out → y ∈ n0.out ∧ y ∉ R := by
  obtain ⟨n0, h0, hp, hi⟩ := h.a x n hx
  refine ⟨n0, h0, ?_⟩
  intro y hy
  rcases mem_out.mp hy with hy | hy
  · exact ⟨mem_out.mpr (Or.inl ((hp y).mp hy).1), ((hp y).mp hy).2⟩
  · exact ⟨mem_out.mpr (Or.inr (hi y hy).1), (hi y hy).2⟩

theorem RInv.step {s0 s : Store α} {R t : List α} (h0 : StoreInv s0) (h : RInv s0 R s t) (u : α) (r : Node α)
    (hu : get s u = some r) : RInv s0 (u :: R) (removeOne (s, t) u).1 (removeOne (s, t) u).2 := by
  have G := fun x => get_removeOne (t := t) hu x
  -- a record of the new store comes from a record of the old one
  have back : ∀ x n', get (removeOne (s, t) u).1 x = some n' →
      x ≠ u ∧ ∃ n, get s x = some n ∧ n' = stripNode u r n := by
    intro x n' hx
    rw [G] at hx
    by_cases hxu : x = u
    · simp [hxu] at hx
    · simp only [hxu, if_false] at hx
      cases hg : get s x with
      | none => rw [hg] at hx; cases hx
      | some n => rw [hg] at hx; simp at hx; exact ⟨hxu, n, rfl, hx.symm⟩
  have hrout : ∀ y, y ∈ r.out → Reach (shape s0) u y := by
    intro y hy
    obtain ⟨r0, hr0, hsub⟩ := h.out_sub hu
    exact (h0.exact u r0 hr0 y).mp (hsub y hy).1
  have outsub : ∀ (n : Node α) y, y ∈ (stripNode u r n).out → y ∈ n.out ∧ y ≠ u := by
    intro n y hy
    rcases mem_out.mp hy with hy | hy
    · have := (mem_strip_parents u r n y).mp hy
      exact ⟨mem_out.mpr (Or.inl this.1), this.2⟩
    · have := (mem_strip_indirect u r n y).mp hy
      exact ⟨mem_out.mpr (Or.inr this.1), this.2.1⟩
  refine ⟨?_, ?_, ?_, ?_, ?_, ?_⟩
  · -- k1
    intro x hx
    rw [G]
    simp only [List.mem_cons] at hx
    rcases hx with rfl | hx
    · simp
    · split
      · rfl
      · rw [h.k1 x hx]; rfl
  · -- k2
    intro x n0 hx0 hxR
    simp only [List.mem_cons, not_or] at hxR
    obtain ⟨n, hn⟩ := h.k2 x n0 hx0 hxR.2
    exact ⟨stripNode u r n, by rw [G]; simp [hxR.1, hn]⟩
  · -- a
    intro x n' hx
    obtain ⟨hxu, n, hn, rfl⟩ := back x n' hx
    obtain ⟨n0, hn0, hp, hi⟩ := h.a x n hn
    refine ⟨n0, hn0, ?_, ?_⟩
    · intro y
      rw [mem_strip_parents, hp y]
      simp only [List.mem_cons, not_or]
      constructor
      · rintro ⟨⟨a, b⟩, c⟩; exact ⟨a, c, b⟩
      · rintro ⟨a, c, b⟩; exact ⟨⟨a, b⟩, c⟩
    · intro y hy
      have := (mem_strip_indirect u r n y).mp hy
      have h2 := hi y this.1
      simp only [List.mem_cons, not_or]
      exact ⟨h2.1, this.2.1, h2.2⟩
  · -- d
    intro x n' n0 hx hx0 v hv hv' y hvy hy
    obtain ⟨hxu, n, hn, rfl⟩ := back x n' hx
    have hyi := (mem_strip_indirect u r n y).mp hy
    by_cases hvn : v ∈ n.out
    · -- v was kept so far and is lost now
      have hun : u ∈ n.out ∧ Reach (shape s0) u y := by
        by_cases hvu : v = u
        · subst hvu; exact ⟨hvn, hvy⟩
        · rcases mem_out.mp hvn with hvp | hvi
          · exact absurd (mem_out.mpr (Or.inl ((mem_strip_parents u r n v).mpr ⟨hvp, hvu⟩))) hv'
          · have : ¬ (u ∈ n.out → v ∉ r.out) := by
              intro hc
              exact hv' (mem_out.mpr (Or.inr ((mem_strip_indirect u r n v).mpr ⟨hvi, hvu, hc⟩)))
            have hun : u ∈ n.out := Classical.byContradiction (fun hc => this (fun h' => absurd h' hc))
            have hvr : v ∈ r.out := Classical.byContradiction (fun hc => this (fun _ => hc))
            exact ⟨hun, (hrout v hvr).trans hvy⟩
      have := h.e x n u r hn hu hun.1 y hyi.1 hun.2
      exact hyi.2.2 hun.1 this
    · exact h.d x n n0 hn hx0 v hv hvn y hvy hyi.1
  · -- e
    intro x n' w nw' hx hw hwn y hy hwy
    obtain ⟨hxu, n, hn, rfl⟩ := back x n' hx
    obtain ⟨hwu, nw, hnw, rfl⟩ := back w nw' hw
    have hyi := (mem_strip_indirect u r n y).mp hy
    have hwn' := (outsub n w hwn).1
    have hyw : y ∈ nw.out := h.e x n w nw hn hnw hwn' y hyi.1 hwy
    rcases mem_out.mp hyw with hyp | hyind
    · exact mem_out.mpr (Or.inl ((mem_strip_parents u r nw y).mpr ⟨hyp, hyi.2.1⟩))
    · refine mem_out.mpr (Or.inr ((mem_strip_indirect u r nw y).mpr ⟨hyind, hyi.2.1, ?_⟩))
      intro huw hyr
      by_cases hun : u ∈ n.out
      · exact hyi.2.2 hun hyr
      · -- x lost u earlier: then it lost everything above u
        obtain ⟨n0, hn0, hsub⟩ := h.out_sub hn
        obtain ⟨nw0, hnw0, hsubw⟩ := h.out_sub hnw
        have hxw : Reach (shape s0) x w := (h0.exact x n0 hn0 w).mp (hsub w hwn').1
        have hwu' : Reach (shape s0) w u := (h0.exact w nw0 hnw0 u).mp (hsubw u huw).1
        have hu0 : u ∈ n0.out := (h0.exact x n0 hn0 u).mpr (hxw.trans hwu')
        exact h.d x n n0 hn hn0 u hu0 hun y (hrout y hyr) hyi.1
  · -- i2
    intro x n' hx hxt
    obtain ⟨hxu, n, hn, rfl⟩ := back x n' hx
    obtain ⟨hxt0, hun⟩ := removeOne_untouched hu x hxt
    have hun' := hun n hn hxu
    have : stripNode u r n = n := by unfold stripNode; simp [hun']
    rw [this]
    obtain ⟨i1, i2⟩ := h.i2 x n hn hxt0
    refine ⟨i1, ?_⟩
    intro y hy
    simp only [List.mem_cons, not_or]
    exact ⟨fun e => hun' (e ▸ hy), i2 y hy⟩

theorem RInv.fold {s0 : Store α} (h0 : StoreInv s0) : ∀ (us : List α) (s : Store α) (t R : List α),
    RInv s0 R s t → ∃ R', RInv s0 R' (us.foldl removeOne (s, t)).1 (us.foldl removeOne (s, t)).2 := by
  intro us
  induction us with
  | nil => intro s t R h; exact ⟨R, h⟩
  | cons u us ih =>
    intro s t R h
    simp only [List.foldl_cons]
    cases hu : get s u with
    | none => rw [removeOne_none hu]; exact ih s t R h
    | some r =>
      have := RInv.step h0 h u r hu
      exact ih _ _ _ this

/-- what the invariant gives at the end: exactly the preconditions of `repair_establishes` -/
theorem RInv.final {s0 s : Store α} {R t : List α} (h0 : StoreInv s0) (h : RInv s0 R s t) :
    Sound (shape s) s ∧ (∀ x, ¬ Reach (shape s) x x) ∧
    (∀ k, k ∈ keys s → k ∉ t → Complete (shape s) s k) ∧ Disjoint s := by
  have hmono : ∀ {x y}, Reach (shape s) x y → Reach (shape s0) x y := by
    intro x y hr
    refine Reach.mono ?_ hr
    intro a ps ha
    obtain ⟨n, hn, hps⟩ := shape_some_inv ha
    obtain ⟨n0, hn0, hp, _⟩ := h.a a n hn
    exact ⟨n0.parents, shape_some hn0, fun y hy => ((hp y).mp (hps ▸ hy)).1⟩
  refine ⟨?_, fun x hr => h0.acyclic x (hmono hr), ?_, ?_⟩
  · -- Sound
    intro x n hx y hy
    rcases mem_out.mp hy with hyp | hyi
    · exact Reach.edge (shape_some hx) hyp
    · obtain ⟨n0, hn0, hsub⟩ := h.out_sub hx
      have hnotR : ∀ a, (a = x ∨ a ∈ n.out) → a ∉ R := by
        intro a ha haR
        rcases ha with rfl | ha
        · rw [h.k1 a haR] at hx; cases hx
        · exact (hsub a ha).2 haR
      have hreach0 : ∀ a, (a = x ∨ a ∈ n.out) → ∀ b, (∃ ps, shape s0 a = some ps ∧ b ∈ ps) → Reach (shape s0) x b := by
        intro a ha b hb
        obtain ⟨ps, hps, hbps⟩ := hb
        rcases ha with rfl | ha
        · exact Reach.edge hps hbps
        · exact ((h0.exact x n0 hn0 a).mp (hsub a ha).1).trans (Reach.edge hps hbps)
      have path : ∀ a b, Reach (shape s0) a b → b = y → (a = x ∨ a ∈ n.out) → Reach (shape s) a y := by
        intro a b hr
        induction hr with
        | @edge a' b' ps hps hb =>
          intro hby ha
          subst hby
          obtain ⟨na0, hna0, hpa0⟩ := shape_some_inv hps
          obtain ⟨na, hna⟩ := h.k2 a' na0 hna0 (hnotR a' ha)
          obtain ⟨na0', hna0', hp, _⟩ := h.a a' na hna
          rw [hna0] at hna0'; cases hna0'
          refine Reach.edge (shape_some hna) ((hp b').mpr ⟨hpa0 ▸ hb, ?_⟩)
          exact hnotR b' (Or.inr hy)
        | @step a' b' z ps hps hz hzb ih =>
          intro hby ha
          subst hby
          have hzn : z ∈ n.out := by
            apply Classical.byContradiction
            intro hzn
            have hz0 : z ∈ n0.out := (h0.exact x n0 hn0 z).mpr (hreach0 a' ha z ⟨ps, hps, hz⟩)
            exact h.d x n n0 hx hn0 z hz0 hzn b' hzb hyi
          obtain ⟨na0, hna0, hpa0⟩ := shape_some_inv hps
          obtain ⟨na, hna⟩ := h.k2 a' na0 hna0 (hnotR a' ha)
          obtain ⟨na0', hna0', hp, _⟩ := h.a a' na hna
          rw [hna0] at hna0'; cases hna0'
          exact Reach.step (shape_some hna) ((hp z).mpr ⟨hpa0 ▸ hz, hnotR z (Or.inr hzn)⟩) (ih rfl (Or.inr hzn))
      have hxy0 : Reach (shape s0) x y := (h0.exact x n0 hn0 y).mp (hsub y hy).1
      exact path x y hxy0 rfl (Or.inl rfl)
  · -- untouched nodes are complete
    intro k _ hkt n hn y hr
    obtain ⟨i1, _⟩ := h.i2 k n hn hkt
    exact (h0.exact k n i1 y).mpr (hmono hr)
  · -- Disjoint
    intro x n hx y hyp hyi
    obtain ⟨n0, hn0, hp, hi⟩ := h.a x n hx
    exact h0.disjoint x n0 hn0 y ((hp y).mp hyp).1 (hi y hyi).1

/-! ### parent graph of `remove_entities` = spec -/

theorem pg_removeOne (st : Store α × List α) (u : α) :
    parentGraph (removeOne st u).1 = specRemoveOne (parentGraph st.1) u := by
  obtain ⟨s, t⟩ := st
  cases hu : get s u with
  | none =>
    rw [removeOne_none hu]
    have : PGraph.get (parentGraph s) u = none := by rw [pg_get]; simp [shape, hu]
    simp [specRemoveOne, this]
  | some r =>
    have hpg : PGraph.get (parentGraph s) u = some r.parents := by rw [pg_get]; exact shape_some hu
    simp only [removeOne, hu, specRemoveOne, hpg]
    clear hu hpg
    induction s with
    | nil => rfl
    | cons kv rest ih =>
      obtain ⟨k, v⟩ := kv
      unfold erase at ih ⊢
      by_cases hku : k = u
      · simp only [hku, List.filter_cons, parentGraph, List.map_cons, ne_eq, not_true_eq_false, decide_false,
          Bool.false_eq_true, if_false]
        exact ih
      · simp only [List.filter_cons, parentGraph, List.map_cons, ne_eq, hku, not_false_eq_true, decide_true, if_true]
        simp only [parentGraph] at ih
        rw [ih]
        congr 1
        by_cases huv : u ∈ v.out
        · simp [huv, stripRemoved]
        · simp only [huv, if_false]
          congr 1
          symm
          rw [List.filter_eq_self]
          intro a ha
          simp only [ne_eq, decide_eq_true_eq]
          exact fun e => huv (mem_out.mpr (Or.inl (e ▸ ha)))

theorem pg_removeFold (us : List α) : ∀ st : Store α × List α,
    parentGraph (us.foldl removeOne st).1 = specRemove (parentGraph st.1) us := by
  induction us with
  | nil => intro st; rfl
  | cons u us ih =>
    intro st
    simp only [List.foldl_cons, specRemove]
    rw [ih, pg_removeOne]
    rfl

/-- `remove_entities` (ComputeNow), arbitrary uid lists (absent uids, repeated uids, a node and its
    ancestors in one batch, in any order): always accepted, invariant re-established, spec parent graph. -/
theorem removeEntities_ok (s : Store α) (us : List α) (hinv : StoreInv s) :
    ∃ s', removeEntities .compute s us = .ok s' ∧ StoreInv s' ∧ parentGraph s' = specRemove (parentGraph s) us := by
  obtain ⟨R, hR⟩ := RInv.fold hinv us s [] [] (RInv.init s hinv)
  obtain ⟨f1, f2, f3, f4⟩ := hR.final hinv
  obtain ⟨s', hok, hinv', hpg⟩ := repair_establishes _ _ f1 f2 f3 f4
  refine ⟨s', ?_, hinv', by rw [hpg, pg_removeFold]⟩
  unfold removeEntities
  simp only [finish, Bool.false_eq_true, if_false]
  exact hok

end Cedar.TC
