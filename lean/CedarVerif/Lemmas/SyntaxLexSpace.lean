import CedarVerif.Lemmas.SyntaxLex
/-
C05, lexer: spacing insensitivity.  `lex` of a token list written with ARBITRARY separators (blanks, `//` comments ending in a
line break, or nothing at all where the next character cannot extend the token) gives the token list back.
`render` (single spaces) and the tighter spacing of Rust's `Display` are both instances.
-/
namespace Cedar.Syntax

/-- `R` is empty or starts with a character outside `p` -/
def stopC (p : Char → Bool) : List Char → Bool
  | [] => true
  | d :: _ => !p d

theorem spanC_stop (p : Char → Bool) : ∀ (a : List Char) (R : List Char), (∀ x ∈ a, p x = true) → stopC p R = true →
    spanC p (a ++ R) = (a, R)
  | [], [], _, _ => rfl
  | [], d :: R, _, hR => by
    simp only [stopC, Bool.not_eq_true'] at hR
    simp [spanC, hR]
  | x :: a, R, ha, hR => by
    have ih := spanC_stop p a R (fun y hy => ha y (by simp [hy])) hR
    simp [spanC, ha x (by simp), ih]

/-- the text `R` that follows token `t` cannot extend it under longest match: no identifier character after an identifier or
slot, no digit after a number, no `:` after `:`, no `=` after `= ! < >`, no `/` after `/` (that would open a comment) -/
def stopsTok (t : Token) (R : List Char) : Bool :=
  match t with
  | .ident _ | .slot _ => stopC isIdCont R
  | .num _ => stopC isDig R
  | .colon => stopC (· = ':') R
  | .eq | .bang | .lt | .gt => stopC (· = '=') R
  | .slash => stopC (· = '/') R
  | _ => true

/-- token-level form: `t'` may follow `t` without a separator -/
def NoGlue (t t' : Token) : Bool := stopsTok t (tokChars t')

theorem stopC_append (p : Char → Bool) {a : List Char} (h : a ≠ []) (b : List Char) : stopC p (a ++ b) = stopC p a := by
  cases a with
  | nil => exact absurd rfl h
  | cons c cs => rfl

theorem stopsTok_append (t : Token) {a : List Char} (h : a ≠ []) (b : List Char) : stopsTok t (a ++ b) = stopsTok t a := by
  cases t <;> simp only [stopsTok, stopC_append _ h]

/-! ### one token followed by text that does not extend it -/

theorem lexStep_num_stop (n : Nat) (c : Char) (a R : List Char) (h : Nat.toDigits 10 n = c :: a) (hR : stopC isDig R = true) :
    lexStep c (a ++ R) = .tok (.num n) R := by
  obtain ⟨h1, h2⟩ := toDigits_facts n n (Nat.le_refl _)
  rw [h] at h1 h2
  have hc := h2 c (by simp)
  unfold lexStep
  simp only [hc.2, hc.1, Bool.false_eq_true, if_false, if_true,
    spanC_stop isDig a R (fun x hx => (h2 x (by simp [hx])).1) hR, h1]

theorem lexStep_ident_stop (s : String) (c : Char) (a R : List Char) (h : s.toList = c :: a) (hok : isIdentChars s.toList = true)
    (hR : stopC isIdCont R = true) : lexStep c (a ++ R) = .tok (.ident s) R := by
  rw [h] at hok
  simp only [isIdentChars, Bool.and_eq_true, List.all_eq_true] at hok
  unfold lexStep
  simp only [hok.1, if_true, spanC_stop isIdCont a R hok.2 hR, ← h, String.ofList_toList]

theorem lexStep_slot_stop (s : String) (a R : List Char) (h : s.toList = '?' :: a) (hok : isIdentChars a = true)
    (hR : stopC isIdCont R = true) : lexStep '?' (a ++ R) = .tok (.slot s) R := by
  cases a with
  | nil => simp [isIdentChars] at hok
  | cons d a =>
    simp only [isIdentChars, Bool.and_eq_true, List.all_eq_true] at hok
    unfold lexStep
    have e1 : isIdStart '?' = false := by decide
    have e2 : isDig '?' = false := by decide
    have e3 : ('?' = '"') = False := by decide
    simp only [e1, e2, e3, Bool.false_eq_true, if_false, if_true, List.cons_append, hok.1,
      spanC_stop isIdCont a R hok.2 hR, ← h, String.ofList_toList]

theorem lexStep_tok_stop (t : Token) (hok : TokOK t = true) (c : Char) (cs R : List Char) (h : tokChars t = c :: cs)
    (hR : stopsTok t R = true) : lexStep c (cs ++ R) = .tok t R := by
  cases t with
  | ident s => exact lexStep_ident_stop s c cs R h hok hR
  | num n => exact lexStep_num_stop n c cs R h hR
  | str raw =>
    simp only [tokChars, List.cons.injEq] at h
    obtain ⟨rfl, rfl⟩ := h
    simp only [List.append_assoc, List.cons_append, List.nil_append]
    exact lexStep_str raw R hok
  | slot s =>
    simp only [tokChars] at h
    simp only [TokOK, h, Bool.and_eq_true, decide_eq_true_eq] at hok
    obtain ⟨rfl, hid⟩ := hok
    exact lexStep_slot_stop s cs R h hid hR
  | _ =>
    simp only [tokChars, List.cons.injEq] at h
    obtain ⟨rfl, rfl⟩ := h
    cases R with
    | nil => rfl
    | cons d ds =>
      first
        | rfl
        | (simp only [stopsTok, stopC, Bool.not_eq_true', decide_eq_false_iff_not] at hR
           simp [lexStep, punctStep, punct2, punct1, isCommentStart, isWs, isIdStart, isDig, hR])

/-! ### skipped text -/

theorem isWs_range {c : Char} (h : isWs c = true) : c.toNat ≤ 32 ∨ 133 ≤ c.toNat := by
  simp only [isWs, Bool.or_eq_true, Bool.and_eq_true, decide_eq_true_eq, beq_iff_eq] at h
  omega

theorem char_le_toNat (a b : Char) : a ≤ b ↔ a.toNat ≤ b.toNat := Iff.rfl

theorem lexStep_ws {c : Char} (h : isWs c = true) (cs : List Char) : lexStep c cs = .skip cs := by
  have hr := isWs_range h
  have ne : ∀ d : Char, 32 < d.toNat → d.toNat < 133 → c ≠ d := by
    intro d h1 h2 hc; subst hc; omega
  have e1 : isIdStart c = false := by
    simp only [isIdStart, Bool.or_eq_false_iff, Bool.and_eq_false_iff, decide_eq_false_iff_not, char_le_toNat]
    refine ⟨⟨ne '_' (by decide) (by decide), ?_⟩, ?_⟩
    · have : ('a' : Char).toNat = 97 := by decide
      have : ('z' : Char).toNat = 122 := by decide
      omega
    · have : ('A' : Char).toNat = 65 := by decide
      have : ('Z' : Char).toNat = 90 := by decide
      omega
  have e2 : isDig c = false := by
    simp only [isDig, Bool.and_eq_false_iff, decide_eq_false_iff_not, char_le_toNat]
    have : ('0' : Char).toNat = 48 := by decide
    have : ('9' : Char).toNat = 57 := by decide
    omega
  have e3 : c ≠ '"' := ne '"' (by decide) (by decide)
  have e4 : c ≠ '?' := ne '?' (by decide) (by decide)
  have e5 : isCommentStart c cs = false := by
    simp [isCommentStart, ne '/' (by decide) (by decide)]
  unfold lexStep
  simp only [e1, e2, e3, e4, e5, h, Bool.false_eq_true, if_false, if_true]

theorem lexStep_comment (body : List Char) (R : List Char) (hb : ∀ x ∈ body, (x = '\n' || x = '\r') = false)
    (hR : stopC (fun x => !(x = '\n' || x = '\r')) R = true) : lexStep '/' ('/' :: (body ++ R)) = .skip R := by
  have hs := spanC_stop (fun x => !(decide (x = '\n') || decide (x = '\r'))) ('/' :: body) R
    (by intro x hx
        simp only [List.mem_cons] at hx
        rcases hx with rfl | hx
        · decide
        · simp only [hb x hx, Bool.not_false])
    hR
  unfold lexStep
  have e1 : isIdStart '/' = false := by decide
  have e2 : isDig '/' = false := by decide
  have e3 : ('/' = '"') = False := by decide
  have e4 : ('/' = '?') = False := by decide
  have e5 : isCommentStart '/' ('/' :: (body ++ R)) = true := by simp [isCommentStart]
  simp only [e1, e2, e3, e4, e5, Bool.false_eq_true, if_false, if_true]
  rw [show '/' :: (body ++ R) = ('/' :: body) ++ R from rfl, hs]

/-- text the lexer skips between two tokens: Unicode blanks and `//` comments closed by a line break -/
inductive Filler : List Char → Prop
  | nil : Filler []
  | ws {c : Char} {s : List Char} : isWs c = true → Filler s → Filler (c :: s)
  | comment {body s : List Char} (nl : Char) : (∀ x ∈ body, (x = '\n' || x = '\r') = false) → (nl = '\n' ∨ nl = '\r') →
      Filler s → Filler ('/' :: '/' :: (body ++ nl :: s))

theorem lexFuel_filler {s : List Char} (hs : Filler s) : ∀ (R : List Char) (f : Nat), (s ++ R).length < f →
    ∃ f', R.length < f' ∧ lexFuel f (s ++ R) = lexFuel f' R := by
  induction hs with
  | nil => intro R f hf; exact ⟨f, hf, rfl⟩
  | ws hc _ ih =>
    intro R f hf
    obtain ⟨f1, rfl⟩ : ∃ f1, f = f1 + 1 := ⟨f - 1, by simp at hf; omega⟩
    obtain ⟨f', h1, h2⟩ := ih R f1 (by simp at hf ⊢; omega)
    exact ⟨f', h1, by simp only [List.cons_append, lexFuel, lexStep_ws hc, h2]⟩
  | @comment body s nl hb hnl _ ih =>
    intro R f hf
    simp only [List.cons_append, List.append_assoc, List.length_cons, List.length_append] at hf
    obtain ⟨f1, rfl⟩ : ∃ f1, f = f1 + 2 := ⟨f - 2, by omega⟩
    obtain ⟨f', h1, h2⟩ := ih R f1 (by simp; omega)
    have hws : isWs nl = true := by rcases hnl with rfl | rfl <;> decide
    have hst : stopC (fun x => !(x = '\n' || x = '\r')) (nl :: (s ++ R)) = true := by
      rcases hnl with rfl | rfl <;> simp [stopC]
    refine ⟨f', h1, ?_⟩
    simp only [List.cons_append, List.append_assoc, lexFuel, lexStep_comment body _ hb hst, lexStep_ws hws, h2]

/-! ### any spacing -/

/-- tokens, each followed by its separator -/
def respaceGo : List (Token × List Char) → List Char
  | [] => []
  | (t, s) :: r => tokChars t ++ (s ++ respaceGo r)

/-- every token is lexer-producible, every separator is skippable text, and what follows a token does not extend it -/
def Spaced : List (Token × List Char) → Prop
  | [] => True
  | (t, s) :: r => TokOK t = true ∧ Filler s ∧ stopsTok t (s ++ respaceGo r) = true ∧ Spaced r

theorem lexFuel_respaceGo : ∀ (tss : List (Token × List Char)), Spaced tss → ∀ f, (respaceGo tss).length < f →
    lexFuel f (respaceGo tss) = some (tss.map Prod.fst)
  | [], _, f, hf => by
    obtain ⟨f', rfl⟩ : ∃ f', f = f' + 1 := ⟨f - 1, by omega⟩
    rfl
  | (t, s) :: r, ⟨hok, hs, hst, hr⟩, f, hf => by
    obtain ⟨c, cs, hc⟩ := tokChars_ne_nil t hok
    simp only [respaceGo, hc, List.length_cons, List.length_append, List.cons_append] at hf ⊢
    obtain ⟨f1, rfl⟩ : ∃ f1, f = f1 + 1 := ⟨f - 1, by omega⟩
    obtain ⟨f', h1, h2⟩ := lexFuel_filler hs (respaceGo r) f1 (by simp; omega)
    have ih := lexFuel_respaceGo r hr f' h1
    simp only [lexFuel, lexStep_tok_stop t hok c cs _ hc hst, h2, ih, Option.map_some, List.map_cons]

theorem lexFuel_respace (lead : List Char) (hl : Filler lead) (tss : List (Token × List Char)) (h : Spaced tss) :
    lex (lead ++ respaceGo tss) = some (tss.map Prod.fst) := by
  obtain ⟨f', h1, h2⟩ := lexFuel_filler hl (respaceGo tss) _ (Nat.lt_succ_self _)
  unfold lex
  rw [h2]
  exact lexFuel_respaceGo tss h f' h1

theorem stopsTok_ws (t : Token) {c : Char} (h : isWs c = true) (R : List Char) : stopsTok t (c :: R) = true := by
  have hr := isWs_range h
  have hstep := lexStep_ws h R
  have ne : ∀ d : Char, 32 < d.toNat → d.toNat < 133 → c ≠ d := by
    intro d h1 h2 hc; subst hc; omega
  have e1 : isIdCont c = false := by
    simp only [isIdCont, isIdStart, Bool.or_eq_false_iff, Bool.and_eq_false_iff, decide_eq_false_iff_not, char_le_toNat]
    have : ('a' : Char).toNat = 97 := by decide
    have : ('z' : Char).toNat = 122 := by decide
    have : ('A' : Char).toNat = 65 := by decide
    have : ('Z' : Char).toNat = 90 := by decide
    have : ('0' : Char).toNat = 48 := by decide
    have : ('9' : Char).toNat = 57 := by decide
    refine ⟨⟨⟨ne '_' (by decide) (by decide), ?_⟩, ?_⟩, ?_⟩ <;> omega
  have e2 : isDig c = false := by
    simp only [isDig, Bool.and_eq_false_iff, decide_eq_false_iff_not, char_le_toNat]
    have : ('0' : Char).toNat = 48 := by decide
    have : ('9' : Char).toNat = 57 := by decide
    omega
  cases t <;> simp [stopsTok, stopC, e1, e2, ne ':' (by decide) (by decide), ne '=' (by decide) (by decide), ne '/' (by decide) (by decide)]

/-! ### separators chosen per adjacent token pair -/

/-- tokens with `sep t t'` written between adjacent tokens `t`, `t'` -/
def renderWith (sep : Token → Token → List Char) : List Token → List Char
  | [] => []
  | [t] => tokChars t
  | t :: t' :: ts => tokChars t ++ (sep t t' ++ renderWith sep (t' :: ts))

def pairsWith (sep : Token → Token → List Char) : List Token → List (Token × List Char)
  | [] => []
  | [t] => [(t, [])]
  | t :: t' :: ts => (t, sep t t') :: pairsWith sep (t' :: ts)

/-- an admissible separator choice: skippable text, and it (or, when empty, the next token) does not extend the token before -/
def SepFine (sep : Token → Token → List Char) : Prop :=
  ∀ t t', TokOK t = true → TokOK t' = true → Filler (sep t t') ∧ stopsTok t (sep t t' ++ tokChars t') = true

theorem pairsWith_fst (sep : Token → Token → List Char) : ∀ ts, (pairsWith sep ts).map Prod.fst = ts
  | [] => rfl
  | [_] => rfl
  | t :: t' :: ts => by simp only [pairsWith, List.map_cons, pairsWith_fst sep (t' :: ts)]

theorem respaceGo_pairsWith (sep : Token → Token → List Char) : ∀ ts, respaceGo (pairsWith sep ts) = renderWith sep ts
  | [] => rfl
  | [t] => by simp [pairsWith, respaceGo, renderWith]
  | t :: t' :: ts => by simp only [pairsWith, respaceGo, renderWith, respaceGo_pairsWith sep (t' :: ts)]

theorem spaced_pairsWith (sep : Token → Token → List Char) (hs : SepFine sep) : ∀ ts, (∀ t ∈ ts, TokOK t = true) →
    Spaced (pairsWith sep ts)
  | [], _ => trivial
  | [t], h => ⟨h t (by simp), .nil, by cases t <;> rfl, trivial⟩
  | t :: t' :: ts, h => by
    have h1 := h t (by simp)
    have h2 := h t' (by simp)
    obtain ⟨hf, hst⟩ := hs t t' h1 h2
    refine ⟨h1, hf, ?_, spaced_pairsWith sep hs (t' :: ts) (fun x hx => h x (by simp [hx]))⟩
    obtain ⟨c, cs, hc⟩ := tokChars_ne_nil t' h2
    rw [respaceGo_pairsWith]
    have hr : ∃ rest, renderWith sep (t' :: ts) = tokChars t' ++ rest := by
      cases ts with
      | nil => exact ⟨[], by simp [renderWith]⟩
      | cons t'' ts => exact ⟨_, rfl⟩
    obtain ⟨rest, hr⟩ := hr
    rw [hr, ← List.append_assoc, stopsTok_append t (by simp [hc])]
    exact hst

/-- the tightest admissible choice: a space exactly where the next token would glue -/
def minSep (t t' : Token) : List Char := if NoGlue t t' then [] else [' ']

theorem sepFine_minSep : SepFine minSep := by
  intro t t' _ _
  unfold minSep
  split
  · rename_i h; exact ⟨.nil, h⟩
  · exact ⟨.ws (by decide) .nil, stopsTok_ws t (by decide) _⟩

theorem sepFine_space : SepFine (fun _ _ => [' ']) :=
  fun t _ _ _ => ⟨.ws (by decide) .nil, stopsTok_ws t (by decide) _⟩

end Cedar.Syntax
