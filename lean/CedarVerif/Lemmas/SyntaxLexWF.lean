import CedarVerif.Lemmas.SyntaxLex
import CedarVerif.Lemmas.SyntaxSound
namespace Cedar.Syntax

theorem spanC_all (p : Char → Bool) : ∀ cs, ∀ x ∈ (spanC p cs).1, p x = true
  | [], x, hx => by simp [spanC] at hx
  | c :: cs, x, hx => by
    unfold spanC at hx
    split at hx
    · rename_i hp
      simp only [List.mem_cons] at hx
      rcases hx with rfl | hx
      · exact hp
      · exact spanC_all p cs x hx
    · simp at hx

def notIdentOpt : Option Token → Prop
  | some (.ident _) => False
  | _ => True

theorem notIdentOpt_ite {p : Prop} [Decidable p] {a b : Option Token} (ha : notIdentOpt a) (hb : notIdentOpt b) :
    notIdentOpt (if p then a else b) := by
  split <;> assumption

theorem punct2_notIdentOpt (c d : Char) : notIdentOpt (punct2 c d) := by
  unfold punct2; repeat' split
  all_goals exact True.intro

theorem punct1_notIdentOpt (c : Char) : notIdentOpt (punct1 c) := by
  unfold punct1
  repeat' (first | exact True.intro | apply notIdentOpt_ite)

theorem punct2_not_ident {c d : Char} {s : String} : punct2 c d ≠ some (.ident s) := by
  intro h; have := punct2_notIdentOpt c d; rw [h] at this; exact this

theorem punct1_not_ident {c : Char} {s : String} : punct1 c ≠ some (.ident s) := by
  intro h; have := punct1_notIdentOpt c; rw [h] at this; exact this

theorem punctStep_not_ident {c : Char} {cs r : List Char} {s : String} : punctStep c cs ≠ .tok (.ident s) r := by
  unfold punctStep
  intro h
  split at h
  · split at h
    · rename_i t ht
      simp only [LexStep.tok.injEq] at h
      rw [h.1] at ht; exact punct2_not_ident ht
    · split at h
      · rename_i t ht
        simp only [LexStep.tok.injEq] at h
        rw [h.1] at ht; exact punct1_not_ident ht
      · cases h
  · split at h
    · rename_i t ht
      simp only [LexStep.tok.injEq] at h
      rw [h.1] at ht; exact punct1_not_ident ht
    · cases h

theorem lexStep_ident_shape {c : Char} {cs r : List Char} {s : String} (h : lexStep c cs = .tok (.ident s) r) :
    isIdentChars s.toList = true := by
  unfold lexStep at h
  split at h
  · rename_i hc
    simp only [LexStep.tok.injEq, Token.ident.injEq] at h
    rw [← h.1, String.toList_ofList]
    simp only [isIdentChars, hc, Bool.true_and, List.all_eq_true]
    exact spanC_all isIdCont cs
  · split at h
    · simp at h
    · split at h
      · split at h <;> simp at h
      · split at h
        · split at h
          · split at h <;> simp at h
          · cases h
        · split at h
          · cases h
          · split at h
            · cases h
            · exact absurd h punctStep_not_ident

theorem lexFuel_tokWF : ∀ (f : Nat) (cs : List Char) (ts : List Token), lexFuel f cs = some ts → TokWF ts := by
  intro f
  induction f with
  | zero => intro cs ts h; simp [lexFuel] at h
  | succ f ih =>
    intro cs ts h
    cases cs with
    | nil => simp only [lexFuel, Option.some.injEq] at h; subst h; intro s hs; cases hs
    | cons c cs =>
      simp only [lexFuel] at h
      split at h
      · exact ih _ _ h
      · rename_i t rest hst
        cases hr : lexFuel f rest with
        | none => simp [hr] at h
        | some ts' =>
          simp only [hr, Option.map_some, Option.some.injEq] at h
          subst h
          intro s hs
          rcases List.mem_cons.mp hs with hs | hs
          · subst hs; exact lexStep_ident_shape hst
          · exact ih _ _ hr s hs
      · cases h

end Cedar.Syntax
