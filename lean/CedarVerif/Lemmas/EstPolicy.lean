import CedarVerif.Lemmas.Est
/-
Helper lemmas for C06, policy level: `toTemplate (ofTemplate t) = ok t` and the link record round trip.
-/
namespace Cedar.Est
open Cedar

def WFRef : EntityRef → Prop
  | .euid u => validName u.ty = true
  | .slot => True

def WFScope : ScopeC → Prop
  | .any => True
  | .eq r => WFRef r
  | .mem r => WFRef r
  | .is ty => validName ty = true
  | .isIn ty r => validName ty = true ∧ WFRef r

def WFUid (u : EntityUID) : Prop := validName u.ty = true ∧ isActionType u.ty = true

def WFAction : ActionC → Prop
  | .any => True
  | .eq u => WFUid u
  | .mem us => ∀ u ∈ us, WFUid u

/-- invariants of a Rust `ast::Template` obtained from Cedar text -/
structure WFT (t : Template) : Prop where
  principal : WFScope t.principal
  action : WFAction t.action
  resource : WFScope t.resource
  annKeys : ∀ kv ∈ t.annotations, validAnyId kv.1 = true
  annSorted : SortedKeys t.annotations
  cond : ∀ e, t.cond = some e → WF e ∧ exprHasSlot e = false

theorem readEntityUid_uidJson (u : EntityUID) (h : validName u.ty = true) : readEntityUid (uidJson u) = .ok u := by
  simp [readEntityUid, uidJson, jlookup, readTypeAndId, uidOf, h]

theorem readScope_scopeJson (slot : SlotId) (c : ScopeC) (h : WFScope c) :
    readScope slot (scopeJson slot c) = .ok c := by
  cases c with
  | any => simp [scopeJson, readScope, noDupKeys, hasKey, jlookup]
  | eq r =>
    cases r with
    | euid u =>
      have h : validName u.ty = true := h
      simp [scopeJson, refMember, readScope, noDupKeys, hasKey, jlookup, readRef, readEntityUid_uidJson u h, Except.map]
    | slot =>
      cases slot <;>
      simp [scopeJson, refMember, readScope, noDupKeys, hasKey, jlookup, readRef, slotName, readSlot, Except.map, bind, Except.bind]
  | mem r =>
    cases r with
    | euid u =>
      have h : validName u.ty = true := h
      simp [scopeJson, refMember, readScope, noDupKeys, hasKey, jlookup, readRef, readEntityUid_uidJson u h, Except.map]
    | slot =>
      cases slot <;>
      simp [scopeJson, refMember, readScope, noDupKeys, hasKey, jlookup, readRef, slotName, readSlot, Except.map, bind, Except.bind]
  | is ty =>
    have h : validName ty = true := h
    simp [scopeJson, readScope, noDupKeys, hasKey, jlookup, onlyKeys, getS, h, bind, Except.bind]
  | isIn ty r =>
    have h : validName ty = true ∧ WFRef r := h
    cases r with
    | euid u =>
      have h2 : validName u.ty = true := h.2
      simp [scopeJson, refMember, readScope, noDupKeys, hasKey, jlookup, onlyKeys, getS, h.1, bind, Except.bind, readRef,
        readEntityUid_uidJson u h2, Except.map]
    | slot =>
      cases slot <;>
      simp [scopeJson, refMember, readScope, noDupKeys, hasKey, jlookup, onlyKeys, getS, h.1, bind, Except.bind, readRef,
        slotName, readSlot, Except.map]

theorem readUids_map (us : List EntityUID) (h : ∀ u ∈ us, validName u.ty = true) :
    readUids (us.map uidJson) = .ok us := by
  induction us with
  | nil => rfl
  | cons u rest ih =>
    have h1 := h u (by simp)
    have h2 : ∀ v ∈ rest, validName v.ty = true := fun v hv => h v (by simp [hv])
    simp [readUids, readEntityUid_uidJson u h1, ih h2, bind, Except.bind]

theorem readAction_actionJson (c : ActionC) (h : WFAction c) : readAction (actionJson c) = .ok c := by
  cases c with
  | any => simp [actionJson, readAction, noDupKeys, hasKey, jlookup]
  | eq u =>
    have h : WFUid u := h
    simp [actionJson, readAction, noDupKeys, hasKey, jlookup, readEntityUid_uidJson u h.1, bind, Except.bind, checkActions, h.2]
  | mem us =>
    have h : ∀ u ∈ us, WFUid u := h
    have hall : (us.all fun u => isActionType u.ty) = true := by
      simp only [List.all_eq_true]; intro u hu; exact (h u hu).2
    match us, h, hall with
    | [], _, _ => simp [actionJson, readAction, noDupKeys, hasKey, jlookup, readUids, bind, Except.bind, checkActions]
    | [u], h, hall =>
      have hu := h u (by simp)
      simp [actionJson, readAction, noDupKeys, hasKey, jlookup, readEntityUid_uidJson u hu.1, bind, Except.bind, checkActions, hu.2]
    | u :: v :: rest, h, hall =>
      have hv : ∀ w ∈ u :: v :: rest, validName w.ty = true := fun w hw => (h w hw).1
      have hru := readUids_map _ hv
      have hall' : ∀ x ∈ u :: v :: rest, isActionType x.ty = true := fun x hx => (h x hx).2
      simp only [List.map] at hru
      simp [actionJson, readAction, noDupKeys, hasKey, jlookup, hru, bind, Except.bind, checkActions]
      exact ⟨hall' u (by simp), hall' v (by simp), fun x hx => hall' x (by simp [hx])⟩

theorem readAnnValues_map (anns : List (String × String)) (h : ∀ kv ∈ anns, validAnyId kv.1 = true) :
    readAnnValues (anns.map (fun (k, v) => (k, Json.str v))) = .ok anns := by
  induction anns with
  | nil => rfl
  | cons kv rest ih =>
    obtain ⟨k, v⟩ := kv
    have h1 : validAnyId k = true := h (k, v) (by simp)
    have h2 : ∀ kv ∈ rest, validAnyId kv.1 = true := fun kv hkv => h kv (by simp [hkv])
    simp [readAnnValues, h1, ih h2, bind, Except.bind]

theorem readClauses_condsJson (c : Option Expr) (h : ∀ e, c = some e → WF e ∧ exprHasSlot e = false) :
    ∃ cs, condsJson c = .arr cs ∧ (readClauses cs).map foldConds = .ok c := by
  cases c with
  | none => exact ⟨[], rfl, rfl⟩
  | some e =>
    have he := h e rfl
    refine ⟨[.obj [("kind", .str "when"), ("body", ofExpr e)]], rfl, ?_⟩
    simp [readClauses, readClause, exactKeys, hasKey, jlookup, toExpr_ofExpr e he.1, he.2, bind, Except.bind, Except.map, foldConds]

theorem toTemplate_ofTemplate (t : Template) (h : WFT t) : toTemplate (ofTemplate t) = .ok t := by
  obtain ⟨cs, hcs, hfold⟩ := readClauses_condsJson t.cond h.cond
  have hp := readScope_scopeJson .principal t.principal h.principal
  have hr := readScope_scopeJson .resource t.resource h.resource
  have ha := readAction_actionJson t.action h.action
  have hcl : ∃ l, readClauses cs = .ok l ∧ foldConds l = t.cond := by
    cases hrc : readClauses cs with
    | error e => simp [hrc, Except.map] at hfold
    | ok l => exact ⟨l, rfl, by simpa [hrc, Except.map] using hfold⟩
  obtain ⟨l, hl, hlf⟩ := hcl
  have heff : readEffect (.str (effectName t.effect)) = .ok t.effect := by
    cases t.effect <;> simp [effectName, readEffect]
  cases hann : t.annotations.isEmpty with
  | true =>
    have hnil : t.annotations = [] := by simpa using hann
    simp [ofTemplate, hann, toTemplate, onlyKeys, policyKeys, noDupKeys, hasKey, jlookup, hcs, heff, hp, hr, ha, hl, hlf,
      readAnnotations, bind, Except.bind]
    cases t; simp_all
  | false =>
    have hav := readAnnValues_map t.annotations h.annKeys
    simp [ofTemplate, hann, toTemplate, onlyKeys, policyKeys, noDupKeys, hasKey, jlookup, hcs, heff, hp, hr, ha, hl, hlf,
      readAnnotations, hav, sortKVs_sorted _ h.annSorted, bind, Except.bind]

/-! ### link records -/

def WFLink (l : Linked) : Prop :=
  (∀ b ∈ l.env, validName b.2.ty = true) ∧ noDupKeys (l.env.map (fun (s, u) => (slotName s, uidJson u))) = true

theorem readSlot_slotName (s : SlotId) : readSlot (.str (slotName s)) = .ok s := by
  cases s <;> simp [slotName, readSlot]

theorem readLinkValues_map (env : SlotEnv) (h : ∀ b ∈ env, validName b.2.ty = true) :
    readLinkValues (env.map (fun (s, u) => (slotName s, uidJson u))) = .ok env := by
  induction env with
  | nil => rfl
  | cons b rest ih =>
    obtain ⟨s, u⟩ := b
    have h1 : validName u.ty = true := h (s, u) (by simp)
    have h2 : ∀ b ∈ rest, validName b.2.ty = true := fun b hb => h b (by simp [hb])
    simp only [List.map, readLinkValues, readSlot_slotName, readEntityUid_uidJson u h1, bind, Except.bind]
    rw [ih h2]

theorem toLinked_linkJson (l : Linked) (h : WFLink l) : toLinked (linkJson l) = .ok l := by
  simp [linkJson, toLinked, exactKeys, hasKey, jlookup, h.2, readLinkValues_map l.env h.1, bind, Except.bind]

end Cedar.Est
