import CedarVerif.Cedar.NoPanic.RemoveEmptyLines
import CedarVerif.Lemmas.NoPanicUnescape
/-
C20 lemmas for `Cedar/NoPanic/RemoveEmptyLines.lean`.  The regex-crate contract (`Contract`), the "never matches the empty
string" property of the two patterns (`NonEmptyMatches`), and: under the contract `index` is always the byte length of a
char-prefix of `text`, every slice of the loop is cut out by a decomposition of `text`, the pieces pushed concatenate to the
rest of the text, and each iteration consumes at least one byte.
-/
namespace Cedar
namespace NoPanic
namespace Rel
open Cedar.Ext.IPAddr (utf8Len)

/-- what `remove_empty_lines` relies on from `Regex::find_at(text, index)` for a `&str` haystack, for a search that starts
inside the text at a char boundary: the match lies at or after `index`, `start ≤ end`, and both ends are char boundaries of
`text` (hence `end ≤ text.len()`: `isBoundary_le`) -/
def Contract (text : List Char) (f : FindAt) : Prop :=
  ∀ i m, i < bytes text → isBoundary text i = true → f i = some m →
    i ≤ m.start ∧ m.start ≤ m.stop ∧ isBoundary text m.start = true ∧ isBoundary text m.stop = true

/-- the pattern cannot match the empty string (both patterns start with a literal: `//…`, `"…"`) -/
def NonEmptyMatches (text : List Char) (f : FindAt) : Prop :=
  ∀ i m, i < bytes text → isBoundary text i = true → f i = some m → m.start < m.stop

theorem bytes_eq_zero : ∀ (s : List Char), bytes s = 0 → s = []
  | [], _ => rfl
  | x :: xs, h => by have := utf8Len_pos x; simp only [bytes] at h; omega

/-- a char boundary is the byte length of a char-prefix -/
theorem boundary_decomp : ∀ (s : List Char) (a : Nat) (r : List Char), sliceFrom s a = some r →
    ∃ pre, s = pre ++ r ∧ a = bytes pre
  | s, 0, r, h => by
    rw [sliceFrom_zero] at h
    exact ⟨[], by simpa using (Option.some.inj h), rfl⟩
  | [], k + 1, r, h => by simp [sliceFrom] at h
  | x :: xs, k + 1, r, h => by
    simp only [sliceFrom] at h
    by_cases hlt : k + 1 < utf8Len x
    · rw [if_pos hlt] at h; cases h
    · rw [if_neg hlt] at h
      obtain ⟨pre, hs, hb⟩ := boundary_decomp xs _ r h
      exact ⟨x :: pre, by rw [hs]; rfl, by simp only [bytes]; omega⟩

theorem isBoundary_iff (s : List Char) (a : Nat) : isBoundary s a = true ↔ ∃ pre r, s = pre ++ r ∧ a = bytes pre := by
  constructor
  · intro h
    unfold isBoundary at h
    cases hs : sliceFrom s a with
    | none => rw [hs] at h; cases h
    | some r => obtain ⟨pre, h1, h2⟩ := boundary_decomp s a r hs; exact ⟨pre, r, h1, h2⟩
  · rintro ⟨pre, r, rfl, rfl⟩
    simp [isBoundary, sliceFrom_prefix]

/-- a char boundary is within the string -/
theorem isBoundary_le (s : List Char) (a : Nat) (h : isBoundary s a = true) : a ≤ bytes s := by
  obtain ⟨pre, r, rfl, rfl⟩ := (isBoundary_iff s a).mp h
  rw [bytes_append]; omega

/-- two char-prefixes of the same string are comparable, ordered by their byte lengths -/
theorem prefix_of_le : ∀ (p r p' r' : List Char), p ++ r = p' ++ r' → bytes p ≤ bytes p' → ∃ mid, p' = p ++ mid
  | [], _, p', _, _, _ => ⟨p', rfl⟩
  | x :: p, r, [], r', _, hb => by have := utf8Len_pos x; simp only [bytes] at hb; omega
  | x :: p, r, y :: p', r', he, hb => by
    simp only [List.cons_append, List.cons.injEq] at he
    obtain ⟨rfl, he⟩ := he
    simp only [bytes] at hb
    obtain ⟨mid, hm⟩ := prefix_of_le p r p' r' he (by omega)
    exact ⟨mid, by rw [hm]; rfl⟩

theorem sliceRange_decomp (pre mid post : List Char) :
    sliceRange (pre ++ mid ++ post) (bytes pre) (bytes pre + bytes mid) = some mid := by
  unfold sliceRange
  have : bytes pre ≤ bytes pre + bytes mid := by omega
  simp only [this, if_true, List.append_assoc, sliceFrom_prefix, Option.bind_some]
  have h2 : bytes pre + bytes mid - bytes pre = bytes mid := by omega
  rw [h2, sliceTo_prefix]

/-- two boundaries in order cut out a slice: `&s[a..b]` cannot panic -/
theorem sliceRange_of_boundaries (s : List Char) (a b : Nat) (ha : isBoundary s a = true) (hb : isBoundary s b = true)
    (hab : a ≤ b) : ∃ pre mid post, s = pre ++ mid ++ post ∧ a = bytes pre ∧ b = bytes pre + bytes mid ∧
      sliceRange s a b = some mid := by
  obtain ⟨p, r, hs, rfl⟩ := (isBoundary_iff s a).mp ha
  obtain ⟨p', r', hs', rfl⟩ := (isBoundary_iff s b).mp hb
  obtain ⟨mid, rfl⟩ := prefix_of_le p r p' r' (hs.symm.trans hs') hab
  refine ⟨p, mid, r', hs', rfl, bytes_append p mid, ?_⟩
  rw [hs', bytes_append]
  exact sliceRange_decomp p mid r'

theorem pick_some (a b : Option RMatch) (m : RMatch) (h : pick a b = some m) : a = some m ∨ b = some m := by
  cases a <;> cases b <;> simp only [pick] at h
  · cases h
  · exact Or.inr h
  · exact Or.inl h
  · split at h
    · exact Or.inl h
    · exact Or.inr h

/-- the loop invariant.  `index = bytes pre` for a decomposition `text = pre ++ rest`; under the contract the loop either
finishes with pieces that concatenate to `rest`, or runs out of fuel — and if the patterns never match the empty string the
latter needs `fuel ≤ bytes rest` -/
theorem loop_ok (text : List Char) (c s : FindAt) (hc : Contract text c) (hs : Contract text s) :
    ∀ (n : Nat) (pre rest : List Char), text = pre ++ rest →
      (∃ ps, loop text c s n (bytes pre) = .done ps ∧ flat ps = rest) ∨
      (loop text c s n (bytes pre) = .fuel ∧ (NonEmptyMatches text c → NonEmptyMatches text s → n ≤ bytes rest)) := by
  intro n
  induction n with
  | zero => intro pre rest _; exact Or.inr ⟨rfl, fun _ _ => Nat.zero_le _⟩
  | succ n ih =>
    intro pre rest ht
    have hlen : bytes text = bytes pre + bytes rest := by rw [ht, bytes_append]
    have hbi : isBoundary text (bytes pre) = true := (isBoundary_iff _ _).mpr ⟨pre, rest, ht, rfl⟩
    unfold loop
    by_cases hlt : bytes pre < bytes text
    · rw [if_pos hlt, if_neg (by omega)]
      cases hp : pick (c (bytes pre)) (s (bytes pre)) with
      | none =>
        left
        have : sliceFrom text (bytes pre) = some rest := by rw [ht]; exact sliceFrom_prefix pre rest
        simp only [this]
        exact ⟨_, rfl, by simp [flat, Piece.text]⟩
      | some m =>
        -- the contract for whichever oracle produced `m`
        have hm : bytes pre ≤ m.start ∧ m.start ≤ m.stop ∧ isBoundary text m.start = true ∧ isBoundary text m.stop = true := by
          rcases pick_some _ _ m hp with h | h
          · exact hc _ m hlt hbi h
          · exact hs _ m hlt hbi h
        have hne : NonEmptyMatches text c → NonEmptyMatches text s → m.start < m.stop := by
          intro n1 n2
          rcases pick_some _ _ m hp with h | h
          · exact n1 _ m hlt hbi h
          · exact n2 _ m hlt hbi h
        obtain ⟨h1, h2, h3, h4⟩ := hm
        obtain ⟨p1, out, q1, e1, a1, b1, sl1⟩ := sliceRange_of_boundaries text _ _ hbi h3 h1
        obtain ⟨p2, lit, q2, e2, a2, b2, sl2⟩ := sliceRange_of_boundaries text _ _ h3 h4 h2
        simp only [sl1, sl2]
        -- `m.stop = bytes (p2 ++ lit)` and `text = (p2 ++ lit) ++ q2`
        have hstop : m.stop = bytes (p2 ++ lit) := by rw [bytes_append]; exact b2
        -- `rest = out ++ lit ++ q2`
        have hp1 : p1 = pre := by
          have hx : p1 ++ (out ++ q1) = pre ++ rest := by rw [← ht, e1]; simp
          obtain ⟨m1, hm1⟩ := prefix_of_le p1 (out ++ q1) pre rest hx (by omega)
          have : bytes m1 = 0 := by
            have := congrArg bytes hm1; simp only [bytes_append] at this; omega
          rw [bytes_eq_zero m1 this] at hm1; simpa using hm1.symm
        have hp2 : p2 = pre ++ out := by
          have hx : p2 ++ (lit ++ q2) = (pre ++ out) ++ q1 := by rw [← hp1, ← e1, e2]; simp
          have hb : bytes p2 = bytes pre + bytes out := by rw [← hp1]; omega
          obtain ⟨m1, hm1⟩ := prefix_of_le p2 (lit ++ q2) (pre ++ out) q1 hx (by rw [bytes_append]; omega)
          have : bytes m1 = 0 := by
            have := congrArg bytes hm1; simp only [bytes_append] at this; omega
          rw [bytes_eq_zero m1 this] at hm1; simpa using hm1.symm
        have hrest : rest = out ++ lit ++ q2 := by
          have : pre ++ rest = pre ++ (out ++ lit ++ q2) := by rw [← ht, e2, hp2]; simp
          exact List.append_cancel_left this
        rw [hstop]
        rcases ih (p2 ++ lit) q2 (by rw [e2]) with ⟨ps, hl, hf⟩ | ⟨hl, hf⟩
        · left
          simp only [hl]
          exact ⟨_, rfl, by simp [flat, Piece.text, hf, hrest]⟩
        · right
          simp only [hl]
          refine ⟨trivial, fun n1 n2 => ?_⟩
          have := hf n1 n2
          have := hne n1 n2
          rw [hrest, bytes_append, bytes_append]
          omega
    · rw [if_neg hlt]
      left
      have : rest = [] := bytes_eq_zero rest (by omega)
      exact ⟨[], rfl, by simp [flat, this]⟩

/-! executable forms of the two hypotheses, for concrete texts and oracles (non-vacuity examples) -/

def checkContract (text : List Char) (f : FindAt) : Bool :=
  (List.range (bytes text)).all fun i =>
    !isBoundary text i ||
      match f i with
      | none => true
      | some m => decide (i ≤ m.start) && decide (m.start ≤ m.stop) && isBoundary text m.start && isBoundary text m.stop

def checkNonEmpty (text : List Char) (f : FindAt) : Bool :=
  (List.range (bytes text)).all fun i =>
    !isBoundary text i || match f i with | none => true | some m => decide (m.start < m.stop)

theorem contract_of_check (text : List Char) (f : FindAt) (h : checkContract text f = true) : Contract text f := by
  intro i m hi hb hf
  have := List.all_eq_true.mp h i (List.mem_range.mpr hi)
  simp only [hb, hf, Bool.not_true, Bool.false_or, Bool.and_eq_true, decide_eq_true_eq] at this
  exact ⟨this.1.1.1, this.1.1.2, this.1.2, this.2⟩

theorem nonEmpty_of_check (text : List Char) (f : FindAt) (h : checkNonEmpty text f = true) : NonEmptyMatches text f := by
  intro i m hi hb hf
  have := List.all_eq_true.mp h i (List.mem_range.mpr hi)
  simpa [hb, hf] using this

end Rel
end NoPanic
end Cedar
