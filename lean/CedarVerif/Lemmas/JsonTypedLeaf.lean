import CedarVerif.Lemmas.JsonTypedDefs
import CedarVerif.Lemmas.JsonRoundTrip
/-
C10, schema-directed parsing, leaves: under the expected type of a conforming leaf value, every document `Form`
allows for it (explicit escape, implicit `{type,id}` / `{fn,arg}`, bare constructor argument) is parsed by
`typed` — at any fuel ≥ 3 — to the *same* restricted expression: the one `into_expr` produces from the value's
`CedarValueJson`.
-/
set_option linter.unusedSimpArgs false
namespace Cedar.C10
open Cedar Cedar.CJson

/-! ### association lists -/

theorem lookupKV_none_of_not_mem {α} (kvs : List (String × α)) (k : String) (h : k ∉ kvs.map Prod.fst) :
    lookupKV kvs k = none := by
  induction kvs with
  | nil => rfl
  | cons p kvs ih =>
    obtain ⟨k', v⟩ := p
    simp only [List.map_cons, List.mem_cons, not_or] at h
    have : (k' == k) = false := by simp only [beq_eq_false_iff_ne, ne_eq]; exact fun e => h.1 e.symm
    simp [lookupKV, this, ih h.2]

theorem lookupKV_mem {α} (kvs : List (String × α)) (k : String) (v : α) (h : lookupKV kvs k = some v) :
    k ∈ kvs.map Prod.fst := by
  cases hm : decide (k ∈ kvs.map Prod.fst) with
  | true => exact of_decide_eq_true hm
  | false =>
    rw [lookupKV_none_of_not_mem kvs k (of_decide_eq_false hm)] at h
    cases h

theorem lookupKV_cons_ne {α} (k' k : String) (v : α) (kvs : List (String × α)) (h : k' ≠ k) :
    lookupKV ((k', v) :: kvs) k = lookupKV kvs k := by
  have : (k' == k) = false := by simpa using h
  simp [lookupKV, this]

theorem lookupKV_cons_self {α} (k : String) (v : α) (kvs : List (String × α)) :
    lookupKV ((k, v) :: kvs) k = some v := by simp [lookupKV]

/-! ### scalar leaves -/

theorem exprOfJson_prim (p : Prim) (hwf : WF (.prim p)) :
    exprOfJson (CJ.ofPrim p).toJson = .ok (.lit p) := by
  obtain ⟨h1, h2, h3, e, h4, _⟩ := rt_prim p hwf
  have h4' : (CJ.ofPrim p).intoExpr = .ok (.lit p) := by
    cases p with
    | bool b => rfl
    | int i => rfl
    | string s => rfl
    | entityUID u =>
      have hv : validName u.ty = true := by simpa [WF] using hwf
      simp [CJ.ofPrim, CJ.intoExpr, hv]
  simp [exprOfJson, CJ.ofJson, h1, h2, h3, h4', bind, Except.bind]

theorem explicitUnknown_prim (p : Prim) : explicitUnknown (CJ.ofPrim p).toJson = false := by
  cases p <;> simp [CJ.ofPrim, CJ.toJson, explicitUnknown, lookupKV]

/-- a non-entity primitive under `bool` / `long` / `string` -/
theorem typed_lit (p : Prim) (τ : SchemaType) (n : Nat) (hτ : τ = .bool ∨ τ = .long ∨ τ = .string)
    (hwf : WF (.prim p)) : typed (n + 1) (some τ) (CJ.ofPrim p).toJson = .ok (.lit p) := by
  have := exprOfJson_prim p hwf
  rcases hτ with rfl | rfl | rfl <;> simp [typed, explicitUnknown_prim, this]

/-! ### entity references -/

theorem typed_entity (ty : EntityType) (u : EntityUID) (n : Nat) (hv : validName u.ty = true) :
    typed (n + 1) (some (.entity ty)) (uidJson u) = .ok (.lit (.entityUID u)) ∧
    typed (n + 1) (some (.entity ty)) (CJ.ofPrim (.entityUID u)).toJson = .ok (.lit (.entityUID u)) := by
  constructor
  · simp [uidJson, typed, explicitUnknown, lookupKV, uidOfJson, typeAndId, hv, bind, Except.bind]
  · simp [CJ.ofPrim, CJ.toJson, typed, explicitUnknown, lookupKV, fnAndArgs, uidOfJson, typeAndId, hv, bind, Except.bind]

/-! ### extension values -/

/-- single-argument constructor calls: bare string, implicit call, explicit escape -/
theorem typed_ext_single (nm f s : String) (n : Nat) (hc : singleArgCtor nm = some f) :
    typed (n + 3) (some (.ext nm)) (.str s) = .ok (.call f [.lit (.string s)]) ∧
    typed (n + 3) (some (.ext nm)) (.obj [("fn", .str f), ("arg", .str s)]) = .ok (.call f [.lit (.string s)]) ∧
    typed (n + 3) (some (.ext nm)) (.obj [("__extn", .obj [("fn", .str f), ("arg", .str s)])])
      = .ok (.call f [.lit (.string s)]) := by
  have hn : nm = "decimal" ∨ nm = "ipaddr" ∨ nm = "datetime" ∨ nm = "duration" := by
    unfold singleArgCtor at hc
    split at hc <;> simp_all
  rcases hn with rfl | rfl | rfl | rfl <;> simp [singleArgCtor] at hc <;> subst hc <;>
  · refine ⟨?_, ?_, ?_⟩ <;>
    simp [exprOfJson, CJ.ofJson, typed, explicitUnknown, lookupKV, fnAndArgs, extnOfJson, rawOk, rawOkKVs, CJ.ofRaw,
      CJ.ofRawKVs, sortKVs, insertKV, CJ.mkRecord, CJ.toJson, CJ.intoExpr, CJ.callsUnknown, singleArgCtor, extFnSig,
      zipE, validName, splitColons, isIdent, isIdStart, isIdCont, reservedIds, bind, Except.bind]

/-- the canonical datetime rendering `offset(datetime("1970-01-01"), duration("<n>ms"))`: implicit and explicit -/
theorem typed_ext_offset (s : String) (n : Nat) :
    let payload : Json := .obj [("fn", .str "offset"), ("args", .arr [
        .obj [("__extn", .obj [("fn", .str "datetime"), ("arg", .str "1970-01-01")])],
        .obj [("__extn", .obj [("fn", .str "duration"), ("arg", .str s)])]])]
    let e : Expr := .call "offset" [.call "datetime" [.lit (.string "1970-01-01")], .call "duration" [.lit (.string s)]]
    typed (n + 3) (some (.ext "datetime")) payload = .ok e ∧
    typed (n + 3) (some (.ext "datetime")) (.obj [("__extn", payload)]) = .ok e := by
  refine ⟨?_, ?_⟩ <;>
  simp [exprOfJson, CJ.ofJson, typed, explicitUnknown, lookupKV, fnAndArgs, extnOfJson, rawOk, rawOkKVs, rawOkList,
    CJ.ofRaw, CJ.ofRawKVs, CJ.ofRawList, hasDup, sortKVs, insertKV, CJ.mkRecord, CJ.toJson, CJ.toJsonList, CJ.intoExpr,
    CJ.callsUnknown, singleArgCtor, extFnSig, zipE, validName, splitColons, isIdent, isIdStart, isIdCont, reservedIds,
    bind, Except.bind]

/-- the `CedarValueJson` of an extension value in canonical rendering -/
theorem fromValue_ext (x : Ext) :
    fromValueWith canonRepr (.ext x) = .ok (match x with
      | .decimal v => .extnSingle "decimal" (.str (String.ofList (renderDecimal v)))
      | .ipaddr v6 a p => .extnSingle "ip" (.str (String.ofList (renderIp v6 a p)))
      | .duration ms => .extnSingle "duration" (.str (String.ofList (renderDuration ms)))
      | .datetime ms => .extnMulti "offset" [.extnSingle "datetime" (.str "1970-01-01"),
          .extnSingle "duration" (.str (String.ofList (renderDuration ms)))]) := by
  cases x <;> simp [fromValueWith, canonRepr, fromExprList, fromExpr, litS, bind, Except.bind, CJ.ofPrim]

/-- **extension leaves**: every document `Form` allows for `x` under its extension type parses to the expression
    `into_expr` yields from the canonical `CedarValueJson` of `x` -/
theorem typed_ext_leaf (x : Ext) (nm : String) (j : Json) (c : CJ) (e : Expr) (n : Nat)
    (hinst : instOf (.ext x) (.ext nm) = true) (hform : Form (some (.ext nm)) (.ext x) j)
    (hc : fromValueWith canonRepr (.ext x) = .ok c) (he : c.intoExpr = .ok e) :
    typed (n + 3) (some (.ext nm)) j = .ok e := by
  rw [fromValue_ext x] at hc
  have vd : validName "decimal" = true := by decide
  have vi : validName "ip" = true := by decide
  have vu : validName "duration" = true := by decide
  have vt : validName "datetime" = true := by decide
  have vo : validName "offset" = true := by decide
  cases x with
  | decimal v =>
    simp only [instOf, beq_iff_eq] at hinst
    subst hinst
    simp only [Except.ok.injEq] at hc
    subst hc
    simp only [CJ.intoExpr, vd, if_true, bind, Except.bind, Except.ok.injEq] at he
    subst he
    obtain ⟨t1, t2, t3⟩ := typed_ext_single "decimal" "decimal" (String.ofList (renderDecimal v)) n rfl
    cases hform with
    | extExplicit _ _ _ h =>
      simp only [toJson, toJsonWith, fromValue_ext, CJ.toJson, Except.ok.injEq] at h
      subst h; exact t3
    | extImplicit _ _ _ h =>
      simp only [toJson, toJsonWith, fromValue_ext, CJ.toJson, Except.ok.injEq, Json.obj.injEq, List.cons.injEq,
        Prod.mk.injEq, true_and, and_true] at h
      subst h; exact t2
    | extBare _ _ f s h hcs =>
      simp only [toJson, toJsonWith, fromValue_ext, CJ.toJson, Except.ok.injEq, Json.obj.injEq, List.cons.injEq,
        Prod.mk.injEq, true_and, and_true, Json.str.injEq] at h
      obtain ⟨_, h2⟩ := h
      subst h2; exact t1
  | ipaddr v6 a p =>
    simp only [instOf, beq_iff_eq] at hinst
    subst hinst
    simp only [Except.ok.injEq] at hc
    subst hc
    simp only [CJ.intoExpr, vi, if_true, bind, Except.bind, Except.ok.injEq] at he
    subst he
    obtain ⟨t1, t2, t3⟩ := typed_ext_single "ipaddr" "ip" (String.ofList (renderIp v6 a p)) n rfl
    cases hform with
    | extExplicit _ _ _ h =>
      simp only [toJson, toJsonWith, fromValue_ext, CJ.toJson, Except.ok.injEq] at h
      subst h; exact t3
    | extImplicit _ _ _ h =>
      simp only [toJson, toJsonWith, fromValue_ext, CJ.toJson, Except.ok.injEq, Json.obj.injEq, List.cons.injEq,
        Prod.mk.injEq, true_and, and_true] at h
      subst h; exact t2
    | extBare _ _ f s h hcs =>
      simp only [toJson, toJsonWith, fromValue_ext, CJ.toJson, Except.ok.injEq, Json.obj.injEq, List.cons.injEq,
        Prod.mk.injEq, true_and, and_true, Json.str.injEq] at h
      obtain ⟨_, h2⟩ := h
      subst h2; exact t1
  | duration ms =>
    simp only [instOf, beq_iff_eq] at hinst
    subst hinst
    simp only [Except.ok.injEq] at hc
    subst hc
    simp only [CJ.intoExpr, vu, if_true, bind, Except.bind, Except.ok.injEq] at he
    subst he
    obtain ⟨t1, t2, t3⟩ := typed_ext_single "duration" "duration" (String.ofList (renderDuration ms)) n rfl
    cases hform with
    | extExplicit _ _ _ h =>
      simp only [toJson, toJsonWith, fromValue_ext, CJ.toJson, Except.ok.injEq] at h
      subst h; exact t3
    | extImplicit _ _ _ h =>
      simp only [toJson, toJsonWith, fromValue_ext, CJ.toJson, Except.ok.injEq, Json.obj.injEq, List.cons.injEq,
        Prod.mk.injEq, true_and, and_true] at h
      subst h; exact t2
    | extBare _ _ f s h hcs =>
      simp only [toJson, toJsonWith, fromValue_ext, CJ.toJson, Except.ok.injEq, Json.obj.injEq, List.cons.injEq,
        Prod.mk.injEq, true_and, and_true, Json.str.injEq] at h
      obtain ⟨_, h2⟩ := h
      subst h2; exact t1
  | datetime ms =>
    simp only [instOf, beq_iff_eq] at hinst
    subst hinst
    simp only [Except.ok.injEq] at hc
    subst hc
    simp only [CJ.intoExpr, CJ.intoExprList, vo, vt, vu, if_true, bind, Except.bind, Except.ok.injEq] at he
    subst he
    obtain ⟨t2, t3⟩ := typed_ext_offset (String.ofList (renderDuration ms)) n
    cases hform with
    | extExplicit _ _ _ h =>
      simp only [toJson, toJsonWith, fromValue_ext, CJ.toJson, CJ.toJsonList, Except.ok.injEq] at h
      subst h; exact t3
    | extImplicit _ _ _ h =>
      simp only [toJson, toJsonWith, fromValue_ext, CJ.toJson, CJ.toJsonList, Except.ok.injEq, Json.obj.injEq,
        List.cons.injEq, Prod.mk.injEq, true_and, and_true] at h
      subst h; exact t2
    | extBare _ _ f s h hcs =>
      simp [toJson, toJsonWith, fromValue_ext, CJ.toJson, CJ.toJsonList] at h

end Cedar.C10
