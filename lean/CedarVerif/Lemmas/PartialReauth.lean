import CedarVerif.Lemmas.PartialTable2
import CedarVerif.Lemmas.Auth
/- `reauthorize` vs a fresh concrete authorization, given per-policy agreement of the residual policies. -/
namespace Cedar

/-- the policy `all_residual_policies` builds for `p`, by the class partial evaluation gave it -/
def residualPolicy (c : PolicyResult) (p : Policy) : Option Policy :=
  match c with
  | .sat => some { id := p.id, effect := p.effect, condition := residualCondition (.lit (.bool true)), env := [] }
  | .unsat => some { id := p.id, effect := p.effect, condition := residualCondition (.lit (.bool false)), env := [] }
  | .err => some { id := p.id, effect := p.effect, condition := residualCondition (.lit (.bool false)), env := [] }
  | .residual e => some { id := p.id, effect := p.effect, condition := residualCondition e, env := [] }
  | .stuck => none

theorem residualPolicy_id {c : PolicyResult} {p q : Policy} (h : residualPolicy c p = some q) :
    q.id = p.id ∧ q.effect = p.effect := by
  cases c <;> simp [residualPolicy] at h <;> subst h <;> exact ⟨rfl, rfl⟩

/-- class `c` of the re-evaluated residual policy vs. concrete outcome `o`: satisfied exactly together, and the
    re-evaluation is neither residual nor stuck -/
def SatAgrees (c : PolicyResult) (o : Outcome) : Prop :=
  match c with
  | .sat => o = .sat
  | .unsat => o ≠ .sat
  | .err => o ≠ .sat
  | .residual _ => False
  | .stuck => False

/-- the residual policy of `p`, re-evaluated under the substitution on the concretised request and store,
    is satisfied exactly when `p` is satisfied concretely (and evaluation is not stuck / residual) -/
def PolicyAgrees (σ : Mapper) (preq : PRequest) (pes : PEntities) (req' : Request) (es' : Entities) (p : Policy) : Prop :=
  ∃ q, residualPolicy (partialEvaluate [] preq pes p) p = some q ∧
    SatAgrees (partialEvaluate σ (.ofConcrete req') (.ofConcrete es') q) (p.outcome req' es')

/-- `PolicyAgrees` for an arbitrary second-pass store `pes2` (the store handed to `reauthorize`): the residual policy of
    `p`, re-evaluated under the substitution on the concretised request and `pes2`, is satisfied exactly when `p` is
    satisfied concretely on `(req', es')`.  `PolicyAgrees` is the instance `pes2 = .ofConcrete es'`. -/
def PolicyAgreesOn (pes2 : PEntities) (σ : Mapper) (preq : PRequest) (pes : PEntities) (req' : Request) (es' : Entities)
    (p : Policy) : Prop :=
  ∃ q, residualPolicy (partialEvaluate [] preq pes p) p = some q ∧
    SatAgrees (partialEvaluate σ (.ofConcrete req') pes2 q) (p.outcome req' es')

theorem policyAgrees_iff_on (σ : Mapper) (preq : PRequest) (pes : PEntities) (req' : Request) (es' : Entities) (p : Policy) :
    PolicyAgrees σ preq pes req' es' p ↔ PolicyAgreesOn (.ofConcrete es') σ preq pes req' es' p := Iff.rfl

section
variable (preq : PRequest) (pes : PEntities) (ps : List Policy)

theorem mem_allResidualPolicies (q : Policy) :
    q ∈ (isAuthorizedCore [] preq pes ps).allResidualPolicies ↔
      ∃ p, p ∈ ps ∧ residualPolicy (partialEvaluate [] preq pes p) p = some q := by
  have S := core_spec [] pes preq ps
  unfold PartialResponse.allResidualPolicies
  simp only [List.mem_append, List.mem_map]
  constructor
  · rintro (((((⟨id, hid, rfl⟩ | ⟨⟨id, b⟩, hid, rfl⟩) | ⟨⟨id, e⟩, hid, rfl⟩) | ⟨id, hid, rfl⟩) | ⟨⟨id, b⟩, hid, rfl⟩) | ⟨⟨id, e⟩, hid, rfl⟩)
    · rcases (S.sp id).mp hid with h | ⟨p, hp, rfl, he, hs⟩
      · cases h
      · exact ⟨p, hp, by simp [residualPolicy, hs, he]⟩
    · rcases (S.fp id b).mp hid with h | ⟨p, hp, rfl, he, hs⟩
      · cases h
      · rcases hs with ⟨_, hs⟩ | ⟨_, hs⟩ <;> exact ⟨p, hp, by simp [residualPolicy, hs, he]⟩
    · rcases (S.rp id e).mp hid with h | ⟨p, hp, rfl, he, hs⟩
      · cases h
      · exact ⟨p, hp, by simp [residualPolicy, hs, he]⟩
    · rcases (S.sf id).mp hid with h | ⟨p, hp, rfl, he, hs⟩
      · cases h
      · exact ⟨p, hp, by simp [residualPolicy, hs, he]⟩
    · rcases (S.ff id b).mp hid with h | ⟨p, hp, rfl, he, hs⟩
      · cases h
      · rcases hs with ⟨_, hs⟩ | ⟨_, hs⟩ <;> exact ⟨p, hp, by simp [residualPolicy, hs, he]⟩
    · rcases (S.rf id e).mp hid with h | ⟨p, hp, rfl, he, hs⟩
      · cases h
      · exact ⟨p, hp, by simp [residualPolicy, hs, he]⟩
  · rintro ⟨p, hp, hq⟩
    cases hs : partialEvaluate [] preq pes p with
    | stuck => rw [hs] at hq; simp [residualPolicy] at hq
    | sat =>
      rw [hs] at hq; simp only [residualPolicy, Option.some.injEq] at hq; subst hq
      cases he : p.effect with
      | permit => exact Or.inl (Or.inl (Or.inl (Or.inl (Or.inl ⟨p.id, (S.sp p.id).mpr (Or.inr ⟨p, hp, rfl, he, hs⟩), rfl⟩))))
      | forbid => exact Or.inl (Or.inl (Or.inr ⟨p.id, (S.sf p.id).mpr (Or.inr ⟨p, hp, rfl, he, hs⟩), rfl⟩))
    | unsat =>
      rw [hs] at hq; simp only [residualPolicy, Option.some.injEq] at hq; subst hq
      cases he : p.effect with
      | permit => exact Or.inl (Or.inl (Or.inl (Or.inl (Or.inr ⟨(p.id, false), (S.fp p.id false).mpr (Or.inr ⟨p, hp, rfl, he, Or.inl ⟨rfl, hs⟩⟩), rfl⟩))))
      | forbid => exact Or.inl (Or.inr ⟨(p.id, false), (S.ff p.id false).mpr (Or.inr ⟨p, hp, rfl, he, Or.inl ⟨rfl, hs⟩⟩), rfl⟩)
    | err =>
      rw [hs] at hq; simp only [residualPolicy, Option.some.injEq] at hq; subst hq
      cases he : p.effect with
      | permit => exact Or.inl (Or.inl (Or.inl (Or.inl (Or.inr ⟨(p.id, true), (S.fp p.id true).mpr (Or.inr ⟨p, hp, rfl, he, Or.inr ⟨rfl, hs⟩⟩), rfl⟩))))
      | forbid => exact Or.inl (Or.inr ⟨(p.id, true), (S.ff p.id true).mpr (Or.inr ⟨p, hp, rfl, he, Or.inr ⟨rfl, hs⟩⟩), rfl⟩)
    | residual e =>
      rw [hs] at hq; simp only [residualPolicy, Option.some.injEq] at hq; subst hq
      cases he : p.effect with
      | permit => exact Or.inl (Or.inl (Or.inl (Or.inr ⟨(p.id, e), (S.rp p.id e).mpr (Or.inr ⟨p, hp, rfl, he, hs⟩), rfl⟩)))
      | forbid => exact Or.inr ⟨(p.id, e), (S.rf p.id e).mpr (Or.inr ⟨p, hp, rfl, he, hs⟩), rfl⟩

end

theorem isEmpty_congr {α} {l1 l2 : List α} (h : ∀ x, x ∈ l1 ↔ x ∈ l2) : l1.isEmpty = l2.isEmpty := by
  cases l1 with
  | nil =>
    cases l2 with
    | nil => rfl
    | cons b t => exact ((h b).mpr List.mem_cons_self |> fun h => by cases h)
  | cons a t =>
    cases l2 with
    | nil => exact ((h a).mp List.mem_cons_self |> fun h => by cases h)
    | cons b t' => rfl

/-- `reauthorize` against an arbitrary second-pass store `pes2`, given policy-level agreement on that store -/
theorem reauthorize_core_on (pes2 : PEntities) (σ : Mapper) (preq : PRequest) (pes : PEntities) (ps : List Policy)
    (req' : Request) (es' : Entities)
    (hreq : (isAuthorizedCore [] preq pes ps).concretizeRequest σ = .ok (.ofConcrete req'))
    (hslot : (isAuthorizedCore [] preq pes ps).residualPoliciesPanic = false)
    (hsound : ∀ p, p ∈ ps → PolicyAgreesOn pes2 σ preq pes req' es' p) :
    ∃ pr2, (isAuthorizedCore [] preq pes ps).reauthorize σ pes2 = .ok pr2 ∧
      pr2.decision = some (isAuthorized req' es' ps).decision ∧
      pr2.concretize.decision = (isAuthorized req' es' ps).decision ∧
      (∀ id, id ∈ pr2.concretize.reasons ↔ id ∈ (isAuthorized req' es' ps).reasons) := by
  let pr := isAuthorizedCore [] preq pes ps
  let Q := pr.allResidualPolicies
  let pr2 := isAuthorizedCore σ (.ofConcrete req') pes2 Q
  have hre : pr.reauthorize σ pes2 = .ok pr2 := by
    show (isAuthorizedCore [] preq pes ps).reauthorize σ pes2 = _
    unfold PartialResponse.reauthorize
    simp only [hslot, Bool.false_eq_true, if_false]
    rw [hreq]; rfl
  refine ⟨pr2, hre, ?_⟩
  have S2 := core_spec σ pes2 (.ofConcrete req') Q
  have hQ := mem_allResidualPolicies preq pes ps
  -- satisfied buckets of the re-authorization = concretely satisfied policies
  have sat_iff : ∀ (eff : Effect) (id : String),
      (∃ q, q ∈ Q ∧ id = q.id ∧ q.effect = eff ∧ partialEvaluate σ (.ofConcrete req') pes2 q = .sat) ↔
      (∃ p, p ∈ ps ∧ id = p.id ∧ p.effect = eff ∧ Sat req' es' p) := by
    intro eff id
    constructor
    · rintro ⟨q, hq, rfl, he, hs⟩
      obtain ⟨p, hp, hpq⟩ := (hQ q).mp hq
      obtain ⟨q', hq', hm⟩ := hsound p hp
      rw [hpq] at hq'; cases hq'
      rw [hs] at hm
      obtain ⟨h1, h2⟩ := residualPolicy_id hpq
      exact ⟨p, hp, h1, h2 ▸ he, hm⟩
    · rintro ⟨p, hp, rfl, he, hs⟩
      obtain ⟨q, hq, hm⟩ := hsound p hp
      obtain ⟨h1, h2⟩ := residualPolicy_id hq
      refine ⟨q, (hQ q).mpr ⟨p, hp, hq⟩, h1.symm, h2.trans he, ?_⟩
      cases hc : partialEvaluate σ (.ofConcrete req') pes2 q with
      | sat => rfl
      | unsat => rw [hc] at hm; exact (hm hs).elim
      | err => rw [hc] at hm; exact (hm hs).elim
      | residual e => rw [hc] at hm; exact hm.elim
      | stuck => rw [hc] at hm; exact hm.elim
  have no_res : ∀ q, q ∈ Q → ∀ e, partialEvaluate σ (.ofConcrete req') pes2 q ≠ .residual e := by
    intro q hq e hc
    obtain ⟨p, hp, hpq⟩ := (hQ q).mp hq
    obtain ⟨q', hq', hm⟩ := hsound p hp
    rw [hpq] at hq'; cases hq'
    rw [hc] at hm; exact hm
  have hSP : ∀ id, id ∈ pr2.satisfiedPermits ↔ id ∈ (ps.foldl (Buckets.step req' es') {}).satPermits := by
    intro id
    rw [S2.sp id, mem_satPermits]
    simp only [List.not_mem_nil, false_or]
    exact sat_iff .permit id
  have hSF : ∀ id, id ∈ pr2.satisfiedForbids ↔ id ∈ (ps.foldl (Buckets.step req' es') {}).satForbids := by
    intro id
    rw [S2.sf id, mem_satForbids]
    simp only [List.not_mem_nil, false_or]
    exact sat_iff .forbid id
  have hRP : pr2.residualPermits = [] := by
    cases hl : pr2.residualPermits with
    | nil => rfl
    | cons x t =>
      obtain ⟨id, e⟩ := x
      have : (id, e) ∈ pr2.residualPermits := by rw [hl]; exact List.mem_cons_self
      rcases (S2.rp id e).mp this with h | ⟨q, hq, _, _, hc⟩
      · cases h
      · exact (no_res q hq e hc).elim
  have hRF : pr2.residualForbids = [] := by
    cases hl : pr2.residualForbids with
    | nil => rfl
    | cons x t =>
      obtain ⟨id, e⟩ := x
      have : (id, e) ∈ pr2.residualForbids := by rw [hl]; exact List.mem_cons_self
      rcases (S2.rf id e).mp this with h | ⟨q, hq, _, _, hc⟩
      · cases h
      · exact (no_res q hq e hc).elim
  have eSP := isEmpty_congr hSP
  have eSF := isEmpty_congr hSF
  refine ⟨?_, ?_, ?_⟩
  · unfold PartialResponse.decision isAuthorized Buckets.concretize
    rw [hRP, hRF, eSP, eSF]
    cases (ps.foldl (Buckets.step req' es') {}).satPermits.isEmpty <;>
      cases (ps.foldl (Buckets.step req' es') {}).satForbids.isEmpty <;> simp [Table.decide]
  · unfold PartialResponse.concretize isAuthorized Buckets.concretize
    simp only [eSP, eSF]
  · intro id
    unfold PartialResponse.concretize isAuthorized Buckets.concretize PartialResponse.mustBeDetermining
    simp only [hRF, List.isEmpty_nil, Bool.and_true, eSF]
    cases (ps.foldl (Buckets.step req' es') {}).satForbids.isEmpty
    · simp only [Bool.false_eq_true, if_false]; exact hSF id
    · simp only [if_true]; exact hSP id

theorem reauthorize_core (σ : Mapper) (preq : PRequest) (pes : PEntities) (ps : List Policy)
    (req' : Request) (es' : Entities)
    (hreq : (isAuthorizedCore [] preq pes ps).concretizeRequest σ = .ok (.ofConcrete req'))
    (hslot : (isAuthorizedCore [] preq pes ps).residualPoliciesPanic = false)
    (hsound : ∀ p, p ∈ ps → PolicyAgrees σ preq pes req' es' p) :
    ∃ pr2, (isAuthorizedCore [] preq pes ps).reauthorize σ (.ofConcrete es') = .ok pr2 ∧
      pr2.decision = some (isAuthorized req' es' ps).decision ∧
      pr2.concretize.decision = (isAuthorized req' es' ps).decision ∧
      (∀ id, id ∈ pr2.concretize.reasons ↔ id ∈ (isAuthorized req' es' ps).reasons) :=
  reauthorize_core_on (.ofConcrete es') σ preq pes ps req' es' hreq hslot hsound

end Cedar
