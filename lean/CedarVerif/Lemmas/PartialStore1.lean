import CedarVerif.Lemmas.PartialSubst5
/-
C13, partial stores and residual contexts: the completion relations `PS.StoreCompletes` / `PS.CtxCompletes` /
`PS.Concretizes2` and the store-access lemmas of the first pass (`pes.entity`, attribute and tag look-ups, the three
store-dependent binary operators) under them.

`StoreCompletes σ pes es`: the concrete store `es` completes the partial store `pes` under σ —
  * an entity present in `pes` is present in `es` with the same ancestors; attribute / tag by attribute / tag: absent in
    both, or a known value equal to the concrete one, or a residual (`PartialValue::Residual`, a restricted expression with
    unknowns) that lies in `Frag2 σ` (σ defines its unknowns) and whose substitution evaluates to the concrete value;
  * an entity missing from a concrete-mode store is absent from `es`;
  * an entity missing from a `.partial()` store (it becomes `unknown(uid)` on dereference) is bound by σ *to itself*
    (`Bound`); what `es` holds for it is arbitrary.  "absent and unbound" is NOT enough: `has` / `in` / `hasTag` on an absent
    entity are values concretely, but errors on the unsubstituted `unknown(uid)` (`missing_unbound_counterexample`).
-/
namespace Cedar
namespace PS

/-- the unknown a `.partial()` store creates for the missing entity `u` is bound by σ to `u` itself -/
def Bound (σ : Mapper) (u : EntityUID) : Prop := lookupKV σ (uidName u) = some (.prim (.entityUID u))

/-- the concrete value `v` completes the partial attribute / tag value `pv` -/
def AttrCompletes (σ : Mapper) (es : Entities) (pv : PartialValue) (v : Value) : Prop :=
  match pv with
  | .value w => w = v ∧ v.Canon
  | .residual r => Frag2 σ r ∧ v.Canon ∧ ∀ req env, Y σ req es env r = .ok v

/-- key by key (first binding, as `lookupKV` / the Rust maps see it) -/
def AttrsComplete (σ : Mapper) (es : Entities) (pkvs : List (String × PartialValue)) (kvs : List (String × Value)) : Prop :=
  ∀ a, match lookupKV pkvs a with
    | none => lookupKV kvs a = none
    | some pv => ∃ v, lookupKV kvs a = some v ∧ AttrCompletes σ es pv v

def StoreCompletes (σ : Mapper) (pes : PEntities) (es : Entities) : Prop :=
  ∀ u, match PEntities.find? pes.ents u with
    | some d => ∃ d', es.find? u = some d' ∧ d'.ancestors = d.ancestors ∧
        AttrsComplete σ es d.attrs d'.attrs ∧ AttrsComplete σ es d.tags d'.tags
    | none => if pes.partialMode then Bound σ u else es.find? u = none

/-- the concrete context completes the partial one: a value, entirely unknown (σ maps `context`), or a residual record
    (`Context::Residual` / `RestrictedResidual`) in the fragment whose substitution evaluates to the concrete context -/
def CtxCompletes (σ : Mapper) (es : Entities) (pc : Option PContext) (ctx : List (String × Value)) : Prop :=
  match pc with
  | some (.value kvs) => kvs = ctx
  | none => lookupKV σ "context" = some (.record ctx)
  | some (.residual kvs) => Frag2 σ (.record kvs) ∧ ∀ req env, Y σ req es env (.record kvs) = .ok (.record ctx)

/-- `Concretizes` with residual contexts -/
structure Concretizes2 (σ : Mapper) (es : Entities) (preq : PRequest) (req : Request) : Prop where
  principal : preq.principal.Conc σ "principal" req.principal
  action : preq.action.Conc σ "action" req.action
  resource : preq.resource.Conc σ "resource" req.resource
  context : CtxCompletes σ es preq.context req.context

theorem concretizes2_of (σ : Mapper) (es : Entities) {preq : PRequest} {req : Request} (h : Concretizes σ preq req) :
    Concretizes2 σ es preq req := by
  refine ⟨h.principal, h.action, h.resource, ?_⟩
  have hc := h.context
  unfold CtxCompletes
  cases hp : preq.context with
  | none => rw [hp] at hc; exact hc
  | some c =>
    cases c with
    | value kvs => rw [hp] at hc; exact hc
    | residual kvs => rw [hp] at hc; exact hc.elim

theorem concretizes2_ofConcrete (σ : Mapper) (es : Entities) (req : Request) : Concretizes2 σ es (.ofConcrete req) req :=
  concretizes2_of σ es (concretizes_ofConcrete σ req)

/-! ### unfolding the relations -/

section
variable {σ : Mapper} {pes : PEntities} {es : Entities}

theorem StoreCompletes.data (h : StoreCompletes σ pes es) {u : EntityUID} {d : PEntityData}
    (hf : PEntities.find? pes.ents u = some d) :
    ∃ d', es.find? u = some d' ∧ d'.ancestors = d.ancestors ∧
      AttrsComplete σ es d.attrs d'.attrs ∧ AttrsComplete σ es d.tags d'.tags := by
  have := h u; rw [hf] at this; exact this

theorem StoreCompletes.noSuch (h : StoreCompletes σ pes es) {u : EntityUID}
    (hf : PEntities.find? pes.ents u = none) (hp : pes.partialMode = false) : es.find? u = none := by
  have := h u; rw [hf] at this; simpa [hp] using this

theorem StoreCompletes.bound (h : StoreCompletes σ pes es) {u : EntityUID}
    (hf : PEntities.find? pes.ents u = none) (hp : pes.partialMode = true) : Bound σ u := by
  have := h u; rw [hf] at this; simpa [hp] using this

theorem AttrsComplete.get_none {pkvs : List (String × PartialValue)} {kvs : List (String × Value)}
    (h : AttrsComplete σ es pkvs kvs) {a : String} (hl : lookupKV pkvs a = none) : lookupKV kvs a = none := by
  have := h a; rw [hl] at this; exact this

theorem AttrsComplete.get_some {pkvs : List (String × PartialValue)} {kvs : List (String × Value)}
    (h : AttrsComplete σ es pkvs kvs) {a : String} {pv : PartialValue} (hl : lookupKV pkvs a = some pv) :
    ∃ v, lookupKV kvs a = some v ∧ AttrCompletes σ es pv v := by
  have := h a; rw [hl] at this; exact this

theorem AttrsComplete.isSome {pkvs : List (String × PartialValue)} {kvs : List (String × Value)}
    (h : AttrsComplete σ es pkvs kvs) (a : String) : (lookupKV pkvs a).isSome = (lookupKV kvs a).isSome := by
  cases hl : lookupKV pkvs a with
  | none => rw [h.get_none hl]; rfl
  | some pv => obtain ⟨v, hv, _⟩ := h.get_some hl; rw [hv]; rfl

/-- the three outcomes of `Entities::entity` -/
theorem entity_cases (pes : PEntities) (u : EntityUID) :
    (∃ d, PEntities.find? pes.ents u = some d ∧ pes.entity u = .data d) ∨
    (PEntities.find? pes.ents u = none ∧ pes.partialMode = false ∧ pes.entity u = .noSuch) ∨
    (PEntities.find? pes.ents u = none ∧ pes.partialMode = true ∧
      pes.entity u = .residual (.unknown (uidName u) (some (.entity u.ty)))) := by
  unfold PEntities.entity
  cases hf : PEntities.find? pes.ents u with
  | some d => exact Or.inl ⟨d, rfl, rfl⟩
  | none =>
    cases hp : pes.partialMode with
    | false => exact Or.inr (Or.inl ⟨rfl, rfl, by simp⟩)
    | true => exact Or.inr (Or.inr ⟨rfl, rfl, by simp⟩)

end

/-! ### the unknown of a missing entity -/

section
variable {σ : Mapper} (req : Request) (es : Entities) (env : SlotEnv)

theorem unkOK_of_bound {u : EntityUID} (h : Bound σ u) : UnkOK σ (uidName u) (some (.entity u.ty)) :=
  ⟨_, h, trivial, by intro t ht; cases ht; rfl⟩

theorem Y_bound {u : EntityUID} (h : Bound σ u) :
    Y σ req es env (.unknown (uidName u) (some (.entity u.ty))) = .ok (.prim (.entityUID u)) :=
  Y_unknown σ req es env h trivial

/-- a residual of the fragment that evaluates to `v` satisfies the typed-unknown side condition -/
theorem typedOK_of_frag2 {r : Expr} {v : Value} (hf : Frag2 σ r) (hy : Y σ req es env r = .ok v) : TypedOK r (.ok v) := by
  intro name t hr
  subst hr
  cases hf with
  | unknown _ _ h =>
    obtain ⟨v', hl, hc, hty⟩ := h
    rw [Y_unknown σ req es env hl hc] at hy
    cases hy
    obtain ⟨u, hu, hut⟩ := typeOf_entity (hty _ rfl)
    exact ⟨u, by rw [hu], hut⟩

end

/-! ### attribute / tag values under the first pass -/

/-- what `get_attr` returns for an attribute value of an entity: a known value; a *direct* `Unknown` goes through the
    mapper; any other residual is returned unchanged (unknowns nested in it stay undiscovered in this pass) -/
def attrRes (m0 : Mapper) : PartialValue → PRes
  | .value v => .val v
  | .residual (.unknown name ty) => unknownToPV m0 name ty
  | .residual r => .res r

section
variable {σ : Mapper} {req : Request} {es : Entities} {env : SlotEnv}

theorem sound2_unknownToPV {m0 : Mapper} (hm : MapLE m0 σ) {name : String} {ty : Option TyAnn} (h : UnkOK σ name ty) :
    Sound2 σ req es env (Y σ req es env (.unknown name ty)) (unknownToPV m0 name ty) := by
  have := sound2_unknown σ req es env m0 (.ofConcrete req) hm name ty h 1
  simpa [pinterp] using this

theorem sound2_attrRes {m0 : Mapper} (hm : MapLE m0 σ) {pv : PartialValue} {v : Value} (h : AttrCompletes σ es pv v) :
    Sound2 σ req es env (.ok v) (attrRes m0 pv) := by
  cases pv with
  | value w =>
    obtain ⟨rfl, hc⟩ := h
    exact s2_val rfl hc
  | residual r =>
    obtain ⟨hf, hc, hy⟩ := h
    have hyr := hy req env
    have gen : Sound2 σ req es env (.ok v) (.res r) :=
      s2_res (by rw [hyr]; simp) (typedOK_of_frag2 req es env hf hyr) hf
    cases r with
    | unknown name ty =>
      cases hf with
      | unknown _ _ hu =>
        have := sound2_unknownToPV (req := req) (es := es) (env := env) hm hu
        rw [hyr] at this
        exact this
    | _ => exact gen

/-- tags are returned as they are (`PRes.ofPV`): no mapper, not even for a direct `Unknown` -/
theorem sound2_ofPV {pv : PartialValue} {v : Value} (h : AttrCompletes σ es pv v) :
    Sound2 σ req es env (.ok v) (PRes.ofPV pv) := by
  cases pv with
  | value w =>
    obtain ⟨rfl, hc⟩ := h
    exact s2_val rfl hc
  | residual r =>
    obtain ⟨hf, hc, hy⟩ := h
    have hyr := hy req env
    exact s2_res (by rw [hyr]; simp) (typedOK_of_frag2 req es env hf hyr) hf

end

/-! ### building the relations for explicit stores -/

section
variable {σ : Mapper} {es : Entities}

theorem attrsComplete_nil : AttrsComplete σ es [] [] := by intro a; simp [lookupKV]

theorem attrsComplete_cons (k : String) {pv : PartialValue} {v : Value} (h : AttrCompletes σ es pv v)
    {pkvs : List (String × PartialValue)} {kvs : List (String × Value)} (hr : AttrsComplete σ es pkvs kvs) :
    AttrsComplete σ es ((k, pv) :: pkvs) ((k, v) :: kvs) := by
  intro a
  simp only [lookupKV]
  by_cases hk : (k == a) = true
  · simp only [hk, if_true]; exact ⟨v, rfl, h⟩
  · simp only [hk, Bool.false_eq_true, if_false]; exact hr a

/-- a one-entity store (concrete mode) -/
theorem storeCompletes_single (u : EntityUID) (d : PEntityData) (d' : EntityData) (hanc : d'.ancestors = d.ancestors)
    (ha : AttrsComplete σ [(u, d')] d.attrs d'.attrs) (ht : AttrsComplete σ [(u, d')] d.tags d'.tags) :
    StoreCompletes σ ⟨[(u, d)], false⟩ [(u, d')] := by
  intro w
  simp only [PEntities.find?, Entities.find?]
  by_cases hk : (u == w) = true
  · simp only [hk, if_true]; exact ⟨d', rfl, hanc, ha, ht⟩
  · simp [hk]

theorem storeCompletes_ofConcrete_nil (σ : Mapper) : StoreCompletes σ (.ofConcrete []) [] := by
  intro w; simp [PEntities.ofConcrete, PEntities.find?, Entities.find?]

end

end PS
end Cedar
