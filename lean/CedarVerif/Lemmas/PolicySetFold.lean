import CedarVerif.Lemmas.PolicySetSpec
import CedarVerif.Lemmas.TypecheckBeq
/-
C08 helper lemmas, part 10 (for `merge_policyset`): folding `insert` over an insertion-ordered map with an
injective key transformation; the derived equalities of templates and policies decide equality.
-/
namespace Cedar
open LHM

/-- the fold step used by all three loops of `merge_policyset`: insert under the transformed key a value that may
depend on what is currently stored there -/
def LHM.insStep {α β} (f : String → String) (h : String → α → Option β → β) (m : LHM β) (e : String × α) : LHM β :=
  m.insert (f e.1) (h e.1 e.2 (m.get? (f e.1)))

theorem LHM.foldl_insStep {α β} (f : String → String) (h : String → α → Option β → β) :
    ∀ (l : LHM α) (m0 : LHM β), l.keys.Nodup →
    (∀ k k', (l.get? k).isSome = true → (l.get? k').isSome = true → f k = f k' → k = k') →
    (∀ k v, l.get? k = some v →
      LHM.get? (l.foldl (LHM.insStep f h) m0) (f k) = some (h k v (m0.get? (f k)))) ∧
    (∀ x, (∀ k, (l.get? k).isSome = true → f k ≠ x) → LHM.get? (l.foldl (LHM.insStep f h) m0) x = m0.get? x) ∧
    (m0.keys.Nodup → (LHM.keys (l.foldl (LHM.insStep f h) m0)).Nodup) := by
  intro l
  induction l with
  | nil =>
    intro m0 _ _
    refine ⟨?_, ?_, ?_⟩
    · intro k v hk; simp at hk
    · intro x _; rfl
    · intro h; exact h
  | cons e rest ih =>
    obtain ⟨k0, v0⟩ := e
    intro m0 nd inj
    have nd' : (k0 :: LHM.keys rest).Nodup := nd
    rw [List.nodup_cons] at nd'
    have hk0 : LHM.get? rest k0 = none := by
      cases hg : LHM.get? rest k0 with
      | none => rfl
      | some v => exact absurd ((mem_keys_iff rest k0).mpr (by simp [hg])) nd'.1
    have hsub : ∀ k, (LHM.get? rest k).isSome = true → (LHM.get? ((k0, v0) :: rest) k).isSome = true := by
      intro k hk
      rw [get?_cons]
      by_cases e : k0 = k
      · simp [e]
      · simp only [e, if_false]; exact hk
    have hne : ∀ k, (LHM.get? rest k).isSome = true → f k ≠ f k0 := by
      intro k hk e
      have := inj k k0 (hsub k hk) (by simp [get?_cons]) e
      subst this
      rw [hk0] at hk; cases hk
    obtain ⟨ihin, ihout, ihnd⟩ := ih (LHM.insStep f h m0 (k0, v0)) nd'.2
      (fun k k' hk hk' => inj k k' (hsub k hk) (hsub k' hk'))
    simp only [List.foldl_cons]
    refine ⟨?_, ?_, ?_⟩
    · intro k v hk
      rw [get?_cons] at hk
      by_cases e : k0 = k
      · subst e
        simp only [if_true, Option.some.injEq] at hk
        subst hk
        rw [ihout (f k0) hne]
        simp [LHM.insStep, get?_insert]
      · simp only [e, if_false] at hk
        rw [ihin k v hk]
        have : f k ≠ f k0 := hne k (by simp [hk])
        simp [LHM.insStep, get?_insert, this]
    · intro x hx
      rw [ihout x (fun k hk => hx k (hsub k hk))]
      have : x ≠ f k0 := fun e => hx k0 (by simp [get?_cons]) e.symm
      simp [LHM.insStep, get?_insert, this]
    · intro hm
      exact ihnd (nodup_insert _ _ _ hm)

/-! ### derived equalities decide equality -/

theorem optExprBeq_eq {a b : Option Expr} (h : optExprBeq a b = true) : a = b := by
  cases a <;> cases b <;> simp only [optExprBeq, Bool.false_eq_true] at h
  · rfl
  · rw [Expr.beq_eq _ _ h]

theorem TemplateBody.beq_eq {a b : TemplateBody} (h : a.beq b = true) : a = b := by
  unfold TemplateBody.beq at h
  simp only [Bool.and_eq_true, beq_iff_eq] at h
  obtain ⟨⟨⟨⟨⟨⟨h1, h2⟩, h3⟩, h4⟩, h5⟩, h6⟩, h7⟩ := h
  cases a; cases b
  simp only at h1 h2 h3 h4 h5 h6 h7
  rw [h1, h2, h3, h4, h5, h6, optExprBeq_eq h7]

theorem Template.beq_eq {a b : Template} (h : a.beq b = true) : a = b := by
  unfold Template.beq at h
  simp only [Bool.and_eq_true, beq_iff_eq] at h
  cases a; cases b
  simp only at h
  rw [TemplateBody.beq_eq h.1, h.2]

theorem TPolicy.beq_eq {a b : TPolicy} (h : a.beq b = true) : a = b := by
  unfold TPolicy.beq at h
  simp only [Bool.and_eq_true, beq_iff_eq] at h
  cases a; cases b
  simp only at h
  rw [Template.beq_eq h.1.1, h.1.2, h.2]

mutual
theorem Expr.beq_refl : ∀ (a : Expr), Expr.beq a a = true
  | .lit p => by simp [Expr.beq]
  | .var v => by simp [Expr.beq]
  | .slot s => by simp [Expr.beq]
  | .unknown n t => by simp [Expr.beq]
  | .ite a b c => by simp [Expr.beq, Expr.beq_refl a, Expr.beq_refl b, Expr.beq_refl c]
  | .and a b => by simp [Expr.beq, Expr.beq_refl a, Expr.beq_refl b]
  | .or a b => by simp [Expr.beq, Expr.beq_refl a, Expr.beq_refl b]
  | .unaryApp o a => by simp [Expr.beq, Expr.beq_refl a]
  | .binaryApp o a b => by simp [Expr.beq, Expr.beq_refl a, Expr.beq_refl b]
  | .call f xs => by simp [Expr.beq, Expr.beqList_refl xs]
  | .getAttr a k => by simp [Expr.beq, Expr.beq_refl a]
  | .hasAttr a k => by simp [Expr.beq, Expr.beq_refl a]
  | .like a p => by simp [Expr.beq, Expr.beq_refl a]
  | .is a t => by simp [Expr.beq, Expr.beq_refl a]
  | .set xs => by simp [Expr.beq, Expr.beqList_refl xs]
  | .record kvs => by simp [Expr.beq, Expr.beqKVs_refl kvs]
theorem Expr.beqList_refl : ∀ (as : List Expr), Expr.beqList as as = true
  | [] => by simp [Expr.beqList]
  | x :: xs => by simp [Expr.beqList, Expr.beq_refl x, Expr.beqList_refl xs]
theorem Expr.beqKVs_refl : ∀ (as : List (String × Expr)), Expr.beqKVs as as = true
  | [] => by simp [Expr.beqKVs]
  | (k, x) :: xs => by simp [Expr.beqKVs, Expr.beq_refl x, Expr.beqKVs_refl xs]
end

theorem Template.beq_refl (a : Template) : a.beq a = true := by
  unfold Template.beq TemplateBody.beq
  cases h : a.body.nonScope <;> simp [optExprBeq, Expr.beq_refl]

theorem TPolicy.beq_refl (a : TPolicy) : a.beq a = true := by
  unfold TPolicy.beq
  simp [Template.beq_refl]

end Cedar
