import CedarVerif.Lemmas.JsonTypedLeaf
import CedarVerif.Lemmas.JsonRefuse
import CedarVerif.Lemmas.JsonEntity
/-
C10, schema-directed parsing, all nesting depths: for a well-formed instance `v` of a closed type `τ`, every
document `Form (some τ) v j` allows is parsed by `typed` (any fuel ≥ size of the document + 3) to the restricted
expression `into_expr` produces from the `CedarValueJson` of `v` — the same expression for every implicit / explicit
choice.  Record types: the attribute walk of `typedAttrs` over a key-sorted attribute map.
-/
set_option linter.unusedSimpArgs false
namespace Cedar.C10
open Cedar Cedar.CJson

/-! ### the attribute walk over key-sorted maps -/

theorem lookupKV_isSome_of_mem {α} (kvs : List (String × α)) (k : String) (h : k ∈ kvs.map Prod.fst) :
    (lookupKV kvs k).isSome = true := by
  induction kvs with
  | nil => cases h
  | cons p kvs ih =>
    obtain ⟨k', v⟩ := p
    by_cases hk : k' = k
    · subst hk; simp [lookupKV]
    · rw [lookupKV_cons_ne _ _ _ _ hk]
      simp only [List.map_cons, List.mem_cons] at h
      rcases h with h | h
      · exact absurd h.symm hk
      · exact ih h

theorem closedAttrs_lookup : ∀ (attrs : List (String × Bool × SchemaType)) (k : String) (req : Bool) (ty : SchemaType),
    ClosedAttrs attrs → lookupKV attrs k = some (req, ty) → ClosedType ty
  | [], _, _, _, _, h => by simp [lookupKV] at h
  | (k', r', t') :: rest, k, req, ty, hc, h => by
    simp only [ClosedAttrs] at hc
    by_cases hk : k' = k
    · subst hk
      rw [lookupKV_cons_self] at h
      cases h
      exact hc.1
    · rw [lookupKV_cons_ne _ _ _ _ hk] at h
      exact closedAttrs_lookup rest k req ty hc.2 h

theorem sorted_head_lt {k : String} {rest : List String} (h : Sorted (k :: rest)) {k' : String} (hk : k' ∈ rest) :
    k < k' := h.1 k' hk

theorem sorted_tail {k : String} {rest : List String} (h : Sorted (k :: rest)) : Sorted rest := h.2

theorem typedAttrs_skip (f : SchemaType → Json → R Expr) (k : String) (j : Json) (js : List (String × Json)) :
    ∀ (attrs : List (String × Bool × SchemaType)), k ∉ attrs.map Prod.fst →
      typedAttrs f ((k, j) :: js) attrs = typedAttrs f js attrs
  | [], _ => rfl
  | (ka, req, ty) :: rest, h => by
    simp only [List.map_cons, List.mem_cons, not_or] at h
    have hne : k ≠ ka := h.1
    simp only [typedAttrs, lookupKV_cons_ne k ka j js hne, typedAttrs_skip f k j js rest h.2]

theorem rel2_imp_mem {α β} {R S : α → β → Prop} {as : List α} {bs : List β}
    (h : Rel2 R as bs) (himp : ∀ a b, a ∈ as → R a b → S a b) : Rel2 S as bs := by
  induction h with
  | nil => exact .nil
  | cons hab _ ih =>
    exact .cons (himp _ _ (List.mem_cons_self ..) hab)
      (ih (fun a b ha => himp a b (List.mem_cons_of_mem _ ha)))

/-- one member of the document against the attribute map: same key, declared, parsed under its declared type -/
def PairOK (f : SchemaType → Json → R Expr) (attrs : List (String × Bool × SchemaType))
    (kj : String × Json) (ke : String × Expr) : Prop :=
  kj.1 = ke.1 ∧ ∃ req ty, lookupKV attrs kj.1 = some (req, ty) ∧ f ty kj.2 = .ok ke.2

/-- **the attribute walk**: with a key-sorted attribute map and a key-sorted document all of whose members are
    declared and parse, and all required attributes present, `typedAttrs` returns the members' expressions in
    document order -/
theorem typedAttrs_sorted (f : SchemaType → Json → R Expr) :
    ∀ (attrs : List (String × Bool × SchemaType)) (js : List (String × Json)) (es : List (String × Expr)),
      Sorted (attrs.map Prod.fst) → Sorted (js.map Prod.fst) → Rel2 (PairOK f attrs) js es →
      (∀ a, a ∈ attrs → a.2.1 = true → (lookupKV js a.1).isSome = true) →
      typedAttrs f js attrs = .ok es
  | [], js, es, _, _, hrel, _ => by
    cases hrel with
    | nil => rfl
    | cons hab _ =>
      obtain ⟨_, req, ty, hl, _⟩ := hab
      simp [lookupKV] at hl
  | (ka, reqa, tya) :: rest, js, es, hsa, hsj, hrel, hreq => by
    have hsrest : Sorted (rest.map Prod.fst) := sorted_tail hsa
    cases hrel with
    | nil =>
      have hr : reqa = false := by
        cases reqa with
        | false => rfl
        | true => have := hreq (ka, true, tya) (List.mem_cons_self ..) rfl; simp [lookupKV] at this
      subst hr
      have ih := typedAttrs_sorted f rest [] [] hsrest (by simp [Sorted]) .nil
        (fun a ha hr => hreq a (List.mem_cons_of_mem _ ha) hr)
      simp only [typedAttrs, lookupKV] at ih ⊢
      simpa using ih
    | @cons kj ke js' es' hab hrest =>
      obtain ⟨k, j⟩ := kj
      obtain ⟨k', e⟩ := ke
      obtain ⟨hkk, req, ty, hl, hf⟩ := hab
      simp only at hkk hl hf
      subst hkk
      have hjs' : Sorted (js'.map Prod.fst) := sorted_tail hsj
      have hgt : ∀ q, q ∈ js' → k < q.1 := fun q hq =>
        sorted_head_lt hsj (List.mem_map_of_mem (f := Prod.fst) hq)
      by_cases hk : ka = k
      · subst hk
        rw [lookupKV_cons_self] at hl
        cases hl
        have hnot : ka ∉ rest.map Prod.fst := Sorted.not_mem hsa
        have hrel' : Rel2 (PairOK f rest) js' es' := by
          refine rel2_imp_mem hrest ?_
          rintro ⟨k1, j1⟩ ⟨k2, e2⟩ hm ⟨h1, r, t, h2, h3⟩
          have hne : ka ≠ k1 := by
            intro he; subst he; exact String.lt_irrefl _ (hgt _ hm)
          rw [lookupKV_cons_ne _ _ _ _ hne] at h2
          exact ⟨h1, r, t, h2, h3⟩
        have hreq' : ∀ a, a ∈ rest → a.2.1 = true → (lookupKV js' a.1).isSome = true := by
          intro a ha hr
          have := hreq a (List.mem_cons_of_mem _ ha) hr
          have hne : ka ≠ a.1 := by
            intro he
            exact hnot (he ▸ List.mem_map_of_mem (f := Prod.fst) ha)
          rwa [lookupKV_cons_ne _ _ _ _ hne] at this
        have ih := typedAttrs_sorted f rest js' es' hsrest hjs' hrel' hreq'
        simp only [typedAttrs, lookupKV_cons_self, hf, typedAttrs_skip f ka j js' rest hnot, ih, bind, Except.bind]
      · rw [lookupKV_cons_ne _ _ _ _ hk] at hl
        have hkr : k ∈ rest.map Prod.fst := lookupKV_mem rest k _ hl
        have hlt : ka < k := sorted_head_lt hsa hkr
        have hnone : lookupKV ((k, j) :: js') ka = none := by
          apply lookupKV_none_of_not_mem
          simp only [List.map_cons, List.mem_cons, not_or]
          refine ⟨fun he => hk he, ?_⟩
          intro hm
          obtain ⟨q, hq, hq1⟩ := List.mem_map.mp hm
          have := hgt q hq
          rw [hq1] at this
          exact String.lt_asymm hlt this
        have hr : reqa = false := by
          cases reqa with
          | false => rfl
          | true =>
            have := hreq (ka, true, tya) (List.mem_cons_self ..) rfl
            simp [hnone] at this
        subst hr
        have hrel' : Rel2 (PairOK f rest) ((k, j) :: js') ((k, e) :: es') := by
          refine rel2_imp_mem (.cons ⟨rfl, req, ty, by rw [lookupKV_cons_ne _ _ _ _ hk]; exact hl, hf⟩ hrest) ?_
          rintro ⟨k1, j1⟩ ⟨k2, e2⟩ hm ⟨h1, r, t, h2, h3⟩
          have hne : ka ≠ k1 := by
            intro he; subst he
            rcases List.mem_cons.mp hm with hm | hm
            · cases hm; exact hk rfl
            · exact String.lt_asymm hlt (hgt _ hm)
          rw [lookupKV_cons_ne _ _ _ _ hne] at h2
          exact ⟨h1, r, t, h2, h3⟩
        have ih := typedAttrs_sorted f rest ((k, j) :: js') ((k, e) :: es') hsrest hsj hrel'
          (fun a ha hr => hreq a (List.mem_cons_of_mem _ ha) hr)
        simp only [typedAttrs, hnone]
        simpa using ih

theorem pairOK_any {f : SchemaType → Json → R Expr} {attrs : List (String × Bool × SchemaType)}
    {js : List (String × Json)} {es : List (String × Expr)} (h : Rel2 (PairOK f attrs) js es) :
    js.any (fun kv => (lookupKV attrs kv.1).isNone) = false := by
  induction h with
  | nil => rfl
  | cons hab _ ih =>
    obtain ⟨_, r, t, h2, _⟩ := hab
    simp [h2, ih]

/-! ### keys of the documents -/

theorem formKVs_keys {attrs kvs js} (h : FormKVs attrs kvs js) : js.map Prod.fst = kvs.map Prod.fst := by
  induction kvs generalizing js with
  | nil => cases h; rfl
  | cons p kvs ih =>
    cases h with
    | cons _ k v j _ js' _ hrest => simp [ih hrest]

theorem hasReservedKey_false_lookup {α} (kvs : List (String × α)) (h : hasReservedKey kvs = false) :
    lookupKV kvs "__extn" = none := by
  apply lookupKV_none_of_not_mem
  intro hm
  obtain ⟨q, hq, hq1⟩ := List.mem_map.mp hm
  simp only [hasReservedKey, List.any_eq_false] at h
  have := h q hq
  rw [hq1] at this
  simp [reservedKeys] at this

/-! ### the induction over values -/

mutual
theorem typed_form : ∀ (v : Value) (τ : SchemaType) (j : Json) (c : CJ) (e : Expr) (n : Nat),
    Form (some τ) v j → instOf v τ = true → ClosedType τ → WF v →
    fromValueWith canonRepr v = .ok c → c.intoExpr = .ok e → j.size + 3 ≤ n → typed n (some τ) j = .ok e
  | .prim p, τ, j, c, e, n, hform, hinst, hcl, hwf, hc, he, hn => by
    obtain ⟨m, rfl⟩ : ∃ m, n = m + 3 := ⟨n - 3, by omega⟩
    simp only [fromValueWith, Except.ok.injEq] at hc
    subst hc
    cases p with
    | entityUID u =>
      have hv : validName u.ty = true := by simpa [WF] using hwf
      simp only [CJ.ofPrim, CJ.intoExpr, hv, if_true, Except.ok.injEq] at he
      subst he
      cases τ <;> simp only [instOf, Bool.false_eq_true] at hinst
      rename_i ty
      obtain ⟨t1, t2⟩ := typed_entity ty u (m + 2) hv
      cases hform with
      | lit _ _ hne => exact absurd rfl (hne u)
      | entExplicit => exact t2
      | entImplicit => exact t1
    | bool b =>
      cases he
      cases τ <;> simp only [instOf, Bool.false_eq_true] at hinst
      cases hform with
      | lit _ _ hne => exact typed_lit (.bool b) .bool (m + 2) (Or.inl rfl) hwf
    | int i =>
      cases he
      cases τ <;> simp only [instOf, Bool.false_eq_true] at hinst
      cases hform with
      | lit _ _ hne => exact typed_lit (.int i) .long (m + 2) (Or.inr (Or.inl rfl)) hwf
    | string s =>
      cases he
      cases τ <;> simp only [instOf, Bool.false_eq_true] at hinst
      cases hform with
      | lit _ _ hne => exact typed_lit (.string s) .string (m + 2) (Or.inr (Or.inr rfl)) hwf
  | .ext x, τ, j, c, e, n, hform, hinst, _, _, hc, he, hn => by
    obtain ⟨m, rfl⟩ : ∃ m, n = m + 3 := ⟨n - 3, by omega⟩
    have hτ : ∃ nm, τ = .ext nm := by
      cases τ <;> first | exact ⟨_, rfl⟩ | (cases x <;> simp [instOf] at hinst)
    obtain ⟨nm, rfl⟩ := hτ
    exact typed_ext_leaf x nm j c e m hinst hform hc he
  | .set vs, τ, j, c, e, n, hform, hinst, hcl, hwf, hc, he, hn => by
    simp only [fromValueWith, bind_ok] at hc
    obtain ⟨cs, hcs, hc⟩ := hc
    cases hc
    simp only [CJ.intoExpr, bind_ok] at he
    obtain ⟨es, hes, he⟩ := he
    cases he
    simp only [WF] at hwf
    cases hform with
    | set _ _ js hl =>
      obtain ⟨m, rfl⟩ : ∃ m, n = m + 1 := ⟨n - 1, by omega⟩
      simp only [Json.size] at hn
      cases τ with
      | emptySet =>
        have hvs : vs = [] := by cases vs <;> simp_all [instOf]
        subst hvs
        cases hl
        simp only [fromValueListWith, Except.ok.injEq] at hcs
        subst hcs
        simp only [CJ.intoExprList, Except.ok.injEq] at hes
        subst hes
        simp [typed, explicitUnknown, exprOfJson, CJ.ofJson, rawOk, rawOkList, CJ.ofRaw, CJ.ofRawList, CJ.callsUnknown,
          CJ.callsUnknownList, CJ.intoExpr, CJ.intoExprList, bind, Except.bind]
      | set el =>
        have hil : instOfList vs el = true := by
          cases vs <;> simpa [instOf] using hinst
        simp only [ClosedType] at hcl
        have := typed_formList vs el js cs es m hl hil hcl hwf hcs hes (by omega)
        simp [typed, explicitUnknown, this, bind, Except.bind]
      | bool => cases vs <;> simp [instOf] at hinst
      | long => cases vs <;> simp [instOf] at hinst
      | string => cases vs <;> simp [instOf] at hinst
      | record => cases vs <;> simp [instOf] at hinst
      | entity => cases vs <;> simp [instOf] at hinst
      | ext => cases vs <;> simp [instOf] at hinst
  | .record kvs, τ, j, c, e, n, hform, hinst, hcl, hwf, hc, he, hn => by
    simp only [fromValueWith] at hc
    split at hc
    · cases hc
    · rename_i hres
      simp only [bind_ok] at hc
      obtain ⟨cs, hcs, hc⟩ := hc
      cases hc
      simp only [CJ.intoExpr, bind_ok] at he
      obtain ⟨es, hes, he⟩ := he
      cases he
      simp only [WF] at hwf
      cases τ <;> simp only [instOf, Bool.false_eq_true] at hinst
      rename_i attrs isOpen
      simp only [ClosedType] at hcl
      obtain ⟨rfl, hsa, hca⟩ := hcl
      simp only [Bool.and_eq_true] at hinst
      cases hform with
      | record _ _ js hl =>
        obtain ⟨m, rfl⟩ : ∃ m, n = m + 1 := ⟨n - 1, by omega⟩
        simp only [Json.size] at hn
        have hkeys := formKVs_keys hl
        have hrel := typed_formKVs kvs attrs js cs es m hl hinst.1 hca hwf.1 hcs hes (by omega)
        have hsj : Sorted (js.map Prod.fst) := by rw [hkeys]; exact hwf.2
        have hresj : hasReservedKey js = false := by
          rw [hasReservedKey_keys js kvs hkeys]; simpa using hres
        have hreq : ∀ a, a ∈ attrs → a.2.1 = true → (lookupKV js a.1).isSome = true := by
          intro a ha hr
          have h2 := hinst.2
          simp only [List.all_eq_true] at h2
          have := h2 a ha
          simp only [hr, Bool.not_true, Bool.false_or] at this
          obtain ⟨w, hw⟩ := Option.isSome_iff_exists.mp this
          apply lookupKV_isSome_of_mem
          rw [hkeys]; exact lookupKV_mem kvs a.1 w hw
        have hwalk := typedAttrs_sorted (fun t x => typed m (some t) x) attrs js es hsa hsj hrel hreq
        have hany := pairOK_any hrel
        have hxu : explicitUnknown (.obj js) = false := by
          simp [explicitUnknown, hasReservedKey_false_lookup js hresj]
        simp [typed, hxu, hwalk, hany, bind, Except.bind]
theorem typed_formList : ∀ (vs : List Value) (τ : SchemaType) (js : List Json) (cs : List CJ) (es : List Expr) (n : Nat),
    FormList (some τ) vs js → instOfList vs τ = true → ClosedType τ → WFList vs →
    fromValueListWith canonRepr vs = .ok cs → CJ.intoExprList cs = .ok es → Json.sizeList js + 3 ≤ n →
    mapE (typed n (some τ)) js = .ok es
  | [], τ, js, cs, es, n, hform, _, _, _, hc, he, _ => by
    cases hform
    simp only [fromValueListWith, Except.ok.injEq] at hc
    subst hc
    simp only [CJ.intoExprList, Except.ok.injEq] at he
    subst he
    rfl
  | v :: vs, τ, js, cs, es, n, hform, hinst, hcl, hwf, hc, he, hn => by
    cases hform with
    | cons _ _ j _ js' hf hfl =>
      simp only [fromValueListWith, bind_ok] at hc
      obtain ⟨c, hc1, cs', hcs', hh⟩ := hc
      cases hh
      simp only [CJ.intoExprList, bind_ok] at he
      obtain ⟨e, he1, es', hes', hh⟩ := he
      cases hh
      simp only [instOfList, Bool.and_eq_true] at hinst
      simp only [WFList] at hwf
      simp only [Json.sizeList] at hn
      have h1 := typed_form v τ j c e n hf hinst.1 hcl hwf.1 hc1 he1 (by omega)
      have h2 := typed_formList vs τ js' cs' es' n hfl hinst.2 hcl hwf.2 hcs' hes' (by omega)
      simp [mapE, h1, h2, bind, Except.bind]
theorem typed_formKVs : ∀ (kvs : List (String × Value)) (attrs : List (String × Bool × SchemaType))
    (js : List (String × Json)) (cs : List (String × CJ)) (es : List (String × Expr)) (n : Nat),
    FormKVs attrs kvs js → instOfKVs kvs attrs false = true → ClosedAttrs attrs → WFKVs kvs →
    fromValueKVsWith canonRepr kvs = .ok cs → CJ.intoExprKVs cs = .ok es → Json.sizeKVs js + 3 ≤ n →
    Rel2 (PairOK (fun t x => typed n (some t) x) attrs) js es
  | [], attrs, js, cs, es, n, hform, _, _, _, hc, he, _ => by
    cases hform
    simp only [fromValueKVsWith, Except.ok.injEq] at hc
    subst hc
    simp only [CJ.intoExprKVs, Except.ok.injEq] at he
    subst he
    exact .nil
  | (k, v) :: kvs, attrs, js, cs, es, n, hform, hinst, hcl, hwf, hc, he, hn => by
    cases hform with
    | cons _ _ _ j _ js' hf hfl =>
      simp only [fromValueKVsWith, bind_ok] at hc
      obtain ⟨c, hc1, cs', hcs', hh⟩ := hc
      cases hh
      simp only [CJ.intoExprKVs, bind_ok] at he
      obtain ⟨e, he1, es', hes', hh⟩ := he
      cases hh
      simp only [instOfKVs, Bool.and_eq_true] at hinst
      simp only [WFKVs] at hwf
      simp only [Json.sizeKVs] at hn
      have h2 := typed_formKVs kvs attrs js' cs' es' n hfl hinst.2 hcl hwf.2 hcs' hes' (by omega)
      cases hl : lookupKV attrs k with
      | none => rw [hl] at hinst; simp at hinst
      | some rt =>
        obtain ⟨req, ty⟩ := rt
        rw [hl] at hinst hf
        simp only [Option.map_some] at hf
        have hclt : ClosedType ty := closedAttrs_lookup attrs k req ty hcl hl
        have h1 := typed_form v ty j c e n hf hinst.1 hclt hwf.1 hc1 he1 (by omega)
        exact .cons ⟨rfl, req, ty, hl, h1⟩ h2
end

end Cedar.C10
