import CedarVerif.Cedar.NoPanic.Datetime
import CedarVerif.Lemmas.NoPanicUtf8
/- C20 helper lemmas for the `parse_datetime` mirror: captures are short digit strings, they parse into `u32`,
matched prefixes are char-prefixes, offsets and dates are far inside chrono's ranges. -/
namespace Cedar
namespace NoPanic
open Cedar.Ext (isDigit natOfDigits digitVal)
open Cedar.Ext.Datetime (takeDigits expect dateOk daysFromCivil daysInMonth)

def AllDigits (ds : List Char) : Prop := ∀ c ∈ ds, isDigit c = true

theorem digit_range (c : Char) (h : isDigit c = true) : 48 ≤ c.toNat ∧ c.toNat ≤ 57 := by
  simp only [isDigit, Bool.and_eq_true, decide_eq_true_eq] at h
  obtain ⟨h1, h2⟩ := h
  have a1 : ('0':Char).val.toNat ≤ c.val.toNat := UInt32.le_iff_toNat_le.mp (Char.le_def.mp h1)
  have a2 : c.val.toNat ≤ ('9':Char).val.toNat := UInt32.le_iff_toNat_le.mp (Char.le_def.mp h2)
  have e0 : ('0':Char).val.toNat = 48 := by decide
  have e9 : ('9':Char).val.toNat = 57 := by decide
  show 48 ≤ c.val.toNat ∧ c.val.toNat ≤ 57
  omega

theorem digitVal_le (c : Char) (h : isDigit c = true) : digitVal c ≤ 9 := by
  have := digit_range c h
  simp only [digitVal]; omega

theorem foldl_lt (ds : List Char) (hd : AllDigits ds) :
    ∀ acc : Nat, ds.foldl (fun acc c => acc * 10 + digitVal c) acc < (acc + 1) * 10 ^ ds.length := by
  induction ds with
  | nil => intro acc; simp
  | cons c cs ih =>
    intro acc
    have h9 := digitVal_le c (hd c (List.mem_cons_self ..))
    have := ih (fun x hx => hd x (List.mem_cons_of_mem _ hx)) (acc * 10 + digitVal c)
    simp only [List.foldl_cons, List.length_cons]
    calc _ < (acc * 10 + digitVal c + 1) * 10 ^ cs.length := this
      _ ≤ ((acc + 1) * 10) * 10 ^ cs.length := Nat.mul_le_mul_right _ (by omega)
      _ = (acc + 1) * 10 ^ (cs.length + 1) := by rw [Nat.pow_succ, Nat.mul_assoc, Nat.mul_comm 10]

theorem natOfDigits_lt (ds : List Char) (hd : AllDigits ds) : natOfDigits ds < 10 ^ ds.length := by
  have := foldl_lt ds hd 0
  simpa [natOfDigits] using this

/-- a non-empty run of at most 9 ASCII digits always parses into `u32` -/
theorem parseU32_digits (ds : List Char) (hd : AllDigits ds) (h0 : 0 < ds.length) (h9 : ds.length ≤ 9) :
    parseU32 ds = some (natOfDigits ds) ∧ natOfDigits ds < 10 ^ ds.length := by
  have hlt := natOfDigits_lt ds hd
  refine ⟨?_, hlt⟩
  unfold parseU32
  have h1 : ds.isEmpty = false := by cases ds <;> simp_all
  have h2 : ds.any (fun c => !isDigit c) = false := by
    rw [List.any_eq_false]; intro c hc; simp [hd c hc]
  have h3 : ¬ natOfDigits ds > u32Max := by
    have : 10 ^ ds.length ≤ 10 ^ 9 := Nat.pow_le_pow_right (by omega) h9
    simp only [u32Max]; omega
  simp [h1, h2, h3]

theorem takeDigits_spec : ∀ (n : Nat) (s ds r : List Char), takeDigits n s = some (ds, r) →
    ds.length = n ∧ AllDigits ds ∧ s = ds ++ r
  | 0, s, ds, r, h => by
    simp only [takeDigits, Option.some.injEq, Prod.mk.injEq] at h
    obtain ⟨h1, h2⟩ := h
    subst h1 h2
    exact ⟨rfl, fun x hx => absurd hx (List.not_mem_nil), rfl⟩
  | n + 1, [], ds, r, h => by simp [takeDigits] at h
  | n + 1, c :: s, ds, r, h => by
    unfold takeDigits at h
    by_cases hc : isDigit c = true
    · rw [if_pos hc] at h
      cases ht : takeDigits n s with
      | none => rw [ht] at h; cases h
      | some q =>
        obtain ⟨ds', r'⟩ := q
        rw [ht] at h
        simp only [Option.some.injEq, Prod.mk.injEq] at h
        obtain ⟨h1, h2⟩ := h
        subst h1 h2
        obtain ⟨a, b, e⟩ := takeDigits_spec n s ds' r' ht
        refine ⟨by simp [a], ?_, by rw [e]; rfl⟩
        intro x hx
        rcases List.mem_cons.mp hx with h | h
        · rw [h]; exact hc
        · exact b x h
    · rw [if_neg hc] at h; cases h

theorem expect_spec (c : Char) (s r : List Char) (h : expect c s = some r) : s = c :: r := by
  cases s with
  | nil => simp [expect] at h
  | cons x xs =>
    simp only [expect] at h
    by_cases hx : (c == x) = true
    · rw [if_pos hx] at h
      have : c = x := by simpa using hx
      simp only [Option.some.injEq] at h
      rw [this, h]
    · rw [if_neg hx] at h; cases h

/-- unwrapping a short digit capture never panics -/
theorem unwrapU32_digits (site : String) (ds : List Char) (k : Nat → DtOutcome)
    (hd : AllDigits ds) (h0 : 0 < ds.length) (h9 : ds.length ≤ 9) :
    unwrapU32 site ds k = k (natOfDigits ds) := by
  unfold unwrapU32
  rw [(parseU32_digits ds hd h0 h9).1]

structure DateCap (s dateStr y m d : List Char) : Prop where
  pre : ∃ rest, s = dateStr ++ rest
  y4 : y.length = 4 ∧ AllDigits y
  m2 : m.length = 2 ∧ AllDigits m
  d2 : d.length = 2 ∧ AllDigits d

theorem capDate_spec (s dateStr y m d : List Char) (h : capDate s = some (dateStr, y, m, d)) :
    DateCap s dateStr y m d := by
  unfold capDate at h
  cases h1 : takeDigits 4 s with
  | none => rw [h1] at h; cases h
  | some q1 =>
    obtain ⟨y', s1⟩ := q1
    rw [h1] at h; simp only at h
    cases h2 : expect '-' s1 with
    | none => rw [h2] at h; cases h
    | some s2 =>
      rw [h2] at h; simp only at h
      cases h3 : takeDigits 2 s2 with
      | none => rw [h3] at h; cases h
      | some q3 =>
        obtain ⟨m', s3⟩ := q3
        rw [h3] at h; simp only at h
        cases h4 : expect '-' s3 with
        | none => rw [h4] at h; cases h
        | some s4 =>
          rw [h4] at h; simp only at h
          cases h5 : takeDigits 2 s4 with
          | none => rw [h5] at h; cases h
          | some q5 =>
            obtain ⟨d', s5⟩ := q5
            rw [h5] at h
            simp only [Option.some.injEq, Prod.mk.injEq] at h
            obtain ⟨e0, e1, e2, e3⟩ := h
            subst e1 e2 e3
            obtain ⟨a1, b1, c1⟩ := takeDigits_spec 4 s _ _ h1
            obtain ⟨a3, b3, c3⟩ := takeDigits_spec 2 s2 _ _ h3
            obtain ⟨a5, b5, c5⟩ := takeDigits_spec 2 s4 _ _ h5
            have c2 := expect_spec _ _ _ h2
            have c4 := expect_spec _ _ _ h4
            refine ⟨⟨s5, ?_⟩, ⟨a1, b1⟩, ⟨a3, b3⟩, ⟨a5, b5⟩⟩
            rw [← e0, c1, c2, c3, c4, c5]
            simp [List.append_assoc]

structure HmsCap (s hmsStr h m sec : List Char) : Prop where
  pre : ∃ rest, s = hmsStr ++ rest
  headT : ∃ tl, hmsStr = 'T' :: tl
  h2 : h.length = 2 ∧ AllDigits h
  m2 : m.length = 2 ∧ AllDigits m
  s2 : sec.length = 2 ∧ AllDigits sec

theorem capHMS_spec (s hmsStr h m sec : List Char) (hc : capHMS s = some (hmsStr, h, m, sec)) :
    HmsCap s hmsStr h m sec := by
  unfold capHMS at hc
  cases h0 : expect 'T' s with
  | none => rw [h0] at hc; cases hc
  | some s1 =>
    rw [h0] at hc; simp only at hc
    cases h1 : takeDigits 2 s1 with
    | none => rw [h1] at hc; cases hc
    | some q1 =>
      obtain ⟨h', s2⟩ := q1
      rw [h1] at hc; simp only at hc
      cases h2 : expect ':' s2 with
      | none => rw [h2] at hc; cases hc
      | some s3 =>
        rw [h2] at hc; simp only at hc
        cases h3 : takeDigits 2 s3 with
        | none => rw [h3] at hc; cases hc
        | some q3 =>
          obtain ⟨m', s4⟩ := q3
          rw [h3] at hc; simp only at hc
          cases h4 : expect ':' s4 with
          | none => rw [h4] at hc; cases hc
          | some s5 =>
            rw [h4] at hc; simp only at hc
            cases h5 : takeDigits 2 s5 with
            | none => rw [h5] at hc; cases hc
            | some q5 =>
              obtain ⟨sec', s6⟩ := q5
              rw [h5] at hc
              simp only [Option.some.injEq, Prod.mk.injEq] at hc
              obtain ⟨e0, e1, e2, e3⟩ := hc
              subst e1 e2 e3
              obtain ⟨a1, b1, c1⟩ := takeDigits_spec 2 s1 _ _ h1
              obtain ⟨a3, b3, c3⟩ := takeDigits_spec 2 s3 _ _ h3
              obtain ⟨a5, b5, c5⟩ := takeDigits_spec 2 s5 _ _ h5
              have c0 := expect_spec _ _ _ h0
              have c2 := expect_spec _ _ _ h2
              have c4 := expect_spec _ _ _ h4
              refine ⟨⟨s6, ?_⟩, ⟨_, e0.symm⟩, ⟨a1, b1⟩, ⟨a3, b3⟩, ⟨a5, b5⟩⟩
              rw [← e0, c0, c1, c2, c3, c4, c5]
              simp [List.append_assoc]

theorem capOffset_spec (s : List Char) (p : Bool) (hh mm : List Char) (h : capOffset s = some (some (p, hh, mm))) :
    (hh.length = 2 ∧ AllDigits hh) ∧ (mm.length = 2 ∧ AllDigits mm) := by
  unfold capOffset at h
  split at h
  · cases h
  · rename_i sign r _
    by_cases hs : (sign == '+' || sign == '-') = true
    · rw [if_pos hs] at h
      cases h1 : takeDigits 2 r with
      | none => rw [h1] at h; cases h
      | some q1 =>
        obtain ⟨hh', r1⟩ := q1
        rw [h1] at h; simp only at h
        cases h2 : takeDigits 2 r1 with
        | none => rw [h2] at h; cases h
        | some q2 =>
          obtain ⟨mm', r2⟩ := q2
          rw [h2] at h; simp only at h
          by_cases he : r2.isEmpty = true
          · rw [if_pos he] at h
            simp only [Option.some.injEq, Prod.mk.injEq] at h
            obtain ⟨_, e1, e2⟩ := h
            subst e1 e2
            obtain ⟨a1, b1, _⟩ := takeDigits_spec 2 r _ _ h1
            obtain ⟨a2, b2, _⟩ := takeDigits_spec 2 r1 _ _ h2
            exact ⟨⟨a1, b1⟩, ⟨a2, b2⟩⟩
          · rw [if_neg he] at h; cases h
    · rw [if_neg hs] at h; cases h
  · cases h

theorem capMsOffset_ms (s : List Char) (ds : List Char) (off) (h : capMsOffset s = some (some ds, off)) :
    ds.length = 3 ∧ AllDigits ds := by
  unfold capMsOffset at h
  split at h
  · rename_i r
    cases h1 : takeDigits 3 r with
    | none => rw [h1] at h; cases h
    | some q1 =>
      obtain ⟨ms', r1⟩ := q1
      rw [h1] at h; simp only at h
      cases h2 : capOffset r1 with
      | none => rw [h2] at h; cases h
      | some o =>
        rw [h2] at h
        simp only [Option.some.injEq, Prod.mk.injEq] at h
        obtain ⟨e1, _⟩ := h
        subst e1
        obtain ⟨a1, b1, _⟩ := takeDigits_spec 3 r _ _ h1
        exact ⟨a1, b1⟩
  · cases h2 : capOffset s with
    | none => rw [h2] at h; cases h
    | some o => rw [h2] at h; simp at h

theorem capMsOffset_off (s : List Char) (msCap) (p : Bool) (hh mm : List Char)
    (h : capMsOffset s = some (msCap, some (p, hh, mm))) :
    (hh.length = 2 ∧ AllDigits hh) ∧ (mm.length = 2 ∧ AllDigits mm) := by
  unfold capMsOffset at h
  split at h
  · rename_i r
    cases h1 : takeDigits 3 r with
    | none => rw [h1] at h; cases h
    | some q1 =>
      obtain ⟨ms', r1⟩ := q1
      rw [h1] at h; simp only at h
      cases h2 : capOffset r1 with
      | none => rw [h2] at h; cases h
      | some o =>
        rw [h2] at h
        simp only [Option.some.injEq, Prod.mk.injEq] at h
        obtain ⟨_, e2⟩ := h
        subst e2
        exact capOffset_spec r1 p hh mm h2
  · cases h2 : capOffset s with
    | none => rw [h2] at h; cases h
    | some o =>
      rw [h2] at h
      simp only [Option.some.injEq, Prod.mk.injEq] at h
      obtain ⟨_, e2⟩ := h
      subst e2
      exact capOffset_spec s p hh mm h2

/-- dates the mirror accepts (4-digit year) are far inside chrono's range -/
theorem days_bounds (y m d : Nat) (hy : y < 10000) (hok : dateOk y m d = true) :
    -719528 ≤ daysFromCivil y m d ∧ daysFromCivil y m d ≤ 2932896 := by
  simp only [dateOk, Bool.and_eq_true, decide_eq_true_eq] at hok
  obtain ⟨⟨⟨h1, h2⟩, h3⟩, h4⟩ := hok
  have hdim : daysInMonth y m ≤ 31 := by
    unfold daysInMonth
    split <;> (try split) <;> omega
  have hm : m = 1 ∨ m = 2 ∨ m = 3 ∨ m = 4 ∨ m = 5 ∨ m = 6 ∨ m = 7 ∨ m = 8 ∨ m = 9 ∨ m = 10 ∨ m = 11 ∨ m = 12 := by omega
  unfold daysFromCivil
  rcases hm with h | h | h | h | h | h | h | h | h | h | h | h <;> subst h <;> simp only <;>
    (split <;> split <;> omega)

def Safe (o : DtOutcome) : Prop := ∀ site, o ≠ .panic site

theorem safe_ok (x : Int) : Safe (.ok x) := fun _ h => DtOutcome.noConfusion h
theorem safe_err (e : String) : Safe (.err e) := fun _ h => DtOutcome.noConfusion h

/-- the closure `date`: three capture unwraps, then `NaiveDate::from_ymd_opt` -/
theorem date_safe (y mo d : List Char) (hy : y.length = 4 ∧ AllDigits y) (hm : mo.length = 2 ∧ AllDigits mo)
    (hd : d.length = 2 ∧ AllDigits d) (k : Int → DtOutcome)
    (hk : ∀ days : Int, -719528 ≤ days → days ≤ 2932896 → Safe (k days)) :
    Safe (unwrapU32 "year.parse().unwrap()" y fun y =>
      unwrapU32 "month.parse().unwrap()" mo fun mo =>
      unwrapU32 "day.parse().unwrap()" d fun d =>
      if dateOk y mo d then k (daysFromCivil y mo d) else .err "InvalidDate") := by
  rw [unwrapU32_digits _ y _ hy.2 (by omega) (by omega), unwrapU32_digits _ mo _ hm.2 (by omega) (by omega),
    unwrapU32_digits _ d _ hd.2 (by omega) (by omega)]
  by_cases hok : dateOk (natOfDigits y) (natOfDigits mo) (natOfDigits d) = true
  · rw [if_pos hok]
    have hlt := natOfDigits_lt y hy.2
    rw [hy.1] at hlt
    obtain ⟨b1, b2⟩ := days_bounds _ _ _ (by omega) hok
    exact hk _ b1 b2
  · rw [if_neg hok]; exact safe_err _

theorem unwrap3_safe (s1 s2 s3 : String) (y mo d : List Char) (hy : y.length = 4 ∧ AllDigits y)
    (hm : mo.length = 2 ∧ AllDigits mo) (hd : d.length = 2 ∧ AllDigits d) (F : Nat → Nat → Nat → DtOutcome)
    (hF : ∀ a b c, a < 10000 → Safe (F a b c)) :
    Safe (unwrapU32 s1 y fun a => unwrapU32 s2 mo fun b => unwrapU32 s3 d fun c => F a b c) := by
  rw [unwrapU32_digits _ y _ hy.2 (by omega) (by omega), unwrapU32_digits _ mo _ hm.2 (by omega) (by omega),
    unwrapU32_digits _ d _ hd.2 (by omega) (by omega)]
  have hlt := natOfDigits_lt y hy.2
  rw [hy.1] at hlt
  exact hF _ _ _ (by omega)

theorem offsetDelta_safe (p : Bool) (hh mm : Nat) (h1 : hh < 24) (h2 : mm < 60) (k : Int → DtOutcome)
    (hk : ∀ delta : Int, -86340 ≤ delta → delta ≤ 86340 → Safe (k delta)) : Safe (offsetDelta p hh mm k) := by
  unfold offsetDelta
  have hb : hh * 3600 + mm * 60 ≤ 86340 := by omega
  have : ¬ (hh * 3600 + mm * 60 > u32Max) := by simp only [u32Max]; omega
  rw [if_neg this]
  simp only [timeDeltaSecsMax]
  cases p
  · simp only [Bool.false_eq_true, if_false]
    rw [if_neg (by omega)]
    exact hk _ (by omega) (by omega)
  · simp only [if_true]
    rw [if_neg (by omega)]
    exact hk _ (by omega) (by omega)

theorem bytes_T_tail (tl : List Char) : sliceFrom ('T' :: tl) 1 = some tl := by
  have := sliceFrom_prefix ['T'] tl
  have e : bytes ['T'] = 1 := by decide
  rw [e] at this
  exact this

theorem parseDatetime_safe (s : List Char) : Safe (parseDatetime s) := by
  unfold parseDatetime
  cases hcap : capDate s with
  | none => exact safe_err _
  | some q =>
    obtain ⟨dateStr, y, mo, d⟩ := q
    have sp := capDate_spec s dateStr y mo d hcap
    obtain ⟨rest, hrest⟩ := sp.pre
    simp only
    split
    · exact date_safe y mo d sp.y4 sp.m2 sp.d2 (fun days => .ok (days * 86400000)) (fun _ _ _ => safe_ok _)
    · have hsl : sliceFrom s (bytes dateStr) = some rest := by rw [hrest]; exact sliceFrom_prefix dateStr rest
      rw [hsl]
      simp only
      cases hh : capHMS rest with
      | none => exact safe_err _
      | some q2 =>
        obtain ⟨hmsStr, h, m, sec⟩ := q2
        have sh := capHMS_spec rest hmsStr h m sec hh
        obtain ⟨rest2, hrest2⟩ := sh.pre
        obtain ⟨tl, htl⟩ := sh.headT
        simp only
        rw [unwrapU32_digits _ h _ sh.h2.2 (by have := sh.h2.1; omega) (by have := sh.h2.1; omega),
          unwrapU32_digits _ m _ sh.m2.2 (by have := sh.m2.1; omega) (by have := sh.m2.1; omega),
          unwrapU32_digits _ sec _ sh.s2.2 (by have := sh.s2.1; omega) (by have := sh.s2.1; omega)]
        have hsl2 : sliceFrom rest (bytes hmsStr) = some rest2 := by rw [hrest2]; exact sliceFrom_prefix hmsStr rest2
        rw [hsl2]
        simp only
        cases hmo : capMsOffset rest2 with
        | none => exact safe_err _
        | some q3 =>
          obtain ⟨msCap, off⟩ := q3
          simp only
          -- after the ms capture: common continuation
          have cont : ∀ ms : Nat, ms < 1000 → Safe (
              (fun ms => (fun (k : Int → DtOutcome) =>
                unwrapU32 "year.parse().unwrap()" y fun y =>
                unwrapU32 "month.parse().unwrap()" mo fun mo =>
                unwrapU32 "day.parse().unwrap()" d fun d =>
                if dateOk y mo d then k (daysFromCivil y mo d) else .err "InvalidDate") fun days =>
              if ¬ (natOfDigits h < 24 ∧ natOfDigits m < 60 ∧ natOfDigits sec < 60 ∧ ms < 1000) then
                match sliceFrom hmsStr 1 with
                | none => .panic "hms_str[1..]"
                | some _ => .err "InvalidHMS"
              else
                let finish (delta : Int) : DtOutcome :=
                  let total : Int := days * 86400 + ((natOfDigits h * 3600 + natOfDigits m * 60 + natOfDigits sec : Nat) : Int) + delta
                  if total < chronoMinDays * 86400 ∨ total ≥ (chronoMaxDays + 1) * 86400 then
                    .panic "`NaiveDateTime + TimeDelta` overflowed"
                  else .ok (total * 1000 + ms)
                match (generalizing := false) off with
                | none => finish 0
                | some (positive, hh, mm) =>
                  unwrapU32 "captures[6].parse().unwrap()" hh fun hh =>
                  unwrapU32 "captures[7].parse().unwrap()" mm fun mm =>
                  if hh < 24 ∧ mm < 60 then offsetDelta positive hh mm finish
                  else .err "InvalidOffset") ms) := by
            intro ms hms
            dsimp only
            apply unwrap3_safe _ _ _ y mo d sp.y4 sp.m2 sp.d2
            intro a b c ha
            by_cases hok : dateOk a b c = true
            case neg => rw [if_neg hok]; exact safe_err _
            rw [if_pos hok]
            obtain ⟨b1, b2⟩ := days_bounds a b c ha hok
            generalize daysFromCivil a b c = days at b1 b2 ⊢
            split
            · rw [htl, bytes_T_tail]; exact safe_err _
            · rename_i hhms
              have hhms' : natOfDigits h < 24 ∧ natOfDigits m < 60 ∧ natOfDigits sec < 60 ∧ ms < 1000 := by
                exact Decidable.of_not_not hhms
              have fin : ∀ delta : Int, -86340 ≤ delta → delta ≤ 86340 → Safe (
                  if days * 86400 + ((natOfDigits h * 3600 + natOfDigits m * 60 + natOfDigits sec : Nat) : Int) + delta < chronoMinDays * 86400 ∨
                     days * 86400 + ((natOfDigits h * 3600 + natOfDigits m * 60 + natOfDigits sec : Nat) : Int) + delta ≥ (chronoMaxDays + 1) * 86400 then
                    DtOutcome.panic "`NaiveDateTime + TimeDelta` overflowed"
                  else .ok ((days * 86400 + ((natOfDigits h * 3600 + natOfDigits m * 60 + natOfDigits sec : Nat) : Int) + delta) * 1000 + ms)) := by
                intro delta d1 d2
                have : ¬ (days * 86400 + ((natOfDigits h * 3600 + natOfDigits m * 60 + natOfDigits sec : Nat) : Int) + delta < chronoMinDays * 86400 ∨
                     days * 86400 + ((natOfDigits h * 3600 + natOfDigits m * 60 + natOfDigits sec : Nat) : Int) + delta ≥ (chronoMaxDays + 1) * 86400) := by
                  simp only [chronoMinDays, chronoMaxDays]; omega
                rw [if_neg this]; exact safe_ok _
              cases off with
              | none => exact fin 0 (by omega) (by omega)
              | some o =>
                obtain ⟨positive, hh, mm⟩ := o
                obtain ⟨o1, o2⟩ := capMsOffset_off rest2 msCap positive hh mm hmo
                simp only
                rw [unwrapU32_digits _ hh _ o1.2 (by have := o1.1; omega) (by have := o1.1; omega),
                  unwrapU32_digits _ mm _ o2.2 (by have := o2.1; omega) (by have := o2.1; omega)]
                split
                · rename_i hv
                  exact offsetDelta_safe positive _ _ hv.1 hv.2 _ fin
                · exact safe_err _
          cases msCap with
          | none => exact cont 0 (by omega)
          | some ds =>
            obtain ⟨l3, a3⟩ := capMsOffset_ms rest2 ds off hmo
            simp only
            rw [unwrapU32_digits _ ds _ a3 (by omega) (by omega)]
            have := natOfDigits_lt ds a3
            rw [l3] at this
            exact cont (natOfDigits ds) (by omega)

end NoPanic
end Cedar
