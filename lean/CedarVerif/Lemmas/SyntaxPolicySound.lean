import CedarVerif.Lemmas.SyntaxPolicy
import CedarVerif.Lemmas.SyntaxSound
/-
C05, policy level: soundness of the image predicate — on well-formed tokens `parsePolicy` only returns objects satisfying
`policyOKW typeNameOk inFrag3` (the parser invariant for `parseAnnots`, `scopeElem`, `actionElem`, `parseConds`, on top of
`parseFuel_sound`, Lemmas/SyntaxSound.lean).
-/
namespace Cedar.Syntax
open Cedar

/-! ### annotations: `foldr insertAnn []` sorts a duplicate-free list -/

theorem mem_insertAnn {kv y : String × String} : ∀ {xs : List (String × String)}, y ∈ insertAnn kv xs ↔ y = kv ∨ y ∈ xs
  | [] => by simp [insertAnn]
  | x :: xs => by
    simp only [insertAnn]
    split
    · simp
    · simp only [List.mem_cons, mem_insertAnn (xs := xs)]
      constructor
      · rintro (h | h | h) <;> simp [h]
      · rintro (h | h | h) <;> simp [h]

theorem sortedAnn_cons {k v : String} {xs : List (String × String)} (hs : sortedAnn xs = true)
    (hlt : ∀ y, xs.head? = some y → k < y.1) : sortedAnn ((k, v) :: xs) = true := by
  cases xs with
  | nil => rfl
  | cons y ys => obtain ⟨k2, v2⟩ := y; simp only [sortedAnn, Bool.and_eq_true, decide_eq_true_eq]; exact ⟨hlt _ rfl, hs⟩

theorem sorted_insertAnn {k v : String} : ∀ {xs : List (String × String)}, sortedAnn xs = true →
    (∀ y ∈ xs, y.1 ≠ k) → sortedAnn (insertAnn (k, v) xs) = true
  | [], _, _ => rfl
  | (k2, v2) :: xs, hs, hne => by
    simp only [insertAnn]
    split
    · rename_i hlt
      exact sortedAnn_cons hs (by intro y hy; simp at hy; subst hy; exact hlt)
    · rename_i hnl
      have hlt : k2 < k := by
        apply Decidable.byContradiction
        intro hc
        exact hne (k2, v2) (by simp) (String.le_antisymm (String.not_lt.mp hnl) (String.not_lt.mp hc))
      have ih := sorted_insertAnn (k := k) (v := v) (sortedAnn_tail hs) (fun y hy => hne y (by simp [hy]))
      refine sortedAnn_cons ih ?_
      intro y hy
      cases xs with
      | nil => simp [insertAnn] at hy; subst hy; exact hlt
      | cons z zs =>
        obtain ⟨k3, v3⟩ := z
        simp only [sortedAnn, Bool.and_eq_true, decide_eq_true_eq] at hs
        simp only [insertAnn] at hy
        split at hy
        · simp at hy; subst hy; exact hlt
        · simp at hy; subst hy; exact hs.1

theorem foldr_insertAnn_ok : ∀ {kvs : List (String × String)}, hasDupAnn kvs = false →
    sortedAnn (kvs.foldr insertAnn []) = true ∧ ∀ y, y ∈ kvs.foldr insertAnn [] ↔ y ∈ kvs
  | [], _ => ⟨rfl, by simp⟩
  | (k, v) :: kvs, h => by
    simp only [hasDupAnn, Bool.or_eq_false_iff] at h
    obtain ⟨ih1, ih2⟩ := foldr_insertAnn_ok h.2
    have hk := h.1
    rw [List.any_eq_false] at hk
    refine ⟨?_, ?_⟩
    · rw [List.foldr_cons]
      exact sorted_insertAnn ih1 (fun y hy hc => hk y ((ih2 y).mp hy) (by simp [hc]))
    · intro y
      rw [List.foldr_cons, mem_insertAnn, ih2]
      simp

/-- `parseAnnots` hands back a suffix of its input -/
theorem parseAnnots_wf : ∀ (f : Nat) (ts : List Token) (as : List (String × String)) (r : List Token), TokWF ts →
    parseAnnots f ts = some (as, r) → TokWF r := by
  intro f
  induction f with
  | zero => intro ts as r _ h; simp [parseAnnots] at h
  | succ f ih =>
    intro ts as r hwf h
    unfold parseAnnots at h
    split at h
    · cases h
    · -- `@k(` …
      split at h
      · split at h
        · rename_i hp hq
          cases ‹f + 1 = _›
          simp only [Option.some.injEq, Prod.mk.injEq] at h
          obtain ⟨_, rfl⟩ := h
          exact ih _ _ _ hwf.tail.tail.tail.tail.tail hq
        · cases h
      · cases h
    · split at h
      · rename_i hp
        cases ‹f + 1 = _›
        simp only [Option.some.injEq, Prod.mk.injEq] at h
        obtain ⟨_, rfl⟩ := h
        exact ih _ _ _ hwf.tail.tail hp
      · cases h
    · cases h
    · simp only [Option.some.injEq, Prod.mk.injEq] at h
      obtain ⟨_, rfl⟩ := h
      exact hwf

/-! ### scope elements -/

theorem toRef_sound {y : EOS} {slot : SlotId} {r : EntityRef} (hy : Img y) (h : y.toRef slot = some r) :
    refOKW typeNameOk r = true := by
  unfold EOS.toRef at h
  split at h
  · simp only [Option.some.injEq] at h; subst h; simpa [refOKW, Img, inFrag3] using hy
  · split at h
    · simp only [Option.some.injEq] at h; subst h; rfl
    · cases h
  · cases h

theorem scopeRef_sound {pe : P EOS} (hpe : PSound pe) {slot : SlotId} {ts : List Token} {r : EntityRef} {rest : List Token}
    (hwf : TokWF ts) (h : scopeRef pe slot ts = some (r, rest)) : refOKW typeNameOk r = true ∧ TokWF rest := by
  unfold scopeRef at h
  split at h
  · cases h
  · rename_i y rest' hp
    obtain ⟨h1, h2⟩ := hpe _ _ _ hwf hp
    cases hy : y.toRef slot with
    | none => simp [hy] at h
    | some r' =>
      simp only [hy, Option.map_some, Option.some.injEq, Prod.mk.injEq] at h
      obtain ⟨rfl, rfl⟩ := h
      exact ⟨toRef_sound h1 hy, h2⟩

theorem scopeElem_sound (spec : SplitOnSpec) {pe : P EOS} (hpe : PSound pe) (v : String) (slot : SlotId) {ts : List Token}
    {c : ScopeC} {r : List Token} (hwf : TokWF ts) (h : scopeElem pe v slot ts = some (c, r)) :
    scopeOKW typeNameOk c = true ∧ TokWF r := by
  have hadd : PSound (add pe) := chainLevel_sound (chainLevel_sound (unary_sound spec hpe) opOK_mult) opOK_add
  unfold scopeElem at h
  split at h
  · rename_i s ts0
    split at h
    · cases h
    · split at h
      · cases h
      · rename_i ts1
        split at h
        · cases h
        · rename_i x ts2 hx
          obtain ⟨x1, x2⟩ := hadd _ _ _ hwf.tail.tail hx
          split at h
          · cases h
          · rename_i ty hty
            have hT := toTypeName_sound spec x1 hty
            split at h
            · rename_i ts3
              cases hr : scopeRef pe slot ts3 with
              | none => simp [hr] at h
              | some p =>
                obtain ⟨r', rest'⟩ := p
                simp only [hr, Option.map_some, Option.some.injEq, Prod.mk.injEq] at h
                obtain ⟨rfl, rfl⟩ := h
                obtain ⟨r1, r2⟩ := scopeRef_sound hpe x2.tail hr
                exact ⟨by simp [scopeOKW, hT, r1], r2⟩
            · simp only [Option.some.injEq, Prod.mk.injEq] at h
              obtain ⟨rfl, rfl⟩ := h
              exact ⟨by simp [scopeOKW, hT], x2⟩
      · rename_i ts1
        cases hr : scopeRef pe slot ts1 with
        | none => simp [hr] at h
        | some p =>
          obtain ⟨r', rest'⟩ := p
          simp only [hr, Option.map_some, Option.some.injEq, Prod.mk.injEq] at h
          obtain ⟨rfl, rfl⟩ := h
          obtain ⟨r1, r2⟩ := scopeRef_sound hpe hwf.tail.tail hr
          exact ⟨by simp [scopeOKW, r1], r2⟩
      · rename_i ts1
        cases hr : scopeRef pe slot ts1 with
        | none => simp [hr] at h
        | some p =>
          obtain ⟨r', rest'⟩ := p
          simp only [hr, Option.map_some, Option.some.injEq, Prod.mk.injEq] at h
          obtain ⟨rfl, rfl⟩ := h
          obtain ⟨r1, r2⟩ := scopeRef_sound hpe hwf.tail.tail hr
          exact ⟨by simp [scopeOKW, r1], r2⟩
      · simp only [Option.some.injEq, Prod.mk.injEq] at h
        obtain ⟨rfl, rfl⟩ := h
        exact ⟨rfl, hwf.tail⟩
  · cases h

/-! ### the action element -/

theorem uidsOf_sound : ∀ {es : List Expr} {us : List EntityUID}, inFrag3L es = true → uidsOf es = some us →
    ∀ u ∈ us, typeNameOk u.ty = true
  | [], us, _, h => by simp only [uidsOf, Option.some.injEq] at h; subst h; simp
  | e :: es, us, hf, h => by
    simp only [inFrag3L, Bool.and_eq_true] at hf
    cases e with
    | lit p =>
      cases p with
      | entityUID u0 =>
        simp only [uidsOf] at h
        cases hu : uidsOf es with
        | none => simp [hu] at h
        | some us0 =>
          simp only [hu, Option.map_some, Option.some.injEq] at h
          subst h
          intro u hu'
          rcases List.mem_cons.mp hu' with rfl | hu''
          · simpa [inFrag3] using hf.1
          · exact uidsOf_sound hf.2 hu u hu''
      | _ => simp [uidsOf] at h
    | _ => simp [uidsOf] at h

theorem toRefs_sound {y : EOS} {us : List EntityUID} (hy : Img y) (h : y.toRefs = some us) :
    ∀ u ∈ us, typeNameOk u.ty = true := by
  unfold EOS.toRefs at h
  split at h
  · simp only [Option.some.injEq] at h; subst h
    intro u hu; simp only [List.mem_singleton] at hu; subst hu
    simpa [Img, inFrag3] using hy
  · exact uidsOf_sound (by simpa [Img, inFrag3] using hy) h
  · cases h

theorem toUid_sound {y : EOS} {u : EntityUID} (hy : Img y) (h : y.toUid = some u) : typeNameOk u.ty = true := by
  unfold EOS.toUid at h
  split at h
  · simp only [Option.some.injEq] at h; subst h; simpa [Img, inFrag3] using hy
  · cases h

theorem actionElem_sound {pe : P EOS} (hpe : PSound pe) {ts : List Token} {c : ActionC} {r : List Token} (hwf : TokWF ts)
    (h : actionElem pe ts = some (c, r)) : actionOKW typeNameOk c = true ∧ TokWF r := by
  unfold actionElem at h
  split at h
  · rename_i s ts0
    split at h
    · cases h
    · split at h
      · cases h
      · cases h
      · rename_i ts1
        split at h
        · cases h
        · rename_i y rest hp
          obtain ⟨y1, y2⟩ := hpe _ _ _ hwf.tail.tail hp
          split at h
          · cases h
          · rename_i us hus
            split at h
            · rename_i hall
              simp only [Option.some.injEq, Prod.mk.injEq] at h
              obtain ⟨rfl, rfl⟩ := h
              refine ⟨?_, y2⟩
              simp only [actionOKW, List.all_eq_true, Bool.and_eq_true]
              intro u hu
              exact ⟨toRefs_sound y1 hus u hu, List.all_eq_true.mp hall u hu⟩
            · cases h
      · rename_i ts1
        split at h
        · cases h
        · rename_i y rest hp
          obtain ⟨y1, y2⟩ := hpe _ _ _ hwf.tail.tail hp
          split at h
          · cases h
          · rename_i u hu
            split at h
            · rename_i hact
              simp only [Option.some.injEq, Prod.mk.injEq] at h
              obtain ⟨rfl, rfl⟩ := h
              exact ⟨by simp [actionOKW, toUid_sound y1 hu, hact], y2⟩
            · cases h
      · simp only [Option.some.injEq, Prod.mk.injEq] at h
        obtain ⟨rfl, rfl⟩ := h
        exact ⟨rfl, hwf.tail⟩
  · cases h

theorem parseScope_sound (spec : SplitOnSpec) {pe : P EOS} (hpe : PSound pe) {ts : List Token} {pc rc : ScopeC} {ac : ActionC}
    {r : List Token} (hwf : TokWF ts) (h : parseScope pe ts = some ((pc, ac, rc), r)) :
    scopeOKW typeNameOk pc = true ∧ actionOKW typeNameOk ac = true ∧ scopeOKW typeNameOk rc = true ∧ TokWF r := by
  unfold parseScope at h
  split at h
  · rename_i ts0
    split at h
    · rename_i pc' ts1 hp
      obtain ⟨p1, p2⟩ := scopeElem_sound spec hpe _ _ hwf.tail hp
      split at h
      · rename_i ac' ts2 ha
        obtain ⟨a1, a2⟩ := actionElem_sound hpe p2.tail ha
        split at h
        · rename_i rc' rest hr
          obtain ⟨r1, r2⟩ := scopeElem_sound spec hpe _ _ a2.tail hr
          simp only [Option.some.injEq, Prod.mk.injEq] at h
          obtain ⟨⟨rfl, rfl, rfl⟩, rfl⟩ := h
          exact ⟨p1, a1, r1, r2.tail⟩
        · rename_i rc' rest hr
          obtain ⟨r1, r2⟩ := scopeElem_sound spec hpe _ _ a2.tail hr
          simp only [Option.some.injEq, Prod.mk.injEq] at h
          obtain ⟨⟨rfl, rfl, rfl⟩, rfl⟩ := h
          exact ⟨p1, a1, r1, r2.tail.tail⟩
        · cases h
      · cases h
    · cases h
  · cases h

/-! ### conditions -/

def condElemOK (e : Expr) : Prop := inFrag3 e = true ∧ (Expr.slots e).isEmpty = true

theorem parseConds_sound {pe : P EOS} (hpe : PSound pe) : ∀ (f : Nat) (ts : List Token) (cs : List Expr) (r : List Token),
    TokWF ts → parseConds pe f ts = some (cs, r) → ∀ e ∈ cs, condElemOK e := by
  intro f
  induction f with
  | zero => intro ts cs r _ h; simp [parseConds] at h
  | succ f ih =>
    intro ts cs r hwf h
    unfold parseConds at h
    split at h
    · cases h
    · rename_i k ts0
      split at h
      · split at h
        · rename_i x rest hp
          obtain ⟨x1, x2⟩ := hpe _ _ _ hwf.tail.tail hp
          split at h
          · cases h
          · rename_i e he
            have hf3 := img_toExpr x1 he
            split at h
            · rename_i hsl
              split at h
              · cases h
              · rename_i es r' hrec
                cases ‹f + 1 = _›
                simp only [Option.some.injEq, Prod.mk.injEq] at h
                obtain ⟨rfl, rfl⟩ := h
                intro e' he'
                rcases List.mem_cons.mp he' with rfl | he''
                · split
                  · exact ⟨hf3, hsl⟩
                  · exact ⟨by simpa [inFrag3] using hf3, by simpa [Expr.slots] using hsl⟩
                · exact ih _ _ _ x2.tail hrec e' he''
            · cases h
        · cases h
      · cases h
    · simp only [Option.some.injEq, Prod.mk.injEq] at h
      obtain ⟨rfl, _⟩ := h
      intro e he; cases he

theorem mkAnd_condOK {a b : Expr} (ha : condElemOK a) (hb : condElemOK b) : condElemOK (mkAnd a b) := by
  refine ⟨gok_mkAnd a b ha.1 hb.1, ?_⟩
  cases hl : (isBoolLit a && isBoolLit b)
  · rw [mkAnd_eq hl]
    have h1 := ha.2; have h2 := hb.2
    simp only [List.isEmpty_iff] at h1 h2
    simp [Expr.slots, h1, h2]
  · simp only [Bool.and_eq_true] at hl
    obtain ⟨x, rfl⟩ := isBoolLit_iff hl.1
    obtain ⟨y, rfl⟩ := isBoolLit_iff hl.2
    rfl

theorem foldConds_sound : ∀ (cs : List Expr), (∀ e ∈ cs, condElemOK e) → condOKW inFrag3 (foldConds cs) = true
  | [], _ => rfl
  | [e], h => by
    have := h e (by simp)
    simp [foldConds, condOKW, this.1, this.2]
  | e :: e2 :: es, h => by
    have ih := foldConds_sound (e2 :: es) (fun x hx => h x (by simp [hx]))
    have he := h e (by simp)
    simp only [foldConds] at ih ⊢
    cases hc : foldConds (e2 :: es) with
    | none => simp [condOKW]
    | some c =>
      simp only [hc, condOKW, Bool.and_eq_true] at ih
      have := mkAnd_condOK he ⟨ih.1, ih.2⟩
      simp [condOKW, this.1, this.2]

/-! ### the whole policy -/

theorem parsePolicyF_sound (spec : SplitOnSpec) (n : Nat) (id : String) (ts : List Token) (b : TemplateBody) (hwf : TokWF ts)
    (h : parsePolicyF n id ts = some b) : policyOKW typeNameOk inFrag3 b = true := by
  have hpe := parseFuel_sound spec n
  unfold parsePolicyF at h
  split at h
  · cases h
  · rename_i annots ts1 han
    have w1 := parseAnnots_wf _ _ _ _ hwf han
    split at h
    · cases h
    · rename_i hdup
      split at h
      · rename_i eff ts2
        split at h
        · rename_i effect pc ac rc ts3 heff hsc
          obtain ⟨p1, a1, r1, w3⟩ := parseScope_sound spec hpe w1.tail hsc
          split at h
          · rename_i cs hcs
            simp only [Option.some.injEq] at h
            subst h
            have hc := foldConds_sound cs (parseConds_sound hpe _ _ _ _ w3 hcs)
            have hs := (foldr_insertAnn_ok (by simpa using hdup)).1
            simp [policyOKW, hs, p1, a1, r1, hc]
          · cases h
        · cases h
      · cases h

end Cedar.Syntax
