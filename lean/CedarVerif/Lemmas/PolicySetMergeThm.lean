import CedarVerif.Lemmas.PolicySetFresh
import CedarVerif.Lemmas.PolicySetMergeWF
import CedarVerif.Lemmas.PolicySetProj
/-
C08 helper lemmas, part 14: `merge_policyset` — invariant, no panic, failure changes nothing; the invariant `Strict`
of API-built sets is preserved by every core and API operation.
-/
namespace Cedar
open LHM

namespace PolicySet

theorem merge_no_panic (ps other : PolicySet) (rd : Bool) (m : String) :
    (ps.merge other rd).err ≠ some (.panic m) := by
  rw [merge_eq]
  split <;> simp

theorem merge_fail_unchanged (ps other : PolicySet) (rd : Bool) (h : (ps.merge other rd).err ≠ none) :
    (ps.merge other rd).ps = ps ∧ (ps.merge other rd).err = some .occupied := by
  rw [merge_eq] at h ⊢
  split
  · exact ⟨rfl, rfl⟩
  · rename_i hc; simp [hc] at h

theorem merge_ok_iff (ps other : PolicySet) (rd : Bool) :
    (ps.merge other rd).err = none ↔ (rd = true ∨ mergeRenaming ps other = []) := by
  rw [merge_eq]
  cases rd <;> cases h : mergeRenaming ps other <;> simp

theorem merge_ok (ps other : PolicySet) (rd : Bool) (h : (ps.merge other rd).err = none) :
    (ps.merge other rd).ps = mergeCore ps other (mergeRenaming ps other) ∧
    (ps.merge other rd).rename = mergeRenaming ps other := by
  rw [merge_eq] at h ⊢
  split
  · rename_i hc; simp [hc] at h
  · exact ⟨rfl, rfl⟩

/-- `merge_policyset` preserves the invariant of API-built sets, whether it succeeds or fails -/
theorem merge_strict (ps other : PolicySet) (rd : Bool) (hs : ps.Strict) (ho : other.Strict) :
    (ps.merge other rd).ps.Strict := by
  cases herr : (ps.merge other rd).err with
  | some e => rw [(merge_fail_unchanged ps other rd (by simp [herr])).1]; exact hs
  | none =>
    rw [(merge_ok ps other rd herr).1]
    exact mergeCore_strict hs ho (mergeRenaming_ok ps other ho.wf.tNodup ho.wf.lNodup)

/-! ### `Strict` is the invariant of the sets the public API builds -/

def StaticSlotless (ps : PolicySet) : Prop :=
  ∀ k p, ps.links.get? k = some p → p.link = none → p.template.slots = []

theorem applyOp_staticSlotless (ps : PolicySet) (op : CoreOp) (wf : ps.WF) (h : ps.StaticSlotless) :
    (ps.applyOp op).ps.StaticSlotless := by
  cases herr : (ps.applyOp op).err with
  | some e =>
    have hs := core_fail_frame ps op wf e herr
    intro k p hp
    rw [hs.2.2.1 k] at hp
    exact h k p hp
  | none =>
    cases op with
    | addStatic b =>
      obtain ⟨ht, hl, heq⟩ := PolicySet.addStatic_ok ps b herr
      show (ps.addStatic b).ps.StaticSlotless
      rw [heq]
      intro k p
      simp only [get?_snoc_absent _ _ _ hl]
      by_cases hk : k = b.id
      · simp only [hk, if_true, Option.some.injEq]; intro e _; subst e; rfl
      · simp only [hk, if_false]; exact h k p
    | addTemplate t =>
      obtain ⟨ht, hl, heq⟩ := PolicySet.addTemplate_ok ps t herr
      show (ps.addTemplate t).ps.StaticSlotless
      rw [heq]; exact h
    | link tid newId vals =>
      obtain ⟨t, ht, hb, hl, hnt, heq⟩ := PolicySet.link_ok ps tid newId vals herr
      show (ps.link tid newId vals).ps.StaticSlotless
      rw [heq]
      intro k p
      simp only [get?_snoc_absent _ _ _ hl]
      by_cases hk : k = newId
      · simp only [hk, if_true, Option.some.injEq]; intro e hn; subst e; cases hn
      · simp only [hk, if_false]; exact h k p
    | unlink id =>
      obtain ⟨_, _, hl⟩ := PolicySet.unlink_ok ps id herr
      intro k p
      show LHM.get? (ps.unlink id).ps.links k = some p → _
      rw [hl, get?_erase]
      by_cases hk : k = id
      · simp [hk]
      · simp only [hk, if_false]; exact h k p
    | removeStatic id =>
      obtain ⟨_, hl⟩ := PolicySet.removeStatic_ok ps id herr
      intro k p
      show LHM.get? (ps.removeStatic id).ps.links k = some p → _
      rw [hl, get?_erase]
      by_cases hk : k = id
      · simp [hk]
      · simp only [hk, if_false]; exact h k p
    | removeTemplate id =>
      obtain ⟨_, hl⟩ := PolicySet.removeTemplate_ok ps id herr
      intro k p
      show LHM.get? (ps.removeTemplate id).ps.links k = some p → _
      rw [hl]; exact h k p

end PolicySet

/-- the core set after an API call is the core set before, or the result of one core call on it -/
theorem ApiPolicySet.applyOp_ast (s : ApiPolicySet) (op : ApiOp) (wf : s.WF) :
    (s.applyOp op).ps.ast = s.ast ∨ ∃ cop, (s.applyOp op).ps.ast = (s.ast.applyOp cop).ps := by
  cases op with
  | add b =>
    refine Or.inr ⟨.addStatic b, ?_⟩
    show (s.add (linkStaticPolicy b).2).ps.ast = (s.ast.addStatic b).ps
    unfold ApiPolicySet.add
    have hst : (linkStaticPolicy b).2.isStatic = true := rfl
    simp only [hst, if_true]
    rw [PolicySet.add_static_eq_addStatic s.ast b wf.nb]
    split <;> rfl
  | addTemplate t =>
    refine Or.inr ⟨.addTemplate t, ?_⟩
    show (s.addTemplate t).ps.ast = (s.ast.addTemplate t).ps
    unfold ApiPolicySet.addTemplate
    dsimp only
    split <;> rfl
  | link tid newId vals =>
    show (s.link tid newId vals).ps.ast = s.ast ∨ ∃ cop, (s.link tid newId vals).ps.ast = (s.ast.applyOp cop).ps
    unfold ApiPolicySet.link
    cases hT : s.templates.get? tid with
    | none => left; simp only; split <;> rfl
    | some t0 =>
      refine Or.inr ⟨.link tid newId vals, ?_⟩
      simp only
      split
      · rfl
      · split <;> rfl
  | unlink id =>
    show (s.unlink id).ps.ast = s.ast ∨ ∃ cop, (s.unlink id).ps.ast = (s.ast.applyOp cop).ps
    unfold ApiPolicySet.unlink
    cases hP : s.policies.get? id with
    | none => left; rfl
    | some p =>
      refine Or.inr ⟨.unlink id, ?_⟩
      simp only
      split <;> rfl
  | removeStatic id =>
    show (s.removeStatic id).ps.ast = s.ast ∨ ∃ cop, (s.removeStatic id).ps.ast = (s.ast.applyOp cop).ps
    unfold ApiPolicySet.removeStatic
    cases hP : s.policies.get? id with
    | none => left; rfl
    | some p =>
      refine Or.inr ⟨.removeStatic id, ?_⟩
      simp only
      split <;> rfl
  | removeTemplate id =>
    show (s.removeTemplate id).ps.ast = s.ast ∨ ∃ cop, (s.removeTemplate id).ps.ast = (s.ast.applyOp cop).ps
    unfold ApiPolicySet.removeTemplate
    cases hT : s.templates.get? id with
    | none => left; rfl
    | some t0 =>
      refine Or.inr ⟨.removeTemplate id, ?_⟩
      simp only
      split <;> rfl

theorem ApiPolicySet.applyOp_strict (s : ApiPolicySet) (op : ApiOp) (wf : s.WF) (wt : op.wellTyped)
    (h : s.ast.StaticSlotless) : (s.applyOp op).ps.ast.StaticSlotless := by
  rcases ApiPolicySet.applyOp_ast s op wf with he | ⟨cop, he⟩
  · rw [he]; exact h
  · rw [he]; exact PolicySet.applyOp_staticSlotless s.ast cop wf.ast h

/-- every set built by the public API (without merge) satisfies `Strict` -/
theorem ApiPolicySet.run_strict (ops : List ApiOp) : ∀ (s : ApiPolicySet), s.WF → s.ast.StaticSlotless →
    (∀ op, op ∈ ops → op.wellTyped) → (s.run ops).ast.Strict := by
  induction ops with
  | nil => intro s wf h _; exact ⟨wf.ast, wf.nb, h⟩
  | cons op ops ih =>
    intro s wf h wt
    exact ih _ (ApiPolicySet.applyOp_wf s op wf (wt op (by simp)))
      (ApiPolicySet.applyOp_strict s op wf (wt op (by simp)) h) (fun o ho => wt o (by simp [ho]))

end Cedar

namespace Cedar.PolicySet

/-! ### the counterexample to merge-preserves-`WF` without the API envelope: a slot-less bare template with a link,
merged with a static policy of the same body -/

def cexBody : TemplateBody :=
  { id := "a", annotations := [], effect := .permit, principalC := .any, actionC := .any, resourceC := .any, nonScope := none }

/-- core-only: `add_template` of a slot-less template, then a link to it -/
def cexA : PolicySet := PolicySet.run {} [.addTemplate { body := cexBody, slots := [] }, .link "a" "l" {}]

def cexB : PolicySet := PolicySet.run {} [.addStatic cexBody]

theorem cex_wf : cexA.WF ∧ cexB.WF :=
  ⟨PolicySet.run_wf _ {} PolicySet.wf_empty (by decide +kernel), PolicySet.run_wf _ {} PolicySet.wf_empty (by decide +kernel)⟩

theorem cex_not_wf (rd : Bool) : ¬ (cexA.merge cexB rd).ps.WF := by
  intro wf
  have key : (match (cexA.merge cexB rd).ps.links.get? "l" with
      | some p => p.link.isSome && ((cexA.merge cexB rd).ps.links.get? p.template.id).isSome
      | none => false) = true := by
    cases rd <;> decide +kernel
  cases h : (cexA.merge cexB rd).ps.links.get? "l" with
  | none => rw [h] at key; cases key
  | some p =>
    rw [h] at key
    simp only [Bool.and_eq_true] at key
    have hn : p.link ≠ none := by intro e; rw [e] at key; exact absurd key.1 (by simp)
    have := wf.staticOne "l" p h hn
    rw [this] at key
    exact absurd key.2 (by simp)

end Cedar.PolicySet
