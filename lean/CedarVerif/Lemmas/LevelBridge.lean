import CedarVerif.Lemmas.LevelSound
import CedarVerif.Lemmas.TypecheckSound
/-
C16 helper: for the connective-free part of C03's proved fragment the two semantic hypotheses of the level-soundness
theorem (`Kinds`, and the typed AST evaluating like the condition) are DERIVED from typechecker acceptance and
conformance, using `typeOf_sound_aux` (C03).
-/
namespace Cedar.Level
open Cedar Cedar.Slice

/-- literals, variables, `.`/`has` chains on entities and records, `!`, unary `-`, `+ - *`, `==`, `like`, `is`
(no `&&`, `||`, `if`: every subexpression is typed under the same capabilities) -/
def CF : Expr → Bool
  | .lit _ => true
  | .var _ => true
  | .unaryApp op a => (op == .not || op == .neg) && CF a
  | .binaryApp op a b => (op == .add || op == .sub || op == .mul || op == .eq) && CF a && CF b
  | .getAttr e _ => CF e
  | .hasAttr e _ => CF e
  | .like e _ => CF e
  | .is e _ => CF e
  | _ => false

theorem CF_inFragment : ∀ (e : Expr), CF e = true → InFragment e = true
  | .lit _ => by simp [InFragment]
  | .var _ => by simp [InFragment]
  | .unaryApp op a => by
      simp only [CF, InFragment, Bool.and_eq_true]
      rintro ⟨h1, h2⟩; exact ⟨h1, CF_inFragment a h2⟩
  | .binaryApp op a b => by
      simp only [CF, InFragment, Bool.and_eq_true]
      rintro ⟨⟨h1, h2⟩, h3⟩; exact ⟨⟨h1, CF_inFragment a h2⟩, CF_inFragment b h3⟩
  | .getAttr e _ => by simp only [CF, InFragment]; exact CF_inFragment e
  | .hasAttr e _ => by simp only [CF, InFragment]; exact CF_inFragment e
  | .like e _ => by simp only [CF, InFragment]; exact CF_inFragment e
  | .is e _ => by simp only [CF, InFragment]; exact CF_inFragment e
  | .slot _ => by simp [CF]
  | .unknown _ _ => by simp [CF]
  | .ite _ _ _ => by simp [CF]
  | .and _ _ => by simp [CF]
  | .or _ _ => by simp [CF]
  | .call _ _ => by simp [CF]
  | .set _ => by simp [CF]
  | .record _ => by simp [CF]

/-- without short circuits the typed AST is the expression itself -/
theorem erase_annotate (m : ValidationMode) (s : Schema) (env : RequestEnv) (caps : Capabilities) :
    ∀ (e : Expr) (te : TExpr), CF e = true → annotate m s env e caps = .ok te → te.erase = e
  | .lit _, te => by intro _ h; simp only [annotate, Except.ok.injEq] at h; subst h; rfl
  | .var _, te => by intro _ h; simp only [annotate, Except.ok.injEq] at h; subst h; rfl
  | .unaryApp op a, te => by
      intro hf h
      simp only [CF, Bool.and_eq_true] at hf
      simp only [annotate] at h
      cases ha : annotate m s env a caps with
      | error _ => simp [ha] at h
      | ok ta =>
        simp only [ha, Except.ok.injEq] at h; subst h
        simp only [TExpr.erase, erase_annotate m s env caps a ta hf.2 ha]
  | .binaryApp op a b, te => by
      intro hf h
      simp only [CF, Bool.and_eq_true] at hf
      simp only [annotate] at h
      cases ha : annotate m s env a caps with
      | error _ => simp [ha] at h
      | ok ta =>
        cases hb : annotate m s env b caps with
        | error _ => simp [ha, hb] at h
        | ok tb =>
          simp only [ha, hb, Except.ok.injEq] at h; subst h
          simp only [TExpr.erase, erase_annotate m s env caps a ta hf.1.2 ha, erase_annotate m s env caps b tb hf.2 hb]
  | .getAttr e a, te => by
      intro hf h
      simp only [CF] at hf
      simp only [annotate] at h
      cases ht : typeOf m s env e caps with
      | error _ => simp [ht] at h
      | ok p =>
        cases ha : annotate m s env e caps with
        | error _ => simp [ht, ha] at h
        | ok te' =>
          simp only [ht, ha, Except.ok.injEq] at h; subst h
          simp only [TExpr.erase, erase_annotate m s env caps e te' hf ha]
  | .hasAttr e a, te => by
      intro hf h
      simp only [CF] at hf
      simp only [annotate] at h
      cases ht : typeOf m s env e caps with
      | error _ => simp [ht] at h
      | ok p =>
        cases ha : annotate m s env e caps with
        | error _ => simp [ht, ha] at h
        | ok te' =>
          simp only [ht, ha, Except.ok.injEq] at h; subst h
          simp only [TExpr.erase, erase_annotate m s env caps e te' hf ha]
  | .like e p, te => by
      intro hf h
      simp only [CF] at hf
      simp only [annotate] at h
      cases ha : annotate m s env e caps with
      | error _ => simp [ha] at h
      | ok te' =>
        simp only [ha, Except.ok.injEq] at h; subst h
        simp only [TExpr.erase, erase_annotate m s env caps e te' hf ha]
  | .is e ty, te => by
      intro hf h
      simp only [CF] at hf
      simp only [annotate] at h
      cases ha : annotate m s env e caps with
      | error _ => simp [ha] at h
      | ok te' =>
        simp only [ha, Except.ok.injEq] at h; subst h
        simp only [TExpr.erase, erase_annotate m s env caps e te' hf ha]
  | .slot _, _ => by intro hf; simp [CF] at hf
  | .unknown _ _, _ => by intro hf; simp [CF] at hf
  | .ite _ _ _, _ => by intro hf; simp [CF] at hf
  | .and _ _, _ => by intro hf; simp [CF] at hf
  | .or _ _, _ => by intro hf; simp [CF] at hf
  | .call _ _, _ => by intro hf; simp [CF] at hf
  | .set _, _ => by intro hf; simp [CF] at hf
  | .record _, _ => by intro hf; simp [CF] at hf

/-- the kind of a sound static type describes the value -/
theorem kind_matches_of_sound {m : ValidationMode} {s : Schema} {env : RequestEnv} {w : World}
    (hWF : SchemaWF s) (henv : EnvMatches s env w.q) (hreq : ConformsRequest s w.q) (hst : StoreConforms s w.es)
    {e : Expr} (hf : CF e = true) {caps : Capabilities} (hc : CapsHold w caps) {τ : CedarType} {c' : Capabilities}
    (ht : typeOf m s env e caps = .ok (τ, c')) {v : Value} (hv : evaluate w.q w.es w.sl e = .ok v) :
    (kindOf τ).matches v = true := by
  have hs := (typeOf_sound_aux hWF henv hreq hst e (CF_inFragment e hf) caps τ c' ht hc).1
  have hm := typeOf_mono (m := m) hWF henv e (CF_inFragment e hf) caps τ c' ht
  rcases hs with ⟨err, he, _⟩ | ⟨v', hv', hi, _⟩
  · have : w.eval e = evaluate w.q w.es w.sl e := rfl
    rw [this, hv] at he; cases he
  · have : w.eval e = evaluate w.q w.es w.sl e := rfl
    rw [this, hv] at hv'
    cases hv'
    cases τ with
    | entity l =>
      obtain ⟨T, rfl⟩ := mono_entity hm
      obtain ⟨u, rfl, _⟩ := inst_entity_single hi
      rfl
    | record attrs o =>
      obtain ⟨kvs, rfl⟩ := inst_record hi
      rfl
    | never => rfl
    | bool _ => rfl
    | long => rfl
    | string => rfl
    | set _ => rfl
    | anyEntity => rfl
    | ext _ => rfl

/-- `Kinds` holds of the typed AST of an accepted expression on conformant data -/
theorem kinds_annotate {m : ValidationMode} {s : Schema} {env : RequestEnv} {w : World}
    (hWF : SchemaWF s) (henv : EnvMatches s env w.q) (hreq : ConformsRequest s w.q) (hst : StoreConforms s w.es)
    (caps : Capabilities) (hc : CapsHold w caps) :
    ∀ (e : Expr) (te : TExpr), CF e = true → annotate m s env e caps = .ok te → Kinds w.q w.es w.sl te
  | .lit _, te => by intro _ h; simp only [annotate, Except.ok.injEq] at h; subst h; simp [Kinds]
  | .var _, te => by intro _ h; simp only [annotate, Except.ok.injEq] at h; subst h; simp [Kinds]
  | .unaryApp op a, te => by
      intro hf h
      simp only [CF, Bool.and_eq_true] at hf
      simp only [annotate] at h
      cases ha : annotate m s env a caps with
      | error _ => simp [ha] at h
      | ok ta =>
        simp only [ha, Except.ok.injEq] at h; subst h
        simp only [Kinds]
        exact kinds_annotate hWF henv hreq hst caps hc a ta hf.2 ha
  | .binaryApp op a b, te => by
      intro hf h
      simp only [CF, Bool.and_eq_true] at hf
      simp only [annotate] at h
      cases ha : annotate m s env a caps with
      | error _ => simp [ha] at h
      | ok ta =>
        cases hb : annotate m s env b caps with
        | error _ => simp [ha, hb] at h
        | ok tb =>
          simp only [ha, hb, Except.ok.injEq] at h; subst h
          simp only [Kinds]
          exact ⟨kinds_annotate hWF henv hreq hst caps hc a ta hf.1.2 ha, kinds_annotate hWF henv hreq hst caps hc b tb hf.2 hb⟩
  | .getAttr e a, te => by
      intro hf h
      simp only [CF] at hf
      simp only [annotate] at h
      cases ht : typeOf m s env e caps with
      | error _ => simp [ht] at h
      | ok p =>
        obtain ⟨τ, c'⟩ := p
        cases ha : annotate m s env e caps with
        | error _ => simp [ht, ha] at h
        | ok te' =>
          simp only [ht, ha, Except.ok.injEq] at h; subst h
          simp only [Kinds]
          refine ⟨kinds_annotate hWF henv hreq hst caps hc e te' hf ha, ?_⟩
          intro v hv
          rw [erase_annotate m s env caps e te' hf ha] at hv
          exact kind_matches_of_sound hWF henv hreq hst hf hc ht hv
  | .hasAttr e a, te => by
      intro hf h
      simp only [CF] at hf
      simp only [annotate] at h
      cases ht : typeOf m s env e caps with
      | error _ => simp [ht] at h
      | ok p =>
        obtain ⟨τ, c'⟩ := p
        cases ha : annotate m s env e caps with
        | error _ => simp [ht, ha] at h
        | ok te' =>
          simp only [ht, ha, Except.ok.injEq] at h; subst h
          simp only [Kinds]
          refine ⟨kinds_annotate hWF henv hreq hst caps hc e te' hf ha, ?_⟩
          intro v hv
          rw [erase_annotate m s env caps e te' hf ha] at hv
          exact kind_matches_of_sound hWF henv hreq hst hf hc ht hv
  | .like e p, te => by
      intro hf h
      simp only [CF] at hf
      simp only [annotate] at h
      cases ha : annotate m s env e caps with
      | error _ => simp [ha] at h
      | ok te' =>
        simp only [ha, Except.ok.injEq] at h; subst h
        simp only [Kinds]
        exact kinds_annotate hWF henv hreq hst caps hc e te' hf ha
  | .is e ty, te => by
      intro hf h
      simp only [CF] at hf
      simp only [annotate] at h
      cases ha : annotate m s env e caps with
      | error _ => simp [ha] at h
      | ok te' =>
        simp only [ha, Except.ok.injEq] at h; subst h
        simp only [Kinds]
        exact kinds_annotate hWF henv hreq hst caps hc e te' hf ha
  | .slot _, _ => by intro hf; simp [CF] at hf
  | .unknown _ _, _ => by intro hf; simp [CF] at hf
  | .ite _ _ _, _ => by intro hf; simp [CF] at hf
  | .and _ _, _ => by intro hf; simp [CF] at hf
  | .or _ _, _ => by intro hf; simp [CF] at hf
  | .call _ _, _ => by intro hf; simp [CF] at hf
  | .set _, _ => by intro hf; simp [CF] at hf
  | .record _, _ => by intro hf; simp [CF] at hf

end Cedar.Level
