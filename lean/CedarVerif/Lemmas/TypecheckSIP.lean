import CedarVerif.Lemmas.TypecheckSound2
/-
C03: strict acceptance implies permissive acceptance with the SAME type and capabilities, for the expressions whose least
upper bounds are taken with a flat type on one side (`SIPFragment`).
-/
namespace Cedar.C03

open Cedar

theorem isSubtype_flat_modes {a b : CedarType} (hf : a.flat = true ∨ b.flat = true) :
    isSubtype .strict a b = isSubtype .permissive a b := by
  cases a <;> cases b <;> simp [CedarType.flat] at hf <;> simp [isSubtype]

theorem lub_flat_modes {a b : CedarType} (hf : a.flat = true ∨ b.flat = true) : lub .strict a b = lub .permissive a b := by
  have h1 := isSubtype_flat_modes hf
  have h2 := isSubtype_flat_modes (a := b) (b := a) (by rcases hf with h | h; exact Or.inr h; exact Or.inl h)
  conv => lhs; rw [lub.eq_def]
  conv => rhs; rw [lub.eq_def]
  simp only [h1, h2]
  cases a <;> cases b <;> simp [CedarType.flat] at hf <;> first | rfl | (rename_i e _; cases e <;> rfl) | (rename_i e; cases e <;> rfl)


/-- `lub` of flat types is flat -/
theorem lub_flat_flat {m : ValidationMode} {a b c : CedarType} (h : lub m a b = some c) (ha : a.flat = true) (hb : b.flat = true) :
    c.flat = true := by
  obtain ⟨_, _, hshape, _⟩ := lub_flat h (Or.inl ha)
  rcases hshape with rfl | rfl | rfl
  · exact ha
  · exact hb
  · rfl

theorem foldl_lub_flat_modes : ∀ (ts : List CedarType) (acc : CedarType), acc.flat = true → (∀ t, t ∈ ts → t.flat = true) →
    ts.foldl (fun acc t => acc.bind (fun a => lub .strict a t)) (some acc) =
    ts.foldl (fun acc t => acc.bind (fun a => lub .permissive a t)) (some acc)
  | [], _, _, _ => rfl
  | t :: ts, acc, hacc, hall => by
    simp only [List.foldl_cons, Option.bind_some]
    rw [← lub_flat_modes (Or.inl hacc)]
    cases hl : lub .strict acc t with
    | none =>
      rw [foldl_lub_none]
      clear hl
      induction ts with
      | nil => rfl
      | cons t' ts' ih => simpa using ih (fun t'' ht'' => hall t'' (by
          rcases List.mem_cons.mp ht'' with rfl | h
          · exact List.mem_cons_self
          · exact List.mem_cons_of_mem _ (List.mem_cons_of_mem _ h)))
    | some acc' =>
      exact foldl_lub_flat_modes ts acc' (lub_flat_flat hl hacc (hall t List.mem_cons_self))
        (fun t' ht' => hall t' (List.mem_cons_of_mem _ ht'))

theorem lubAll_flat_modes {ts : List CedarType} (hall : ∀ t, t ∈ ts → t.flat = true) : lubAll .strict ts = lubAll .permissive ts :=
  foldl_lub_flat_modes ts .never rfl hall

-- expressions whose `lub`s have a flat side: `if` with a syntactically flat branch, set literals of flat elements
mutual
def SIPFragment : Expr → Bool
  | .lit _ | .var _ | .slot _ | .unknown _ _ => true
  | .ite c t e => SIPFragment c && SIPFragment t && SIPFragment e && (FlatExpr t || FlatExpr e)
  | .and a b | .or a b | .binaryApp _ a b => SIPFragment a && SIPFragment b
  | .unaryApp _ a | .getAttr a _ | .hasAttr a _ | .like a _ | .is a _ => SIPFragment a
  | .call _ args => SIPFragmentList args
  | .set es => SIPFragmentList es && es.all FlatExpr
  | .record kvs => SIPFragmentKVs kvs
def SIPFragmentList : List Expr → Bool
  | [] => true
  | e :: es => SIPFragment e && SIPFragmentList es
def SIPFragmentKVs : List (String × Expr) → Bool
  | [] => true
  | (_, e) :: es => SIPFragment e && SIPFragmentKVs es
end

/-- "whatever the first answers `ok`, the second answers too" -/
def Transfers (r r' : TcResult) : Prop := ∀ x, r = .ok x → r' = .ok x

theorem Transfers.expect {r r' : TcResult} (h : Transfers r r') (l : List CedarType) :
    Transfers (expectOneOf r l) (expectOneOf r' l) := by
  intro x hx
  obtain ⟨τ, c⟩ := x
  obtain ⟨h1, _⟩ := expectOneOf_ok hx
  rw [h _ h1]; rw [h1] at hx; exact hx

theorem Transfers.both {ra rb ra' rb' : TcResult} {k k' : CedarType → Capabilities → CedarType → Capabilities → TcResult}
    (ha : Transfers ra ra') (hb : Transfers rb rb')
    (hk : ∀ τa ca τb cb, ra = .ok (τa, ca) → rb = .ok (τb, cb) → Transfers (k τa ca τb cb) (k' τa ca τb cb)) :
    Transfers (both ra rb k) (both ra' rb' k') := by
  intro x hx
  obtain ⟨τa, ca, τb, cb, h1, h2, h3⟩ := both_ok hx
  rw [ha _ h1, hb _ h2]
  exact hk _ _ _ _ h1 h2 _ h3

theorem transfers_strictGuard {c c' : Bool} {r : TcResult} :
    Transfers (if (ValidationMode.strict.isStrict && c) = true then .error .fail else r)
      (if (ValidationMode.permissive.isStrict && c') = true then .error .fail else r) := by
  intro x hx
  simp only [ValidationMode.isStrict, Bool.false_and, Bool.false_eq_true, if_false]
  split at hx
  · cases hx
  · exact hx

theorem transfers_refl (r : TcResult) : Transfers r r := fun _ h => h

theorem typeOfList_flat {m : ValidationMode} {s : Schema} {env : RequestEnv} {caps : Capabilities} :
    ∀ {es : List Expr} {τs : List CedarType}, es.all FlatExpr = true → typeOfList m s env es caps = .ok τs →
      ∀ t, t ∈ τs → t.flat = true
  | [], τs, _, h, t, ht => by simp only [typeOfList, Except.ok.injEq] at h; subst h; cases ht
  | e :: es, τs, hf, h, t, ht => by
    simp only [List.all_cons, Bool.and_eq_true] at hf
    obtain ⟨τ, c, τs', h1, h2, rfl⟩ := typeOfList_cons h
    rcases List.mem_cons.mp ht with rfl | ht
    · exact flat_typeOf hf.1 h1
    · exact typeOfList_flat hf.2 h2 t ht


theorem leaf_modes (s : Schema) (env : RequestEnv) (caps : Capabilities) :
    (∀ p, typeOf .strict s env (.lit p) caps = typeOf .permissive s env (.lit p) caps) ∧
    (∀ v, typeOf .strict s env (.var v) caps = typeOf .permissive s env (.var v) caps) ∧
    (∀ sl, typeOf .strict s env (.slot sl) caps = typeOf .permissive s env (.slot sl) caps) := by
  refine ⟨fun p => ?_, fun v => ?_, fun sl => ?_⟩
  · cases p with
    | bool b => cases b <;> rfl
    | _ => rfl
  · cases v <;> rfl
  · cases sl <;> rfl

mutual
theorem sip {s : Schema} {env : RequestEnv} {q : Request} (hWF : SchemaWF2 s) (henv : EnvMatches s env q) :
    ∀ (e : Expr), InFragment2 env e = true → SIPFragment e = true → ∀ (caps : Capabilities),
      Transfers (typeOf .strict s env e caps) (typeOf .permissive s env e caps)
  | .lit p, _, _, caps => by rw [(leaf_modes s env caps).1 p]; exact transfers_refl _
  | .var v, _, _, caps => by rw [(leaf_modes s env caps).2.1 v]; exact transfers_refl _
  | .slot sl, _, _, caps => by rw [(leaf_modes s env caps).2.2 sl]; exact transfers_refl _
  | .unknown _ _, _, _, caps => by intro x hx; simp [typeOf] at hx
  | .and a b, hf, hs, caps => by
    simp only [InFragment2, InFragmentM, Bool.and_eq_true] at hf
    simp only [SIPFragment, Bool.and_eq_true] at hs
    have iha := sip hWF henv a hf.1 hs.1
    have ihb := sip hWF henv b hf.2 hs.2
    intro x hx
    simp only [typeOf] at hx ⊢
    cases hA : expectOneOf (typeOf .strict s env a caps) [boolT] with
    | error err => rw [hA] at hx; cases hx
    | ok pa =>
      obtain ⟨τa, ca⟩ := pa
      rw [hA] at hx; rw [(iha caps).expect _ _ hA]
      simp only at hx ⊢
      split at hx
      · rename_i hfalse; rw [if_pos hfalse]; exact hx
      · rename_i hfalse; rw [if_neg hfalse]
        cases hB : expectOneOf (typeOf .strict s env b (caps.union ca)) [boolT] with
        | error err => rw [hB] at hx; cases hx
        | ok pb => rw [hB] at hx; rw [(ihb _).expect _ _ hB]; exact hx
  | .or a b, hf, hs, caps => by
    simp only [InFragment2, InFragmentM, Bool.and_eq_true] at hf
    simp only [SIPFragment, Bool.and_eq_true] at hs
    have iha := sip hWF henv a hf.1 hs.1
    have ihb := sip hWF henv b hf.2 hs.2
    intro x hx
    simp only [typeOf] at hx ⊢
    cases hA : expectOneOf (typeOf .strict s env a caps) [boolT] with
    | error err => rw [hA] at hx; cases hx
    | ok pa =>
      obtain ⟨τa, ca⟩ := pa
      rw [hA] at hx; rw [(iha caps).expect _ _ hA]
      simp only at hx ⊢
      split at hx
      · rename_i htrue; rw [if_pos htrue]; exact hx
      · rename_i htrue; rw [if_neg htrue]
        cases hB : expectOneOf (typeOf .strict s env b caps) [boolT] with
        | error err => rw [hB] at hx; cases hx
        | ok pb => rw [hB] at hx; rw [(ihb _).expect _ _ hB]; exact hx
  | .ite c t e, hf, hs, caps => by
    simp only [InFragment2, InFragmentM, Bool.and_eq_true] at hf
    simp only [SIPFragment, Bool.and_eq_true, Bool.or_eq_true] at hs
    obtain ⟨⟨⟨hfc, hft⟩, hfe⟩, _⟩ := hf
    obtain ⟨⟨⟨hsc, hst⟩, hse⟩, hflat⟩ := hs
    have ihc := sip hWF henv c hfc hsc
    have iht := sip hWF henv t hft hst
    have ihe := sip hWF henv e hfe hse
    intro x hx
    simp only [typeOf] at hx ⊢
    cases hC : expectOneOf (typeOf .strict s env c caps) [boolT] with
    | error err => rw [hC] at hx; cases hx
    | ok pc =>
      obtain ⟨τc, cc⟩ := pc
      rw [hC] at hx; rw [(ihc caps).expect _ _ hC]
      simp only at hx ⊢
      split at hx
      · rename_i htrue; rw [if_pos htrue]
        cases hT : typeOf .strict s env t (caps.union cc) with
        | error err => rw [hT] at hx; cases hx
        | ok pt => rw [hT] at hx; rw [iht _ _ hT]; exact hx
      · rename_i htrue; rw [if_neg htrue]
        split at hx
        · rename_i hfalse; rw [if_pos hfalse]; exact ihe caps _ hx
        · rename_i hfalse; rw [if_neg hfalse]
          refine Transfers.both (iht _) (ihe _) (fun τt ct τe ce hT hE => ?_) _ hx
          have hflat' : τt.flat = true ∨ τe.flat = true := by
            rcases hflat with h | h
            · exact Or.inl (flat_typeOf h hT)
            · exact Or.inr (flat_typeOf h hE)
          intro y hy
          rw [← lub_flat_modes hflat']; exact hy
  | .unaryApp op a, hf, hs, caps => by
    simp only [InFragment2, InFragmentM] at hf
    simp only [SIPFragment] at hs
    have iha := sip hWF henv a hf hs
    intro x hx
    cases op with
    | not =>
      simp only [typeOf] at hx ⊢
      cases hA : expectOneOf (typeOf .strict s env a caps) [boolT] with
      | error err => rw [hA] at hx; cases hx
      | ok pa => rw [hA] at hx; rw [(iha caps).expect _ _ hA]; exact hx
    | neg =>
      simp only [typeOf] at hx ⊢
      cases hA : expectOneOf (typeOf .strict s env a caps) [.long] with
      | error err => rw [hA] at hx; cases hx
      | ok pa => rw [hA] at hx; rw [(iha caps).expect _ _ hA]; exact hx
    | isEmpty =>
      simp only [typeOf] at hx ⊢
      cases hA : expectOneOf (typeOf .strict s env a caps) [.set none] with
      | error err => rw [hA] at hx; cases hx
      | ok pa => rw [hA] at hx; rw [(iha caps).expect _ _ hA]; exact hx
  | .binaryApp op a b, hf, hs, caps => by
    simp only [InFragment2, InFragmentM, Bool.and_eq_true] at hf
    simp only [SIPFragment, Bool.and_eq_true] at hs
    have iha := sip hWF henv a hf.1.2 hs.1
    have ihb := sip hWF henv b hf.2 hs.2
    intro x hx
    cases op with
    | eq =>
      simp only [typeOf] at hx ⊢
      exact Transfers.both (iha caps) (ihb caps) (fun _ _ _ _ _ _ => transfers_strictGuard) _ hx
    | less =>
      simp only [typeOf] at hx ⊢
      exact Transfers.both (iha caps) (ihb caps) (fun _ _ _ _ _ _ => transfers_refl _) _ hx
    | lessEq =>
      simp only [typeOf] at hx ⊢
      exact Transfers.both (iha caps) (ihb caps) (fun _ _ _ _ _ _ => transfers_refl _) _ hx
    | add =>
      simp only [typeOf] at hx ⊢
      exact Transfers.both ((iha caps).expect _) ((ihb caps).expect _) (fun _ _ _ _ _ _ => transfers_refl _) _ hx
    | sub =>
      simp only [typeOf] at hx ⊢
      exact Transfers.both ((iha caps).expect _) ((ihb caps).expect _) (fun _ _ _ _ _ _ => transfers_refl _) _ hx
    | mul =>
      simp only [typeOf] at hx ⊢
      exact Transfers.both ((iha caps).expect _) ((ihb caps).expect _) (fun _ _ _ _ _ _ => transfers_refl _) _ hx
    | mem =>
      simp only [typeOf] at hx ⊢
      exact Transfers.both ((iha caps).expect _) ((ihb caps).expect _) (fun _ _ _ _ _ _ => transfers_refl _) _ hx
    | contains =>
      simp only [typeOf] at hx ⊢
      exact Transfers.both ((iha caps).expect _) (ihb caps) (fun _ _ _ _ _ _ => transfers_strictGuard) _ hx
    | containsAll =>
      simp only [typeOf] at hx ⊢
      exact Transfers.both ((iha caps).expect _) ((ihb caps).expect _) (fun _ _ _ _ _ _ => transfers_strictGuard) _ hx
    | containsAny =>
      simp only [typeOf] at hx ⊢
      exact Transfers.both ((iha caps).expect _) ((ihb caps).expect _) (fun _ _ _ _ _ _ => transfers_strictGuard) _ hx
    | hasTag =>
      simp only [typeOf] at hx ⊢
      exact Transfers.both ((iha caps).expect _) ((ihb caps).expect _) (fun _ _ _ _ _ _ => transfers_refl _) _ hx
    | getTag =>
      simp only [typeOf] at hx ⊢
      refine Transfers.both ((iha caps).expect _) ((ihb caps).expect _) (fun τa ca τb cb hA _ => ?_) _ hx
      obtain ⟨hta, _⟩ := expectOneOf_ok hA
      have hma := (sound2 (w := ⟨q, [], []⟩) hWF henv a hf.1.2 caps τa ca hta).1
      intro y hy
      cases τa <;> (try exact hy)
      rename_i l
      obtain ⟨T, rfl⟩ := mono_entity hma
      simp only at hy ⊢
      split at hy
      · rename_i hcap
        rw [if_pos hcap]
        rw [tagTypes_single] at hy ⊢
        cases het : s.entityType? T with
        | none => simp only [het] at hy; cases hy
        | some et =>
          simp only [het] at hy ⊢
          cases htag : et.tags with
          | none => simp only [htag] at hy; cases hy
          | some t =>
            simp only [htag, lubAll_single] at hy
            simp only [lubAll_single]
            exact hy
      · cases hy
  | .call fn args, hf, hs, caps => by
    simp only [InFragment2, InFragmentM] at hf
    simp only [SIPFragment] at hs
    have ih := sipList hWF henv args hf hs
    intro x hx
    simp only [typeOf] at hx ⊢
    cases hsig : extSig fn with
    | none =>
      rw [hsig] at hx; simp only at hx
      split at hx <;> cases hx
    | some sig =>
      rw [hsig] at hx; simp only at hx ⊢
      cases hL : typeOfList .strict s env args caps with
      | error err => rw [hL] at hx; cases hx
      | ok τs =>
        rw [hL] at hx; rw [ih caps τs hL]; simp only at hx ⊢
        split at hx
        · cases hx
        · rename_i hnf
          have hnf' : ¬ (args.length != sig.args.length || !constructorArgOk fn args ||
              (ValidationMode.permissive.isStrict && sig.isConstructor && !args.all isLit)) = true := by
            intro h
            apply hnf
            simp only [ValidationMode.isStrict, Bool.false_and, Bool.or_false] at h
            simp only [Bool.or_eq_true] at h ⊢
            exact Or.inl h
          rw [if_neg hnf']; exact hx
  | .getAttr e a, hf, hs, caps => by
    simp only [InFragment2, InFragmentM] at hf
    simp only [SIPFragment] at hs
    have ihe := sip hWF henv e hf hs
    intro x hx
    simp only [typeOf] at hx ⊢
    cases hE : expectOneOf (typeOf .strict s env e caps) [.anyEntity, anyRecord] with
    | error err => rw [hE] at hx; cases hx
    | ok pe => rw [hE] at hx; rw [(ihe caps).expect _ _ hE]; exact hx
  | .hasAttr e a, hf, hs, caps => by
    simp only [InFragment2, InFragmentM] at hf
    simp only [SIPFragment] at hs
    have ihe := sip hWF henv e hf hs
    intro x hx
    simp only [typeOf] at hx ⊢
    cases hE : expectOneOf (typeOf .strict s env e caps) [.anyEntity, anyRecord] with
    | error err => rw [hE] at hx; cases hx
    | ok pe => rw [hE] at hx; rw [(ihe caps).expect _ _ hE]; exact hx
  | .like e pat, hf, hs, caps => by
    simp only [InFragment2, InFragmentM] at hf
    simp only [SIPFragment] at hs
    have ihe := sip hWF henv e hf hs
    intro x hx
    simp only [typeOf] at hx ⊢
    cases hE : expectOneOf (typeOf .strict s env e caps) [.string] with
    | error err => rw [hE] at hx; cases hx
    | ok pe => rw [hE] at hx; rw [(ihe caps).expect _ _ hE]; exact hx
  | .is e ty, hf, hs, caps => by
    simp only [InFragment2, InFragmentM] at hf
    simp only [SIPFragment] at hs
    have ihe := sip hWF henv e hf hs
    intro x hx
    simp only [typeOf] at hx ⊢
    cases hE : expectOneOf (typeOf .strict s env e caps) [.anyEntity] with
    | error err => rw [hE] at hx; cases hx
    | ok pe => rw [hE] at hx; rw [(ihe caps).expect _ _ hE]; exact hx
  | .set es, hf, hs, caps => by
    simp only [InFragment2, InFragmentM, Bool.and_eq_true] at hf
    simp only [SIPFragment, Bool.and_eq_true] at hs
    have ih := sipList hWF henv es hf.1 hs.1
    intro x hx
    simp only [typeOf] at hx ⊢
    cases hL : typeOfList .strict s env es caps with
    | error err => rw [hL] at hx; cases hx
    | ok τs =>
      rw [hL] at hx; rw [ih caps τs hL]; simp only at hx ⊢
      split at hx
      · cases hx
      · simp only [ValidationMode.isStrict, Bool.false_and, Bool.false_eq_true, if_false]
        rw [← lubAll_flat_modes (typeOfList_flat hs.2 hL)]; exact hx
  | .record kvs, hf, hs, caps => by
    simp only [InFragment2, InFragmentM, Bool.and_eq_true] at hf
    simp only [SIPFragment] at hs
    have ih := sipKVs hWF henv kvs hf.1 hs
    intro x hx
    simp only [typeOf] at hx ⊢
    cases hL : typeOfKVs .strict s env kvs caps with
    | error err => rw [hL] at hx; cases hx
    | ok attrs => rw [hL] at hx; rw [ih caps attrs hL]; exact hx
theorem sipList {s : Schema} {env : RequestEnv} {q : Request} (hWF : SchemaWF2 s) (henv : EnvMatches s env q) :
    ∀ (es : List Expr), InFragment2List env es = true → SIPFragmentList es = true → ∀ (caps : Capabilities) (τs : List CedarType),
      typeOfList .strict s env es caps = .ok τs → typeOfList .permissive s env es caps = .ok τs
  | [], _, _, caps, τs, h => by simp only [typeOfList] at h ⊢; exact h
  | e :: es, hf, hs, caps, τs, h => by
    simp only [InFragment2List, InFragmentMList, Bool.and_eq_true] at hf
    simp only [SIPFragmentList, Bool.and_eq_true] at hs
    obtain ⟨τ, c, τs', h1, h2, rfl⟩ := typeOfList_cons h
    simp only [typeOfList]
    rw [sip hWF henv e hf.1 hs.1 caps _ h1, sipList hWF henv es hf.2 hs.2 caps τs' h2]
theorem sipKVs {s : Schema} {env : RequestEnv} {q : Request} (hWF : SchemaWF2 s) (henv : EnvMatches s env q) :
    ∀ (kvs : List (String × Expr)), InFragment2KVs env kvs = true → SIPFragmentKVs kvs = true →
      ∀ (caps : Capabilities) (attrs : Attrs),
      typeOfKVs .strict s env kvs caps = .ok attrs → typeOfKVs .permissive s env kvs caps = .ok attrs
  | [], _, _, caps, attrs, h => by simp only [typeOfKVs] at h ⊢; exact h
  | (k, e) :: es, hf, hs, caps, attrs, h => by
    simp only [InFragment2KVs, InFragmentMKVs, Bool.and_eq_true] at hf
    simp only [SIPFragmentKVs, Bool.and_eq_true] at hs
    obtain ⟨τ, c, attrs', h1, h2, rfl⟩ := typeOfKVs_cons h
    simp only [typeOfKVs]
    rw [sip hWF henv e hf.1 hs.1 caps _ h1, sipKVs hWF henv es hf.2 hs.2 caps attrs' h2]
end

end Cedar.C03
