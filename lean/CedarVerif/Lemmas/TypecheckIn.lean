import CedarVerif.Lemmas.TypecheckOps
import CedarVerif.Lemmas.TypecheckDefs2
/-
C03: soundness of `in` (strict mode): entity in entity, entity in set of entities; the `False` typing of entity types that
are not related by `descendants`; the typechecker's special cases for action literals.
-/
namespace Cedar.C03

open Cedar

/-! ### what conformance says about ancestors -/

theorem action?_mem {s : Schema} {u : EntityUID} {a : ActionEntry} (h : s.action? u = some a) : (u, a) ∈ s.acts := by
  unfold Schema.action? at h
  cases hf : s.acts.find? (fun p => p.1 == u) with
  | none => rw [hf] at h; cases h
  | some p =>
    rw [hf] at h
    simp only [Option.some.injEq] at h
    have h1 := List.find?_some hf
    have h2 := List.mem_of_find?_eq_some hf
    simp only [beq_iff_eq] at h1
    obtain ⟨p1, p2⟩ := p
    simp only at h h1
    subst h; subst h1
    exact h2

theorem conforms_action {s : Schema} {u : EntityUID} {d : EntityData} (hc : ConformsEntity s u d)
    (hact : isActionType u.ty = true) : ∃ a, s.action? u = some a ∧ (∀ x, x ∈ d.ancestors ↔ x ∈ a.ancestors) := by
  unfold ConformsEntity at hc
  rw [if_pos hact] at hc
  obtain ⟨a, ha, _, _, hanc⟩ := hc
  exact ⟨a, ha, hanc⟩

theorem conforms_entity_anc {s : Schema} {u : EntityUID} {d : EntityData} (hc : ConformsEntity s u d)
    (hact : ¬ isActionType u.ty = true) : ∀ x, x ∈ d.ancestors → x.ty ∈ s.allowedParentTypes u.ty := by
  unfold ConformsEntity at hc
  rw [if_neg hact] at hc
  obtain ⟨et, _, _, _, _, _, _, hanc, _⟩ := hc
  exact fun x hx => (hanc x hx).2

/-- entity types that the schema does not relate by `descendants` are not related in a conformant store -/
theorem inE_false {s : Schema} {es : Entities} {u1 u2 : EntityUID} (hWF : SchemaWF2 s) (hst : StoreConforms s es)
    (hm : mayBeDescendant s u1.ty u2.ty = false) : inE es u1 u2 = false := by
  unfold mayBeDescendant at hm
  simp only [Bool.or_eq_false_iff] at hm
  obtain ⟨⟨hdesc, hne⟩, hacts⟩ := hm
  have hne' : u1 ≠ u2 := by
    intro h; rw [h] at hne; simp at hne
  unfold inE
  simp only [Bool.or_eq_false_iff, beq_eq_false_iff_ne, ne_eq]
  refine ⟨hne', ?_⟩
  cases hf : es.find? u1 with
  | none => rfl
  | some d =>
    simp only
    cases hcon : d.ancestors.contains u2 with
    | false => rfl
    | true =>
      have hmem : u2 ∈ d.ancestors := by simpa using hcon
      have hc := hst _ _ hf
      by_cases hact : isActionType u1.ty = true
      · obtain ⟨a, ha, hanc⟩ := conforms_action hc hact
        obtain ⟨b, hb, hdb⟩ := hWF.act_anc_desc _ _ ha _ ((hanc u2).mp hmem)
        have hmemb := action?_mem hb
        rw [List.any_eq_false] at hacts
        have := hacts _ hmemb
        simp only [beq_self_eq_true, Bool.true_and, Bool.not_eq_true] at this
        rw [List.any_eq_false] at this
        have := this _ hdb
        simp at this
      · have hp := conforms_entity_anc hc hact u2 hmem
        unfold Schema.allowedParentTypes at hp
        rw [List.mem_map] at hp
        obtain ⟨p, hp1, hp2⟩ := hp
        rw [List.mem_filter] at hp1
        have hent := hWF.ets_map p hp1.1
        rw [hp2] at hent
        rw [hent] at hdesc
        simp only at hdesc
        rw [hp1.2] at hdesc
        cases hdesc

theorem entityType?_mem' {s : Schema} {T : EntityType} {et : EntityTypeEntry} (h : s.entityType? T = some et) : (T, et) ∈ s.ets := by
  unfold Schema.entityType? at h
  cases hf : s.ets.find? (fun p => p.1 == T) with
  | none => rw [hf] at h; cases h
  | some p =>
    rw [hf] at h
    simp only [Option.some.injEq] at h
    have h1 := List.find?_some hf
    have h2 := List.mem_of_find?_eq_some hf
    simp only [beq_iff_eq] at h1
    obtain ⟨p1, p2⟩ := p
    simp only at h h1
    subst h; subst h1
    exact h2

theorem entities_find?_mem : ∀ {es : Entities} {u : EntityUID} {d : EntityData}, es.find? u = some d → (u, d) ∈ es
  | [], _, _, h => by simp [Entities.find?] at h
  | (u', d') :: rest, u, d, h => by
    simp only [Entities.find?] at h
    split at h
    · rename_i hu
      simp only [beq_iff_eq] at hu
      cases h; subst hu
      exact List.mem_cons_self
    · exact List.mem_cons_of_mem _ (entities_find?_mem h)

/-! ### evaluation of `in` on well-typed operands -/

theorem asEntityList_map (us : List EntityUID) : asEntityList (us.map (fun u => Value.prim (.entityUID u))) = .ok us := by
  induction us with
  | nil => rfl
  | cons u us ih => simp [asEntityList, Value.asEntity, ih, bind, Except.bind]

theorem uids_of_inst {T : EntityType} : ∀ (vs : List Value), (∀ v, v ∈ vs → InstanceOfType v (.entity [T])) →
    ∃ us : List EntityUID, vs = us.map (fun u => Value.prim (.entityUID u)) ∧ ∀ u, u ∈ us → u.ty = T
  | [], _ => ⟨[], rfl, fun u hu => by cases hu⟩
  | v :: vs, h => by
    obtain ⟨u, rfl, hT⟩ := inst_entity_single (h v List.mem_cons_self)
    obtain ⟨us, rfl, hus⟩ := uids_of_inst vs (fun v' hv' => h v' (List.mem_cons_of_mem _ hv'))
    refine ⟨u :: us, rfl, ?_⟩
    intro u' hu'
    rcases List.mem_cons.mp hu' with rfl | hu'
    · exact hT
    · exact hus u' hu'

theorem shape_in_rhs {τb : CedarType} (hm : τb.mono = true)
    (hs : [CedarType.set (some .anyEntity), CedarType.anyEntity].any (fun t => isSubtype .permissive τb t) = true) :
    (∃ T, τb = .entity [T]) ∨ ∃ T, τb = .set (some (.entity [T])) := by
  simp only [List.any_cons, List.any_nil, Bool.or_false, Bool.or_eq_true] at hs
  cases τb <;> simp [isSubtype, CedarType.mono] at hs hm
  · rename_i el
    cases el with
    | none => simp [isSubtype] at hs
    | some x =>
      simp only [isSubtype] at hs
      simp only [CedarType.mono] at hm
      cases x <;> simp [isSubtype, CedarType.mono] at hs hm
      obtain ⟨T, rfl⟩ := mono_entity (by simpa [CedarType.mono] using hm)
      exact Or.inr ⟨T, rfl⟩
  · obtain ⟨T, rfl⟩ := mono_entity (by simpa [CedarType.mono] using hm)
    exact Or.inl ⟨T, rfl⟩

theorem typeOfInGeneral_mono {s : Schema} {τa τb τ : CedarType} {c' : Capabilities}
    (h : typeOfInGeneral s τa τb = .ok (τ, c')) : τ.mono = true := by
  unfold typeOfInGeneral at h
  split at h
  · split at h <;> simp only [ok, Except.ok.injEq, Prod.mk.injEq] at h <;> (rw [← h.1]; rfl)
  · simp only [ok, Except.ok.injEq, Prod.mk.injEq] at h; rw [← h.1]; rfl

theorem typeOfInGeneral_caps {s : Schema} {τa τb τ : CedarType} {c' : Capabilities}
    (h : typeOfInGeneral s τa τb = .ok (τ, c')) : c' = [] := by
  unfold typeOfInGeneral at h
  split at h
  · split at h <;> simp only [ok, Except.ok.injEq, Prod.mk.injEq] at h <;> exact h.2.symm
  · simp only [ok, Except.ok.injEq, Prod.mk.injEq] at h; exact h.2.symm

/-- the general rule: `False` when the schema does not relate the two entity types, `Bool` otherwise -/
theorem inGeneral_good {s : Schema} {w : World} {a b : Expr} {Ta : EntityType} {τb τ : CedarType} {ca cb c' : Capabilities}
    (hWF : SchemaWF2 s) (hst : StoreConforms s w.es)
    (sa : TySound w a (.entity [Ta]) ca) (sb : TySound w b τb cb)
    (hτb : (∃ T, τb = .entity [T]) ∨ ∃ T, τb = .set (some (.entity [T])))
    (h : typeOfInGeneral s (.entity [Ta]) τb = .ok (τ, c')) : Good w (.binaryApp .mem a b) τ c' := by
  have := typeOfInGeneral_caps h; subst this
  rcases sa with ⟨err, he, hp⟩ | ⟨v1, hv1, hi1, _⟩
  · exact Good.err (by simp [evaluate, he]) hp
  · obtain ⟨u1, rfl, hT1⟩ := inst_entity_single hi1
    subst hT1
    rcases sb with ⟨err, he, hp⟩ | ⟨v2, hv2, hi2, _⟩
    · exact Good.err (by simp only [World.eval] at hv1 he; simp [evaluate, hv1, he]) hp
    · simp only [World.eval] at hv1 hv2
      rcases hτb with ⟨Tb, rfl⟩ | ⟨Tb, rfl⟩
      · obtain ⟨u2, rfl, hT2⟩ := inst_entity_single hi2
        subst hT2
        have hev : w.eval (.binaryApp .mem a b) = .ok (.prim (.bool (inE w.es u1 u2))) := by
          simp [evaluate, hv1, hv2, applyBinary, Value.asEntity, bind, Except.bind]
        simp only [typeOfInGeneral, rhsEntityLub, anyDescendantOf, List.any_cons, List.any_nil, Bool.or_false] at h
        split at h
        · rename_i hnd
          simp only [ok, Except.ok.injEq, Prod.mk.injEq, and_true] at h; subst h
          have := inE_false hWF hst (by simpa using hnd)
          rw [this] at hev
          exact Good.value hev .ff
        · simp only [ok, Except.ok.injEq, Prod.mk.injEq, and_true] at h; subst h
          exact Good.value hev (.anyBool _)
      · obtain ⟨vs, rfl⟩ := inst_set hi2
        obtain ⟨us, rfl, hus⟩ := uids_of_inst vs (inst_set_mem hi2)
        have hev : w.eval (.binaryApp .mem a b) = .ok (.prim (.bool (us.any (inE w.es u1 ·)))) := by
          simp [evaluate, hv1, hv2, applyBinary, Value.asEntity, asEntityList_map, bind, Except.bind]
        simp only [typeOfInGeneral, rhsEntityLub, anyDescendantOf, List.any_cons, List.any_nil, Bool.or_false] at h
        split at h
        · rename_i hnd
          simp only [ok, Except.ok.injEq, Prod.mk.injEq, and_true] at h; subst h
          have : us.any (inE w.es u1 ·) = false := by
            rw [List.any_eq_false]
            intro u hu
            have := inE_false (u1 := u1) (u2 := u) hWF hst (by rw [hus u hu]; simpa using hnd)
            simp [this]
          rw [this] at hev
          exact Good.value hev .ff
        · simp only [ok, Except.ok.injEq, Prod.mk.injEq, and_true] at h; subst h
          exact Good.value hev (.anyBool _)

/-! ### action literals: `type_of_action_in_entity_literals` -/

abbrev uidV (u : EntityUID) : Value := .prim (.entityUID u)

theorem beq_prim_eq {p : Prim} {v : Value} (h : Value.beq (.prim p) v = true) : v = .prim p := by
  cases v <;> simp [Value.beq] at h
  rw [h]

theorem elem_prim {p : Prim} : ∀ {l : List Value}, Value.elem (.prim p) l = true → Value.prim p ∈ l
  | [], h => by simp [Value.elem] at h
  | v :: vs, h => by
    simp only [Value.elem, Bool.or_eq_true] at h
    rcases h with h | h
    · rw [beq_prim_eq h]; exact List.mem_cons_self
    · exact List.mem_cons_of_mem _ (elem_prim h)

theorem mkSet_uids : ∀ (rs : List EntityUID) (r : EntityUID), r ∈ rs → uidV r ∈ Value.mkSet (rs.map uidV)
  | [], r, h => by cases h
  | x :: xs, r, h => by
    simp only [List.map_cons, Value.mkSet]
    rcases List.mem_cons.mp h with rfl | h
    · split
      · rename_i hel; exact elem_prim hel
      · exact List.mem_cons_self
    · have := mkSet_uids xs r h
      split
      · exact this
      · exact List.mem_cons_of_mem _ this

theorem mkSet_uids_sub {rs : List EntityUID} {u : EntityUID} (h : uidV u ∈ Value.mkSet (rs.map uidV)) : u ∈ rs := by
  have := mkSet_subset _ _ h
  rw [List.mem_map] at this
  obtain ⟨u', hu', heq⟩ := this
  simp only [uidV, Value.prim.injEq, Prim.entityUID.injEq] at heq
  rw [← heq]; exact hu'

theorem uids_of_all : ∀ (vs : List Value), (∀ v, v ∈ vs → ∃ u, v = uidV u) → ∃ us : List EntityUID, vs = us.map uidV
  | [], _ => ⟨[], rfl⟩
  | v :: vs, h => by
    obtain ⟨u, rfl⟩ := h v List.mem_cons_self
    obtain ⟨us, rfl⟩ := uids_of_all vs (fun v' hv' => h v' (List.mem_cons_of_mem _ hv'))
    exact ⟨u :: us, rfl⟩

theorem asEuid_eval {s : Schema} {env : RequestEnv} {w : World} {a : Expr} {l : EntityUID} (henv : EnvMatches s env w.q)
    (h : asEuid env a = some l) : w.eval a = .ok (uidV l) := by
  unfold asEuid at h
  split at h
  · rename_i u hl
    cases h
    exact asLiteral_eval henv hl
  · cases h

theorem mapM_asEuid_eval {s : Schema} {env : RequestEnv} {w : World} (henv : EnvMatches s env w.q) :
    ∀ (es : List Expr) (rs : List EntityUID), es.mapM (asEuid env) = some rs →
      evaluateList w.q w.es w.sl es = .ok (rs.map uidV)
  | [], rs, h => by
    simp only [List.mapM_nil, pure, Option.some.injEq] at h
    subst h; rfl
  | e :: es, rs, h => by
    simp only [List.mapM_cons, bind, Option.bind] at h
    cases he : asEuid env e with
    | none => rw [he] at h; cases h
    | some u =>
      rw [he] at h; simp only at h
      cases hes : es.mapM (asEuid env) with
      | none => rw [hes] at h; cases h
      | some us =>
        rw [hes] at h
        simp only [pure, Option.some.injEq] at h
        subst h
        have h1 := asEuid_eval (w := w) henv he
        simp only [World.eval] at h1
        simp [evaluateList, h1, mapM_asEuid_eval henv es us hes]

theorem asEuids_eval {s : Schema} {env : RequestEnv} {w : World} {b : Expr} {rs : List EntityUID} (henv : EnvMatches s env w.q)
    (h : asEuids env b = some rs) :
    (∃ u, rs = [u] ∧ w.eval b = .ok (uidV u)) ∨ w.eval b = .ok (.set (Value.mkSet (rs.map uidV))) := by
  unfold asEuids at h
  split at h
  · rename_i u hu
    cases h
    exact Or.inl ⟨u, rfl, asEuid_eval henv hu⟩
  · split at h
    · rename_i es _
      exact Or.inr (by simp [evaluate, mapM_asEuid_eval (w := w) henv es rs h])
    · cases h

/-- the value of `a in b` for literal operands -/
theorem actionIn_value {s : Schema} {env : RequestEnv} {w : World} {a b : Expr} {l : EntityUID} {rs : List EntityUID}
    (henv : EnvMatches s env w.q) (ha : asEuid env a = some l) (hb : asEuids env b = some rs) :
    ∃ p : Bool, w.eval (.binaryApp .mem a b) = .ok (.prim (.bool p)) ∧ (p = true ↔ ∃ r, r ∈ rs ∧ inE w.es l r = true) := by
  have hv1 := asEuid_eval (w := w) henv ha
  simp only [World.eval] at hv1
  rcases asEuids_eval (w := w) henv hb with ⟨u, rfl, hv2⟩ | hv2
  · simp only [World.eval] at hv2
    refine ⟨inE w.es l u, by simp [evaluate, hv1, hv2, applyBinary, Value.asEntity, bind, Except.bind], ?_⟩
    simp
  · simp only [World.eval] at hv2
    obtain ⟨us, hus⟩ := uids_of_all (Value.mkSet (rs.map uidV)) (fun v hv => by
      have := mkSet_subset _ _ hv
      rw [List.mem_map] at this
      obtain ⟨u, _, rfl⟩ := this
      exact ⟨u, rfl⟩)
    refine ⟨us.any (inE w.es l ·), ?_, ?_⟩
    · rw [hus] at hv2
      simp [evaluate, hv1, hv2, applyBinary, Value.asEntity, asEntityList_map, bind, Except.bind]
    · rw [List.any_eq_true]
      constructor
      · rintro ⟨r, hr, hin⟩
        refine ⟨r, mkSet_uids_sub ?_, hin⟩
        rw [hus]; exact List.mem_map.mpr ⟨r, hr, rfl⟩
      · rintro ⟨r, hr, hin⟩
        have := mkSet_uids rs r hr
        rw [hus, List.mem_map] at this
        obtain ⟨r', hr', heq⟩ := this
        simp only [uidV, Value.prim.injEq, Prim.entityUID.injEq] at heq
        subst heq
        exact ⟨r', hr', hin⟩

/-- the predicate of `type_of_action_in_actions` -/
def actPred (s : Schema) (l : EntityUID) (r : EntityUID) : Bool :=
  r == l || (match s.action? r with
    | some a => a.descendants.contains l
    | none => false)

theorem typeOfActionIn_eq (s : Schema) (l : EntityUID) (rs : List EntityUID) :
    typeOfActionIn s l rs =
      (if (rs.filter (fun u => isActionType u.ty)).isEmpty then .bool .ff
       else .bool (if (rs.filter (fun u => isActionType u.ty)).any (actPred s l) then .tt else .ff)) := rfl

/-- an action related to `r` in a conformant store is related to it in the schema -/
theorem actionIn_complete {s : Schema} {es : Entities} {l r : EntityUID} (hWF : SchemaWF2 s) (hst : StoreConforms s es)
    (hact : isActionType l.ty = true) (hin : inE es l r = true) : isActionType r.ty = true ∧ actPred s l r = true := by
  unfold inE at hin
  simp only [Bool.or_eq_true, beq_iff_eq] at hin
  rcases hin with rfl | hin
  · exact ⟨hact, by simp [actPred]⟩
  · cases hf : es.find? l with
    | none => rw [hf] at hin; cases hin
    | some d =>
      rw [hf] at hin
      simp only [List.contains_eq_mem, decide_eq_true_eq] at hin
      obtain ⟨a, ha, hanc⟩ := conforms_action (hst _ _ hf) hact
      obtain ⟨b, hb, hdb⟩ := hWF.act_anc_desc _ _ ha _ ((hanc r).mp hin)
      refine ⟨hWF.act_type _ _ hb, ?_⟩
      simp [actPred, hb, hdb]

/-- an action related to `r` in the schema is related to it in a conformant store that holds the action entities -/
theorem actionIn_sound {s : Schema} {es : Entities} {l r : EntityUID} {al : ActionEntry} (hWF : SchemaWF2 s)
    (hst : StoreConforms s es) (hpres : ActionsPresent s es) (hl : s.action? l = some al)
    (hp : actPred s l r = true) : inE es l r = true := by
  unfold actPred at hp
  simp only [Bool.or_eq_true, beq_iff_eq] at hp
  rcases hp with rfl | hp
  · simp [inE]
  · cases hr : s.action? r with
    | none => rw [hr] at hp; cases hp
    | some b =>
      rw [hr] at hp
      simp only [List.contains_eq_mem, decide_eq_true_eq] at hp
      obtain ⟨al', hl', hanc⟩ := hWF.act_desc_anc _ _ hr _ hp
      obtain ⟨d, hd⟩ := hpres _ _ hl
      obtain ⟨a, ha, hiff⟩ := conforms_action (hst _ _ hd) (hWF.act_type _ _ hl)
      rw [hl'] at ha; cases ha
      have : r ∈ d.ancestors := (hiff r).mpr hanc
      simp [inE, hd, this]

theorem actionIn_good {s : Schema} {env : RequestEnv} {w : World} {a b : Expr} {l : EntityUID} {rs : List EntityUID}
    {al : ActionEntry} (hWF : SchemaWF2 s) (henv : EnvMatches s env w.q) (hst : StoreConforms s w.es)
    (hpres : ActionsPresent s w.es) (ha : asEuid env a = some l) (hb : asEuids env b = some rs)
    (hl : s.action? l = some al) : Good w (.binaryApp .mem a b) (typeOfActionIn s l rs) [] := by
  obtain ⟨p, hev, hiff⟩ := actionIn_value (w := w) henv ha hb
  have hact := hWF.act_type _ _ hl
  refine Good.value hev (inst_bool_iff.mpr ?_)
  rw [typeOfActionIn_eq]
  -- `p` is true exactly when some action of `rs` satisfies the schema predicate
  have hchar : p = true ↔ (rs.filter (fun u => isActionType u.ty)).any (actPred s l) = true := by
    rw [hiff, List.any_eq_true]
    constructor
    · rintro ⟨r, hr, hin⟩
      obtain ⟨h1, h2⟩ := actionIn_complete hWF hst hact hin
      exact ⟨r, List.mem_filter.mpr ⟨hr, h1⟩, h2⟩
    · rintro ⟨r, hr, hpred⟩
      exact ⟨r, (List.mem_filter.mp hr).1, actionIn_sound hWF hst hpres hl hpred⟩
  split
  · rename_i hempty
    have : p = false := by
      cases p with
      | false => rfl
      | true =>
        have := hchar.mp rfl
        rw [List.isEmpty_iff] at hempty
        rw [hempty] at this
        simp at this
    rw [this]; rfl
  · cases hany : (rs.filter (fun u => isActionType u.ty)).any (actPred s l) with
    | true => rw [hchar.mpr hany]; rfl
    | false =>
      have : p = false := by
        cases p with
        | false => rfl
        | true => rw [hchar.mp rfl] at hany; cases hany
      rw [this]; rfl

/-- the literal an operand stands for has the literal's type -/
theorem asEuid_declared {m : ValidationMode} {s : Schema} {env : RequestEnv} {a : Expr} {l : EntityUID} {caps : Capabilities}
    {τ : CedarType} {c : Capabilities} (ha : asEuid env a = some l) (h : typeOf m s env a caps = .ok (τ, c))
    (hact : isActionType l.ty = true) : ∃ al, s.action? l = some al := by
  have key : euidLiteralType s l = some τ := by
    unfold asEuid at ha
    split at ha
    · rename_i u hlit
      cases ha
      unfold asLiteral at hlit
      split at hlit
      · cases hlit
        simp only [typeOf] at h
        cases hl : euidLiteralType s l with
        | none => rw [hl] at h; cases h
        | some τ' => rw [hl] at h; simp only [ok, Except.ok.injEq, Prod.mk.injEq] at h; rw [h.1]
      · simp only [Option.some.injEq, Prim.entityUID.injEq] at hlit
        subst hlit
        simp only [typeOf] at h
        cases hl : euidLiteralType s env.action with
        | none => rw [hl] at h; cases h
        | some τ' => rw [hl] at h; simp only [ok, Except.ok.injEq, Prod.mk.injEq] at h; rw [h.1]
      · cases hlit
    · cases ha
  unfold euidLiteralType at key
  rw [if_pos hact] at key
  cases hl : s.action? l with
  | none => rw [hl] at key; cases key
  | some al => exact ⟨al, rfl⟩

end Cedar.C03
