import CedarVerif.Lemmas.BatchedBudget
import CedarVerif.Lemmas.TpeDecision
/- C15 helpers: TPE soundness AT THE STATES OF THE LOOP, derived from C14's `interpret_typeSafe` and `eval_pad`
   (missing ≡ empty): the store loaded so far is completed by the real store padded with empty entities for the ids
   that were loaded as missing; every residual of a state evaluates on such a completion like the typed condition it
   started from. -/
namespace Cedar.Batched
open Cedar Cedar.Tpe

/-- the loader answers from the store `es`: what it returns for an id is what the store holds (`None` iff absent) -/
def Faithful (loader : Loader) (es : Entities) : Prop := ∀ ids u d, (u, d) ∈ loader ids → d = es.find? u

/-- every entity of the partial store was loaded from `es` (an absent one as the empty entity) -/
def LoadedFrom (es : Entities) (pes : Tpe.PEntities) : Prop := ∀ u p, pes.find? u = some p → p = pentityOf (es.find? u)

theorem loadedFrom_nil (es : Entities) : LoadedFrom es [] := by
  intro u p h; simp [Tpe.PEntities.find?] at h

theorem addLoaded_loadedFrom {es : Entities} {pes pes' : Tpe.PEntities} {l : List (EntityUID × Option EntityData)}
    (h0 : LoadedFrom es pes) (hl : ∀ u d, (u, d) ∈ l → d = es.find? u) (h : addLoaded pes l = some pes') : LoadedFrom es pes' := by
  induction l generalizing pes with
  | nil => simp only [addLoaded, Option.some.injEq] at h; subst h; exact h0
  | cons a l ih =>
    obtain ⟨k, d⟩ := a
    simp only [addLoaded] at h
    split at h
    · cases h
    · refine ih ?_ (fun u d hm => hl u d (by simp [hm])) h
      intro u p hp
      rw [find?_append] at hp
      cases hf : Tpe.PEntities.find? pes u with
      | some p' =>
        rw [hf] at hp; simp only [Option.some.injEq] at hp; subst hp; exact h0 u p' hf
      | none =>
        rw [hf] at hp
        simp only [Tpe.PEntities.find?] at hp
        split at hp
        · rename_i hk
          have hk' : k = u := by simpa using hk
          subst hk'
          simp only [Option.some.injEq] at hp
          rw [← hp, hl k d (by simp)]
        · cases hp

/-- `addLoaded` only appends: what was loaded stays, with the same data -/
theorem addLoaded_sub {pes pes' : Tpe.PEntities} {l : List (EntityUID × Option EntityData)} (h : addLoaded pes l = some pes') :
    ∀ u p, pes.find? u = some p → pes'.find? u = some p := by
  induction l generalizing pes with
  | nil => simp only [addLoaded, Option.some.injEq] at h; subst h; exact fun _ _ hp => hp
  | cons a l ih =>
    obtain ⟨k, d⟩ := a
    simp only [addLoaded] at h
    split at h
    · cases h
    · intro u p hp
      exact ih h u p (by rw [find?_append, hp])

/-! ### the completion of a loaded store: the real store padded with empty entities -/

def padStore (es : Entities) (pes : Tpe.PEntities) : Entities :=
  es ++ (pes.filter (fun x => (es.find? x.1).isNone)).map (fun x => (x.1, emptyData))

theorem efind?_append (a b : Entities) (u : EntityUID) :
    Entities.find? (a ++ b) u = (match Entities.find? a u with | some d => some d | none => Entities.find? b u) := by
  induction a with
  | nil => simp [Entities.find?]
  | cons x a ih =>
    obtain ⟨k, d⟩ := x
    simp only [List.cons_append, Entities.find?]
    split
    · rfl
    · exact ih

theorem efind?_allEmpty (L : Entities) (hL : ∀ x, x ∈ L → x.2 = emptyData) (u : EntityUID) :
    Entities.find? L u = none ∨ Entities.find? L u = some emptyData := by
  induction L with
  | nil => left; rfl
  | cons x L ih =>
    obtain ⟨k, d⟩ := x
    simp only [Entities.find?]
    split
    · right; have := hL (k, d) (by simp); simp only at this; rw [this]
    · exact ih (fun x hx => hL x (by simp [hx]))

theorem pad_hit (es : Entities) (pes : Tpe.PEntities) (u : EntityUID) (p : PEntity) (hp : pes.find? u = some p)
    (hn : es.find? u = none) :
    Entities.find? ((pes.filter (fun x => (es.find? x.1).isNone)).map (fun x => (x.1, emptyData))) u = some emptyData := by
  induction pes with
  | nil => simp [Tpe.PEntities.find?] at hp
  | cons x pes ih =>
    obtain ⟨k, d⟩ := x
    simp only [Tpe.PEntities.find?] at hp
    by_cases hk : (k == u) = true
    · have hk' : k = u := by simpa using hk
      subst hk'
      simp [List.filter, hn, Entities.find?]
    · simp only [hk] at hp
      have := ih hp
      simp only [List.filter]
      split
      · simp only [List.map_cons, Entities.find?, hk]; exact this
      · exact this

theorem padStore_pads (es : Entities) (pes : Tpe.PEntities) : PadsEmpty es (padStore es pes) := by
  intro u
  unfold padStore
  rw [efind?_append]
  cases hf : Entities.find? es u with
  | some d => left; rfl
  | none =>
    simp only
    rcases efind?_allEmpty ((pes.filter (fun x => (es.find? x.1).isNone)).map (fun x => (x.1, emptyData)))
      (by intro x hx; obtain ⟨y, _, rfl⟩ := List.mem_map.mp hx; rfl) u with h | h
    · left; exact h
    · right; exact ⟨by first | trivial | rfl, h⟩

theorem loaded_cases {es : Entities} {pes : Tpe.PEntities} (hL : LoadedFrom es pes) {u : EntityUID} {p : PEntity}
    (hp : pes.find? u = some p) :
    ∃ d, (padStore es pes).find? u = some d ∧ p = ⟨some d.attrs, some d.ancestors, some d.tags⟩ := by
  have hpe := hL u p hp
  unfold padStore
  rw [efind?_append]
  cases hf : Entities.find? es u with
  | some d => exact ⟨d, rfl, by rw [hpe, hf]; rfl⟩
  | none =>
    simp only
    rw [pad_hit es pes u p hp hf]
    exact ⟨emptyData, rfl, by rw [hpe, hf]; rfl⟩

/-- the loaded store is completed by the padded real store -/
theorem completes_pad {es : Entities} {pes : Tpe.PEntities} (hL : LoadedFrom es pes) (q : Request) :
    Completes (prequestOf q) pes q (padStore es pes) where
  principal := by intro u h; simp only [prequestOf, PUid.uid?, Option.map_some, Option.some.injEq] at h; rw [← h]
  resource := by intro u h; simp only [prequestOf, PUid.uid?, Option.map_some, Option.some.injEq] at h; rw [← h]
  ptype := rfl
  rtype := rfl
  action := rfl
  context := by intro c h; simp only [prequestOf, Option.some.injEq] at h; exact h
  attrs := by
    intro u a h
    unfold Tpe.PEntities.attrs? at h
    cases hp : pes.find? u with
    | none => simp [hp] at h
    | some p =>
      obtain ⟨d, hd, rfl⟩ := loaded_cases hL hp
      simp only [hp, Option.bind_some, Option.some.injEq] at h
      exact ⟨d, hd, h⟩
  ancestors := by
    intro u a h
    unfold Tpe.PEntities.ancestors? at h
    cases hp : pes.find? u with
    | none => simp [hp] at h
    | some p =>
      obtain ⟨d, hd, rfl⟩ := loaded_cases hL hp
      simp only [hp, Option.bind_some, Option.some.injEq] at h
      exact ⟨d, hd, fun x => by rw [h]⟩
  tags := by
    intro u a h
    unfold Tpe.PEntities.tags? at h
    cases hp : pes.find? u with
    | none => simp [hp] at h
    | some p =>
      obtain ⟨d, hd, rfl⟩ := loaded_cases hL hp
      simp only [hp, Option.bind_some, Option.some.injEq] at h
      exact ⟨d, hd, h⟩

/-- a completion of a larger partial store is a completion of a smaller one -/
theorem completes_mono {preq : Tpe.PRequest} {pes pes' : Tpe.PEntities} {req : Request} {E : Entities}
    (hsub : ∀ u p, pes.find? u = some p → pes'.find? u = some p) (h : Completes preq pes' req E) : Completes preq pes req E where
  principal := h.principal
  resource := h.resource
  ptype := h.ptype
  rtype := h.rtype
  action := h.action
  context := h.context
  attrs := by
    intro u a ha
    apply h.attrs u a
    unfold Tpe.PEntities.attrs? at ha ⊢
    cases hp : pes.find? u with
    | none => simp [hp] at ha
    | some p => rw [hsub u p hp]; simpa [hp] using ha
  ancestors := by
    intro u a ha
    apply h.ancestors u a
    unfold Tpe.PEntities.ancestors? at ha ⊢
    cases hp : pes.find? u with
    | none => simp [hp] at ha
    | some p => rw [hsub u p hp]; simpa [hp] using ha
  tags := by
    intro u a ha
    apply h.tags u a
    unfold Tpe.PEntities.tags? at ha ⊢
    cases hp : pes.find? u with
    | none => simp [hp] at ha
    | some p => rw [hsub u p hp]; simpa [hp] using ha

theorem completes_nil (q : Request) (E : Entities) : Completes (prequestOf q) [] q E where
  principal := by intro u h; simp only [prequestOf, PUid.uid?, Option.map_some, Option.some.injEq] at h; rw [← h]
  resource := by intro u h; simp only [prequestOf, PUid.uid?, Option.map_some, Option.some.injEq] at h; rw [← h]
  ptype := rfl
  rtype := rfl
  action := rfl
  context := by intro c h; simp only [prequestOf, Option.some.injEq] at h; exact h
  attrs := by intro u a h; simp [Tpe.PEntities.attrs?, Tpe.PEntities.find?] at h
  ancestors := by intro u a h; simp [Tpe.PEntities.ancestors?, Tpe.PEntities.find?] at h
  tags := by intro u a h; simp [Tpe.PEntities.tags?, Tpe.PEntities.find?] at h

/-! ### the invariant of the loop -/

/-- a residual policy of a state stems from a typed input policy `tp`; its residual is an output of `interpret` for the
    store of the state, and on every completion of that store (a padding of `es` with empty entities) it evaluates like
    the residual `r0` the typed condition started as, and is type-safe -/
def Tracked (q : Request) (es : Entities) (tps : List TPolicy) (st : State) (rp : ResidualPolicy) : Prop :=
  ∃ tp r0, tp ∈ tps ∧ Residual.ofExpr tp.typed = some r0 ∧ rp.original = tp.policy ∧ rp.effect = tp.policy.effect ∧
    rp.id = tp.policy.id ∧ (∃ r, rp.residual = interpret (prequestOf q) st.entities r) ∧
    ∀ E, PadsEmpty es E → Completes (prequestOf q) st.entities q E →
      Agree (rp.residual.eval q E) (r0.eval q E) ∧ TypeSafe q E rp.residual

structure SInv (q : Request) (es : Entities) (tps : List TPolicy) (st : State) : Prop where
  loaded : LoadedFrom es st.entities
  pols : st.residuals.map (·.original) = tps.map (·.policy)
  tracked : ∀ rp, rp ∈ st.residuals → Tracked q es tps st rp

theorem sinv_init {q : Request} {es : Entities} {tps : List TPolicy} (hT : TypedSafe q es tps) {st0 : State}
    (h0 : initState (prequestOf q) tps = some st0) : SInv q es tps st0 := by
  unfold initState at h0
  cases hm : mapM? (residualPolicyOf (prequestOf q) ([] : Tpe.PEntities)) tps with
  | none => simp [hm] at h0
  | some rs =>
    simp only [hm, Option.map_some, Option.some.injEq] at h0
    subst h0
    refine ⟨loadedFrom_nil es, ?_, ?_⟩
    · apply mapM?_map (f := residualPolicyOf (prequestOf q) ([] : Tpe.PEntities)) _ hm
      intro tp rp hf
      unfold residualPolicyOf at hf
      cases ho : Residual.ofExpr tp.typed <;> simp [ho] at hf
      subst hf; rfl
    · intro rp hrp
      obtain ⟨tp, htp, hf⟩ := (mapM?_spec hm).2 rp hrp
      unfold residualPolicyOf at hf
      cases ho : Residual.ofExpr tp.typed with
      | none => simp [ho] at hf
      | some r0 =>
        simp only [ho, Option.map_some, Option.some.injEq] at hf
        subst hf
        refine ⟨tp, r0, htp, ho, rfl, rfl, rfl, ⟨r0, rfl⟩, ?_⟩
        intro E hpad hC
        exact interpret_typeSafe hC (typeSafe_pad hpad (hT tp htp r0 ho))

theorem sinv_step {q : Request} {es : Entities} {tps : List TPolicy} {loader : Loader} (hF : Faithful loader es)
    {st st' : State} (hi : SInv q es tps st) (hs : step (prequestOf q) loader st = some st') : SInv q es tps st' := by
  unfold step at hs
  cases ha : addLoaded st.entities (loader st.toLoad) with
  | none => simp [ha] at hs
  | some es2 =>
    simp only [ha, Option.some.injEq] at hs
    subst hs
    refine ⟨addLoaded_loadedFrom hi.loaded (fun u d hm => hF _ u d hm) ha, ?_, ?_⟩
    · simp only [List.map_map]
      rw [← hi.pols]
      apply List.map_congr_left
      intro rp _; rfl
    · intro rp' hrp'
      simp only [List.mem_map] at hrp'
      obtain ⟨rp, hrp, rfl⟩ := hrp'
      obtain ⟨tp, r0, htp, ho, h1, h2, h3, _, hall⟩ := hi.tracked rp hrp
      refine ⟨tp, r0, htp, ho, h1, h2, h3, ⟨rp.residual, rfl⟩, ?_⟩
      intro E hpad hC
      obtain ⟨hag, hts⟩ := hall E hpad (completes_mono (addLoaded_sub ha) hC)
      have := interpret_typeSafe hC hts
      exact ⟨agree_trans this.1 hag, this.2⟩

/-- what a residual of a loop state evaluates to on the padded store is what the policy condition evaluates to on `es` -/
theorem sinv_agree {q : Request} {es : Entities} {tps : List TPolicy} (hE : TypedAgrees q es tps) {st : State}
    (hi : SInv q es tps st) {rp : ResidualPolicy} (hrp : rp ∈ st.residuals) :
    Agree (rp.residual.eval q (padStore es st.entities)) (evaluate q es rp.original.env rp.original.condition) := by
  obtain ⟨tp, r0, htp, ho, h1, _, _, _, hall⟩ := hi.tracked rp hrp
  have hpad := padStore_pads es st.entities
  obtain ⟨hag, _⟩ := hall _ hpad (completes_pad hi.loaded q)
  have h2 : Agree (r0.eval q (padStore es st.entities)) (r0.eval q es) := eval_pad hpad r0
  rw [ofExpr_eval (es := es) tp.typed r0 ho] at h2
  rw [h1]
  exact agree_trans hag (agree_trans h2 (hE tp htp))

theorem sinv_sound {q : Request} {es : Entities} {tps : List TPolicy} (hE : TypedAgrees q es tps) {st : State}
    (hi : SInv q es tps st) : ∀ rp, rp ∈ st.residuals → rp.residual.cls.Consistent (rp.original.outcome q es) :=
  fun _ hrp => cls_consistent_of_agree (sinv_agree hE hi hrp)

theorem sinv_wf {q : Request} {es : Entities} {tps : List TPolicy} {st : State} (hi : SInv q es tps st) :
    ∀ rp, rp ∈ st.residuals → rp.effect = rp.original.effect ∧ rp.id = rp.original.id := by
  intro rp hrp
  obtain ⟨tp, r0, _, _, h1, h2, h3, _, _⟩ := hi.tracked rp hrp
  rw [h1]; exact ⟨h2, h3⟩

end Cedar.Batched
