import CedarVerif.Lemmas.SyntaxPrim
/-
C05: the precedence-climbing induction on the fragment `inFrag3` (= everything the parser can produce, modulo the
`splitOn`/`intercalate` side condition on type names).
-/
namespace Cedar.Syntax
open Cedar

/-- what the induction carries for an expression `e` parsed with `pe = parseFuel f` -/
structure Good3 (me : Char → Bool) (e : Expr) (f : Nat) : Prop where
  top : TopOK me (parseFuel (f + 1)) e
  kand : isAnd e = true → ∀ R, 4 < headLv R → ChainK (relation (parseFuel f)) andOp (printE me e) e R
  kor : isOr e = true → ∀ R, 5 < headLv R → ChainK (andLevel (parseFuel f)) orOp (printE me e) e R
  kadd : (isBin .add e || isBin .sub e) = true → ∀ R, 2 < headLv R → ChainK (mult (parseFuel f)) addOp (printE me e) e R
  kmul : isBin .mul e = true → ∀ R, 1 ≤ headLv R → ChainK (unary (parseFuel f)) multOp (printE me e) e R
  kmem : needsParens e = false → MemK (parseFuel f) (printE me e) e
  plain : (isChain e || !needsParens e) = true → ∀ R, startsPlain (printE me e ++ R) = true

theorem good3_of_top {me : Char → Bool} {e : Expr} {f : Nat} (hc : isChain e = false) (hp : needsParens e = true)
    (h : TopOK me (parseFuel (f + 1)) e) : Good3 me e f := by
  have hc' := hc
  simp only [isChain, Bool.or_eq_false_iff] at hc
  exact ⟨h, by simp [hc], by simp [hc], by simp [hc], by simp [hc], by simp [hp], by simp [hc', hp]⟩

theorem good3_of_mem {me : Char → Bool} {e : Expr} {f : Nat} (hc : isChain e = false)
    (hm : MemK (parseFuel f) (printE me e) e) (hpl : ∀ R, startsPlain (printE me e ++ R) = true) : Good3 me e f := by
  simp only [isChain, Bool.or_eq_false_iff] at hc
  refine ⟨?_, by simp [hc], by simp [hc], by simp [hc], by simp [hc], fun _ => hm, fun _ => hpl⟩
  intro rest hr
  obtain ⟨s, h1, h2⟩ := memK_member hm rest (by omega)
  exact ⟨s, m_top h1 (hpl rest) hr, h2⟩

theorem startsPlain_append {A : List Token} (h : ∀ R, startsPlain (A ++ R) = true) (T R : List Token) :
    startsPlain ((A ++ T) ++ R) = true := by
  rw [List.append_assoc]; exact h _

theorem str_top (pe : P EOS) (raw : List Char) (R : List Token) (hR : headLv R = 7) :
    exprLevel pe (.str raw :: R) = some (.strLit raw, R) :=
  m_top (member_of_primary (by simp [primary]) (by omega)) (by simp [startsPlain]) hR

theorem atom3_plain (me : Char → Bool) (e : Expr) (hf : inFrag3 e = true) (ha : isAtom3 e = true) (R : List Token) :
    startsPlain (printE me e ++ R) = true := by
  cases e <;> simp [isAtom3] at ha
  case var v => cases v <;> simp [printE, startsPlain, varName]
  case slot s => simp [printE, startsPlain]
  case lit p =>
    cases p with
    | bool b => cases b <;> simp [printE, startsPlain]
    | int i => by_cases h : i < 0 <;> simp [printE, startsPlain, h]
    | string s => simp [printE, startsPlain, strTok]
    | entityUID u =>
      simp only [inFrag3] at hf
      obtain ⟨c, cs, hs, hall, hj⟩ := typeName_split hf
      have hc : unreservedIdent c = true := by simp only [List.all_cons, Bool.and_eq_true] at hall; exact hall.1
      simp [printE, nameTokens, hs, startsPlain, (unreserved_ne hc).2.2]

theorem printE_call_fun (me : Char → Bool) (fn : String) (args : List Expr) (h : isExtMethod fn = false) :
    printE me (.call fn args) = nameTokens fn ++ (.lparen :: (printEs me args ++ [.rparen])) := by
  cases args <;> simp [printE, h]

/-- method-style call appended to an open `Member` -/
theorem memK_meth (me : Char → Bool) {pe : P EOS} (hclose : ∀ ts, pe (.rparen :: ts) = none) {L : List Token} {a e' : Expr}
    (m : String) (hm : unreservedIdent m = true) (args : List Expr) (h : MemK pe L a)
    (hargs : ∀ x ∈ args, TopOK me pe x) (ht : toMeth m a args = some e') :
    MemK pe (L ++ (.dot :: .ident m :: .lparen :: (printEs me args ++ [.rparen]))) e' := by
  refine memK_ext (acc := .meth m args) h (fun R => rfl) (fun R => rfl) (by simp) (fun R fuel _ => ?_) (fun more => ?_)
  · exact acc_meth_step pe m hm args (printEs me args) R fuel (exprList_print' me pe .rparen hclose rfl (by simp) R args hargs)
  · simp [applyAccs, ht]

theorem parse_print_aux3 (me : Char → Bool) : ∀ k e, sz3 e ≤ k → inFrag3 e = true → ∀ f, sz3 e ≤ f → Good3 me e f := by
  intro k
  induction k with
  | zero => intro e hk; have := sz3_pos e; omega
  | succ k ih =>
    intro e hk hf f hfe
    obtain ⟨f', rfl⟩ : ∃ f', f = f' + 1 := ⟨f - 1, by have := sz3_pos e; omega⟩
    have hclose : ∀ t, (t = .rparen ∨ t = .rbrack ∨ t = .rbrace ∨ t = .comma) → ∀ ts, parseFuel (f' + 1) (t :: ts) = none :=
      fun t ht ts => parseFuel_close _ t ht ts
    -- sub-expressions inside brackets / `if`: one unit of fuel less
    have S : ∀ a, sz3 a < sz3 e → inFrag3 a = true → TopOK me (parseFuel (f' + 1)) a :=
      fun a ha hfa => (ih a (by omega) hfa f' (by omega)).top
    -- the left child of a chain node / an unparenthesised operand, at the same fuel
    have G : ∀ a, sz3 a < sz3 e → inFrag3 a = true → Good3 me a (f' + 1) :=
      fun a ha hfa => ih a (by omega) hfa (f' + 1) (by omega)
    have W : ∀ a, sz3 a < sz3 e → inFrag3 a = true →
        MemK (parseFuel (f' + 1)) (paren (needsParens a) (printE me a)) a ∧
        ∀ r, startsPlain (paren (needsParens a) (printE me a) ++ r) = true := by
      intro a ha hfa
      cases hp : needsParens a
      · simp only [paren, Bool.false_eq_true, if_false]
        exact ⟨(G a ha hfa).kmem hp, (G a ha hfa).plain (by simp [hp])⟩
      · simp only [paren, if_true]
        exact ⟨memK_paren me _ a (S a ha hfa), fun r => by simp [startsPlain]⟩
    have Wm : ∀ a, sz3 a < sz3 e → inFrag3 a = true → ∀ r, 1 ≤ headLv r →
        ∃ s, member (parseFuel (f' + 1)) (paren (needsParens a) (printE me a) ++ r) = some (s, r) ∧ s.toExpr = some a ∧
          startsPlain (paren (needsParens a) (printE me a) ++ r) = true := by
      intro a ha hfa r hr
      obtain ⟨hm, hpl⟩ := W a ha hfa
      obtain ⟨s, h1, h2⟩ := memK_member hm r hr
      exact ⟨s, h1, h2, hpl r⟩
    cases e
    case lit p =>
      exact good3_of_mem (by rfl) (memK_atom me (parseFuel f') _ hf rfl) (atom3_plain me _ hf rfl)
    case var v =>
      exact good3_of_mem (by rfl) (memK_atom me (parseFuel f') _ hf rfl) (atom3_plain me _ hf rfl)
    case slot s =>
      exact good3_of_mem (by rfl) (memK_atom me (parseFuel f') _ hf rfl) (atom3_plain me _ hf rfl)
    case unknown n ty => simp [inFrag3] at hf
    case ite c t e' =>
      refine good3_of_top (by rfl) (by rfl) (fun rest hr => ?_)
      simp only [inFrag3, Bool.and_eq_true] at hf
      simp only [sz3] at hfe hk S
      obtain ⟨sc, hc1, hc2⟩ := S c (by omega) hf.1.1 (.ident "then" :: (printE me t ++ .ident "else" :: (printE me e' ++ rest))) (by simp [headLv, tokLevel])
      obtain ⟨st, ht1, ht2⟩ := S t (by omega) hf.1.2 (.ident "else" :: (printE me e' ++ rest)) (by simp [headLv, tokLevel])
      obtain ⟨se, he1, he2⟩ := S e' (by omega) hf.2 rest hr
      refine ⟨.expr (.ite c t e'), ?_, rfl⟩
      show exprLevel (parseFuel (f' + 1)) _ = _
      simp only [printE, List.cons_append, List.append_assoc]
      simp only [exprLevel, hc1, ht1, he1, hc2, ht2, he2]
    case unaryApp op a =>
      simp only [inFrag3] at hf
      simp only [sz3] at hfe hk W Wm S
      cases op with
      | not =>
        refine good3_of_top (by rfl) (by rfl) (fun rest hr => ?_)
        obtain ⟨sa, ha1, ha2, has⟩ := Wm a (by omega) hf rest (by omega)
        refine ⟨.expr (.unaryApp .not a), ?_, rfl⟩
        show exprLevel (parseFuel (f' + 1)) _ = _
        simp only [printE, List.cons_append]
        have hu : unary (parseFuel (f' + 1)) (.bang :: (paren (needsParens a) (printE me a) ++ rest)) = some (.expr (.unaryApp .not a), rest) := by
          simp only [unary, countBang, countBang_plain has]
          simp [ha1, ha2, applyN]
        exact add_to_top (unary_to_add hu (by omega)) hr (by intro r h; cases h)
      | neg =>
        refine good3_of_top (by rfl) (by rfl) (fun rest hr => ?_)
        obtain ⟨sa, ha1, ha2⟩ := S a (by omega) hf (.rparen :: rest) (by simp [headLv, tokLevel])
        refine ⟨.expr (.unaryApp .neg a), ?_, rfl⟩
        show exprLevel (parseFuel (f' + 1)) _ = _
        simp only [printE, List.cons_append, List.append_assoc, List.nil_append]
        have hm : member (parseFuel (f' + 1)) (.lparen :: (printE me a ++ .rparen :: rest)) = some (.expr a, rest) := by
          apply member_of_primary _ (by omega)
          simp only [primary, ha1]
          simp [ha2]
        have hu : unary (parseFuel (f' + 1)) (.minus :: .lparen :: (printE me a ++ .rparen :: rest)) = some (.expr (.unaryApp .neg a), rest) := by
          simp only [unary, countMinus]
          simp [hm, EOS.toExpr, applyN]
        exact add_to_top (unary_to_add hu (by omega)) hr (by intro r h; cases h)
      | isEmpty =>
        obtain ⟨hm, hpl⟩ := W a (by omega) hf
        have hK := memK_meth me (hclose _ (by simp)) "isEmpty" (by decide) [] hm (by simp) (e' := .unaryApp .isEmpty a) (by simp [toMeth])
        refine good3_of_mem (by rfl) ?_ (fun R => ?_)
        · simpa [printE, printEs] using hK
        · simpa [printE, List.append_assoc] using hpl _
    case and a b =>
      simp only [inFrag3, Bool.and_eq_true, Bool.not_eq_true'] at hf
      simp only [sz3] at hfe hk W Wm S G
      obtain ⟨⟨hfa, hfb⟩, hlit⟩ := hf
      have Ga := G a (by omega) hfa
      have K : ∀ R, 4 < headLv R → ChainK (relation (parseFuel (f' + 1))) andOp (printE me (.and a b)) (.and a b) R := by
        intro R hR
        obtain ⟨sb, hb1, hb2, hbs⟩ := Wm b (by omega) hfb R (by omega)
        have hB := m_rel hb1 hbs hR
        cases hs : isAnd a
        · obtain ⟨sa, ha1, ha2, has⟩ := Wm a (by omega) hfa (.andand :: (paren (needsParens b) (printE me b) ++ R)) (by simp [headLv, tokLevel])
          have := chainK_node (opOf := andOp) (tok := .andand) (g := mkAnd) (L := paren (needsParens a) (printE me a)) rfl hB hb2
            (Or.inl ⟨sa, m_rel ha1 has (by simp [headLv, tokLevel]), ha2⟩)
          rw [mkAnd_eq hlit] at this
          simpa [printE, hs] using this
        · have := chainK_node (opOf := andOp) (tok := .andand) (g := mkAnd) (L := printE me a) rfl hB hb2
            (Or.inr (Ga.kand hs _ (by simp [headLv, tokLevel])))
          rw [mkAnd_eq hlit] at this
          simpa [printE, hs, paren] using this
      have Pl : ∀ R, startsPlain (printE me (.and a b) ++ R) = true := by
        intro R
        cases hs : isAnd a
        · have := (W a (by omega) hfa).2 (.andand :: (paren (needsParens b) (printE me b) ++ R))
          simpa [printE, hs, List.append_assoc] using this
        · have := Ga.plain (by simp [isChain, hs]) (.andand :: (paren (needsParens b) (printE me b) ++ R))
          simpa [printE, hs, paren, List.append_assoc] using this
      refine ⟨fun rest hr => ?_, fun _ => K, by simp [isOr], by simp [isBin], by simp [isBin], by simp [needsParens], fun _ => Pl⟩
      have h := chainK_done (K rest (by omega)) (stop_of_seven (fun t h => andOp_none (by omega)) hr)
      refine ⟨.expr (.and a b), ?_, rfl⟩
      show exprLevel (parseFuel (f' + 1)) _ = _
      rw [to_expr (not_if_of_plain (Pl rest))]
      exact to_or h (by omega)
    case or a b =>
      simp only [inFrag3, Bool.and_eq_true, Bool.not_eq_true'] at hf
      simp only [sz3] at hfe hk W Wm S G
      obtain ⟨⟨hfa, hfb⟩, hlit⟩ := hf
      have Ga := G a (by omega) hfa
      have K : ∀ R, 5 < headLv R → ChainK (andLevel (parseFuel (f' + 1))) orOp (printE me (.or a b)) (.or a b) R := by
        intro R hR
        obtain ⟨sb, hb1, hb2, hbs⟩ := Wm b (by omega) hfb R (by omega)
        have hB := m_and hb1 hbs hR
        cases hs : isOr a
        · obtain ⟨sa, ha1, ha2, has⟩ := Wm a (by omega) hfa (.oror :: (paren (needsParens b) (printE me b) ++ R)) (by simp [headLv, tokLevel])
          have := chainK_node (opOf := orOp) (tok := .oror) (g := mkOr) (L := paren (needsParens a) (printE me a)) rfl hB hb2
            (Or.inl ⟨sa, m_and ha1 has (by simp [headLv, tokLevel]), ha2⟩)
          rw [mkOr_eq hlit] at this
          simpa [printE, hs] using this
        · have := chainK_node (opOf := orOp) (tok := .oror) (g := mkOr) (L := printE me a) rfl hB hb2
            (Or.inr (Ga.kor hs _ (by simp [headLv, tokLevel])))
          rw [mkOr_eq hlit] at this
          simpa [printE, hs, paren] using this
      have Pl : ∀ R, startsPlain (printE me (.or a b) ++ R) = true := by
        intro R
        cases hs : isOr a
        · have := (W a (by omega) hfa).2 (.oror :: (paren (needsParens b) (printE me b) ++ R))
          simpa [printE, hs, List.append_assoc] using this
        · have := Ga.plain (by simp [isChain, hs]) (.oror :: (paren (needsParens b) (printE me b) ++ R))
          simpa [printE, hs, paren, List.append_assoc] using this
      refine ⟨fun rest hr => ?_, by simp [isAnd], fun _ => K, by simp [isBin], by simp [isBin], by simp [needsParens], fun _ => Pl⟩
      have h := chainK_done (K rest (by omega)) (stop_of_seven (fun t h => orOp_none h) hr)
      refine ⟨.expr (.or a b), ?_, rfl⟩
      show exprLevel (parseFuel (f' + 1)) _ = _
      rw [to_expr (not_if_of_plain (Pl rest))]
      exact h
    case binaryApp op a b =>
      simp only [inFrag3, Bool.and_eq_true] at hf
      simp only [sz3] at hfe hk W Wm S G
      obtain ⟨hfa, hfb⟩ := hf
      have Ga := G a (by omega) hfa
      have Wa := fun tok R (h : 1 ≤ tokLevel tok) => Wm a (by omega) hfa (tok :: (paren (needsParens b) (printE me b) ++ R)) (by simpa [headLv] using h)
      have relCase : ∀ (op : BinaryOp) (tok : Token), (op = .eq ∨ op = .less ∨ op = .lessEq ∨ op = .mem) → infixTok op = tok →
          tokLevel tok = 4 → (tok ≠ .ident "has" ∧ tok ≠ .ident "like" ∧ tok ≠ .ident "is") → relOp tok = some (some (.binaryApp op)) →
          Good3 me (.binaryApp op a b) (f' + 1) := by
        intro op tok hop htok hlv hkw hrel
        refine good3_of_top (by rcases hop with h | h | h | h <;> subst h <;> rfl) (by rcases hop with h | h | h | h <;> subst h <;> rfl) (fun rest hr => ?_)
        obtain ⟨sb, hb1, hb2, hbs⟩ := Wm b (by omega) hfb rest (by omega)
        obtain ⟨sa, ha1, ha2, has⟩ := Wa tok rest (by omega)
        refine ⟨.expr (.binaryApp op a b), ?_, rfl⟩
        show exprLevel (parseFuel (f' + 1)) _ = _
        have hpr : printE me (.binaryApp op a b) = paren (needsParens a) (printE me a) ++ (tok :: paren (needsParens b) (printE me b)) := by
          rcases hop with h | h | h | h <;> subst h <;> simp only [printE, htok]
        rw [hpr, List.append_assoc, List.cons_append]
        have h := rel_one (tok := tok) hkw hrel (m_add ha1 has (by simp [headLv, hlv])) ha2 (m_add hb1 hbs (by omega)) hb2 hr
        rw [to_expr (not_if_of_plain has)]
        exact to_or (to_and h (by omega)) (by omega)
      have methCase : ∀ (op : BinaryOp), (op = .contains ∨ op = .containsAll ∨ op = .containsAny ∨ op = .getTag ∨ op = .hasTag) →
          Good3 me (.binaryApp op a b) (f' + 1) := by
        intro op hop
        obtain ⟨hm, hpl⟩ := W a (by omega) hfa
        have hK := memK_meth me (hclose _ (by simp)) (methodName op) (by rcases hop with h | h | h | h | h <;> subst h <;> decide) [b] hm
          (by intro x hx; simp only [List.mem_singleton] at hx; subst hx; exact S x (by omega) hfb)
          (e' := .binaryApp op a b) (by rcases hop with h | h | h | h | h <;> subst h <;> simp [toMeth, methodName])
        have hpr : printE me (.binaryApp op a b) =
            paren (needsParens a) (printE me a) ++ (.dot :: .ident (methodName op) :: .lparen :: (printE me b ++ [.rparen])) := by
          rcases hop with h | h | h | h | h <;> subst h <;> simp only [printE]
        refine good3_of_mem (by rcases hop with h | h | h | h | h <;> subst h <;> rfl) ?_ (fun R => ?_)
        · rw [hpr]; simpa [printEs, printEsTail] using hK
        · rw [hpr, List.append_assoc]; exact hpl _
      cases op
      case eq => exact relCase .eq .eqeq (by simp) rfl rfl (by simp) rfl
      case less => exact relCase .less .lt (by simp) rfl rfl (by simp) rfl
      case lessEq => exact relCase .lessEq .le (by simp) rfl rfl (by simp) rfl
      case mem => exact relCase .mem (.ident "in") (by simp) rfl (by simp [tokLevel]) (by simp) (by simp [relOp])
      case contains => exact methCase _ (by simp)
      case containsAll => exact methCase _ (by simp)
      case containsAny => exact methCase _ (by simp)
      case getTag => exact methCase _ (by simp)
      case hasTag => exact methCase _ (by simp)
      case add =>
        have K : ∀ R, 2 < headLv R → ChainK (mult (parseFuel (f' + 1))) addOp (printE me (.binaryApp .add a b)) (.binaryApp .add a b) R := by
          intro R hR
          obtain ⟨sb, hb1, hb2, hbs⟩ := Wm b (by omega) hfb R (by omega)
          have hB := m_mult hb1 hbs hR
          cases hs : isBin .add a
          · obtain ⟨sa, ha1, ha2, has⟩ := Wa .plus R (by simp [tokLevel])
            have := chainK_node (opOf := addOp) (tok := .plus) (L := paren (needsParens a) (printE me a)) rfl hB hb2
              (Or.inl ⟨sa, m_mult ha1 has (by simp [headLv, tokLevel]), ha2⟩)
            simpa [printE, infixTok, hs] using this
          · have := chainK_node (opOf := addOp) (tok := .plus) (L := printE me a) rfl hB hb2
              (Or.inr (Ga.kadd (by simp [hs]) _ (by simp [headLv, tokLevel])))
            simpa [printE, infixTok, hs, paren] using this
        have Pl : ∀ R, startsPlain (printE me (.binaryApp .add a b) ++ R) = true := by
          intro R
          cases hs : isBin .add a
          · have := (W a (by omega) hfa).2 (.plus :: (paren (needsParens b) (printE me b) ++ R))
            simpa [printE, infixTok, hs, List.append_assoc] using this
          · have := Ga.plain (by simp [isChain, hs]) (.plus :: (paren (needsParens b) (printE me b) ++ R))
            simpa [printE, infixTok, hs, paren, List.append_assoc] using this
        refine ⟨fun rest hr => ?_, by simp [isAnd], by simp [isOr], fun _ => K, by simp [isBin], by simp [needsParens], fun _ => Pl⟩
        have h := chainK_done (K rest (by omega)) (stop_of_seven (fun t h => addOp_none (by omega)) hr)
        exact ⟨.expr (.binaryApp .add a b), add_to_top h hr (not_if_of_plain (Pl rest)), rfl⟩
      case sub =>
        have K : ∀ R, 2 < headLv R → ChainK (mult (parseFuel (f' + 1))) addOp (printE me (.binaryApp .sub a b)) (.binaryApp .sub a b) R := by
          intro R hR
          obtain ⟨sb, hb1, hb2, hbs⟩ := Wm b (by omega) hfb R (by omega)
          have hB := m_mult hb1 hbs hR
          cases hs : isBin .sub a
          · obtain ⟨sa, ha1, ha2, has⟩ := Wa .minus R (by simp [tokLevel])
            have := chainK_node (opOf := addOp) (tok := .minus) (L := paren (needsParens a) (printE me a)) rfl hB hb2
              (Or.inl ⟨sa, m_mult ha1 has (by simp [headLv, tokLevel]), ha2⟩)
            simpa [printE, infixTok, hs] using this
          · have := chainK_node (opOf := addOp) (tok := .minus) (L := printE me a) rfl hB hb2
              (Or.inr (Ga.kadd (by simp [hs]) _ (by simp [headLv, tokLevel])))
            simpa [printE, infixTok, hs, paren] using this
        have Pl : ∀ R, startsPlain (printE me (.binaryApp .sub a b) ++ R) = true := by
          intro R
          cases hs : isBin .sub a
          · have := (W a (by omega) hfa).2 (.minus :: (paren (needsParens b) (printE me b) ++ R))
            simpa [printE, infixTok, hs, List.append_assoc] using this
          · have := Ga.plain (by simp [isChain, hs]) (.minus :: (paren (needsParens b) (printE me b) ++ R))
            simpa [printE, infixTok, hs, paren, List.append_assoc] using this
        refine ⟨fun rest hr => ?_, by simp [isAnd], by simp [isOr], fun _ => K, by simp [isBin], by simp [needsParens], fun _ => Pl⟩
        have h := chainK_done (K rest (by omega)) (stop_of_seven (fun t h => addOp_none (by omega)) hr)
        exact ⟨.expr (.binaryApp .sub a b), add_to_top h hr (not_if_of_plain (Pl rest)), rfl⟩
      case mul =>
        have K : ∀ R, 1 ≤ headLv R → ChainK (unary (parseFuel (f' + 1))) multOp (printE me (.binaryApp .mul a b)) (.binaryApp .mul a b) R := by
          intro R hR
          obtain ⟨sb, hb1, hb2, hbs⟩ := Wm b (by omega) hfb R hR
          have hB := m_unary hb1 hbs
          cases hs : isBin .mul a
          · obtain ⟨sa, ha1, ha2, has⟩ := Wa .star R (by simp [tokLevel])
            have := chainK_node (opOf := multOp) (tok := .star) (L := paren (needsParens a) (printE me a)) rfl hB hb2
              (Or.inl ⟨sa, m_unary ha1 has, ha2⟩)
            simpa [printE, infixTok, hs] using this
          · have := chainK_node (opOf := multOp) (tok := .star) (L := printE me a) rfl hB hb2
              (Or.inr (Ga.kmul hs _ (by simp [headLv, tokLevel])))
            simpa [printE, infixTok, hs, paren] using this
        have Pl : ∀ R, startsPlain (printE me (.binaryApp .mul a b) ++ R) = true := by
          intro R
          cases hs : isBin .mul a
          · have := (W a (by omega) hfa).2 (.star :: (paren (needsParens b) (printE me b) ++ R))
            simpa [printE, infixTok, hs, List.append_assoc] using this
          · have := Ga.plain (by simp [isChain, hs]) (.star :: (paren (needsParens b) (printE me b) ++ R))
            simpa [printE, infixTok, hs, paren, List.append_assoc] using this
        refine ⟨fun rest hr => ?_, by simp [isAnd], by simp [isOr], by simp [isBin], fun _ => K, by simp [needsParens], fun _ => Pl⟩
        have h := chainK_done (K rest (by omega)) (stop_of_seven (fun t h => multOp_none (by omega)) hr)
        exact ⟨.expr (.binaryApp .mul a b), add_to_top (to_add h (by omega)) hr (not_if_of_plain (Pl rest)), rfl⟩
    case call fn args =>
      simp only [inFrag3, Bool.and_eq_true, Bool.or_eq_true] at hf
      simp only [sz3] at hfe hk W Wm S G
      obtain ⟨hfn, hargs⟩ := hf
      cases hmth : isExtMethod fn
      · -- function style
        have hfun : isExtFunction fn = true := by
          rcases hfn with h | h
          · exact h
          · rw [hmth] at h; simp at h
        obtain ⟨hint, _, hnt, hun, hvar⟩ := extFunction_facts hfun args
        obtain ⟨hn1, hn2, hn3⟩ := unreserved_ne hun
        have hK : MemK (parseFuel (f' + 1)) (.ident fn :: .lparen :: (printEs me args ++ [.rparen])) (.call fn args) := by
          refine memK_func (fun R hR => ?_) hint (fun R => exprList_print' me _ .rparen (hclose _ (by simp)) rfl (by simp) R args
            (fun x hx => S x (by have := sz3L_mem hx; omega) (inFrag3L_mem hargs hx)))
          rw [primary_ident' _ _ hR]
          simp [hn1, hn2, hvar, hun]
        refine good3_of_mem (by rfl) ?_ (fun R => ?_)
        · simpa [printE_call_fun me fn args hmth, hnt] using hK
        · simp [printE_call_fun me fn args hmth, hnt, startsPlain, hn3]
      · -- method style
        cases args with
        | nil =>
          rcases hfn with h | h
          · have := (extFunction_facts h []).2.1; rw [hmth] at this; cases this
          · simp at h
        | cons r rest =>
          simp only [inFrag3L, Bool.and_eq_true] at hargs
          simp only [sz3L] at hfe hk W Wm S G
          obtain ⟨hm, hpl⟩ := W r (by omega) hargs.1
          obtain ⟨htm, hun⟩ := toMeth_ext hmth r rest
          have hK := memK_meth me (hclose _ (by simp)) fn hun rest hm
            (fun x hx => S x (by have := sz3L_mem hx; omega) (inFrag3L_mem hargs.2 hx)) htm
          refine good3_of_mem (by rfl) ?_ (fun R => ?_)
          · simpa [printE, hmth] using hK
          · simpa [printE, hmth, List.append_assoc] using hpl _
    case getAttr a x =>
      simp only [inFrag3] at hf
      simp only [sz3] at hfe hk W Wm S G
      obtain ⟨hm, hpl⟩ := W a (by omega) hf
      cases hn : isNormalizedIdent x
      · have hK := memK_ext (T := [.lbrack, strTok me x, .rbrack]) (acc := .index x) (e' := .getAttr a x) hm (fun R => rfl) (fun R => rfl) (by simp)
          (fun R fuel _ => acc_index_step _ _ x (strOfRaw_escapeStr me x) R fuel
            (str_top (parseFuel f') _ (.rbrack :: R) (by simp [headLv, tokLevel])))
          (fun more => rfl)
        refine good3_of_mem (by rfl) ?_ (fun R => ?_)
        · simpa [printE, hn] using hK
        · simpa [printE, hn, List.append_assoc] using hpl _
      · have hK := memK_ext (T := [.dot, .ident x]) (acc := .field x) (e' := .getAttr a x) hm (fun R => rfl) (fun R => rfl) (by simp)
          (fun R fuel hR => acc_field_step _ x (unreserved_of_normalized hn) R fuel hR)
          (fun more => rfl)
        refine good3_of_mem (by rfl) ?_ (fun R => ?_)
        · simpa [printE, hn] using hK
        · simpa [printE, hn, List.append_assoc] using hpl _
    case hasAttr e' a =>
      refine good3_of_top (by rfl) (by rfl) (fun rest hr => ?_)
      simp only [inFrag3] at hf
      simp only [sz3] at hfe hk W Wm S
      obtain ⟨sa, ha1, ha2, has⟩ := Wm e' (by omega) hf (.ident "has" :: keyTok me a :: rest) (by simp [headLv, tokLevel])
      have hA := m_add ha1 has (by simp [headLv, tokLevel])
      refine ⟨.expr (.hasAttr e' a), ?_, rfl⟩
      show exprLevel (parseFuel (f' + 1)) _ = _
      simp only [printE, List.append_assoc, List.cons_append, List.nil_append]
      have hrel : relation (parseFuel (f' + 1)) (paren (needsParens e') (printE me e') ++ .ident "has" :: keyTok me a :: rest) =
          some (.expr (.hasAttr e' a), rest) := by
        unfold relation
        rw [hA]
        simp [ha2, hasRhs_key me a hr, extendedHas]
      rw [to_expr (not_if_of_plain has)]
      exact to_or (to_and hrel (by omega)) (by omega)
    case like e' p =>
      refine good3_of_top (by rfl) (by rfl) (fun rest hr => ?_)
      simp only [inFrag3] at hf
      simp only [sz3] at hfe hk W Wm S
      obtain ⟨sa, ha1, ha2, has⟩ := Wm e' (by omega) hf (.ident "like" :: .str (escapePattern me p) :: rest) (by simp [headLv, tokLevel])
      have hA := m_add ha1 has (by simp [headLv, tokLevel])
      have hP : add (parseFuel (f' + 1)) (.str (escapePattern me p) :: rest) = some (.strLit (escapePattern me p), rest) :=
        m_add (member_of_primary (by simp [primary]) (by omega)) (by simp [startsPlain]) (by omega)
      refine ⟨.expr (.like e' p), ?_, rfl⟩
      show exprLevel (parseFuel (f' + 1)) _ = _
      simp only [printE, List.append_assoc, List.cons_append, List.nil_append]
      have hrel : relation (parseFuel (f' + 1)) (paren (needsParens e') (printE me e') ++ .ident "like" :: .str (escapePattern me p) :: rest) =
          some (.expr (.like e' p), rest) := by
        unfold relation
        rw [hA]
        simp [ha2, hP, unescapePattern, unescapeGo_escapePattern]
      rw [to_expr (not_if_of_plain has)]
      exact to_or (to_and hrel (by omega)) (by omega)
    case is e' ty =>
      refine good3_of_top (by rfl) (by rfl) (fun rest hr => ?_)
      simp only [inFrag3, Bool.and_eq_true] at hf
      simp only [sz3] at hfe hk W Wm S
      obtain ⟨sa, ha1, ha2, has⟩ := Wm e' (by omega) hf.1 (.ident "is" :: (nameTokens ty ++ rest)) (by simp [headLv, tokLevel])
      have hA := m_add ha1 has (by simp [headLv, tokLevel])
      obtain ⟨x, hx1, hx2⟩ := add_typeName (parseFuel (f' + 1)) ty hf.2 rest hr
      refine ⟨.expr (.is e' ty), ?_, rfl⟩
      show exprLevel (parseFuel (f' + 1)) _ = _
      simp only [printE, List.append_assoc, List.cons_append]
      have hrel : relation (parseFuel (f' + 1)) (paren (needsParens e') (printE me e') ++ .ident "is" :: (nameTokens ty ++ rest)) =
          some (.expr (.is e' ty), rest) := by
        unfold relation
        rw [hA]
        simp only [ha2, hx1, hx2]
        cases rest with
        | nil => simp
        | cons t r =>
          cases t <;> simp
          split
          · rename_i heq
            simp only [List.cons.injEq, Token.ident.injEq] at heq
            obtain ⟨h1, _⟩ := heq
            subst h1
            simp [headLv, tokLevel] at hr
          · rfl
      rw [to_expr (not_if_of_plain has)]
      exact to_or (to_and hrel (by omega)) (by omega)
    case set es =>
      simp only [inFrag3] at hf
      simp only [sz3] at hfe hk W Wm S G
      refine good3_of_mem (by rfl) ?_ (fun R => by simp [printE, startsPlain])
      simp only [printE]
      exact memK_set me _ (hclose _ (by simp)) es (fun x hx => S x (by have := sz3L_mem hx; omega) (inFrag3L_mem hf hx))
    case record kvs =>
      simp only [inFrag3, Bool.and_eq_true] at hf
      simp only [sz3] at hfe hk W Wm S G
      refine good3_of_mem (by rfl) ?_ (fun R => by simp [printE, startsPlain])
      simp only [printE]
      exact memK_record me _ (keyOK_exprLevel me (parseFuel f')) kvs
        (fun kv hkv => S kv.2 (by have := sz3K_mem (k := kv.1) (a := kv.2) hkv; omega) (inFrag3K_mem (k := kv.1) hf.2 hkv)) hf.1


/-! ### enough fuel: the printed form is at least as long as the size measure -/

theorem sz3L_le_tail (me : Char → Bool) : ∀ (es : List Expr), (∀ a ∈ es, sz3 a ≤ (printE me a).length) →
    sz3L es ≤ (printEsTail me es).length
  | [], _ => by simp [sz3L]
  | e :: es, h => by
    have h1 := h e (by simp)
    have h2 := sz3L_le_tail me es (fun a ha => h a (by simp [ha]))
    simp only [sz3L, printEsTail, List.length_cons, List.length_append]; omega

theorem sz3L_le (me : Char → Bool) (es : List Expr) (h : ∀ a ∈ es, sz3 a ≤ (printE me a).length) :
    sz3L es ≤ (printEs me es).length := by
  cases es with
  | nil => simp [sz3L]
  | cons e es =>
    have h1 := h e (by simp)
    have h2 := sz3L_le_tail me es (fun a ha => h a (by simp [ha]))
    simp only [sz3L, printEs, List.length_append]; omega

theorem sz3K_le_tail (me : Char → Bool) : ∀ (kvs : List (String × Expr)), (∀ kv ∈ kvs, sz3 kv.2 ≤ (printE me kv.2).length) →
    sz3K kvs ≤ (printKVsTail me kvs).length
  | [], _ => by simp [sz3K]
  | (k, e) :: kvs, h => by
    have h1 := h (k, e) (by simp)
    have h2 := sz3K_le_tail me kvs (fun a ha => h a (by simp [ha]))
    simp only [sz3K, printKVsTail, List.length_cons, List.length_append]; simp only at h1; omega

theorem sz3K_le (me : Char → Bool) (kvs : List (String × Expr)) (h : ∀ kv ∈ kvs, sz3 kv.2 ≤ (printE me kv.2).length) :
    sz3K kvs ≤ (printKVs me kvs).length := by
  cases kvs with
  | nil => simp [sz3K]
  | cons kv kvs =>
    obtain ⟨k, e⟩ := kv
    have h1 := h (k, e) (by simp)
    have h2 := sz3K_le_tail me kvs (fun a ha => h a (by simp [ha]))
    simp only [sz3K, printKVs, List.length_cons, List.length_append]; simp only at h1; omega

theorem sz3_le_length (me : Char → Bool) : ∀ k e, sz3 e ≤ k → sz3 e ≤ (printE me e).length := by
  intro k
  induction k with
  | zero => intro e hk; have := sz3_pos e; omega
  | succ k ih =>
    intro e hk
    cases e
    case lit p => cases p <;> simp [sz3, printE]; split <;> simp
    case var v => simp [sz3, printE]
    case slot s => simp [sz3, printE]
    case unknown n ty => simp [sz3, printE]
    case ite c t e' =>
      simp only [sz3] at hk ⊢
      have h1 := ih c (by omega)
      have h2 := ih t (by omega)
      have h3 := ih e' (by omega)
      simp only [printE, List.length_cons, List.length_append]
      omega
    case and a b =>
      simp only [sz3] at hk ⊢
      have h1 := ih a (by omega)
      have h2 := ih b (by omega)
      have p1 := paren_length_ge (needsParens a && !isAnd a) (printE me a)
      have p2 := paren_length_ge (needsParens b) (printE me b)
      simp only [printE, List.length_cons, List.length_append]
      omega
    case or a b =>
      simp only [sz3] at hk ⊢
      have h1 := ih a (by omega)
      have h2 := ih b (by omega)
      have p1 := paren_length_ge (needsParens a && !isOr a) (printE me a)
      have p2 := paren_length_ge (needsParens b) (printE me b)
      simp only [printE, List.length_cons, List.length_append]
      omega
    case unaryApp op a =>
      simp only [sz3] at hk ⊢
      have h1 := ih a (by omega)
      have p1 := paren_length_ge (needsParens a) (printE me a)
      cases op <;> simp only [printE, List.length_cons, List.length_append, List.length_nil] <;> omega
    case binaryApp op a b =>
      simp only [sz3] at hk ⊢
      have h1 := ih a (by omega)
      have h2 := ih b (by omega)
      have p2 := paren_length_ge (needsParens b) (printE me b)
      have p1 := paren_length_ge (needsParens a) (printE me a)
      have p1' := paren_length_ge (needsParens a && !isBin op a) (printE me a)
      cases op <;> simp only [printE, List.length_cons, List.length_append, List.length_nil] <;> omega
    case call fn args =>
      simp only [sz3] at hk ⊢
      have hl := sz3L_le me args (fun a ha => ih a (by have := sz3L_mem ha; omega))
      cases hm : isExtMethod fn
      · rw [printE_call_fun me fn args hm]
        simp only [List.length_cons, List.length_append, List.length_nil]; omega
      · cases args with
        | nil => simp [printE, hm, sz3L]
        | cons r rest =>
          simp only [sz3L] at hk ⊢
          have h1 := ih r (by omega)
          have h2 := sz3L_le me rest (fun a ha => ih a (by have := sz3L_mem ha; omega))
          have p1 := paren_length_ge (needsParens r) (printE me r)
          simp only [printE, hm, if_true, List.length_cons, List.length_append, List.length_nil]; omega
    case getAttr a x =>
      simp only [sz3] at hk ⊢
      have h1 := ih a (by omega)
      have p1 := paren_length_ge (needsParens a) (printE me a)
      simp only [printE, List.length_append]
      split <;> simp only [List.length_cons, List.length_nil] <;> omega
    case hasAttr a x =>
      simp only [sz3] at hk ⊢
      have h1 := ih a (by omega)
      have p1 := paren_length_ge (needsParens a) (printE me a)
      simp only [printE, List.length_cons, List.length_append, List.length_nil]; omega
    case like a x =>
      simp only [sz3] at hk ⊢
      have h1 := ih a (by omega)
      have p1 := paren_length_ge (needsParens a) (printE me a)
      simp only [printE, List.length_cons, List.length_append, List.length_nil]; omega
    case is a x =>
      simp only [sz3] at hk ⊢
      have h1 := ih a (by omega)
      have p1 := paren_length_ge (needsParens a) (printE me a)
      simp only [printE, List.length_cons, List.length_append]; omega
    case set es =>
      simp only [sz3] at hk ⊢
      have hl := sz3L_le me es (fun a ha => ih a (by have := sz3L_mem ha; omega))
      simp only [printE, List.length_cons, List.length_append, List.length_nil]; omega
    case record kvs =>
      simp only [sz3] at hk ⊢
      have hl := sz3K_le me kvs (fun kv hkv => ih kv.2 (by have := sz3K_mem (k := kv.1) (a := kv.2) hkv; omega))
      simp only [printE, List.length_cons, List.length_append, List.length_nil]; omega

/-- `Parse.expr ∘ Print.expr = some` on the fragment -/
theorem parse_print_frag3 (me : Char → Bool) (e : Expr) (h : inFrag3 e = true) : Parse.expr (Print.expr me e) = some e := by
  unfold Parse.expr Print.expr
  obtain ⟨s, h1, h2⟩ := (parse_print_aux3 me (sz3 e) e (Nat.le_refl _) h (printE me e).length
    (sz3_le_length me _ e (Nat.le_refl _))).top [] rfl
  simp only [List.append_nil] at h1
  rw [h1]
  exact h2

end Cedar.Syntax
