import CedarVerif.Lemmas.JsonIpBase
/-
C10 / C07, IPv6 literals, part 1: the hexadecimal rendering of a 16-bit group (`hexDigits`, Rust's `{:x}`) is read
back by the group reader `readGroup`; colon-separated group lists written with `joinWith ':'` are read back by
`readGroups` (stopping at the end of the text, at `/`, or at the `::` of a compressed address).
-/
namespace Cedar
namespace CJson
open Ext Ext.IPAddr

/-! ### single hex digits -/

theorem hexChar_props (k : Nat) (h : k < 16) :
    isHexDigit (hexChar k) = true ∧ hexVal (hexChar k) = k ∧ (hexChar k).toNat < 128 ∧
      hexChar k ≠ ':' ∧ hexChar k ≠ '/' ∧ hexChar k ≠ '.' := by
  have : k = 0 ∨ k = 1 ∨ k = 2 ∨ k = 3 ∨ k = 4 ∨ k = 5 ∨ k = 6 ∨ k = 7 ∨ k = 8 ∨ k = 9 ∨ k = 10 ∨ k = 11 ∨
      k = 12 ∨ k = 13 ∨ k = 14 ∨ k = 15 := by omega
  rcases this with rfl | rfl | rfl | rfl | rfl | rfl | rfl | rfl | rfl | rfl | rfl | rfl | rfl | rfl | rfl | rfl <;>
    decide

/-- a character printed by `{:x}`: lower-case hex digit -/
def v6_hexOut (c : Char) : Prop := ∃ k, k < 16 ∧ c = hexChar k

theorem v6_hexOut_isHex {c : Char} (h : v6_hexOut c) : isHexDigit c = true := by
  obtain ⟨k, hk, rfl⟩ := h; exact (hexChar_props k hk).1
theorem v6_hexOut_ascii {c : Char} (h : v6_hexOut c) : c.toNat < 128 := by
  obtain ⟨k, hk, rfl⟩ := h; exact (hexChar_props k hk).2.2.1
theorem v6_hexOut_ne_colon {c : Char} (h : v6_hexOut c) : c ≠ ':' := by
  obtain ⟨k, hk, rfl⟩ := h; exact (hexChar_props k hk).2.2.2.1
theorem v6_hexOut_ne_slash {c : Char} (h : v6_hexOut c) : c ≠ '/' := by
  obtain ⟨k, hk, rfl⟩ := h; exact (hexChar_props k hk).2.2.2.2.1
theorem v6_hexOut_ne_dot {c : Char} (h : v6_hexOut c) : c ≠ '.' := by
  obtain ⟨k, hk, rfl⟩ := h; exact (hexChar_props k hk).2.2.2.2.2

/-! ### `hexDigits` -/

def hexStep (acc : Nat) (c : Char) : Nat := acc * 16 + hexVal c

/-- the digits produced by `hexDigitsAux`, in front of the accumulator -/
theorem hexDigitsAux_spec : ∀ (fuel n : Nat) (acc : List Char), n < fuel →
    ∃ D, hexDigitsAux fuel n acc = D ++ acc ∧ D ≠ [] ∧ (∀ c, c ∈ D → v6_hexOut c) ∧
      (∀ a, D.foldl hexStep a = a * 16 ^ D.length + n) ∧ (∀ k, 0 < k → n < 16 ^ k → D.length ≤ k)
  | 0, n, acc, h => by omega
  | fuel + 1, n, acc, h => by
    simp only [hexDigitsAux]
    have hlt16 : n % 16 < 16 := Nat.mod_lt _ (by omega)
    have hd := hexChar_props (n % 16) hlt16
    split
    · rename_i h0
      refine ⟨[hexChar (n % 16)], rfl, by simp, ?_, ?_, ?_⟩
      · intro c hc; simp at hc; subst hc; exact ⟨_, hlt16, rfl⟩
      · intro a
        simp only [List.foldl_cons, List.foldl_nil, hexStep, hd.2.1, List.length_singleton, Nat.pow_one]
        have : n % 16 = n := by omega
        omega
      · intro k hk _
        simp only [List.length_singleton]; omega
    · rename_i h0
      have hlt : n / 16 < fuel := by omega
      obtain ⟨D, hD, hne, hdig, hval, hlen⟩ := hexDigitsAux_spec fuel (n / 16) (hexChar (n % 16) :: acc) hlt
      refine ⟨D ++ [hexChar (n % 16)], by simp [hD], by simp, ?_, ?_, ?_⟩
      · intro c hc
        rcases List.mem_append.mp hc with hc | hc
        · exact hdig c hc
        · simp at hc; subst hc; exact ⟨_, hlt16, rfl⟩
      · intro a
        simp only [List.foldl_append, hval, List.foldl_cons, List.foldl_nil, hexStep, hd.2.1, List.length_append,
          List.length_singleton, Nat.pow_succ]
        have := Nat.div_add_mod n 16
        generalize 16 ^ D.length = P at *
        have e : (a * P + n / 16) * 16 = a * (P * 16) + (n / 16) * 16 := by
          rw [Nat.add_mul, Nat.mul_assoc]
        omega
      · intro k hk hn
        simp only [List.length_append, List.length_singleton]
        cases k with
        | zero => omega
        | succ k =>
          cases k with
          | zero => simp only [Nat.zero_add, Nat.pow_one] at hn; omega
          | succ k =>
            have h1 : n / 16 < 16 ^ (k + 1) := by
              rw [Nat.pow_succ] at hn
              exact Nat.div_lt_of_lt_mul (by rw [Nat.mul_comm]; exact hn)
            have := hlen (k + 1) (by omega) h1
            omega

theorem v6_hexDigits_spec (g : Nat) :
    hexDigits g ≠ [] ∧ (∀ c, c ∈ hexDigits g → v6_hexOut c) ∧ (hexDigits g).foldl hexStep 0 = g ∧
      (∀ k, 0 < k → g < 16 ^ k → (hexDigits g).length ≤ k) := by
  obtain ⟨D, hD, hne, hdig, hval, hlen⟩ := hexDigitsAux_spec (g + 1) g [] (by omega)
  have : hexDigits g = D := by simp [hexDigits, hD]
  rw [this]
  refine ⟨hne, hdig, ?_, hlen⟩
  rw [hval 0]; omega

theorem hexDigits_length_le4 (g : Nat) (hg : g < 65536) : (hexDigits g).length ≤ 4 :=
  (v6_hexDigits_spec g).2.2.2 4 (by decide) (by simpa using hg)

theorem hexDigits_pos (g : Nat) : 0 < (hexDigits g).length := by
  have := (v6_hexDigits_spec g).1
  cases h : hexDigits g with
  | nil => exact absurd h this
  | cons => simp

/-! ### `spanHex`, `readGroup` -/

/-- `r` does not start with a hex digit -/
def v6_noHexHead (r : List Char) : Prop := ∀ c r', r = c :: r' → isHexDigit c = false

theorem v6_noHexHead_nil : v6_noHexHead [] := by intro c r' h; cases h
theorem v6_noHexHead_cons {c : Char} {r : List Char} (h : isHexDigit c = false) : v6_noHexHead (c :: r) := by
  intro c' r' e; cases e; exact h

theorem spanHex_append (D rest : List Char) (hd : ∀ c, c ∈ D → isHexDigit c = true) (hr : v6_noHexHead rest) :
    spanHex (D ++ rest) = (D, rest) := by
  induction D with
  | nil =>
    cases rest with
    | nil => rfl
    | cons c r => simp [spanHex, hr c r rfl]
  | cons d D ih =>
    have h1 : isHexDigit d = true := hd d (List.mem_cons_self ..)
    have := ih (fun c hc => hd c (List.mem_cons_of_mem _ hc))
    simp [spanHex, h1, this]

/-- a group reader does not start on something that is not a hex digit -/
theorem readGroup_noHexHead (s : List Char) (h : v6_noHexHead s) : readGroup s = none := by
  have := spanHex_append [] s (by intro c hc; cases hc) h
  simp only [List.nil_append] at this
  simp [readGroup, this]

/-- the `{:x}` rendering of a 16-bit group is read back -/
theorem readGroup_hexDigits (g : Nat) (rest : List Char) (hg : g < 65536) (hr : v6_noHexHead rest) :
    readGroup (hexDigits g ++ rest) = some (g, rest) := by
  obtain ⟨hne, hdig, hval, _⟩ := v6_hexDigits_spec g
  have hsp := spanHex_append (hexDigits g) rest (fun c hc => v6_hexOut_isHex (hdig c hc)) hr
  have hlen := hexDigits_length_le4 g hg
  have h1 : ((hexDigits g).isEmpty || decide ((hexDigits g).length > 4)) = false := by
    have : (hexDigits g).isEmpty = false := by
      cases hd : hexDigits g with
      | nil => exact absurd hd hne
      | cons => rfl
    simp [this]; omega
  have hval' : List.foldl (fun acc c => acc * 16 + hexVal c) 0 (hexDigits g) = g := hval
  simp only [readGroup, hsp, h1, hval', if_false, Bool.false_eq_true]

/-! ### colon-separated group lists -/

/-- `:g1:g2…` -/
def v6_sepText (gs : List Nat) : List Char := gs.flatMap (fun g => ':' :: hexDigits g)

theorem v6_sepText_nil : v6_sepText [] = [] := rfl
theorem v6_sepText_cons (g : Nat) (gs : List Nat) : v6_sepText (g :: gs) = ':' :: (hexDigits g ++ v6_sepText gs) := by
  simp [v6_sepText]

theorem v6_joinWith_cons (g : Nat) (gs : List Nat) :
    joinWith ':' ((g :: gs).map hexDigits) = hexDigits g ++ v6_sepText gs := by
  induction gs generalizing g with
  | nil => simp [joinWith, v6_sepText]
  | cons g' gs ih =>
    have := ih g'
    simp only [List.map_cons] at this ⊢
    simp only [joinWith, this, v6_sepText_cons]

/-- where a group list may end: end of text, the `/` of the prefix, or the `::` of a compression -/
def v6_Stop (rest : List Char) : Prop :=
  rest = [] ∨ (∃ r, rest = '/' :: r) ∨ (∃ r, rest = ':' :: ':' :: r)

theorem v6_Stop_noHexHead {rest : List Char} (h : v6_Stop rest) : v6_noHexHead rest := by
  rcases h with rfl | ⟨r, rfl⟩ | ⟨r, rfl⟩
  · exact v6_noHexHead_nil
  · exact v6_noHexHead_cons (by decide)
  · exact v6_noHexHead_cons (by decide)

theorem v6_sepText_noHexHead (gs : List Nat) (rest : List Char) (h : v6_Stop rest) :
    v6_noHexHead (v6_sepText gs ++ rest) := by
  cases gs with
  | nil => simpa [v6_sepText] using v6_Stop_noHexHead h
  | cons g gs => rw [v6_sepText_cons]; exact v6_noHexHead_cons (by decide)

/-- reading on at a stop position (not the first group): nothing more is read -/
theorem readGroups_stop (limit i : Nat) (rest : List Char) (hi : 0 < i) (h : v6_Stop rest) :
    readGroups limit i rest = ([], rest) := by
  cases limit with
  | zero => rfl
  | succ limit =>
    have hi0 : i ≠ 0 := by omega
    rcases h with rfl | ⟨r, rfl⟩ | ⟨r, rfl⟩
    · simp [readGroups, hi0]
    · simp [readGroups, hi0]
    · have : readGroup (':' :: r) = none := readGroup_noHexHead _ (v6_noHexHead_cons (by decide))
      simp [readGroups, hi0, this]

/-- `readGroups` (not at the first group) on `:g1:g2…:gn` followed by a stop -/
theorem readGroups_sepText (gs : List Nat) : ∀ (limit i : Nat) (rest : List Char), 0 < i → gs.length ≤ limit →
    (∀ g, g ∈ gs → g < 65536) → v6_Stop rest → readGroups limit i (v6_sepText gs ++ rest) = (gs, rest) := by
  induction gs with
  | nil =>
    intro limit i rest hi _ _ hs
    simpa [v6_sepText] using readGroups_stop limit i rest hi hs
  | cons g gs ih =>
    intro limit i rest hi hl hg hs
    cases limit with
    | zero => simp at hl
    | succ limit =>
      have hi0 : i ≠ 0 := by omega
      have hrg := readGroup_hexDigits g (v6_sepText gs ++ rest) (hg g (List.mem_cons_self ..))
        (v6_sepText_noHexHead gs rest hs)
      have hrec := ih limit (i + 1) rest (by omega) (by simpa using hl)
        (fun g' h' => hg g' (List.mem_cons_of_mem _ h')) hs
      rw [v6_sepText_cons]
      simp only [readGroups, hi0, if_false, List.cons_append, List.append_assoc, hrg, hrec]

/-- `readGroups` from the first group on `g1:g2…:gn` followed by a stop -/
theorem readGroups_joinWith (gs : List Nat) (limit : Nat) (rest : List Char) (hl : gs.length ≤ limit)
    (hg : ∀ g, g ∈ gs → g < 65536) (hs : v6_Stop rest) :
    readGroups limit 0 (joinWith ':' (gs.map hexDigits) ++ rest) = (gs, rest) := by
  cases gs with
  | nil =>
    cases limit with
    | zero => rfl
    | succ limit =>
      have : readGroup rest = none := readGroup_noHexHead _ (v6_Stop_noHexHead hs)
      simp [readGroups, joinWith, this]
  | cons g gs =>
    cases limit with
    | zero => simp at hl
    | succ limit =>
      have hrg := readGroup_hexDigits g (v6_sepText gs ++ rest) (hg g (List.mem_cons_self ..))
        (v6_sepText_noHexHead gs rest hs)
      have hrec := readGroups_sepText gs limit 1 rest (by omega) (by simpa using hl)
        (fun g' h' => hg g' (List.mem_cons_of_mem _ h')) hs
      rw [v6_joinWith_cons]
      simp only [readGroups, if_true, List.append_assoc, hrg, hrec]

/-! ### characters and length of a group list -/

theorem v6_joinWith_chars (gs : List Nat) (c : Char) (hc : c ∈ joinWith ':' (gs.map hexDigits)) :
    v6_hexOut c ∨ c = ':' := by
  induction gs with
  | nil => simp [joinWith] at hc
  | cons g gs ih =>
    cases gs with
    | nil =>
      simp only [List.map_cons, List.map_nil, joinWith] at hc
      exact Or.inl ((v6_hexDigits_spec g).2.1 c hc)
    | cons g' gs =>
      simp only [List.map_cons, joinWith, List.mem_append, List.mem_cons] at hc ih
      rcases hc with h | rfl | h
      · exact Or.inl ((v6_hexDigits_spec g).2.1 c h)
      · exact Or.inr rfl
      · exact ih h

theorem v6_joinWith_length (gs : List Nat) (hg : ∀ g, g ∈ gs → g < 65536) :
    (joinWith ':' (gs.map hexDigits)).length + 1 ≤ 5 * gs.length + (if gs = [] then 1 else 0) := by
  induction gs with
  | nil => simp [joinWith]
  | cons g gs ih =>
    have hl := hexDigits_length_le4 g (hg g (List.mem_cons_self ..))
    cases gs with
    | nil => simp [joinWith]; omega
    | cons g' gs =>
      have := ih (fun x hx => hg x (List.mem_cons_of_mem _ hx))
      simp only [List.map_cons, joinWith, List.length_append, List.length_cons, reduceCtorEq, if_false] at this ⊢
      omega

end CJson
end Cedar
