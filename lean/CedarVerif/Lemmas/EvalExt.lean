import CedarVerif.Cedar.Authorizer
/- The evaluator reads the store only through `Entities.find?` (extensionality in the store). -/
namespace Cedar

variable (req : Request) (env : SlotEnv) (es₁ es₂ : Entities)

theorem inE_ext (h : ∀ u, es₁.find? u = es₂.find? u) (a b : EntityUID) : inE es₁ a b = inE es₂ a b := by
  simp [inE, h]

theorem applyBinary_ext (h : ∀ u, es₁.find? u = es₂.find? u) (op : BinaryOp) (v1 v2 : Value) :
    applyBinary es₁ op v1 v2 = applyBinary es₂ op v1 v2 := by
  have hin : inE es₁ = inE es₂ := by funext a b; exact inE_ext es₁ es₂ h a b
  cases op <;> simp [applyBinary, h, hin]

mutual
theorem evaluate_ext (h : ∀ u, es₁.find? u = es₂.find? u) :
    ∀ e, evaluate req es₁ env e = evaluate req es₂ env e
  | .lit _ => by simp [evaluate]
  | .var v => by cases v <;> simp [evaluate]
  | .slot _ => by simp [evaluate]
  | .unknown _ _ => by simp [evaluate]
  | .ite c t e => by simp [evaluate, evaluate_ext h c, evaluate_ext h t, evaluate_ext h e]
  | .and a b => by simp [evaluate, evaluate_ext h a, evaluate_ext h b]
  | .or a b => by simp [evaluate, evaluate_ext h a, evaluate_ext h b]
  | .unaryApp _ a => by simp [evaluate, evaluate_ext h a]
  | .binaryApp op a b => by
      simp only [evaluate, evaluate_ext h a, evaluate_ext h b]
      cases evaluate req es₂ env a <;> simp only
      cases evaluate req es₂ env b <;> simp only
      exact applyBinary_ext es₁ es₂ h op _ _
  | .call _ args => by simp [evaluate, evaluateList_ext h args]
  | .getAttr e _ => by simp [evaluate, evaluate_ext h e, h]
  | .hasAttr e _ => by simp [evaluate, evaluate_ext h e, h]
  | .like e _ => by simp [evaluate, evaluate_ext h e]
  | .is e _ => by simp [evaluate, evaluate_ext h e]
  | .set xs => by simp [evaluate, evaluateList_ext h xs]
  | .record kvs => by simp [evaluate, evaluateKVs_ext h kvs]
theorem evaluateList_ext (h : ∀ u, es₁.find? u = es₂.find? u) :
    ∀ xs, evaluateList req es₁ env xs = evaluateList req es₂ env xs
  | [] => by simp [evaluateList]
  | x :: xs => by simp [evaluateList, evaluate_ext h x, evaluateList_ext h xs]
theorem evaluateKVs_ext (h : ∀ u, es₁.find? u = es₂.find? u) :
    ∀ kvs, evaluateKVs req es₁ env kvs = evaluateKVs req es₂ env kvs
  | [] => by simp [evaluateKVs]
  | (k, x) :: kvs => by simp [evaluateKVs, evaluate_ext h x, evaluateKVs_ext h kvs]
end

end Cedar
