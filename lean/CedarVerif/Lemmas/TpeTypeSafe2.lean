import CedarVerif.Lemmas.TpeTypeSafe
import CedarVerif.Lemmas.TpeSound4
/- C14 helpers: the arms of `interpret` on type-safe residuals, with the guards of short-circuiting: each arm is sound
   (`Agree`) AND returns a type-safe residual, so the induction goes through every constructor without any hypothesis
   about the residuals `interpret` produces. -/
namespace Cedar.Tpe
open Cedar

variable {preq : PRequest} {pes : PEntities} {req : Request} {es : Entities}

theorem ts_ofResult (ty : Ty) (x : Result Value) : TypeSafe req es (ofResult ty x) := by
  cases x
  · exact .error _
  · exact .concrete _ _

theorem ok_of_agree {A a : Residual} (h : Agree (A.eval req es) (a.eval req es)) {v : Value} (hv : A.eval req es = .ok v) :
    a.eval req es = .ok v := by
  rw [hv] at h; exact agree_ok_left h

theorem isBoolR_of_agree {A a : Residual} (h : Agree (A.eval req es) (a.eval req es)) (hb : IsBoolR req es a) :
    IsBoolR req es A := fun v hv => hb v (ok_of_agree h hv)

theorem evB_of_agree {A a : Residual} (h : Agree (A.eval req es) (a.eval req es)) {b : Bool} (hA : EvB req es A b) :
    EvB req es a b := ok_of_agree h hA

theorem isBoolR_mkBool (b : Bool) (ty : Ty) : IsBoolR req es (mkBool b ty) := by
  intro v hv; simp only [mkBool, Residual.eval, Except.ok.injEq] at hv; exact ⟨b, hv.symm⟩

theorem isBoolR_error (ty : Ty) : IsBoolR req es (.error ty) := by
  intro v hv; simp [Residual.eval] at hv

theorem asBool_eq_ok {v : Value} {b : Bool} (h : v.asBool = .ok b) : v = .prim (.bool b) := by
  cases v with
  | prim p => cases p <;> simp [Value.asBool] at h; subst h; rfl
  | _ => simp [Value.asBool] at h

/-! ### `&&` -/

theorem and_arm_g (ty : Ty) (L R l r : Residual)
    (hl : Agree (L.eval req es) (l.eval req es)) (hbl : IsBoolR req es l)
    (hr : EvB req es l true → Agree (R.eval req es) (r.eval req es) ∧ IsBoolR req es r)
    (hef : L.canError = false → ∃ v, L.eval req es = .ok v) :
    Agree ((andResult ty L R).eval req es) (andR (l.eval req es) (r.eval req es)) := by
  rcases agree_cases hl with ⟨v, h1, h2⟩ | ⟨e, e', h1, h2⟩
  · obtain ⟨b, rfl⟩ := hbl v h2
    cases b
    · -- the left operand is `false`
      have horig : andR (l.eval req es) (r.eval req es) = .ok (.prim (.bool false)) := by rw [h2]; simp [andR, asBool_bool]
      rw [horig]
      cases L with
      | concrete v' t =>
        simp only [Residual.eval, Except.ok.injEq] at h1; subst h1
        simp [andResult, asBool_bool, mkBool, Residual.eval, Agree]
      | error t => simp [Residual.eval] at h1
      | part lk lt =>
        simp only [Residual.eval] at h1
        have key : ∀ R' : Residual, Agree ((Residual.part (.and (.part lk lt) R') ty).eval req es) (.ok (.prim (.bool false))) := by
          intro R'; simp [Residual.eval, RKind.eval, h1, andR, asBool_bool, Agree]
        cases R with
        | concrete w t =>
          simp only [andResult]
          cases hw : w.asBool with
          | error e => exact key _
          | ok b' =>
            cases b'
            · simp only
              split
              · simp [mkBool, Residual.eval, Agree]
              · exact key _
            · simp [Residual.eval, h1, Agree]
        | part rk rt => exact key _
        | error t => exact key _
    · -- the left operand is `true`
      obtain ⟨hR, hbr⟩ := hr h2
      have horig : andR (l.eval req es) (r.eval req es) = r.eval req es := by
        rw [h2]
        cases hy : r.eval req es with
        | error e => simp [andR, asBool_bool]
        | ok w => obtain ⟨b, rfl⟩ := hbr w hy; simp [andR, asBool_bool]
      cases L with
      | concrete v' t =>
        simp only [Residual.eval, Except.ok.injEq] at h1; subst h1
        rw [horig]
        simpa [andResult, asBool_bool] using hR
      | error t => simp [Residual.eval] at h1
      | part lk lt =>
        have key : ∀ R' : Residual, Agree (R'.eval req es) (r.eval req es) →
            Agree ((Residual.part (.and (.part lk lt) R') ty).eval req es) (andR (l.eval req es) (r.eval req es)) := by
          intro R' h'
          simp only [Residual.eval, RKind.eval]
          exact andR_congr hl h'
        cases R with
        | concrete w t =>
          have hrw : r.eval req es = .ok w := agree_ok_left (by simpa [Residual.eval] using hR)
          obtain ⟨b', rfl⟩ := hbr w hrw
          cases b'
          · simp only [andResult, asBool_bool]
            split
            · rw [horig, hrw]; simp [mkBool, Residual.eval, Agree]
            · exact key _ (by rw [hrw]; simp [mkBool, Residual.eval, Agree])
          · simp only [andResult, asBool_bool]
            rw [horig, hrw, h1]; simp [Agree]
        | part rk rt => exact key _ hR
        | error t => exact key _ hR
  · -- the left operand errors
    have horig : andR (l.eval req es) (r.eval req es) = .error e' := by rw [h2]; rfl
    rw [horig]
    cases L with
    | concrete v' t => simp [Residual.eval] at h1
    | error t => simp [andResult, Residual.eval, Agree]
    | part lk lt =>
      have h1' := h1
      simp only [Residual.eval] at h1'
      have key : ∀ R' : Residual, Agree ((Residual.part (.and (.part lk lt) R') ty).eval req es) (.error e') := by
        intro R'; simp [Residual.eval, RKind.eval, h1', andR, Agree]
      cases R with
      | concrete w t =>
        simp only [andResult]
        cases hw : w.asBool with
        | error e => exact key _
        | ok b' =>
          cases b'
          · simp only
            split
            · rename_i hce
              have hce' : (Residual.part lk lt).canError = false := by simpa using hce
              obtain ⟨v, hv⟩ := hef hce'
              rw [h1] at hv; cases hv
            · exact key _
          · simp [Residual.eval, h1', Agree]
      | part rk rt => exact key _
      | error t => exact key _

theorem and_arm_ts (ty : Ty) (L R l r : Residual)
    (hl : Agree (L.eval req es) (l.eval req es)) (tsL : TypeSafe req es L) (hbl : IsBoolR req es l)
    (hr : EvB req es l true → Agree (R.eval req es) (r.eval req es) ∧ IsBoolR req es r ∧ TypeSafe req es R) :
    TypeSafe req es (andResult ty L R) := by
  have hbL : IsBoolR req es L := isBoolR_of_agree hl hbl
  have mkAnd : ∀ R' : Residual, (EvB req es L true → TypeSafe req es R' ∧ IsBoolR req es R') →
      TypeSafe req es (.part (.and L R') ty) :=
    fun R' h => .and tsL hbL (fun hL => (h hL).1) (fun hL => (h hL).2)
  have fromR : EvB req es L true → TypeSafe req es R ∧ IsBoolR req es R := by
    intro hL
    obtain ⟨a, b, c⟩ := hr (evB_of_agree hl hL)
    exact ⟨c, isBoolR_of_agree a b⟩
  cases L with
  | concrete v t =>
    simp only [andResult]
    cases hv : v.asBool with
    | error e => exact .error _
    | ok b =>
      cases b
      · exact .concrete _ _
      · have := asBool_eq_ok hv
        subst this
        exact (fromR rfl).1
  | error t => exact .error _
  | part lk lt =>
    cases R with
    | concrete w t =>
      simp only [andResult]
      cases hw : w.asBool with
      | error e => exact mkAnd _ (fun _ => ⟨.error _, isBoolR_error _⟩)
      | ok b =>
        cases b
        · simp only
          split
          · exact .concrete _ _
          · exact mkAnd _ (fun _ => ⟨.concrete _ _, isBoolR_mkBool _ _⟩)
        · exact tsL
    | part rk rt => exact mkAnd _ fromR
    | error t => exact mkAnd _ fromR

/-! ### `||` -/

theorem or_arm_g (ty : Ty) (L R l r : Residual)
    (hl : Agree (L.eval req es) (l.eval req es)) (hbl : IsBoolR req es l)
    (hr : EvB req es l false → Agree (R.eval req es) (r.eval req es) ∧ IsBoolR req es r)
    (hef : L.canError = false → ∃ v, L.eval req es = .ok v) :
    Agree ((orResult ty L R).eval req es) (orR (l.eval req es) (r.eval req es)) := by
  rcases agree_cases hl with ⟨v, h1, h2⟩ | ⟨e, e', h1, h2⟩
  · obtain ⟨b, rfl⟩ := hbl v h2
    cases b
    · -- the left operand is `false`
      obtain ⟨hR, hbr⟩ := hr h2
      have horig : orR (l.eval req es) (r.eval req es) = r.eval req es := by
        rw [h2]
        cases hy : r.eval req es with
        | error e => simp [orR, asBool_bool]
        | ok w => obtain ⟨b, rfl⟩ := hbr w hy; simp [orR, asBool_bool]
      cases L with
      | concrete v' t =>
        simp only [Residual.eval, Except.ok.injEq] at h1; subst h1
        rw [horig]
        simpa [orResult, asBool_bool] using hR
      | error t => simp [Residual.eval] at h1
      | part lk lt =>
        have key : ∀ R' : Residual, Agree (R'.eval req es) (r.eval req es) →
            Agree ((Residual.part (.or (.part lk lt) R') ty).eval req es) (orR (l.eval req es) (r.eval req es)) := by
          intro R' h'
          simp only [Residual.eval, RKind.eval]
          exact orR_congr hl h'
        cases R with
        | concrete w t =>
          have hrw : r.eval req es = .ok w := agree_ok_left (by simpa [Residual.eval] using hR)
          obtain ⟨b', rfl⟩ := hbr w hrw
          cases b'
          · simp only [orResult, asBool_bool]
            rw [horig, hrw, h1]; simp [Agree]
          · simp only [orResult, asBool_bool]
            split
            · rw [horig, hrw]; simp [mkBool, Residual.eval, Agree]
            · exact key _ (by rw [hrw]; simp [mkBool, Residual.eval, Agree])
        | part rk rt => exact key _ hR
        | error t => exact key _ hR
    · -- the left operand is `true`
      have horig : orR (l.eval req es) (r.eval req es) = .ok (.prim (.bool true)) := by rw [h2]; simp [orR, asBool_bool]
      rw [horig]
      cases L with
      | concrete v' t =>
        simp only [Residual.eval, Except.ok.injEq] at h1; subst h1
        simp [orResult, asBool_bool, mkBool, Residual.eval, Agree]
      | error t => simp [Residual.eval] at h1
      | part lk lt =>
        simp only [Residual.eval] at h1
        have key : ∀ R' : Residual, Agree ((Residual.part (.or (.part lk lt) R') ty).eval req es) (.ok (.prim (.bool true))) := by
          intro R'; simp [Residual.eval, RKind.eval, h1, orR, asBool_bool, Agree]
        cases R with
        | concrete w t =>
          simp only [orResult]
          cases hw : w.asBool with
          | error e => exact key _
          | ok b' =>
            cases b'
            · simp [Residual.eval, h1, Agree]
            · simp only
              split
              · simp [mkBool, Residual.eval, Agree]
              · exact key _
        | part rk rt => exact key _
        | error t => exact key _
  · -- the left operand errors
    have horig : orR (l.eval req es) (r.eval req es) = .error e' := by rw [h2]; rfl
    rw [horig]
    cases L with
    | concrete v' t => simp [Residual.eval] at h1
    | error t => simp [orResult, Residual.eval, Agree]
    | part lk lt =>
      have h1' := h1
      simp only [Residual.eval] at h1'
      have key : ∀ R' : Residual, Agree ((Residual.part (.or (.part lk lt) R') ty).eval req es) (.error e') := by
        intro R'; simp [Residual.eval, RKind.eval, h1', orR, Agree]
      cases R with
      | concrete w t =>
        simp only [orResult]
        cases hw : w.asBool with
        | error e => exact key _
        | ok b' =>
          cases b'
          · simp [Residual.eval, h1', Agree]
          · simp only
            split
            · rename_i hce
              have hce' : (Residual.part lk lt).canError = false := by simpa using hce
              obtain ⟨v, hv⟩ := hef hce'
              rw [h1] at hv; cases hv
            · exact key _
      | part rk rt => exact key _
      | error t => exact key _

theorem or_arm_ts (ty : Ty) (L R l r : Residual)
    (hl : Agree (L.eval req es) (l.eval req es)) (tsL : TypeSafe req es L) (hbl : IsBoolR req es l)
    (hr : EvB req es l false → Agree (R.eval req es) (r.eval req es) ∧ IsBoolR req es r ∧ TypeSafe req es R) :
    TypeSafe req es (orResult ty L R) := by
  have hbL : IsBoolR req es L := isBoolR_of_agree hl hbl
  have mkOr : ∀ R' : Residual, (EvB req es L false → TypeSafe req es R' ∧ IsBoolR req es R') →
      TypeSafe req es (.part (.or L R') ty) :=
    fun R' h => .or tsL hbL (fun hL => (h hL).1) (fun hL => (h hL).2)
  have fromR : EvB req es L false → TypeSafe req es R ∧ IsBoolR req es R := by
    intro hL
    obtain ⟨a, b, c⟩ := hr (evB_of_agree hl hL)
    exact ⟨c, isBoolR_of_agree a b⟩
  cases L with
  | concrete v t =>
    simp only [orResult]
    cases hv : v.asBool with
    | error e => exact .error _
    | ok b =>
      cases b
      · have := asBool_eq_ok hv
        subst this
        exact (fromR rfl).1
      · exact .concrete _ _
  | error t => exact .error _
  | part lk lt =>
    cases R with
    | concrete w t =>
      simp only [orResult]
      cases hw : w.asBool with
      | error e => exact mkOr _ (fun _ => ⟨.error _, isBoolR_error _⟩)
      | ok b =>
        cases b
        · exact tsL
        · simp only
          split
          · exact .concrete _ _
          · exact mkOr _ (fun _ => ⟨.concrete _ _, isBoolR_mkBool _ _⟩)
    | part rk rt => exact mkOr _ fromR
    | error t => exact mkOr _ fromR

/-! ### `if` -/

def iteResult (ty : Ty) (C T E : Residual) : Residual :=
  match C with
  | .concrete v _ =>
    (match v.asBool with
     | .ok true => T
     | .ok false => E
     | .error _ => .error ty)
  | .part ck cty => .part (.ite (.part ck cty) T E) ty
  | .error _ => .error ty

theorem interpretKind_ite (ty : Ty) (c t e : Residual) :
    interpretKind preq pes ty (.ite c t e) = iteResult ty (interpret preq pes c) (interpret preq pes t) (interpret preq pes e) := by
  rw [interpretKind]
  unfold iteResult
  cases interpret preq pes c <;> rfl

theorem ite_arm_g (ty : Ty) (C T E c t e : Residual)
    (hc : Agree (C.eval req es) (c.eval req es)) (hbc : IsBoolR req es c)
    (ht : EvB req es c true → Agree (T.eval req es) (t.eval req es))
    (he : EvB req es c false → Agree (E.eval req es) (e.eval req es)) :
    Agree ((iteResult ty C T E).eval req es) (iteR (c.eval req es) (t.eval req es) (e.eval req es)) := by
  rcases agree_cases hc with ⟨v, h1, h2⟩ | ⟨er, er', h1, h2⟩
  · obtain ⟨b, rfl⟩ := hbc v h2
    have horig : iteR (c.eval req es) (t.eval req es) (e.eval req es) = (if b then t.eval req es else e.eval req es) := by
      rw [h2]; cases b <;> simp [iteR, asBool_bool]
    rw [horig]
    cases C with
    | concrete v' t' =>
      simp only [Residual.eval, Except.ok.injEq] at h1; subst h1
      cases b
      · simpa [iteResult, asBool_bool] using he h2
      · simpa [iteResult, asBool_bool] using ht h2
    | error t' => simp [Residual.eval] at h1
    | part ck ct =>
      simp only [Residual.eval] at h1
      simp only [iteResult, Residual.eval, RKind.eval, h1]
      cases b
      · simpa [iteR, asBool_bool] using he h2
      · simpa [iteR, asBool_bool] using ht h2
  · rw [h2]
    cases C with
    | concrete v' t' => simp [Residual.eval] at h1
    | error t' => simp [iteResult, Residual.eval, iteR, Agree]
    | part ck ct =>
      simp only [Residual.eval] at h1
      simp [iteResult, Residual.eval, RKind.eval, h1, iteR, Agree]

theorem ite_arm_ts (ty : Ty) (C T E c : Residual)
    (hc : Agree (C.eval req es) (c.eval req es)) (tsC : TypeSafe req es C) (hbc : IsBoolR req es c)
    (ht : EvB req es c true → TypeSafe req es T) (he : EvB req es c false → TypeSafe req es E) :
    TypeSafe req es (iteResult ty C T E) := by
  cases C with
  | concrete v t' =>
    simp only [iteResult]
    cases hv : v.asBool with
    | error e => exact .error _
    | ok b =>
      have := asBool_eq_ok hv
      subst this
      cases b
      · exact he (evB_of_agree hc rfl)
      · exact ht (evB_of_agree hc rfl)
  | error t' => exact .error _
  | part ck ct =>
    exact .ite tsC (isBoolR_of_agree hc hbc) (fun h => ht (evB_of_agree hc h)) (fun h => he (evB_of_agree hc h))

/-! ### unary operators, `like`, `is`, `.`, `has` -/

def unaryResult (ty : Ty) (op : UnaryOp) (A : Residual) : Residual :=
  match A with
  | .concrete v _ => ofResult ty (applyUnary op v)
  | .part k kty => .part (.unaryApp op (.part k kty)) ty
  | .error _ => .error ty

theorem interpretKind_unary (ty : Ty) (op : UnaryOp) (a : Residual) :
    interpretKind preq pes ty (.unaryApp op a) = unaryResult ty op (interpret preq pes a) := by
  rw [interpretKind]; unfold unaryResult; cases interpret preq pes a <;> rfl

theorem unary_arm2 (ty : Ty) (op : UnaryOp) (A a : Residual)
    (hA : Agree (A.eval req es) (a.eval req es)) (tsA : TypeSafe req es A)
    (hsh : ∀ v, a.eval req es = .ok v → applyUnary op v ≠ .error .type) :
    Agree ((unaryResult ty op A).eval req es) (bindR (a.eval req es) (applyUnary op)) ∧ TypeSafe req es (unaryResult ty op A) := by
  cases A with
  | concrete v t =>
    have hx : a.eval req es = .ok v := agree_ok_left (by simpa [Residual.eval] using hA)
    rw [hx]
    exact ⟨agree_ofResult ty req es _, ts_ofResult _ _⟩
  | part k t =>
    refine ⟨?_, .unary tsA (fun v hv => hsh v (ok_of_agree hA hv))⟩
    simp only [unaryResult, Residual.eval, RKind.eval]; exact bindR_congr _ hA
  | error t =>
    obtain ⟨e', he'⟩ := agree_err_left (by simpa [Residual.eval] using hA)
    exact ⟨by simp [unaryResult, he', Residual.eval, bindR, Agree], .error _⟩

def likeResult (ty : Ty) (p : Pattern) (A : Residual) : Residual :=
  match A with
  | .concrete v _ =>
    (match v.asString with
     | .ok s => mkBool (wm p s.toList) ty
     | .error _ => .error ty)
  | .part k kty => .part (.like (.part k kty) p) ty
  | .error _ => .error ty

theorem interpretKind_like (ty : Ty) (p : Pattern) (a : Residual) :
    interpretKind preq pes ty (.like a p) = likeResult ty p (interpret preq pes a) := by
  rw [interpretKind]; unfold likeResult; cases interpret preq pes a <;> rfl

theorem like_arm2 (ty : Ty) (p : Pattern) (A a : Residual)
    (hA : Agree (A.eval req es) (a.eval req es)) (tsA : TypeSafe req es A)
    (hsh : ∀ v, a.eval req es = .ok v → likeV p v ≠ .error .type) :
    Agree ((likeResult ty p A).eval req es) (bindR (a.eval req es) (likeV p)) ∧ TypeSafe req es (likeResult ty p A) := by
  cases A with
  | concrete v t =>
    have hx : a.eval req es = .ok v := agree_ok_left (by simpa [Residual.eval] using hA)
    rw [hx]
    simp only [likeResult, bindR, likeV]
    cases v.asString with
    | error e => exact ⟨by simp [Residual.eval, Agree], .error _⟩
    | ok s => exact ⟨by simp [mkBool, Residual.eval, Agree], .concrete _ _⟩
  | part k t =>
    refine ⟨?_, .like tsA (fun v hv => hsh v (ok_of_agree hA hv))⟩
    simp only [likeResult, Residual.eval, RKind.eval]; exact bindR_congr _ hA
  | error t =>
    obtain ⟨e', he'⟩ := agree_err_left (by simpa [Residual.eval] using hA)
    exact ⟨by simp [likeResult, he', Residual.eval, bindR, Agree], .error _⟩

def isResult (preq : PRequest) (ty : Ty) (ety : EntityType) (A : Residual) : Residual :=
  match A with
  | .concrete v _ =>
    (match v.asEntity with
     | .ok u => mkBool (u.ty == ety) ty
     | .error _ => .error ty)
  | .part (.var .principal) _ => mkBool (ety == preq.principal.ty) ty
  | .part (.var .resource) _ => mkBool (ety == preq.resource.ty) ty
  | .part k kty => .part (.is (.part k kty) ety) ty
  | .error _ => .error ty

theorem interpretKind_is (ty : Ty) (ety : EntityType) (a : Residual) :
    interpretKind preq pes ty (.is a ety) = isResult preq ty ety (interpret preq pes a) := by
  rw [interpretKind]; unfold isResult
  cases interpret preq pes a with
  | concrete v t => rfl
  | error t => rfl
  | part k t =>
    cases k with
    | var x => cases x <;> rfl
    | _ => rfl

theorem is_arm2 (hC : Completes preq pes req es) (ty : Ty) (ety : EntityType) (A a : Residual)
    (hA : Agree (A.eval req es) (a.eval req es)) (tsA : TypeSafe req es A)
    (hsh : ∀ v, a.eval req es = .ok v → isV ety v ≠ .error .type) :
    Agree ((isResult preq ty ety A).eval req es) (bindR (a.eval req es) (isV ety)) ∧ TypeSafe req es (isResult preq ty ety A) := by
  cases A with
  | concrete v t =>
    have hx : a.eval req es = .ok v := agree_ok_left (by simpa [Residual.eval] using hA)
    rw [hx]
    simp only [isResult, bindR, isV]
    cases v.asEntity with
    | error e => exact ⟨by simp [Residual.eval, Agree], .error _⟩
    | ok s => exact ⟨by simp [mkBool, Residual.eval, Agree], .concrete _ _⟩
  | error t =>
    obtain ⟨e', he'⟩ := agree_err_left (by simpa [Residual.eval] using hA)
    exact ⟨by simp [isResult, he', Residual.eval, bindR, Agree], .error _⟩
  | part k t =>
    have generic : Agree ((Residual.part (.is (.part k t) ety) ty).eval req es) (bindR (a.eval req es) (isV ety)) ∧
        TypeSafe req es (.part (.is (.part k t) ety) ty) := by
      refine ⟨?_, .is tsA (fun v hv => hsh v (ok_of_agree hA hv))⟩
      simp only [Residual.eval, RKind.eval]; exact bindR_congr _ hA
    cases k with
    | var x =>
      cases x with
      | principal =>
        have hx : a.eval req es = .ok (.prim (.entityUID req.principal)) :=
          agree_ok_left (by simpa [Residual.eval, RKind.eval] using hA)
        exact ⟨by simp [isResult, hx, bindR, isV, Value.asEntity, mkBool, Residual.eval, Agree, hC.ptype, beq_comm_str ety],
          .concrete _ _⟩
      | resource =>
        have hx : a.eval req es = .ok (.prim (.entityUID req.resource)) :=
          agree_ok_left (by simpa [Residual.eval, RKind.eval] using hA)
        exact ⟨by simp [isResult, hx, bindR, isV, Value.asEntity, mkBool, Residual.eval, Agree, hC.rtype, beq_comm_str ety],
          .concrete _ _⟩
      | action => exact generic
      | context => exact generic
    | _ => exact generic

def getAttrResult (pes : PEntities) (ty : Ty) (a : String) (A : Residual) : Residual :=
  match A with
  | .concrete (.record kvs) _ =>
    (match lookupKV kvs a with | some x => .concrete x ty | none => .error ty)
  | .concrete (.prim (.entityUID u)) vty =>
    (match pes.attrs? u with
     | some attrs => (match lookupKV attrs a with | some x => .concrete x ty | none => .error ty)
     | none => .part (.getAttr (.concrete (.prim (.entityUID u)) vty) a) ty)
  | .concrete _ _ => .error ty
  | .part k kty => .part (.getAttr (.part k kty) a) ty
  | .error _ => .error ty

theorem interpretKind_getAttr (ty : Ty) (a : String) (e : Residual) :
    interpretKind preq pes ty (.getAttr e a) = getAttrResult pes ty a (interpret preq pes e) := by
  rw [interpretKind]; unfold getAttrResult
  cases interpret preq pes e with
  | concrete v t =>
    cases v with
    | prim p => cases p <;> rfl
    | _ => rfl
  | error t => rfl
  | part k t => rfl

theorem getAttr_arm2 (hC : Completes preq pes req es) (ty : Ty) (a : String) (A e : Residual)
    (hA : Agree (A.eval req es) (e.eval req es)) (tsA : TypeSafe req es A) :
    Agree ((getAttrResult pes ty a A).eval req es) (bindR (e.eval req es) (getAttrV es a)) ∧
      TypeSafe req es (getAttrResult pes ty a A) := by
  cases A with
  | error t =>
    obtain ⟨e', he'⟩ := agree_err_left (by simpa [Residual.eval] using hA)
    exact ⟨by simp [getAttrResult, he', Residual.eval, bindR, Agree], .error _⟩
  | part k t =>
    refine ⟨?_, .getAttr tsA⟩
    simp only [getAttrResult, Residual.eval, RKind.eval]; exact bindR_congr _ hA
  | concrete v t =>
    have hx : e.eval req es = .ok v := agree_ok_left (by simpa [Residual.eval] using hA)
    rw [hx]; simp only [bindR]
    cases v with
    | record kvs =>
      simp only [getAttrResult, getAttrV]
      cases lookupKV kvs a
      · exact ⟨by simp [Residual.eval, Agree], .error _⟩
      · exact ⟨by simp [Residual.eval, Agree], .concrete _ _⟩
    | set vs => exact ⟨by simp [getAttrResult, getAttrV, Residual.eval, Agree], .error _⟩
    | ext x => exact ⟨by simp [getAttrResult, getAttrV, Residual.eval, Agree], .error _⟩
    | prim p =>
      cases p with
      | entityUID u =>
        simp only [getAttrResult]
        cases ha : pes.attrs? u with
        | none =>
          refine ⟨?_, .getAttr (.concrete _ _)⟩
          simp only [Residual.eval, RKind.eval, bindR]; exact Agree.rfl' _
        | some attrs =>
          obtain ⟨d, hd, hda⟩ := hC.attrs u attrs ha
          simp only [getAttrV, hd, hda]
          cases lookupKV attrs a
          · exact ⟨by simp [Residual.eval, Agree], .error _⟩
          · exact ⟨by simp [Residual.eval, Agree], .concrete _ _⟩
      | bool b => exact ⟨by simp [getAttrResult, getAttrV, Residual.eval, Agree], .error _⟩
      | int i => exact ⟨by simp [getAttrResult, getAttrV, Residual.eval, Agree], .error _⟩
      | string s => exact ⟨by simp [getAttrResult, getAttrV, Residual.eval, Agree], .error _⟩

def hasAttrResult (pes : PEntities) (ty : Ty) (a : String) (A : Residual) : Residual :=
  match A with
  | .concrete (.record kvs) _ => mkBool (lookupKV kvs a).isSome ty
  | .concrete (.prim (.entityUID u)) vty =>
    (match pes.attrs? u with
     | some attrs => mkBool (lookupKV attrs a).isSome ty
     | none => .part (.hasAttr (.concrete (.prim (.entityUID u)) vty) a) ty)
  | .concrete _ _ => .error ty
  | .part k kty => .part (.hasAttr (.part k kty) a) ty
  | .error _ => .error ty

theorem interpretKind_hasAttr (ty : Ty) (a : String) (e : Residual) :
    interpretKind preq pes ty (.hasAttr e a) = hasAttrResult pes ty a (interpret preq pes e) := by
  rw [interpretKind]; unfold hasAttrResult
  cases interpret preq pes e with
  | concrete v t =>
    cases v with
    | prim p => cases p <;> rfl
    | _ => rfl
  | error t => rfl
  | part k t => rfl

theorem hasAttr_arm2 (hC : Completes preq pes req es) (ty : Ty) (a : String) (A e : Residual)
    (hA : Agree (A.eval req es) (e.eval req es)) (tsA : TypeSafe req es A)
    (hsh : ∀ v, e.eval req es = .ok v → hasAttrV [] a v ≠ .error .type) :
    Agree ((hasAttrResult pes ty a A).eval req es) (bindR (e.eval req es) (hasAttrV es a)) ∧
      TypeSafe req es (hasAttrResult pes ty a A) := by
  cases A with
  | error t =>
    obtain ⟨e', he'⟩ := agree_err_left (by simpa [Residual.eval] using hA)
    exact ⟨by simp [hasAttrResult, he', Residual.eval, bindR, Agree], .error _⟩
  | part k t =>
    refine ⟨?_, .hasAttr tsA (fun v hv => hsh v (ok_of_agree hA hv))⟩
    simp only [hasAttrResult, Residual.eval, RKind.eval]; exact bindR_congr _ hA
  | concrete v t =>
    have hx : e.eval req es = .ok v := agree_ok_left (by simpa [Residual.eval] using hA)
    rw [hx]; simp only [bindR]
    cases v with
    | record kvs => exact ⟨by simp [hasAttrResult, hasAttrV, mkBool, Residual.eval, Agree], .concrete _ _⟩
    | set vs => exact ⟨by simp [hasAttrResult, hasAttrV, Residual.eval, Agree], .error _⟩
    | ext x => exact ⟨by simp [hasAttrResult, hasAttrV, Residual.eval, Agree], .error _⟩
    | prim p =>
      cases p with
      | entityUID u =>
        simp only [hasAttrResult]
        cases ha : pes.attrs? u with
        | none =>
          refine ⟨?_, .hasAttr (.concrete _ _) (fun w hw => ?_)⟩
          · simp only [Residual.eval, RKind.eval, bindR]; exact Agree.rfl' _
          · simp only [Residual.eval, Except.ok.injEq] at hw; subst hw; simp [hasAttrV, Entities.find?]
        | some attrs =>
          obtain ⟨d, hd, hda⟩ := hC.attrs u attrs ha
          exact ⟨by simp [hasAttrV, hd, hda, mkBool, Residual.eval, Agree], .concrete _ _⟩
      | bool b => exact ⟨by simp [hasAttrResult, hasAttrV, Residual.eval, Agree], .error _⟩
      | int i => exact ⟨by simp [hasAttrResult, hasAttrV, Residual.eval, Agree], .error _⟩
      | string s => exact ⟨by simp [hasAttrResult, hasAttrV, Residual.eval, Agree], .error _⟩

/-! ### binary operators -/

theorem interpretBinary_ts (ty : Ty) (op : BinaryOp) (v1 v2 : Value) (t1 t2 : Ty)
    (hsh : applyBinary [] op v1 v2 ≠ .error .type) :
    TypeSafe req es (interpretBinary pes ty op v1 v2 (.concrete v1 t1) (.concrete v2 t2)) := by
  have resid : TypeSafe req es (.part (.binaryApp op (.concrete v1 t1) (.concrete v2 t2)) ty) := by
    refine .binary (.concrete _ _) (.concrete _ _) ?_
    intro w1 w2 h1 h2
    simp only [Residual.eval, Except.ok.injEq] at h1 h2
    subst h1; subst h2; exact hsh
  unfold interpretBinary
  cases op <;> simp only <;> (repeat' split) <;>
    first
    | exact resid
    | exact .concrete _ _
    | exact .error _
    | exact ts_ofResult _ _

theorem binary_arm_ts (ty : Ty) (op : BinaryOp) (A B a b : Residual)
    (hA : Agree (A.eval req es) (a.eval req es)) (hB : Agree (B.eval req es) (b.eval req es))
    (tsA : TypeSafe req es A) (tsB : TypeSafe req es B)
    (hsh : ∀ v1 v2, a.eval req es = .ok v1 → b.eval req es = .ok v2 → applyBinary [] op v1 v2 ≠ .error .type) :
    TypeSafe req es (binaryResult pes ty op A B) := by
  have generic : TypeSafe req es (.part (.binaryApp op A B) ty) :=
    .binary tsA tsB (fun v1 v2 h1 h2 => hsh v1 v2 (ok_of_agree hA h1) (ok_of_agree hB h2))
  cases A with
  | error t => exact .error _
  | concrete v1 t1 =>
    cases B with
    | error t => exact .error _
    | concrete v2 t2 =>
      exact interpretBinary_ts ty op v1 v2 t1 t2 (hsh v1 v2 (ok_of_agree hA rfl) (ok_of_agree hB rfl))
    | part k t => exact generic
  | part k t =>
    cases B with
    | error t2 => exact .error _
    | concrete v2 t2 => exact generic
    | part k2 t2 => exact generic

/-! ### n-ary nodes -/

theorem mem_interpretList {args : List Residual} {r' : Residual} (h : r' ∈ interpretList preq pes args) :
    ∃ r, r ∈ args ∧ r' = interpret preq pes r := by
  induction args with
  | nil => simp [interpretList] at h
  | cons a l ih =>
    rw [interpretList] at h
    rcases List.mem_cons.mp h with rfl | h
    · exact ⟨a, by simp, rfl⟩
    · obtain ⟨r, hr, rfl⟩ := ih h; exact ⟨r, by simp [hr], rfl⟩

theorem mem_interpretKVs {kvs : List (String × Residual)} {kv' : String × Residual} (h : kv' ∈ interpretKVs preq pes kvs) :
    ∃ kv, kv ∈ kvs ∧ kv'.2 = interpret preq pes kv.2 := by
  induction kvs with
  | nil => simp [interpretKVs] at h
  | cons a l ih =>
    obtain ⟨k, r⟩ := a
    rw [interpretKVs] at h
    rcases List.mem_cons.mp h with rfl | h
    · exact ⟨(k, r), by simp, rfl⟩
    · obtain ⟨kv, hkv, hh⟩ := ih h; exact ⟨kv, by simp [hkv], hh⟩

theorem list_arm_ts (ty : Ty) (rs : List Residual) (onVals : List Value → Residual) (mk : List Residual → RKind)
    (hon : ∀ vals, TypeSafe req es (onVals vals)) (hmk : TypeSafe req es (.part (mk rs) ty)) :
    TypeSafe req es (listResult ty rs onVals mk) := by
  unfold listResult
  cases allConcrete rs with
  | some vals => exact hon vals
  | none =>
    simp only
    split
    · exact .error _
    · exact hmk

theorem record_arm_ts (ty : Ty) (rs : List (String × Residual)) (hmk : TypeSafe req es (.part (.record rs) ty)) :
    TypeSafe req es (recordResult ty rs) := by
  unfold recordResult
  cases allConcreteKVs rs with
  | some vals => exact .concrete _ _
  | none =>
    simp only
    split
    · exact .error _
    · exact hmk

/-! ### the induction -/

/-- **`interpret` is sound on type-safe residuals, and keeps them type-safe** — every constructor of `Residual`, no
hypothesis about the residuals `interpret` produces, no hypothesis about the can-error analysis. -/
theorem interpret_typeSafe (hC : Completes preq pes req es) {r : Residual} (h : TypeSafe req es r) :
    Agree ((interpret preq pes r).eval req es) (r.eval req es) ∧ TypeSafe req es (interpret preq pes r) := by
  induction h with
  | concrete v ty => exact ⟨by simp [interpret, Residual.eval, Agree], by rw [interpret]; exact .concrete _ _⟩
  | error ty => exact ⟨by simp [interpret, Residual.eval, Agree], by rw [interpret]; exact .error _⟩
  | var x ty =>
    refine ⟨by rw [interpret]; exact sound_var hC x ty, ?_⟩
    rw [interpret]
    cases x
    · rw [interpretKind]; cases preq.principal.uid? <;> first | exact .concrete _ _ | exact .var _ _
    · rw [interpretKind]; exact .concrete _ _
    · rw [interpretKind]; cases preq.resource.uid? <;> first | exact .concrete _ _ | exact .var _ _
    · rw [interpretKind]; cases preq.context <;> first | exact .concrete _ _ | exact .var _ _
  | @and l r ty _ hbl _ hbr ihl ihr =>
    rw [interpret, interpretKind_and]
    simp only [Residual.eval, RKind.eval]
    exact ⟨and_arm_g ty _ _ l r ihl.1 hbl (fun ht => ⟨(ihr ht).1, hbr ht⟩) (typeSafe_errFree ihl.2),
      and_arm_ts ty _ _ l r ihl.1 ihl.2 hbl (fun ht => ⟨(ihr ht).1, hbr ht, (ihr ht).2⟩)⟩
  | @or l r ty _ hbl _ hbr ihl ihr =>
    rw [interpret, interpretKind_or]
    simp only [Residual.eval, RKind.eval]
    exact ⟨or_arm_g ty _ _ l r ihl.1 hbl (fun ht => ⟨(ihr ht).1, hbr ht⟩) (typeSafe_errFree ihl.2),
      or_arm_ts ty _ _ l r ihl.1 ihl.2 hbl (fun ht => ⟨(ihr ht).1, hbr ht, (ihr ht).2⟩)⟩
  | @ite c t e ty _ hbc _ _ ihc iht ihe =>
    rw [interpret, interpretKind_ite]
    simp only [Residual.eval, RKind.eval]
    exact ⟨ite_arm_g ty _ _ _ c t e ihc.1 hbc (fun h => (iht h).1) (fun h => (ihe h).1),
      ite_arm_ts ty _ _ _ c ihc.1 ihc.2 hbc (fun h => (iht h).2) (fun h => (ihe h).2)⟩
  | @unary op a ty _ hsh ih =>
    rw [interpret, interpretKind_unary]
    simp only [Residual.eval, RKind.eval]
    exact unary_arm2 ty op _ a ih.1 ih.2 hsh
  | @binary op a b ty _ _ hsh iha ihb =>
    rw [interpret, interpretKind_binary]
    simp only [Residual.eval, RKind.eval]
    exact ⟨binary_arm hC ty op _ _ _ _ iha.1 ihb.1, binary_arm_ts ty op _ _ a b iha.1 ihb.1 iha.2 ihb.2 hsh⟩
  | @getAttr e a ty _ ih =>
    rw [interpret, interpretKind_getAttr]
    simp only [Residual.eval, RKind.eval]
    exact getAttr_arm2 hC ty a _ e ih.1 ih.2
  | @hasAttr e a ty _ hsh ih =>
    rw [interpret, interpretKind_hasAttr]
    simp only [Residual.eval, RKind.eval]
    exact hasAttr_arm2 hC ty a _ e ih.1 ih.2 hsh
  | @like e p ty _ hsh ih =>
    rw [interpret, interpretKind_like]
    simp only [Residual.eval, RKind.eval]
    exact like_arm2 ty p _ e ih.1 ih.2 hsh
  | @is e ety ty _ hsh ih =>
    rw [interpret, interpretKind_is]
    simp only [Residual.eval, RKind.eval]
    exact is_arm2 hC ty ety _ e ih.1 ih.2 hsh
  | @call fn args ty _ ih =>
    rw [interpret, interpretKind_call]
    simp only [Residual.eval, eval_call]
    refine ⟨list_arm ty _ _ _ (callExt fn) _ (evalList_interp args (fun r hr => (ih r hr).1))
      (fun vals => agree_ofResult ty req es _) (fun rs => eval_call fn rs), ?_⟩
    refine list_arm_ts ty _ _ _ (fun vals => ts_ofResult _ _) (.call ?_)
    intro r' hr'
    obtain ⟨r, hr, rfl⟩ := mem_interpretList hr'
    exact (ih r hr).2
  | @set xs ty _ ih =>
    rw [interpret, interpretKind_set]
    simp only [Residual.eval, eval_set]
    refine ⟨list_arm ty _ _ _ (fun vs => .ok (.set (Value.mkSet vs))) _ (evalList_interp xs (fun r hr => (ih r hr).1))
      (fun vals => by simp [Residual.eval, Agree]) (fun rs => eval_set rs), ?_⟩
    refine list_arm_ts ty _ _ _ (fun vals => .concrete _ _) (.set ?_)
    intro r' hr'
    obtain ⟨r, hr, rfl⟩ := mem_interpretList hr'
    exact (ih r hr).2
  | @record kvs ty _ ih =>
    rw [interpret, interpretKind_record]
    simp only [Residual.eval, eval_record]
    refine ⟨record_arm ty _ _ (evalKVs_interp kvs (fun kv hkv => (ih kv hkv).1)), ?_⟩
    refine record_arm_ts ty _ (.record ?_)
    intro kv' hkv'
    obtain ⟨kv, hkv, heq⟩ := mem_interpretKVs hkv'
    rw [heq]
    exact (ih kv hkv).2

end Cedar.Tpe
