import CedarVerif.Lemmas.PartialSound5
/- Extension functions satisfying the side condition `CallDRT` of the fragment: those returning Booleans / longs. -/
namespace Cedar

theorem prim_DRT (p : Prim) : (Value.prim p).DRT := by simp [Value.DRT]

theorem callExt2_cmp_DRT {f : Int → Int → Bool} {a b w : Value}
    (h : (do let x ← a.asDecimal; let y ← b.asDecimal; Except.ok (vbool (f x y)) : Result Value) = .ok w) : w.DRT := by
  simp only [bind, Except.bind] at h
  cases h1 : a.asDecimal <;> simp only [h1] at h
  · cases h
  · cases h2 : b.asDecimal <;> simp only [h2] at h
    · cases h
    · cases h; exact prim_DRT _

/-- the comparison functions on decimals return Booleans -/
theorem callDRT_decimalCmp (fn : String)
    (h : fn = "lessThan" ∨ fn = "lessThanOrEqual" ∨ fn = "greaterThan" ∨ fn = "greaterThanOrEqual") : CallDRT fn := by
  intro vs w hw
  rcases h with rfl | rfl | rfl | rfl <;>
  · simp only [callExt, extFnArity] at hw
    split at hw
    · cases hw
    · split at hw
      · simp [callExt1] at hw
      · simp only [callExt2] at hw
        exact callExt2_cmp_DRT hw
      · cases hw
theorem vbool_DRT (b : Bool) : (vbool b).DRT := prim_DRT _
theorem vint_DRT (i : Int) : (vint i).DRT := prim_DRT _

/-- the predicates on ip addresses return Booleans, the conversions of durations return longs -/
theorem callDRT_unaryPrim (fn : String)
    (h : fn = "isIpv4" ∨ fn = "isIpv6" ∨ fn = "isLoopback" ∨ fn = "isMulticast" ∨ fn = "toMilliseconds" ∨
      fn = "toSeconds" ∨ fn = "toMinutes" ∨ fn = "toHours" ∨ fn = "toDays") : CallDRT fn := by
  intro vs w hw
  rcases h with rfl | rfl | rfl | rfl | rfl | rfl | rfl | rfl | rfl <;>
  · simp only [callExt, extFnArity] at hw
    split at hw
    · cases hw
    · split at hw
      · simp only [callExt1, bind, Except.bind] at hw
        split at hw <;> first | (cases hw; first | exact vbool_DRT _ | exact vint_DRT _) | cases hw
      · simp [callExt2] at hw
      · cases hw

theorem callDRT_isInRange : CallDRT "isInRange" := by
  intro vs w hw
  simp only [callExt, extFnArity] at hw
  split at hw
  · cases hw
  · split at hw
    · simp [callExt1] at hw
    · simp only [callExt2] at hw
      split at hw <;> first | (cases hw; exact vbool_DRT _) | cases hw
    · cases hw
end Cedar
